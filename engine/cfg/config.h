/* Fixed configuration used by the verification builds (x86-64 sandbox):
 * matches what meson generates for /repo/_build, minus test-only items. */
#pragma once
#define HAVE_ALARM 1
#define HAVE_BUILTIN_CLZ 1
#define HAVE_FEDIVBYZERO 1
#define HAVE_FEENABLEEXCEPT 1
#define HAVE_FENV_H 1
#define HAVE_FLOAT128 1
#define HAVE_GCC_VECTOR_EXTENSIONS 1
#define HAVE_GETPAGESIZE 1
#define HAVE_GETTIMEOFDAY 1
#define HAVE_MMAP 1
#define HAVE_MPROTECT 1
#define HAVE_POSIX_MEMALIGN 1
#define HAVE_PTHREADS 1
#define HAVE_SIGACTION 1
#define HAVE_SYS_MMAN_H 1
#define HAVE_UNISTD_H 1
#define PACKAGE foo
#define SIZEOF_LONG 8
#define TLS __thread
#define TOOLCHAIN_SUPPORTS_ATTRIBUTE_CONSTRUCTOR 1
#define USE_GCC_INLINE_ASM 1
#define USE_SSE2 1
#define USE_SSSE3 1
#define USE_X86_MMX 1
