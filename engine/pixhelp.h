/* pixhelp.h — helpers shared by the drawing checks:
 *   - implementation configurations (PIXMAN_DISABLE subsets) switched in-process,
 *   - raw pixel access for every bpp, format descriptors derived from the format code,
 *   - small image/buffer utilities.
 * Independent of the library's own pixel code (only pixman.h's PIXMAN_FORMAT_* field macros are used).
 */
#ifndef PIXHELP_H
#define PIXHELP_H
#include <pixman.h>
#include <stdint.h>
#include <stdlib.h>
#include <string.h>
#include <stdio.h>
#include <unistd.h>
#include <fcntl.h>

/* ---------------- implementation configurations ---------------- */
typedef struct pixman_implementation_t pixman_implementation_t;
extern pixman_implementation_t *global_implementation;
pixman_implementation_t *_pixman_choose_implementation(void);

#define PH_CFG_FAST     1
#define PH_CFG_MMX      2
#define PH_CFG_SSE2     4
#define PH_CFG_SSSE3    8
#define PH_CFG_WHOLEOPS 16
#define PH_NCFG 32
#define PH_CFG_DEFAULT 0                                 /* nothing disabled */
#define PH_CFG_GENERAL (PH_CFG_FAST | PH_CFG_MMX | PH_CFG_SSE2 | PH_CFG_SSSE3)   /* portable general path only */

static pixman_implementation_t *ph_imp[PH_NCFG];
static int ph_cur_cfg = -1;
static volatile int ph_in_flush;      /* set while ph_set_cfg() runs its cache-flushing composites */
static pixman_image_t *ph_flush_img[2];

static const char *ph_cfg_name(int cfg, char *buf, size_t cap)
{
    static const char *nm[] = { "fast", "mmx", "sse2", "ssse3", "wholeops" };
    size_t l = 0; buf[0] = 0;
    for (int b = 0; b < 5; b++) if (cfg >> b & 1) l += snprintf(buf + l, cap - l, "%s%s", l ? " " : "", nm[b]);
    if (!l) snprintf(buf, cap, "(none disabled)");
    return buf;
}

/* Build all 32 implementation chains once (stdout silenced: the library announces each disabled name). */
static void ph_init_cfgs(void)
{
    if (ph_imp[0]) return;
    /* the per-thread fast-path cache must be flushable by ph_set_cfg(): check its size in the source */
    {
        const char *repo = getenv("VERIF_REPO"); if (!repo) repo = "/repo";
        char path[600]; snprintf(path, sizeof path, "%s/pixman/pixman-implementation.c", repo);
        FILE *f = fopen(path, "r"); int n = -1; char line[400];
        if (f) { while (fgets(line, sizeof line, f)) if (sscanf(line, "#define N_CACHED_FAST_PATHS %d", &n) == 1) break; fclose(f); }
        if (n < 1 || n > 24) { fprintf(stderr, "HARD-ERROR: N_CACHED_FAST_PATHS=%d not in 1..24; ph_set_cfg cannot flush the cache\n", n); exit(2); }
    }
    fflush(stdout);
    int saved = dup(1), nul = open("/dev/null", O_WRONLY);
    dup2(nul, 1);
    for (int cfg = 0; cfg < PH_NCFG; cfg++) {
        char buf[64] = ""; size_t l = 0;
        static const char *nm[] = { "fast", "mmx", "sse2", "ssse3", "wholeops" };
        for (int b = 0; b < 5; b++) if (cfg >> b & 1) l += snprintf(buf + l, sizeof buf - l, "%s%s", l ? " " : "", nm[b]);
        setenv("PIXMAN_DISABLE", buf, 1);
        ph_imp[cfg] = _pixman_choose_implementation();
    }
    fflush(stdout);
    dup2(saved, 1); close(saved); close(nul);
    unsetenv("PIXMAN_DISABLE");
    static uint32_t fb[2][4];
    ph_flush_img[0] = pixman_image_create_bits(PIXMAN_a8r8g8b8, 1, 1, fb[0], 4);
    ph_flush_img[1] = pixman_image_create_bits(PIXMAN_a8r8g8b8, 1, 1, fb[1], 4);
    ph_cur_cfg = -1;
}

/* Make `cfg` the active implementation chain for this thread.  The thread-local fast-path cache (8 entries,
 * exact match on op/formats/flags) may hold function pointers of the previous chain; 26 composites with
 * distinct operators on a dedicated image pair replace every entry with entries of the new chain. */
static void ph_set_cfg(int cfg)
{
    if (!ph_imp[0]) ph_init_cfgs();
    if (cfg == ph_cur_cfg) return;
    global_implementation = ph_imp[cfg];
    ph_cur_cfg = cfg;
    static const pixman_op_t ops[] = {
        PIXMAN_OP_CLEAR, PIXMAN_OP_SRC, PIXMAN_OP_OVER, PIXMAN_OP_OVER_REVERSE, PIXMAN_OP_IN, PIXMAN_OP_IN_REVERSE, PIXMAN_OP_OUT,
        PIXMAN_OP_OUT_REVERSE, PIXMAN_OP_ATOP, PIXMAN_OP_ATOP_REVERSE, PIXMAN_OP_XOR, PIXMAN_OP_ADD, PIXMAN_OP_SATURATE,
        PIXMAN_OP_DISJOINT_OVER, PIXMAN_OP_DISJOINT_IN, PIXMAN_OP_DISJOINT_OUT, PIXMAN_OP_DISJOINT_ATOP, PIXMAN_OP_DISJOINT_XOR,
        PIXMAN_OP_CONJOINT_OVER, PIXMAN_OP_CONJOINT_IN, PIXMAN_OP_CONJOINT_OUT, PIXMAN_OP_CONJOINT_ATOP, PIXMAN_OP_CONJOINT_XOR,
        PIXMAN_OP_MULTIPLY, PIXMAN_OP_SCREEN, PIXMAN_OP_OVERLAY };
    ph_in_flush = 1;
    for (unsigned i = 0; i < sizeof ops / sizeof ops[0]; i++)
        pixman_image_composite32(ops[i], ph_flush_img[0], NULL, ph_flush_img[1], 0, 0, 0, 0, 0, 0, 1, 1);
    ph_in_flush = 0;
}

/* ---------------- format descriptors (from the format code only) ---------------- */
typedef struct {
    pixman_format_code_t code;
    const char *name;
    int bpp, type;
    int aw, rw, gw, bw;         /* channel widths */
    int as, rs, gs, bs;         /* channel shifts within the pixel value */
    int is_float, is_srgb, is_indexed, is_yuv;
} ph_fmt_t;

static int ph_fmt_describe(pixman_format_code_t code, const char *name, ph_fmt_t *f)
{
    memset(f, 0, sizeof *f);
    f->code = code; f->name = name;
    f->bpp = PIXMAN_FORMAT_BPP(code); f->type = PIXMAN_FORMAT_TYPE(code);
    f->aw = PIXMAN_FORMAT_A(code); f->rw = PIXMAN_FORMAT_R(code); f->gw = PIXMAN_FORMAT_G(code); f->bw = PIXMAN_FORMAT_B(code);
    switch (f->type) {
    case PIXMAN_TYPE_A:    f->as = 0; break;
    case PIXMAN_TYPE_ARGB: case PIXMAN_TYPE_ARGB_SRGB:
        f->bs = 0; f->gs = f->bw; f->rs = f->bw + f->gw; f->as = f->bw + f->gw + f->rw; f->is_srgb = (f->type == PIXMAN_TYPE_ARGB_SRGB); break;
    case PIXMAN_TYPE_ABGR:
        f->rs = 0; f->gs = f->rw; f->bs = f->rw + f->gw; f->as = f->bw + f->gw + f->rw; break;
    case PIXMAN_TYPE_BGRA:
        /* channels packed from the top of the pixel: B G R A(or X) */
        f->bs = f->bpp - f->bw; f->gs = f->bs - f->gw; f->rs = f->gs - f->rw; f->as = f->rs - f->aw; break;
    case PIXMAN_TYPE_RGBA:
        f->rs = f->bpp - f->rw; f->gs = f->rs - f->gw; f->bs = f->gs - f->bw; f->as = f->bs - f->aw; break;
    case PIXMAN_TYPE_RGBA_FLOAT: f->is_float = 1; break;
    case PIXMAN_TYPE_COLOR: case PIXMAN_TYPE_GRAY: f->is_indexed = 1; break;
    case PIXMAN_TYPE_YUY2: case PIXMAN_TYPE_YV12: f->is_yuv = 1; break;
    default: return 0;
    }
    if (f->aw == 0) f->as = 0;
    return 1;
}
#define PH_FMT(code) ph_fmt_get(code, #code)
static ph_fmt_t ph_fmt_get(pixman_format_code_t code, const char *name)
{
    ph_fmt_t f; ph_fmt_describe(code, name + (strncmp(name, "PIXMAN_", 7) ? 0 : 7), &f); return f;
}

/* raw pixel value access, little-endian host (x86-64).  Float formats are not handled here. */
static inline uint32_t ph_get_pixel(const void *row, int bpp, int x)
{
    const uint8_t *p = row;
    switch (bpp) {
    case 1:  return (((const uint32_t *)row)[x >> 5] >> (x & 31)) & 1;
    case 4:  return (p[x >> 1] >> ((x & 1) * 4)) & 0xf;
    case 8:  return p[x];
    case 16: return ((const uint16_t *)row)[x];
    case 24: return p[3 * x] | p[3 * x + 1] << 8 | (uint32_t)p[3 * x + 2] << 16;
    case 32: return ((const uint32_t *)row)[x];
    }
    return 0;
}
static inline void ph_put_pixel(void *row, int bpp, int x, uint32_t v)
{
    uint8_t *p = row;
    switch (bpp) {
    case 1:  { uint32_t *w = (uint32_t *)row + (x >> 5); *w = (*w & ~(1u << (x & 31))) | ((v & 1) << (x & 31)); break; }
    case 4:  { uint8_t *b = p + (x >> 1); int sh = (x & 1) * 4; *b = (uint8_t)((*b & ~(0xf << sh)) | ((v & 0xf) << sh)); break; }
    case 8:  p[x] = (uint8_t)v; break;
    case 16: ((uint16_t *)row)[x] = (uint16_t)v; break;
    case 24: p[3 * x] = (uint8_t)v; p[3 * x + 1] = (uint8_t)(v >> 8); p[3 * x + 2] = (uint8_t)(v >> 16); break;
    case 32: ((uint32_t *)row)[x] = v; break;
    }
}

/* widen an n-bit channel value to 8 bits by bit replication */
static inline unsigned ph_widen8(unsigned v, int n)
{
    if (n == 0) return 0;
    if (n >= 8) return v >> (n - 8);
    unsigned r = v << (8 - n); int have = n;
    while (have < 8) { r |= r >> have; have *= 2; }
    return r & 0xff;
}
/* channel c of pixel p: 0=a 1=r 2=g 3=b; missing alpha reads as full, missing colour as 0 */
static inline unsigned ph_chan_raw(const ph_fmt_t *f, uint32_t p, int c, int *width)
{
    int w = c == 0 ? f->aw : c == 1 ? f->rw : c == 2 ? f->gw : f->bw;
    int s = c == 0 ? f->as : c == 1 ? f->rs : c == 2 ? f->gs : f->bs;
    *width = w;
    if (!w) return 0;
    return (p >> s) & ((1u << w) - 1);
}
static inline uint32_t ph_to_8888(const ph_fmt_t *f, uint32_t p)
{
    unsigned ch[4];
    for (int c = 0; c < 4; c++) { int w; unsigned v = ph_chan_raw(f, p, c, &w); ch[c] = w ? ph_widen8(v, w) : (c == 0 ? 0xff : 0); }
    return ch[0] << 24 | ch[1] << 16 | ch[2] << 8 | ch[3];
}
/* narrow a8r8g8b8 to the format by truncation; undefined bits are written as 0 */
static inline uint32_t ph_from_8888(const ph_fmt_t *f, uint32_t argb)
{
    unsigned ch[4] = { argb >> 24, (argb >> 16) & 0xff, (argb >> 8) & 0xff, argb & 0xff };
    uint32_t p = 0;
    int w[4] = { f->aw, f->rw, f->gw, f->bw }, s[4] = { f->as, f->rs, f->gs, f->bs };
    for (int c = 0; c < 4; c++) if (w[c]) p |= (ch[c] >> (8 - w[c])) << s[c];
    return p;
}
/* mask of the bits of a pixel value that the format defines */
/* pixman_bool_t is an int: every non-zero value is "true" for the boolean setters (a caller may pass flags & MASK, an X constant, -1).
 * Harnesses take their TRUE from here, by case index, so that 1 is not the only true value ever stored. */
static inline int ph_truthy(uint64_t k) { static const int v[6] = { 1, 2, -1, 0x100, 3, -2 }; return v[k % 6]; }

static inline uint32_t ph_defined_mask(const ph_fmt_t *f)
{
    uint32_t m = 0; int w[4] = { f->aw, f->rw, f->gw, f->bw }, s[4] = { f->as, f->rs, f->gs, f->bs };
    for (int c = 0; c < 4; c++) if (w[c]) m |= ((w[c] == 32 ? 0xffffffffu : ((1u << w[c]) - 1))) << s[c];
    return m;
}

static inline int ph_stride_for(int bpp, int width) { return ((width * bpp + 31) / 32) * 4; }

#endif
