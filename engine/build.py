#!/usr/bin/env python3
"""Build libpixman from the CURRENT working tree of the repository (default /repo,
override with VERIF_REPO) into static archives under /verif/build/lib, keyed by a
content hash of the sources so that every check rebuilds after any source edit and
checks share one build otherwise."""
import hashlib, os, re, subprocess, sys, shutil, fcntl, glob
from concurrent.futures import ThreadPoolExecutor

VERIF = os.path.dirname(os.path.dirname(os.path.abspath(__file__)))
REPO = os.environ.get("VERIF_REPO", "/repo")
BUILD = os.environ.get("VERIF_BUILD", os.path.join(VERIF, "build"))
GUARD = "PIXMAN_VERIF"

SOURCES = """pixman.c pixman-access.c pixman-access-accessors.c pixman-bits-image.c
pixman-combine32.c pixman-combine-float.c pixman-conical-gradient.c pixman-filter.c
pixman-x86.c pixman-mips.c pixman-arm.c pixman-ppc.c pixman-edge.c pixman-edge-accessors.c
pixman-fast-path.c pixman-glyph.c pixman-general.c pixman-gradient-walker.c pixman-image.c
pixman-implementation.c pixman-linear-gradient.c pixman-matrix.c pixman-noop.c
pixman-radial-gradient.c pixman-region16.c pixman-region32.c pixman-solid-fill.c
pixman-timer.c pixman-trap.c pixman-utils.c pixman-mmx.c pixman-sse2.c pixman-ssse3.c""".split()

SIMD_FLAGS = {
    "pixman-mmx.c": ["-mmmx", "-Winline"],
    "pixman-sse2.c": ["-msse2", "-Winline"],
    "pixman-ssse3.c": ["-mssse3", "-Winline"],
}

VARIANTS = {
    # name: (compiler, flags)
    "opt": ("gcc", ["-O2", "-g"]),
    "asan": ("clang", ["-O1", "-g", "-fsanitize=address", "-fno-omit-frame-pointer",
                       "-fsanitize-recover=address"]),
    "tsan": ("clang", ["-O1", "-g", "-fsanitize=thread"]),
    "sched": ("clang", ["-O1", "-g", "-fsanitize-coverage=trace-pc-guard"]),
}

COMMON = ["-DHAVE_CONFIG_H", "-D" + GUARD, "-std=gnu99", "-fno-strict-aliasing",
          "-fvisibility=hidden", "-pthread", "-w"]


def repo_hash():
    h = hashlib.sha256()
    files = sorted(glob.glob(os.path.join(REPO, "pixman", "*.[ch]")))
    files += sorted(glob.glob(os.path.join(REPO, "pixman", "dither", "*.h")))
    files += [os.path.join(REPO, "meson.build"), os.path.join(VERIF, "engine", "cfg", "config.h")]
    for f in files:
        if os.path.basename(f) in ("pixman-version.h", "config.h") and f.startswith(REPO):
            continue
        h.update(os.path.relpath(f, REPO).encode())
        with open(f, "rb") as fh:
            h.update(fh.read())
    return h.hexdigest()[:16]


def version_header(cfgdir):
    txt = open(os.path.join(REPO, "meson.build")).read()
    m = re.search(r"version\s*:\s*'(\d+)\.(\d+)\.(\d+)'", txt)
    major, minor, micro = m.groups()
    src = open(os.path.join(REPO, "pixman", "pixman-version.h.in")).read()
    src = (src.replace("@PIXMAN_VERSION_MAJOR@", major)
              .replace("@PIXMAN_VERSION_MINOR@", minor)
              .replace("@PIXMAN_VERSION_MICRO@", micro))
    with open(os.path.join(cfgdir, "pixman-version.h"), "w") as f:
        f.write(src)


def run(cmd):
    r = subprocess.run(cmd, stdout=subprocess.PIPE, stderr=subprocess.STDOUT, text=True)
    if r.returncode != 0:
        sys.stderr.write("BUILD FAILED: %s\n%s\n" % (" ".join(cmd), r.stdout))
        raise SystemExit(3)
    return r.stdout


def build_lib(variant, extra_defs=()):
    """Returns (libpath, include_dirs). extra_defs lets a check ask for e.g. a small glyph table."""
    cc, flags = VARIANTS[variant]
    hh = repo_hash()
    tag = variant
    if extra_defs:
        tag += "-" + hashlib.sha256(" ".join(extra_defs).encode()).hexdigest()[:8]
    libroot = os.path.join(BUILD, "lib")
    os.makedirs(libroot, exist_ok=True)
    out = os.path.join(libroot, "%s-%s" % (tag, hh))
    lib = os.path.join(out, "libpixman.a")
    lock = open(os.path.join(libroot, ".lock-" + tag), "w")
    fcntl.flock(lock, fcntl.LOCK_EX)
    try:
        if os.path.exists(lib):
            return lib, [out, os.path.join(REPO, "pixman")]
        # remove stale builds of this variant (disk is limited)
        for d in glob.glob(os.path.join(libroot, tag + "-*")):
            if re.fullmatch(re.escape(tag) + r"-[0-9a-f]{16}", os.path.basename(d)):
                shutil.rmtree(d, ignore_errors=True)
        tmp = out + ".tmp%d" % os.getpid()
        shutil.rmtree(tmp, ignore_errors=True)
        os.makedirs(tmp)
        shutil.copy(os.path.join(VERIF, "engine", "cfg", "config.h"), tmp)
        version_header(tmp)
        objs = []

        def one(src):
            o = os.path.join(tmp, src[:-2] + ".o")
            cmd = [cc] + flags + COMMON + list(extra_defs) + SIMD_FLAGS.get(src, []) + \
                  ["-I", tmp, "-I", os.path.join(REPO, "pixman"), "-c",
                   os.path.join(REPO, "pixman", src), "-o", o]
            run(cmd)
            return o
        with ThreadPoolExecutor(16) as ex:
            objs = list(ex.map(one, SOURCES))
        run(["ar", "rcs", os.path.join(tmp, "libpixman.a")] + objs)
        for o in objs:
            os.unlink(o)
        os.rename(tmp, out)
        return lib, [out, os.path.join(REPO, "pixman")]
    finally:
        fcntl.flock(lock, fcntl.LOCK_UN)
        lock.close()


def build_check(name, src, variant, extra_cflags=(), extra_ldflags=(), extra_defs=(), extra_srcs=()):
    """Compile one harness against the library variant. Rebuilt whenever the lib hash,
    the harness source or the engine headers change."""
    cc, flags = VARIANTS[variant]
    lib, incs = build_lib(variant, extra_defs)
    h = hashlib.sha256()
    h.update(lib.encode())
    deps = [src] + list(extra_srcs) + sorted(glob.glob(os.path.join(VERIF, "engine", "*.h"))) + \
        sorted(glob.glob(os.path.join(VERIF, "ref", "*"))) + \
        sorted(glob.glob(os.path.join(VERIF, "checks", "*.h")))
    for f in deps:
        h.update(open(f, "rb").read())
    h.update(" ".join(list(extra_cflags) + list(extra_ldflags)).encode())
    bindir = os.path.join(BUILD, "bin")
    os.makedirs(bindir, exist_ok=True)
    exe = os.path.join(bindir, "%s-%s-%s" % (name, variant, h.hexdigest()[:12]))
    if os.path.exists(exe):
        return exe
    for old in glob.glob(os.path.join(bindir, "%s-%s-*" % (name, variant))):
        try:
            os.unlink(old)
        except OSError:
            pass
    cflags = [f for f in flags]
    cmd = [cc] + cflags + ["-std=gnu11", "-DHAVE_CONFIG_H", "-D" + GUARD, "-fno-strict-aliasing", "-pthread",
                           "-Wall", "-Wno-unused-function", "-Wno-unused-variable",
                           "-Wno-unused-but-set-variable", "-Wno-misleading-indentation"] + \
        list(extra_defs) + list(extra_cflags) + \
        ["-I", os.path.join(VERIF, "engine"), "-I", os.path.join(VERIF, "ref")] + \
        sum([["-I", i] for i in incs], []) + \
        [src] + list(extra_srcs) + [lib, "-lm", "-o", exe + ".tmp%d" % os.getpid()] + list(extra_ldflags)
    run(cmd)
    os.rename(exe + ".tmp%d" % os.getpid(), exe)
    return exe


if __name__ == "__main__":
    for v in (sys.argv[1:] or ["opt"]):
        print(build_lib(v)[0])
