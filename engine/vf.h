/* vf.h — common exploration engine for the /verif checks.
 *
 * A check is a C program that registers one or more finite *spaces* (name, size N,
 * case function).  vf_space_run() executes EVERY index 0..N-1 of the space, spread over
 * worker processes (dynamic chunking), and the case function compares the real library
 * against its oracle and calls vf_violation() on a mismatch.  Nothing is sampled: a space
 * is either completed or the evidence says how far it got (deadline/cap) and
 * `exhaustive` is false.
 *
 * Guarantees implemented here, once, for all checks:
 *   - replay before report: a failing case is executed a second time and must fail
 *     identically, otherwise the run ends with a hard error (exit 2), not a VIOLATION;
 *   - crashes (signals, sanitizer aborts) and hangs of the library are attributed to
 *     the exact case index, confirmed in an isolated child, and reported as violations;
 *   - every violation is written as a replay file; `--replay <file>` re-executes it;
 *   - known findings: keys listed with --known are printed as KNOWN-FINDING and do not
 *     fail the run; every other key does;
 *   - evidence JSON is written by the run itself from measured counters.
 */
#ifndef VF_H
#define VF_H
#define _GNU_SOURCE
#include <stdio.h>
#include <stdlib.h>
#include <string.h>
#include <stdint.h>
#include <stdarg.h>
#include <unistd.h>
#include <signal.h>
#include <errno.h>
#include <time.h>
#include <sys/mman.h>
#include <sys/wait.h>
#include <sys/stat.h>
#include <sys/time.h>
#include <fcntl.h>

#ifndef VF_VERIF_DIR
#define VF_VERIF_DIR "/verif"
#endif

#define VF_MAXV      24
#define VF_MAXKNOWN  24
#define VF_MAXSPACES 96
#define VF_MAXW      32
#define VF_NSAMPLES  10
#define VF_HSET_BITS 23

#if defined(__has_feature)
# if __has_feature(address_sanitizer)
#  define VF_ASAN 1
# endif
#endif
#if defined(__SANITIZE_ADDRESS__)
# define VF_ASAN 1
#endif

typedef struct {
    char key[64];
    char space[64];
    char casestr[512];
    char text[3000];
} vf_rec_t;

typedef struct {
    volatile int64_t lo, hi, cur;       /* chunk being processed and current index */
    volatile int64_t started_ms;        /* when cur was started */
    volatile int     busy;
    volatile pid_t   pid;
} vf_wslot_t;

typedef struct {
    char name[64];
    uint64_t size, done;
    int complete;
    double wall_s;
} vf_spaceinfo_t;

typedef struct {
    volatile uint64_t evaluations, nontrivial, transitions, states, outcomes, libcalls;
    volatile int nviol, stop, harderr, lock;
    volatile int nknown_seen;
    vf_rec_t viol[VF_MAXV];
    struct { char key[64]; volatile uint64_t count; char text[700]; } known[VF_MAXKNOWN];
    char samples[VF_NSAMPLES][700];
    volatile int nsamples;
    volatile int64_t next;              /* chunk dispenser for the running space */
    vf_wslot_t w[VF_MAXW];
    vf_spaceinfo_t spaces[VF_MAXSPACES];
    int nspaces;
    char caps[8][200];
    int ncaps;
    int printed_viol;
    char extra_json[4000];              /* check-specific key/values for coverage (without braces) */
} vf_shared_t;

static vf_shared_t *vf;
static uint64_t *vf_hset;
static const char *vf_prop = "C00";
static const char *vf_level = "exploration";
static const char *vf_rule = "";
static const char *vf_bounds = "";
static const char *vf_assumptions[16];
static int vf_nassumptions;
static int vf_thorough;
static int vf_workers = 16;
static double vf_deadline_s = -1;
static double vf_hang_s = 60.0;
static int64_t vf_t0_ms;
static const char *vf_replay_file;
static char vf_replay_space[64], vf_replay_casestr[512];
static char vf_known_keys[VF_MAXKNOWN][64];
static int vf_nknown_keys;
static char vf_evidence_path[512];
static int vf_seed;
int vf_verbose;                         /* set in replay mode: case functions may print details */

/* per-process current case context */
static const char *vf_cur_space = "";
static char vf_cur_case[512];
static int vf_pending;                  /* a violation was raised by the running case */
static vf_rec_t vf_pending_rec;
static volatile int vf_asan_flag;
static char vf_asan_desc[200];

static inline int64_t vf_now_ms(void)
{
    struct timespec ts; clock_gettime(CLOCK_MONOTONIC, &ts);
    return (int64_t)ts.tv_sec * 1000 + ts.tv_nsec / 1000000;
}
static inline void vf_lock(void)   { while (__atomic_exchange_n(&vf->lock, 1, __ATOMIC_ACQUIRE)) usleep(50); }
static inline void vf_unlock(void) { __atomic_store_n(&vf->lock, 0, __ATOMIC_RELEASE); }

static inline uint64_t vf_hash64(const void *p, size_t n, uint64_t h)
{
    const unsigned char *s = (const unsigned char *)p;
    h ^= 0xcbf29ce484222325ULL;
    for (size_t i = 0; i < n; i++) { h ^= s[i]; h *= 0x100000001b3ULL; }
    h ^= h >> 29; h *= 0xbf58476d1ce4e5b9ULL; h ^= h >> 32;
    return h;
}
static inline uint64_t vf_mix(uint64_t h, uint64_t v)
{
    h ^= v + 0x9e3779b97f4a7c15ULL + (h << 6) + (h >> 2);
    h *= 0xff51afd7ed558ccdULL; h ^= h >> 33;
    return h;
}

/* distinct-outcome set (shared, lock-free).  Returns 1 if newly inserted. */
static inline int vf_outcome(uint64_t h)
{
    if (h == 0) h = 1;
    if (vf->outcomes >= ((uint64_t)1 << (VF_HSET_BITS - 1))) return 0; /* half full: count is a lower bound from here on */
    uint64_t mask = ((uint64_t)1 << VF_HSET_BITS) - 1, i = h & mask;
    for (int probe = 0; probe < 4096; probe++, i = (i + 1) & mask) {
        uint64_t cur = __atomic_load_n(&vf_hset[i], __ATOMIC_RELAXED);
        if (cur == h) return 0;
        if (cur == 0) {
            uint64_t exp = 0;
            if (__atomic_compare_exchange_n(&vf_hset[i], &exp, h, 0, __ATOMIC_RELAXED, __ATOMIC_RELAXED)) {
                __atomic_add_fetch(&vf->outcomes, 1, __ATOMIC_RELAXED);
                return 1;
            }
            if (exp == h) return 0;
        }
    }
    return 0; /* table saturated: stop counting (count is then a lower bound) */
}

static int vf_in_confirm;
static inline void vf_count_eval(uint64_t n)       { if (vf_in_confirm) return; __atomic_add_fetch(&vf->evaluations, n, __ATOMIC_RELAXED); }
static inline void vf_count_nontrivial(uint64_t n) { if (vf_in_confirm) return; __atomic_add_fetch(&vf->nontrivial, n, __ATOMIC_RELAXED); }
static inline void vf_count_transitions(uint64_t n){ if (vf_in_confirm) return; __atomic_add_fetch(&vf->transitions, n, __ATOMIC_RELAXED); }
static inline void vf_count_states(uint64_t n)     { if (vf_in_confirm) return; __atomic_add_fetch(&vf->states, n, __ATOMIC_RELAXED); }
static inline void vf_count_libcalls(uint64_t n)   { if (vf_in_confirm) return; __atomic_add_fetch(&vf->libcalls, n, __ATOMIC_RELAXED); }

static void vf_sample(const char *fmt, ...) __attribute__((format(printf, 1, 2)));
static void vf_sample(const char *fmt, ...)
{
    if (vf->nsamples >= VF_NSAMPLES) return;
    int k = __atomic_fetch_add(&vf->nsamples, 1, __ATOMIC_RELAXED);
    if (k >= VF_NSAMPLES) return;
    va_list ap; va_start(ap, fmt);
    vsnprintf(vf->samples[k], sizeof vf->samples[k], fmt, ap);
    va_end(ap);
}
static inline int vf_want_sample(void) { return vf->nsamples < VF_NSAMPLES; }

static void vf_cap(const char *fmt, ...) __attribute__((format(printf, 1, 2)));
static void vf_cap(const char *fmt, ...)
{
    vf_lock();
    if (vf->ncaps < 8) {
        va_list ap; va_start(ap, fmt);
        vsnprintf(vf->caps[vf->ncaps++], 200, fmt, ap);
        va_end(ap);
    }
    vf_unlock();
}

static int vf_is_known(const char *key)
{
    for (int i = 0; i < vf_nknown_keys; i++)
        if (!strcmp(vf_known_keys[i], key)) return 1;
    return 0;
}

/* Commit a confirmed record to shared memory. */
static void vf_commit(const vf_rec_t *r)
{
    vf_lock();
    if (vf_is_known(r->key)) {
        int i;
        for (i = 0; i < vf->nknown_seen; i++)
            if (!strcmp(vf->known[i].key, r->key)) break;
        if (i == vf->nknown_seen && i < VF_MAXKNOWN) {
            snprintf(vf->known[i].key, 64, "%s", r->key);
            snprintf(vf->known[i].text, sizeof vf->known[i].text, "[%s %s] %s", r->space, r->casestr, r->text);
            vf->known[i].count = 0;
            vf->nknown_seen++;
        }
        if (i < VF_MAXKNOWN) vf->known[i].count++;
    } else {
        if (vf->nviol < VF_MAXV) { int k = vf->nviol; vf->viol[k] = *r; __atomic_store_n(&vf->nviol, k + 1, __ATOMIC_RELEASE); }   /* publish after the copy: the parent prints without the lock */
        if (vf->nviol >= VF_MAXV) vf->stop = 1;
    }
    vf_unlock();
}

/* Called by a case function on an oracle mismatch.  `key` classifies the failure
 * (it is what known_findings.json matches on); the text describes expected vs got. */
static void vf_violation(const char *key, const char *fmt, ...) __attribute__((format(printf, 2, 3)));
static void vf_violation(const char *key, const char *fmt, ...)
{
    if (vf_pending) return;  /* first failure of the case wins */
    vf_pending = 1;
    memset(&vf_pending_rec, 0, sizeof vf_pending_rec);
    snprintf(vf_pending_rec.key, sizeof vf_pending_rec.key, "%s", key);
    snprintf(vf_pending_rec.space, sizeof vf_pending_rec.space, "%s", vf_cur_space);
    snprintf(vf_pending_rec.casestr, sizeof vf_pending_rec.casestr, "%s", vf_cur_case);
    va_list ap; va_start(ap, fmt);
    vsnprintf(vf_pending_rec.text, sizeof vf_pending_rec.text, fmt, ap);
    va_end(ap);
    if (vf_verbose) printf("  -> FAIL key=%s %s\n", key, vf_pending_rec.text);
}
static inline int vf_failed(void) { return vf_pending; }

static void vf_harderr(const char *fmt, ...) __attribute__((format(printf, 1, 2)));
static void vf_harderr(const char *fmt, ...)
{
    va_list ap; va_start(ap, fmt);
    fprintf(stderr, "HARD-ERROR %s: ", vf_prop);
    vfprintf(stderr, fmt, ap);
    fprintf(stderr, "\n");
    va_end(ap);
    if (vf) vf->harderr = 1;
}

#ifdef VF_ASAN
const char *__asan_get_report_description(void);
void __asan_on_error(void)
{
    vf_asan_flag = 1;
    const char *d = __asan_get_report_description();
    snprintf(vf_asan_desc, sizeof vf_asan_desc, "%s", d ? d : "?");
}
const char *__asan_default_options(void)
{
    return "halt_on_error=0:detect_leaks=0:allocator_may_return_null=1:abort_on_error=0:"
           "max_malloc_fill_size=0:detect_stack_use_after_return=0:print_summary=0:handle_abort=0:handle_segv=0:suppress_equal_pcs=0:max_allocation_size_mb=512";
}
#endif

/* ------------------------------------------------------------------------------------ */

static void vf_usage(void)
{
    fprintf(stderr, "usage: check [--tier quick|thorough] [--replay file] [--known k1,k2] [--workers n] "
                    "[--deadline s] [--evidence path]\n");
    exit(2);
}

static void vf_init(int argc, char **argv, const char *prop, const char *level)
{
    vf_prop = prop; vf_level = level;
    vf_t0_ms = vf_now_ms();
    const char *t = getenv("VERIF_TIER");
    if (t && !strcmp(t, "thorough")) vf_thorough = 1;
    const char *s = getenv("VERIF_SEED");
    if (s) vf_seed = atoi(s);
    snprintf(vf_evidence_path, sizeof vf_evidence_path, "%s/evidence/%s.json", VF_VERIF_DIR, prop);
    if (getenv("VERIF_EVIDENCE_DIR")) { mkdir(getenv("VERIF_EVIDENCE_DIR"), 0777); snprintf(vf_evidence_path, sizeof vf_evidence_path, "%s/%s.json", getenv("VERIF_EVIDENCE_DIR"), prop); }
    for (int i = 1; i < argc; i++) {
        if (!strcmp(argv[i], "--tier") && i + 1 < argc) vf_thorough = !strcmp(argv[++i], "thorough");
        else if (!strcmp(argv[i], "--replay") && i + 1 < argc) vf_replay_file = argv[++i];
        else if (!strcmp(argv[i], "--workers") && i + 1 < argc) vf_workers = atoi(argv[++i]);
        else if (!strcmp(argv[i], "--deadline") && i + 1 < argc) vf_deadline_s = atof(argv[++i]);
        else if (!strcmp(argv[i], "--evidence") && i + 1 < argc) snprintf(vf_evidence_path, sizeof vf_evidence_path, "%s", argv[++i]);
        else if (!strcmp(argv[i], "--known") && i + 1 < argc) {
            char *dup = strdup(argv[++i]);
            for (char *tok = strtok(dup, ","); tok && vf_nknown_keys < VF_MAXKNOWN; tok = strtok(NULL, ","))
                snprintf(vf_known_keys[vf_nknown_keys++], 64, "%s", tok);
        } else vf_usage();
    }
    if (vf_workers < 1) vf_workers = 1;
    if (vf_workers > VF_MAXW) vf_workers = VF_MAXW;
    if (vf_deadline_s < 0) vf_deadline_s = vf_thorough ? 1500 : 150;
    vf = mmap(NULL, sizeof *vf, PROT_READ | PROT_WRITE, MAP_SHARED | MAP_ANONYMOUS, -1, 0);
    vf_hset = mmap(NULL, sizeof(uint64_t) << VF_HSET_BITS, PROT_READ | PROT_WRITE,
                   MAP_SHARED | MAP_ANONYMOUS | MAP_NORESERVE, -1, 0);
    if (vf == MAP_FAILED || vf_hset == MAP_FAILED) { perror("mmap"); exit(2); }
    memset(vf, 0, sizeof *vf);
    if (vf_replay_file) {
        FILE *f = fopen(vf_replay_file, "r");
        if (!f) { perror(vf_replay_file); exit(2); }
        char line[1024];
        while (fgets(line, sizeof line, f)) {
            line[strcspn(line, "\n")] = 0;
            if (!strncmp(line, "space ", 6)) snprintf(vf_replay_space, sizeof vf_replay_space, "%s", line + 6);
            if (!strncmp(line, "case ", 5)) snprintf(vf_replay_casestr, sizeof vf_replay_casestr, "%s", line + 5);
            if (!strncmp(line, "tier ", 5)) vf_thorough = !strcmp(line + 5, "thorough");   /* spaces are decoded per tier */
        }
        fclose(f);
        vf_verbose = 1;
        vf_workers = 1;
        printf("REPLAY %s space=%s case=%s\n", vf_prop, vf_replay_space, vf_replay_casestr);
    }
    setvbuf(stdout, NULL, _IOLBF, 0);
    if (!vf_replay_file) {
        char path[700];
        snprintf(path, sizeof path, "%s/build/logs/%s-%s.stderr", VF_VERIF_DIR, vf_prop, vf_thorough ? "thorough" : "quick");
        unlink(path);
    }
}

static inline double vf_elapsed_s(void) { return (vf_now_ms() - vf_t0_ms) / 1000.0; }
static inline int vf_deadline_passed(void) { return vf_elapsed_s() > vf_deadline_s; }
/* A check whose thorough alphabets complete in well under a minute may use them in the quick tier too: it calls vf_quick_is_deep()
 * right after vf_init().  The tier label (evidence, replay files) stays what was asked for; only the sizing decisions change.
 * vf_is_thorough() then answers "use the larger alphabets", vf_tier_is_thorough() "the thorough tier was asked for". */
static int vf_quick_deep;
static inline void vf_quick_is_deep(void) { vf_quick_deep = 1; if (!vf_thorough && vf_deadline_s <= 150) vf_deadline_s = 600; }
static inline int vf_is_thorough(void) { return vf_thorough || vf_quick_deep; }
static inline int vf_tier_is_thorough(void) { return vf_thorough; }
static inline int vf_replaying(void) { return vf_replay_file != NULL; }

static void vf_print_new_violations(void)
{
    while (vf->printed_viol < vf->nviol) {
        vf_rec_t *r = &vf->viol[vf->printed_viol];
        char dir[600], path[700];
        snprintf(dir, sizeof dir, "%s/replays", VF_VERIF_DIR); mkdir(dir, 0755);
        snprintf(dir, sizeof dir, "%s/replays/%s", VF_VERIF_DIR, vf_prop); mkdir(dir, 0755);
        uint64_t h = vf_hash64(r->space, strlen(r->space), vf_hash64(r->casestr, strlen(r->casestr), 7));
        snprintf(path, sizeof path, "%s/%s-%08x.txt", dir, r->key, (unsigned)(h & 0xffffffff));
        FILE *f = fopen(path, "w");
        if (f) {
            fprintf(f, "check %s\ntier %s\nkey %s\nspace %s\ncase %s\ndetail %s\n", vf_prop,
                    vf_thorough ? "thorough" : "quick", r->key, r->space, r->casestr, r->text);
            fclose(f);
        }
        if (!vf_replaying())
            printf("VIOLATION property=%s replay=%s\n  key=%s space=%s case=%s\n  %s\n", vf_prop, path, r->key,
                   r->space, r->casestr, r->text);
        vf->printed_viol++;
    }
}

typedef void (*vf_case_fn)(uint64_t idx, void *ctx);

/* run one case in this process with the replay-before-report rule */
static void vf_run_case(const char *space, vf_case_fn fn, uint64_t idx, void *ctx)
{
    vf_cur_space = space;
    snprintf(vf_cur_case, sizeof vf_cur_case, "%llu", (unsigned long long)idx);
    vf_pending = 0; vf_asan_flag = 0;
    fn(idx, ctx);
    snprintf(vf_cur_case, sizeof vf_cur_case, "%llu", (unsigned long long)idx);
    if (vf_asan_flag && !vf_pending) vf_violation("asan", "AddressSanitizer: %s", vf_asan_desc);
    if (vf_pending) {
        vf_rec_t first = vf_pending_rec;
        vf_pending = 0; vf_asan_flag = 0; vf_in_confirm = 1;
        uint64_t e = vf->evaluations, n = vf->nontrivial, t = vf->transitions;
        fn(idx, ctx);
        (void)e; (void)n; (void)t;
        snprintf(vf_cur_case, sizeof vf_cur_case, "%llu", (unsigned long long)idx);
        if (vf_asan_flag && !vf_pending) vf_violation("asan", "AddressSanitizer: %s", vf_asan_desc);
        vf_in_confirm = 0;
        if (!vf_pending || strcmp(vf_pending_rec.key, first.key)) {
            vf_harderr("non-deterministic case: space=%s idx=%llu first='%s: %s' second='%s: %s'", space,
                       (unsigned long long)idx, first.key, first.text, vf_pending ? vf_pending_rec.key : "(pass)",
                       vf_pending ? vf_pending_rec.text : "");
        } else {
            vf_commit(&first);
        }
        vf_pending = 0;
    }
}

static void vf_worker_stderr(void)
{
    /* library diagnostics ("*** BUG ***", sanitizer reports) go to a log file, not to the check's output */
    char dir[600], path[700];
    snprintf(dir, sizeof dir, "%s/build", VF_VERIF_DIR); mkdir(dir, 0755);
    snprintf(dir, sizeof dir, "%s/build/logs", VF_VERIF_DIR); mkdir(dir, 0755);
    snprintf(path, sizeof path, "%s/%s-%s.stderr", dir, vf_prop, vf_thorough ? "thorough" : "quick");
    int fd = open(path, O_WRONLY | O_CREAT | O_APPEND, 0644);
    if (fd >= 0) { dup2(fd, 2); close(fd); }
}

static void vf_worker_loop(int wi, const char *space, uint64_t N, vf_case_fn fn, void *ctx, uint64_t chunk)
{
    if (!getenv("VF_STDERR")) vf_worker_stderr();
    vf_wslot_t *s = &vf->w[wi];
    /* resume a chunk inherited from a dead predecessor */
    for (;;) {
        int64_t lo, hi;
        if (s->busy && s->cur + 1 < s->hi) { lo = s->cur + 1; hi = s->hi; }
        else {
            lo = __atomic_fetch_add(&vf->next, (int64_t)chunk, __ATOMIC_RELAXED);
            if ((uint64_t)lo >= N) break;
            hi = lo + (int64_t)chunk; if ((uint64_t)hi > N) hi = (int64_t)N;
        }
        s->lo = lo; s->hi = hi; s->busy = 1;
        for (int64_t i = lo; i < hi; i++) {
            if (vf->stop) { s->busy = 0; return; }
            s->cur = i; s->started_ms = vf_now_ms();
            vf_run_case(space, fn, (uint64_t)i, ctx);
        }
        s->busy = 0;
        if (vf_deadline_passed()) { vf->stop = 2; break; }
    }
    s->busy = 0;
}

/* Re-run one index alone in a child; returns wait status, or -1 on hang. */
static int vf_isolated(const char *space, uint64_t idx, vf_case_fn fn, void *ctx, double limit_s)
{
    fflush(stdout); fflush(stderr);
    pid_t p = fork();
    if (p == 0) {
        vf_cur_space = space;
        snprintf(vf_cur_case, sizeof vf_cur_case, "%llu", (unsigned long long)idx);
        vf_pending = 0;
        fn(idx, ctx);
        _exit(vf_pending ? 9 : 0);
    }
    int64_t t0 = vf_now_ms();
    for (;;) {
        int st; pid_t r = waitpid(p, &st, WNOHANG);
        if (r == p) return st;
        if ((vf_now_ms() - t0) / 1000.0 > limit_s) { kill(p, SIGKILL); waitpid(p, &st, 0); return -1; }
        usleep(2000);
    }
}

static void vf_report_abnormal(const char *space, uint64_t idx, const char *key, const char *what)
{
    vf_rec_t r; memset(&r, 0, sizeof r);
    snprintf(r.key, sizeof r.key, "%s", key);
    snprintf(r.space, sizeof r.space, "%s", space);
    snprintf(r.casestr, sizeof r.casestr, "%llu", (unsigned long long)idx);
    snprintf(r.text, sizeof r.text, "%s", what);
    vf_commit(&r);
}

/* optional per-check classifier for crashes/hangs: maps (space, idx, default key) to a key */
static const char *(*vf_classify_abnormal)(const char *space, uint64_t idx, const char *defkey);

/* Execute every index of the space.  Returns 1 if the space was completed. */
static int vf_space_run(const char *name, uint64_t N, vf_case_fn fn, void *ctx)
{
    if (vf_replaying()) {
        if (strcmp(name, vf_replay_space)) return 1;
        uint64_t idx = strtoull(vf_replay_casestr, NULL, 10);
        for (int rep = 0; rep < 2; rep++) {
            printf("-- replay pass %d: space=%s idx=%llu\n", rep + 1, name, (unsigned long long)idx);
            vf_cur_space = name; snprintf(vf_cur_case, sizeof vf_cur_case, "%llu", (unsigned long long)idx);
            vf_pending = 0; vf_asan_flag = 0;
            fn(idx, ctx);
            if (vf_asan_flag && !vf_pending) vf_violation("asan", "AddressSanitizer: %s", vf_asan_desc);
            printf("-- pass %d result: %s %s\n", rep + 1, vf_pending ? vf_pending_rec.key : "PASS",
                   vf_pending ? vf_pending_rec.text : "");
            if (vf_pending && rep == 1) vf_commit(&vf_pending_rec);
            vf_pending = 0;
        }
        return 1;
    }
    if (getenv("VF_ONLY") && !strstr(name, getenv("VF_ONLY"))) { vf_cap("space %s skipped by VF_ONLY (debugging aid)", name); return 0; }
    int si = vf->nspaces < VF_MAXSPACES ? vf->nspaces++ : VF_MAXSPACES - 1;
    snprintf(vf->spaces[si].name, 64, "%s", name);
    vf->spaces[si].size = N; vf->spaces[si].done = 0; vf->spaces[si].complete = 0;
    if (vf->stop || N == 0) { if (N == 0) vf->spaces[si].complete = 1; return 0; }
    if (vf_deadline_passed()) { vf->stop = 2; vf_cap("deadline reached before space %s (size %llu)", name, (unsigned long long)N); return 0; }

    int64_t space_t0 = vf_now_ms();
    int W = vf_workers; if ((uint64_t)W > N) W = (int)N;
    uint64_t chunk = N / ((uint64_t)W * 64); if (chunk < 1) chunk = 1; if (chunk > 65536) chunk = 65536;
    vf->next = 0;
    memset((void *)vf->w, 0, sizeof vf->w);
    fflush(stdout); fflush(stderr);
    int alive = 0;
    pid_t wpid[VF_MAXW];      /* parent-private: a worker with wild writes (the very defects being hunted) must not be able to corrupt it */
    memset(wpid, 0, sizeof wpid);
    for (int wi = 0; wi < W; wi++) {
        pid_t p = fork();
        if (p == 0) { vf_worker_loop(wi, name, N, fn, ctx, chunk); _exit(0); }
        wpid[wi] = p; alive++;
    }
    while (alive > 0) {
        int st; pid_t r = waitpid(-1, &st, WNOHANG);
        if (r < 0 && errno == ECHILD) {
            /* no children left although some were still counted: never spin; account for it loudly */
            vf_harderr("engine lost track of %d worker(s) in space %s", alive, name);
            break;
        }
        if (r > 0) {
            int wi; for (wi = 0; wi < W; wi++) if (wpid[wi] == r) break;
            if (getenv("VF_DEBUG")) fprintf(stderr, "[vf] reaped pid %d slot %d status %x alive %d\n", (int)r, wi == W ? -1 : wi, st, alive);
            if (wi == W) { if (getenv("VF_DEBUG")) { fprintf(stderr, "[vf] unknown pid; slots:"); for (int q = 0; q < W; q++) fprintf(stderr, " %d(busy %d cur %lld)", (int)wpid[q], vf->w[q].busy, (long long)vf->w[q].cur); fprintf(stderr, " next=%lld nviol=%d stop=%d\n", (long long)vf->next, vf->nviol, vf->stop); } continue; }
            alive--;
            wpid[wi] = 0;
            if (!(WIFEXITED(st) && WEXITSTATUS(st) == 0)) {
                /* worker died inside case cur: confirm in isolation, then report */
                uint64_t idx = (uint64_t)vf->w[wi].cur;
                char what[300];
                if (WIFSIGNALED(st)) snprintf(what, sizeof what, "library crashed: signal %d (%s)", WTERMSIG(st), strsignal(WTERMSIG(st)));
                else snprintf(what, sizeof what, "worker exited with status %d", WEXITSTATUS(st));
                if (vf->w[wi].busy) {
                    int st2 = vf_isolated(name, idx, fn, ctx, vf_hang_s * 3);
                    if (st2 == -1 || !(WIFEXITED(st2) && (WEXITSTATUS(st2) == 0 || WEXITSTATUS(st2) == 9))) {
                        const char *key = "crash";
                        if (vf_classify_abnormal) key = vf_classify_abnormal(name, idx, key);
                        vf_report_abnormal(name, idx, key, what);
                    } else {
                        vf_harderr("worker died (%s) at space=%s idx=%llu but the case passes in isolation", what, name, (unsigned long long)idx);
                    }
                    /* replacement worker resumes the chunk after idx */
                    if (!vf->stop) {
                        pid_t p = fork();
                        if (p == 0) { vf_worker_loop(wi, name, N, fn, ctx, chunk); _exit(0); }
                        wpid[wi] = p; alive++;
                        if (getenv("VF_DEBUG")) fprintf(stderr, "[vf] replacement pid %d slot %d alive %d\n", (int)p, wi, alive);
                    }
                } else {
                    vf_harderr("worker died outside a case: %s", what);
                }
            }
        } else {
            /* hang detection */
            int64_t now = vf_now_ms();
            for (int wi = 0; wi < W; wi++) {
                vf_wslot_t *s = &vf->w[wi];
                if (wpid[wi] && s->busy && s->started_ms && (now - s->started_ms) / 1000.0 > vf_hang_s) {
                    uint64_t idx = (uint64_t)s->cur;
                    kill(wpid[wi], SIGKILL);
                    int st3; waitpid(wpid[wi], &st3, 0);
                    alive--; wpid[wi] = 0;
                    int st2 = vf_isolated(name, idx, fn, ctx, vf_hang_s * 3);
                    if (st2 == -1) {
                        const char *key = "hang";
                        if (vf_classify_abnormal) key = vf_classify_abnormal(name, idx, key);
                        char what[200]; snprintf(what, sizeof what, "call did not return within %.0f s (re-run alone with %.0f s)", vf_hang_s, vf_hang_s * 3);
                        vf_report_abnormal(name, idx, key, what);
                    } else if (WIFEXITED(st2) && WEXITSTATUS(st2) == 9) {
                        /* it is slow but fails deterministically: run again in-process for the record */
                        vf_run_case(name, fn, idx, ctx);
                    }
                    if (!vf->stop) {
                        pid_t p = fork();
                        if (p == 0) { vf_worker_loop(wi, name, N, fn, ctx, chunk); _exit(0); }
                        wpid[wi] = p; alive++;
                    }
                }
            }
            vf_print_new_violations();
            usleep(3000);
        }
    }
    vf_print_new_violations();
    uint64_t done = (uint64_t)vf->next; if (done > N) done = N;
    vf->spaces[si].done = done;
    vf->spaces[si].wall_s = (vf_now_ms() - space_t0) / 1000.0;
    if (getenv("VF_TIMING")) fprintf(stderr, "space %-40s size %12llu  %.1fs\n", name, (unsigned long long)N, vf->spaces[si].wall_s);
    vf->spaces[si].complete = (done >= N && vf->stop == 0);
    if (vf->stop == 2) {
        vf_cap("deadline %.0fs reached in space %s at index ~%llu of %llu", vf_deadline_s, name,
               (unsigned long long)done, (unsigned long long)N);
    }
    return vf->spaces[si].complete;
}

/* mixed-radix odometer decode: dims[k] radices, out[k] digits; digit 0 varies fastest */
static inline void vf_decode(uint64_t idx, const int *dims, int nd, int *out)
{
    for (int k = 0; k < nd; k++) { out[k] = (int)(idx % (uint64_t)dims[k]); idx /= (uint64_t)dims[k]; }
}
static inline uint64_t vf_product(const int *dims, int nd)
{
    uint64_t p = 1; for (int k = 0; k < nd; k++) p *= (uint64_t)dims[k]; return p;
}

static void vf_json_str(FILE *f, const char *s)
{
    fputc('"', f);
    for (; *s; s++) {
        unsigned char c = (unsigned char)*s;
        if (c == '"' || c == '\\') { fputc('\\', f); fputc(c, f); }
        else if (c == '\n') fputs("\\n", f);
        else if (c < 0x20) fprintf(f, "\\u%04x", c);
        else fputc(c, f);
    }
    fputc('"', f);
}

static void vf_assume(const char *s) { if (vf_nassumptions < 16) vf_assumptions[vf_nassumptions++] = s; }

/* Write evidence, print summary lines, return the process exit code. */
static int vf_finish(void)
{
    vf_print_new_violations();
    if (vf_replaying()) {
        printf("REPLAY-RESULT %s %s\n", vf_prop, (vf->nviol || vf->nknown_seen) ? "FAIL (reproduced)" : "PASS");
        return vf->nviol ? 1 : 0;
    }
    int exhaustive = (vf->stop == 0 && vf->ncaps == 0);
    for (int i = 0; i < vf->nspaces; i++) if (!vf->spaces[i].complete) exhaustive = 0;
    for (int i = 0; i < vf->nknown_seen; i++)
        printf("KNOWN-FINDING: property=%s %s (%llu cases; e.g. %s)\n", vf_prop, vf->known[i].key,
               (unsigned long long)vf->known[i].count, vf->known[i].text);
    double wall = vf_elapsed_s();
    char dir[600]; snprintf(dir, sizeof dir, "%s/evidence", VF_VERIF_DIR); mkdir(dir, 0755);
    char tmp[600]; snprintf(tmp, sizeof tmp, "%s.tmp", vf_evidence_path);
    FILE *f = fopen(tmp, "w");
    if (!f) { perror(tmp); return 2; }
    uint64_t nt = vf->nontrivial;
    fprintf(f, "{\n \"property_id\": \"%s\",\n \"tier\": \"%s\",\n \"seed\": %d,\n \"level\": \"%s\",\n", vf_prop,
            vf_thorough ? "thorough" : "quick", vf_seed, vf_level);
    fprintf(f, " \"coverage\": {\n");
    fprintf(f, "  \"evaluations\": %llu,\n  \"distinct_nontrivial\": %llu,\n", (unsigned long long)vf->evaluations, (unsigned long long)nt);
    fprintf(f, "  \"distinct_outcomes\": %llu,\n", (unsigned long long)vf->outcomes);
    fprintf(f, "  \"rule\": "); vf_json_str(f, vf_rule); fprintf(f, ",\n");
    fprintf(f, "  \"bounds\": "); vf_json_str(f, vf_bounds); fprintf(f, ",\n");
    if (!strcmp(vf_level, "model_checking")) {
        fprintf(f, "  \"states\": %llu,\n  \"transitions\": %llu,\n  \"traces_validated_against_impl\": %llu,\n",
                (unsigned long long)vf->states, (unsigned long long)vf->transitions, (unsigned long long)vf->transitions);
    } else {
        fprintf(f, "  \"library_calls\": %llu,\n", (unsigned long long)vf->libcalls);
    }
    fprintf(f, "  \"exhaustive\": %s,\n", exhaustive ? "true" : "false");
    fprintf(f, "  \"caps_hit\": [");
    for (int i = 0; i < vf->ncaps; i++) { if (i) fputc(',', f); vf_json_str(f, vf->caps[i]); }
    fprintf(f, "],\n  \"spaces\": [");
    for (int i = 0; i < vf->nspaces; i++) {
        fprintf(f, "%s{\"name\": ", i ? ", " : ""); vf_json_str(f, vf->spaces[i].name);
        fprintf(f, ", \"size\": %llu, \"done\": %llu, \"complete\": %s, \"wall_s\": %.2f}", (unsigned long long)vf->spaces[i].size,
                (unsigned long long)vf->spaces[i].done, vf->spaces[i].complete ? "true" : "false", vf->spaces[i].wall_s);
    }
    fprintf(f, "],\n");
    if (vf->extra_json[0]) fprintf(f, "  %s,\n", vf->extra_json);
    fprintf(f, "  \"known_findings_seen\": [");
    for (int i = 0; i < vf->nknown_seen; i++) {
        fprintf(f, "%s{\"key\": ", i ? ", " : ""); vf_json_str(f, vf->known[i].key);
        fprintf(f, ", \"cases\": %llu, \"example\": ", (unsigned long long)vf->known[i].count); vf_json_str(f, vf->known[i].text);
        fprintf(f, "}");
    }
    fprintf(f, "],\n  \"samples\": [");
    int ns = vf->nsamples > VF_NSAMPLES ? VF_NSAMPLES : vf->nsamples;
    for (int i = 0; i < ns; i++) { if (i) fputc(',', f); fprintf(f, "\n   "); vf_json_str(f, vf->samples[i]); }
    fprintf(f, "\n  ]\n },\n \"assumptions\": [");
    for (int i = 0; i < vf_nassumptions; i++) { if (i) fputc(',', f); fprintf(f, "\n  "); vf_json_str(f, vf_assumptions[i]); }
    fprintf(f, "\n ],\n \"wall_s\": %.2f,\n \"violations\": %d\n}\n", wall, vf->nviol);
    fclose(f);
    rename(tmp, vf_evidence_path);
    printf("SUMMARY %s tier=%s evaluations=%llu nontrivial=%llu outcomes=%llu states=%llu transitions=%llu exhaustive=%d "
           "violations=%d known=%d wall=%.1fs\n", vf_prop, vf_thorough ? "thorough" : "quick",
           (unsigned long long)vf->evaluations, (unsigned long long)nt, (unsigned long long)vf->outcomes,
           (unsigned long long)vf->states, (unsigned long long)vf->transitions, exhaustive, vf->nviol, vf->nknown_seen, wall);
    if (vf->harderr) return 2;
    return vf->nviol ? 1 : 0;
}

#endif /* VF_H */
