"""genrename.py — list every file-scope identifier that a library source file defines itself (functions, variables,
types, struct/union/enum tags, enumerators) and write a pair of headers that give each of them a per-inclusion
prefix (#define X PFX(X)) resp. undo that.  Used by harnesses that #include a library .c file more than once in one
translation unit (C17): the list is derived from the file as it is in the tree under test, so a change that adds a
helper function or a type to that file does not break the harness build.

Functions and variables come from the compiler (object file symbols whose debug line lies in the file itself, with
static and inline functions kept); types, tags and enumerators from a brace-depth scan of the source text."""
import os, re, subprocess, hashlib, tempfile


def _strip(text):
    text = re.sub(r"/\*.*?\*/", lambda m: " " * 0 + re.sub(r"[^\n]", " ", m.group(0)), text, flags=re.S)
    text = re.sub(r"//[^\n]*", "", text)
    text = re.sub(r'"(\\.|[^"\\\n])*"', '""', text)
    text = re.sub(r"'(\\.|[^'\\\n])*'", "' '", text)
    # drop preprocessor lines (with continuations)
    text = re.sub(r"(?m)^[ \t]*#(?:[^\n\\]|\\\n|\\.)*", "", text)
    return text


def scan_types(path):
    text = _strip(open(path, errors="replace").read())
    names = set()
    depth = 0
    stmt = []          # tokens of the current file-scope statement, braces included
    toks = re.findall(r"[A-Za-z_]\w*|[{};,=()\[\]*]", text)
    i = 0
    # collect file-scope statements: a statement ends at ';' at depth 0, or at a '}' closing a function body
    cur = []
    for t in toks:
        cur.append(t)
        if t == "{":
            depth += 1
        elif t == "}":
            depth -= 1
            if depth == 0:
                # a function body ends without ';' — decide by looking at what precedes the first '{'
                head = cur[:cur.index("{")]
                if ")" in head and "typedef" not in head and not (head and head[0] in ("struct", "union", "enum") and "(" not in head):
                    _stmt(cur, names)
                    cur = []
        elif t == ";" and depth == 0:
            _stmt(cur, names)
            cur = []
    return names


def _stmt(toks, names):
    # tags and enumerators
    for k, t in enumerate(toks):
        if t in ("struct", "union", "enum") and k + 2 < len(toks) and re.match(r"[A-Za-z_]", toks[k + 1]) and toks[k + 2] == "{":
            names.add(toks[k + 1])
        if t == "enum":
            # enumerators of a braced enum at file scope
            j = k + 1
            while j < len(toks) and toks[j] != "{" and toks[j] not in (";",):
                j += 1
            if j < len(toks) and toks[j] == "{":
                d = 0; expect = True
                for u in toks[j:]:
                    if u == "{":
                        d += 1
                    elif u == "}":
                        d -= 1
                        if d == 0:
                            break
                    elif d == 1:
                        if expect and re.match(r"[A-Za-z_]", u):
                            names.add(u); expect = False
                        elif u == ",":
                            expect = True
    if toks and toks[0] == "typedef":
        # the declared name: the last identifier at brace depth 0 before ';' that is not inside parentheses of a parameter list;
        # for function-pointer typedefs "( * name )" the identifier after '*' inside the first parentheses
        d = 0; flat = []
        for u in toks:
            if u == "{":
                d += 1
            elif u == "}":
                d -= 1
            elif d == 0:
                flat.append(u)
        m = None
        for k in range(len(flat) - 2):
            if flat[k] == "(" and flat[k + 1] == "*" and re.match(r"[A-Za-z_]", flat[k + 2]):
                m = flat[k + 2]; break
        if m is None:
            pd = 0
            for u in flat:
                if u == "(":
                    pd += 1
                elif u == ")":
                    pd -= 1
                elif pd == 0 and re.match(r"[A-Za-z_]", u) and u not in ("typedef", "struct", "union", "enum", "const", "volatile", "unsigned", "signed"):
                    m = u
        if m:
            names.add(m)


def scan_symbols(path, cc_cmd):
    """cc_cmd: compiler + flags + include dirs (list); returns names of functions/objects defined in `path` itself."""
    names = set()
    with tempfile.TemporaryDirectory() as td:
        obj = os.path.join(td, "x.o")
        cmd = list(cc_cmd) + ["-O0", "-g", "-w", "-fkeep-static-functions", "-fkeep-inline-functions", "-c", path, "-o", obj]
        subprocess.run(cmd, check=True, stdout=subprocess.DEVNULL, stderr=subprocess.DEVNULL)
        out = subprocess.run(["nm", "-l", "--defined-only", obj], check=True, capture_output=True, text=True).stdout
        base = os.path.basename(path)
        for line in out.splitlines():
            parts = line.split("\t")
            sym = parts[0].split()
            if len(sym) < 3 or len(parts) < 2:
                continue
            name = sym[2]
            src = parts[1].rsplit(":", 1)[0]
            if os.path.basename(src) == base and re.fullmatch(r"[A-Za-z_]\w*", name):
                names.add(name)
    return names


def generate(path, cc_cmd, outdir, stem, pfx_macro, keep=()):
    names = sorted((scan_types(path) | scan_symbols(path, cc_cmd)) - set(keep))
    os.makedirs(outdir, exist_ok=True)
    with open(os.path.join(outdir, stem + "_autorename.h"), "w") as f:
        f.write("/* generated by engine/genrename.py from %s */\n" % path)
        for n in names:
            f.write("#undef %s\n#define %s %s(%s)\n" % (n, n, pfx_macro, n))
    with open(os.path.join(outdir, stem + "_autounrename.h"), "w") as f:
        f.write("/* generated by engine/genrename.py from %s */\n" % path)
        for n in names:
            f.write("#undef %s\n" % n)
    return names


if __name__ == "__main__":
    import sys
    print(sorted(scan_types(sys.argv[1])))
