/* c17_watchdog.h — "every call returns": a per-process interval timer (SIGALRM) watches the
 * library call in progress; a call that is still the same call after `limit` consecutive ticks
 * is abandoned with siglongjmp.  A suspected hang is re-run by the caller with the long limit
 * before it is reported.  Ticks are only delivered while the process runs, so a descheduled
 * worker does not look hung. */
#ifndef C17_WATCHDOG_H
#define C17_WATCHDOG_H
#include <setjmp.h>
#include <signal.h>
#include <sys/time.h>
#include <unistd.h>
#include <sys/mman.h>

#define WD_TICK_US 1000
static sigjmp_buf wd_env;
static volatile sig_atomic_t wd_in;
static volatile unsigned long wd_seq, wd_last;
static volatile int wd_ticks;
static volatile int wd_limit;
static int wd_short_ms = 200, wd_long_ms = 5000;   /* DESIGN: 200 ms watchdog, 5 s confirmation */
static pid_t wd_pid;

static void wd_handler(int sig)
{
    (void)sig;
    if (!wd_in) { wd_ticks = 0; return; }
    if (wd_seq != wd_last) { wd_last = wd_seq; wd_ticks = 0; return; }
    if (++wd_ticks >= wd_limit) { wd_ticks = 0; wd_in = 0; siglongjmp(wd_env, 1); }
}

static void wd_set_limit_ms(int ms) { int t = ms * 1000 / WD_TICK_US; wd_limit = t < 2 ? 2 : t; }

static void wd_arm(void)
{
    pid_t p = getpid();
    if (p == wd_pid) return;           /* interval timers are not inherited over fork: arm once per process */
    wd_pid = p;
    struct sigaction sa; memset(&sa, 0, sizeof sa);
    sa.sa_handler = wd_handler; sa.sa_flags = SA_NODEFER | SA_RESTART; sigemptyset(&sa.sa_mask);
    sigaction(SIGALRM, &sa, NULL);
    struct itimerval it = { { 0, WD_TICK_US }, { 0, WD_TICK_US } };
    setitimer(ITIMER_REAL, &it, NULL);
    wd_set_limit_ms(wd_short_ms);
}

/* shared (all workers, all levels) set of call signatures whose hang was confirmed with the long limit */
#define WD_NCONF 8192
static volatile uint64_t *wd_confirmed;
static void wd_shared_init(void)
{
    wd_confirmed = mmap(NULL, (WD_NCONF + 1) * sizeof(uint64_t), PROT_READ | PROT_WRITE, MAP_SHARED | MAP_ANONYMOUS, -1, 0);
    if (wd_confirmed == MAP_FAILED) { perror("mmap"); exit(2); }
}
static int wd_confirmed_lookup(uint64_t sig)
{
    if (!wd_confirmed) return 0;
    for (uint64_t i = sig * 0x9e3779b97f4a7c15ULL >> 51, n = 0; n < WD_NCONF; i = (i + 1) & (WD_NCONF - 1), n++) {
        uint64_t v = wd_confirmed[i]; if (v == sig) return 1; if (v == 0) return 0;
    }
    return 0;
}
static void wd_confirmed_add(uint64_t sig)
{
    if (!wd_confirmed) return;
    __atomic_add_fetch(&wd_confirmed[WD_NCONF], 1, __ATOMIC_RELAXED);
    for (uint64_t i = sig * 0x9e3779b97f4a7c15ULL >> 51, n = 0; n < WD_NCONF / 2; i = (i + 1) & (WD_NCONF - 1), n++) {
        uint64_t exp = 0;
        if (wd_confirmed[i] == sig) return;
        if (wd_confirmed[i] == 0 && __atomic_compare_exchange_n(&wd_confirmed[i], &exp, sig, 0, __ATOMIC_RELAXED, __ATOMIC_RELAXED)) return;
        if (exp == sig) return;
    }
}

/* hung = 1 if `stmt` was abandoned */
#define WD_CALL(hung, stmt) do { wd_seq++; if (sigsetjmp(wd_env, 0) == 0) { wd_in = 1; stmt; wd_in = 0; (hung) = 0; } else { (hung) = 1; } } while (0)

#endif
