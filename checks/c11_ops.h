#ifndef C11_OPS_H
#define C11_OPS_H
static void c11_run_ops(int th) { (void)th; }
#endif
