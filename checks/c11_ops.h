/* c11_ops.h — scale / rotate / translate, bounds, invert and the is_* predicates. */
#ifndef C11_OPS_H
#define C11_OPS_H
#include "c11_common.h"

/* ---------------------------------------------------------------- matrix catalogues */
/* 5 free entries e0..e4 over an alphabet: [[e0,e1,e2],[e3,e4,e1],[e3,0,1]] — every row and column
 * has a free entry, the last row is projective when e3 != 0 */
static const int32_t S5[5] = { 0, 0x10000, -0x8000, 1, FX_MAX };
static void srt_matrix(uint64_t k, int n, pixman_transform_t *m)
{
    int32_t e[5];
    for (int i = 0; i < 5; i++) { e[i] = S5[k % n]; k /= n; }
    m->matrix[0][0] = e[0]; m->matrix[0][1] = e[1]; m->matrix[0][2] = e[2];
    m->matrix[1][0] = e[3]; m->matrix[1][1] = e[4]; m->matrix[1][2] = e[1];
    m->matrix[2][0] = e[3]; m->matrix[2][1] = 0;    m->matrix[2][2] = 0x10000;
    /* a sixth digit (0 for indices below n^5) selects other last rows: affine matrices whose homogeneous weight is not 1, and m21 != 0 */
    switch (k % 5) {
    case 1: m->matrix[2][0] = 0; m->matrix[2][2] = 0x20000; break;
    case 2: m->matrix[2][0] = 0; m->matrix[2][2] = 0x8000; break;
    case 3: m->matrix[2][0] = 0; m->matrix[2][2] = -0x10000; break;
    case 4: m->matrix[2][0] = 0; m->matrix[2][1] = e[3]; m->matrix[2][2] = 0x18000; break;
    default: break;
    }
}
static void to64(const pixman_transform_t *m, int64_t o[3][3]) { for (int i = 0; i < 3; i++) for (int j = 0; j < 3; j++) o[i][j] = m->matrix[i][j]; }
static void transpose(const pixman_transform_t *m, pixman_transform_t *o) { for (int i = 0; i < 3; i++) for (int j = 0; j < 3; j++) o->matrix[i][j] = m->matrix[j][i]; }

/* ---------------------------------------------------------------- scale / rotate / translate */
typedef struct { int op; pixman_transform_t *f, *r; pixman_fixed_t a, b; } srt_args;
static int thunk_srt(void *p)
{
    srt_args *x = p;
    switch (x->op) {
    case 0: return pixman_transform_scale(x->f, x->r, x->a, x->b);
    case 1: return pixman_transform_rotate(x->f, x->r, x->a, x->b);
    default: return pixman_transform_translate(x->f, x->r, x->a, x->b);
    }
}
static const char *opname[3] = { "scale", "rotate", "translate" };

/* candidates for 1/s in 16.16: floor and ceil of 2^32/s (the statement's "16.16 resolution") */
static int inv_cands(int32_t s, int64_t c[2])
{
    i128 q, r, num = (i128)1 << 32, den = s;
    if (den < 0) { num = -num; den = -den; }
    floordiv(num, den, &q, &r);
    c[0] = (int64_t)q;
    if (r == 0) return 1;
    c[1] = (int64_t)q + 1;
    return 2;
}
static int fits32(int64_t v) { return v >= INT32_MIN && v <= INT32_MAX; }

static int in_adm(iv_t adm[3][3], const pixman_transform_t *m, int *bi, int *bj)
{
    for (int i = 0; i < 3; i++) for (int j = 0; j < 3; j++) if (!iv_has(adm[i][j], m->matrix[i][j])) { *bi = i; *bj = j; return 0; }
    return 1;
}

typedef struct { int nm; } srt_ctx;

static void srt_block(uint64_t idx, void *ctx)
{
    const srt_ctx *sc = ctx;
    int op = (int)(idx % 3), mode = (int)(idx / 3 % 3);          /* mode 0: forward only, 1: reverse only, 2: both */
    uint64_t mi = idx / 9;
    pixman_transform_t F0, R0;
    srt_matrix(mi, sc->nm, &F0); transpose(&F0, &R0);
    int64_t F64[3][3], R64[3][3]; to64(&F0, F64); to64(&R0, R64);
    uint64_t n = 0, nt = 0;
    char fb[400], rb[400], ob[400], q0[48], q1[48], pa[40], pb[40];
    c11_blk_begin();
    for (int ia = 0; ia < 21; ia++) for (int ib = 0; ib < 21; ib++) {
        int32_t a = A21[ia], b = A21[ib];
        n++;
        /* ----- oracle ----- */
        int want_f = V_TRUE, want_r = V_TRUE, inx = 0, inv_unrep = 0;
        iv_t af[3][3]; iv_t ar[4][3][3]; int ncr = 0, cr_ok[4] = { 0, 0, 0, 0 };
        if (mode != 1) {
            int64_t T[3][3] = { { 0 } };
            if (op == 0) { T[0][0] = a; T[1][1] = b; T[2][2] = 65536; }
            else if (op == 1) { T[0][0] = a; T[0][1] = -(int64_t)b; T[1][0] = b; T[1][1] = a; T[2][2] = 65536; }
            else { T[0][0] = T[1][1] = T[2][2] = 65536; T[0][2] = a; T[1][2] = b; }
            want_f = adm_matmul(T, F64, af, &inx);
        }
        if (mode != 0) {
            if (op == 0) {
                if (a == 0 || b == 0) want_r = V_FALSE;
                else {
                    int64_t cx[2], cy[2]; int nx = inv_cands(a, cx), ny = inv_cands(b, cy);
                    int all_true = 1, all_false = 1, xr = 0, yr = 0;
                    for (int i = 0; i < nx; i++) xr |= fits32(cx[i]);
                    for (int j = 0; j < ny; j++) yr |= fits32(cy[j]);
                    inv_unrep = !xr || !yr;
                    for (int i = 0; i < nx; i++) for (int j = 0; j < ny; j++) {
                        int v;
                        if (!fits32(cx[i]) || !fits32(cy[j])) v = V_FALSE;
                        else {
                            int64_t T[3][3] = { { cx[i], 0, 0 }, { 0, cy[j], 0 }, { 0, 0, 65536 } }; int k;
                            v = adm_matmul(R64, T, ar[ncr], &k); inx |= k;
                            cr_ok[ncr] = v != V_FALSE;
                        }
                        ncr++;
                        if (v != V_TRUE) all_true = 0;
                        if (v != V_FALSE) all_false = 0;
                    }
                    want_r = all_true ? V_TRUE : all_false ? V_FALSE : V_EITHER;
                    /* observation: the library truncates 2^32/s where round-to-nearest would differ */
                    i128 tq = ((i128)1 << 32) / a, tr = ((i128)1 << 32) % a; if (tr < 0) tr = -tr;
                    i128 aa = a < 0 ? -(i128)a : a;
                    if (2 * tr > aa && mode == 1 && ib == 1 && mi == 0) ST_ADD(scale_inv_trunc_differs, 1);   /* distinct sx values */
                    (void)tq;
                }
            } else {
                int64_t T[3][3] = { { 0 } }; int k;
                if (op == 1) { T[0][0] = a; T[0][1] = b; T[1][0] = -(int64_t)b; T[1][1] = a; T[2][2] = 65536; }
                else { T[0][0] = T[1][1] = T[2][2] = 65536; T[0][2] = -(int64_t)a; T[1][2] = -(int64_t)b; }
                want_r = adm_matmul(R64, T, ar[0], &k); inx |= k; ncr = 1; cr_ok[0] = want_r != V_FALSE;
            }
        }
        int want = verdict_and(want_f, want_r);
        nt += inx || want != V_TRUE;
        /* ----- library ----- */
        pixman_transform_t F = F0, R = R0;
        srt_args args = { op, mode != 1 ? &F : NULL, mode != 0 ? &R : NULL, a, b };
        int ret = c11_guard(thunk_srt, &args);
        char key[64];
        int negmin = (op == 1 && b == FX_MIN) || (op == 2 && mode != 0 && (a == FX_MIN || b == FX_MIN));
#define SRT_FMT "pixman_transform_%s(%s, %s, %s, %s) forward=%s reverse=%s"
#define SRT_ARGS opname[op], mode != 1 ? "forward" : "NULL", mode != 0 ? "reverse" : "NULL", \
                 fx_str(a, pa), fx_str(b, pb), mat_str(&F0, fb, sizeof fb), mat_str(&R0, rb, sizeof rb)
        if (ret < 0) { snprintf(key, sizeof key, "c11-%s-abort", opname[op]); c11_fail(key, "aborts: %s; " SRT_FMT, c11_abort_msg, SRT_ARGS); }
        else if (op == 0 && (a == 0 || b == 0) && mode == 0) { /* forward-only scale by 0: the library refuses; the statement does not say: either */ }
        else if (ret && want == V_FALSE) {
            if (op == 0 && inv_unrep && want_f != V_FALSE) snprintf(key, sizeof key, "c11-scale-inverse-wrapped");
            else if (negmin) snprintf(key, sizeof key, "c11-%s-negated-min-wraps", opname[op]);
            else snprintf(key, sizeof key, "c11-%s-true-on-overflow", opname[op]);
            c11_fail(key, "returned TRUE (reverse result %s) but %s; " SRT_FMT, mode != 0 ? mat_str(&R, ob, sizeof ob) : "-",
                     op == 0 && inv_unrep ? "1/sx or 1/sy (2^32/s) does not fit 16.16, so the reverse matrix cannot be represented: expected FALSE"
                                          : "the exact result has an entry outside 16.16: expected FALSE", SRT_ARGS);
        } else if (!ret && want == V_TRUE) {
            snprintf(key, sizeof key, negmin ? "c11-%s-negated-min-wraps" : "c11-%s-false-without-overflow", opname[op]);
            c11_fail(key, "returned FALSE but every entry of the exact result is representable; " SRT_FMT, SRT_ARGS);
        } else if (ret) {
            int bi = 0, bj = 0;
            if (mode != 1 && !in_adm(af, &F, &bi, &bj)) {
                snprintf(key, sizeof key, negmin ? "c11-%s-negated-min-wraps" : "c11-%s-forward-not-rounded", opname[op]);
                c11_fail(key, "forward'[%d][%d] = %d, admissible [%s,%s]; result %s; " SRT_FMT, bi, bj, F.matrix[bi][bj], i128_str(af[bi][bj].lo, q0),
                         i128_str(af[bi][bj].hi, q1), mat_str(&F, ob, sizeof ob), SRT_ARGS);
            } else if (mode != 0) {
                int ok = 0;
                for (int c = 0; c < ncr && !ok; c++) if (cr_ok[c] && in_adm(ar[c], &R, &bi, &bj)) ok = 1;
                if (!ok) {
                    snprintf(key, sizeof key, negmin ? "c11-%s-negated-min-wraps" : (op == 0 && inv_unrep) ? "c11-scale-inverse-wrapped" : "c11-%s-reverse-not-rounded", opname[op]);
                    int show = -1; for (int c = 0; c < ncr; c++) if (cr_ok[c]) show = c;
                    if (show >= 0) in_adm(ar[show], &R, &bi, &bj);
                    c11_fail(key, "reverse' = %s matches no admissible result (entry [%d][%d] = %d vs [%s,%s] for the last of %d inverse candidate(s)); " SRT_FMT,
                             mat_str(&R, ob, sizeof ob), bi, bj, R.matrix[bi][bj], show >= 0 ? i128_str(ar[show][bi][bj].lo, q0) : "-",
                             show >= 0 ? i128_str(ar[show][bi][bj].hi, q1) : "-", ncr, SRT_ARGS);
                }
            }
        }
        vf_outcome(vf_mix(vf_mix((uint64_t)(ret + 3), ret > 0 && mode != 1 ? mat_hash(&F, 3) : 1), ret > 0 && mode != 0 ? mat_hash(&R, 4) : 2));
        if (ret > 0 && inx && mode == 2 && ia == 10 && ib == 3 && mi % 37 == 11 && c11_want_sample(2))
            vf_sample("%s(forward, reverse, %s, %s): forward %s -> %s (all entries admissible)", opname[op], fx_str(a, pa), fx_str(b, pb), mat_str(&F0, fb, sizeof fb),
                      mat_str(&F, ob, sizeof ob));
    }
    c11_blk_end();
    vf_count_eval(n); vf_count_nontrivial(nt); vf_count_libcalls(n);
}

/* ---------------------------------------------------------------- bounds */
static const int32_t BL[5] = { 0, 0x10000, -0x10000, 0x18000, 1 };                       /* linear part */
static const int32_t BT[5] = { 0, 0x8000, 0x7fff0000, 0x7fff0001, FX_MIN };              /* translation */
static const int32_t BR[4][3] = { { 0, 0, 0x10000 }, { 0, 0, 0x20000 }, { 1, 0, 0x10000 }, { 0, 0, -0x10000 } };  /* last row */
static const int16_t BX[5] = { -32768, -3, 0, 1, 32767 };
static const int16_t BY[4] = { -32768, 0, 2, 32767 };

typedef struct { int nbox; } bnd_ctx;
static int thunk_bounds(void *p) { void **a = p; return pixman_transform_bounds(a[0], a[1]); }

static void bounds_block(uint64_t idx, void *ctx)
{
    const bnd_ctx *bc = ctx;
    int dims[7] = { 5, 5, 5, 5, 5, 5, 4 }, d[7];
    vf_decode(idx, dims, 7, d);
    pixman_transform_t m;
    m.matrix[0][0] = BL[d[0]]; m.matrix[0][1] = BL[d[1]]; m.matrix[1][0] = BL[d[2]]; m.matrix[1][1] = BL[d[3]];
    m.matrix[0][2] = BT[d[4]]; m.matrix[1][2] = BT[d[5]];
    for (int j = 0; j < 3; j++) m.matrix[2][j] = BR[d[6]][j];
    uint64_t n = 0, nt = 0;
    char mb[400], q0[48], q1[48];
    c11_blk_begin();
    for (int bi = 0; bi < bc->nbox; bi++) {
        /* quick: 100 boxes = 25 x-pairs x 4 y-pairs (y1 = y2 diag + ...); thorough: all 25 x 16 */
        int xi = bi % 25, yi = bi / 25;
        pixman_box16_t box = { BX[xi % 5], BY[yi % 4], BX[xi / 5], BY[bc->nbox == 400 ? yi / 4 : (yi + 1) % 4] };
        pixman_box16_t in = box;
        n++;
        /* oracle: the four corners through the transform_point oracle */
        int cx[4] = { in.x1, in.x2, in.x2, in.x1 }, cy[4] = { in.y1, in.y1, in.y2, in.y2 };
        coord_t co[4][2]; int want = V_TRUE, ceil_over = 0, ceil_maybe = 0;
        for (int k = 0; k < 4; k++) {
            int64_t v[3] = { (int64_t)cx[k] * 65536, (int64_t)cy[k] * 65536, 65536 };
            i128 W = (i128)m.matrix[2][0] * v[0] + (i128)m.matrix[2][1] * v[1] + (i128)m.matrix[2][2] * v[2];
            i128 aw = W < 0 ? -W : W; int exact = aw < ((i128)1 << 48);
            for (int c = 0; c < 2; c++) {
                i128 N = (i128)m.matrix[c][0] * v[0] + (i128)m.matrix[c][1] * v[1] + (i128)m.matrix[c][2] * v[2];
                co[k][c] = tp_coord(N, W, exact, I32_MIN_, I32_MAX_, 0);
                want = verdict_and(want, co[k][c].verdict);
                if (co[k][c].verdict != V_FALSE) {
                    /* ceil of a value above 32767.0 is 32768: not an int16 */
                    i128 lo = co[k][c].adm.lo < I32_MIN_ ? I32_MIN_ : co[k][c].adm.lo, hi = co[k][c].adm.hi > I32_MAX_ ? I32_MAX_ : co[k][c].adm.hi;
                    if (lo > 0x7fff0000) ceil_over = 1; else if (hi > 0x7fff0000) ceil_maybe = 1;
                }
            }
        }
        if (ceil_over) want = V_FALSE; else if (ceil_maybe && want == V_TRUE) want = V_EITHER;
        nt += want != V_TRUE || co[0][0].inexact || co[2][1].inexact;
        void *args[2] = { &m, &box };
        int ret = c11_guard(thunk_bounds, args);
#define BND_FMT "pixman_transform_bounds(M=%s, box (%d,%d)-(%d,%d))"
#define BND_ARGS mat_str(&m, mb, sizeof mb), in.x1, in.y1, in.x2, in.y2
        if (ret < 0) c11_fail("c11-bounds-abort", "aborts: %s; " BND_FMT, c11_abort_msg, BND_ARGS);
        else if (ret) {
            /* TRUE => the box contains every corner (some admissible rounded position of it) */
            int bad = -1, badc = 0;
            for (int k = 0; k < 4 && bad < 0; k++) for (int c = 0; c < 2; c++) {
                i128 lo = (i128)(c ? box.y1 : box.x1) * 65536, hi = (i128)(c ? box.y2 : box.x2) * 65536;
                iv_t a = co[k][c].adm;
                if (a.lo < I32_MIN_) a.lo = I32_MIN_;
                if (a.hi > I32_MAX_) a.hi = I32_MAX_;
                if (iv_is_empty(a) || a.hi < lo || a.lo > hi) { bad = k; badc = c; break; }
            }
            if (bad >= 0) {
                iv_t a = co[bad][badc].adm;
                const char *key = "c11-bounds-corner-outside";
                if (!iv_is_empty(a) && a.hi > 0x7fff0000 && a.lo <= I32_MAX_) key = "c11-bounds-ceil-wrapped";
                if (co[bad][badc].verdict == V_FALSE) key = "c11-bounds-true-on-unrepresentable-corner";
                c11_fail(key, "returned TRUE with box (%d,%d)-(%d,%d) which does not contain corner %d (%d,%d): its transformed %c is in [%s,%s]/65536%s; " BND_FMT,
                         box.x1, box.y1, box.x2, box.y2, bad, cx[bad], cy[bad], "xy"[badc], i128_str(a.lo, q0), i128_str(a.hi, q1),
                         !strcmp(key, "c11-bounds-ceil-wrapped") ? " (above 32767.0: the upper bound 32768 is not an int16, pixman_fixed_ceil wrapped; expected FALSE)" : "", BND_ARGS);
            }
        } else if (want == V_TRUE)
            c11_fail("c11-bounds-false-without-overflow", "returned FALSE but all four corners are representable and below 32767.0; " BND_FMT, BND_ARGS);
        vf_outcome(ret > 0 ? vf_hash64(&box, sizeof box, 5) : (uint64_t)(ret + 9));
        if (ret > 0 && bi == 37 && idx % 501 == 77 && c11_want_sample(3))
            vf_sample("bounds M=%s box (%d,%d)-(%d,%d) -> TRUE (%d,%d)-(%d,%d), contains the 4 exact corners", mat_str(&m, mb, sizeof mb), in.x1, in.y1, in.x2, in.y2,
                      box.x1, box.y1, box.x2, box.y2);
    }
    c11_blk_end();
    vf_count_eval(n); vf_count_nontrivial(nt); vf_count_libcalls(n);
}

/* ---------------------------------------------------------------- invert */
typedef struct { const int32_t *al; int n, outer, mode; } inv_ctx;   /* mode 0: 9 digits; mode 1: 6 affine digits x 4 last rows */
static const int32_t IR[4][3] = { { 0, 0, 0x10000 }, { 0, 0, 1 }, { 0x10000, 0, 0x10000 }, { FX_MAX, FX_MIN, FX_MAX } };
static int thunk_invert(void *p) { void **a = p; return pixman_transform_invert(a[0], a[1]); }

static void invert_one(const pixman_transform_t *m, uint64_t *nt, int sample_ok)
{
    /* exact adjugate and determinant (raw: entries are integers k, value k/65536) */
    i128 cof[3][3], det = 0;
    for (int i = 0; i < 3; i++) for (int j = 0; j < 3; j++) {
        int i1 = (i + 1) % 3, i2 = (i + 2) % 3, j1 = (j + 1) % 3, j2 = (j + 2) % 3;
        cof[i][j] = (i128)m->matrix[i1][j1] * m->matrix[i2][j2] - (i128)m->matrix[i1][j2] * m->matrix[i2][j1];
    }
    long double T = 0;   /* sum of |terms| of the determinant, raw48 */
    for (int j = 0; j < 3; j++) {
        int j1 = (j + 1) % 3, j2 = (j + 2) % 3;
        det += (i128)m->matrix[0][j] * cof[0][j];
        T += fabsl((long double)m->matrix[0][j]) * (fabsl((long double)m->matrix[1][j1] * m->matrix[2][j2]) + fabsl((long double)m->matrix[1][j2] * m->matrix[2][j1]));
    }
    pixman_transform_t out; memset(&out, 0x33, sizeof out);
    void *args[2] = { &out, (void *)m };
    int ret = c11_guard(thunk_invert, args);
    char mb[400], ob[400], q0[48], q1[48], q2[48];
    if (ret < 0) { c11_fail("c11-invert-abort", "pixman_transform_invert aborts: %s; M=%s", c11_abort_msg, mat_str(m, mb, sizeof mb)); return; }
    {   /* in place: dst == src */
        pixman_transform_t c = *m; void *a2[2] = { &c, &c };
        int ret2 = c11_guard(thunk_invert, a2);
        if (ret2 < 0) { c11_fail("c11-invert-abort", "pixman_transform_invert(m, m) aborts: %s; M=%s", c11_abort_msg, mat_str(m, mb, sizeof mb)); return; }
        if ((ret2 != 0) != (ret != 0) || (ret && memcmp(&c, &out, sizeof out))) {
            c11_fail("c11-invert-alias", "pixman_transform_invert in place returned %d with %s, into a separate object %d with %s; M=%s", ret2, mat_str(&c, ob, sizeof ob), ret, mat_str(&out, q0, sizeof q0) ? "(see separate)" : "", mat_str(m, mb, sizeof mb));
            return;
        }
    }
    if (det == 0) {
        ST_ADD(inv_singular, 1); (*nt)++;
        if (ret) c11_fail("c11-invert-true-on-singular", "pixman_transform_invert returned TRUE (%s) for a matrix whose determinant is exactly 0; M=%s", mat_str(&out, ob, sizeof ob),
                          mat_str(m, mb, sizeof mb));
        vf_outcome(90 + (uint64_t)ret);
        return;
    }
    /* inverse[i][j] = cof[j][i] / det (real) = cof[j][i] * 2^32 / det in 16.16 units */
    long double adet = fabsl((long double)det), gamma = 16.0L / 9007199254740992.0L;   /* 16 * 2^-53 */
    int demanded = 1, overflow = 0, near_limit = 0;
    iv_t adm[3][3];
    for (int i = 0; i < 3; i++) for (int j = 0; j < 3; j++) {
        i128 c = cof[j][i];
        adm[i][j] = adm_div(c * ((i128)1 << 32), det, 1, NULL, NULL);
        int j1 = (i + 1) % 3, j2 = (i + 2) % 3, i1 = (j + 1) % 3, i2 = (j + 2) % 3;   /* cof[j][i] is built from rows j+1,j+2 and columns i+1,i+2 */
        long double C = fabsl((long double)m->matrix[i1][j1] * m->matrix[i2][j2]) + fabsl((long double)m->matrix[i1][j2] * m->matrix[i2][j1]);
        long double inv_units = fabsl((long double)c) * 4294967296.0L / adet;
        /* forward error bound of a double evaluation of cof/det, in 16.16 units */
        long double bound = gamma * (inv_units * T / adet + C * 4294967296.0L / adet);
        if (bound > 0.25L) demanded = 0;
        if (inv_units > 2147483648.0L + 1) overflow = 1;
        else if (inv_units > 2147418112.0L - 1) near_limit = 1;     /* beyond 32767.0: the library refuses, representable or not: either */
    }
    if (!demanded) { ST_ADD(inv_illcond, 1); vf_outcome(95 + (uint64_t)ret); return; }
    (*nt)++;
    ST_ADD(inv_demanded, 1);
    if (overflow) {
        ST_ADD(inv_overflow, 1);
        if (ret) c11_fail("c11-invert-true-on-overflow", "pixman_transform_invert returned TRUE (%s) although an entry of the exact inverse exceeds 16.16; M=%s", mat_str(&out, ob, sizeof ob),
                          mat_str(m, mb, sizeof mb));
        vf_outcome(97 + (uint64_t)ret);
        return;
    }
    if (!ret) {
        if (!near_limit) c11_fail("c11-invert-false-on-invertible", "pixman_transform_invert returned FALSE for a well-conditioned matrix (det=%s/2^48) whose inverse fits 16.16; M=%s",
                                  i128_str(det, q0), mat_str(m, mb, sizeof mb));
        vf_outcome(99);
        return;
    }
    for (int i = 0; i < 3; i++) for (int j = 0; j < 3; j++) if (!iv_has(adm[i][j], out.matrix[i][j])) {
        c11_fail("c11-invert-inaccurate", "inverse[%d][%d] = %d, exact %s*2^32/%s, admissible (within one unit) from %s; M=%s result %s", i, j, out.matrix[i][j], i128_str(cof[j][i], q0),
                 i128_str(det, q1), i128_str(adm[i][j].lo, q2), mat_str(m, mb, sizeof mb), mat_str(&out, ob, sizeof ob));
        return;
    }
    vf_outcome(mat_hash(&out, 6));
    if (sample_ok && c11_want_sample(4))
        vf_sample("invert M=%s -> TRUE %s; every entry within one unit of adj*2^32/det, det=%s/2^48", mat_str(m, mb, sizeof mb), mat_str(&out, ob, sizeof ob), i128_str(det, q0));
}

static void invert_block(uint64_t idx, void *ctx)
{
    const inv_ctx *ic = ctx;
    uint64_t n = 0, nt = 0;
    pixman_transform_t m;
    c11_blk_begin();
    if (ic->mode == 0) {
        int e[9]; uint64_t k = idx;
        for (int i = 0; i < ic->outer; i++) { e[i] = (int)(k % ic->n); k /= ic->n; }
        uint64_t inner = 1; for (int i = ic->outer; i < 9; i++) inner *= ic->n;
        for (uint64_t q = 0; q < inner; q++) {
            uint64_t kk = q;
            for (int i = ic->outer; i < 9; i++) { e[i] = (int)(kk % ic->n); kk /= ic->n; }
            for (int i = 0; i < 9; i++) m.matrix[i / 3][i % 3] = ic->al[e[i]];
            n++; invert_one(&m, &nt, q == 1234 % inner && idx % 53 == 9);
        }
    } else if (ic->mode == 2) {
        /* uniformly small matrices: k * B with B over {0, 1, -1, 2} and k = 2^-9 .. 2^-14: the determinant is tiny (down to 2^-42), the inverse
         * (cofactors / determinant ~ 1/k) is perfectly representable */
        static const int B4[4] = { 0, 1, -1, 2 };
        int sh = 7 - (int)(idx % 6), e0 = (int)(idx / 6 % 4);            /* raw unit 2^sh = 2^(sh-16): sh = 7..2 */
        for (uint64_t q = 0; q < 65536; q++) {
            uint64_t kk = q; int e[9]; e[0] = e0;
            for (int i = 1; i < 9; i++) { e[i] = (int)(kk % 4); kk /= 4; }
            for (int i = 0; i < 9; i++) m.matrix[i / 3][i % 3] = B4[e[i]] * (1 << sh);
            n++; invert_one(&m, &nt, q == 4321 && idx % 5 == 1);
        }
    } else {
        int row = (int)(idx % 4); uint64_t k = idx / 4; int e[6];
        e[0] = (int)(k % ic->n); e[1] = (int)(k / ic->n % ic->n);
        for (int j = 0; j < 3; j++) m.matrix[2][j] = IR[row][j];
        uint64_t inner = (uint64_t)ic->n * ic->n * ic->n * ic->n;
        for (uint64_t q = 0; q < inner; q++) {
            uint64_t kk = q;
            for (int i = 2; i < 6; i++) { e[i] = (int)(kk % ic->n); kk /= ic->n; }
            for (int i = 0; i < 6; i++) m.matrix[i / 3][i % 3] = ic->al[e[i]];
            n++; invert_one(&m, &nt, q == 777 % inner && idx % 31 == 3);
        }
    }
    c11_blk_end();
    vf_count_eval(n); vf_count_nontrivial(nt); vf_count_libcalls(n);
}

/* ---------------------------------------------------------------- predicates */
/* Reference: the documented tolerance (2 units) evaluated without 32-bit wrap-around. */
static int r_within(int64_t a, int64_t b, int64_t eps) { int64_t t = a - b; if (t < 0) t = -t; return t <= eps; }
#define R_SAME(a, b) r_within((a), (b), 2)
#define R_ZERO(a) r_within((a), 0, 2)
#define R_ONE(a) r_within((a), 65536, 2)
#define R_INT(a) R_ZERO((a) & 0xffff)
static int r_is_identity(const pixman_transform_t *t)
{
    const pixman_fixed_t (*m)[3] = t->matrix;
    return R_SAME(m[0][0], m[1][1]) && R_SAME(m[0][0], m[2][2]) && !R_ZERO(m[0][0]) && R_ZERO(m[0][1]) && R_ZERO(m[0][2]) && R_ZERO(m[1][0]) &&
           R_ZERO(m[1][2]) && R_ZERO(m[2][0]) && R_ZERO(m[2][1]);
}
static int r_is_scale(const pixman_transform_t *t)
{
    const pixman_fixed_t (*m)[3] = t->matrix;
    return !R_ZERO(m[0][0]) && R_ZERO(m[0][1]) && R_ZERO(m[0][2]) && R_ZERO(m[1][0]) && !R_ZERO(m[1][1]) && R_ZERO(m[1][2]) && R_ZERO(m[2][0]) &&
           R_ZERO(m[2][1]) && !R_ZERO(m[2][2]);
}
static int r_is_int_translate(const pixman_transform_t *t)
{
    const pixman_fixed_t (*m)[3] = t->matrix;
    return R_ONE(m[0][0]) && R_ZERO(m[0][1]) && R_INT(m[0][2]) && R_ZERO(m[1][0]) && R_ONE(m[1][1]) && R_INT(m[1][2]) && R_ZERO(m[2][0]) &&
           R_ZERO(m[2][1]) && R_ONE(m[2][2]);
}
static const int32_t P8[8] = { 0, 2, -3, 0x10000, 0x10002, FX_MIN, 0x2fffe, FX_MAX };
typedef struct { int n, outer; } pred_ctx;

static void pred_block(uint64_t idx, void *ctx)
{
    const pred_ctx *pc = ctx;
    int e[9]; uint64_t k = idx, n = 0, ntrue = 0;
    for (int i = 0; i < pc->outer; i++) { e[i] = (int)(k % pc->n); k /= pc->n; }
    uint64_t inner = 1; for (int i = pc->outer; i < 9; i++) inner *= pc->n;
    pixman_transform_t m; char mb[400];
    c11_blk_begin();
    for (uint64_t q = 0; q < inner; q++) {
        uint64_t kk = q;
        for (int i = pc->outer; i < 9; i++) { e[i] = (int)(kk % pc->n); kk /= pc->n; }
        for (int i = 0; i < 9; i++) m.matrix[i / 3][i % 3] = P8[e[i]];
        n++;
        int got[3] = { pixman_transform_is_identity(&m), pixman_transform_is_scale(&m), pixman_transform_is_int_translate(&m) };
        int exp[3] = { r_is_identity(&m), r_is_scale(&m), r_is_int_translate(&m) };
        static const char *pn[3] = { "is_identity", "is_scale", "is_int_translate" };
        ntrue += exp[0] | exp[1] | exp[2];
        for (int p = 0; p < 3; p++) if (!!got[p] != exp[p]) {
            int has_ext = 0; for (int i = 0; i < 9; i++) if (P8[e[i]] == FX_MIN || P8[e[i]] == FX_MAX) has_ext = 1;
            char key[64]; snprintf(key, sizeof key, has_ext ? "c11-within-epsilon-wraps" : "c11-%s-wrong", pn[p]);
            for (char *c = key; *c; c++) if (*c == '_') *c = '-';
            c11_fail(key, "pixman_transform_%s returned %d, expected %d (tolerance 2 units evaluated without 32-bit wrap-around; |INT32_MIN| and max-min overflow in within_epsilon); M=%s",
                     pn[p], got[p], exp[p], mat_str(&m, mb, sizeof mb));
        }
        if ((exp[0] | exp[1] | exp[2]) && q % 4099 == 17 && idx % 23 == 1 && c11_want_sample(5))
            vf_sample("predicates M=%s -> is_identity=%d is_scale=%d is_int_translate=%d (as the reference)", mat_str(&m, mb, sizeof mb), got[0], got[1], got[2]);
    }
    vf_outcome(vf_mix(idx, ntrue));
    c11_blk_end();
    vf_count_eval(n); vf_count_nontrivial(ntrue); vf_count_libcalls(3 * n);
    ST_ADD(pred_true, ntrue); ST_ADD(pred_false, n - ntrue);
}

/* is_inverse(a, b) == multiply succeeds and the product is_identity */
typedef struct { int nm; } isinv_ctx;
static void isinv_block(uint64_t idx, void *ctx)
{
    const isinv_ctx *c = ctx;
    uint64_t total = 1; for (int i = 0; i < 5; i++) total *= c->nm;
    pixman_transform_t a, b, t; char ab[400], bb[400];
    srt_matrix(idx, c->nm, &a);
    uint64_t n = 0, ntrue = 0;
    c11_blk_begin();
    for (uint64_t j = 0; j < total; j++) {
        srt_matrix(j, c->nm, &b);
        /* make b a plausible inverse in some cases: for diagonal a with entries in {1, -1/2..}, transposition keeps the catalogue closed */
        n++;
        int got = pixman_transform_is_inverse(&a, &b);
        int exp = pixman_transform_multiply(&t, &a, &b) ? r_is_identity(&t) : 0;
        ntrue += exp;
        int ext = 0; for (int i = 0; i < 9; i++) if (t.matrix[i / 3][i % 3] == FX_MIN || t.matrix[i / 3][i % 3] == FX_MAX) ext = 1;
        if (!!got != exp) c11_fail(ext ? "c11-within-epsilon-wraps" : "c11-is-inverse-wrong", "pixman_transform_is_inverse returned %d, expected %d (multiply, then identity test without wrap-around); a=%s b=%s", got, exp,
                                   mat_str(&a, ab, sizeof ab), mat_str(&b, bb, sizeof bb));
    }
    vf_outcome(vf_mix(idx + 1000003, ntrue));
    c11_blk_end();
    vf_count_eval(n); vf_count_nontrivial(ntrue); vf_count_libcalls(2 * n);
    ST_ADD(pred_true, ntrue); ST_ADD(pred_false, n - ntrue);
}

/* ---------------------------------------------------------------- init_identity / init_scale / init_rotate / init_translate
 * The building blocks of scale / rotate / translate, public in their own right: the matrix they write is fully determined. */
static void init_block(uint64_t idx, void *ctx)
{
    (void)ctx;
    int32_t a = A21[idx % 21], junk = (int32_t)(0x5a5a0000u ^ (uint32_t)idx);
    uint64_t n = 0;
    c11_blk_begin();
    for (int ib = 0; ib < 21; ib++) {
        int32_t b = A21[ib];
        for (int op = 0; op < 4; op++) {
            pixman_transform_t t; int64_t w[3][3] = { { 0x10000, 0, 0 }, { 0, 0x10000, 0 }, { 0, 0, 0x10000 } };
            for (int i = 0; i < 3; i++) for (int j = 0; j < 3; j++) t.matrix[i][j] = junk + i * 3 + j;
            switch (op) {
            case 0: pixman_transform_init_identity(&t); break;
            case 1: pixman_transform_init_scale(&t, a, b); w[0][0] = a; w[1][1] = b; break;
            case 2: pixman_transform_init_rotate(&t, a, b); w[0][0] = a; w[0][1] = -(int64_t)b; w[1][0] = b; w[1][1] = a; break;
            default: pixman_transform_init_translate(&t, a, b); w[0][2] = a; w[1][2] = b; break;
            }
            n++;
            static const char *nm[4] = { "init_identity", "init_scale", "init_rotate", "init_translate" };
            for (int i = 0; i < 3; i++) for (int j = 0; j < 3; j++)
                if (t.matrix[i][j] != w[i][j] && !(op == 2 && b == FX_MIN && i == 0 && j == 1))        /* -INT32_MIN is not representable: that entry is not judged */
                    c11_fail("c11-init-wrong", "pixman_transform_%s(%d, %d): entry [%d][%d] = %d, expected %lld", nm[op], a, b, i, j, t.matrix[i][j], (long long)w[i][j]);
        }
    }
    vf_count_libcalls(n); vf_count_eval(n); vf_count_nontrivial(n);
    c11_blk_end();
}

static void c11_run_ops(int th)
{
    vf_space_run("init-identity-scale-rotate-translate", 21, init_block, NULL);
    static srt_ctx sc; sc.nm = th ? 5 : 3;
    uint64_t nm = 1; for (int i = 0; i < 5; i++) nm *= sc.nm;
    vf_space_run("scale-rotate-translate", nm * 5 * 9, srt_block, &sc);

    static bnd_ctx bc; bc.nbox = th ? 400 : 100;
    vf_space_run("bounds", 5 * 5 * 5 * 5 * 5 * 5 * 4, bounds_block, &bc);

    static inv_ctx i9, ia;
    i9.al = th ? A6 : A5; i9.n = th ? 6 : 5; i9.outer = 4; i9.mode = 0;
    uint64_t nb = 1; for (int i = 0; i < 4; i++) nb *= i9.n;
    vf_space_run(th ? "invert-3x3-A6" : "invert-3x3-A5", nb, invert_block, &i9);
    ia.al = A7X; ia.n = 7; ia.mode = 1;
    vf_space_run("invert-affine-extremes", 7 * 7 * 4, invert_block, &ia);
    static inv_ctx iu; iu.mode = 2;
    vf_space_run("invert-uniformly-small-matrices", 6 * 4, invert_block, &iu);

    static pred_ctx pc; pc.n = th ? 8 : 6; pc.outer = 4;
    uint64_t pb = 1; for (int i = 0; i < 4; i++) pb *= pc.n;
    vf_space_run("predicates", pb, pred_block, &pc);
    static isinv_ctx iv; iv.nm = th ? 4 : 3;
    uint64_t ni = 1; for (int i = 0; i < 5; i++) ni *= iv.nm;
    vf_space_run("is-inverse", ni, isinv_block, &iv);
}

#endif
