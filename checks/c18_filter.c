/* C18 — separable-convolution filter tables are well-formed and sum to 1.
 *
 * Engine E1 (bounded-exhaustive enumeration, nothing sampled).  One engine case = one call of
 * pixman_filter_create_separable_convolution().
 *
 *   axis-x : every (reconstruct, sample, scale, subsample bits) on the x axis, y axis fixed to
 *            the one-tap identity (IMPULSE reconstruct, BOX sample, scale 1, 0 bits => table {65536})
 *   axis-y : the same with the axes swapped (other buffer offset: the y table ends the block)
 *   cross  : a grid of x-configurations x y-configurations (block layout, independence of the
 *            two tables from each other)
 *
 * Oracle (DESIGN §3 C18, properties.jsonl C18):
 *   1. a block is returned, *n_values == 4 + w*2^bx + h*2^by, where w,h come from the header;
 *      header: w,h integers >= 1 given as 16.16, phase bits as passed in;
 *      (the table covers the support of the filter: w >= ceil (rw + scale*sw), see note below)
 *   2. every phase sums to exactly 65536 — summed in 64 bits, so that a sum that reaches 65536 only
 *      by 32-bit wrap-around (INT_MIN + INT_MIN + 65536) is not accepted;
 *   3. DESIGN also asks for |c| <= 4*65536.  Enumeration showed phases whose raw taps nearly cancel
 *      (raw total +-1..3) and are blown up by the normalisation to e.g. {+32.5, -31.5}: they DO sum
 *      to 65536 exactly and a constant image IS preserved, so the statement is met; demanding the
 *      range would demand more than the statement.  Such configurations are therefore counted and
 *      listed as an observation ("amplified"), not raised as violations.  The wrap-around concern
 *      that motivated the range is covered by the 64-bit sum of item 2;
 *   4. nothing is written outside the block: the block the library mallocs is given 4096-byte
 *      guard zones whose pattern is compared after the call (deterministic, via --wrap=malloc),
 *      and library and harness are built with ASan for anything further out; the allocation must
 *      be at least as long as *n_values announces;
 *   5. pixman_image_set_filter (SEPARABLE_CONVOLUTION) accepts the block with n_values;
 *   6. a constant 4x4 a8r8g8b8 image (repeat NORMAL) sampled through the filter at the centre of
 *      EVERY phase of the enumerated axis gives exactly the constant back (the other axis being a
 *      single tap of 65536, the 2-D weight equals the 1-D coefficient and the result is exact
 *      iff the phase sums to 65536).  In the cross space both axes have several taps and the
 *      sampler rounds every product fx*fy; there the result must be within one 8-bit step when
 *      w*h <= 256 (|sum f - 65536| <= w*h/2), and is not judged for larger kernels.
 *
 * Failure keys (narrow on purpose; known findings are matched on them):
 *   c18-impulse-impulse-zero-width   IMPULSE reconstruction with IMPULSE sampling: width 0 (finding 6a);
 *                                    on the y axis the library also writes 4 bytes past the block
 *   c18-zero-width-table             any other configuration with width/height < 1
 *   c18-zero-total-phase-nan         a phase carrying the exact signature of the 0/0 normalisation
 *                                    (all taps INT_MIN, first tap INT_MIN+65536 or 65536) (finding 6b)
 *   c18-phase-sum-not-one            a phase does not sum to 65536 (without that signature)
 *   c18-write-outside-block          guard zone modified or ASan report during the call (not IMPULSE/IMPULSE)
 *   c18-n-values / c18-header / c18-width-below-support / c18-null-block
 *   c18-set-filter-rejected / c18-constant-not-preserved / c18-table-depends-on-other-axis
 */
#include "vf.h"
#include <pixman.h>
#include <limits.h>
#include <math.h>

#define NK 8
static const char *kname[NK] = { "IMPULSE", "BOX", "LINEAR", "CUBIC", "GAUSSIAN", "LANCZOS2", "LANCZOS3", "LANCZOS3_STRETCHED" };
/* documented kernel widths (pixman-filter.c filters[]), used only for the support check */
static const int kwidth[NK] = { 0, 1, 2, 4, 5, 4, 6, 8 };

#define COEF_LIMIT (4 * 65536)
#define CONST_PIXEL 0xff9c4b01u

typedef struct { int rk, sk, bits; pixman_fixed_t scale; } axcfg;

/* ---- guard zones around the block the library allocates ------------------------------------
 * The check is linked with -Wl,--wrap=malloc: every malloc() of the library and of this file comes
 * here.  While g_guard_on is set (only around the create call, which allocates exactly one block)
 * the block gets GUARD bytes of 0xA5 on both sides.  A write of the library outside its block but
 * inside a guard zone is then detected deterministically by comparing the pattern afterwards
 * (ASan does not see it: for ASan the zones are part of the allocation); a write further out is
 * caught by ASan itself.  Blocks handed out this way are released with blk_free(). */
#define GUARD 4096
void *__real_malloc(size_t n);
static int g_guard_on, g_guard_count;
static unsigned char *g_guard_base;
static size_t g_guard_n;
void *__wrap_malloc(size_t n)
{
    if (!g_guard_on) return __real_malloc(n);
    unsigned char *b = __real_malloc(n + 2 * GUARD);
    if (!b) return NULL;
    memset(b, 0xA5, GUARD); memset(b + GUARD + n, 0xA5, GUARD);
    g_guard_base = b; g_guard_n = n; g_guard_count++;
    return b + GUARD;
}
static void blk_free(pixman_fixed_t *params) { if (params) free((unsigned char *)params - GUARD); }
/* returns 0 if intact; else sets *where = byte offset relative to the block start (negative: before) / end (>= 0: past the end) */
static int guard_damaged(long *before_off, long *after_off, int *nbytes)
{
    int n = 0; *before_off = 0; *after_off = -1;
    for (long i = 0; i < GUARD; i++) if (g_guard_base[i] != 0xA5) { if (!n || i - GUARD < *before_off) *before_off = i - GUARD; n++; }
    for (long i = 0; i < GUARD; i++) if (g_guard_base[GUARD + g_guard_n + i] != 0xA5) { if (*after_off < 0) *after_off = i; n++; }
    *nbytes = n;
    return n;
}

/* ---- alphabets ---- */
#define MAXSCALES 2200
static pixman_fixed_t g_scales[MAXSCALES];
static int g_nscales;
static int g_nbits;

static int cmp_fixed(const void *a, const void *b) { pixman_fixed_t x = *(const pixman_fixed_t *)a, y = *(const pixman_fixed_t *)b; return x < y ? -1 : x > y; }

static void add_scale(pixman_fixed_t s) { if (g_nscales < MAXSCALES) g_scales[g_nscales++] = s; }

static void build_scales(int thorough)
{
    static const pixman_fixed_t special[] = { 1, 2, 0x3fff, 0x4000, 0x8000, 0xffff, 0x10000, 0x10001, 0x18000, 0x20000, 0x30000, 0x48000, 0x80000 };
    g_nscales = 0;
    for (unsigned i = 0; i < sizeof special / sizeof special[0]; i++) add_scale(special[i]);
    /* strong down-scaling: tables with tens of thousands of coefficients per axis (width x phases >= 32768 exercises the
     * size arithmetic of pixman_image_set_filter and of the block length) */
    add_scale(0x7f8000);                                                  /* 127.5 */
    add_scale(0x4008000);                                                 /* 1024.5 */
    if (!thorough) {
        for (int k = 1; k <= 256; k++) add_scale(k * 2048);              /* k/32 up to 8.0 (superset of DESIGN's k/16 up to 4.0) */
        g_nbits = 6;
    } else {
        for (int k = 1; k <= 2048; k++) add_scale(k * 256);               /* k/256 up to 8.0 */
        add_scale(0x104000);                                              /* 16.25 */
        add_scale(0x400000);                                              /* 64 */
        g_nbits = 9;
    }
    qsort(g_scales, g_nscales, sizeof g_scales[0], cmp_fixed);
    int k = 0;
    for (int i = 0; i < g_nscales; i++) if (!k || g_scales[k - 1] != g_scales[i]) g_scales[k++] = g_scales[i];
    g_nscales = k;
}

/* ---- shared table of failing inputs (so the final report can list them exactly) ---- */
#define FAILCAP 200000
typedef struct { uint8_t keyid, axis, rk, sk, bits; int32_t scale; } failrec;
typedef struct { volatile int64_t n; failrec r[FAILCAP]; volatile uint64_t image_pixels, exact2d, offby1_2d, skipped2d, phases; } shared_t;
static shared_t *sh;
enum { K_II = 1, K_ZW, K_NAN, K_AMPL, K_SUM, K_ASAN, K_OTHER };
static const char *keyname[] = { "", "c18-impulse-impulse-zero-width", "c18-zero-width-table", "c18-zero-total-phase-nan",
    "observation:amplified-near-zero-total(|c|>4.0,sum ok)", "c18-phase-sum-not-one", "c18-write-outside-block", "other" };

static int g_record;   /* set while an axis space runs: failing inputs are listed from there only */
static void note_fail(int keyid, int axis, const axcfg *c)
{
    if (vf_in_confirm || vf_replaying() || !g_record) return;
    int64_t k = __atomic_fetch_add(&sh->n, 1, __ATOMIC_RELAXED);
    if (k < FAILCAP) { failrec r = { (uint8_t)keyid, (uint8_t)axis, (uint8_t)c->rk, (uint8_t)c->sk, (uint8_t)c->bits, c->scale }; sh->r[k] = r; }
}

static const axcfg ID_AXIS = { PIXMAN_KERNEL_IMPULSE, PIXMAN_KERNEL_BOX, 0, 0x10000 };

static const char *cfg_str(const axcfg *c, char *buf, size_t cap)
{
    snprintf(buf, cap, "%s/%s scale=0x%x(%.6g) bits=%d", kname[c->rk], kname[c->sk], (unsigned)c->scale, c->scale / 65536.0, c->bits);
    return buf;
}

/* exact ceil (rw + scale*sw) in integers */
static int support_ceil(const axcfg *c)
{
    int64_t num = (int64_t)kwidth[c->rk] * 65536 + (int64_t)kwidth[c->sk] * c->scale;
    return (int)((num + 65535) / 65536);
}

/* Check one 1-D table.  axis: 0 = x, 1 = y.  Returns 0 if a violation was raised. */
static int check_table(const pixman_fixed_t *tab, int width, const axcfg *c, int axis, const char *desc, int *amplified)
{
    int nph = 1 << c->bits;
    char cb[160];
    for (int ph = 0; ph < nph; ph++) {
        const pixman_fixed_t *p = tab + (size_t)ph * width;
        int64_t sum = 0; int big = -1;
        for (int i = 0; i < width; i++) {
            sum += p[i];                                   /* 64-bit: a 32-bit wrap-around cannot fake 65536 */
            if (big < 0 && (p[i] > COEF_LIMIT || p[i] < -COEF_LIMIT)) big = i;
        }
        if (sum != 65536) {
            int sig = width >= 2 && (p[0] == INT_MIN + 65536 || p[0] == 65536 || p[0] == INT_MIN);
            for (int i = 1; i < width; i++) if (p[i] != INT_MIN) sig = 0;
            if (sig) {
                note_fail(K_NAN, axis, c);
                vf_violation("c18-zero-total-phase-nan", "%s axis %c [%s]: phase %d of %d has the 0/0 signature: tap[0]=%d, taps[1..%d]=INT_MIN=%d "
                             "(raw taps of the phase total 0, normalised through 65536/0 -> NaN -> INT_MIN); exact sum %lld (as a wrapped 32-bit sum: %d), expected 65536",
                             desc, "xy"[axis], cfg_str(c, cb, sizeof cb), ph, nph, p[0], width - 1, INT_MIN, (long long)sum, (int32_t)(uint32_t)sum);
            } else {
                note_fail(K_SUM, axis, c);
                vf_violation("c18-phase-sum-not-one", "%s axis %c [%s]: phase %d of %d sums to %lld, expected 65536 (width %d, first taps %d %d)", desc, "xy"[axis],
                             cfg_str(c, cb, sizeof cb), ph, nph, (long long)sum, width, p[0], width > 1 ? p[1] : 0);
            }
            return 0;
        }
        if (big >= 0 && !*amplified) {
            /* Not a violation of the statement (the phase does sum to 65536 exactly, without wrap-around),
             * but recorded: the raw taps of the phase nearly cancel and the normalisation blows them up. */
            *amplified = 1;
            note_fail(K_AMPL, axis, c);
            if (vf_verbose) printf("   observation: phase %d tap %d = %d (|c| > 4*65536) although the phase sums to 65536\n", ph, big, p[big]);
        }
    }
    return 1;
}

/* call the library and check items 1-5; on success returns the block (caller frees) and sets w,h */
static pixman_fixed_t *make_and_check(const axcfg *cx, const axcfg *cy, int enum_axis /*0 x,1 y,2 both*/, int *pn, int *pw, int *ph, const char *desc, int *pampl)
{
    char bx[160], by[160];
    int n = -12345;
    vf_asan_flag = 0;
    g_guard_count = 0; g_guard_base = NULL; g_guard_on = 1;
    pixman_fixed_t *params = pixman_filter_create_separable_convolution(&n, cx->scale, cy->scale, cx->rk, cy->rk, cx->sk, cy->sk, cx->bits, cy->bits);
    g_guard_on = 0;
    vf_count_libcalls(1);
    int asan = vf_asan_flag;
    vf_asan_flag = 0;   /* we classify it ourselves below */
    char over[300] = "";
    if (params && (g_guard_count != 1 || (unsigned char *)params != g_guard_base + GUARD)) {
        vf_harderr("create allocated %d blocks / returned a pointer that is not the allocated block: harness assumption broken", g_guard_count);
        return NULL;
    }
    if (params) {
        long b, a; int nb;
        if (guard_damaged(&b, &a, &nb))
            snprintf(over, sizeof over, "%d byte(s) OUTSIDE the %zu-byte block modified (first at %s%ld)", nb, g_guard_n,
                     a >= 0 ? "end+" : "start", a >= 0 ? a : b);
    }
    if (asan) snprintf(over + strlen(over), sizeof over - strlen(over), "%sAddressSanitizer: %s", over[0] ? "; " : "", vf_asan_desc);
    asan = over[0] != 0;
    if (vf_verbose) printf("   create(x: %s | y: %s) -> %p n=%d asan=%d\n", cfg_str(cx, bx, sizeof bx), cfg_str(cy, by, sizeof by), (void *)params, n, asan);
    if (!params) { vf_violation("c18-null-block", "%s: NULL returned (n=%d) for x[%s] y[%s]", desc, n, cfg_str(cx, bx, sizeof bx), cfg_str(cy, by, sizeof by)); return NULL; }
    /* header (the first four values exist whenever a block is returned: n >= 4 is checked first) */
    if (n < 4) { vf_violation("c18-n-values", "%s: n_values=%d < 4", desc, n); blk_free(params); return NULL; }
    int w = pixman_fixed_to_int(params[0]), h = pixman_fixed_to_int(params[1]);
    if (vf_verbose) printf("   header: %08x %08x %08x %08x\n", (unsigned)params[0], (unsigned)params[1], (unsigned)params[2], (unsigned)params[3]);
    const axcfg *cc[2] = { cx, cy }; int dim[2] = { w, h };
    for (int a = 0; a < 2; a++) {
        if (dim[a] < 1) {
            int ii = cc[a]->rk == PIXMAN_KERNEL_IMPULSE && cc[a]->sk == PIXMAN_KERNEL_IMPULSE;
            note_fail(ii ? K_II : K_ZW, a, cc[a]);
            vf_violation(ii ? "c18-impulse-impulse-zero-width" : "c18-zero-width-table",
                         "%s: %s = %d for axis %c [%s]: the table has no taps, no phase can sum to 65536 (n_values=%d)%s%s", desc,
                         a ? "height" : "width", dim[a], "xy"[a], cfg_str(cc[a], bx, sizeof bx), n,
                         asan ? "; " : "", over);
            blk_free(params); return NULL;
        }
    }
    if (asan) {
        note_fail(K_ASAN, enum_axis == 1, enum_axis == 1 ? cy : cx);
        vf_violation("c18-write-outside-block", "%s: %s during create for x[%s] y[%s]", desc, over,
                     cfg_str(cx, bx, sizeof bx), cfg_str(cy, by, sizeof by));
        blk_free(params); return NULL;
    }
    if (params[0] != pixman_int_to_fixed(w) || params[1] != pixman_int_to_fixed(h) ||
        params[2] != pixman_int_to_fixed(cx->bits) || params[3] != pixman_int_to_fixed(cy->bits)) {
        vf_violation("c18-header", "%s: header %08x %08x %08x %08x, expected integer width/height and phase bits %d/%d as 16.16", desc,
                     (unsigned)params[0], (unsigned)params[1], (unsigned)params[2], (unsigned)params[3], cx->bits, cy->bits);
        blk_free(params); return NULL;
    }
    if ((size_t)n * sizeof(pixman_fixed_t) > g_guard_n) {
        vf_violation("c18-n-values", "%s: n_values=%d announces %zu bytes but the block allocated is %zu bytes", desc, n, (size_t)n * 4, g_guard_n);
        blk_free(params); return NULL;
    }
    int64_t expect_n = 4 + (int64_t)w * (1 << cx->bits) + (int64_t)h * (1 << cy->bits);
    if (n != expect_n) {
        vf_violation("c18-n-values", "%s: n_values=%d, header says 4 + %d*2^%d + %d*2^%d = %lld", desc, n, w, cx->bits, h, cy->bits, (long long)expect_n);
        blk_free(params); return NULL;
    }
    for (int a = 0; a < 2; a++) {
        int need = support_ceil(cc[a]);
        if (dim[a] < need) {
            vf_violation("c18-width-below-support", "%s: axis %c [%s] has %d taps but the filter support is %d + %.6g*%d (needs %d)", desc, "xy"[a],
                         cfg_str(cc[a], bx, sizeof bx), dim[a], kwidth[cc[a]->rk], cc[a]->scale / 65536.0, kwidth[cc[a]->sk], need);
            blk_free(params); return NULL;
        }
    }
    /* tables: check the enumerated axis first so that its key is the one reported */
    int order[2] = { enum_axis == 1 ? 1 : 0, enum_axis == 1 ? 0 : 1 };
    for (int k = 0; k < 2; k++) {
        int a = order[k];
        const pixman_fixed_t *tab = a == 0 ? params + 4 : params + 4 + (size_t)w * (1 << cx->bits);
        int ampl = 0;
        if (!check_table(tab, dim[a], cc[a], a, desc, &ampl)) { blk_free(params); return NULL; }
        if (ampl && a == (enum_axis == 1) && pampl) *pampl = 1;
    }
    *pn = n; *pw = w; *ph = h;
    return params;
}

/* items 5 and 6.  phases_x/phases_y: size of the destination (one pixel per phase centre). */
/* when set (and of the same length as the block under test), the image is first given this other block and drawn from once: storing a
 * block must not depend on what the image held before */
static const pixman_fixed_t *g_prev_block; static int g_prev_n;
/* route: which of the library's consumers of the block delivers the samples.  0: a8r8g8b8 source, affine transform (the dedicated separable-convolution
 * fetchers); 1: a8b8g8r8 source (no dedicated fetcher: the general per-pixel one); 2: a8r8g8b8 source read through an accessor (general, accessor variant);
 * 3: a2r10g10b10 source holding the same colour (the float pipeline's per-pixel fetcher) */
static uint32_t c18_acc_read(const void *p, int size) { (void)size; return *(const uint32_t *)p; }
static void c18_acc_write(void *p, uint32_t v, int size) { (void)size; *(uint32_t *)p = v; }
static const char *c18_route_name[4] = { "a8r8g8b8 source", "a8b8g8r8 source (general per-pixel fetcher)", "a8r8g8b8 source behind accessors", "a2r10g10b10 source (float pipeline)" };
static int image_check_route(const pixman_fixed_t *params, int n, const axcfg *cx, const axcfg *cy, int w, int h, int tol, const char *desc0, int route);
/* what the three 8-bit consumers delivered for the block under test (converted to a8r8g8b8): they implement one computation and must agree exactly,
 * also where the statement's "constant is preserved" only holds to within a step (two axes with several taps each) */
static uint32_t *g_route_out[3]; static int g_route_n;
static int image_check(const pixman_fixed_t *params, int n, const axcfg *cx, const axcfg *cy, int w, int h, int tol, const char *desc)
{
    int ok = 1;
    for (int route = 0; route < 4 && ok; route++) if (!image_check_route(params, n, cx, cy, w, h, tol, desc, route)) ok = 0;
    if (ok) for (int r = 1; r < 3 && ok; r++) for (int i = 0; i < g_route_n; i++) if (g_route_out[r][i] != g_route_out[0][i]) {
        char bx[160], by[160];
        vf_violation("c18-consumers-disagree", "%s: constant image %08x at phase (%d,%d): the dedicated a8r8g8b8 fetcher gives %08x, %s gives %08x x[%s] y[%s]", desc, CONST_PIXEL,
                     i % (1 << cx->bits), i / (1 << cx->bits), g_route_out[0][i], c18_route_name[r], g_route_out[r][i], cfg_str(cx, bx, sizeof bx), cfg_str(cy, by, sizeof by));
        ok = 0; break;
    }
    for (int r = 0; r < 3; r++) { free(g_route_out[r]); g_route_out[r] = NULL; }
    return ok;
}
static int image_check_route(const pixman_fixed_t *params, int n, const axcfg *cx, const axcfg *cy, int w, int h, int tol, const char *desc0, int route)
{
    uint32_t srcbits[16];
    char desc[200]; snprintf(desc, sizeof desc, "%s, %s", desc0, c18_route_name[route]);
    /* the float pipeline's contract is one step of the destination (C01, C08), which is this route's tolerance.  Recorded finding
     * c18-float-pipeline-truncates-each-tap: accum_float adds each tap's product into an INTEGER accumulator in units of 1/65536, truncating, so a
     * constant comes out lower by up to (number of taps)/65536 - several 8-bit steps for kernels of a thousand taps.  A result is attributed to that
     * finding only if every channel is at or below the constant and short of it by no more than that bound. */
    int trunc_bound = 0;
    if (route == 3) { if (tol < 1) tol = 1; trunc_bound = tol + (int)(((int64_t)w * h * 255 + 65535) / 65536); }
    /* the constant in the source's format: a8b8g8r8 swaps r and b; a2r10g10b10 widens each channel by bit replication (alpha ff -> 3) */
    uint32_t cpix = CONST_PIXEL;
    if (route == 1) cpix = (CONST_PIXEL & 0xff00ff00u) | ((CONST_PIXEL >> 16) & 0xff) | ((CONST_PIXEL & 0xff) << 16);
    if (route == 3) { uint32_t r = (CONST_PIXEL >> 16) & 0xff, g = (CONST_PIXEL >> 8) & 0xff, b = CONST_PIXEL & 0xff; cpix = 3u << 30 | (r << 2 | r >> 6) << 20 | (g << 2 | g >> 6) << 10 | (b << 2 | b >> 6); }
    for (int i = 0; i < 16; i++) srcbits[i] = cpix;
    int dw = 1 << cx->bits, dh = 1 << cy->bits;
    int ok = 1;
    pixman_image_t *src = pixman_image_create_bits(route == 1 ? PIXMAN_a8b8g8r8 : route == 3 ? PIXMAN_a2r10g10b10 : PIXMAN_a8r8g8b8, 4, 4, srcbits, 16);
    if (src && route == 2) pixman_image_set_accessors(src, c18_acc_read, c18_acc_write);
    uint32_t *dbits = calloc((size_t)dw * dh, 4);
    pixman_image_t *dst = pixman_image_create_bits(PIXMAN_a8r8g8b8, dw, dh, dbits, dw * 4);
    if (!src || !dst || !dbits) { vf_harderr("image allocation failed"); ok = 0; goto out; }
    pixman_image_set_repeat(src, PIXMAN_REPEAT_NORMAL);
    if (g_prev_block && g_prev_n == n) {
        uint32_t one = 0; pixman_image_t *scratch = pixman_image_create_bits(PIXMAN_a8r8g8b8, 1, 1, &one, 4);
        pixman_image_set_filter(src, PIXMAN_FILTER_SEPARABLE_CONVOLUTION, g_prev_block, g_prev_n);
        pixman_image_composite32(PIXMAN_OP_SRC, src, NULL, scratch, 0, 0, 0, 0, 0, 0, 1, 1);
        pixman_image_unref(scratch); vf_count_libcalls(2);
    }
    pixman_bool_t acc = pixman_image_set_filter(src, PIXMAN_FILTER_SEPARABLE_CONVOLUTION, params, n);
    vf_count_libcalls(1);
    if (!acc) {
        vf_violation("c18-set-filter-rejected", "%s: pixman_image_set_filter(SEPARABLE_CONVOLUTION, n=%d) returned FALSE (header w=%d h=%d bits=%d/%d)",
                     desc, n, w, h, cx->bits, cy->bits);
        ok = 0; goto out;
    }
    /* destination pixel (i,j) -> source position (1 + (2i+1)/(2*dw), 1 + (2j+1)/(2*dh)): centre of phase (i,j) */
    pixman_transform_t t;
    pixman_transform_init_identity(&t);
    t.matrix[0][0] = 65536 >> cx->bits; t.matrix[0][2] = 65536;
    t.matrix[1][1] = 65536 >> cy->bits; t.matrix[1][2] = 65536;
    pixman_image_set_transform(src, &t);
    pixman_image_composite32(PIXMAN_OP_SRC, src, NULL, dst, 0, 0, 0, 0, 0, 0, dw, dh);
    vf_count_libcalls(1);
    if (!vf_in_confirm) __atomic_add_fetch(&sh->image_pixels, (uint64_t)dw * dh, __ATOMIC_RELAXED);
    int worst = 0;
    for (int j = 0; j < dh && ok; j++) for (int i = 0; i < dw; i++) {
        uint32_t got = dbits[j * dw + i];
        int d = 0;
        for (int s = 0; s < 32; s += 8) { int e = (int)((got >> s) & 0xff) - (int)((CONST_PIXEL >> s) & 0xff); if (e < 0) e = -e; if (e > d) d = e; }
        if (d > worst) worst = d;
        if (d > tol && route == 3) {
            int only_lower = 1, deficit = 0;
            for (int sh = 0; sh < 32; sh += 8) { int e = (int)((CONST_PIXEL >> sh) & 0xff) - (int)((got >> sh) & 0xff); if (e < 0) only_lower = 0; if (e > deficit) deficit = e; }
            if (only_lower && deficit <= trunc_bound) {
                char bx[160], by[160];
                vf_violation("c18-float-pipeline-truncates-each-tap", "%s: constant image %08x sampled at phase (%d,%d) gives %08x: %d step(s) low with %d x %d taps (each tap's product is truncated into an integer accumulator) x[%s] y[%s]",
                             desc, CONST_PIXEL, i, j, got, deficit, w, h, cfg_str(cx, bx, sizeof bx), cfg_str(cy, by, sizeof by));
                ok = 0; break;
            }
        }
        if (d > tol) {
            char bx[160], by[160];
            vf_violation("c18-constant-not-preserved", "%s: constant image %08x sampled at phase (%d,%d) gives %08x (tolerance %d) x[%s] y[%s]", desc,
                         CONST_PIXEL, i, j, got, tol, cfg_str(cx, bx, sizeof bx), cfg_str(cy, by, sizeof by));
            ok = 0; break;
        }
    }
    if (ok && tol > 0 && !vf_in_confirm) __atomic_add_fetch(worst ? &sh->offby1_2d : &sh->exact2d, 1, __ATOMIC_RELAXED);
    if (ok && route < 3) {
        g_route_n = dw * dh; free(g_route_out[route]); g_route_out[route] = malloc(sizeof(uint32_t) * (size_t)g_route_n);
        memcpy(g_route_out[route], dbits, sizeof(uint32_t) * (size_t)g_route_n);
    }
out:
    if (src) pixman_image_unref(src);
    if (dst) pixman_image_unref(dst);
    free(dbits);
    return ok;
}

static void decode_axis(uint64_t idx, axcfg *c)
{
    int dims[4] = { g_nscales, g_nbits, NK, NK }, d[4];
    vf_decode(idx, dims, 4, d);
    c->scale = g_scales[d[0]]; c->bits = d[1]; c->sk = d[2]; c->rk = d[3];
}

static void axis_case(uint64_t idx, void *ctx)
{
    int axis = *(int *)ctx;
    axcfg c; decode_axis(idx, &c);
    g_record = 1;
    const axcfg *cx = axis == 0 ? &c : &ID_AXIS, *cy = axis == 0 ? &ID_AXIS : &c;
    char cb[160];
    if (vf_verbose) printf("   axis %c config: %s\n", "xy"[axis], cfg_str(&c, cb, sizeof cb));
    vf_count_eval(1);
    int n, w, h;
    pixman_fixed_t *params = make_and_check(cx, cy, axis, &n, &w, &h, axis ? "axis-y" : "axis-x", NULL);
    if (!params) return;
    int width = axis ? h : w, other = axis ? w : h;
    if (other != 1 || params[axis ? 4 : 4 + (size_t)w * (1 << cx->bits)] != 65536) {
        /* the fixed identity axis itself is wrong: item 6 would not be exact; report it as such */
        vf_violation("c18-identity-axis", "fixed axis IMPULSE/BOX scale 1 bits 0 gave %d taps, first %d (expected one tap of 65536)", other,
                     params[axis ? 4 : 4 + (size_t)w * (1 << cx->bits)]);
        blk_free(params); return;
    }
    if (width >= 2) vf_count_nontrivial(1);
    if (!vf_in_confirm) __atomic_add_fetch(&sh->phases, (uint64_t)1 << c.bits, __ATOMIC_RELAXED);
    vf_outcome(vf_hash64(params, (size_t)n * sizeof params[0], 18));
    if (image_check(params, n, cx, cy, w, h, 0, axis ? "axis-y" : "axis-x") && idx % 997 == 3 && vf_want_sample()) {
        const pixman_fixed_t *t0 = params + (axis ? 5 : 4);
        char taps[120]; size_t l = 0;
        for (int i = 0; i < width && i < 6; i++) l += snprintf(taps + l, sizeof taps - l, "%s%d", i ? "," : "", t0[i]);
        if (width > 6) snprintf(taps + l, sizeof taps - l, ",...");
        vf_sample("axis %c %s -> n_values=%d width=%d phases=%d, phase0 = {%s}, every phase sums to 65536, constant image preserved at all %d phase centres",
                  "xy"[axis], cfg_str(&c, cb, sizeof cb), n, width, 1 << c.bits, taps, 1 << c.bits);
    }
    blk_free(params);
}

/* ---- dense scale sweep: EVERY 16.16 scale of a range (not a grid), for the kernel pairs of the list ---- */
typedef struct { int axis; int32_t lo; int nsc; int nb; int bits[4]; int npairs; uint8_t pair[64][2]; } dense_ctx;
static void dense_case(uint64_t idx, void *vctx)
{
    dense_ctx *dc = vctx;
    int dims[3] = { dc->nsc, dc->nb, dc->npairs }, d[3];
    vf_decode(idx, dims, 3, d);
    axcfg c; c.scale = dc->lo + d[0]; c.bits = dc->bits[d[1]]; c.rk = dc->pair[d[2]][0]; c.sk = dc->pair[d[2]][1];
    g_record = 1;
    const axcfg *cx = dc->axis == 0 ? &c : &ID_AXIS, *cy = dc->axis == 0 ? &ID_AXIS : &c;
    vf_count_eval(1);
    int n, w, h;
    pixman_fixed_t *params = make_and_check(cx, cy, dc->axis, &n, &w, &h, dc->axis ? "dense-y" : "dense-x", NULL);
    if (!params) return;
    int width = dc->axis ? h : w;
    if (width >= 2) vf_count_nontrivial(1);
    if (!vf_in_confirm) __atomic_add_fetch(&sh->phases, (uint64_t)1 << c.bits, __ATOMIC_RELAXED);
    vf_outcome(vf_hash64(params, (size_t)n * sizeof params[0], 19));
    blk_free(params);
}

/* ---- cross grid ---- */
#define MAXCROSS 40
static axcfg g_cross[MAXCROSS];
static int g_ncross;

static void build_cross(int thorough)
{
    static const axcfg quick[] = {
        { PIXMAN_KERNEL_IMPULSE, PIXMAN_KERNEL_BOX, 0, 0x10000 }, { PIXMAN_KERNEL_BOX, PIXMAN_KERNEL_BOX, 1, 0x10000 },
        { PIXMAN_KERNEL_LINEAR, PIXMAN_KERNEL_IMPULSE, 2, 0x10000 }, { PIXMAN_KERNEL_LINEAR, PIXMAN_KERNEL_BOX, 3, 0x18000 },
        { PIXMAN_KERNEL_CUBIC, PIXMAN_KERNEL_LINEAR, 2, 0x8000 }, { PIXMAN_KERNEL_GAUSSIAN, PIXMAN_KERNEL_GAUSSIAN, 1, 0x20000 },
        { PIXMAN_KERNEL_LANCZOS2, PIXMAN_KERNEL_BOX, 4, 0x30000 }, { PIXMAN_KERNEL_LANCZOS3, PIXMAN_KERNEL_LANCZOS3, 0, 0x48000 },
        { PIXMAN_KERNEL_BOX, PIXMAN_KERNEL_LANCZOS3_STRETCHED, 3, 0xffff }, { PIXMAN_KERNEL_IMPULSE, PIXMAN_KERNEL_LINEAR, 4, 0x28000 },
        { PIXMAN_KERNEL_LANCZOS3_STRETCHED, PIXMAN_KERNEL_CUBIC, 2, 0x10001 }, { PIXMAN_KERNEL_BOX, PIXMAN_KERNEL_IMPULSE, 0, 0x4000 },
    };
    static const axcfg more[] = {
        { PIXMAN_KERNEL_LINEAR, PIXMAN_KERNEL_LINEAR, 5, 0x38000 }, { PIXMAN_KERNEL_CUBIC, PIXMAN_KERNEL_CUBIC, 6, 0x14000 },
        { PIXMAN_KERNEL_GAUSSIAN, PIXMAN_KERNEL_BOX, 7, 0x9000 }, { PIXMAN_KERNEL_LANCZOS2, PIXMAN_KERNEL_LANCZOS2, 8, 0x10000 },
        { PIXMAN_KERNEL_LANCZOS3, PIXMAN_KERNEL_IMPULSE, 5, 0x3fff }, { PIXMAN_KERNEL_IMPULSE, PIXMAN_KERNEL_GAUSSIAN, 6, 0x80000 },
        { PIXMAN_KERNEL_BOX, PIXMAN_KERNEL_BOX, 8, 0x104000 }, { PIXMAN_KERNEL_LANCZOS3_STRETCHED, PIXMAN_KERNEL_LANCZOS3_STRETCHED, 3, 0x30000 },
        { PIXMAN_KERNEL_CUBIC, PIXMAN_KERNEL_BOX, 1, 0x2 }, { PIXMAN_KERNEL_LINEAR, PIXMAN_KERNEL_GAUSSIAN, 4, 0x5c00 },
        { PIXMAN_KERNEL_LANCZOS2, PIXMAN_KERNEL_LINEAR, 7, 0x1c000 }, { PIXMAN_KERNEL_BOX, PIXMAN_KERNEL_CUBIC, 2, 0x60000 },
    };
    g_ncross = 0;
    for (unsigned i = 0; i < sizeof quick / sizeof quick[0]; i++) g_cross[g_ncross++] = quick[i];
    if (thorough) for (unsigned i = 0; i < sizeof more / sizeof more[0]; i++) g_cross[g_ncross++] = more[i];
}

static void cross_case(uint64_t idx, void *ctx)
{
    (void)ctx;
    const axcfg *cx = &g_cross[idx % g_ncross], *cy = &g_cross[idx / g_ncross];
    g_record = 0;
    char bx[160], by[160];
    if (vf_verbose) printf("   cross x[%s] y[%s]\n", cfg_str(cx, bx, sizeof bx), cfg_str(cy, by, sizeof by));
    vf_count_eval(1);
    int n, w, h;
    pixman_fixed_t *params = make_and_check(cx, cy, 2, &n, &w, &h, "cross", NULL);
    if (!params) return;
    vf_count_nontrivial(w >= 2 && h >= 2);
    /* independence: the x table must equal the one produced next to the identity y axis, and vice versa */
    int n1, w1, h1, n2, w2, h2;
    pixman_fixed_t *px = make_and_check(cx, &ID_AXIS, 0, &n1, &w1, &h1, "cross/x-alone", NULL);
    pixman_fixed_t *py = px ? make_and_check(&ID_AXIS, cy, 1, &n2, &w2, &h2, "cross/y-alone", NULL) : NULL;
    if (px && py) {
        size_t nx = (size_t)w << cx->bits, ny = (size_t)h << cy->bits;
        if (w1 != w || h2 != h || memcmp(px + 4, params + 4, nx * 4) || memcmp(py + 4 + 1, params + 4 + nx, ny * 4))
            vf_violation("c18-table-depends-on-other-axis", "x[%s] y[%s]: w=%d (alone %d) h=%d (alone %d); x table %s, y table %s the table built next to the identity axis",
                         cfg_str(cx, bx, sizeof bx), cfg_str(cy, by, sizeof by), w, w1, h, h2,
                         (w1 == w && !memcmp(px + 4, params + 4, nx * 4)) ? "equals" : "DIFFERS from",
                         (h2 == h && !memcmp(py + 5, params + 4 + nx, ny * 4)) ? "equals" : "DIFFERS from");
    }
    blk_free(px); blk_free(py);
    if (vf_failed()) { blk_free(params); return; }
    vf_outcome(vf_hash64(params, (size_t)n * sizeof params[0], 19));
    /* 2-D image check at every phase pair, when cheap enough and when the bound of the header comment applies */
    uint64_t work = ((uint64_t)w * h) << (cx->bits + cy->bits);
    if ((int64_t)w * h <= 1200 && work <= (1u << 22)) {
        image_check(params, n, cx, cy, w, h, 1, "cross");
        /* the same block stored over the block of the swapped configuration (same length, other layout) on an image that was used with it */
        if (!vf_failed() && cx != cy) {
            int ns; pixman_fixed_t *swapped = pixman_filter_create_separable_convolution(&ns, cy->scale, cx->scale, cy->rk, cx->rk, cy->sk, cx->sk, cy->bits, cx->bits);
            if (swapped && ns == n) { g_prev_block = swapped; g_prev_n = ns; image_check(params, n, cx, cy, w, h, 1, "cross, stored over the x/y-swapped block of the same length"); g_prev_block = NULL; }
            free(swapped);
        }
    }
    else {
        if (!vf_in_confirm) __atomic_add_fetch(&sh->skipped2d, 1, __ATOMIC_RELAXED);
        /* still require acceptance by set_filter */
        uint32_t one = CONST_PIXEL;
        pixman_image_t *src = pixman_image_create_bits(PIXMAN_a8r8g8b8, 1, 1, &one, 4);
        if (src) {
            if (!pixman_image_set_filter(src, PIXMAN_FILTER_SEPARABLE_CONVOLUTION, params, n))
                vf_violation("c18-set-filter-rejected", "cross: set_filter(n=%d) returned FALSE x[%s] y[%s]", n, cfg_str(cx, bx, sizeof bx), cfg_str(cy, by, sizeof by));
            pixman_image_unref(src);
        }
    }
    if (!vf_failed() && vf_want_sample() && idx % 7 == 3)
        vf_sample("cross x[%s] y[%s] -> n_values=%d = 4 + %d*%d + %d*%d; both tables equal the single-axis tables; all phases sum to 65536",
                  cfg_str(cx, bx, sizeof bx), cfg_str(cy, by, sizeof by), n, w, 1 << cx->bits, h, 1 << cy->bits);
    blk_free(params);
}

/* ---- report of failing inputs ---- */
static int cmp_fail(const void *a, const void *b)
{
    const failrec *x = a, *y = b;
    if (x->keyid != y->keyid) return x->keyid - y->keyid;
    if (x->rk != y->rk) return x->rk - y->rk;
    if (x->sk != y->sk) return x->sk - y->sk;
    if (x->axis != y->axis) return x->axis - y->axis;
    if (x->scale != y->scale) return x->scale < y->scale ? -1 : 1;
    return x->bits - y->bits;
}

static void report_failing_inputs(void)
{
    int64_t n = sh->n; if (n > FAILCAP) n = FAILCAP;
    if (n == 0) return;
    qsort((void *)sh->r, (size_t)n, sizeof(failrec), cmp_fail);
    int64_t nobs = 0; for (int64_t i = 0; i < n; i++) nobs += sh->r[i].keyid == K_AMPL;
    printf("INPUT-REPORT %s: %lld configurations recorded: %lld violating, %lld observations (by key / kernel pair / axis: scale[bits...])\n", vf_prop, (long long)sh->n,
           (long long)(n - nobs), (long long)nobs);
    size_t el = 0; char *ej = vf->extra_json; size_t ecap = sizeof vf->extra_json;
    el += snprintf(ej + el, ecap - el, "\"failing_inputs_total\": %lld, \"failing_inputs\": [", (long long)sh->n);
    int first_json = 1;
    for (int64_t i = 0; i < n;) {
        int64_t j = i;
        while (j < n && sh->r[j].keyid == sh->r[i].keyid && sh->r[j].rk == sh->r[i].rk && sh->r[j].sk == sh->r[i].sk && sh->r[j].axis == sh->r[i].axis) j++;
        /* group [i,j): list distinct scales with their bit sets */
        char line[1500]; size_t l = 0; int nsc = 0; int32_t smin = sh->r[i].scale, smax = sh->r[j - 1].scale;
        for (int64_t k = i; k < j;) {
            int64_t m = k; unsigned bitsmask = 0;
            while (m < j && sh->r[m].scale == sh->r[k].scale) { bitsmask |= 1u << sh->r[m].bits; m++; }
            if (l + 60 < sizeof line && nsc < 40) {
                l += snprintf(line + l, sizeof line - l, " %.6g[", sh->r[k].scale / 65536.0);
                for (int b = 0; b < 9; b++) if (bitsmask >> b & 1) l += snprintf(line + l, sizeof line - l, "%d", b);
                l += snprintf(line + l, sizeof line - l, "]");
            } else if (nsc == 40) l += snprintf(line + l, sizeof line - l, " ...");
            nsc++; k = m;
        }
        line[l] = 0;
        printf("  %-32s %s/%s axis %c: %lld configs, %d scales in [%.6g, %.6g]:%s\n", keyname[sh->r[i].keyid], kname[sh->r[i].rk], kname[sh->r[i].sk],
               "xy"[sh->r[i].axis], (long long)(j - i), nsc, smin / 65536.0, smax / 65536.0, line);
        if (el + 200 < ecap) {
            el += snprintf(ej + el, ecap - el, "%s{\"key\": \"%s\", \"pair\": \"%s/%s\", \"axis\": \"%c\", \"configs\": %lld, \"scales\": %d, \"scale_min\": %.6g, \"scale_max\": %.6g}",
                           first_json ? "" : ", ", keyname[sh->r[i].keyid], kname[sh->r[i].rk], kname[sh->r[i].sk], "xy"[sh->r[i].axis], (long long)(j - i), nsc,
                           smin / 65536.0, smax / 65536.0);
            first_json = 0;
        }
        i = j;
    }
    el += snprintf(ej + el, ecap - el, "]");
}

int main(int argc, char **argv)
{
#ifdef VF_ASAN
    /* ASan in recover mode reports each faulting PC only once per process; the engine's
     * replay-before-report needs the second execution to report again. */
    {
        const char *o = getenv("ASAN_OPTIONS");
        if (!o || !strstr(o, "suppress_equal_pcs=0")) {
            char buf[1024];
            snprintf(buf, sizeof buf, "%s%ssuppress_equal_pcs=0", o ? o : "", o && *o ? ":" : "");
            setenv("ASAN_OPTIONS", buf, 1);
            execv("/proc/self/exe", argv);
            perror("execv");
        }
    }
#endif
    vf_init(argc, argv, "C18", "exploration");
    sh = mmap(NULL, sizeof *sh, PROT_READ | PROT_WRITE, MAP_SHARED | MAP_ANONYMOUS, -1, 0);
    if (sh == MAP_FAILED) { perror("mmap"); return 2; }
    int th = vf_is_thorough();
    build_scales(th);
    build_cross(th);
    vf_rule = "one case = one pixman_filter_create_separable_convolution call; odometer over (scale, subsample bits, sampling kernel, reconstruction kernel) "
              "of the enumerated axis with the other axis fixed to the one-tap identity, for each axis, plus a cross grid of x-config x y-config; "
              "non-trivial = the enumerated table has >= 2 taps per phase (normalisation and error diffusion did work); outcome = hash of the whole block";
    vf_bounds = th ? "all 8x8 kernel pairs x subsample bits 0..8 x 2059 scales (k/256 for k=1..2048, eps, 2eps, 1/4-eps, 1-eps, 1+eps, 16.25, 64), each axis; 24x24 cross grid; dense sweeps: EVERY scale 1..0x80000 (up to 8.0) x bits {6,3,0} for the 15 kernel pairs with IMPULSE on one side, each axis, and every scale 1..0x10000 x 4 bits for the other 49 pairs"
                   : "all 8x8 kernel pairs x subsample bits 0..5 x 261 scales (eps, 2eps, 1/4-eps, 1-eps, 1+eps, k/32 for k=1..256, i.e. up to 8.0), each axis; 12x12 cross grid; dense sweeps: EVERY scale 1..0x20000 (x axis; 1..0x10000 y axis) at 6 subsample bits for the 15 kernel pairs with IMPULSE on one side";
    vf_assume("writes outside the block are observed by 4096-byte pattern guard zones around the library's allocation (--wrap=malloc) and, beyond those, by AddressSanitizer "
              "(library and harness built with clang -fsanitize=address, recover mode, suppress_equal_pcs=0); a stray write that stores the guard pattern 0xA5 itself would be missed");
    vf_assume("the kernel widths 0,1,2,4,5,4,6,8 used for the support check are the documented ones of pixman-filter.c filters[]");
    vf_assume("negative scales (the library takes fabs) and scale 0 are outside the quantifier 'all positive 16.16 scales' and not enumerated");
    uint64_t naxis = (uint64_t)g_nscales * g_nbits * NK * NK;
    static int ax0 = 0, ax1 = 1;
    vf_space_run("axis-x", naxis, axis_case, &ax0);
    vf_space_run("axis-y", naxis, axis_case, &ax1);
    vf_space_run("cross", (uint64_t)g_ncross * g_ncross, cross_case, NULL);
    {   /* dense sweeps.  Pairs with IMPULSE on either side are cheap (no numeric integration): every scale in (0, 2.0] quick / (0, 8.0] thorough;
         * thorough also sweeps all 64 pairs over (0, 1.0] at 4 subsample bits */
        static dense_ctx dx, dy, da;
        memset(&dx, 0, sizeof dx);
        dx.axis = 0; dx.lo = 1; dx.nsc = th ? 0x80000 : 0x20000; dx.nb = th ? 3 : 1; dx.bits[0] = 6; dx.bits[1] = 3; dx.bits[2] = 0;
        for (int k = 0; k < NK; k++) { dx.pair[dx.npairs][0] = 0; dx.pair[dx.npairs][1] = (uint8_t)k; dx.npairs++; if (k) { dx.pair[dx.npairs][0] = (uint8_t)k; dx.pair[dx.npairs][1] = 0; dx.npairs++; } }
        dy = dx; dy.axis = 1; if (!th) dy.nsc = 0x10000;
        vf_space_run("dense-x-impulse-pairs", (uint64_t)dx.nsc * dx.nb * dx.npairs, dense_case, &dx);
        vf_space_run("dense-y-impulse-pairs", (uint64_t)dy.nsc * dy.nb * dy.npairs, dense_case, &dy);
        if (th) {
            memset(&da, 0, sizeof da); da.axis = 0; da.lo = 1; da.nsc = 0x10000; da.nb = 1; da.bits[0] = 4;
            for (int r = 1; r < NK; r++) for (int k = 1; k < NK; k++) { da.pair[da.npairs][0] = (uint8_t)r; da.pair[da.npairs][1] = (uint8_t)k; da.npairs++; }
            vf_space_run("dense-x-all-pairs", (uint64_t)da.nsc * da.nb * da.npairs, dense_case, &da);
        }
    }
    if (!vf_replaying()) {
        report_failing_inputs();
        size_t el = strlen(vf->extra_json);
        snprintf(vf->extra_json + el, sizeof vf->extra_json - el, "%s\"phases_checked\": %llu, \"image_pixels_checked\": %llu, \"cross_2d_exact\": %llu, \"cross_2d_off_by_one\": %llu, \"cross_2d_not_judged\": %llu",
                 el ? ", " : "", (unsigned long long)sh->phases, (unsigned long long)sh->image_pixels, (unsigned long long)sh->exact2d,
                 (unsigned long long)sh->offby1_2d, (unsigned long long)sh->skipped2d);
    }
    return vf_finish();
}
