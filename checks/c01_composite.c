/* C01 — compositing leaves in every pixel the value the operator's equations define.
 * Engine E1: bounded-exhaustive enumeration of pixel value tuples; each case is one
 * pixman_image_composite32 call on a Wx1 strip whose pixels ARE the enumerated tuples.
 */
#include "vf.h"
#include "pixhelp.h"
#include "ref_combine.h"

#define CHUNK 4096

/* boundary bytes */
static const uint8_t B8[12] = { 0x00, 0x01, 0x02, 0x3f, 0x40, 0x7f, 0x80, 0x81, 0xbf, 0xc0, 0xfe, 0xff };
static const uint8_t B6[6] = { 0x00, 0x01, 0x7f, 0x80, 0xfe, 0xff };

/* bijective scramblings so that G and B positions also see every value while differing from R */
static inline unsigned scrG(unsigned v) { return (v * 167 + 13) & 0xff; }
static inline unsigned scrB(unsigned v) { return (255 - v) ^ 0x55; }

/* a variable of the tuple: either the full byte range or an alphabet */
typedef struct { int n; const uint8_t *alpha; } var_t;
static inline unsigned var_val(const var_t *v, uint64_t k) { return v->alpha ? v->alpha[k] : (unsigned)k; }

enum { V_SC, V_SA, V_DC, V_DA, V_MC, V_MA, NV };

typedef struct {
    int op, mode, cfg;
    var_t v[NV];
    uint64_t npix;
    int tolerance;      /* 0 exact; else judged by the real-valued model with this many steps */
    int mask_a8;        /* unified mask presented as an a8 image instead of a8r8g8b8 */
    int premul;         /* colour variables are non-premultiplied and multiplied by alpha: every pixel is a valid premultiplied colour */
} ex_ctx;

static void decode_pixel(const ex_ctx *c, uint64_t p, uint32_t *s, uint32_t *m, uint32_t *d)
{
    unsigned val[NV];
    for (int k = 0; k < NV; k++) { val[k] = var_val(&c->v[k], p % c->v[k].n); p /= c->v[k].n; }
    if (c->premul) {
        /* the PDF blend functions are defined for colours in [0,1], i.e. premultiplied channel <= alpha */
        *s = val[V_SA] << 24 | rc_mul(val[V_SC], val[V_SA]) << 16 | rc_mul(scrG(val[V_SC]), val[V_SA]) << 8 | rc_mul(scrB(val[V_SC]), val[V_SA]);
        *d = val[V_DA] << 24 | rc_mul(val[V_DC], val[V_DA]) << 16 | rc_mul(scrG(val[V_DC]), val[V_DA]) << 8 | rc_mul(scrB(val[V_DC]), val[V_DA]);
        *m = val[V_MA] << 24 | val[V_MC] << 16 | scrG(val[V_MC]) << 8 | scrB(val[V_MC]);
        return;
    }
    *s = val[V_SA] << 24 | val[V_SC] << 16 | scrG(val[V_SC]) << 8 | scrB(val[V_SC]);
    *d = val[V_DA] << 24 | val[V_DC] << 16 | scrG(val[V_DC]) << 8 | scrB(val[V_DC]);
    *m = val[V_MA] << 24 | val[V_MC] << 16 | scrG(val[V_MC]) << 8 | scrB(val[V_MC]);
}

static const char *mode_name(int m) { return m == RC_MASK_NONE ? "no-mask" : m == RC_MASK_UNIFIED ? "unified-mask" : "component-alpha"; }

/* accept u (8-bit) against real r with `steps` quantisation steps */
static inline int within(unsigned u, rc_real r, rc_real steps, int nbits)
{
    rc_real mx = (rc_real)((1u << nbits) - 1);
    rc_real t = rc_clamp01(r) * mx;
    rc_real diff = (rc_real)u - t; if (diff < 0) diff = -diff;
    return diff <= steps + 1e-3L;
}

static void ex_case(uint64_t idx, void *vctx)
{
    ex_ctx *c = vctx;
    uint64_t p0 = idx * CHUNK, n = c->npix - p0; if (n > CHUNK) n = CHUNK;
    static uint32_t sb[CHUNK], mb[CHUNK], db[CHUNK], d0[CHUNK];
    static uint8_t m8[CHUNK];
    for (uint64_t i = 0; i < n; i++) { decode_pixel(c, p0 + i, &sb[i], &mb[i], &db[i]); d0[i] = db[i]; m8[i] = mb[i] >> 24; }
    ph_set_cfg(c->cfg);
    pixman_image_t *src = pixman_image_create_bits(PIXMAN_a8r8g8b8, (int)n, 1, sb, CHUNK * 4);
    pixman_image_t *dst = pixman_image_create_bits(PIXMAN_a8r8g8b8, (int)n, 1, db, CHUNK * 4);
    pixman_image_t *msk = NULL;
    if (c->mode != RC_MASK_NONE) {
        if (c->mask_a8) msk = pixman_image_create_bits(PIXMAN_a8, (int)n, 1, (uint32_t *)m8, CHUNK);
        else msk = pixman_image_create_bits(PIXMAN_a8r8g8b8, (int)n, 1, mb, CHUNK * 4);
        if (c->mode == RC_MASK_CA) pixman_image_set_component_alpha(msk, ph_truthy(idx));
    }
    pixman_image_composite32(c->op, src, msk, dst, 0, 0, 0, 0, 0, 0, (int)n, 1);
    vf_count_libcalls(1);
    pixman_image_unref(src); pixman_image_unref(dst); if (msk) pixman_image_unref(msk);

    uint64_t h = 0, nontriv = 0;
    char cfgn[64];
    for (uint64_t i = 0; i < n; i++) {
        uint32_t got = db[i];
        if (!c->tolerance) {
            uint32_t exp = rc_exact_pixel(c->op, c->mode, sb[i], mb[i], d0[i]);
            if (got != exp) {
                vf_violation("c01-exact-mismatch", "op=%s %s cfg=[%s] src=%08x mask=%08x dest=%08x: got %08x, equations give %08x (pixel %llu of space)",
                             rc_op_name(c->op), mode_name(c->mode), ph_cfg_name(c->cfg, cfgn, sizeof cfgn), sb[i], c->mode ? mb[i] : 0, d0[i], got, exp,
                             (unsigned long long)(p0 + i));
                return;
            }
            if (exp != d0[i] && exp != sb[i] && exp != 0) nontriv++;
        } else {
            rc_real s[4], m[4], d[4], r[4];
            for (int k = 0; k < 4; k++) { int sh = 24 - 8 * k; s[k] = ((sb[i] >> sh) & 0xff) / 255.0L; m[k] = ((mb[i] >> sh) & 0xff) / 255.0L; d[k] = ((d0[i] >> sh) & 0xff) / 255.0L; }
            if (c->mask_a8) { m[1] = m[2] = m[3] = m[0]; }
            if (!rc_real_pixel(c->op, c->mode, s, m, d, r)) continue;   /* undefined combination: executed, not judged */
            for (int k = 0; k < 4; k++) {
                unsigned u = (got >> (24 - 8 * k)) & 0xff;
                if (!within(u, r[k], c->tolerance, 8)) {
                    const char *key = "c01-tolerance-mismatch";
                    if (rc_is_hsl(c->op) && c->mode == RC_MASK_UNIFIED) key = "c01-hsl-masked";
                    vf_violation(key, "op=%s %s cfg=[%s] src=%08x mask=%08x dest=%08x: got %08x, channel %c=%u but the equations give %.4Lf (x255 = %.3Lf), tolerance %d step(s)",
                                 rc_op_name(c->op), mode_name(c->mode), ph_cfg_name(c->cfg, cfgn, sizeof cfgn), sb[i], c->mode ? mb[i] : 0, d0[i], got,
                                 "argb"[k], u, r[k], rc_clamp01(r[k]) * 255, c->tolerance);
                    return;
                }
            }
            if (got != d0[i] && got != sb[i] && got != 0) nontriv++;
        }
        h = vf_mix(h, got);
    }
    vf_count_eval(n); vf_count_nontrivial(nontriv);
    if (!vf_in_confirm) vf_outcome(vf_mix(h, (uint64_t)c->op << 8 | c->mode));
    if (vf_want_sample() && idx == 3 && !vf_in_confirm)
        vf_sample("op=%s %s cfg=[%s] %s: pixel#%llu src=%08x mask=%08x dest=%08x -> %08x", rc_op_name(c->op), mode_name(c->mode), ph_cfg_name(c->cfg, cfgn, sizeof cfgn),
                  c->tolerance ? "tolerance" : "exact", (unsigned long long)(p0 + 7), sb[7], mb[7], d0[7], db[7]);
}

static void set_vars(ex_ctx *c, const char *spec)
{
    /* spec: 6 chars for SC SA DC DA MC MA: 'F' full byte, 'B' B8 alphabet, 'S' B6 alphabet, 'T' {0x80,0xff}, '1' fixed (single value 0xff) */
    static const uint8_t one[1] = { 0xff };
    static const uint8_t two[2] = { 0x80, 0xff };
    c->npix = 1;
    for (int k = 0; k < NV; k++) {
        switch (spec[k]) {
        case 'F': c->v[k].n = 256; c->v[k].alpha = NULL; break;
        case 'B': c->v[k].n = 12; c->v[k].alpha = B8; break;
        case 'S': c->v[k].n = 6; c->v[k].alpha = B6; break;
        case 'T': c->v[k].n = 2; c->v[k].alpha = two; break;
        default:  c->v[k].n = 1; c->v[k].alpha = one; break;
        }
        c->npix *= (uint64_t)c->v[k].n;
    }
}

/* jobs: many (op, mode, cfg, alphabet) combinations share one space; the case index is mapped to (job, chunk) */
typedef struct { ex_ctx c; uint64_t first, count; } ex_job;
static ex_job *ex_jobs; static int ex_njobs, ex_cap; static uint64_t ex_total;
static void run_ex(ex_ctx *c, const char *tag)
{
    (void)tag;
    if (ex_njobs == ex_cap) { ex_cap = ex_cap ? ex_cap * 2 : 256; ex_jobs = realloc(ex_jobs, sizeof(ex_job) * ex_cap); }
    ex_jobs[ex_njobs].c = *c; ex_jobs[ex_njobs].first = ex_total; ex_jobs[ex_njobs].count = (c->npix + CHUNK - 1) / CHUNK;
    ex_total += ex_jobs[ex_njobs].count; ex_njobs++;
}
static void ex_case_all(uint64_t idx, void *ctx)
{
    int lo = 0, hi = ex_njobs - 1;
    while (lo < hi) { int mid = (lo + hi + 1) / 2; if (ex_jobs[mid].first <= idx) lo = mid; else hi = mid - 1; }
    ex_case(idx - ex_jobs[lo].first, &ex_jobs[lo].c);
}
static void ex_flush(const char *name)
{
    vf_space_run(name, ex_total, ex_case_all, NULL);
    ex_njobs = 0; ex_total = 0;
}

/* ---------------- format triples ---------------- */
typedef struct {
    int op, mode, cfg;
    ph_fmt_t sf, mf, df;
    int pres;        /* 0: plain strips; 1: the source strip is stored mirrored and read through a flipping transform (nearest): the transformed-image
                      * fetchers deliver it; 2: the same for the mask.  In 1/2 the mask value is the fastest-running index of the enumeration. */
} fmt_ctx;

static const int CH5_N = 5;
static unsigned ch_alpha(int width, int k)   /* {0, 1, mid, max-1, max} for a channel of `width` bits */
{
    unsigned mx = (1u << width) - 1;
    if (width == 1) return k & 1;
    if (width == 2) { static const unsigned v[5] = { 0, 1, 2, 3, 3 }; return v[k]; }
    switch (k) { case 0: return 0; case 1: return 1; case 2: return mx / 2 + 1; case 3: return mx - 1; default: return mx; }
}

static int fmt_nchan(const ph_fmt_t *f) { return (f->aw != 0) + (f->rw != 0) + (f->gw != 0) + (f->bw != 0) + (f->is_float ? (PIXMAN_FORMAT_A(f->code) ? 4 : 3) : 0); }

/* pixel k of an image of format f: per-channel digits of k in base 5 */
static void fmt_make_pixel(const ph_fmt_t *f, uint64_t k, uint32_t *raw, float fl[4], rc_real real[4], unsigned w8[4])
{
    /* real[]: a,r,g,b in [0,1]; w8: 8-bit widened; */
    int widths[4] = { f->aw, f->rw, f->gw, f->bw }, shifts[4] = { f->as, f->rs, f->gs, f->bs };
    *raw = 0;
    if (f->is_float) {
        static const float fv[5] = { 0.0f, 1.0f / 255, 0.5f, 0.75f, 1.0f };
        int has_a = f->bpp == 128;
        for (int c = 0; c < 4; c++) {
            if (c == 0 && !has_a) { real[0] = 1; continue; }
            float v = fv[k % 5]; k /= 5;
            real[c] = v;
            fl[c] = v;
        }
        if (!has_a) fl[0] = 1.0f;
        return;
    }
    for (int c = 0; c < 4; c++) {
        if (!widths[c]) { real[c] = (c == 0) ? 1 : 0; w8[c] = (c == 0) ? 255 : 0; continue; }
        unsigned v = ch_alpha(widths[c], (int)(k % 5)); k /= 5;
        *raw |= v << shifts[c];
        real[c] = (rc_real)v / ((1u << widths[c]) - 1);
        w8[c] = ph_widen8(v, widths[c]);
    }
    /* undefined bits: set them, they must be ignored */
    *raw |= ~ph_defined_mask(f) & (f->bpp == 32 ? 0xffffffffu : ((1u << f->bpp) - 1));
}

static uint64_t fmt_npix(const ph_fmt_t *f) { uint64_t n = 1; for (int c = fmt_nchan(f); c > 0; c--) n *= 5; return n; }

static int fmt_is_wide(const ph_fmt_t *f) { return f->is_float || f->rw > 8 || f->gw > 8 || f->bw > 8 || f->aw > 8 || f->is_srgb; }

static void fmt_store(const ph_fmt_t *f, void *row, int x, uint32_t raw, const float fl[4])
{
    if (f->is_float) {
        float *p = (float *)row;
        if (f->bpp == 128) { p[4 * x] = fl[1]; p[4 * x + 1] = fl[2]; p[4 * x + 2] = fl[3]; p[4 * x + 3] = fl[0]; }
        else { p[3 * x] = fl[1]; p[3 * x + 1] = fl[2]; p[3 * x + 2] = fl[3]; }
    } else ph_put_pixel(row, f->bpp, x, raw);
}

#define FW 128   /* strip width for the format spaces */
static const char *PRESN[5] = { "", " [source strip read through a flipping transform]", " [mask strip read through a flipping transform]",
                                " [destination image has REPEAT_NORMAL set: an alpha-less destination is then flagged opaque and the operator is rewritten]",
                                " [source image has REPEAT_NORMAL set: an alpha-less source is then flagged opaque and the operator is rewritten]" };

static int valid_premul(const rc_real s[4], const rc_real d[4])
{
    for (int k = 1; k < 4; k++) if (s[k] > s[0] || d[k] > d[0]) return 0;
    return 1;
}

/* SATURATE's source factor is min(1, (1-da)/sa): for da = 1 and sa = 0 it is 0/0.  The statement's equations give no value there (it
 * only matters for a source colour that exceeds its alpha of 0, i.e. not a premultiplied colour); the library's combiner takes 1 and
 * its operator reduction for an opaque destination (SATURATE -> DST) takes 0.  Such pixels are executed, not judged. */
static int saturate_undefined(int op, int mode, const rc_real s[4], const rc_real m[4], const rc_real d[4])
{
    if (op != PIXMAN_OP_SATURATE || d[0] != 1) return 0;
    for (int c = 0; c < 4; c++) {
        rc_real se = mode == RC_MASK_NONE ? s[c] : mode == RC_MASK_UNIFIED ? s[c] * m[0] : s[c] * m[c];
        rc_real sae = mode == RC_MASK_NONE ? s[0] : mode == RC_MASK_UNIFIED ? s[0] * m[0] : s[0] * m[c];
        if (sae == 0 && se != 0) return 1;
    }
    return 0;
}

static void fmt_case(uint64_t idx, void *vctx)
{
    fmt_ctx *c = vctx;
    uint64_t ns = fmt_npix(&c->sf), nm = c->mode ? fmt_npix(&c->mf) : 1, nd = fmt_npix(&c->df);
    uint64_t total = ns * nm * nd, p0 = idx * FW, n = total - p0; if (n > FW) n = FW;
    static uint32_t sbuf[FW * 4 + 8], mbuf[FW * 4 + 8], dbuf[FW * 4 + 8];
    memset(sbuf, 0, sizeof sbuf); memset(mbuf, 0, sizeof mbuf); memset(dbuf, 0, sizeof dbuf);
    static rc_real S[FW][4], M[FW][4], D[FW][4];
    static unsigned S8[FW][4], M8[FW][4], D8[FW][4];
    static uint32_t Draw[FW];
    for (uint64_t i = 0; i < n; i++) {
        uint64_t p = p0 + i; uint32_t raw; float fl[4];
        int swapped = c->pres == 1 || c->pres == 2;
        uint64_t ks = swapped ? (p / nm) % ns : p % ns, km = swapped ? p % nm : (p / ns) % nm;
        fmt_make_pixel(&c->sf, ks, &raw, fl, S[i], S8[i]); fmt_store(&c->sf, sbuf, c->pres == 1 ? (int)(n - 1 - i) : (int)i, raw, fl);
        if (c->mode) { fmt_make_pixel(&c->mf, km, &raw, fl, M[i], M8[i]); fmt_store(&c->mf, mbuf, c->pres == 2 ? (int)(n - 1 - i) : (int)i, raw, fl); }
        fmt_make_pixel(&c->df, p / ns / nm, &raw, fl, D[i], D8[i]); fmt_store(&c->df, dbuf, (int)i, raw, fl); Draw[i] = raw;
    }
    ph_set_cfg(c->cfg);
    pixman_image_t *src = pixman_image_create_bits(c->sf.code, (int)n, 1, sbuf, sizeof sbuf - 32);
    pixman_image_t *dst = pixman_image_create_bits(c->df.code, (int)n, 1, dbuf, sizeof dbuf - 32);
    pixman_image_t *msk = c->mode ? pixman_image_create_bits(c->mf.code, (int)n, 1, mbuf, sizeof mbuf - 32) : NULL;
    if (!src || !dst || (c->mode && !msk)) { vf_violation("c01-create-failed", "image creation failed for %s/%s/%s", c->sf.name, c->mf.name, c->df.name); return; }
    if (c->mode == RC_MASK_CA) pixman_image_set_component_alpha(msk, ph_truthy(idx));
    if (c->pres == 3) pixman_image_set_repeat(dst, PIXMAN_REPEAT_NORMAL);
    if (c->pres == 4) pixman_image_set_repeat(src, PIXMAN_REPEAT_NORMAL);
    if (c->pres == 1 || c->pres == 2) {
        pixman_transform_t flip = { { { -pixman_fixed_1, 0, pixman_int_to_fixed((int)n) }, { 0, pixman_fixed_1, 0 }, { 0, 0, pixman_fixed_1 } } };
        pixman_image_t *t = c->pres == 1 ? src : msk;
        pixman_image_set_transform(t, &flip); pixman_image_set_filter(t, PIXMAN_FILTER_NEAREST, NULL, 0);
    }
    pixman_image_composite32(c->op, src, msk, dst, 0, 0, 0, 0, 0, 0, (int)n, 1);
    vf_count_libcalls(1);
    pixman_image_unref(src); pixman_image_unref(dst); if (msk) pixman_image_unref(msk);

    int wide = fmt_is_wide(&c->sf) || (c->mode && fmt_is_wide(&c->mf)) || fmt_is_wide(&c->df);
    int exact = rc_is_exact_op(c->op) && !wide;
    int integer_blend = rc_is_sep_blend(c->op) && !(c->op == PIXMAN_OP_COLOR_DODGE || c->op == PIXMAN_OP_COLOR_BURN || c->op == PIXMAN_OP_SOFT_LIGHT) && !wide;
    int steps = integer_blend ? (c->mode == RC_MASK_NONE ? 2 : 3) : 1;
    int blend = rc_is_sep_blend(c->op) || rc_is_hsl(c->op);
    char cfgn[64];
    uint64_t h = 0, nontriv = 0;
    int dw[4] = { c->df.aw, c->df.rw, c->df.gw, c->df.bw }, dsft[4] = { c->df.as, c->df.rs, c->df.gs, c->df.bs };
    for (uint64_t i = 0; i < n; i++) {
        if (c->df.is_float) {
            float *p = (float *)dbuf; float g[4];
            if (c->df.bpp == 128) { g[1] = p[4 * i]; g[2] = p[4 * i + 1]; g[3] = p[4 * i + 2]; g[0] = p[4 * i + 3]; }
            else { g[1] = p[3 * i]; g[2] = p[3 * i + 1]; g[3] = p[3 * i + 2]; g[0] = 1; }
            rc_real r[4];
            if (!rc_real_pixel(c->op, c->mode, S[i], M[i], D[i], r)) continue;
            if (blend && !valid_premul(S[i], D[i])) continue;
            if (saturate_undefined(c->op, c->mode, S[i], M[i], D[i])) continue;
            for (int k = (c->df.bpp == 128 ? 0 : 1); k < 4; k++) {
                rc_real diff = (rc_real)g[k] - r[k]; if (diff < 0) diff = -diff;
                if (!(diff <= 1e-4L)) {   /* also catches NaN */
                    vf_violation("c01-float-dest-mismatch", "op=%s %s cfg=[%s] %s<-%s mask %s%s, strip pixel %llu: channel %c got %.7f, equations give %.7Lf",
                                 rc_op_name(c->op), mode_name(c->mode), ph_cfg_name(c->cfg, cfgn, sizeof cfgn), c->df.name, c->sf.name, c->mode ? c->mf.name : "-", PRESN[c->pres],
                                 (unsigned long long)(p0 + i), "argb"[k], g[k], r[k]);
                    return;
                }
            }
            uint32_t bits; memcpy(&bits, &g[1], 4); h = vf_mix(h, bits);
            if (g[1] != 0 && g[1] != 1) nontriv++;
            continue;
        }
        uint32_t got = ph_get_pixel(dbuf, c->df.bpp, (int)i);
        if (exact) {
            uint32_t s8 = S8[i][0] << 24 | S8[i][1] << 16 | S8[i][2] << 8 | S8[i][3];
            uint32_t m8 = c->mode ? (M8[i][0] << 24 | M8[i][1] << 16 | M8[i][2] << 8 | M8[i][3]) : 0;
            uint32_t d8 = D8[i][0] << 24 | D8[i][1] << 16 | D8[i][2] << 8 | D8[i][3];
            uint32_t e8 = rc_exact_pixel(c->op, c->mode, s8, m8, d8);
            uint32_t exp = ph_from_8888(&c->df, e8), dm = ph_defined_mask(&c->df);
            if ((got & dm) != (exp & dm)) {
                vf_violation("c01-format-exact-mismatch", "op=%s %s cfg=[%s] dest %s (raw %x) <- src %s (as 8888 %08x) mask %s (%08x)%s: got raw %x, equations give %x (defined bits %x), strip pixel %llu",
                             rc_op_name(c->op), mode_name(c->mode), ph_cfg_name(c->cfg, cfgn, sizeof cfgn), c->df.name, Draw[i], c->sf.name, s8, c->mode ? c->mf.name : "-", m8, PRESN[c->pres],
                             got, exp, dm, (unsigned long long)(p0 + i));
                return;
            }
            if ((got & dm) != (Draw[i] & dm)) nontriv++;
        } else {
            rc_real r[4];
            if (!rc_real_pixel(c->op, c->mode, S[i], M[i], D[i], r)) continue;
            if (blend && !valid_premul(S[i], D[i])) continue;   /* outside the domain of the PDF blend functions: executed, not judged */
            if (saturate_undefined(c->op, c->mode, S[i], M[i], D[i])) continue;
            for (int k = 0; k < 4; k++) {
                if (!dw[k]) continue;
                unsigned u = (got >> dsft[k]) & ((1u << dw[k]) - 1);
                if (!within(u, r[k], steps, dw[k])) {
                    vf_violation((rc_is_hsl(c->op) && c->mode == RC_MASK_UNIFIED) ? "c01-hsl-masked" : "c01-format-tolerance-mismatch", "op=%s %s cfg=[%s] dest %s (raw %x) <- src %s mask %s%s, strip pixel %llu: channel %c got %u of %u, equations give %.5Lf (= %.3Lf), tolerance %d",
                                 rc_op_name(c->op), mode_name(c->mode), ph_cfg_name(c->cfg, cfgn, sizeof cfgn), c->df.name, Draw[i], c->sf.name, c->mode ? c->mf.name : "-", PRESN[c->pres],
                                 (unsigned long long)(p0 + i), "argb"[k], u, (1u << dw[k]) - 1, r[k], rc_clamp01(r[k]) * ((1u << dw[k]) - 1), steps);
                    return;
                }
            }
            if (got != Draw[i]) nontriv++;
        }
        h = vf_mix(h, got);
    }
    vf_count_eval(n); vf_count_nontrivial(nontriv);
    if (!vf_in_confirm) vf_outcome(vf_mix(h, c->op));
    if (vf_want_sample() && idx == 1 && !vf_in_confirm && (c->op == PIXMAN_OP_OVER || c->op == PIXMAN_OP_ATOP))
        vf_sample("format strip: op=%s %s dest=%s src=%s mask=%s (%s), 128 pixels from per-channel {0,1,mid,max-1,max}", rc_op_name(c->op), mode_name(c->mode),
                  c->df.name, c->sf.name, c->mode ? c->mf.name : "-", exact ? "exact" : "tolerance");
}


/* ---------------- source and mask sharing pixel storage ----------------
 * An x8b8g8r8 (x8r8g8b8) source and an a8b8g8r8 (a8r8g8b8) mask over the same memory select the library's "pixbuf"
 * fast paths when their offsets agree; with any offsets the result must be what the equations give for
 * source = colour with alpha 1, mask alpha = the stored alpha at the MASK's position. */
static void alias_case(uint64_t idx, void *vctx)
{
    static const pixman_format_code_t sfm[2] = { PIXMAN_x8b8g8r8, PIXMAN_x8r8g8b8 }, mfm[2] = { PIXMAN_a8b8g8r8, PIXMAN_a8r8g8b8 };
    static const pixman_format_code_t dfm[5] = { PIXMAN_a8r8g8b8, PIXMAN_x8r8g8b8, PIXMAN_r5g6b5, PIXMAN_a8b8g8r8, PIXMAN_x8b8g8r8 };
    static const char *dfn[5] = { "a8r8g8b8", "x8r8g8b8", "r5g6b5", "a8b8g8r8", "x8b8g8r8" };
    static const int ops[4] = { PIXMAN_OP_OVER, PIXMAN_OP_SRC, PIXMAN_OP_ADD, PIXMAN_OP_IN_REVERSE };
    static const int offs[3] = { 0, 1, 3 };
    int fam = (int)(idx % 2); idx /= 2; int di = (int)(idx % 5); idx /= 5; int oi = (int)(idx % 4); idx /= 4; int sx = offs[idx % 3]; idx /= 3; int mx = offs[idx % 3]; idx /= 3;
    int cfg = (idx % 2) ? PH_CFG_GENERAL : PH_CFG_DEFAULT; idx /= 2; int w = (idx % 2) ? 19 : 4; idx /= 2;
    int sy = (int)(idx % 2); idx /= 2; int my = (int)(idx % 2);          /* the shared storage has two rows: the origins may differ in y as well */
    enum { W = 32 };
    uint32_t buf2[2 * W]; for (int i = 0; i < 2 * W; i++) buf2[i] = B8[(i * 5) % 12] << 24 | B8[(i * 7 + 1) % 12] << 16 | B8[(i * 11 + 2) % 12] << 8 | B8[(i * 3 + 5) % 12];
    const uint32_t *bufs = buf2 + sy * W, *bufm = buf2 + my * W;
    ph_fmt_t sf, mf, df; ph_fmt_describe(sfm[fam], "", &sf); ph_fmt_describe(mfm[fam], "", &mf); ph_fmt_describe(dfm[di], dfn[di], &df);
    uint32_t dbuf[W], d0[W]; memset(dbuf, 0, sizeof dbuf);
    for (int i = 0; i < W; i++) { uint32_t v = B8[(i * 7 + 3) % 12] << 24 | B8[(i + 4) % 12] << 16 | B8[(i * 5 + 6) % 12] << 8 | B8[(i * 9) % 12]; ph_put_pixel(dbuf, df.bpp, i, ph_from_8888(&df, v)); }
    memcpy(d0, dbuf, sizeof d0);
    ph_set_cfg(cfg);
    pixman_image_t *src = pixman_image_create_bits(sfm[fam], W, 2, buf2, W * 4), *msk = pixman_image_create_bits(mfm[fam], W, 2, buf2, W * 4);
    pixman_image_t *dst = pixman_image_create_bits(dfm[di], W, 1, dbuf, W * 4);
    pixman_image_composite32(ops[oi], src, msk, dst, sx, sy, mx, my, 2, 0, w, 1);
    vf_count_libcalls(1);
    pixman_image_unref(src); pixman_image_unref(msk); pixman_image_unref(dst);
    char cfgn[64]; uint32_t dm = ph_defined_mask(&df); uint64_t nt = 0;
    for (int i = 0; i < W; i++) {
        uint32_t got = ph_get_pixel(dbuf, df.bpp, i), before = ph_get_pixel(d0, df.bpp, i), exp = before;
        if (i >= 2 && i < 2 + w) {
            uint32_t s8 = ph_to_8888(&sf, bufs[i - 2 + sx]), m8 = ph_to_8888(&mf, bufm[i - 2 + mx]), d8 = ph_to_8888(&df, before);
            exp = ph_from_8888(&df, rc_exact_pixel(ops[oi], RC_MASK_UNIFIED, s8, m8, d8));
            if ((got & dm) != (before & dm)) nt++;
        } else dm = (df.bpp == 32) ? 0xffffffffu : ((1u << df.bpp) - 1), dm = dm;
        uint32_t cmpmask = (i >= 2 && i < 2 + w) ? ph_defined_mask(&df) : (df.bpp == 32 ? 0xffffffffu : ((1u << df.bpp) - 1));
        if ((got & cmpmask) != (exp & cmpmask)) {
            vf_violation("c01-shared-storage-source-mask", "op=%s dest %s, source %s and mask %s over the SAME storage, source origin (%d,%d) mask origin (%d,%d) width=%d cfg=[%s]: destination pixel %d = %x, equations give %x",
                         rc_op_name(ops[oi]), dfn[di], fam ? "x8r8g8b8" : "x8b8g8r8", fam ? "a8r8g8b8" : "a8b8g8r8", sx, sy, mx, my, w, ph_cfg_name(cfg, cfgn, sizeof cfgn), i, got, exp);
            return;
        }
    }
    vf_count_eval((uint64_t)w); vf_count_nontrivial(nt);
    if (!vf_in_confirm) vf_outcome(vf_hash64(dbuf, sizeof dbuf, 5));
}


/* ---------------- solid-fill sources (16-bit colours) ----------------
 * A solid fill keeps its 16-bit colour: the float pipeline sees c/65535, the 8-bit pipeline c >> 8.  Alpha values just below
 * 0xffff are opaque at 8 bits but not at 16: every operator must still follow its equations for the precision it runs at. */
static const uint16_t A16[11] = { 0x0000, 0x0001, 0x00ff, 0x0100, 0x7fff, 0x8000, 0xfeff, 0xff00, 0xff80, 0xfffe, 0xffff };
static void solid_case(uint64_t idx, void *vctx)
{
    static const pixman_format_code_t dfm[4] = { PIXMAN_a8r8g8b8, PIXMAN_a2r10g10b10, PIXMAN_rgba_float, PIXMAN_r5g6b5 };
    static const char *dfn[4] = { "a8r8g8b8", "a2r10g10b10", "rgba_float", "r5g6b5" };
    int oi = (int)(idx % RC_NOPS); idx /= RC_NOPS; int ai = (int)(idx % 11); idx /= 11; int ci = (int)(idx % 3); idx /= 3; int di = (int)(idx % 4); idx /= 4; int mi = (int)(idx % 3); idx /= 3;
    int cfg = (idx % 2) ? PH_CFG_GENERAL : PH_CFG_DEFAULT;
    int op = rc_all_ops[oi];
    uint16_t a16 = A16[ai];
    static const uint16_t cv[3] = { 0x0000, 0x8080, 0xffff };
    uint16_t r16 = cv[ci] < a16 ? cv[ci] : a16, g16 = (uint16_t)(a16 / 3), b16 = a16;      /* valid premultiplied colour */
    pixman_color_t col = { r16, g16, b16, a16 };
    ph_fmt_t df; ph_fmt_describe(dfm[di], dfn[di], &df);
    enum { N = 125 };
    static uint32_t dbuf[N * 4 + 8]; memset(dbuf, 0, sizeof dbuf);
    static rc_real D[N][4]; static unsigned D8[N][4]; static uint32_t Draw[N];
    uint64_t nd = fmt_npix(&df); int n = nd < N ? (int)nd : N;
    for (int i = 0; i < n; i++) { uint32_t raw; float fl[4]; fmt_make_pixel(&df, (uint64_t)i * (nd / n ? nd / n : 1), &raw, fl, D[i], D8[i]); fmt_store(&df, dbuf, i, raw, fl); Draw[i] = raw; }
    static const uint8_t mv[3] = { 0xff, 0x80, 0x00 };
    uint8_t mbuf[N + 8]; memset(mbuf, mv[mi], sizeof mbuf);
    ph_set_cfg(cfg);
    pixman_image_t *src = pixman_image_create_solid_fill(&col), *dst = pixman_image_create_bits(dfm[di], n, 1, dbuf, sizeof dbuf - 32);
    pixman_image_t *msk = mi ? pixman_image_create_bits(PIXMAN_a8, n, 1, (uint32_t *)mbuf, N + 3 & ~3) : NULL;
    pixman_image_composite32(op, src, msk, dst, 0, 0, 0, 0, 0, 0, n, 1);
    vf_count_libcalls(1);
    pixman_image_unref(src); pixman_image_unref(dst); if (msk) pixman_image_unref(msk);
    int wide = fmt_is_wide(&df) || !(rc_is_exact_op(op) || (rc_is_sep_blend(op) && !(op == PIXMAN_OP_COLOR_DODGE || op == PIXMAN_OP_COLOR_BURN || op == PIXMAN_OP_SOFT_LIGHT)));
    /* source as the pipeline sees it */
    rc_real S[4]; unsigned s8[4] = { a16 >> 8, r16 >> 8, g16 >> 8, b16 >> 8 };
    if (wide) { S[0] = a16 / 65535.0L; S[1] = r16 / 65535.0L; S[2] = g16 / 65535.0L; S[3] = b16 / 65535.0L; }
    else for (int k = 0; k < 4; k++) S[k] = s8[k] / 255.0L;
    rc_real M[4]; for (int k = 0; k < 4; k++) M[k] = mi ? mv[mi] / 255.0L : 1;
    int mode = mi ? RC_MASK_UNIFIED : RC_MASK_NONE;
    int exact = rc_is_exact_op(op) && !wide;
    int integer_blend = rc_is_sep_blend(op) && !wide;
    int steps = integer_blend ? (mode == RC_MASK_NONE ? 2 : 3) : 1;
    int blend = rc_is_sep_blend(op) || rc_is_hsl(op);
    char cfgn[64]; uint64_t nt = 0, h = 0;
    int dw[4] = { df.aw, df.rw, df.gw, df.bw }, dsft[4] = { df.as, df.rs, df.gs, df.bs };
    for (int i = 0; i < n; i++) {
        rc_real r[4];
        if (blend && !valid_premul(S, D[i])) continue;
        if (df.is_float) {
            float *p = (float *)dbuf; float g[4] = { p[4 * i + 3], p[4 * i], p[4 * i + 1], p[4 * i + 2] };
            if (!rc_real_pixel(op, mode, S, M, D[i], r)) continue;
            for (int k = 0; k < 4; k++) { rc_real diff = (rc_real)g[k] - r[k]; if (diff < 0) diff = -diff;
                if (!(diff <= 1e-4L)) { vf_violation("c01-solid-source-mismatch", "op=%s solid (a,r,g,b)=(%04x,%04x,%04x,%04x) mask=%02x dest rgba_float cfg=[%s] pixel %d: channel %c got %.6f, equations give %.6Lf", rc_op_name(op), a16, r16, g16, b16, mi ? mv[mi] : 0xff, ph_cfg_name(cfg, cfgn, sizeof cfgn), i, "argb"[k], g[k], r[k]); return; } }
            nt++; continue;
        }
        uint32_t got = ph_get_pixel(dbuf, df.bpp, i);
        if (exact) {
            uint32_t sv = s8[0] << 24 | s8[1] << 16 | s8[2] << 8 | s8[3], mvv = (uint32_t)(mi ? mv[mi] : 0xff) << 24;
            uint32_t d8 = D8[i][0] << 24 | D8[i][1] << 16 | D8[i][2] << 8 | D8[i][3];
            uint32_t exp = ph_from_8888(&df, rc_exact_pixel(op, mode, sv, mvv, d8)), dm = ph_defined_mask(&df);
            if ((got & dm) != (exp & dm)) { vf_violation("c01-solid-source-mismatch", "op=%s solid (a,r,g,b)=(%04x,%04x,%04x,%04x) mask=%02x dest %s raw %x cfg=[%s] pixel %d: got %x, equations give %x", rc_op_name(op), a16, r16, g16, b16, mi ? mv[mi] : 0xff, dfn[di], Draw[i], ph_cfg_name(cfg, cfgn, sizeof cfgn), i, got, exp); return; }
        } else {
            if (!rc_real_pixel(op, mode, S, M, D[i], r)) continue;
            for (int k = 0; k < 4; k++) {
                if (!dw[k]) continue;
                unsigned u = (got >> dsft[k]) & ((1u << dw[k]) - 1);
                if (!within(u, r[k], steps, dw[k])) { vf_violation("c01-solid-source-mismatch", "op=%s solid (a,r,g,b)=(%04x,%04x,%04x,%04x) mask=%02x dest %s raw %x cfg=[%s] pixel %d: channel %c got %u of %u, equations give %.5Lf (= %.3Lf), tolerance %d", rc_op_name(op), a16, r16, g16, b16, mi ? mv[mi] : 0xff, dfn[di], Draw[i], ph_cfg_name(cfg, cfgn, sizeof cfgn), i, "argb"[k], u, (1u << dw[k]) - 1, r[k], rc_clamp01(r[k]) * ((1u << dw[k]) - 1), steps); return; }
            }
        }
        if (got != Draw[i]) nt++;
        h = vf_mix(h, got);
    }
    vf_count_eval((uint64_t)n); vf_count_nontrivial(nt);
    if (!vf_in_confirm) vf_outcome(vf_mix(h, idx * 53 + (uint64_t)oi));
}

/* ---------------- indexed sources: the source pixel is its palette entry, a premultiplied a8r8g8b8 value whose alpha is whatever the palette says ----------------
 * (same judgement as for solid sources; both pipelines, since the palette colour is widened to float like any 8-bit pixel) */
static void indexed_src_case(uint64_t idx, void *vctx)
{
    static const pixman_format_code_t dfm[4] = { PIXMAN_a8r8g8b8, PIXMAN_a2r10g10b10, PIXMAN_rgba_float, PIXMAN_r5g6b5 };
    static const char *dfn[4] = { "a8r8g8b8", "a2r10g10b10", "rgba_float", "r5g6b5" };
    int oi = (int)(idx % RC_NOPS); idx /= RC_NOPS; int ai = (int)(idx % 11); idx /= 11; int ci = (int)(idx % 3); idx /= 3; int di = (int)(idx % 4); idx /= 4; int mi = (int)(idx % 3); idx /= 3;
    int cfg = (idx % 2) ? PH_CFG_GENERAL : PH_CFG_DEFAULT;
    int op = rc_all_ops[oi];
    static const pixman_format_code_t ifm[3] = { PIXMAN_c8, PIXMAN_g8, PIXMAN_c4 }; 
    int fi = ai % 3; ai /= 3;                                                                   /* the 11-way digit carries (format, alpha level): 3 x 3 used, 2 spare */
    if (ai > 2) return;
    static const uint8_t alv[3] = { 0x00, 0x80, 0xc1 };
    unsigned a8v = alv[ai];
    static const uint8_t cv[3] = { 0x00, 0x60, 0xff };
    unsigned r8 = cv[ci] < a8v ? cv[ci] : a8v, g8v = a8v / 3, b8 = a8v;                       /* valid premultiplied colour */
    uint16_t a16 = (uint16_t)(a8v * 0x101), r16 = (uint16_t)(r8 * 0x101), g16 = (uint16_t)(g8v * 0x101), b16 = (uint16_t)(b8 * 0x101);
    static pixman_indexed_t pal; memset(&pal, 0, sizeof pal);
    for (int k = 0; k < 256; k++) pal.rgba[k] = 0xff000000u | (unsigned)k * 0x010101u;
    unsigned index = (unsigned)(3 + ai * 3 + ci); pal.rgba[index] = a8v << 24 | r8 << 16 | g8v << 8 | b8;
    ph_fmt_t df; ph_fmt_describe(dfm[di], dfn[di], &df);
    enum { N = 125 };
    static uint32_t dbuf[N * 4 + 8]; memset(dbuf, 0, sizeof dbuf);
    static rc_real D[N][4]; static unsigned D8[N][4]; static uint32_t Draw[N];
    uint64_t nd = fmt_npix(&df); int n = nd < N ? (int)nd : N;
    for (int i = 0; i < n; i++) { uint32_t raw; float fl[4]; fmt_make_pixel(&df, (uint64_t)i * (nd / n ? nd / n : 1), &raw, fl, D[i], D8[i]); fmt_store(&df, dbuf, i, raw, fl); Draw[i] = raw; }
    static const uint8_t mv[3] = { 0xff, 0x80, 0x00 };
    uint8_t mbuf[N + 8]; memset(mbuf, mv[mi], sizeof mbuf);
    ph_set_cfg(cfg);
    static uint8_t ibuf[N + 8]; memset(ibuf, ifm[fi] == PIXMAN_c4 ? (int)(index << 4 | index) : (int)index, sizeof ibuf);
    pixman_image_t *src = pixman_image_create_bits(ifm[fi], n, 1, (uint32_t *)ibuf, N + 3 & ~3), *dst = pixman_image_create_bits(dfm[di], n, 1, dbuf, sizeof dbuf - 32);
    pixman_image_set_indexed(src, &pal);
    pixman_image_t *msk = mi ? pixman_image_create_bits(PIXMAN_a8, n, 1, (uint32_t *)mbuf, N + 3 & ~3) : NULL;
    pixman_image_composite32(op, src, msk, dst, 0, 0, 0, 0, 0, 0, n, 1);
    vf_count_libcalls(1);
    pixman_image_unref(src); pixman_image_unref(dst); if (msk) pixman_image_unref(msk);
    int wide = fmt_is_wide(&df) || !(rc_is_exact_op(op) || (rc_is_sep_blend(op) && !(op == PIXMAN_OP_COLOR_DODGE || op == PIXMAN_OP_COLOR_BURN || op == PIXMAN_OP_SOFT_LIGHT)));
    /* source as the pipeline sees it */
    rc_real S[4]; unsigned s8[4] = { a16 >> 8, r16 >> 8, g16 >> 8, b16 >> 8 };
    for (int k = 0; k < 4; k++) S[k] = s8[k] / 255.0L;
    rc_real M[4]; for (int k = 0; k < 4; k++) M[k] = mi ? mv[mi] / 255.0L : 1;
    int mode = mi ? RC_MASK_UNIFIED : RC_MASK_NONE;
    int exact = rc_is_exact_op(op) && !wide;
    int integer_blend = rc_is_sep_blend(op) && !wide;
    int steps = integer_blend ? (mode == RC_MASK_NONE ? 2 : 3) : 1;
    int blend = rc_is_sep_blend(op) || rc_is_hsl(op);
    char cfgn[64]; uint64_t nt = 0, h = 0;
    int dw[4] = { df.aw, df.rw, df.gw, df.bw }, dsft[4] = { df.as, df.rs, df.gs, df.bs };
    for (int i = 0; i < n; i++) {
        rc_real r[4];
        if (blend && !valid_premul(S, D[i])) continue;
        if (df.is_float) {
            float *p = (float *)dbuf; float g[4] = { p[4 * i + 3], p[4 * i], p[4 * i + 1], p[4 * i + 2] };
            if (!rc_real_pixel(op, mode, S, M, D[i], r)) continue;
            for (int k = 0; k < 4; k++) { rc_real diff = (rc_real)g[k] - r[k]; if (diff < 0) diff = -diff;
                if (!(diff <= 1e-4L)) { vf_violation("c01-indexed-source-mismatch", "op=%s indexed source whose palette entry is (a,r,g,b)=(%04x,%04x,%04x,%04x) mask=%02x dest rgba_float cfg=[%s] pixel %d: channel %c got %.6f, equations give %.6Lf", rc_op_name(op), a16, r16, g16, b16, mi ? mv[mi] : 0xff, ph_cfg_name(cfg, cfgn, sizeof cfgn), i, "argb"[k], g[k], r[k]); return; } }
            nt++; continue;
        }
        uint32_t got = ph_get_pixel(dbuf, df.bpp, i);
        if (exact) {
            uint32_t sv = s8[0] << 24 | s8[1] << 16 | s8[2] << 8 | s8[3], mvv = (uint32_t)(mi ? mv[mi] : 0xff) << 24;
            uint32_t d8 = D8[i][0] << 24 | D8[i][1] << 16 | D8[i][2] << 8 | D8[i][3];
            uint32_t exp = ph_from_8888(&df, rc_exact_pixel(op, mode, sv, mvv, d8)), dm = ph_defined_mask(&df);
            if ((got & dm) != (exp & dm)) { vf_violation("c01-indexed-source-mismatch", "op=%s indexed source whose palette entry is (a,r,g,b)=(%04x,%04x,%04x,%04x) mask=%02x dest %s raw %x cfg=[%s] pixel %d: got %x, equations give %x", rc_op_name(op), a16, r16, g16, b16, mi ? mv[mi] : 0xff, dfn[di], Draw[i], ph_cfg_name(cfg, cfgn, sizeof cfgn), i, got, exp); return; }
        } else {
            if (!rc_real_pixel(op, mode, S, M, D[i], r)) continue;
            for (int k = 0; k < 4; k++) {
                if (!dw[k]) continue;
                unsigned u = (got >> dsft[k]) & ((1u << dw[k]) - 1);
                if (!within(u, r[k], steps, dw[k])) { vf_violation("c01-indexed-source-mismatch", "op=%s indexed source whose palette entry is (a,r,g,b)=(%04x,%04x,%04x,%04x) mask=%02x dest %s raw %x cfg=[%s] pixel %d: channel %c got %u of %u, equations give %.5Lf (= %.3Lf), tolerance %d", rc_op_name(op), a16, r16, g16, b16, mi ? mv[mi] : 0xff, dfn[di], Draw[i], ph_cfg_name(cfg, cfgn, sizeof cfgn), i, "argb"[k], u, (1u << dw[k]) - 1, r[k], rc_clamp01(r[k]) * ((1u << dw[k]) - 1), steps); return; }
            }
        }
        if (got != Draw[i]) nt++;
        h = vf_mix(h, got);
    }
    vf_count_eval((uint64_t)n); vf_count_nontrivial(nt);
    if (!vf_in_confirm) vf_outcome(vf_mix(h, idx * 53 + (uint64_t)oi + 7));
}

/* ---------------- source and mask origins: the request may start before / end after a REPEAT_NONE source or mask (which is transparent there) ----------------
 * One row; every combination of (source origin, mask origin) in {-3, 0, 2} x {-2, 0, 1}, so that the fetchers deliver a transparent run, then pixels, then a
 * transparent run again; narrow and wide pipelines; judged by the equations with S (or M) = 0 outside the image. */
static void origin_case(uint64_t idx, void *vctx)
{
    (void)vctx;
    static const pixman_format_code_t dfm[3] = { PIXMAN_a8r8g8b8, PIXMAN_a2r10g10b10, PIXMAN_rgba_float }; static const char *dfn[3] = { "a8r8g8b8", "a2r10g10b10", "rgba_float" };
    static const pixman_format_code_t sfm[3] = { PIXMAN_a8r8g8b8, PIXMAN_r5g6b5, PIXMAN_a2r10g10b10 }; static const char *sfn[3] = { "a8r8g8b8", "r5g6b5", "a2r10g10b10" };
    static const int SX[3] = { -3, 0, 2 }, MX[3] = { -2, 0, 1 };
    int dims[7] = { RC_NOPS, 3, 3, 3, 3, 3, 2 }, v[7]; vf_decode(idx, dims, 7, v);
    int op = rc_all_ops[v[0]], di = v[1], si = v[2], sx = SX[v[3]], mi = v[4] /* 0 none, 1 a8, 2 a8r8g8b8 CA */, mx = MX[v[5]], cfg = v[6] ? PH_CFG_GENERAL : PH_CFG_DEFAULT;
    enum { SN = 9, N = 12 };       /* source / mask images are SN wide, the request N wide */
    ph_fmt_t df, sf, mf; ph_fmt_describe(dfm[di], dfn[di], &df); ph_fmt_describe(sfm[si], sfn[si], &sf); ph_fmt_describe(mi == 2 ? PIXMAN_a8r8g8b8 : PIXMAN_a8, mi == 2 ? "a8r8g8b8" : "a8", &mf);
    static uint32_t sbuf[SN * 4 + 8], mbuf[SN * 4 + 8], dbuf[N * 4 + 8]; memset(sbuf, 0, sizeof sbuf); memset(mbuf, 0, sizeof mbuf); memset(dbuf, 0, sizeof dbuf);
    static rc_real S[SN][4], M[SN][4], D[N][4]; static unsigned S8[SN][4], M8[SN][4], D8[N][4]; static uint32_t Draw[N];
    uint64_t ns = fmt_npix(&sf), nm = fmt_npix(&mf), nd = fmt_npix(&df);
    for (int i = 0; i < SN; i++) { uint32_t raw; float fl[4]; fmt_make_pixel(&sf, ((uint64_t)i * 37 + 11) % ns, &raw, fl, S[i], S8[i]); fmt_store(&sf, sbuf, i, raw, fl);
                                   fmt_make_pixel(&mf, ((uint64_t)i * 53 + 7) % nm, &raw, fl, M[i], M8[i]); fmt_store(&mf, mbuf, i, raw, fl); }
    for (int i = 0; i < N; i++) { uint32_t raw; float fl[4]; fmt_make_pixel(&df, ((uint64_t)i * 101 + 3) % nd, &raw, fl, D[i], D8[i]); fmt_store(&df, dbuf, i, raw, fl); Draw[i] = raw; }
    ph_set_cfg(cfg);
    pixman_image_t *src = pixman_image_create_bits(sf.code, SN, 1, sbuf, sizeof sbuf - 32), *dst = pixman_image_create_bits(df.code, N, 1, dbuf, sizeof dbuf - 32);
    pixman_image_t *msk = mi ? pixman_image_create_bits(mf.code, SN, 1, mbuf, sizeof mbuf - 32) : NULL;
    if (mi == 2) pixman_image_set_component_alpha(msk, 1);
    pixman_image_composite32(op, src, msk, dst, sx, 0, mx, 0, 0, 0, N, 1);
    vf_count_libcalls(1);
    pixman_image_unref(src); pixman_image_unref(dst); if (msk) pixman_image_unref(msk);
    int mode = mi == 0 ? RC_MASK_NONE : mi == 1 ? RC_MASK_UNIFIED : RC_MASK_CA;
    int wide = fmt_is_wide(&df) || fmt_is_wide(&sf);
    int exact = rc_is_exact_op(op) && !wide;
    int integer_blend = rc_is_sep_blend(op) && !(op == PIXMAN_OP_COLOR_DODGE || op == PIXMAN_OP_COLOR_BURN || op == PIXMAN_OP_SOFT_LIGHT) && !wide;
    int steps = integer_blend ? (mode == RC_MASK_NONE ? 2 : 3) : 1;
    int blend = rc_is_sep_blend(op) || rc_is_hsl(op);
    if (rc_is_hsl(op) && mode == RC_MASK_CA) return;
    char cfgn[64]; uint64_t nt = 0, h = 0;
    int dw[4] = { df.aw, df.rw, df.gw, df.bw }, dsft[4] = { df.as, df.rs, df.gs, df.bs };
    static const rc_real Z[4] = { 0, 0, 0, 0 }; static const unsigned Z8[4] = { 0, 0, 0, 0 };
    for (int i = 0; i < N; i++) {
        int sp = sx + i, mp = mx + i;
        const rc_real *Sp = (sp >= 0 && sp < SN) ? S[sp] : Z, *Mp = !mi ? NULL : (mp >= 0 && mp < SN) ? M[mp] : Z;
        const unsigned *S8p = (sp >= 0 && sp < SN) ? S8[sp] : Z8, *M8p = (mp >= 0 && mp < SN) ? M8[mp] : Z8;
        rc_real Mr[4] = { 1, 1, 1, 1 }; if (Mp) for (int k = 0; k < 4; k++) Mr[k] = Mp[k];
        if (mi == 1) { Mr[1] = Mr[2] = Mr[3] = Mr[0]; }
        rc_real r[4];
        if (blend && !valid_premul(Sp, D[i])) continue;
        if (saturate_undefined(op, mode, Sp, Mr, D[i])) continue;
        char what[260]; snprintf(what, sizeof what, "op=%s %s cfg=[%s] dest %s <- source %s (9 wide, REPEAT_NONE) at origin %d%s%s, request 12 wide: pixel %d", rc_op_name(op), mode_name(mode), ph_cfg_name(cfg, cfgn, sizeof cfgn),
                                  dfn[di], sfn[si], sx, mi ? ", mask at origin " : "", mi ? (mx == -2 ? "-2" : mx == 0 ? "0" : "1") : "", i);
        if (df.is_float) {
            float *p = (float *)dbuf; float g[4] = { p[4 * i + 3], p[4 * i], p[4 * i + 1], p[4 * i + 2] };
            if (!rc_real_pixel(op, mode, Sp, Mr, D[i], r)) continue;
            for (int k = 0; k < 4; k++) { rc_real diff = (rc_real)g[k] - r[k]; if (diff < 0) diff = -diff;
                if (!(diff <= 1e-4L)) { vf_violation("c01-origin-mismatch", "%s: channel %c got %.6f, equations give %.6Lf", what, "argb"[k], g[k], r[k]); return; } }
            nt++; continue;
        }
        uint32_t got = ph_get_pixel(dbuf, df.bpp, i);
        if (exact) {
            uint32_t sv = S8p[0] << 24 | S8p[1] << 16 | S8p[2] << 8 | S8p[3], mv = mi == 0 ? 0 : mi == 1 ? M8p[0] << 24 : (M8p[0] << 24 | M8p[1] << 16 | M8p[2] << 8 | M8p[3]);
            uint32_t d8 = D8[i][0] << 24 | D8[i][1] << 16 | D8[i][2] << 8 | D8[i][3];
            uint32_t exp = ph_from_8888(&df, rc_exact_pixel(op, mode, sv, mv, d8)), dm = ph_defined_mask(&df);
            if ((got & dm) != (exp & dm)) { vf_violation("c01-origin-mismatch", "%s: got %x, equations give %x (destination was %x)", what, got, exp, Draw[i]); return; }
        } else {
            if (!rc_real_pixel(op, mode, Sp, Mr, D[i], r)) continue;
            for (int k = 0; k < 4; k++) {
                if (!dw[k]) continue;
                unsigned u = (got >> dsft[k]) & ((1u << dw[k]) - 1);
                if (!within(u, r[k], steps, dw[k])) { vf_violation("c01-origin-mismatch", "%s: channel %c got %u of %u, equations give %.5Lf (= %.3Lf), tolerance %d", what, "argb"[k], u, (1u << dw[k]) - 1, r[k], rc_clamp01(r[k]) * ((1u << dw[k]) - 1), steps); return; }
            }
        }
        if (got != Draw[i]) nt++;
        h = vf_mix(h, got);
    }
    vf_count_eval((uint64_t)N); vf_count_nontrivial(nt);
    if (!vf_in_confirm) vf_outcome(vf_mix(h, idx));
}

/* ---------------- a mask with a past: used as a unified-alpha mask (where an alpha-less or solid-opaque mask is no mask at all), then given component alpha
 * (now its colour channels are coverages), used, then switched back and used again.  Every one of the three drawings is judged by the equations. */
static void mask_history_case(uint64_t idx, void *vctx)
{
    (void)vctx;
    int dims[4] = { RC_NOPS, 3, 2, 2 }, v[4]; vf_decode(idx, dims, 4, v);
    int op = rc_all_ops[v[0]], mk = v[1], di = v[2], cfg = v[3] ? PH_CFG_GENERAL : PH_CFG_DEFAULT;
    static const uint32_t mcol = 0x00c08040u;                                      /* colour channels of the mask; its alpha is 1 by format / by the solid's alpha */
    enum { N = 16 };
    ph_fmt_t df, sf; ph_fmt_describe(di ? PIXMAN_x8r8g8b8 : PIXMAN_a8r8g8b8, di ? "x8r8g8b8" : "a8r8g8b8", &df); ph_fmt_describe(PIXMAN_a8r8g8b8, "a8r8g8b8", &sf);
    static uint32_t sbuf[N + 8], dbuf[N + 8], d0[N + 8], mpix[4];
    static rc_real S[N][4], D[N][4]; static unsigned S8[N][4], D8[N][4];
    uint64_t ns = fmt_npix(&sf), nd = fmt_npix(&df);
    for (int i = 0; i < N; i++) { uint32_t raw; float fl[4]; fmt_make_pixel(&sf, ((uint64_t)i * 41 + 5) % ns, &raw, fl, S[i], S8[i]); sbuf[i] = raw;
                                  fmt_make_pixel(&df, ((uint64_t)i * 67 + 9) % nd, &raw, fl, D[i], D8[i]); d0[i] = raw; }
    ph_set_cfg(cfg);
    pixman_image_t *src = pixman_image_create_bits(PIXMAN_a8r8g8b8, N, 1, sbuf, sizeof sbuf - 16), *dst = pixman_image_create_bits(df.code, N, 1, dbuf, sizeof dbuf - 16), *msk;
    if (mk == 0) { mpix[0] = mpix[1] = mcol | 0x5a000000u; msk = pixman_image_create_bits(PIXMAN_x8r8g8b8, 2, 1, mpix, 8); pixman_image_set_repeat(msk, PIXMAN_REPEAT_NORMAL); }
    else if (mk == 1) { pixman_color_t c = { 0xc0c0, 0x8080, 0x4040, 0xffff }; msk = pixman_image_create_solid_fill(&c); }
    else { mpix[0] = mcol | 0xff000000u; msk = pixman_image_create_bits(PIXMAN_a8r8g8b8, 1, 1, mpix, 4); pixman_image_set_repeat(msk, PIXMAN_REPEAT_PAD); }
    static const char *mkn[3] = { "x8r8g8b8 2x1 REPEAT_NORMAL", "solid fill with alpha ffff", "a8r8g8b8 1x1 REPEAT_PAD with alpha ff" };
    rc_real Mu[4] = { 1, 1, 1, 1 }, Mc[4] = { 1, 0xc0 / 255.0L, 0x80 / 255.0L, 0x40 / 255.0L };
    uint32_t m8u = 0xff000000u, m8c = 0xff000000u | mcol;
    int exact = rc_is_exact_op(op), integer_blend = rc_is_sep_blend(op) && !(op == PIXMAN_OP_COLOR_DODGE || op == PIXMAN_OP_COLOR_BURN || op == PIXMAN_OP_SOFT_LIGHT);
    int blend = rc_is_sep_blend(op) || rc_is_hsl(op);
    char cfgn[64]; uint64_t nt = 0, h = 0;
    int dw[4] = { df.aw, df.rw, df.gw, df.bw }, dsft[4] = { df.as, df.rs, df.gs, df.bs };
    for (int step = 0; step < 3 && !vf_failed(); step++) {
        int ca = step == 1;
        if (ca && rc_is_hsl(op)) continue;
        if (step) pixman_image_set_component_alpha(msk, ca);
        memcpy(dbuf, d0, sizeof d0);
        pixman_image_composite32(op, src, msk, dst, 0, 0, 0, 0, 0, 0, N, 1);
        vf_count_libcalls(1);
        int mode = ca ? RC_MASK_CA : RC_MASK_UNIFIED, steps = integer_blend ? 3 : 1;
        for (int i = 0; i < N; i++) {
            uint32_t got = dbuf[i]; rc_real r[4];
            if (blend && !valid_premul(S[i], D[i])) continue;
            if (saturate_undefined(op, mode, S[i], ca ? Mc : Mu, D[i])) continue;
            if (exact) {
                uint32_t sv = S8[i][0] << 24 | S8[i][1] << 16 | S8[i][2] << 8 | S8[i][3], d8 = D8[i][0] << 24 | D8[i][1] << 16 | D8[i][2] << 8 | D8[i][3];
                uint32_t exp = ph_from_8888(&df, rc_exact_pixel(op, mode, sv, ca ? m8c : m8u, d8)), dm = ph_defined_mask(&df);
                if ((got & dm) != (exp & dm)) { vf_violation("c01-mask-history-mismatch", "op=%s cfg=[%s] dest %s, mask %s: drawing %d (%s): pixel %d got %x, equations give %x (source %08x, destination was %08x)", rc_op_name(op), ph_cfg_name(cfg, cfgn, sizeof cfgn), df.name, mkn[mk], step + 1,
                                             step == 0 ? "unified alpha, first use" : step == 1 ? "after set_component_alpha(1)" : "after set_component_alpha(0) again", i, got, exp, sv, d0[i]); break; }
            } else {
                if (!rc_real_pixel(op, mode, S[i], ca ? Mc : Mu, D[i], r)) continue;
                int bad = 0;
                for (int k = 0; k < 4; k++) { if (!dw[k]) continue; unsigned u = (got >> dsft[k]) & ((1u << dw[k]) - 1); if (!within(u, r[k], steps, dw[k])) bad = 1; }
                if (bad) { vf_violation("c01-mask-history-mismatch", "op=%s cfg=[%s] dest %s, mask %s: drawing %d (%s): pixel %d got %x, equations give (a,r,g,b)=(%.4Lf,%.4Lf,%.4Lf,%.4Lf), tolerance %d", rc_op_name(op), ph_cfg_name(cfg, cfgn, sizeof cfgn), df.name, mkn[mk], step + 1,
                                        step == 0 ? "unified alpha, first use" : step == 1 ? "after set_component_alpha(1)" : "after set_component_alpha(0) again", i, got, r[0], r[1], r[2], r[3], steps); break; }
            }
            if (got != d0[i]) nt++;
            h = vf_mix(h, got);
        }
    }
    pixman_image_unref(src); pixman_image_unref(dst); pixman_image_unref(msk);
    vf_count_eval(3 * N); vf_count_nontrivial(nt);
    if (!vf_in_confirm) vf_outcome(vf_mix(h, idx));
}

typedef struct { fmt_ctx c; uint64_t first, count; } fmt_job;
static fmt_job *fmt_jobs; static int fmt_njobs, fmt_cap; static uint64_t fmt_total;
static void fmt_add(fmt_ctx *c, uint64_t strips)
{
    if (fmt_njobs == fmt_cap) { fmt_cap = fmt_cap ? fmt_cap * 2 : 1024; fmt_jobs = realloc(fmt_jobs, sizeof(fmt_job) * fmt_cap); }
    fmt_jobs[fmt_njobs].c = *c; fmt_jobs[fmt_njobs].first = fmt_total; fmt_jobs[fmt_njobs].count = strips; fmt_total += strips; fmt_njobs++;
}
static void fmt_case_all(uint64_t idx, void *ctx)
{
    int lo = 0, hi = fmt_njobs - 1;
    while (lo < hi) { int mid = (lo + hi + 1) / 2; if (fmt_jobs[mid].first <= idx) lo = mid; else hi = mid - 1; }
    fmt_case(idx - fmt_jobs[lo].first, &fmt_jobs[lo].c);
}

int main(int argc, char **argv)
{
    vf_init(argc, argv, "C01", "exploration");
    ph_init_cfgs();
    int th = vf_is_thorough();
    if (th && vf_deadline_s == 1500) vf_deadline_s = 3000;      /* 2.2 * 10^11 pixels: about 22 minutes on the idle 16-core machine, twice that next to other jobs */
    vf_rule = "E1: every tuple of the stated alphabets is a pixel of a Wx1 strip composited by pixman_image_composite32; R carries the enumerated colour variable, "
              "G and B bijective scramblings of it. exact class (13 Porter-Duff ops + ADD, <=8 bit): bit-exact against round-to-nearest products and saturating sums; "
              "tolerance class: within 1 destination step of the long-double Render/PDF equations (2 steps for the integer-evaluated separable blend modes). "
              "evaluations = pixels judged; non-trivial = result differs from source, destination and 0; outcomes = distinct strip digests.";
    vf_assume("reference equations in ref/ref_combine.h transcribe the Render and PDF 32000-1 definitions");
    vf_assume("HSL operators with a component-alpha mask have no defined result: executed, not judged");
    vf_assume("x86-64 back ends only (general, fast, mmx, sse2, ssse3)");

    int cfgs[2] = { PH_CFG_DEFAULT, PH_CFG_GENERAL };
    /* ---- exact class ---- */
    for (int ci = 0; ci < 2; ci++)
        for (int op = PIXMAN_OP_CLEAR; op <= PIXMAN_OP_ADD; op++)
            for (int mode = 0; mode < 3; mode++) {
                ex_ctx c; memset(&c, 0, sizeof c); c.op = op; c.mode = mode; c.cfg = cfgs[ci];
                if (!th) set_vars(&c, mode == 0 ? "BBBB11" : mode == 1 ? "BBBB1B" : "BBBBBB");
                else set_vars(&c, mode == 0 ? "FFFF11" : mode == 1 ? "FFBB1F" : "FSSSFF");
                if (th && ci == 1) set_vars(&c, mode == 0 ? "BBBB11" : mode == 1 ? "BBBB1B" : "BBBBBB");     /* full cubes under the default chain; boundary alphabet under general-only */
                run_ex(&c, "exact");
                if (th && mode == 2 && ci == 0) { ex_ctx c4 = c; set_vars(&c4, "FFTTFS"); run_ex(&c4, "exact"); }   /* (sc, sa, mc) full cube */
                if (mode == 1) {
                    /* full alpha cube (sa, ma, da), colour on the short alphabet; also the a8 presentation of the mask */
                    ex_ctx c2 = c; set_vars(&c2, th ? "BFBF1F" : "TFTF1F"); run_ex(&c2, "exact-alpha-cube");
                    ex_ctx c3 = c; c3.mask_a8 = 1; set_vars(&c3, "BBBB1B"); run_ex(&c3, "exact");
                }
            }
    ex_flush("exact-a8r8g8b8");
    /* ---- tolerance class on a8r8g8b8 ---- */
    for (int ci = 0; ci < 2; ci++)
        for (int oi = 0; oi < RC_NOPS; oi++) {
            int op = rc_all_ops[oi];
            if (rc_is_exact_op(op)) continue;
            for (int mode = 0; mode < 3; mode++) {
                if (rc_is_hsl(op) && mode == RC_MASK_CA) continue;
                ex_ctx c; memset(&c, 0, sizeof c); c.op = op; c.mode = mode; c.cfg = cfgs[ci];
                /* the eight separable blend modes that pixman evaluates in 8-bit integers: the statement names no figure for them;
                 * the rounding structure (mask product, mask x source-alpha product, three rounded terms) bounds the error by
                 * 2 steps unmasked and 3 steps masked, which is what is demanded */
                int integer_blend = rc_is_sep_blend(op) && !(op == PIXMAN_OP_COLOR_DODGE || op == PIXMAN_OP_COLOR_BURN || op == PIXMAN_OP_SOFT_LIGHT);
                c.tolerance = integer_blend ? (mode == RC_MASK_NONE ? 2 : 3) : 1;
                c.premul = rc_is_sep_blend(op) || rc_is_hsl(op);
                set_vars(&c, mode == 0 ? "BBBB11" : mode == 1 ? "BBBB1B" : (th ? "BBBBBB" : "BBSSBB"));
                run_ex(&c, "real");
                if (mode == 0 && (th || ci == 0)) { ex_ctx c2 = c; set_vars(&c2, th ? "BFBF11" : "SFSF11"); run_ex(&c2, "real-alpha-plane"); }
            }
        }
    ex_flush("real-a8r8g8b8");
    /* ---- format triples ---- */
    {
        ph_fmt_t F[] = { PH_FMT(PIXMAN_a8r8g8b8), PH_FMT(PIXMAN_x8r8g8b8), PH_FMT(PIXMAN_a8b8g8r8), PH_FMT(PIXMAN_b8g8r8a8), PH_FMT(PIXMAN_r8g8b8),
                         PH_FMT(PIXMAN_r5g6b5), PH_FMT(PIXMAN_a1r5g5b5), PH_FMT(PIXMAN_a4r4g4b4), PH_FMT(PIXMAN_r3g3b2), PH_FMT(PIXMAN_a2r2g2b2),
                         PH_FMT(PIXMAN_a8), PH_FMT(PIXMAN_a4), PH_FMT(PIXMAN_a1), PH_FMT(PIXMAN_a2r10g10b10), PH_FMT(PIXMAN_x2b10g10r10),
                         PH_FMT(PIXMAN_rgba_float), PH_FMT(PIXMAN_rgb_float) };
        int NF = sizeof F / sizeof F[0];
        static const int qops[] = { PIXMAN_OP_SRC, PIXMAN_OP_OVER, PIXMAN_OP_IN_REVERSE, PIXMAN_OP_ATOP, PIXMAN_OP_XOR, PIXMAN_OP_ADD, PIXMAN_OP_SATURATE,
                                    PIXMAN_OP_DISJOINT_OVER, PIXMAN_OP_CONJOINT_IN, PIXMAN_OP_MULTIPLY, PIXMAN_OP_HSL_COLOR };
        /* quick: the listed operators in full; the other operators that the library's reduction table (operator_table) knows only in the
         * presentations that select its non-trivial columns (3, 4) */
        static int qall[RC_NOPS], qreduced_only[RC_NOPS]; int nq = 0;
        for (unsigned k = 0; k < sizeof qops / sizeof qops[0]; k++) qall[nq++] = qops[k];
        for (int op2 = PIXMAN_OP_CLEAR; op2 <= PIXMAN_OP_SATURATE; op2++) { int have = 0; for (int k = 0; k < nq; k++) if (qall[k] == op2) have = 1; if (!have) { qreduced_only[nq] = 1; qall[nq++] = op2; } }
        int nops = th ? RC_NOPS : nq;
        for (int oi = 0; oi < nops; oi++) {
            int op = th ? rc_all_ops[oi] : qall[oi]; int reduced_only = !th && qreduced_only[oi];
            for (int di = 0; di < NF; di++) for (int si = 0; si < NF; si++) {
                /* mask presentations: none; a8 unified; a8r8g8b8 component alpha (thorough: also wide and 565 CA masks) */
                int nmask = th ? 5 : 3;
                for (int mi = 0; mi < nmask; mi++) {
                    fmt_ctx c; memset(&c, 0, sizeof c); c.op = op; c.cfg = PH_CFG_DEFAULT; c.sf = F[si]; c.df = F[di];
                    if (mi == 0) { c.mode = RC_MASK_NONE; c.mf = F[0]; }
                    else if (mi == 1) { c.mode = RC_MASK_UNIFIED; c.mf = PH_FMT(PIXMAN_a8); }
                    else if (mi == 2) { c.mode = RC_MASK_CA; c.mf = PH_FMT(PIXMAN_a8r8g8b8); }
                    else if (mi == 3) { c.mode = RC_MASK_UNIFIED; c.mf = PH_FMT(PIXMAN_a2r10g10b10); }
                    else { c.mode = RC_MASK_CA; c.mf = PH_FMT(PIXMAN_r5g6b5); }
                    if (rc_is_hsl(op) && c.mode == RC_MASK_CA) continue;
                    if (!th && mi && (si % 3 != di % 3)) continue;   /* quick: masked triples on a third of the format pairs */
                    uint64_t total = fmt_npix(&c.sf) * (c.mode ? fmt_npix(&c.mf) : 1) * fmt_npix(&c.df);
                    /* cap very large products by restricting to the first strips (still a deterministic, complete sub-box of the product) */
                    uint64_t strips = (total + FW - 1) / FW;
                    uint64_t cap = th ? 2048 : 256;
                    if (strips > cap) strips = cap;
                    if (!reduced_only) fmt_add(&c, strips);
                    if (th && mi == 0) { c.cfg = PH_CFG_GENERAL; fmt_add(&c, strips); c.cfg = PH_CFG_DEFAULT; }
                    /* the same strips delivered by the transformed-image fetchers (source, and mask where there is one) */
                    uint64_t vcap = th ? 128 : 64, vs = strips > vcap ? vcap : strips;
                    if (!reduced_only && (th || mi || (si % 3 == di % 3))) { c.pres = 1; fmt_add(&c, vs); }
                    if (!reduced_only && mi) { c.pres = 2; fmt_add(&c, vs); }
                    /* the operator-reduction columns: alpha-less destination / source carrying a repeat attribute */
                    if (!c.df.aw && !c.df.is_float) { c.pres = 3; fmt_add(&c, vs); }
                    if (!c.sf.aw && !c.sf.is_float) { c.pres = 4; fmt_add(&c, vs); }
                    c.pres = 0;
                }
            }
        }
    }
    vf_space_run("format-triples", fmt_total, fmt_case_all, NULL);
    vf_space_run("shared-storage-source-and-mask", 2 * 5 * 4 * 3 * 3 * 2 * 2 * 2 * 2, alias_case, NULL);
    vf_space_run("solid-fill-sources-16bit", (uint64_t)RC_NOPS * 11 * 3 * 4 * 3 * 2, solid_case, NULL);
    vf_space_run("masks-that-change-between-unified-and-component-alpha", (uint64_t)RC_NOPS * 3 * 2 * 2, mask_history_case, NULL);
    vf_space_run("source-and-mask-origins-outside-the-images", (uint64_t)RC_NOPS * 3 * 3 * 3 * 3 * 3 * 2, origin_case, NULL);
    vf_space_run("indexed-sources-with-translucent-palette-entries", (uint64_t)RC_NOPS * 11 * 3 * 4 * 3 * 2, indexed_src_case, NULL);
    vf_bounds = th ? "exact: 13 ops x {none: full 2^32 (sc,sa,dc,da); unified: (sc,sa,ma) full 2^24 x (dc,da) in B8^2 + alpha cube; CA: (sc,mc,ma) full 2^24 x (sa,dc,da) in B6^3 and (sc,sa,mc) full 2^24 x (dc,da) in T^2 x ma in B6 [default chain; boundary alphabets under general-only]}; "
                     "tolerance: 40 ops x 3 modes x B8^4..6 + full (sa,da) plane; formats: 53 ops x 17x17 format pairs x 5 mask presentations x per-channel {0,1,mid,max-1,max} (first 2048 strips of 128), and again with the source / the mask delivered by the transformed-image fetchers (first 128 strips, mask value fastest), and with REPEAT_NORMAL set on alpha-less destinations / sources (operator reduction); cfgs default+general"
                   : "exact: 13 ops x 3 mask modes x B8^4..6 + (sa,ma,da) full 2^24 cube; tolerance: 40 ops x 3 modes x B8^4..5 (CA: B8^4 x B6^2) + full (sa,da) plane x B6^2; "
                     "formats: 11 ops x 17x17 format pairs (masked: a third) x per-channel 5-value alphabets (first 256 strips of 128), and again with the source / the mask delivered by the transformed-image fetchers (first 64 strips, mask value fastest), and with REPEAT_NORMAL set on alpha-less destinations / sources (operator reduction); cfgs default+general";
    return vf_finish();
}
