/* c10_codec.h — reference pixel codec shared by the C10 and C19 harnesses.
 *
 * Everything here is derived from the *format code's bit fields* only (pixman.h documents
 * the code as  bpp<<24 | shift<<22 | type<<16 | a<<12 | r<<8 | g<<4 | b ), never from the
 * library's accessors:
 *   - channel widths from the A/R/G/B nibbles (scaled by the 2-bit shift field),
 *   - channel positions from TYPE (ARGB: b lowest; ABGR: r lowest; BGRA / RGBA: counted from
 *     the top of the pixel; A: alpha at bit 0),
 *   - widening n -> m bits by bit replication, narrowing by keeping the top bits,
 *   - float: k / (2^n - 1); float -> n bits: bucket floor (f * 2^n) clamped to [0, 2^n - 1],
 *   - storage: little-endian byte-level addressing of 1/4/8/16/24/32-bit pixels.
 */
#ifndef C10_CODEC_H
#define C10_CODEC_H
#include <stdint.h>
#include <string.h>
#include <math.h>
#include <malloc.h>
#include <pixman.h>

enum { CK_PACKED = 0, CK_WIDE10, CK_SRGB, CK_INDEXED, CK_YUV, CK_FLOAT };
enum { CH_A = 0, CH_R, CH_G, CH_B };

typedef struct {
    const char *name;
    pixman_format_code_t code;
    int kind;
} c10_fmt_t;

#define C10F(n, k) { #n, PIXMAN_##n, k }
static const c10_fmt_t c10_formats[] = {
    /* 32 bpp, channels <= 8 bits */
    C10F(a8r8g8b8, CK_PACKED), C10F(x8r8g8b8, CK_PACKED), C10F(a8b8g8r8, CK_PACKED), C10F(x8b8g8r8, CK_PACKED),
    C10F(b8g8r8a8, CK_PACKED), C10F(b8g8r8x8, CK_PACKED), C10F(r8g8b8a8, CK_PACKED), C10F(r8g8b8x8, CK_PACKED),
    C10F(x14r6g6b6, CK_PACKED),
    /* 24 bpp */
    C10F(r8g8b8, CK_PACKED), C10F(b8g8r8, CK_PACKED),
    /* 16 bpp */
    C10F(r5g6b5, CK_PACKED), C10F(b5g6r5, CK_PACKED), C10F(a1r5g5b5, CK_PACKED), C10F(x1r5g5b5, CK_PACKED),
    C10F(a1b5g5r5, CK_PACKED), C10F(x1b5g5r5, CK_PACKED), C10F(a4r4g4b4, CK_PACKED), C10F(x4r4g4b4, CK_PACKED),
    C10F(a4b4g4r4, CK_PACKED), C10F(x4b4g4r4, CK_PACKED),
    /* 8 bpp */
    C10F(a8, CK_PACKED), C10F(r3g3b2, CK_PACKED), C10F(b2g3r3, CK_PACKED), C10F(a2r2g2b2, CK_PACKED),
    C10F(a2b2g2r2, CK_PACKED), C10F(x4a4, CK_PACKED),
    /* 4 bpp */
    C10F(a4, CK_PACKED), C10F(r1g2b1, CK_PACKED), C10F(b1g2r1, CK_PACKED), C10F(a1r1g1b1, CK_PACKED),
    C10F(a1b1g1r1, CK_PACKED),
    /* 1 bpp */
    C10F(a1, CK_PACKED),
    /* 10-bit ("wide") */
    C10F(a2r10g10b10, CK_WIDE10), C10F(x2r10g10b10, CK_WIDE10), C10F(a2b10g10r10, CK_WIDE10), C10F(x2b10g10r10, CK_WIDE10),
    /* sRGB */
    C10F(a8r8g8b8_sRGB, CK_SRGB),
    /* indexed (x4c4 / x4g4 have the same codes as c8 / g8 and are therefore the same formats) */
    C10F(c8, CK_INDEXED), C10F(g8, CK_INDEXED), C10F(c4, CK_INDEXED), C10F(g4, CK_INDEXED), C10F(g1, CK_INDEXED),
    /* YUV (sources only) */
    C10F(yuy2, CK_YUV), C10F(yv12, CK_YUV),
};
#define C10_NFORMATS ((int)(sizeof c10_formats / sizeof c10_formats[0]))
#define C10_NPACKED 33           /* the first 33 entries are CK_PACKED */
#define C10_NLAYOUT 37           /* ... the first 37 have a channel layout (packed + 10-bit) */

typedef struct {
    int bpp, type;
    int w[4];              /* widths  a r g b */
    int sh[4];             /* shifts  a r g b */
    uint32_t dmask;        /* defined bits of a pixel */
    uint32_t pmask;        /* all bits of a pixel (bpp ones) */
} c10_layout_t;

/* Decode the code's bit fields.  Returns 1 for packed colour/alpha layouts, 0 otherwise. */
static inline int c10_layout_of(uint32_t code, c10_layout_t *L)
{
    int s = (code >> 22) & 3;
    memset(L, 0, sizeof *L);
    L->bpp = (int)((code >> 24) & 0xff) << s;
    L->type = (code >> 16) & 0x3f;
    L->w[CH_A] = (int)((code >> 12) & 15) << s;
    L->w[CH_R] = (int)((code >> 8) & 15) << s;
    L->w[CH_G] = (int)((code >> 4) & 15) << s;
    L->w[CH_B] = (int)(code & 15) << s;
    L->pmask = L->bpp >= 32 ? 0xffffffffu : ((1u << L->bpp) - 1);
    int order[4], n = 0, from_top = 0;
    switch (L->type) {
    case 1:  /* A    */ order[n++] = CH_A; break;
    case 2:  /* ARGB */
    case 10: /* ARGB sRGB */ order[0] = CH_B; order[1] = CH_G; order[2] = CH_R; order[3] = CH_A; n = 4; break;
    case 3:  /* ABGR */ order[0] = CH_R; order[1] = CH_G; order[2] = CH_B; order[3] = CH_A; n = 4; break;
    case 8:  /* BGRA: b is the topmost channel */ order[0] = CH_B; order[1] = CH_G; order[2] = CH_R; order[3] = CH_A; n = 4; from_top = 1; break;
    case 9:  /* RGBA: r is the topmost channel */ order[0] = CH_R; order[1] = CH_G; order[2] = CH_B; order[3] = CH_A; n = 4; from_top = 1; break;
    default: return 0;
    }
    if (L->bpp > 32) return 0;
    if (!from_top) {
        int pos = 0;
        for (int i = 0; i < n; i++) { L->sh[order[i]] = pos; pos += L->w[order[i]]; }
    } else {
        int pos = L->bpp;
        for (int i = 0; i < n; i++) { pos -= L->w[order[i]]; L->sh[order[i]] = pos; }
    }
    for (int c = 0; c < 4; c++)
        if (L->w[c]) L->dmask |= ((L->w[c] >= 32 ? 0xffffffffu : ((1u << L->w[c]) - 1)) << L->sh[c]);
    return 1;
}

static inline uint32_t c10_chan(const c10_layout_t *L, int c, uint32_t pixel)
{
    return L->w[c] ? (pixel >> L->sh[c]) & ((1u << L->w[c]) - 1) : 0;
}

/* n-bit value -> m-bit value: replicate the bit string when widening, keep the top bits when narrowing */
static inline uint32_t c10_rescale(uint32_t v, int n, int m)
{
    if (n >= m) return v >> (n - m);
    uint32_t out = 0; int filled = 0;
    while (filled < m) {
        int take = n < m - filled ? n : m - filled;
        out = (out << take) | (v >> (n - take));
        filled += take;
    }
    return out;
}

/* pixel of layout L -> canonical a8r8g8b8 (absent alpha = 0xff, absent colour = 0) */
static inline uint32_t c10_to_8888(const c10_layout_t *L, uint32_t pixel)
{
    uint32_t a = L->w[CH_A] ? c10_rescale(c10_chan(L, CH_A, pixel), L->w[CH_A], 8) : 0xff;
    uint32_t r = L->w[CH_R] ? c10_rescale(c10_chan(L, CH_R, pixel), L->w[CH_R], 8) : 0;
    uint32_t g = L->w[CH_G] ? c10_rescale(c10_chan(L, CH_G, pixel), L->w[CH_G], 8) : 0;
    uint32_t b = L->w[CH_B] ? c10_rescale(c10_chan(L, CH_B, pixel), L->w[CH_B], 8) : 0;
    return a << 24 | r << 16 | g << 8 | b;
}

/* canonical a8r8g8b8 -> pixel of layout L (undefined bits 0) */
static inline uint32_t c10_from_8888(const c10_layout_t *L, uint32_t argb)
{
    uint32_t ch[4] = { argb >> 24, (argb >> 16) & 0xff, (argb >> 8) & 0xff, argb & 0xff }, p = 0;
    for (int c = 0; c < 4; c++)
        if (L->w[c]) p |= c10_rescale(ch[c], 8, L->w[c]) << L->sh[c];
    return p;
}

/* float in [0,1] -> n-bit bucket */
static inline uint32_t c10_float_to_n(float f, int n)
{
    if (!(f > 0.0f)) return 0;
    if (f >= 1.0f) return (1u << n) - 1;
    double s = floor((double)f * (double)(1u << n));
    uint32_t u = (uint32_t)s, m = (1u << n) - 1;
    return u > m ? m : u;
}

/* ---- byte-level storage model (little endian) ---- */
static inline uint32_t c10_get_px(const uint8_t *row, int bpp, int x)
{
    switch (bpp) {
    case 1:  return (row[x >> 3] >> (x & 7)) & 1;
    case 4:  return (x & 1) ? row[x >> 1] >> 4 : row[x >> 1] & 15;
    case 8:  return row[x];
    case 16: return row[2 * x] | row[2 * x + 1] << 8;
    case 24: return row[3 * x] | row[3 * x + 1] << 8 | (uint32_t)row[3 * x + 2] << 16;
    case 32: return row[4 * x] | row[4 * x + 1] << 8 | (uint32_t)row[4 * x + 2] << 16 | (uint32_t)row[4 * x + 3] << 24;
    }
    return 0;
}

/* set the bits selected by `mask` of pixel x to those of v; other bits (and pixels) untouched */
static inline void c10_set_px(uint8_t *row, int bpp, int x, uint32_t v, uint32_t mask)
{
    uint32_t old = c10_get_px(row, bpp, x);
    uint32_t nv = (old & ~mask) | (v & mask);
    switch (bpp) {
    case 1:  row[x >> 3] = (uint8_t)((row[x >> 3] & ~(1u << (x & 7))) | ((nv & 1) << (x & 7))); break;
    case 4:  if (x & 1) row[x >> 1] = (uint8_t)((row[x >> 1] & 0x0f) | ((nv & 15) << 4));
             else       row[x >> 1] = (uint8_t)((row[x >> 1] & 0xf0) | (nv & 15));
             break;
    case 8:  row[x] = (uint8_t)nv; break;
    case 16: row[2 * x] = (uint8_t)nv; row[2 * x + 1] = (uint8_t)(nv >> 8); break;
    case 24: row[3 * x] = (uint8_t)nv; row[3 * x + 1] = (uint8_t)(nv >> 8); row[3 * x + 2] = (uint8_t)(nv >> 16); break;
    case 32: row[4 * x] = (uint8_t)nv; row[4 * x + 1] = (uint8_t)(nv >> 8); row[4 * x + 2] = (uint8_t)(nv >> 16); row[4 * x + 3] = (uint8_t)(nv >> 24); break;
    }
}

/* bytes needed for w pixels, rounded up to a multiple of 4 (pixman strides are in uint32_t units) */
static inline int c10_min_stride(int bpp, int w)
{
    return (int)((((int64_t)w * bpp + 31) / 32) * 4);
}

/* ---- indexed palettes (bijective on the used entries) ---- */
/* n entries; colour type: entry i has a distinct x1r5g5b5 code; gray type: distinct gray levels */
static inline uint32_t c10_pal_code15(int i, int n, int variant)
{
    /* injective for i < 256: odd multiplier modulo 2^15, two variants */
    uint32_t m = variant ? 0x2b5b : 0x0fb3;
    (void)n;
    return ((uint32_t)(i + 1) * m + (variant ? 0x1234 : 7)) & 0x7fff;
}
static inline uint32_t c10_555_to_8888(uint32_t c15)
{
    uint32_t r = (c15 >> 10) & 31, g = (c15 >> 5) & 31, b = c15 & 31;
    return 0xff000000u | c10_rescale(r, 5, 8) << 16 | c10_rescale(g, 5, 8) << 8 | c10_rescale(b, 5, 8);
}
static inline int c10_gray_level(int i, int n, int variant)
{
    /* distinct 8-bit gray levels for i < n <= 256 */
    if (n == 256) return variant ? (i * 167 + 13) & 255 : 255 - i;
    int step = 255 / (n - 1);
    return variant ? 255 - i * step : i * step;
}
static inline void c10_make_palette(pixman_indexed_t *pal, uint32_t code, int variant)
{
    c10_layout_t L; c10_layout_of(code, &L);   /* returns 0, but bpp/type are filled */
    int n = 1 << L.bpp, color = (L.type == 4);
    memset(pal, 0, sizeof *pal);
    pal->color = color;
    for (int i = 0; i < 256; i++) pal->rgba[i] = 0xff000000u;  /* unused entries */
    for (int i = 0; i < n; i++) {
        if (color) {
            uint32_t c15 = c10_pal_code15(i, n, variant);
            pal->rgba[i] = c10_555_to_8888(c15);
            pal->ent[c15] = (pixman_index_type)i;
        } else {
            int g = c10_gray_level(i, n, variant);
            pal->rgba[i] = 0xff000000u | (uint32_t)g << 16 | (uint32_t)g << 8 | (uint32_t)g;
            pal->ent[g << 7] = (pixman_index_type)i;   /* luma of a gray (g,g,g) in 15 bits = g * 128 */
        }
    }
}

/* ---- implementation configurations (README: "Switching implementations") ---- */
typedef struct pixman_implementation_t pixman_implementation_t;
extern pixman_implementation_t *global_implementation;
pixman_implementation_t *_pixman_choose_implementation(void);

static const char *const c10_cfgs[] = { "", "ssse3", "sse2 ssse3", "mmx sse2 ssse3", "fast mmx sse2 ssse3", "fast" };
static const char *const c10_cfg_names[] = { "default", "no-ssse3", "mmx+fast", "fast", "general", "simd-no-fast" };
#define C10_NCFGS 6

/* Call in the PARENT before vf_space_run(): the forked workers inherit the chain and an empty
 * per-thread fast-path cache (the parent itself never composites, except in --replay mode where only
 * one space is executed). */
/* keep freed blocks in the heap: the cases allocate and free buffers of up to a few MB at a high rate and
 * would otherwise spend most of their time in mmap/munmap page faults */
static inline void c10_tune_malloc(void)
{
    mallopt(M_MMAP_THRESHOLD, 1 << 30);
    mallopt(M_TRIM_THRESHOLD, 1 << 30);
    mallopt(M_TOP_PAD, 16 << 20);
}

static inline void c10_set_cfg(int cfg)
{
    setenv("PIXMAN_DISABLE", c10_cfgs[cfg], 1);
    fflush(stdout);
    int saved = dup(1), nul = open("/dev/null", O_WRONLY);   /* the library announces "Disabled ..." on stdout */
    if (nul >= 0) { dup2(nul, 1); close(nul); }
    global_implementation = _pixman_choose_implementation();
    fflush(stdout);
    if (saved >= 0) { dup2(saved, 1); close(saved); }
}

#endif
