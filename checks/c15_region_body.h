/* c15_region_body.h — region scenarios of C15, included twice:
 *   RB = 32 : pixman_region32_*, pixman_box32_t      RB = 16 : pixman_region_*, pixman_box16_t
 * Needs from the includer: T, V(), st(), w_open(), w_close(), expect_same(), tally macros.
 */
#if RB == 32
# define RF(n) pixman_region32_##n
# define RT pixman_region32_t
# define BT pixman_box32_t
# define RN(n) r32_##n
# define RPFX "r32"
#else
# define RF(n) pixman_region_##n
# define RT pixman_region16_t
# define BT pixman_box16_t
# define RN(n) r16_##n
# define RPFX "r16"
#endif

/* ---- builders (run outside windows; must succeed) ---- */
static void RN(build) (T *t, RT *r, const BT *b, int n)
{
    if (!RF(init_rects) (r, b, n)) V (t, "c15-harness-setup", "init_rects failed without fault during setup");
}
/* n vertical stripes [x0+4i, y0, x0+4i+2, y0+h] : one band, n rectangles */
static void RN(stripes_v) (T *t, RT *r, int n, int x0, int y0, int h)
{
    BT b[64]; for (int i = 0; i < n; i++) { b[i].x1 = x0 + 4 * i; b[i].x2 = x0 + 4 * i + 2; b[i].y1 = y0; b[i].y2 = y0 + h; }
    RN(build) (t, r, b, n);
}
/* n horizontal bars [x0, y0+4i, x0+w, y0+4i+2] : n bands of one rectangle */
static void RN(stripes_h) (T *t, RT *r, int n, int x0, int y0, int w)
{
    BT b[64]; for (int i = 0; i < n; i++) { b[i].x1 = x0; b[i].x2 = x0 + w; b[i].y1 = y0 + 4 * i; b[i].y2 = y0 + 4 * i + 2; }
    RN(build) (t, r, b, n);
}

static uint64_t RN(hash) (RT *r)
{
    int n = 0; BT *b = RF(rectangles) (r, &n);
    uint64_t h = vf_hash64 (RF(extents) (r), sizeof (BT), 17);
    return vf_hash64 (b, (size_t) n * sizeof (BT), h) ^ (uint64_t) n;
}

/* the designated broken region as seen through the public API */
static int RN(looks_broken) (T *t, RT *r, const char *what)
{
    int n = -1; (void) RF(rectangles) (r, &n);
    BT *e = RF(extents) (r);
    if (RF(n_rects) (r) != 0 || n != 0) { V (t, "c15-failed-region-has-rects", "%s: region after a failed operation reports %d/%d rectangles (want 0)", what, RF(n_rects) (r), n); return 0; }
    if (RF(not_empty) (r)) { V (t, "c15-failed-region-not-empty", "%s: not_empty() is TRUE on the region left by a failed operation", what); return 0; }
    if (!(e->x1 == e->x2 && e->y1 == e->y2)) { V (t, "c15-broken-region-extents", "%s: broken region keeps non-empty extents [%d,%d,%d,%d]", what, (int) e->x1, (int) e->y1, (int) e->x2, (int) e->y2); return 0; }
    if (RF(selfcheck) (r)) { V (t, "c15-failed-region-is-valid-empty", "%s: failed operation left a VALID empty region (selfcheck TRUE), not the broken region: the failure cannot be seen later", what); return 0; }
    return 1;
}

/* everything the statement promises about the result of a failed region operation (faults are off here) */
static void RN(check_failed) (T *t, RT *r, const char *what)
{
    char w2[96];
    if (!RN(looks_broken) (t, r, what)) return;
    RT one, tmp; BT box = { 1, 1, 9, 9 };
    RF(init_rect) (&one, 1, 1, 5, 5);
    /* later operations propagate */
    RF(init) (&tmp);
    if (RF(union) (&tmp, r, &one)) V (t, "c15-broken-not-propagated", "%s: union(tmp, BROKEN, rect) returned TRUE", what);
    snprintf (w2, sizeof w2, "%s/union-of-broken", what); RN(looks_broken) (t, &tmp, w2); RF(fini) (&tmp);
    /* ... whatever the other operand looks like: a broken region has the extents (0,0,0,0), so partners that touch or contain the
     * origin, and both operand orders, are the interesting ones for every extents-based shortcut */
    {
        static const int part[5][4] = { { 0, 0, 5, 5 }, { -3, -3, 8, 8 }, { -4, -4, 4, 4 }, { 0, 0, 1, 1 }, { -1, 0, 2, 1 } };      /* x, y, w, h */
        for (int k = 0; k < 6; k++) {
            RT p; 
            if (k < 5) RF(init_rect) (&p, part[k][0], part[k][1], (unsigned) part[k][2], (unsigned) part[k][3]);
            else { BT two[2] = { { -2, -2, 2, 0 }, { -1, 0, 3, 3 } }; RF(init_rects) (&p, two, 2); }
            for (int order = 0; order < 3; order++) {
                RT cp; RF(init) (&cp); RF(copy) (&cp, r);                 /* a second broken region (copy of broken is broken: checked below) */
                RF(init) (&tmp);
                int ret = order == 0 ? RF(union) (&tmp, &cp, &p) : order == 1 ? RF(union) (&tmp, &p, &cp) : RF(union) (&cp, &cp, &p);
                RT *res = order == 2 ? &cp : &tmp;
                if (ret) V (t, "c15-broken-not-propagated", "%s: union(%s) with partner #%d (%s the origin) returned TRUE", what, order == 0 ? "tmp, BROKEN, partner" : order == 1 ? "tmp, partner, BROKEN" : "BROKEN, BROKEN, partner (in place)", k, k < 5 ? "a rectangle touching" : "two rectangles around");
                snprintf (w2, sizeof w2, "%s/union-with-origin-partner-%d-%d", what, k, order); RN(looks_broken) (t, res, w2);
                RF(fini) (&tmp); RF(fini) (&cp);
            }
            if (k < 5) {
                RT cp; RF(init) (&cp); RF(copy) (&cp, r);
                int ret = RF(union_rect) (&cp, &cp, part[k][0], part[k][1], (unsigned) part[k][2], (unsigned) part[k][3]);
                if (ret) V (t, "c15-broken-not-propagated", "%s: union_rect(BROKEN, BROKEN, %d,%d %dx%d) returned TRUE", what, part[k][0], part[k][1], part[k][2], part[k][3]);
                snprintf (w2, sizeof w2, "%s/union_rect-at-origin-%d", what, k); RN(looks_broken) (t, &cp, w2); RF(fini) (&cp);
                RF(init) (&cp); RF(copy) (&cp, r); RF(init) (&tmp);
                ret = RF(intersect_rect) (&tmp, &cp, part[k][0], part[k][1], (unsigned) part[k][2], (unsigned) part[k][3]);
                if (ret) V (t, "c15-broken-not-propagated", "%s: intersect_rect(tmp, BROKEN, %d,%d %dx%d) returned TRUE", what, part[k][0], part[k][1], part[k][2], part[k][3]);
                snprintf (w2, sizeof w2, "%s/intersect_rect-at-origin-%d", what, k); RN(looks_broken) (t, &tmp, w2); RF(fini) (&tmp); RF(fini) (&cp);
            }
            RF(fini) (&p);
        }
    }
    RF(init_rect) (&tmp, 0, 0, 3, 3);
    if (RF(intersect) (&tmp, &one, r)) V (t, "c15-broken-not-propagated", "%s: intersect(tmp, rect, BROKEN) returned TRUE", what);
    snprintf (w2, sizeof w2, "%s/intersect-with-broken", what); RN(looks_broken) (t, &tmp, w2); RF(fini) (&tmp);
    RF(init) (&tmp);
    (void) RF(subtract) (&tmp, r, &one);          /* minuend broken: result must be broken (return value not promised) */
    snprintf (w2, sizeof w2, "%s/subtract-from-broken", what); RN(looks_broken) (t, &tmp, w2); RF(fini) (&tmp);
    RF(init) (&tmp);
    if (RF(subtract) (&tmp, &one, r)) V (t, "c15-broken-not-propagated", "%s: subtract(tmp, rect, BROKEN) returned TRUE", what);
    snprintf (w2, sizeof w2, "%s/subtract-broken", what); RN(looks_broken) (t, &tmp, w2); RF(fini) (&tmp);
    RF(init) (&tmp);
    if (RF(inverse) (&tmp, r, &box)) V (t, "c15-broken-not-propagated", "%s: inverse(tmp, BROKEN, box) returned TRUE", what);
    snprintf (w2, sizeof w2, "%s/inverse-of-broken", what); RN(looks_broken) (t, &tmp, w2); RF(fini) (&tmp);
    RF(init) (&tmp);
    (void) RF(copy) (&tmp, r);
    snprintf (w2, sizeof w2, "%s/copy-of-broken", what); RN(looks_broken) (t, &tmp, w2); RF(fini) (&tmp);
    /* harmless queries */
    (void) RF(contains_point) (r, 2, 2, &box); (void) RF(contains_rectangle) (r, &box); RF(translate) (r, 3, 3); (void) RF(equal) (r, &one);
    /* clear accepts it and yields a valid empty region */
    RF(clear) (r);
    if (!RF(selfcheck) (r) || RF(n_rects) (r) != 0) V (t, "c15-clear-after-failure", "%s: clear() on the broken region did not give the valid empty region", what);
    if (!RF(union) (r, r, &one) || RF(n_rects) (r) != 1) V (t, "c15-reuse-after-failure", "%s: union into the cleared region failed without fault", what);
    /* fini accepts a broken region: break it again through propagation, then fini, then init works */
    RF(fini) (r);
    RF(init_rect) (r, 0, 0, 4, 4);
    RF(fini) (&one);
}

/* result check for  ok = op(dst, …): success ⇒ same rectangles as the fault-free run; failure ⇒ broken region */
static int RN(result) (T *t, const char *key, int ok, int hadfault, RT *dst)
{
    st (t, key, ok, hadfault);
    if (ok) {
        uint64_t h = RN(hash) (dst);
        if (!RF(selfcheck) (dst)) V (t, "c15-region-success-malformed", "%s returned TRUE but selfcheck() of the result is FALSE", key);
        expect_same (t, key, &h, sizeof h, "rectangle list of the result");
    } else if (hadfault) {
        RN(check_failed) (t, dst, key);
    }
    return ok;
}

#define RWIN(call) do { long f0_ = w_open (); ok = (call); hf = w_close (f0_); } while (0)

/* ---- scenarios ---- */
static void RN(sc_copy) (T *t)
{
    RT a, d, d2; int ok, hf;
    RN(stripes_v) (t, &a, 5, 0, 0, 6); RF(init) (&d);
    RWIN (RF(copy) (&d, &a)); RN(result) (t, "copy(empty<-5rects)", ok, hf, &d);
    /* destination with too little room: old storage is released first, then the new one is allocated */
    RN(stripes_v) (t, &d2, 2, 0, 0, 3);
    RF(fini) (&a); RN(stripes_v) (t, &a, 9, 0, 0, 6);
    RWIN (RF(copy) (&d2, &a)); RN(result) (t, "copy(2rects<-9rects)", ok, hf, &d2);
    RF(fini) (&a); RF(fini) (&d); RF(fini) (&d2);
}

static void RN(sc_union_disjoint) (T *t)
{
    RT a, b, d; int ok, hf;
    RN(stripes_v) (t, &a, 4, 0, 0, 6); RN(stripes_v) (t, &b, 4, 1, 20, 6); RF(init) (&d);
    RWIN (RF(union) (&d, &a, &b)); RN(result) (t, "union(fresh,4v,4v-below)", ok, hf, &d);
    RF(fini) (&a); RF(fini) (&b); RF(fini) (&d);
}

static void RN(sc_union_alias) (T *t)
{
    RT a, b; int ok, hf;
    RN(stripes_v) (t, &a, 4, 0, 0, 6); RN(stripes_v) (t, &b, 4, 2, 3, 6);
    RWIN (RF(union) (&a, &a, &b)); RN(result) (t, "union(a,a,b) overlapping", ok, hf, &a);
    RF(fini) (&a); RF(fini) (&b);
    RN(stripes_v) (t, &a, 4, 0, 0, 6); RN(stripes_v) (t, &b, 6, 2, 3, 6);
    RWIN (RF(union) (&b, &a, &b)); RN(result) (t, "union(b,a,b) overlapping", ok, hf, &b);
    RF(fini) (&a); RF(fini) (&b);
}

static void RN(sc_union_small_heap_dst) (T *t)
{
    RT a, b, d; int ok, hf;
    RN(stripes_v) (t, &a, 8, 0, 0, 6); RN(stripes_v) (t, &b, 8, 2, 40, 6); RN(stripes_v) (t, &d, 2, 0, 0, 3);
    RWIN (RF(union) (&d, &a, &b)); RN(result) (t, "union(heap2,8v,8v)", ok, hf, &d);
    RF(fini) (&a); RF(fini) (&b); RF(fini) (&d);
}

static void RN(sc_union_cross) (T *t)
{
    RT a, b, d; int ok, hf; int n = t->thorough ? 12 : 6;
    RN(stripes_v) (t, &a, n, 0, 0, 4 * n); RN(stripes_h) (t, &b, n, 0, 1, 4 * n); RF(init) (&d);
    RWIN (RF(union) (&d, &a, &b)); RN(result) (t, "union(fresh,v-stripes,h-bars)", ok, hf, &d);
    RF(fini) (&a); RF(fini) (&b); RF(fini) (&d);
}

static void RN(sc_intersect_cross) (T *t)
{
    RT a, b, d; int ok, hf; int n = t->thorough ? 12 : 6;
    RN(stripes_v) (t, &a, n, 0, 0, 4 * n); RN(stripes_h) (t, &b, n, 0, 1, 4 * n); RF(init) (&d);
    RWIN (RF(intersect) (&d, &a, &b)); RN(result) (t, "intersect(fresh,v-stripes,h-bars)", ok, hf, &d);
    RF(fini) (&d);
    /* aliased destination */
    RWIN (RF(intersect) (&a, &a, &b)); RN(result) (t, "intersect(a,a,b)", ok, hf, &a);
    RF(fini) (&a); RF(fini) (&b);
}

/* the shortcuts of the set operations: one operand is a single rectangle that contains (or is contained in) the other, so the result is a plain COPY of
 * one operand - which allocates, and whose failure must come back to the caller like any other */
static void RN(sc_covering_operand) (T *t)
{
    RT a, one, d; int ok, hf; int n = t->thorough ? 12 : 6;
    RN(stripes_v) (t, &a, n, 0, 0, 4 * n);
    RF(init_rect) (&one, -5, -5, 8 * n + 40, 8 * n + 40); RF(init) (&d);
    RWIN (RF(intersect) (&d, &one, &a)); RN(result) (t, "intersect(fresh,covering-rect,v-stripes)", ok, hf, &d); RF(fini) (&d); RF(init) (&d);
    RWIN (RF(intersect) (&d, &a, &one)); RN(result) (t, "intersect(fresh,v-stripes,covering-rect)", ok, hf, &d); RF(fini) (&d); RF(init) (&d);
    RWIN (RF(union) (&d, &a, &a)); RN(result) (t, "union(fresh,v-stripes,the same)", ok, hf, &d); RF(fini) (&d); RF(init) (&d);
    { RT e; RF(init) (&e); RWIN (RF(union) (&d, &a, &e)); RN(result) (t, "union(fresh,v-stripes,empty)", ok, hf, &d); RF(fini) (&d); RF(init) (&d);
      RWIN (RF(subtract) (&d, &a, &e)); RN(result) (t, "subtract(fresh,v-stripes,empty)", ok, hf, &d); RF(fini) (&d); RF(fini) (&e); }
    RF(fini) (&a); RF(fini) (&one);
}

static void RN(sc_subtract_cross) (T *t)
{
    RT a, b, d; int ok, hf; int n = t->thorough ? 12 : 6;
    RN(stripes_h) (t, &a, n, 0, 0, 4 * n); RN(stripes_v) (t, &b, n, 1, 0, 4 * n); RF(init) (&d);
    RWIN (RF(subtract) (&d, &a, &b)); RN(result) (t, "subtract(fresh,h-bars,v-stripes)", ok, hf, &d);
    RF(fini) (&d);
    RWIN (RF(subtract) (&a, &a, &b)); RN(result) (t, "subtract(a,a,b)", ok, hf, &a);
    RF(fini) (&a); RF(fini) (&b);
}

static void RN(sc_subtract_single_minus_many) (T *t)
{
    RT a, b, d; int ok, hf;
    RF(init_rect) (&a, 0, 0, 40, 10); RN(stripes_v) (t, &b, 7, 3, 2, 4); RF(init) (&d);
    RWIN (RF(subtract) (&d, &a, &b)); RN(result) (t, "subtract(fresh,rect,7v)", ok, hf, &d);
    RF(fini) (&a); RF(fini) (&b); RF(fini) (&d);
}

static void RN(sc_inverse) (T *t)
{
    RT a, d; int ok, hf; BT box = { -2, -2, 40, 12 };
    RN(stripes_v) (t, &a, 6, 0, 0, 6); RF(init) (&d);
    RWIN (RF(inverse) (&d, &a, &box)); RN(result) (t, "inverse(fresh,6v,box)", ok, hf, &d);
    RF(fini) (&a); RF(fini) (&d);
}

static void RN(sc_rect_ops) (T *t)
{
    RT a, d; int ok, hf;
    RN(stripes_v) (t, &a, 5, 0, 0, 8); RF(init) (&d);
    RWIN (RF(union_rect) (&d, &a, 1, 3, 30, 2)); RN(result) (t, "union_rect(fresh,5v,bar)", ok, hf, &d);
    RF(fini) (&d); RF(init) (&d);
    RWIN (RF(intersect_rect) (&d, &a, 1, 1, 15, 3)); RN(result) (t, "intersect_rect(fresh,5v,box)", ok, hf, &d);
    RF(fini) (&d);
    RWIN (RF(union_rect) (&a, &a, 1, 3, 30, 2)); RN(result) (t, "union_rect(a,a,bar)", ok, hf, &a);
    RF(fini) (&a);
}

static void RN(sc_init_rects_banded) (T *t)
{
    /* already y-x banded input: validate() keeps one region, one allocation */
    RT d; int ok, hf; BT b[4] = { { 0, 0, 2, 2 }, { 4, 0, 6, 2 }, { 0, 4, 6, 6 }, { 1, 8, 3, 9 } };
    RWIN (RF(init_rects) (&d, b, 4)); RN(result) (t, "init_rects(4 banded)", ok, hf, &d);
    RF(fini) (&d);
}

static void RN(sc_init_rects_overlap) (T *t)
{
    /* boxes overlapping in y force new sub-regions (pixman_rect_alloc on data == NULL) and unions */
    RT d; int ok, hf; BT b[6] = { { 0, 0, 4, 6 }, { 6, 2, 10, 8 }, { 12, 4, 16, 10 }, { 2, 5, 8, 12 }, { 18, 0, 20, 3 }, { 1, 11, 30, 12 } };
    RWIN (RF(init_rects) (&d, b, 6)); RN(result) (t, "init_rects(6 overlapping)", ok, hf, &d);
    RF(fini) (&d);
}

static void RN(sc_init_rects_append) (T *t)
{
    /* one tall box, then many boxes of a single later band: the second sub-region outgrows its
     * first allocation and is extended by realloc (RECTALLOC_BAIL with n == 1) */
    RT d; int ok, hf; BT b[40]; int n = 0;
    b[n].x1 = 0; b[n].y1 = 0; b[n].x2 = 1; b[n].y2 = 100; n++;
    for (int i = 0; i < 30; i++, n++) { b[n].x1 = 10 + 3 * i; b[n].x2 = 12 + 3 * i; b[n].y1 = 1; b[n].y2 = 2; }
    for (int i = 0; i < 6; i++, n++) { b[n].x1 = 10 + 3 * i; b[n].x2 = 12 + 3 * i; b[n].y1 = 3; b[n].y2 = 5; }
    RWIN (RF(init_rects) (&d, b, n)); RN(result) (t, "init_rects(tall+37 in two bands)", ok, hf, &d);
    RF(fini) (&d);
}

static void RN(sc_init_rects_scattered) (T *t)
{
    /* > 64 (thorough: > 128) boxes none of which fits an existing sub-region: region_info array
     * leaves the stack (malloc) and is doubled again (realloc); then ~n unions */
    RT d; int ok, hf; int n = t->thorough ? 260 : 140; BT *b = malloc (sizeof (BT) * (size_t) n);
    /* identical x ranges keep the union small (one rectangle per band) although all boxes overlap in y */
    for (int i = 0; i < n; i++) { b[i].x1 = 0; b[i].x2 = 1 + i % 3; b[i].y1 = i; b[i].y2 = i + 1000; }
    RWIN (RF(init_rects) (&d, b, n)); RN(result) (t, "init_rects(scattered, staggered)", ok, hf, &d);
    RF(fini) (&d); free (b);
}

static void RN(sc_intersect_downsize) (T *t)
{
    /* result much smaller than the first guess (2 x 30 rectangles): pixman_op ends with DOWNSIZE, whose
     * realloc may fail without harm — the operation must then still succeed with the right rectangles */
    RT a, b, d; int ok, hf; BT bb[2] = { { 0, 1, 3, 3 }, { 40, 4, 47, 5 } };
    RN(stripes_v) (t, &a, 30, 0, 0, 8); RN(build) (t, &b, bb, 2); RF(init) (&d);
    RWIN (RF(intersect) (&d, &a, &b)); RN(result) (t, "intersect(fresh,30v,2 boxes)", ok, hf, &d);
    RF(fini) (&d);
    RWIN (RF(subtract) (&a, &a, &a)); RN(result) (t, "subtract(a,a,a)", ok, hf, &a);
    RF(fini) (&a); RF(fini) (&b);
}

static void RN(sc_init_from_image) (T *t)
{
    /* a1 bitmap with a changing pattern per row: the rectangle array grows 1,2,4,… by realloc */
    enum { W = 40, H = 6 };
    uint32_t bits[2 * H]; memset (bits, 0, sizeof bits);
    for (int y = 0; y < H; y++) for (int x = 0; x < W; x++) if (((x / (1 + y % 3)) + y) & 1) bits[y * 2 + x / 32] |= 1u << (x & 31);
    pixman_image_t *img = pixman_image_create_bits (PIXMAN_a1, W, H, bits, 8);
    if (!img) { V (t, "c15-harness-setup", "a1 image"); return; }
    RT d; long f0 = w_open (); RF(init_from_image) (&d, img); int hf = w_close (f0);
    /* void function: a failure can only be seen as the broken region */
    int n = RF(n_rects) (&d);
    int ok = !(hf && n == 0);
    if (hf && n != 0 && !RF(selfcheck) (&d)) ok = 0;
    RN(result) (t, "init_from_image(a1 40x6)", ok, hf, &d);
    RF(fini) (&d); pixman_image_unref (img);
}

#undef RWIN
#undef RF
#undef RT
#undef BT
#undef RN
#undef RPFX
