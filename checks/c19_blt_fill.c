/* C19 — pixman_fill / pixman_blt affect exactly the rectangle; pixman_image_fill_boxes /
 * pixman_image_fill_rectangles equal compositing a solid image over each box.
 *
 * Engine E1.  Oracles:
 *   fill / blt   byte-level model written here (c10_codec.h pixel addressing): return TRUE => the whole
 *                allocation equals "initial with exactly the rectangle set / copied"; FALSE => the whole
 *                allocation is unchanged.  The source of a blt is never modified.
 *   fill_boxes   (a) differential: same request performed by pixman_image_composite32 (op, solid(colour),
 *                NULL, dest', 0,0,0,0, box) per box, on an identical destination with the same clip;
 *                compared on the defined bits of every pixel of  S = union(boxes) /\ clip /\ bounds;
 *                (b) geometric model: every bit outside S — other pixels, row padding, guard rows before and
 *                after the image — is unchanged.  The destination lives inside guard rows so that the
 *                out-of-bounds write of the direct-fill shortcut (finding 4) is observed, not a crash.
 * All under the implementation chains PIXMAN_DISABLE = "", "ssse3", "sse2 ssse3", "mmx sse2 ssse3",
 * "fast mmx sse2 ssse3" and "fast" (SIMD fills without the C fast path, which alone fills 1 bpp).
 */
#include "vf.h"
#include <stddef.h>
#include "c10_codec.h"

typedef struct {
    volatile uint64_t fill_true[C10_NCFGS][8], fill_false[C10_NCFGS][8];   /* by bpp class */
    volatile uint64_t blt_true[C10_NCFGS][12], blt_false[C10_NCFGS][12];   /* by bpp pair */
    volatile uint64_t boxes_changed, boxes_unchanged, boxes_calls, oracle_composites;
} stats_t;
static stats_t *st;
#define ST_ADD(f, n) __atomic_add_fetch(&st->f, (uint64_t)(n), __ATOMIC_RELAXED)

static const int BPPS[6] = { 1, 4, 8, 16, 24, 32 };
static int bpp_class(int bpp) { for (int i = 0; i < 6; i++) if (BPPS[i] == bpp) return i; return 7; }

#define GUARD 128

static uint8_t *aligned_buf(size_t n)
{
    void *p = NULL;
    if (posix_memalign(&p, 64, n + 64)) { perror("posix_memalign"); _exit(3); }
    return p;
}
static inline uint8_t bgbyte(size_t i, int salt) { return (uint8_t)(i * 29u + 7u + (unsigned)salt * 101u); }

static long first_diff(const uint8_t *a, const uint8_t *b, size_t n)
{
    for (size_t i = 0; i < n; i++) if (a[i] != b[i]) return (long)i;
    return -1;
}

/* ======================================================================== pixman_fill */
typedef struct {
    int cfg;
    int nseg; struct { int bpp, nx, nw; uint64_t base, size; } seg[6];
    uint64_t total;
} fill_ctx;
/* per (bpp,x,w): h {1,2} x stride {min,+1 word,+3 words} x start alignment {0,4,8,12} x y {0,1} */
#define FILL_INNER (2 * 3 * 4 * 2)

static void fill_ctx_init(fill_ctx *c, int cfg, int thorough)
{
    memset(c, 0, sizeof *c); c->cfg = cfg;
    for (int i = 0; i < 6; i++) {
        int bpp = BPPS[i], nx, nw;
        if (bpp == 4 || bpp == 24) { nx = 9; nw = 41; }                   /* no implementation supports these: FALSE expected, nothing may change */
        else if (bpp == 1) { nx = 41; nw = thorough ? 301 : 141; }
        else { nx = thorough ? 41 : 21; nw = (thorough ? 300 : 140) * 8 / bpp + 1; }   /* widths up to 300 (140) bytes */
        c->seg[i].bpp = bpp; c->seg[i].nx = nx; c->seg[i].nw = nw;
        c->seg[i].base = c->total; c->seg[i].size = (uint64_t)nx * nw * FILL_INNER; c->total += c->seg[i].size;
    }
    c->nseg = 6;
}

/* one pixman_fill call against the byte model; returns 1 if the library returned TRUE */
static int fill_once(int cfg, int bpp, int x, int y, int w, int h, int stride_words, int align, uint32_t filler, int salt, uint64_t *outcome)
{
    int rows = y + h + 1;
    size_t body = (size_t)rows * (size_t)stride_words * 4, size = GUARD + (size_t)align + body + GUARD;
    uint8_t *buf = aligned_buf(size), *exp = aligned_buf(size);
    for (size_t i = 0; i < size; i++) buf[i] = bgbyte(i, salt);
    memcpy(exp, buf, size);
    uint8_t *bits = buf + GUARD + align, *ebits = exp + GUARD + align;
    pixman_bool_t ret = pixman_fill((uint32_t *)bits, stride_words, bpp, x, y, w, h, filler);
    vf_count_libcalls(1);
    uint32_t pmask = bpp >= 32 ? 0xffffffffu : (1u << bpp) - 1;
    if (ret)
        for (int r = y; r < y + h; r++)
            for (int px = x; px < x + w; px++) c10_set_px(ebits + (size_t)r * stride_words * 4, bpp, px, filler & pmask, pmask);
    long off = first_diff(buf, exp, size);
    if (off >= 0) {
        long rel = off - GUARD - align; char key[64];
        long row = rel >= 0 ? rel / (stride_words * 4) : -1, col = rel >= 0 ? rel % (stride_words * 4) : rel;
        snprintf(key, sizeof key, ret ? "c19-fill-wrong-bpp%d" : "c19-fill-false-but-modified-bpp%d", bpp);
        vf_violation(key, "pixman_fill(bits(16-byte phase %d), stride=%d words, bpp=%d, x=%d, y=%d, w=%d, h=%d, filler=%#x) chain=%s returned %d: byte at row %ld, "
                     "byte column %ld is %#04x, expected %#04x (%s)", align, stride_words, bpp, x, y, w, h, filler, c10_cfg_names[cfg], ret, row, col,
                     buf[off], exp[off], ret ? "model: exactly the rectangle's pixels are set to the low bpp bits of the filler" : "FALSE must leave everything unchanged");
    }
    if (outcome) *outcome = vf_mix(vf_hash64(buf + GUARD + align, body, (uint64_t)bpp), (uint64_t)ret);
    if (!vf_in_confirm) { if (ret) ST_ADD(fill_true[cfg][bpp_class(bpp)], 1); else ST_ADD(fill_false[cfg][bpp_class(bpp)], 1); }
    free(buf); free(exp);
    return ret;
}

static void fill_case(uint64_t idx, void *vctx)
{
    const fill_ctx *c = vctx;
    int s = 0; while (s + 1 < c->nseg && idx >= c->seg[s + 1].base) s++;
    uint64_t k = idx - c->seg[s].base;
    int dims[6] = { 2, 3, 4, 2, c->seg[s].nw, c->seg[s].nx }, dg[6]; vf_decode(k, dims, 6, dg);
    int bpp = c->seg[s].bpp, h = 1 + dg[0], align = 4 * dg[2], y = dg[3], w = dg[4], x = dg[5];
    int min_words = (int)(((int64_t)(x + w) * bpp + 31) / 32); if (min_words < 1) min_words = 1;
    int stride_words = min_words + (dg[1] == 0 ? 0 : dg[1] == 1 ? 1 : 3);
    static const uint32_t F1 = 0xc3a55a3du;       /* odd: sets 1-bpp pixels; its complement clears them */
    uint64_t o1 = 0, o2 = 0;
    int r1 = fill_once(c->cfg, bpp, x, y, w, h, stride_words, align, F1, 0, &o1);
    if (vf_failed()) return;
    int r2 = fill_once(c->cfg, bpp, x, y, w, h, stride_words, align, ~F1, 1, &o2);
    vf_count_eval(2);
    if (w > 0) vf_count_nontrivial((uint64_t)(r1 != 0) + (uint64_t)(r2 != 0));
    vf_outcome(vf_mix(o1, o2));
    if (!vf_in_confirm && bpp == 16 && x == 3 && w == 37 && dg[0] == 1 && dg[1] == 1 && dg[2] == 1 && dg[3] == 1 && vf_want_sample())
        vf_sample("pixman_fill bpp=16 x=3 y=1 w=37 h=2 stride=min+1 word, start phase 4, chain=%s: returned %d, buffer == byte model (rectangle set, all else unchanged)", c10_cfg_names[c->cfg], r1);
}

/* all fillers on a few geometries */
typedef struct { int cfg; } filler_ctx;
static const struct { int x, w; } FGEO[6] = { {0, 1}, {1, 3}, {3, 17}, {0, 40}, {5, 70}, {2, 0} };
#define N_FILLER_CASES (256 + 65536 + 4096 + 4)
static void filler_case(uint64_t idx, void *vctx)
{
    const filler_ctx *c = vctx;
    int bpp; uint32_t filler;
    static const uint8_t B8[8] = { 0x00, 0x01, 0x7f, 0x80, 0xfe, 0xff, 0x5a, 0xa5 };
    if (idx < 256) { bpp = 8; filler = (uint32_t)idx | 0xabcdef00u; }
    else if (idx < 256 + 65536) { bpp = 16; filler = (uint32_t)(idx - 256) | 0x5a5a0000u; }
    else if (idx < 256 + 65536 + 4096) { uint32_t k = (uint32_t)(idx - 256 - 65536); bpp = 32; filler = (uint32_t)B8[k & 7] | (uint32_t)B8[(k >> 3) & 7] << 8 | (uint32_t)B8[(k >> 6) & 7] << 16 | (uint32_t)B8[(k >> 9) & 7] << 24; }
    else { bpp = 1; filler = (uint32_t)(idx - 256 - 65536 - 4096) * 0x7fffffffu; }   /* 0, 0x7fffffff, 0xfffffffe, 0x7ffffffd */
    uint64_t o = 0, acc = 0; int any = 0;
    int ngeo = bpp == 16 ? 3 : 6;
    for (int g = 0; g < ngeo && !vf_failed(); g++) {
        int x = FGEO[g].x, w = FGEO[g].w;
        int min_words = (int)(((int64_t)(x + w) * bpp + 31) / 32); if (min_words < 1) min_words = 1;
        any |= fill_once(c->cfg, bpp, x, 1, w, 2, min_words + 1, (g & 3) * 4, filler, g, &o);
        acc = vf_mix(acc, o);
    }
    vf_count_eval((uint64_t)ngeo); if (any) vf_count_nontrivial((uint64_t)ngeo - (ngeo == 6));
    vf_outcome(acc);
}

/* ======================================================================== pixman_blt */
static const struct { int s, d; } BLTPAIR[10] = { {8, 8}, {16, 16}, {32, 32}, {1, 1}, {4, 4}, {24, 24}, {16, 32}, {32, 16}, {8, 32}, {32, 8} };
typedef struct {
    int cfg;
    struct { int nsx, ndx, nw; uint64_t base, size; } seg[10];
    uint64_t total;
} blt_ctx;
/* per (pair, sx, dx, w): h {1,2} x strides {min/min, +1/+2} x dst phase {0,4,8,12} (src phase derived) x (sy,dy) {(0,1),(1,0)} */
#define BLT_INNER (2 * 2 * 4 * 2)
static void blt_ctx_init(blt_ctx *c, int cfg, int thorough)
{
    memset(c, 0, sizeof *c); c->cfg = cfg;
    for (int i = 0; i < 10; i++) {
        int sb = BLTPAIR[i].s, db = BLTPAIR[i].d, nsx, ndx, nw;
        if (sb == db && (sb == 16 || sb == 32)) { nsx = thorough ? 9 : 5; ndx = thorough ? 9 : 6; nw = (thorough ? 300 : 140) * 8 / sb + 1; }
        else { nsx = 3; ndx = 3; nw = 12; }
        c->seg[i].nsx = nsx; c->seg[i].ndx = ndx; c->seg[i].nw = nw;
        c->seg[i].base = c->total; c->seg[i].size = (uint64_t)nsx * ndx * nw * BLT_INNER; c->total += c->seg[i].size;
    }
}
static void blt_case(uint64_t idx, void *vctx)
{
    const blt_ctx *c = vctx;
    int s = 0; while (s + 1 < 10 && idx >= c->seg[s + 1].base) s++;
    uint64_t k = idx - c->seg[s].base;
    int dims[7] = { 2, 2, 4, 2, c->seg[s].nw, c->seg[s].ndx, c->seg[s].nsx }, dg[7]; vf_decode(k, dims, 7, dg);
    int sb = BLTPAIR[s].s, db = BLTPAIR[s].d;
    int h = 1 + dg[0], w = dg[4], dx = dg[5], sx = dg[6], dphase = 4 * dg[2], sphase = (dphase * 3 + 4) % 16;
    int sy = dg[3] ? 1 : 0, dy = dg[3] ? 0 : 1;
    int smin = (int)(((int64_t)(sx + w) * sb + 31) / 32), dmin = (int)(((int64_t)(dx + w) * db + 31) / 32);
    if (smin < 1) smin = 1; if (dmin < 1) dmin = 1;
    int sstride = smin + (dg[1] ? 1 : 0), dstride = dmin + (dg[1] ? 2 : 0);
    int srows = sy + h + 1, drows = dy + h + 1;
    size_t ssize = GUARD + (size_t)sphase + (size_t)srows * sstride * 4 + GUARD, dsize = GUARD + (size_t)dphase + (size_t)drows * dstride * 4 + GUARD;
    uint8_t *sbuf = aligned_buf(ssize), *sexp = aligned_buf(ssize), *dbuf = aligned_buf(dsize), *dexp = aligned_buf(dsize);
    for (size_t i = 0; i < ssize; i++) sbuf[i] = (uint8_t)(vf_mix(i, 77) >> 24);
    for (size_t i = 0; i < dsize; i++) dbuf[i] = bgbyte(i, 3);
    memcpy(sexp, sbuf, ssize); memcpy(dexp, dbuf, dsize);
    uint8_t *sbits = sbuf + GUARD + sphase, *dbits = dbuf + GUARD + dphase, *debits = dexp + GUARD + dphase;
    pixman_bool_t ret = pixman_blt((uint32_t *)sbits, (uint32_t *)dbits, sstride, dstride, sb, db, sx, sy, dx, dy, w, h);
    vf_count_libcalls(1);
    char desc[400];
    snprintf(desc, sizeof desc, "pixman_blt(src phase %d stride %d words bpp %d, dst phase %d stride %d words bpp %d, src (%d,%d) -> dst (%d,%d), %dx%d) chain=%s returned %d",
             sphase, sstride, sb, dphase, dstride, db, sx, sy, dx, dy, w, h, c10_cfg_names[c->cfg], ret);
    if (ret && sb != db) {
        vf_violation("c19-blt-unequal-bpp-accepted", "%s: TRUE for unequal depths, for which 'copy the rectangle' has no meaning", desc);
    } else {
        if (ret) {
            uint32_t pmask = db >= 32 ? 0xffffffffu : (1u << db) - 1;
            for (int r = 0; r < h; r++)
                for (int i = 0; i < w; i++)
                    c10_set_px(debits + (size_t)(dy + r) * dstride * 4, db, dx + i, c10_get_px(sbits + (size_t)(sy + r) * sstride * 4, sb, sx + i), pmask);
        }
        long off = first_diff(dbuf, dexp, dsize);
        if (off >= 0) {
            long rel = off - GUARD - dphase; char key[64];
            snprintf(key, sizeof key, ret ? "c19-blt-wrong-bpp%d" : "c19-blt-false-but-modified-bpp%d", db);
            vf_violation(key, "%s: destination byte at row %ld, byte column %ld is %#04x, expected %#04x (%s)", desc, rel >= 0 ? rel / (dstride * 4) : -1,
                         rel >= 0 ? rel % (dstride * 4) : rel, dbuf[off], dexp[off], ret ? "model: exactly the rectangle is copied" : "FALSE must leave everything unchanged");
        } else if ((off = first_diff(sbuf, sexp, ssize)) >= 0) {
            vf_violation("c19-blt-source-modified", "%s: source byte %ld changed from %#04x to %#04x", desc, off, sexp[off], sbuf[off]);
        }
    }
    vf_count_eval(1); if (ret && w > 0) vf_count_nontrivial(1);
    vf_outcome(vf_mix(vf_hash64(dbits, (size_t)drows * dstride * 4, (uint64_t)db), (uint64_t)ret + 2 * (uint64_t)s));
    if (!vf_in_confirm) {
        if (ret) ST_ADD(blt_true[c->cfg][s], 1); else ST_ADD(blt_false[c->cfg][s], 1);
        if (s == 1 && sx == 2 && dx == 3 && w == 41 && dg[0] == 1 && dg[1] == 1 && dg[2] == 2 && dg[3] == 0 && vf_want_sample())
            vf_sample("%s: destination == byte model (rectangle copied, all else unchanged), source untouched", desc);
    }
    free(sbuf); free(sexp); free(dbuf); free(dexp);
}

/* ---- blts inside ONE buffer whose source and destination rectangles start at the same byte but have different strides: row 0 is copied onto
 * itself, every further row is distinct memory (packing a padded two-row image in place: strides 2S -> S; mirroring rows around one row: S -> -S).
 * No destination row overlaps any other source row, so "copies exactly the rectangle" has one meaning. */
static void blt_inplace_case(uint64_t idx, void *vctx)
{
    const blt_ctx *c = vctx;
    static const int BP[3] = { 8, 16, 32 }, WS_[5] = { 1, 5, 16, 34, 67 }, XS_[2] = { 0, 3 }, HS_[3] = { 2, 3, 6 };
    int dims[5] = { 3, 5, 2, 2, 3 }, d[5]; vf_decode(idx, dims, 5, d);
    int bpp = BP[d[0]], w = WS_[d[1]], x = XS_[d[2]], kind = d[3], h = kind == 0 ? 2 : HS_[d[4]];
    if (kind == 0 && d[4]) return;
    int S = ((x + w) * bpp + 31) / 32 + 1;                       /* words per row, one spare */
    int rows = 2 * 6 + 3; size_t size = (size_t)rows * S * 4 * 2;
    uint8_t *buf = aligned_buf(size), *exp = aligned_buf(size);
    for (size_t i = 0; i < size; i++) buf[i] = exp[i] = (uint8_t)(vf_mix(i, 91) >> 21);
    size_t base = kind == 0 ? (size_t)S * 4 : (size_t)7 * S * 4;   /* pack: starts at row 1; mirror: around row 7 */
    int sstride = kind == 0 ? 2 * S : S, dstride = kind == 0 ? S : -S;
    pixman_bool_t ret = pixman_blt((uint32_t *)(buf + base), (uint32_t *)(buf + base), sstride, dstride, bpp, bpp, x, 0, x, 0, w, h);
    vf_count_libcalls(1);
    if (ret) for (int r = 0; r < h; r++) memmove(exp + base + (ptrdiff_t)r * dstride * 4 + (size_t)x * bpp / 8, exp + base + (ptrdiff_t)r * sstride * 4 + (size_t)x * bpp / 8, (size_t)w * bpp / 8);
    long off = first_diff(buf, exp, size);
    if (off >= 0)
        vf_violation(ret ? "c19-blt-in-place-wrong" : "c19-blt-false-but-modified", "pixman_blt(src = dst = one buffer at byte %zu, src stride %d words, dst stride %d words, bpp %d, (%d,0) -> (%d,0), %dx%d: %s) chain=%s returned %d: "
                     "byte %ld is %#04x, expected %#04x", base, sstride, dstride, bpp, x, x, w, h, kind ? "rows mirrored around the first row" : "a padded two-row image packed in place", c10_cfg_names[c->cfg], ret, off, buf[off], exp[off]);
    vf_count_eval(1); if (ret) vf_count_nontrivial(1);
    vf_outcome(vf_mix(vf_hash64(buf, size, (uint64_t)bpp), idx));
    free(buf); free(exp);
}

/* ======================================================================== fill_boxes / fill_rectangles */
#define IW 11
#define IH 6
#define GROWS 4             /* guard rows before and after the image */

typedef struct { int n; pixman_box32_t b[40]; int oob; const char *name; } boxset_t;
static const boxset_t BOXSETS[] = {
    { 0, { {0, 0, 0, 0} }, 0, "no boxes" },
    { 1, { {2, 1, 7, 4} }, 0, "one inside" },
    { 1, { {0, 0, IW, IH} }, 0, "whole image" },
    { 2, { {1, 0, 6, 3}, {4, 2, 10, 5} }, 0, "two overlapping" },
    { 2, { {0, 0, 3, 2}, {8, 4, IW, IH} }, 0, "two disjoint corners" },
    { 7, { {0, 0, 2, 1}, {3, 0, 5, 2}, {6, 1, 7, 3}, {8, 0, IW, 1}, {1, 3, 4, IH}, {5, 4, 9, 5}, {10, 2, IW, IH} }, 0, "seven boxes" },
    { 3, { {3, 3, 3, 5}, {6, 2, 4, 4}, {1, 1, 2, 2} }, 0, "empty + inverted + one pixel" },
    { 2, { {10, 5, IW, IH}, {0, 2, IW, 3} }, 0, "last pixel + one row" },
    /* more boxes than any on-stack conversion buffer of the entry points holds */
    { 17, { {0, 0, 1, 1}, {5, 0, 6, 1}, {10, 0, 11, 1}, {4, 1, 5, 2}, {9, 1, 10, 2}, {3, 2, 4, 3}, {8, 2, 9, 3}, {2, 3, 3, 4}, {7, 3, 8, 4}, {1, 4, 2, 5}, {6, 4, 7, 5}, {0, 5, 1, 6}, {5, 5, 6, 6}, {10, 5, 11, 6}, {4, 0, 5, 1}, {9, 0, 10, 1}, {3, 1, 4, 2} }, 0, "17 single pixels" },
    { 40, { {0, 0, 2, 1}, {7, 0, 9, 1}, {3, 1, 5, 2}, {10, 1, 11, 2}, {6, 2, 8, 3}, {2, 3, 4, 4}, {9, 3, 11, 4}, {5, 4, 7, 5}, {1, 5, 3, 6}, {8, 5, 10, 6}, {4, 0, 6, 1}, {0, 1, 2, 2}, {7, 1, 9, 2}, {3, 2, 5, 3}, {10, 2, 11, 3}, {6, 3, 8, 4}, {2, 4, 4, 5}, {9, 4, 11, 5}, {5, 5, 7, 6}, {1, 0, 3, 1}, {8, 0, 10, 1}, {4, 1, 6, 2}, {0, 2, 2, 3}, {7, 2, 9, 3}, {3, 3, 5, 4}, {10, 3, 11, 4}, {6, 4, 8, 5}, {2, 5, 4, 6}, {9, 5, 11, 6}, {5, 0, 7, 1}, {1, 1, 3, 2}, {8, 1, 10, 2}, {4, 2, 6, 3}, {0, 3, 2, 4}, {7, 3, 9, 4}, {3, 4, 5, 5}, {10, 4, 11, 5}, {6, 5, 8, 6}, {2, 0, 4, 1}, {9, 0, 11, 1} }, 0, "40 two-pixel boxes (overlapping)" },
    { 1, { {-2, 1, 3, 3} }, 1, "hangs over the left edge" },
    { 1, { {8, 4, 13, 8} }, 1, "hangs over right and bottom" },
    { 1, { {3, -2, 6, 2} }, 1, "hangs over the top" },
    { 1, { {-3, -2, 14, 8} }, 1, "covers more than the image" },
};
#define NBOXSETS ((int)(sizeof BOXSETS / sizeof BOXSETS[0]))
#define NBOXSETS_INBOUNDS 10

typedef struct { int n; pixman_box32_t b[2]; int set; const char *name; } clipdef_t;
static const clipdef_t CLIPS[] = {
    { 0, { {0, 0, 0, 0} }, 0, "no clip" },
    { 1, { {1, 1, 8, 5} }, 1, "one rectangle" },
    { 2, { {0, 0, 4, 3}, {5, 2, IW, IH} }, 1, "two rectangles" },
    { 0, { {0, 0, 0, 0} }, 1, "empty clip region" },
    { 1, { {-5, -5, 30, 30} }, 1, "clip larger than the image" },
};
#define NCLIPS ((int)(sizeof CLIPS / sizeof CLIPS[0]))

/* destination formats: index into c10_formats, or -1 / -2 for rgba_float / rgb_float */
#define NDEST 45
static void dest_info(int di, pixman_format_code_t *code, const char **name, int *bpp, uint32_t *dmask, int *is_float)
{
    *is_float = 0;
    if (di < 43) {
        const c10_fmt_t *F = &c10_formats[di]; c10_layout_t L; int ok = c10_layout_of(F->code, &L);
        *code = F->code; *name = F->name; *bpp = L.bpp; *dmask = ok ? L.dmask : L.pmask;   /* indexed: every bit of the index is defined */
    } else if (di == 43) { *code = PIXMAN_rgba_float; *name = "rgba_float"; *bpp = 128; *dmask = 0xffffffffu; *is_float = 1; }
    else { *code = PIXMAN_rgb_float; *name = "rgb_float"; *bpp = 96; *dmask = 0xffffffffu; *is_float = 1; }
}

static const int ALL_OPS[] = {
    0x00, 0x01, 0x02, 0x03, 0x04, 0x05, 0x06, 0x07, 0x08, 0x09, 0x0a, 0x0b, 0x0c, 0x0d,
    0x10, 0x11, 0x12, 0x13, 0x14, 0x15, 0x16, 0x17, 0x18, 0x19, 0x1a, 0x1b,
    0x20, 0x21, 0x22, 0x23, 0x24, 0x25, 0x26, 0x27, 0x28, 0x29, 0x2a, 0x2b,
    0x30, 0x31, 0x32, 0x33, 0x34, 0x35, 0x36, 0x37, 0x38, 0x39, 0x3a, 0x3b, 0x3c, 0x3d, 0x3e };
#define NOPS ((int)(sizeof ALL_OPS / sizeof ALL_OPS[0]))

typedef struct {
    uint8_t *alloc; size_t size; uint8_t *bits; int stride;   /* stride in bytes */
    pixman_image_t *im;
    int acc;                                  /* storage reachable only through scrambling read/write callbacks */
    pixman_image_t *amap; uint8_t *amap_buf;  /* optional a8 alpha map (IW x IH, stride AM_STRIDE, with guard rows) */
} dimg;
#define AM_STRIDE 16
#define AM_SIZE (AM_STRIDE * (IH + 2 * GROWS))

static uint64_t acc_reads, acc_writes;
static uint32_t acc_read(const void *p, int size)
{
    uint32_t v = 0; acc_reads++;
    memcpy(&v, p, (size_t)size); v ^= 0x5a5a5a5au;
    return size >= 4 ? v : v & ((1u << (8 * size)) - 1);
}
static void acc_write(void *p, uint32_t v, int size) { acc_writes++; v ^= 0x5a5a5a5au; memcpy(p, &v, (size_t)size); }
static void dimg_scramble(dimg *d) { for (size_t i = 0; i < d->size; i++) d->alloc[i] ^= 0x5a; }

static void dimg_make(dimg *d, pixman_format_code_t code, int bpp, const pixman_indexed_t *pal, const clipdef_t *clip)
{
    d->acc = 0; d->amap = NULL; d->amap_buf = NULL;
    d->stride = c10_min_stride(bpp, IW) + (bpp == 128 ? 16 : 4);
    d->size = (size_t)d->stride * (IH + 2 * GROWS);
    d->alloc = aligned_buf(d->size);
    d->bits = d->alloc + (size_t)d->stride * GROWS;
    d->im = pixman_image_create_bits(code, IW, IH, (uint32_t *)d->bits, d->stride);
    if (!d->im) { fprintf(stderr, "create_bits failed %08x\n", (unsigned)code); _exit(3); }
    if (pal) pixman_image_set_indexed(d->im, pal);
    if (clip->set) {
        pixman_region32_t r;
        pixman_region32_init_rects(&r, clip->b, clip->n);
        pixman_image_set_clip_region32(d->im, &r);
        pixman_region32_fini(&r);
    }
}
static void dimg_wrap(dimg *d, int wrap, int used_before)      /* 1: accessors, 2: alpha map; used_before: the image has already been a (plain) destination */
{
    if (used_before) {
        /* a request that validates the destination and writes nothing: what the library derived from the plain image must not be trusted later */
        uint32_t one = 0; pixman_image_t *scratch = pixman_image_create_bits(PIXMAN_a8r8g8b8, 1, 1, &one, 4);
        pixman_image_composite32(PIXMAN_OP_DST, scratch, NULL, d->im, 0, 0, 0, 0, 0, 0, 1, 1);
        pixman_image_unref(scratch);
    }
    if (wrap == 1) { d->acc = 1; pixman_image_set_accessors(d->im, acc_read, acc_write); }
    if (wrap == 2) {
        d->amap_buf = aligned_buf(AM_SIZE);
        d->amap = pixman_image_create_bits(PIXMAN_a8, IW, IH, (uint32_t *)(d->amap_buf + AM_STRIDE * GROWS), AM_STRIDE);
        pixman_image_set_alpha_map(d->im, d->amap, 0, 0);
    }
}
static void dimg_free(dimg *d) { pixman_image_unref(d->im); if (d->amap) pixman_image_unref(d->amap); free(d->amap_buf); free(d->alloc); }

/* initial destination contents: deterministic, every pixel different; floats are sane values in [0,1] */
static void fill_initial(uint8_t *init, size_t size, int stride, int bpp, int is_float)
{
    for (size_t i = 0; i < size; i++) init[i] = (uint8_t)(vf_mix(i, 19) >> 13);
    if (is_float) {
        int nc = bpp / 32;
        for (int y = 0; y < IH; y++) {
            float *row = (float *)(init + (size_t)stride * (GROWS + y));
            for (int i = 0; i < IW * nc; i++) row[i] = (float)((vf_mix((uint64_t)y, (uint64_t)i) >> 9) & 255) / 255.0f;
        }
    }
}

static inline int in_box(const pixman_box32_t *b, int x, int y) { return x >= b->x1 && x < b->x2 && y >= b->y1 && y < b->y2; }

/* are the bits of pixel x (bpp bits each) equal in rows a and b under a 32-bit mask repeated per 32-bit unit? */
static int px_equal(const uint8_t *a, const uint8_t *b, int bpp, int x, uint32_t mask)
{
    if (bpp <= 32) return ((c10_get_px(a, bpp, x) ^ c10_get_px(b, bpp, x)) & mask) == 0;
    return memcmp(a + (size_t)x * bpp / 8, b + (size_t)x * bpp / 8, (size_t)bpp / 8) == 0;
}

typedef struct {
    int cfg;
    int ncolors; pixman_color_t colors[64];
    int nboxsets;
    pixman_indexed_t pal[5];
} boxes_ctx;

/* One request (op, dest format, box set, clip, api, colour) against the two oracles.  `init` is the initial
 * allocation image; lib / ora are two identical destinations.  Returns 1 if the oracle changed something. */
static int boxes_once(const boxes_ctx *c, int op, int di, const boxset_t *bs, const clipdef_t *clip, int api, const pixman_color_t *color,
                      dimg *lib, dimg *ora, const uint8_t *init, uint64_t *outcome)
{
    pixman_format_code_t code; const char *fname; int bpp, is_float; uint32_t dmask;
    dest_info(di, &code, &fname, &bpp, &dmask, &is_float);
    memcpy(lib->alloc, init, lib->size); memcpy(ora->alloc, init, ora->size);
    if (lib->acc) { dimg_scramble(lib); dimg_scramble(ora); }
    if (lib->amap) for (int i = 0; i < AM_SIZE; i++) lib->amap_buf[i] = ora->amap_buf[i] = (uint8_t)(vf_mix((uint64_t)i, 23) >> 11);
    uint64_t writes0 = acc_writes;

    /* the boxes actually passed (fill_rectangles cannot express inverted boxes) */
    pixman_box32_t boxes[40]; int nb = 0;
    pixman_rectangle16_t rects[40];
    for (int i = 0; i < bs->n; i++) {
        const pixman_box32_t *b = &bs->b[i];
        if (api == 1) {
            if (b->x2 < b->x1 || b->y2 < b->y1) continue;
            rects[nb].x = (int16_t)b->x1; rects[nb].y = (int16_t)b->y1; rects[nb].width = (uint16_t)(b->x2 - b->x1); rects[nb].height = (uint16_t)(b->y2 - b->y1);
        }
        boxes[nb++] = *b;
    }
    pixman_bool_t ret = api == 1 ? pixman_image_fill_rectangles((pixman_op_t)op, lib->im, color, nb, rects)
                                 : pixman_image_fill_boxes((pixman_op_t)op, lib->im, color, nb, boxes);
    vf_count_libcalls(1);
    uint64_t writes_by_lib = acc_writes - writes0;

    pixman_image_t *solid = pixman_image_create_solid_fill(color);
    for (int i = 0; i < nb; i++)
        pixman_image_composite32((pixman_op_t)op, solid, NULL, ora->im, 0, 0, 0, 0, boxes[i].x1, boxes[i].y1, boxes[i].x2 - boxes[i].x1, boxes[i].y2 - boxes[i].y1);
    pixman_image_unref(solid);
    if (lib->acc) { dimg_scramble(lib); dimg_scramble(ora); }
    if (!vf_in_confirm) { ST_ADD(oracle_composites, nb); ST_ADD(boxes_calls, 1); }

    char desc[600];
    snprintf(desc, sizeof desc, "%s(op=%#x, dest %s %dx%d, colour a=%#06x r=%#06x g=%#06x b=%#06x, boxes: %s, clip: %s) chain=%s returned %d",
             api ? "pixman_image_fill_rectangles" : "pixman_image_fill_boxes", op, fname, IW, IH, color->alpha, color->red, color->green, color->blue,
             bs->name, clip->name, c10_cfg_names[c->cfg], ret);
    if (vf_verbose) printf("  request: %s\n", desc);

    /* does the request reach beyond the image (after the clip, if any)? */
    int request_oob = 0;
    for (int i = 0; i < nb; i++) {
        pixman_box32_t b = boxes[i];
        if (b.x1 >= b.x2 || b.y1 >= b.y2) continue;
        if (!clip->set) { if (b.x1 < 0 || b.y1 < 0 || b.x2 > IW || b.y2 > IH) request_oob = 1; }
        else for (int q = 0; q < clip->n; q++) {
            int x1 = b.x1 > clip->b[q].x1 ? b.x1 : clip->b[q].x1, y1 = b.y1 > clip->b[q].y1 ? b.y1 : clip->b[q].y1;
            int x2 = b.x2 < clip->b[q].x2 ? b.x2 : clip->b[q].x2, y2 = b.y2 < clip->b[q].y2 ? b.y2 : clip->b[q].y2;
            if (x1 < x2 && y1 < y2 && (x1 < 0 || y1 < 0 || x2 > IW || y2 > IH)) request_oob = 1;
        }
    }

    /* (b) geometry: everything outside S unchanged, in the library's destination and in the oracle's */
    int changed = 0, lib_same_as_init_on_S = 1;
    for (int pass = 0; pass < 2 && !vf_failed(); pass++) {
        const dimg *d = pass ? ora : lib;
        for (int row = -GROWS; row < IH + GROWS && !vf_failed(); row++) {
            const uint8_t *g = d->bits + (ptrdiff_t)d->stride * row, *o = init + (size_t)d->stride * (size_t)(row + GROWS);
            if (row < 0 || row >= IH) {
                long off = first_diff(g, o, (size_t)d->stride);
                if (off >= 0) {
                    if (pass) vf_violation("c19-composite-outside-image", "%s: the ORACLE composite changed guard row %d byte %ld", desc, row, off);
                    else vf_violation(request_oob ? "c19-fill-boxes-outside-bounds" : "c19-fill-boxes-outside-boxes",
                                      "%s: row %d (the image has rows 0..%d) byte %ld changed from %#04x to %#04x: write outside the image%s", desc, row, IH - 1, off, o[off], g[off],
                                      request_oob ? " for a box that exceeds the image bounds (compositing clips such boxes)" : "");
                }
                continue;
            }
            /* row padding */
            int used = (IW * bpp + 7) / 8;
            for (int i = used; i < d->stride && !vf_failed(); i++)
                if (g[i] != o[i]) {
                    if (pass) vf_violation("c19-composite-outside-image", "%s: the ORACLE composite changed padding byte %d of row %d", desc, i, row);
                    else vf_violation(request_oob ? "c19-fill-boxes-outside-bounds" : "c19-fill-boxes-outside-boxes",
                                      "%s: padding byte %d of row %d (a row has %d pixel bytes) changed from %#04x to %#04x: write outside the image%s", desc, i, row, used, o[i], g[i],
                                      request_oob ? " for a box that exceeds the image bounds (compositing clips such boxes)" : "");
                }
            for (int x = 0; x < IW && !vf_failed(); x++) {
                int inS = 0;
                for (int i = 0; i < nb && !inS; i++) inS = in_box(&boxes[i], x, row);
                if (inS && clip->set) { int inc = 0; for (int q = 0; q < clip->n; q++) inc |= in_box(&clip->b[q], x, row); inS = inc; }
                if (!inS) {
                    if (!px_equal(g, o, bpp, x, 0xffffffffu)) {
                        if (pass) vf_violation("c19-composite-outside-region", "%s: the ORACLE composite changed pixel (%d,%d) outside boxes /\\ clip", desc, x, row);
                        else vf_violation(request_oob ? "c19-fill-boxes-outside-bounds" : "c19-fill-boxes-outside-boxes",
                                          "%s: pixel (%d,%d) is outside union(boxes) /\\ clip /\\ bounds but changed%s", desc, x, row,
                                          request_oob ? " (a box exceeds the image bounds and the overrun wrapped into the image)" : "");
                    }
                } else if (pass) {
                    if (!px_equal(g, o, bpp, x, dmask)) changed = 1;
                } else if (!px_equal(g, o, bpp, x, dmask)) lib_same_as_init_on_S = 0;
            }
        }
    }
    /* (a) differential on S (defined bits) */
    for (int row = 0; row < IH && !vf_failed(); row++)
        for (int x = 0; x < IW && !vf_failed(); x++) {
            const uint8_t *g = lib->bits + (size_t)lib->stride * row, *o = ora->bits + (size_t)ora->stride * row;
            if (px_equal(g, o, bpp, x, dmask)) continue;
            uint32_t gv = bpp <= 32 ? c10_get_px(g, bpp, x) : 0, ov = bpp <= 32 ? c10_get_px(o, bpp, x) : 0;
            if (lib->acc && writes_by_lib == 0) {
                vf_violation("c19-fill-boxes-accessor-bypass", "%s: the destination has user read/write accessors; write_func was called 0 times and pixel (%d,%d) reads back as %#x "
                             "through the accessors, whereas compositing the solid colour over the box gives %#x: the direct-fill shortcut wrote to the raw storage", desc, x, row, gv, ov);
                break;
            }
            if (lib_same_as_init_on_S) {
                /* nothing was drawn at all: is it because no implementation of this chain can fill this depth? */
                uint32_t scratch[8] = { 0 };
                if (!pixman_fill(scratch, 2, bpp, 0, 0, 1, 1, 1)) {
                    char key[64]; snprintf(key, sizeof key, "c19-fill-boxes-fill-failure-ignored-bpp%d", bpp);
                    vf_violation(key, "%s: nothing was drawn although compositing changes pixel (%d,%d) to %#x: pixman_fill() returns FALSE for bpp %d under this chain and "
                                 "pixman_image_fill_boxes ignores that result instead of falling back to compositing", desc, x, row, ov, bpp);
                    break;
                }
            }
            vf_violation("c19-fill-boxes-differs-from-composite", "%s: pixel (%d,%d): library %#x, compositing the solid colour over each box gives %#x (compared bits %#x)",
                         desc, x, row, gv, ov, dmask);
        }
    if (lib->amap && !vf_failed()) {
        long off = first_diff(lib->amap_buf, ora->amap_buf, AM_SIZE);
        if (off >= 0)
            vf_violation("c19-fill-boxes-alpha-map-ignored", "%s: the destination has an a8 alpha map at (0,0); after the call alpha-map byte (%ld,%ld) is %#04x, after compositing the "
                         "solid colour over each box it is %#04x", desc, off % AM_STRIDE, off / AM_STRIDE - GROWS, lib->amap_buf[off], ora->amap_buf[off]);
        else if (memcmp(lib->amap_buf, ora->amap_buf, AM_SIZE)) vf_harderr("alpha map compare");
    }
    if (outcome) *outcome = vf_mix(vf_hash64(lib->bits, (size_t)lib->stride * IH, (uint64_t)di), (uint64_t)ret);
    return changed;
}

/* case = (box set, clip, api, dest format, op); all colours of the list inside */
static void boxes_case(uint64_t idx, void *vctx)
{
    const boxes_ctx *c = vctx;
    int dims[5] = { c->nboxsets, NCLIPS, 2, NDEST, NOPS }, dg[5]; vf_decode(idx, dims, 5, dg);
    const boxset_t *bs = &BOXSETS[dg[0]]; const clipdef_t *clip = &CLIPS[dg[1]]; int api = dg[2], di = dg[3], op = ALL_OPS[dg[4]];
    pixman_format_code_t code; const char *fname; int bpp, is_float; uint32_t dmask;
    dest_info(di, &code, &fname, &bpp, &dmask, &is_float);
    const pixman_indexed_t *pal = (di >= 38 && di <= 42) ? &c->pal[di - 38] : NULL;
    dimg lib, ora;
    dimg_make(&lib, code, bpp, pal, clip); dimg_make(&ora, code, bpp, pal, clip);
    uint8_t *init = malloc(lib.size); fill_initial(init, lib.size, lib.stride, bpp, is_float);
    uint64_t acc = 0, o = 0; int nchanged = 0;
    for (int k = 0; k < c->ncolors && !vf_failed(); k++) {
        nchanged += boxes_once(c, op, di, bs, clip, api, &c->colors[k], &lib, &ora, init, &o);
        acc = vf_mix(acc, o);
    }
    if (!vf_in_confirm) {
        vf_count_eval((uint64_t)c->ncolors); vf_count_nontrivial((uint64_t)nchanged);
        ST_ADD(boxes_changed, nchanged); ST_ADD(boxes_unchanged, c->ncolors - nchanged);
        vf_outcome(acc);
        if (dg[0] == 3 && dg[1] == 2 && api == 0 && (di == 11 || di == 4) && (op == 0x03 || op == 0x01) && vf_want_sample())
            vf_sample("fill_boxes(op=%#x, dest %s, boxes: %s, clip: %s) chain=%s: %d colours, %d of them change the picture; library == per-box composite on S, nothing outside S changed",
                      op, fname, bs->name, clip->name, c10_cfg_names[c->cfg], c->ncolors, nchanged);
    }
    free(init); dimg_free(&lib); dimg_free(&ora);
}

/* destinations behind accessors / with an alpha map: case = (box set (in bounds), clip (3), api, format (16), operator (4), wrap (2)) */
static const int WRAP_FMTS[16] = { 0, 1, 2, 3, 4, 5, 6, 7, 11, 12, 21, 32, 8, 22, 33, 37 };
static const int WRAP_OPS[4] = { 0x00, 0x01, 0x03, 0x0c };
static void wrapped_case(uint64_t idx, void *vctx)
{
    const boxes_ctx *c = vctx;
    int dims[6] = { NBOXSETS_INBOUNDS, 3, 2, 16, 4, 2 }, dg[6]; vf_decode(idx, dims, 6, dg);
    const boxset_t *bs = &BOXSETS[dg[0]]; const clipdef_t *clip = &CLIPS[dg[1]]; int api = dg[2], di = WRAP_FMTS[dg[3]], op = WRAP_OPS[dg[4]], wrap = 1 + dg[5];
    pixman_format_code_t code; const char *fname; int bpp, is_float; uint32_t dmask;
    dest_info(di, &code, &fname, &bpp, &dmask, &is_float);
    dimg lib, ora;
    dimg_make(&lib, code, bpp, NULL, clip); dimg_make(&ora, code, bpp, NULL, clip);
    dimg_wrap(&lib, wrap, (int)(idx & 1)); dimg_wrap(&ora, wrap, (int)(idx & 1));      /* odd cases: the destinations were used as plain images first */
    uint8_t *init = malloc(lib.size); fill_initial(init, lib.size, lib.stride, bpp, is_float);
    uint64_t acc = 0, o = 0; int nchanged = 0;
    if (vf_verbose) printf("  destination %s\n", wrap == 1 ? "with scrambling read/write accessors" : "with an a8 alpha map");
    for (int k = 0; k < c->ncolors && !vf_failed(); k++) {
        nchanged += boxes_once(c, op, di, bs, clip, api, &c->colors[k], &lib, &ora, init, &o);
        acc = vf_mix(acc, o);
    }
    if (!vf_in_confirm) {
        vf_count_eval((uint64_t)c->ncolors); vf_count_nontrivial((uint64_t)nchanged);
        ST_ADD(boxes_changed, nchanged); ST_ADD(boxes_unchanged, c->ncolors - nchanged);
        vf_outcome(vf_mix(acc, (uint64_t)wrap));
    }
    free(init); dimg_free(&lib); dimg_free(&ora);
}

/* colour sweeps: case = (block of 256 sweep values, sweep kind, operator, dest format) */
typedef struct { int cfg; int nvals; const uint16_t *vals; int nops; int ops[4]; int nfmt; int fmt[NDEST]; pixman_indexed_t pal[5]; } sweep_ctx;
/* sweep kinds: 0,1: alpha swept with rgb = (alpha, alpha/2, 0) / (0x1234, 0xffff, 0x8080); 2..10: r,g,b swept with alpha in {0, 0x8000, 0xffff} */
#define NSWEEPKINDS 11
static void sweep_case(uint64_t idx, void *vctx)
{
    const sweep_ctx *c = vctx;
    int nblocks = c->nvals / 256;
    int dims[4] = { nblocks, NSWEEPKINDS, c->nops, c->nfmt }, dg[4]; vf_decode(idx, dims, 4, dg);
    int block = dg[0], kind = dg[1], op = c->ops[dg[2]], di = c->fmt[dg[3]];
    pixman_format_code_t code; const char *fname; int bpp, is_float; uint32_t dmask;
    dest_info(di, &code, &fname, &bpp, &dmask, &is_float);
    const pixman_indexed_t *pal = (di >= 38 && di <= 42) ? &c->pal[di - 38] : NULL;
    dimg lib, ora;
    dimg_make(&lib, code, bpp, pal, &CLIPS[0]); dimg_make(&ora, code, bpp, pal, &CLIPS[0]);
    uint8_t *init = malloc(lib.size); fill_initial(init, lib.size, lib.stride, bpp, is_float);
    static boxes_ctx bc; bc.cfg = c->cfg;      /* only cfg is read by boxes_once */
    uint64_t acc = 0, o = 0; int nchanged = 0;
    for (int k = 0; k < 256 && !vf_failed(); k++) {
        uint16_t v = c->vals[block * 256 + k]; pixman_color_t col;
        if (kind == 0) { col.alpha = v; col.red = v; col.green = v / 2; col.blue = 0; }
        else if (kind == 1) { col.alpha = v; col.red = 0x1234; col.green = 0xffff; col.blue = 0x8080; }
        else {
            static const uint16_t A3[3] = { 0, 0x8000, 0xffff };
            int ch = (kind - 2) / 3; col.alpha = A3[(kind - 2) % 3];
            col.red = ch == 0 ? v : 0x4000; col.green = ch == 1 ? v : 0xc000; col.blue = ch == 2 ? v : 0x0001;
        }
        nchanged += boxes_once(&bc, op, di, &BOXSETS[3], &CLIPS[0], k & 1, &col, &lib, &ora, init, &o);
        acc = vf_mix(acc, o);
    }
    if (!vf_in_confirm) {
        vf_count_eval(256); vf_count_nontrivial((uint64_t)nchanged);
        ST_ADD(boxes_changed, nchanged); ST_ADD(boxes_unchanged, 256 - nchanged);
        vf_outcome(acc);
        if (block == nblocks / 2 && kind == 0 && op == 0x03 && di == 11 && vf_want_sample())
            vf_sample("fill_boxes/rectangles OVER on r5g6b5, alpha %#06x..%#06x with rgb=(alpha, alpha/2, 0), chain=%s: 256 colours, all equal per-box compositing",
                      c->vals[block * 256], c->vals[block * 256 + 255], c10_cfg_names[c->cfg]);
    }
    free(init); dimg_free(&lib); dimg_free(&ora);
}

/* ======================================================================== main */
int main(int argc, char **argv)
{
    vf_init(argc, argv, "C19", "exploration");
    st = mmap(NULL, sizeof *st, PROT_READ | PROT_WRITE, MAP_SHARED | MAP_ANONYMOUS, -1, 0);
    memset(st, 0, sizeof *st);
    int th = vf_is_thorough();
    c10_tune_malloc();
    vf_rule = "E1: fill/blt cases are single calls (bpp, x, width, height, stride, start phase within 16 bytes, row, filler) compared byte for byte with the model over the whole "
              "allocation incl. guards; fill_boxes cases are (operator, destination format, box set, clip, API, colour) compared with per-box compositing of a solid image on the "
              "defined bits of S = boxes /\\ clip /\\ bounds and with 'unchanged' everywhere else incl. padding and guard rows. evaluations = calls judged; non-trivial = calls that "
              "returned TRUE with a non-empty rectangle (fill/blt), requests whose oracle result differs from the initial picture (fill_boxes); outcomes = distinct result buffers.";
    vf_bounds = th ? "fill: bpp {1,8,16,32} x x 0..40 x widths 0..300 bytes x h {1,2} x 3 strides x 4 phases x 2 rows x 2 fillers, bpp {4,24} x 0..8 x w 0..40; all 256/65536 fillers (8/16 bpp), 4096 (32 bpp); "
                     "blt: 16/32 bpp src x 0..8 x dst x 0..8 x widths 0..300 bytes x h x strides x phases, other depth pairs small; fill_boxes/rectangles: 53 operators x 45 destination formats x "
                     "12 box sets (4 exceed the bounds) x 5 clips x 2 APIs x 39 colours; colour sweeps: 1024 values of alpha (2 rgb settings) and of each colour channel (alpha 0/0x8000/0xffff) x "
                     "{SRC, OVER, OVER_REVERSE, ADD} x 45 formats; all under 6 implementation chains; default chain in addition all 65536 values per swept channel x {SRC, OVER} x 16 formats "
                     "(the 12 formats of the direct-fill shortcut and 4 controls)"
                   : "fill: bpp {1,8,16,32} x x 0..20 (0..40 for 1 bpp) x widths 0..140 bytes x h {1,2} x 3 strides x 4 phases x 2 rows x 2 fillers, bpp {4,24} small; all 256/65536 fillers (8/16 bpp), 4096 (32 bpp); "
                     "blt: 16/32 bpp src x 0..4 x dst x 0..5 x widths 0..140 bytes; fill_boxes/rectangles: 53 operators x 45 destination formats x 12 box sets (4 exceed the bounds) x 5 clips x 2 APIs x 13 colours (default and "
                     "general chains; 4 colours for the other three chains); colour sweeps (default and general chains): 1024 values of alpha and of each colour channel x {SRC, OVER, OVER_REVERSE, ADD} x 45 formats; "
                     "6 implementation chains";
    vf_assume("byte-level little-endian pixel addressing of c10_codec.h is the meaning of 'the addressed rectangle'");
    vf_assume("the fill_boxes oracle is pixman's own compositing of a solid image (that is the property's definition); compositing itself is judged by C01/C03");
    vf_assume("src and dst of a blt are distinct buffers, or one buffer with rectangles that share their first row only (same start, different strides); blits whose rows overlap otherwise are not specified and not explored");
    vf_assume("destinations behind read/write accessors or with an alpha map are explored on a reduced alphabet only (8 in-bounds box sets x 3 clips x 16 formats x {CLEAR, SRC, OVER, ADD}, default chain)");
    vf_assume("out-of-bounds boxes exceed the 11x6 image by at most 3 pixels/rows so that the overrun stays inside the harness' guard rows");

    /* colour lists */
    static const uint16_t A13[13] = { 0, 1, 0x00ff, 0x0100, 0x7fff, 0x8000, 0x80ff, 0xfeff, 0xff00, 0xff7f, 0xff80, 0xfffe, 0xffff };
    static uint16_t sweep_quick[1024], sweep_full[65536];
    for (int i = 0; i < 1024; i++) { static const uint16_t lo[4] = { 0x00, 0x7f, 0x80, 0xff }; sweep_quick[i] = (uint16_t)((i >> 2) << 8 | lo[i & 3]); }
    for (int i = 0; i < 65536; i++) sweep_full[i] = (uint16_t)i;

    for (int cfg = 0; cfg < C10_NCFGS; cfg++) {
        c10_set_cfg(cfg);
        char nm[64];
        { fill_ctx f; fill_ctx_init(&f, cfg, th); snprintf(nm, sizeof nm, "fill-geometry-%s", c10_cfg_names[cfg]); vf_space_run(nm, f.total, fill_case, &f); }
        { filler_ctx f = { cfg }; snprintf(nm, sizeof nm, "fill-fillers-%s", c10_cfg_names[cfg]); vf_space_run(nm, N_FILLER_CASES, filler_case, &f); }
        { blt_ctx b; blt_ctx_init(&b, cfg, th); snprintf(nm, sizeof nm, "blt-%s", c10_cfg_names[cfg]); vf_space_run(nm, b.total, blt_case, &b); }
        { blt_ctx b; blt_ctx_init(&b, cfg, th); snprintf(nm, sizeof nm, "blt-in-one-buffer-%s", c10_cfg_names[cfg]); vf_space_run(nm, 3 * 5 * 2 * 2 * 3, blt_inplace_case, &b); }
        {
            static boxes_ctx bc; memset(&bc, 0, sizeof bc); bc.cfg = cfg;
            for (int f = 0; f < 5; f++) c10_make_palette(&bc.pal[f], c10_formats[38 + f].code, 0);
            int full = th || cfg == 0 || cfg == 4;
            bc.nboxsets = NBOXSETS;
            if (th) {
                for (int a = 0; a < 13; a++) {
                    pixman_color_t c1 = { A13[a], (uint16_t)(A13[a] / 2), 0, A13[a] }, c2 = { 0x1234, 0xffff, 0x8080, A13[a] }, c3 = { A13[a], A13[a], A13[a], A13[a] };
                    bc.colors[bc.ncolors++] = c1; bc.colors[bc.ncolors++] = c2; bc.colors[bc.ncolors++] = c3;
                }
            } else if (full) {
                for (int a = 0; a < 13; a++) { pixman_color_t c1 = { A13[a], (uint16_t)(A13[a] / 2), 0x8080, A13[a] }; if (a & 1) { c1.red = 0x1234; c1.green = 0xffff; } bc.colors[bc.ncolors++] = c1; }
            } else {
                static const uint16_t A4[4] = { 0, 0x8000, 0xff80, 0xffff };
                for (int a = 0; a < 4; a++) { pixman_color_t c1 = { A4[a], (uint16_t)(A4[a] / 2), 0x8080, A4[a] }; bc.colors[bc.ncolors++] = c1; }
            }
            snprintf(nm, sizeof nm, "fill-boxes-%s", c10_cfg_names[cfg]);
            vf_space_run(nm, (uint64_t)bc.nboxsets * NCLIPS * 2 * NDEST * NOPS, boxes_case, &bc);
            if (cfg == 0) {
                snprintf(nm, sizeof nm, "fill-boxes-wrapped-dest-%s", c10_cfg_names[cfg]);
                vf_space_run(nm, (uint64_t)NBOXSETS_INBOUNDS * 3 * 2 * 16 * 4 * 2, wrapped_case, &bc);
            }
        }
        if (th || cfg == 0 || cfg == 4) {
            /* every chain (quick: default and general): 1024 values per swept channel, {SRC, OVER, OVER_REVERSE, ADD}, all destination formats */
            static sweep_ctx sc; memset(&sc, 0, sizeof sc); sc.cfg = cfg;
            for (int f = 0; f < 5; f++) c10_make_palette(&sc.pal[f], c10_formats[38 + f].code, 0);
            sc.nvals = 1024; sc.vals = sweep_quick;
            sc.nops = 4; sc.ops[0] = 0x01; sc.ops[1] = 0x03; sc.ops[2] = 0x04; sc.ops[3] = 0x0c;
            sc.nfmt = NDEST; for (int f = 0; f < NDEST; f++) sc.fmt[f] = f;
            snprintf(nm, sizeof nm, "fill-boxes-colour-sweep-%s", c10_cfg_names[cfg]);
            vf_space_run(nm, (uint64_t)(sc.nvals / 256) * NSWEEPKINDS * sc.nops * sc.nfmt, sweep_case, &sc);
        }
        if (th && cfg == 0) {
            /* all 65536 values of every swept channel for the operators that can take the direct-fill shortcut, on the formats color_to_pixel
             * accepts plus four controls */
            static sweep_ctx sc; memset(&sc, 0, sizeof sc); sc.cfg = cfg;
            for (int f = 0; f < 5; f++) c10_make_palette(&sc.pal[f], c10_formats[38 + f].code, 0);
            sc.nvals = 65536; sc.vals = sweep_full;
            sc.nops = 2; sc.ops[0] = 0x01; sc.ops[1] = 0x03;
            static const int F16[16] = { 0, 1, 2, 3, 4, 5, 6, 7, 11, 12, 21, 32, 8, 22, 33, 37 };
            sc.nfmt = 16; for (int f = 0; f < 16; f++) sc.fmt[f] = F16[f];
            snprintf(nm, sizeof nm, "fill-boxes-colour-sweep-full-%s", c10_cfg_names[cfg]);
            vf_space_run(nm, (uint64_t)(sc.nvals / 256) * NSWEEPKINDS * sc.nops * sc.nfmt, sweep_case, &sc);
        }
    }
    {
        char *p = vf->extra_json; size_t left = sizeof vf->extra_json; int n;
        n = snprintf(p, left, "\"fill_returned_true_by_chain_and_bpp\": {"); p += n; left -= (size_t)n;
        for (int cfg = 0; cfg < C10_NCFGS; cfg++) {
            n = snprintf(p, left, "%s\"%s\": {", cfg ? ", " : "", c10_cfg_names[cfg]); p += n; left -= (size_t)n;
            for (int i = 0; i < 6; i++) { n = snprintf(p, left, "%s\"%d\": [%llu, %llu]", i ? ", " : "", BPPS[i], (unsigned long long)st->fill_true[cfg][i], (unsigned long long)(st->fill_true[cfg][i] + st->fill_false[cfg][i])); p += n; left -= (size_t)n; }
            n = snprintf(p, left, "}"); p += n; left -= (size_t)n;
        }
        n = snprintf(p, left, "}, \"blt_returned_true_by_chain_and_depths\": {"); p += n; left -= (size_t)n;
        for (int cfg = 0; cfg < C10_NCFGS; cfg++) {
            n = snprintf(p, left, "%s\"%s\": {", cfg ? ", " : "", c10_cfg_names[cfg]); p += n; left -= (size_t)n;
            for (int i = 0; i < 10; i++) { n = snprintf(p, left, "%s\"%d->%d\": [%llu, %llu]", i ? ", " : "", BLTPAIR[i].s, BLTPAIR[i].d, (unsigned long long)st->blt_true[cfg][i], (unsigned long long)(st->blt_true[cfg][i] + st->blt_false[cfg][i])); p += n; left -= (size_t)n; }
            n = snprintf(p, left, "}"); p += n; left -= (size_t)n;
        }
        snprintf(p, left, "}, \"fill_boxes_requests\": %llu, \"fill_boxes_requests_changing_the_picture\": %llu, \"oracle_composites\": %llu",
                 (unsigned long long)st->boxes_calls, (unsigned long long)st->boxes_changed, (unsigned long long)st->oracle_composites);
    }
    return vf_finish();
}
