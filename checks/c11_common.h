/* c11_common.h — shared plumbing of the C11 harness: abort capture, block-level failure
 * collection (unknown keys win over known ones), shared statistics, alphabets. */
#ifndef C11_COMMON_H
#define C11_COMMON_H
#include "vf.h"
#include <pixman.h>
#include <setjmp.h>
#include <math.h>
#include <float.h>
#include <limits.h>
#include "c11_oracle.h"

/* internal (exported but undeclared in pixman.h) 48.16 entry points */
typedef struct { int64_t v[3]; } vec4816;
pixman_bool_t pixman_transform_point_31_16(const pixman_transform_t *t, const vec4816 *v, vec4816 *result);
void pixman_transform_point_31_16_affine(const pixman_transform_t *t, const vec4816 *v, vec4816 *result);
void pixman_transform_point_31_16_3d(const pixman_transform_t *t, const vec4816 *v, vec4816 *result);

/* ---------------- abort capture ----------------
 * The library is built with assertions on.  A failing assert() calls __assert_fail(); this
 * definition (the executable's symbol wins over libc's) records the text and jumps back into
 * the harness, so that "the call aborted" becomes an ordinary, replayable violation instead of
 * a dead worker.  A plain abort()/SIGABRT is caught the same way by a signal handler.  If no call
 * is armed the process really aborts (and the engine reports a crash). */
static sigjmp_buf c11_jb;
static volatile int c11_armed;
static char c11_abort_msg[256];

void __assert_fail(const char *expr, const char *file, unsigned int line, const char *func) __attribute__((noreturn));
void __assert_fail(const char *expr, const char *file, unsigned int line, const char *func)
{
    const char *b = strrchr(file, '/');
    snprintf(c11_abort_msg, sizeof c11_abort_msg, "assert (%s) failed at %s:%u in %s()", expr, b ? b + 1 : file, line, func ? func : "?");
    if (c11_armed) { c11_armed = 0; siglongjmp(c11_jb, 1); }
    fprintf(stderr, "c11: unguarded %s\n", c11_abort_msg);
    signal(SIGABRT, SIG_DFL);
    abort();
}
static void c11_on_abrt(int sig)
{
    (void)sig;
    if (c11_armed) { c11_armed = 0; snprintf(c11_abort_msg, sizeof c11_abort_msg, "abort() / SIGABRT raised inside the library"); siglongjmp(c11_jb, 2); }
    signal(SIGABRT, SIG_DFL);
    raise(SIGABRT);
}
static void c11_install_abort_handler(void)
{
    struct sigaction sa; memset(&sa, 0, sizeof sa);
    sa.sa_handler = c11_on_abrt; sa.sa_flags = SA_NODEFER;
    sigaction(SIGABRT, &sa, NULL);
}
/* c11_guard(f, arg): run f(arg) with abort capture; returns f's result (>= 0) or -1 if it aborted. */
typedef int (*c11_thunk_t)(void *);
static __attribute__((noinline)) int c11_guard(c11_thunk_t f, void *arg)
{
    c11_armed = 1;
    if (sigsetjmp(c11_jb, 0) != 0) return -1;
    int r = f(arg);
    c11_armed = 0;
    return r;
}

/* ---------------- block-level failure collection ----------------
 * One engine case is a block of many inputs.  Failures are collected per key; at the end of the
 * block the first failure whose key is NOT a known finding is raised (so a known finding can never
 * mask a new one in the same block), otherwise the first known one. */
#define C11_MAXBLK 12
static struct { char key[64]; char text[1800]; uint64_t count; } c11_blk[C11_MAXBLK];
static int c11_nblk;

static void c11_blk_begin(void) { c11_nblk = 0; }
static void c11_fail(const char *key, const char *fmt, ...) __attribute__((format(printf, 2, 3)));
static void c11_fail(const char *key, const char *fmt, ...)
{
    int i;
    for (i = 0; i < c11_nblk; i++) if (!strcmp(c11_blk[i].key, key)) { c11_blk[i].count++; return; }
    if (i >= C11_MAXBLK) return;
    snprintf(c11_blk[i].key, sizeof c11_blk[i].key, "%s", key);
    va_list ap; va_start(ap, fmt);
    vsnprintf(c11_blk[i].text, sizeof c11_blk[i].text, fmt, ap);
    va_end(ap);
    c11_blk[i].count = 1;
    c11_nblk++;
    if (vf_verbose) printf("   inner FAIL %s: %s\n", key, c11_blk[i].text);
}

/* ---------------- shared statistics (for evidence and the report) ---------------- */
#define C11_NKEYS 40
typedef struct {
    struct { char key[64]; volatile uint64_t inner; } keys[C11_NKEYS];   /* failing inner cases per key */
    volatile int nkeys, lock;
    volatile uint64_t tp_exact, tp_tol, tp_tie, tp_inexact, tp_false_forced, tp_either, tp_w0, tp_affine, tp_abort;
    volatile uint64_t mul_inexact, mul_false_forced, mul_either;
    volatile uint64_t inv_singular, inv_demanded, inv_illcond, inv_overflow;
    volatile uint64_t pred_true, pred_false;
    volatile uint64_t scale_inv_trunc_differs;      /* observation: fixed_inverse truncates where nearest differs */
    volatile uint64_t fromf_band_false;             /* observation: FALSE for |d| in (32767, 32768) although representable */
    volatile uint64_t f_demanded, f_exact;
    volatile int sample_cnt[10];                    /* at most 2 evidence samples per kind of space */
} c11_stats_t;
static c11_stats_t *c11_st;

static void c11_key_count(const char *key, uint64_t n)
{
    if (vf_in_confirm || vf_replaying()) return;
    while (__atomic_exchange_n(&c11_st->lock, 1, __ATOMIC_ACQUIRE)) ;
    int i;
    for (i = 0; i < c11_st->nkeys; i++) if (!strcmp((const char *)c11_st->keys[i].key, key)) break;
    if (i == c11_st->nkeys && i < C11_NKEYS) { snprintf((char *)c11_st->keys[i].key, 64, "%s", key); c11_st->keys[i].inner = 0; c11_st->nkeys++; }
    if (i < C11_NKEYS) c11_st->keys[i].inner += n;
    __atomic_store_n(&c11_st->lock, 0, __ATOMIC_RELEASE);
}

static void c11_blk_end(void)
{
    int pick = -1;
    for (int i = 0; i < c11_nblk; i++) {
        c11_key_count(c11_blk[i].key, c11_blk[i].count);
        if (pick < 0 && !vf_is_known(c11_blk[i].key)) pick = i;
    }
    if (pick < 0 && c11_nblk) pick = 0;
    if (pick >= 0) vf_violation(c11_blk[pick].key, "%s  [%llu input(s) of this block fail with this key]", c11_blk[pick].text,
                                (unsigned long long)c11_blk[pick].count);
}
static int c11_want_sample(int kind)
{
    if (vf_in_confirm || !vf_want_sample() || c11_st->sample_cnt[kind] >= 2) return 0;
    return __atomic_fetch_add(&c11_st->sample_cnt[kind], 1, __ATOMIC_RELAXED) < 2;
}
#define ST_ADD(field, n) do { if (!vf_in_confirm && (n)) __atomic_add_fetch(&c11_st->field, (uint64_t)(n), __ATOMIC_RELAXED); } while (0)

/* ---------------- alphabets (raw 16.16) ---------------- */
#define FX_MIN INT32_MIN
#define FX_MAX INT32_MAX
static const int32_t A21[21] = { 0, 1, -1, 0x8000, -0x8000, 0xffff, -0xffff, 0x10000, -0x10000, 0x10001, 0x18000, -0x18000,
                                 0x20000, -0x20000, 0x30000, 0x00b504f3, 0x40000000, -0x40000000, FX_MAX, -FX_MAX, FX_MIN };
static const int32_t A7X[7]  = { 0, 1, 0x10000, -0x10000, 0x20000, FX_MAX, FX_MIN };            /* magnitude extremes */
static const int32_t A7R[7]  = { 0, 1, -1, 0x8000, 0xffff, 0x10000, 0x30000 };                  /* rounding */
static const int32_t A11[11] = { 0, 1, -1, 0x8000, 0xffff, 0x10000, -0x10000, 0x20000, 0x30000, FX_MAX, FX_MIN };
static const int32_t A9B[9]  = { 0, 2, -0x8000, -0xffff, 0x10001, 0x18000, -0x20000, 0x40000000, -FX_MAX }; /* the values A11 lacks */
static const int32_t A5[5]   = { 0, 0x10000, -0x10000, 0x8000, 0x30000 };
static const int32_t A6[6]   = { 0, 0x10000, -0x10000, 0x8000, 0x30000, 0x20000 };

static const char *fx_str(int64_t v, char *buf)    /* buf >= 40 */
{
    snprintf(buf, 40, "%s0x%llx(%.7g)", v < 0 ? "-" : "", (unsigned long long)(v < 0 ? -v : v), (double)v / 65536.0);
    return buf;
}
static const char *mat_str(const pixman_transform_t *m, char *buf, size_t cap)
{
    size_t l = 0; char t[40];
    for (int i = 0; i < 3; i++) {
        l += snprintf(buf + l, cap - l, "%s[", i ? " " : "");
        for (int j = 0; j < 3; j++) l += snprintf(buf + l, cap - l, "%s%s", j ? ", " : "", fx_str(m->matrix[i][j], t));
        l += snprintf(buf + l, cap - l, "]");
    }
    return buf;
}
static uint64_t mat_hash(const pixman_transform_t *m, uint64_t seed) { return vf_hash64(m->matrix, sizeof m->matrix, seed); }

#endif
