/* C09 — opacity-based operator and path simplifications never change the picture.
 * Engine E1, differential oracle.  One case = one scenario
 *   (operator, role under test, content, context images, transform, repeat, filter, request rectangle, cfg);
 * within the scenario the SAME fully opaque content is presented in every way the statement lists
 * (alpha-less format, alpha format with alpha 255, r5g6b5, solid fill, 1x1 repeating bits, and - for REPEAT_NONE -
 * an a8r8g8b8 image that carries the transparent outside explicitly as a border) and every presentation must leave
 * the same destination.  The presentations differ only in what compute_image_info / analyze_extent /
 * optimize_operator / mask elision / fast-path choice make of them.
 *
 * Precision classes (statement: "bit-identically whenever both variants are evaluated at the same precision"), see c09_pair_policy():
 *   P1  r5g6b5 pixels enter the float pipeline (operators that need division) as v/31, v/63, the 8888 presentations
 *       as byte/255: different input values, compared within 2 steps instead of exactly; not compared for the 4 HSL operators.
 *   P2  SATURATE with a visibly opaque source runs as OVER_REVERSE in 8 bits, with an a8r8g8b8/a8/a1 presentation as SATURATE in float: 1 step (7 when interpolated).
 *   P3  float pipeline: interpolated constant 3x3 image vs solid / 1x1 (no interpolation): float rounding noise, 1 step.
 * Everything else - in particular every Porter-Duff/ADD and separable-blend operator, every x8r8g8b8 / a8r8g8b8(255) / explicit-border pair
 * outside P2 - is compared bit for bit.
 * Known finding (key c09-wide-masked-perpixel-fetch-skips-pixels): float pipeline + real mask + per-pixel bits fetcher loses source pixels.
 * Non-vacuity is measured, not assumed: a link-time wrapper around _pixman_implementation_lookup_composite records the
 * operator and flags the library really dispatched on; a scenario counts as non-trivial only if two compared
 * presentations were dispatched differently (other operator, mask elided, other IS_OPAQUE bits) and the destination
 * changed.
 * Second space "gradients" (c09_gradients.h): gradient images (linear, radial incl. internally tangent circles a == 0, conical; opaque and
 * translucent stops; 4 repeats) as source and as mask, each presented as itself and as a pre-rendered a8r8g8b8 REPEAT_NONE copy of exactly the
 * sampled region (plus an x8r8g8b8 copy when that region is all opaque): checks the gradient branch of compute_image_info's opacity rules.
 */
#include "vf.h"
#include "config.h"
#include "pixman-private.h"
#include "pixhelp.h"
#include "ref_combine.h"

/* ------------------------------------------------------------------ dispatch observation (coverage only, never the oracle) */
typedef struct {
    volatile uint64_t cell[PIXMAN_N_OPERATORS][4];     /* operator_table cell used: [requested op][src_opaque | dst_opaque<<1] */
    volatile uint64_t reduced, mask_elided, promoted_src, promoted_mask, lookups;
    volatile uint64_t decisions_differ, ref_pixels, ref_cases, outside_explicit, tol_pairs, exact_pairs, skipped_pairs;
    /* space "gradients" */
    volatile uint64_t g_cases, g_flagged_opaque, g_tangent, g_partly_outside, g_wholly_outside, g_x8_presented, g_opaque_stops_not_covering,
                      g_decisions_differ, g_exact_pairs, g_tol_pairs, g_skipped_pairs;
    uint64_t g_maxdiff[PIXMAN_N_OPERATORS];            /* largest difference seen in a tolerance-compared (gradient, copy) pair, per operator */
} cov_t;
static cov_t *cov;
static struct { int valid; int op; int src_opq, mask_null, mask_opq, dst_opq; } last;
static int cur_op = -1; static pixman_image_t *cur_src, *cur_mask;

void __real__pixman_implementation_lookup_composite(pixman_implementation_t *, pixman_op_t, pixman_format_code_t, uint32_t, pixman_format_code_t, uint32_t,
                                                     pixman_format_code_t, uint32_t, pixman_implementation_t **, pixman_composite_func_t *);
void __wrap__pixman_implementation_lookup_composite(pixman_implementation_t *toplevel, pixman_op_t op, pixman_format_code_t sf, uint32_t sfl,
                                                     pixman_format_code_t mf, uint32_t mfl, pixman_format_code_t df, uint32_t dfl,
                                                     pixman_implementation_t **out_imp, pixman_composite_func_t *out_func)
{
    __real__pixman_implementation_lookup_composite(toplevel, op, sf, sfl, mf, mfl, df, dfl, out_imp, out_func);
    if (!cov || ph_in_flush || cur_op < 0) return;
    last.valid = 1; last.op = op;
    last.src_opq = !!(sfl & FAST_PATH_IS_OPAQUE); last.mask_opq = !!(mfl & FAST_PATH_IS_OPAQUE);
    last.mask_null = (mf == PIXMAN_null); last.dst_opq = !!(dfl & FAST_PATH_IS_OPAQUE);
    if (vf_in_confirm) return;
    int so = last.src_opq && last.mask_opq;
    __atomic_add_fetch(&cov->cell[cur_op][so | (last.dst_opq << 1)], 1, __ATOMIC_RELAXED);
    __atomic_add_fetch(&cov->lookups, 1, __ATOMIC_RELAXED);
    if ((int)op != cur_op) __atomic_add_fetch(&cov->reduced, 1, __ATOMIC_RELAXED);
    if (cur_mask && last.mask_null) __atomic_add_fetch(&cov->mask_elided, 1, __ATOMIC_RELAXED);
    if (cur_src && last.src_opq && !(cur_src->common.flags & FAST_PATH_IS_OPAQUE)) __atomic_add_fetch(&cov->promoted_src, 1, __ATOMIC_RELAXED);
    if (cur_mask && last.mask_opq && !(cur_mask->common.flags & FAST_PATH_IS_OPAQUE)) __atomic_add_fetch(&cov->promoted_mask, 1, __ATOMIC_RELAXED);
}

/* ------------------------------------------------------------------ alphabets */
#define SW 3
#define SH 3
#define DW 21
#define DH 8
#define DX 1
#define DY 1
#define BORDER 2

static uint32_t expand565(unsigned v)
{
    unsigned r = v >> 11, g = (v >> 5) & 63, b = v & 31;
    return 0xff000000u | ((r << 3 | r >> 2) << 16) | ((g << 2 | g >> 4) << 8) | (b << 3 | b >> 2);
}
static const uint16_t CHECK565[9] = { 0xf800, 0x07e0, 0x001f, 0xffff, 0x0000, 0x8410, 0x1234, 0xfedc, 0x7bef };
#define CONST565 0x9a6b

typedef struct { const char *name; int32_t m[9]; } xf_t;
#define F(x) ((int32_t)((x) * 65536.0))
static const xf_t XF[] = {
    { "none",            { F(1), 0, 0,  0, F(1), 0,  0, 0, F(1) } },
    { "scale2",          { F(2), 0, 0,  0, F(2), 0,  0, 0, F(1) } },
    { "scale1/2",        { F(.5), 0, 0,  0, F(.5), 0,  0, 0, F(1) } },
    { "translate(2,1)",  { F(1), 0, F(2),  0, F(1), F(1),  0, 0, F(1) } },
    { "translate(1.25,-.5)", { F(1), 0, F(1.25),  0, F(1), F(-.5),  0, 0, F(1) } },
    { "w=1/2 (magnify by 2, homogeneous)", { F(1), 0, 0,  0, F(1), 0,  0, 0, F(.5) } },
    { "w=2 + perspective in y",            { F(1), 0, F(1),  0, F(1), 0,  0, F(.125), F(2) } },
    /* thorough only from here */
    { "rot90",           { 0, F(-1), F(3),  F(1), 0, 0,  0, 0, F(1) } },
    { "flipx",           { F(-1), 0, F(3),  0, F(1), 0,  0, 0, F(1) } },
    { "scale1.5+shear",  { F(1.5), F(.25), 0,  F(.125), F(1.5), 0,  0, 0, F(1) } },
    { "rot180",          { F(-1), 0, F(3),  0, F(-1), F(3),  0, 0, F(1) } },
    { "projective",      { F(1), 0, 0,  0, F(1), 0,  F(.0625), 0, F(1) } },
    { "scale1/2+half",   { F(.5), 0, F(.5),  0, F(.5), F(.5),  0, 0, F(1) } },
};
#define NXF_Q 7
#define NXF_T ((int)(sizeof XF / sizeof XF[0]))

typedef struct { int sx, sy, w, h; } rq_t;
static const rq_t RQ[] = {
    { 0, 0, 3, 3 }, { 0, 0, 1, 1 }, { 0, 0, 2, 2 }, { 1, 1, 4, 4 }, { 0, 0, 6, 6 }, { -1, -2, 7, 7 }, { 1, 1, 1, 1 },
    { -1, 0, 19, 2 },      /* wide: reaches the vector loops of the SIMD paths */
    /* thorough only */
    { 2, 0, 3, 2 }, { -3, 0, 5, 1 }, { 0, 2, 1, 5 }, { 0, 0, 7, 1 }, { 0, 1, 20, 3 }, { 1, 0, 17, 1 },
};
#define NRQ_Q 8
#define NRQ_T ((int)(sizeof RQ / sizeof RQ[0]))

static const pixman_repeat_t REP[4] = { PIXMAN_REPEAT_NONE, PIXMAN_REPEAT_NORMAL, PIXMAN_REPEAT_PAD, PIXMAN_REPEAT_REFLECT };
static const char *REPN[4] = { "none", "normal", "pad", "reflect" };
static const char *FILN[4] = { "nearest", "bilinear", "convolution3x3(sum 1/2)", "separable-convolution" };
#define NFIL_Q 3
#define NFIL_T 4
static const char *ROLEN[3] = { "source", "mask", "destination" };
#define NCTX_Q 4
#define NCTX_T 6
static const int CFG_Q[] = { PH_CFG_DEFAULT, PH_CFG_GENERAL };
static const int CFG_T[] = { PH_CFG_DEFAULT, PH_CFG_GENERAL, PH_CFG_WHOLEOPS, PH_CFG_SSE2 | PH_CFG_SSSE3, PH_CFG_MMX | PH_CFG_SSE2 | PH_CFG_SSSE3 };

static int needs_division(int op)
{
    return op == PIXMAN_OP_SATURATE || (op >= PIXMAN_OP_DISJOINT_CLEAR && op <= PIXMAN_OP_DISJOINT_XOR) ||
           (op >= PIXMAN_OP_CONJOINT_CLEAR && op <= PIXMAN_OP_CONJOINT_XOR) || op == PIXMAN_OP_COLOR_DODGE || op == PIXMAN_OP_COLOR_BURN ||
           op == PIXMAN_OP_SOFT_LIGHT || (op >= PIXMAN_OP_HSL_HUE && op <= PIXMAN_OP_HSL_LUMINOSITY);
}

/* ------------------------------------------------------------------ images */
typedef struct { pixman_image_t *img; uint32_t *buf; int w, h, stride; ph_fmt_t f; } cimg_t;
/* logical picture: w x h a8r8g8b8 values + repeat (solid: w = h = 0) — used by the reference sampler for untransformed cases */
typedef struct { int w, h, repeat, solid; uint32_t px[DW * DH]; } model_t;

static cimg_t mk_bits(pixman_format_code_t fmt, const char *name, int w, int h, const uint32_t *argb, uint32_t junk)
{
    cimg_t c; memset(&c, 0, sizeof c);
    ph_fmt_describe(fmt, name, &c.f);
    c.w = w; c.h = h; c.stride = ph_stride_for(c.f.bpp, w) + 4;          /* one padding word per row */
    c.buf = malloc((size_t)c.stride * h);
    memset(c.buf, 0x5a, (size_t)c.stride * h);
    uint32_t undef = ~ph_defined_mask(&c.f) & (c.f.bpp == 32 ? 0xffffffffu : ((1u << c.f.bpp) - 1));
    for (int y = 0; y < h; y++) for (int x = 0; x < w; x++) {
        uint32_t p = ph_from_8888(&c.f, argb[y * w + x]);
        if (undef) p |= (junk * (uint32_t)(x * 7 + y * 13 + 1) * 0x01010101u) & undef;      /* undefined bits carry junk, never 0xff */
        ph_put_pixel((uint8_t *)c.buf + (size_t)y * c.stride, c.f.bpp, x, p);
    }
    c.img = pixman_image_create_bits(fmt, w, h, c.buf, c.stride);
    return c;
}
static cimg_t mk_solid(uint32_t argb)
{
    cimg_t c; memset(&c, 0, sizeof c);
    pixman_color_t col = { (uint16_t)(((argb >> 16) & 0xff) * 0x101), (uint16_t)(((argb >> 8) & 0xff) * 0x101), (uint16_t)((argb & 0xff) * 0x101), (uint16_t)((argb >> 24) * 0x101) };
    c.img = pixman_image_create_solid_fill(&col);
    return c;
}
static void cimg_free(cimg_t *c) { if (c->img) pixman_image_unref(c->img); free(c->buf); c->img = NULL; c->buf = NULL; }

static void set_xf(pixman_image_t *img, const xf_t *x, int shift)
{
    pixman_transform_t t;
    for (int i = 0; i < 3; i++) for (int j = 0; j < 3; j++) t.matrix[i][j] = x->m[i * 3 + j];
    if (shift) for (int j = 0; j < 3; j++) { t.matrix[0][j] += shift * t.matrix[2][j]; t.matrix[1][j] += shift * t.matrix[2][j]; }
    pixman_image_set_transform(img, &t);
}
static void set_filter(pixman_image_t *img, int fil)
{
    if (fil == 0) pixman_image_set_filter(img, PIXMAN_FILTER_NEAREST, NULL, 0);
    else if (fil == 1) pixman_image_set_filter(img, PIXMAN_FILTER_BILINEAR, NULL, 0);
    else if (fil == 2) {
        /* kernel sums to 1/2: an opaque picture is NOT opaque after this filter */
        static const pixman_fixed_t k[2 + 9] = { 3 << 16, 3 << 16, 0x0800, 0x1000, 0x0800, 0x1000, 0x2000, 0x1000, 0x0800, 0x1000, 0x0800 };
        pixman_image_set_filter(img, PIXMAN_FILTER_CONVOLUTION, k, 11);
    } else {
        int n; pixman_fixed_t *p = pixman_filter_create_separable_convolution(&n, 0x18000, 0x18000, PIXMAN_KERNEL_LINEAR, PIXMAN_KERNEL_LINEAR, PIXMAN_KERNEL_BOX, PIXMAN_KERNEL_BOX, 1, 1);
        if (p) { pixman_image_set_filter(img, PIXMAN_FILTER_SEPARABLE_CONVOLUTION, p, n); free(p); }
    }
}

/* a presentation of the role under test */
enum { G_8888 = 0, G_565 = 1 };
typedef struct {
    char name[40];
    cimg_t im;
    int group;          /* input precision group */
    int present;        /* NULL image = "no mask" presentation when 1 and im.img == NULL */
    int shift;          /* explicit-border presentation: source-space shift */
    int needs_repeat;   /* solid / 1x1: only the same picture when the scenario repeats */
    int fixed_shape;    /* solid fill: ignores transform/filter — not paired under convolution filters */
    int explicit_border;
    int recognizable;   /* opacity visible from the format / image kind alone (alpha-less format, solid fill, no mask) */
    /* results */
    uint32_t out[DW * DH];      /* raw destination pixel values after the composite */
    ph_fmt_t dfmt;
    int dec_valid, dec_op, dec_src_opq, dec_mask_null, dec_mask_opq, dec_dst_opq;
} pres_t;
#define MAXP 12

typedef struct { int op, role, content, ctx, xf, rep, fil, rq, cfg; int clip; /* 1: the role image carries a two-box client clip that applies to it as a source (role source / mask) or as destination */ } scen_t;

static void describe(const scen_t *s, char *buf, size_t cap)
{
    char cn[64];
    snprintf(buf, cap, "op=%s role=%s%s content=%d ctx=%d transform=%s repeat=%s filter=%s request=(src %d,%d %dx%d at dest %d,%d) PIXMAN_DISABLE=[%s]",
             rc_op_name(s->op), ROLEN[s->role], s->clip ? "(with a two-box client clip that applies to it)" : "", s->content, s->ctx, XF[s->xf].name, REPN[s->rep], FILN[s->fil], RQ[s->rq].sx, RQ[s->rq].sy, RQ[s->rq].w, RQ[s->rq].h,
             DX, DY, ph_cfg_name(s->cfg, cn, sizeof cn));
}

/* translucent, valid premultiplied pixel pattern */
static uint32_t translucent(int i)
{
    static const uint8_t A[8] = { 0x00, 0x40, 0xff, 0x80, 0x01, 0xc0, 0xfe, 0x7f };
    unsigned a = A[i & 7], r = a * ((i * 5 + 1) % 7) / 6, g = a * ((i * 3 + 2) % 5) / 4, b = a * ((i * 11 + 3) % 9) / 8;
    return a << 24 | r << 16 | g << 8 | b;
}

/* reference sampler for integer positions of an untransformed picture */
static uint32_t model_at(const model_t *m, int x, int y)
{
    if (m->solid) return m->px[0];
    switch (m->repeat) {
    case PIXMAN_REPEAT_NONE: if (x < 0 || y < 0 || x >= m->w || y >= m->h) return 0; break;
    case PIXMAN_REPEAT_NORMAL: x = ((x % m->w) + m->w) % m->w; y = ((y % m->h) + m->h) % m->h; break;
    case PIXMAN_REPEAT_PAD: x = x < 0 ? 0 : x >= m->w ? m->w - 1 : x; y = y < 0 ? 0 : y >= m->h ? m->h - 1 : y; break;
    default:
        x = ((x % (2 * m->w)) + 2 * m->w) % (2 * m->w); if (x >= m->w) x = 2 * m->w - 1 - x;
        y = ((y % (2 * m->h)) + 2 * m->h) % (2 * m->h); if (y >= m->h) y = 2 * m->h - 1 - y;
    }
    return m->px[y * m->w + x];
}

/* per-channel comparison of two raw destination pixels of the same format; tol in units of that channel's step.
 * chans: bit 0 alpha, bit 1 colour */
static int pix_close(const ph_fmt_t *f, uint32_t a, uint32_t b, int tol, int chans)
{
    for (int c = 0; c < 4; c++) {
        if (c == 0 && !(chans & 1)) continue;
        if (c > 0 && !(chans & 2)) continue;
        int w; int va = (int)ph_chan_raw(f, a, c, &w), vb = (int)ph_chan_raw(f, b, c, &w);
        if (!w) continue;
        if (abs(va - vb) > tol) return 0;
    }
    return 1;
}

/* ------------------------------------------------------------------ pair policy
 * Returns the tolerance (in destination channel steps) for comparing presentations a and b in scenario s,
 * 0 = bit-exact, -1 = pair not compared (counted as skipped, reason in the evidence rule). */
static int c09_pair_policy(const scen_t *s, const pres_t *a, const pres_t *b)
{
    int wide = needs_division(s->op);
    /* P1: r5g6b5 input in the float pipeline is v/31, v/63 - up to 0.4 of an 8-bit step away from the 8888 presentation's byte/255.
     * Operators whose equations are Lipschitz in the inputs keep that within 2 steps.  The four HSL operators are not (set_sat divides
     * by max-min of a colour, so a nearly grey pixel amplifies the input difference: 3-4 steps observed); those pairs are not compared
     * (the r5g6b5 presentations are still compared exactly among themselves). */
    if (a->group != b->group) return !wide ? 0 : rc_is_hsl(s->op) ? -1 : 2;
    /* P2: SATURATE is the one operator whose strength-reduced form changes pipeline: with a source that is visibly opaque
     * the library evaluates OVER_REVERSE in 8-bit arithmetic (product rounded to nearest), with an a8r8g8b8/a8/a1 presentation
     * whose opacity is only in the pixel values it evaluates SATURATE in the float pipeline (result truncated by
     * float_to_unorm).  Both are the value s*(1-da)+d at different precision: one step allowed. */
    int interp = s->fil != 0 && s->xf != 0;      /* the filter really interpolates (with an identity transform bilinear degenerates to nearest) */
    if (s->op == PIXMAN_OP_SATURATE && s->role != 2 && a->recognizable != b->recognizable)
        return interp ? 7 : 1;                   /* an interpolated sample is computed with 7-bit weights and truncated to 8 bits in the 8-bit pipeline, with the full 16-bit
                                                  * fraction and no truncation in float: up to 255/128 per axis + 1 (truncation) + 1.5 (the operator's own rounding) < 7 steps */
    /* P3: in the float pipeline a bits image is interpolated in float (c*w1 + c*w2 + c*w3 + c*w4 is not exactly c), whereas a solid fill or a
     * 1x1 repeating image (format code 'solid', fetched once without interpolation) delivers c itself: last-bit float noise that the
     * truncating float->8-bit store occasionally turns into one step.  Not an opacity matter and not the same arithmetic: one step. */
    int a_direct = a->needs_repeat, b_direct = b->needs_repeat;
    if (wide && interp && s->role == 0 && a_direct != b_direct) return 1;
    return 0;
}

/* ------------------------------------------------------------------ the scenario */
static void run_scenario(const scen_t *s)
{
    char desc[400];
    const rq_t *rq = &RQ[s->rq];
    /* HSL operators have no component-alpha form (the library documents "not supported" and draws nothing): a white component-alpha
     * mask is not a presentation of "no mask" there */
    if (s->role == 1 && s->content == 1 && rc_is_hsl(s->op)) return;
    pixman_repeat_t rep = REP[s->rep];
    int conv = s->fil >= 2;

    /* ---- content of the role under test (logical, opaque) */
    uint32_t role_px[DW * DH]; int rw = SW, rh = SH;
    if (s->role == 2) { rw = DW; rh = DH; }
    for (int i = 0; i < rw * rh; i++) role_px[i] = s->content == 0 ? expand565(CHECK565[(i * 4 + i / rw) % 9]) : expand565(CONST565);
    uint32_t bordered[(SW + 2 * BORDER) * (SH + 2 * BORDER)];
    memset(bordered, 0, sizeof bordered);
    for (int y = 0; y < SH; y++) for (int x = 0; x < SW; x++) bordered[(y + BORDER) * (SW + 2 * BORDER) + x + BORDER] = role_px[y * SW + x];

    /* ---- presentations */
    static pres_t P[MAXP]; int np = 0;
    memset(P, 0, sizeof P);
#define ADD(nm, image, grp) do { pres_t *p_ = &P[np++]; snprintf(p_->name, sizeof p_->name, "%s", nm); p_->im = image; p_->group = grp; p_->present = 1; } while (0)
    int ca_mask = 0;
    /* the explicit-border picture is the same picture shifted by BORDER in source space: exact in 16.16 only for affine transforms
     * (a projective one rounds (row0 + 2 row2).v and truncates x/w, which is not translation invariant for negative x) */
    int affine = XF[s->xf].m[6] == 0 && XF[s->xf].m[7] == 0 && XF[s->xf].m[8] == F(1);
    if (s->role == 0) {
        ADD("x8r8g8b8", mk_bits(PIXMAN_x8r8g8b8, "x8r8g8b8", SW, SH, role_px, 0x17), G_8888);
        ADD("a8r8g8b8(alpha 255)", mk_bits(PIXMAN_a8r8g8b8, "a8r8g8b8", SW, SH, role_px, 0), G_8888);
        ADD("r5g6b5", mk_bits(PIXMAN_r5g6b5, "r5g6b5", SW, SH, role_px, 0), G_565);
        if (rep == PIXMAN_REPEAT_NONE && affine) {
            ADD("a8r8g8b8 with explicit transparent border", mk_bits(PIXMAN_a8r8g8b8, "a8r8g8b8", SW + 2 * BORDER, SH + 2 * BORDER, bordered, 0), G_8888);
            P[np - 1].shift = BORDER; P[np - 1].explicit_border = 1;
        }
        if (s->content == 1) {
            ADD("solid fill", mk_solid(role_px[0]), G_8888); P[np - 1].needs_repeat = 1; P[np - 1].fixed_shape = 1;
            ADD("1x1 a8r8g8b8 repeating", mk_bits(PIXMAN_a8r8g8b8, "a8r8g8b8", 1, 1, role_px, 0), G_8888); P[np - 1].needs_repeat = 1;
            ADD("1x1 x8r8g8b8 repeating", mk_bits(PIXMAN_x8r8g8b8, "x8r8g8b8", 1, 1, role_px, 0x2b), G_8888); P[np - 1].needs_repeat = 1;
            ADD("1x1 r5g6b5 repeating", mk_bits(PIXMAN_r5g6b5, "r5g6b5", 1, 1, role_px, 0), G_565); P[np - 1].needs_repeat = 1;
        }
    } else if (s->role == 1) {
        /* content 0: unified-alpha masks (only alpha matters: colour channels arbitrary); content 1: component-alpha white */
        ca_mask = s->content == 1;
        uint32_t white[SW * SH], anyc[SW * SH], bw[(SW + 2 * BORDER) * (SH + 2 * BORDER)];
        for (int i = 0; i < SW * SH; i++) { white[i] = 0xffffffffu; anyc[i] = ca_mask ? 0xffffffffu : role_px[i]; }
        for (unsigned i = 0; i < sizeof bw / 4; i++) bw[i] = bordered[i] ? (ca_mask ? 0xffffffffu : bordered[i]) : 0;
        ADD("x8r8g8b8", mk_bits(PIXMAN_x8r8g8b8, "x8r8g8b8", SW, SH, anyc, 0x17), G_8888);
        ADD("a8r8g8b8(alpha 255)", mk_bits(PIXMAN_a8r8g8b8, "a8r8g8b8", SW, SH, anyc, 0), G_8888);
        if (!ca_mask) {
            ADD("a8 all-ff", mk_bits(PIXMAN_a8, "a8", SW, SH, white, 0), G_8888);
            ADD("a1 all-1", mk_bits(PIXMAN_a1, "a1", SW, SH, white, 0), G_8888);
        } else {
            ADD("r5g6b5 white", mk_bits(PIXMAN_r5g6b5, "r5g6b5", SW, SH, white, 0), G_8888);   /* white is exact in every expansion */
        }
        if (rep == PIXMAN_REPEAT_NONE && affine) {
            ADD("a8r8g8b8 with explicit transparent border", mk_bits(PIXMAN_a8r8g8b8, "a8r8g8b8", SW + 2 * BORDER, SH + 2 * BORDER, bw, 0), G_8888);
            P[np - 1].shift = BORDER; P[np - 1].explicit_border = 1;
        }
        ADD("solid white", mk_solid(0xffffffffu), G_8888); P[np - 1].needs_repeat = 1; P[np - 1].fixed_shape = 1;
        if (!ca_mask) { ADD("solid opaque (coloured)", mk_solid(role_px[4]), G_8888); P[np - 1].needs_repeat = 1; P[np - 1].fixed_shape = 1; }
        { pres_t *p = &P[np++]; snprintf(p->name, sizeof p->name, "no mask"); p->present = 1; p->needs_repeat = 1; p->fixed_shape = 1; }
        ADD("1x1 a8r8g8b8 ffffffff repeating", mk_bits(PIXMAN_a8r8g8b8, "a8r8g8b8", 1, 1, white, 0), G_8888); P[np - 1].needs_repeat = 1;
        if (!ca_mask) { ADD("1x1 a8 ff repeating", mk_bits(PIXMAN_a8, "a8", 1, 1, white, 0), G_8888); P[np - 1].needs_repeat = 1; }
    } else {
        ADD("x8r8g8b8", mk_bits(PIXMAN_x8r8g8b8, "x8r8g8b8", DW, DH, role_px, 0x31), G_8888);
        ADD("a8r8g8b8(alpha 255)", mk_bits(PIXMAN_a8r8g8b8, "a8r8g8b8", DW, DH, role_px, 0), G_8888);
        ADD("r5g6b5", mk_bits(PIXMAN_r5g6b5, "r5g6b5", DW, DH, role_px, 0), G_565);
    }

    for (int k = 0; k < np; k++) P[k].recognizable = P[k].im.img == NULL || (!ca_mask && (P[k].im.buf == NULL || P[k].im.f.aw == 0));   /* a component-alpha mask is never elided */

    /* ---- context images */
    uint32_t tl33[SW * SH], tlD[DW * DH], opq33[SW * SH], mk33[SW * SH], opqD[DW * DH];
    for (int i = 0; i < SW * SH; i++) { tl33[i] = translucent(i + 3); opq33[i] = expand565(CHECK565[(i * 7 + 2) % 9]); mk33[i] = (uint32_t)((0xff00807f01c0fe40ULL >> ((i % 8) * 8)) & 0xff) * 0x01010101u; }
    for (int i = 0; i < DW * DH; i++) { tlD[i] = translucent(i); opqD[i] = expand565(CHECK565[(i * 5 + 1) % 9]); }
    cimg_t csrc, cmask, cdst; memset(&csrc, 0, sizeof csrc); memset(&cmask, 0, sizeof cmask); memset(&cdst, 0, sizeof cdst);
    model_t msrc, mmask, mrole; memset(&msrc, 0, sizeof msrc); memset(&mmask, 0, sizeof mmask); memset(&mrole, 0, sizeof mrole);
    int have_mask = 0, mask_ca = 0;
    mrole.w = rw; mrole.h = rh; mrole.repeat = rep; memcpy(mrole.px, role_px, sizeof(uint32_t) * rw * rh);
    if (s->role == 1) for (int i = 0; i < SW * SH; i++) mrole.px[i] = 0xffffffffu;
#define MODEL(m, W, H, R, PX) do { (m).w = W; (m).h = H; (m).repeat = R; (m).solid = 0; memcpy((m).px, PX, sizeof(uint32_t) * (W) * (H)); } while (0)
    if (s->role == 0) {
        switch (s->ctx) {
        case 0: cdst = mk_bits(PIXMAN_a8r8g8b8, "a8r8g8b8", DW, DH, tlD, 0); break;
        case 1: cdst = mk_bits(PIXMAN_a8r8g8b8, "a8r8g8b8", DW, DH, tlD, 0);
                cmask = mk_bits(PIXMAN_a8, "a8", SW, SH, mk33, 0); pixman_image_set_repeat(cmask.img, PIXMAN_REPEAT_NORMAL); MODEL(mmask, SW, SH, PIXMAN_REPEAT_NORMAL, mk33); have_mask = 1; break;
        case 2: cdst = mk_bits(PIXMAN_x8r8g8b8, "x8r8g8b8", DW, DH, opqD, 0x0d); pixman_image_set_repeat(cdst.img, PIXMAN_REPEAT_NORMAL); break;
        case 3: cdst = mk_bits(PIXMAN_r5g6b5, "r5g6b5", DW, DH, opqD, 0); break;
        case 4: cdst = mk_bits(PIXMAN_a8r8g8b8, "a8r8g8b8", DW, DH, tlD, 0);
                cmask = mk_bits(PIXMAN_a8r8g8b8, "a8r8g8b8", SW, SH, tl33, 0); pixman_image_set_repeat(cmask.img, PIXMAN_REPEAT_NORMAL); pixman_image_set_component_alpha(cmask.img, 1);
                MODEL(mmask, SW, SH, PIXMAN_REPEAT_NORMAL, tl33); have_mask = 1; mask_ca = 1; break;
        default: cdst = mk_bits(PIXMAN_a8, "a8", DW, DH, tlD, 0);
                cmask = mk_solid(0x80808080u); mmask.solid = 1; mmask.px[0] = 0x80808080u; have_mask = 1; break;
        }
    } else if (s->role == 1) {
        /* ctx 0-3: translucent|opaque source x translucent|opaque destination (the four columns of operator_table), sources REPEAT_NORMAL and
         * untransformed; ctx 4 (thorough): opaque x8r8g8b8 REPEAT_PAD source, which is fetched per pixel; ctx 5 (thorough): solid source, r5g6b5 destination */
        int so = (s->ctx == 1 || s->ctx == 3 || s->ctx == 4), dopq = (s->ctx == 2 || s->ctx == 3);
        pixman_repeat_t srep = s->ctx == 4 ? PIXMAN_REPEAT_PAD : PIXMAN_REPEAT_NORMAL;
        if (s->ctx == 5) { csrc = mk_solid(0x80402010u); msrc.solid = 1; msrc.px[0] = 0x80402010u; cdst = mk_bits(PIXMAN_r5g6b5, "r5g6b5", DW, DH, opqD, 0); }
        else {
            if (so) { csrc = mk_bits(PIXMAN_x8r8g8b8, "x8r8g8b8", SW, SH, opq33, 0x21); pixman_image_set_repeat(csrc.img, srep); MODEL(msrc, SW, SH, srep, opq33); }
            else { csrc = mk_bits(PIXMAN_a8r8g8b8, "a8r8g8b8", SW, SH, tl33, 0); pixman_image_set_repeat(csrc.img, srep); MODEL(msrc, SW, SH, srep, tl33); }
            if (dopq) { cdst = mk_bits(PIXMAN_x8r8g8b8, "x8r8g8b8", DW, DH, opqD, 0x0d); pixman_image_set_repeat(cdst.img, PIXMAN_REPEAT_NORMAL); }
            else cdst = mk_bits(PIXMAN_a8r8g8b8, "a8r8g8b8", DW, DH, tlD, 0);
        }
        have_mask = 1; mask_ca = ca_mask;
    } else {
        /* role destination: the scenario's transform and filter go on the (context) source, the repeat on the destination */
        switch (s->ctx) {
        case 0: csrc = mk_bits(PIXMAN_a8r8g8b8, "a8r8g8b8", SW, SH, tl33, 0); pixman_image_set_repeat(csrc.img, PIXMAN_REPEAT_NORMAL); MODEL(msrc, SW, SH, PIXMAN_REPEAT_NORMAL, tl33); break;
        case 1: csrc = mk_bits(PIXMAN_a8r8g8b8, "a8r8g8b8", SW, SH, tl33, 0); pixman_image_set_repeat(csrc.img, PIXMAN_REPEAT_NORMAL); MODEL(msrc, SW, SH, PIXMAN_REPEAT_NORMAL, tl33);
                cmask = mk_bits(PIXMAN_a8, "a8", SW, SH, mk33, 0); pixman_image_set_repeat(cmask.img, PIXMAN_REPEAT_NORMAL); MODEL(mmask, SW, SH, PIXMAN_REPEAT_NORMAL, mk33); have_mask = 1; break;
        case 2: csrc = mk_bits(PIXMAN_x8r8g8b8, "x8r8g8b8", SW, SH, opq33, 0x21); pixman_image_set_repeat(csrc.img, PIXMAN_REPEAT_PAD); MODEL(msrc, SW, SH, PIXMAN_REPEAT_PAD, opq33); break;
        case 3: csrc = mk_solid(0x80402010u); msrc.solid = 1; msrc.px[0] = 0x80402010u; break;
        case 4: csrc = mk_bits(PIXMAN_x8r8g8b8, "x8r8g8b8", SW, SH, opq33, 0x21); MODEL(msrc, SW, SH, PIXMAN_REPEAT_NONE, opq33); break;
        default: csrc = mk_bits(PIXMAN_a8r8g8b8, "a8r8g8b8", SW, SH, tl33, 0); pixman_image_set_repeat(csrc.img, PIXMAN_REPEAT_NORMAL); MODEL(msrc, SW, SH, PIXMAN_REPEAT_NORMAL, tl33);
                cmask = mk_bits(PIXMAN_a8r8g8b8, "a8r8g8b8", SW, SH, tl33, 0); pixman_image_set_repeat(cmask.img, PIXMAN_REPEAT_REFLECT); pixman_image_set_component_alpha(cmask.img, 1);
                MODEL(mmask, SW, SH, PIXMAN_REPEAT_REFLECT, tl33); have_mask = 1; mask_ca = 1; break;
        }
        if (csrc.buf) { set_xf(csrc.img, &XF[s->xf], 0); set_filter(csrc.img, s->fil); }
    }

    /* ---- run every presentation */
    uint8_t *dst0 = NULL; size_t dsz = 0;
    if (cdst.img) { dsz = (size_t)cdst.stride * cdst.h; dst0 = malloc(dsz); memcpy(dst0, cdst.buf, dsz); }
    ph_set_cfg(s->cfg);
    int ncomp = 0;
    for (int k = 0; k < np; k++) {
        pres_t *p = &P[k];
        pixman_image_t *src, *mask, *dst; cimg_t *d;
        if (s->role != 2 && p->im.img) {
            /* solid fills take the properties too: they must be ignored */
            pixman_image_set_repeat(p->im.img, (p->needs_repeat && rep == PIXMAN_REPEAT_NONE) ? PIXMAN_REPEAT_NORMAL : rep);
            set_xf(p->im.img, &XF[s->xf], p->shift);
            set_filter(p->im.img, s->fil);
            if (s->role == 1 && ca_mask) pixman_image_set_component_alpha(p->im.img, ph_truthy((uint64_t)k + (uint64_t)s->rq));
        }
        if (s->clip && p->im.img) {
            /* the same clip on every presentation, in the image's own coordinates, cutting the request in two places */
            int ox = s->role == 2 ? DX : rq->sx, oy = s->role == 2 ? DY : rq->sy;
            pixman_box32_t cb[2] = { { ox + 1, oy, ox + rq->w - 1, oy + 1 }, { ox, oy + 1, ox + (rq->w + 1) / 2, oy + rq->h } };
            pixman_region32_t cr; pixman_region32_init_rects(&cr, cb, 2);
            pixman_image_set_clip_region32(p->im.img, &cr); pixman_region32_fini(&cr);
            pixman_image_set_has_client_clip(p->im.img, ph_truthy((uint64_t)s->op + (uint64_t)k)); pixman_image_set_source_clipping(p->im.img, ph_truthy((uint64_t)s->ctx + (uint64_t)k + 1));
        }
        if (s->clip && !p->im.img) continue;           /* "no mask" cannot carry the clip */
        if (s->role == 0) { src = p->im.img; mask = cmask.img; d = &cdst; }
        else if (s->role == 1) { src = csrc.img; mask = p->im.img; d = &cdst; }
        else { src = csrc.img; mask = cmask.img; d = &p->im; pixman_image_set_repeat(p->im.img, rep); }
        dst = d->img;
        if (s->role != 2) memcpy(cdst.buf, dst0, dsz);
        last.valid = 0; cur_op = s->op; cur_src = src; cur_mask = mask;
        pixman_image_composite32(s->op, src, mask, dst, rq->sx, rq->sy, rq->sx, rq->sy, DX, DY, rq->w, rq->h);
        cur_op = -1; ncomp++;
        p->dec_valid = last.valid; p->dec_op = last.op; p->dec_src_opq = last.src_opq; p->dec_mask_null = last.mask_null; p->dec_mask_opq = last.mask_opq; p->dec_dst_opq = last.dst_opq;
        p->dfmt = d->f;
        for (int y = 0; y < DH; y++) for (int x = 0; x < DW; x++) p->out[y * DW + x] = ph_get_pixel((uint8_t *)d->buf + (size_t)y * d->stride, d->f.bpp, x);
        /* row padding must be untouched (0x5a fill) */
        for (int y = 0; y < DH; y++) {
            const uint8_t *pad = (uint8_t *)d->buf + (size_t)y * d->stride + d->stride - 4;
            if (pad[0] != 0x5a || pad[1] != 0x5a || pad[2] != 0x5a || pad[3] != 0x5a) {
                describe(s, desc, sizeof desc);
                vf_violation("c09-row-padding-written", "%s presentation=%s: destination row padding of row %d modified", desc, p->name, y);
            }
        }
    }
    vf_count_libcalls((uint64_t)ncomp);

    /* ---- compare presentations */
    int base8 = -1, base565 = -1, compared = 0, dec_differ = 0;
    int role_none_or_conv_ok[MAXP];
    for (int k = 0; k < np; k++) {
        pres_t *p = &P[k];
        int ok = 1;
        if (p->needs_repeat && rep == PIXMAN_REPEAT_NONE) ok = 0;    /* a REPEAT_NONE picture is transparent outside: solid/1x1 are other pictures */
        if (p->fixed_shape && conv) ok = 0;                           /* a solid fill has no filter: outside the statement */
        if (p->needs_repeat && !p->fixed_shape && conv) ok = 0;       /* 1x1 images under convolution: outside the statement */
        if (s->clip && !p->im.img) ok = 0;                            /* "no mask" cannot carry the role image's clip */
        role_none_or_conv_ok[k] = ok;
    }
    for (int k = 0; k < np && !vf_failed(); k++) {
        pres_t *p = &P[k];
        if (!role_none_or_conv_ok[k]) continue;
        int *basep = p->group == G_8888 ? &base8 : &base565;
        if (*basep < 0) { *basep = k; continue; }
        /* same-group comparison against the group's first member */
        for (int pass = 0; pass < 1; pass++) {
            pres_t *q = &P[*basep];
            int tol = c09_pair_policy(s, q, p);
            if (tol < 0) { if (!vf_in_confirm) __atomic_add_fetch(&cov->skipped_pairs, 1, __ATOMIC_RELAXED); continue; }
            compared++;
            if (!vf_in_confirm) __atomic_add_fetch(tol ? &cov->tol_pairs : &cov->exact_pairs, 1, __ATOMIC_RELAXED);
            if (p->dec_valid != q->dec_valid || p->dec_op != q->dec_op || p->dec_src_opq != q->dec_src_opq || p->dec_mask_null != q->dec_mask_null || p->dec_dst_opq != q->dec_dst_opq) dec_differ = 1;
            for (int i = 0; i < DW * DH; i++) {
                int okpix;
                if (s->role != 2 || p->dfmt.code == q->dfmt.code) okpix = pix_close(&p->dfmt, q->out[i], p->out[i], tol, 3);
                else okpix = pix_close(&q->dfmt, q->out[i] | 0xff000000u, p->out[i] | 0xff000000u, tol, 2);     /* x8r8g8b8 vs a8r8g8b8 destination: colour channels */
                if (!okpix) {
                    describe(s, desc, sizeof desc);
                    /* Known defect class (not an opacity matter, found by this differential): in the float pipeline the per-pixel bits-image
                     * fetchers (__bits_image_fetch_affine_no_alpha, __bits_image_fetch_general) test "mask[i]" on the argb_t mask buffer with the
                     * 8-bit pipeline's stride, so a transformed / PAD / REFLECT / convolution-filtered bits source under a real mask loses pixels
                     * (SRC, translated a8r8g8b8 source, a8 mask all ff, a2r10g10b10 destination: 3 of 4 pixels stay unwritten).
                     * It shows here when one presentation goes through a per-pixel fetcher and the other does not. */
                    int perpix = s->xf != 0 || conv || rep == PIXMAN_REPEAT_PAD || rep == PIXMAN_REPEAT_REFLECT;     /* not the untransformed NONE/NORMAL fetcher */
                    int pt = p->im.buf && (perpix || p->shift), qt = q->im.buf && (perpix || q->shift);
                    const char *key = s->role == 0 ? "c09-source-presentations-differ" : s->role == 1 ? "c09-mask-presentations-differ" : "c09-dest-presentations-differ";
                    if (s->role == 0 && have_mask && needs_division(s->op) && pt != qt) key = "c09-wide-masked-perpixel-fetch-skips-pixels";
                    /* mask role: the context source of ctx 4 is REPEAT_PAD, i.e. fetched per pixel; the presentations differ in whether a mask buffer reaches that fetcher */
                    if (s->role == 1 && s->ctx == 4 && needs_division(s->op)) key = "c09-wide-masked-perpixel-fetch-skips-pixels";
                    vf_violation(key,
                                 "%s: presentation '%s' (dispatched op=%s src_opaque=%d mask_elided=%d dst_opaque=%d) gives %08x at dest pixel (%d,%d), presentation '%s' (op=%s src_opaque=%d mask_elided=%d dst_opaque=%d) gives %08x; allowed difference %d step(s)",
                                 desc, q->name, rc_op_name(q->dec_op), q->dec_src_opq && q->dec_mask_opq, q->dec_mask_null, q->dec_dst_opq, q->out[i], i % DW, i / DW,
                                 p->name, rc_op_name(p->dec_op), p->dec_src_opq && p->dec_mask_opq, p->dec_mask_null, p->dec_dst_opq, p->out[i], tol);
                    break;
                }
            }
        }
    }
    /* cross-group: r5g6b5 presentations against the 8888 ones */
    if (base8 >= 0 && base565 >= 0 && !vf_failed()) {
        pres_t *q = &P[base8], *p = &P[base565];
        int tol = c09_pair_policy(s, q, p);
        if (tol < 0) { if (!vf_in_confirm) __atomic_add_fetch(&cov->skipped_pairs, 1, __ATOMIC_RELAXED); }
        else {
            compared++;
            if (!vf_in_confirm) __atomic_add_fetch(tol ? &cov->tol_pairs : &cov->exact_pairs, 1, __ATOMIC_RELAXED);
            if (p->dec_valid != q->dec_valid || p->dec_op != q->dec_op || p->dec_src_opq != q->dec_src_opq || p->dec_dst_opq != q->dec_dst_opq) dec_differ = 1;
            for (int i = 0; i < DW * DH; i++) {
                int okpix;
                if (s->role != 2) okpix = pix_close(&p->dfmt, q->out[i], p->out[i], tol, 3);
                else {
                    /* r5g6b5 destination against the x8r8g8b8 one: same computation, result truncated to 5/6/5 bits on store */
                    uint32_t t = ph_from_8888(&p->dfmt, q->out[i]);
                    okpix = pix_close(&p->dfmt, t, p->out[i], tol, 2);
                }
                if (!okpix) {
                    describe(s, desc, sizeof desc);
                    vf_violation(s->role == 2 ? "c09-dest-565-vs-8888-differ" : "c09-565-vs-8888-presentations-differ",
                                 "%s: presentation '%s' (dispatched op=%s) gives %08x at dest pixel (%d,%d), presentation '%s' (op=%s) gives %08x; allowed difference %d step(s)%s",
                                 desc, q->name, rc_op_name(q->dec_op), q->out[i], i % DW, i / DW, p->name, rc_op_name(p->dec_op), p->out[i], tol,
                                 s->role == 2 ? " after truncating the 8888 result to 565" : "");
                    break;
                }
            }
        }
    }

    /* ---- absolute anchor: exact operators, untransformed, nearest/bilinear (identity => same), 8888 results vs rc_exact_pixel */
    if (!vf_failed() && rc_is_exact_op(s->op) && s->xf == 0 && !conv && base8 >= 0 && !s->clip) {
        pres_t *q = &P[base8];
        int npx = 0;
        if (q->dfmt.bpp == 32) {
            for (int y = 0; y < rq->h && !vf_failed(); y++) for (int x = 0; x < rq->w; x++) {
                int dx = DX + x, dy = DY + y;
                if (dx >= DW || dy >= DH) continue;
                uint32_t sp, mp = 0, dp; int mode = RC_MASK_NONE;
                if (s->role == 0) sp = model_at(&mrole, rq->sx + x, rq->sy + y); else sp = model_at(&msrc, rq->sx + x, rq->sy + y);
                if (s->role == 1) { mp = model_at(&mrole, rq->sx + x, rq->sy + y); mode = mask_ca ? RC_MASK_CA : RC_MASK_UNIFIED; }
                else if (have_mask) { mp = model_at(&mmask, rq->sx + x, rq->sy + y); mode = mask_ca ? RC_MASK_CA : RC_MASK_UNIFIED; }
                if (s->role == 2) dp = role_px[dy * DW + dx];
                else { uint32_t raw = ph_get_pixel(dst0 + (size_t)dy * cdst.stride, 32, dx); dp = cdst.f.aw ? raw : (raw | 0xff000000u); }
                uint32_t want = rc_exact_pixel(s->op, mode, sp, mp, dp), got = q->out[dy * DW + dx];
                uint32_t cmpmask = q->dfmt.aw ? 0xffffffffu : 0x00ffffffu;
                npx++;
                if ((want ^ got) & cmpmask) {
                    describe(s, desc, sizeof desc);
                    vf_violation("c09-differs-from-operator-equations", "%s presentation=%s: dest pixel (%d,%d): source %08x mask %08x(mode %d) dest %08x: equations give %08x, library %08x (compared bits %08x)",
                                 desc, q->name, dx, dy, sp, mp, mode, dp, want, got, cmpmask);
                    break;
                }
            }
            /* the a8r8g8b8(alpha 255) destination presentation: its alpha channel too must follow the equations */
            if (s->role == 2 && !vf_failed()) {
                pres_t *a = &P[1];
                for (int y = 0; y < rq->h && !vf_failed(); y++) for (int x = 0; x < rq->w; x++) {
                    int dx = DX + x, dy = DY + y; if (dx >= DW || dy >= DH) continue;
                    uint32_t sp = model_at(&msrc, rq->sx + x, rq->sy + y), mp = 0; int mode = RC_MASK_NONE;
                    if (have_mask) { mp = model_at(&mmask, rq->sx + x, rq->sy + y); mode = mask_ca ? RC_MASK_CA : RC_MASK_UNIFIED; }
                    uint32_t want = rc_exact_pixel(s->op, mode, sp, mp, role_px[dy * DW + dx]), got = a->out[dy * DW + dx];
                    npx++;
                    if (want != got) {
                        describe(s, desc, sizeof desc);
                        vf_violation("c09-dest-alpha-differs-from-operator-equations", "%s presentation=%s: dest pixel (%d,%d): source %08x mask %08x dest %08x: equations give %08x, library %08x",
                                     desc, a->name, dx, dy, sp, mp, role_px[dy * DW + dx], want, got);
                        break;
                    }
                }
            }
        }
        if (!vf_in_confirm && npx) { __atomic_add_fetch(&cov->ref_pixels, (uint64_t)npx, __ATOMIC_RELAXED); __atomic_add_fetch(&cov->ref_cases, 1, __ATOMIC_RELAXED); }
    }

    /* ---- evidence */
    if (!vf_in_confirm) {
        pres_t *b = &P[base8 >= 0 ? base8 : 0];
        int changed = 0;
        if (s->role != 2) { for (int i = 0; i < DW * DH && !changed; i++) if (b->out[i] != ph_get_pixel(dst0 + (size_t)(i / DW) * cdst.stride, cdst.f.bpp, i % DW)) changed = 1; }
        else { for (int i = 0; i < DW * DH && !changed; i++) if ((b->out[i] ^ role_px[i]) & 0xffffff) changed = 1; }
        vf_count_eval(1);
        if (dec_differ) __atomic_add_fetch(&cov->decisions_differ, 1, __ATOMIC_RELAXED);
        if (dec_differ && changed && compared) vf_count_nontrivial(1);
        int has_border = 0; for (int k = 0; k < np; k++) if (P[k].explicit_border && role_none_or_conv_ok[k]) has_border = 1;
        if (has_border) __atomic_add_fetch(&cov->outside_explicit, 1, __ATOMIC_RELAXED);
        uint64_t h = vf_hash64(b->out, sizeof b->out, (uint64_t)s->op * 3 + (uint64_t)s->role);
        vf_outcome(h);
        if (vf_want_sample() && vf->nsamples < 6 /* the rest of the sample quota is left to the gradients space */ && dec_differ && changed && s->rq == 5 && (s->op == PIXMAN_OP_OVER || s->op == PIXMAN_OP_ATOP || s->op == PIXMAN_OP_SATURATE || s->op == PIXMAN_OP_IN_REVERSE)) {
            describe(s, desc, sizeof desc);
            char list[520]; size_t l = 0; list[0] = 0;
            for (int k = 0; k < np && l + 60 < sizeof list; k++) if (role_none_or_conv_ok[k]) l += snprintf(list + l, sizeof list - l, "%s'%s'->%s", l ? ", " : "", P[k].name, P[k].dec_valid ? rc_op_name(P[k].dec_op) : "(empty)");
            vf_sample("%s: %d presentations compared, dispatched as {%s}; all destinations equal", desc, compared + 1, list);
        }
    }

    for (int k = 0; k < np; k++) cimg_free(&P[k].im);
    cimg_free(&csrc); cimg_free(&cmask); cimg_free(&cdst); free(dst0);
}

#include "c09_gradients.h"      /* space "gradients": gradient image vs pre-rendered copy */

/* ---------------------------------------------------------------- space "trapezoid-shortcut"
 * pixman_composite_trapezoids rasterises straight into the destination when it judges the source opaque (ADD, mask format = destination
 * format, no clip): an opacity-based simplification outside pixman_image_composite32.  Sources that LOOK opaque in their stored pixels
 * but are not (alpha map, read accessor) and sources that are opaque without being flagged so are drawn through the entry point and through
 * the unsimplified route (pixman_add_trapezoids into a temporary mask + composite32); destinations must be equal bit for bit.  The same
 * request with a clip that contains the whole destination (which disables the shortcut) is a third presentation. */
#define TS_NSRC 10
static const char *ts_srcname[TS_NSRC] = { "solid-opaque", "solid-alpha-80", "1x1-a8r8g8b8-ff-repeat", "1x1-a8r8g8b8-ff-repeat+alpha-map-80", "1x1-a8r8g8b8-ff-repeat+read-accessor(alpha 40)",
    "1x1-x8r8g8b8-repeat", "1x1-x8r8g8b8-repeat+alpha-map-80", "4x4-a8r8g8b8-all-ff-repeat", "4x4-x8r8g8b8-repeat+alpha-map(ramp)", "1x1-a8-ff-repeat+alpha-map-80" };
static uint32_t ts_acc_read(const void *p, int size) { (void)size; return (*(const uint32_t *)p & 0x00ffffffu) | 0x40000000u; }
static void ts_acc_write(void *p, uint32_t v, int size) { (void)size; *(uint32_t *)p = v; }
typedef struct { pixman_image_t *img, *amap; uint32_t px[16]; uint32_t apx[16]; } ts_src_t;
static void ts_make_src(ts_src_t *t, int k)
{
    memset(t, 0, sizeof *t);
    pixman_color_t c0 = { 0xffff, 0x8080, 0x4040, 0xffff }, c1 = { 0x8080, 0x4040, 0x2020, 0x8080 };
    for (int i = 0; i < 16; i++) { t->px[i] = 0xff804020u; t->apx[i] = 0x80808080u; }
    switch (k) {
    case 0: t->img = pixman_image_create_solid_fill(&c0); return;
    case 1: t->img = pixman_image_create_solid_fill(&c1); return;
    case 2: case 3: case 4: t->img = pixman_image_create_bits(PIXMAN_a8r8g8b8, 1, 1, t->px, 4); break;
    case 5: case 6: t->img = pixman_image_create_bits(PIXMAN_x8r8g8b8, 1, 1, t->px, 4); break;
    case 7: t->img = pixman_image_create_bits(PIXMAN_a8r8g8b8, 4, 4, t->px, 16); break;
    case 8: t->img = pixman_image_create_bits(PIXMAN_x8r8g8b8, 4, 4, t->px, 16); break;
    default: t->px[0] = 0xffffffffu; t->img = pixman_image_create_bits(PIXMAN_a8, 1, 1, t->px, 4); break;
    }
    pixman_image_set_repeat(t->img, PIXMAN_REPEAT_NORMAL);
    if (k == 3 || k == 6 || k == 9) { t->amap = pixman_image_create_bits(PIXMAN_a8, 1, 1, t->apx, 4); pixman_image_set_alpha_map(t->img, t->amap, 0, 0); }
    if (k == 8) { for (int i = 0; i < 16; i++) ((uint8_t *)t->apx)[(i / 4) * 4 + i % 4] = (uint8_t)(0x10 + 0x0f * i); t->amap = pixman_image_create_bits(PIXMAN_a8, 4, 4, t->apx, 4); pixman_image_set_alpha_map(t->img, t->amap, 0, 0); }
    if (k == 4) pixman_image_set_accessors(t->img, ts_acc_read, ts_acc_write);
}
static void ts_free_src(ts_src_t *t) { pixman_image_unref(t->img); if (t->amap) pixman_image_unref(t->amap); }
typedef struct { const int *cfgs; int ncfg; } ts_ctx;
static void trapshort_case(uint64_t idx, void *vctx)
{
    const ts_ctx *c = vctx;
    static const pixman_format_code_t dfm[3] = { PIXMAN_a8, PIXMAN_a4, PIXMAN_a1 };
    static const char *dfn[3] = { "a8", "a4", "a1" };
    static const pixman_op_t ops[2] = { PIXMAN_OP_ADD, PIXMAN_OP_OVER };
    int dims[6] = { TS_NSRC, 3, 3, 2, 3, c->ncfg }, v[6]; vf_decode(idx, dims, 6, v);
    int sk = v[0], di = v[1], mi = v[2], oi = v[3], li = v[4];
    enum { W = 9, H = 5 };
    static const pixman_trapezoid_t TL[3][2] = {
        { { 1 << 16, 4 << 16, { { 1 << 16, 1 << 16 }, { 1 << 16, 4 << 16 } }, { { 7 << 16, 1 << 16 }, { 7 << 16, 4 << 16 } } }, { 0, 0, { { 0, 0 }, { 0, 0 } }, { { 0, 0 }, { 0, 0 } } } },
        { { 0x8000, 0x48000, { { 0x18000, 0 }, { 0x4000, 0x50000 } }, { { 0x58000, 0 }, { 0x8c000, 0x50000 } } }, { 0x20000, 0x30000, { { 0, 0x20000 }, { 0, 0x30000 } }, { { 0x90000, 0x20000 }, { 0x90000, 0x30000 } } } },
        { { -0x10000, 0x70000, { { -0x20000, -0x10000 }, { 0x30000, 0x70000 } }, { { 0x60000, -0x10000 }, { 0xb0000, 0x70000 } } }, { 0, 0, { { 0, 0 }, { 0, 0 } }, { { 0, 0 }, { 0, 0 } } } } };
    int nt = li == 1 ? 2 : 1;
    ph_set_cfg(c->cfgs[v[5]]);
    int stride = 16; uint8_t buf[3][16 * H], init[16 * H];
    for (int i = 0; i < 16 * H; i++) init[i] = (uint8_t)(vf_mix((uint64_t)i, 77) & (di == 0 ? 0x7f : 0xff));
    ts_src_t s; ts_make_src(&s, sk);
    for (int pres = 0; pres < 3; pres++) {
        memcpy(buf[pres], init, sizeof init);
        pixman_image_t *dst = pixman_image_create_bits(dfm[di], W, H, (uint32_t *)buf[pres], stride);
        if (pres == 0) pixman_composite_trapezoids(ops[oi], s.img, dst, dfm[mi], 0, 0, 0, 0, nt, TL[li]);
        else if (pres == 1) {
            pixman_region32_t r; pixman_region32_init_rect(&r, 0, 0, W, H); pixman_image_set_clip_region32(dst, &r); pixman_region32_fini(&r);
            pixman_composite_trapezoids(ops[oi], s.img, dst, dfm[mi], 0, 0, 0, 0, nt, TL[li]);
        } else {
            uint8_t mbuf[16 * H]; memset(mbuf, 0, sizeof mbuf);
            pixman_image_t *m = pixman_image_create_bits(dfm[mi], W, H, (uint32_t *)mbuf, stride);
            pixman_add_trapezoids(m, 0, 0, nt, TL[li]);
            pixman_image_composite32(ops[oi], s.img, m, dst, 0, 0, 0, 0, 0, 0, W, H);
            pixman_image_unref(m);
        }
        pixman_image_unref(dst);
    }
    ts_free_src(&s);
    vf_count_libcalls(4); vf_count_eval(1);
    if (memcmp(buf[2], init, sizeof init)) vf_count_nontrivial(1);
    if (!vf_in_confirm) vf_outcome(vf_hash64(buf[2], sizeof init, (uint64_t)di));
    char cfgn[64];
    for (int pres = 0; pres < 2; pres++) if (memcmp(buf[pres], buf[2], sizeof init)) {
        int at = 0; for (int i = 0; i < 16 * H; i++) if (buf[pres][i] != buf[2][i]) { at = i; break; }
        vf_violation("c09-trapezoid-entry-differs-from-mask-route", "pixman_composite_trapezoids(op=%s, source %s, destination %s %dx%d%s, mask_format %s, trapezoid list %d) PIXMAN_DISABLE=[%s]: byte %d of row %d is %#04x, "
                     "rasterising into a temporary mask and compositing it gives %#04x (initial %#04x)", oi ? "OVER" : "ADD", ts_srcname[sk], dfn[di], W, H, pres ? " clipped to its own extents" : "", dfn[mi], li,
                     ph_cfg_name(c->cfgs[v[5]], cfgn, sizeof cfgn), at % 16, at / 16, buf[pres][at], buf[2][at], init[at]);
        return;
    }
}

typedef struct { int dims[10]; const int *cfgs; } ctx_t;
static void scen_case(uint64_t idx, void *vctx)
{
    ctx_t *c = vctx; int d[10];
    vf_decode(idx, c->dims, 10, d);
    /* digit order (fastest first): request, filter, repeat, transform, ctx, content, role, op, cfg */
    scen_t s = { rc_all_ops[d[7]], d[6], d[5], d[4], d[3], d[2], d[1], d[0], c->cfgs[d[8]], d[9] };
    if (vf_verbose) { char desc[400]; describe(&s, desc, sizeof desc); printf("  scenario: %s\n", desc); }
    run_scenario(&s);
}

/* ------------------------------------------------------------------ space "solid-fill": the fill entry points present a solid colour too.
 * pixman_image_fill_rectangles(op, dst, colour) decides from the colour's alpha whether OVER may become SRC and whether memory may be
 * filled directly; the same colour composited as a solid image with the same operator must give the same bits (both are evaluated at
 * the precision the destination format selects), for colours that are exactly opaque and for colours that are almost opaque. */
static const pixman_format_code_t FD_FMT[] = { PIXMAN_a8r8g8b8, PIXMAN_x8r8g8b8, PIXMAN_r5g6b5, PIXMAN_a8, PIXMAN_a1r5g5b5, PIXMAN_a2r10g10b10, PIXMAN_x2b10g10r10, PIXMAN_a8r8g8b8_sRGB, PIXMAN_rgba_float, PIXMAN_rgb_float };
static const char *FD_FMTN[] = { "a8r8g8b8", "x8r8g8b8", "r5g6b5", "a8", "a1r5g5b5", "a2r10g10b10", "x2b10g10r10", "a8r8g8b8_sRGB", "rgba_float", "rgb_float" };
#define FD_NFMT 10
static const uint16_t FD_ALPHA[] = { 0xffff, 0xfffe, 0xff80, 0xff00, 0xfeff, 0xc000, 0x0001, 0x0000 };
#define FD_NALPHA 8
typedef struct { const int *cfgs; int ncfg; } fd_ctx;
static void fill_case(uint64_t idx, void *vctx)
{
    fd_ctx *c = vctx;
    int dims[5] = { 3, FD_NALPHA, FD_NFMT, RC_NOPS, c->ncfg }, d[5];
    vf_decode(idx, dims, 5, d);
    int op = rc_all_ops[d[3]]; uint16_t a = FD_ALPHA[d[1]];
    ph_set_cfg(c->cfgs[d[4]]);
    /* premultiplied colours: channels <= alpha */
    pixman_color_t col = { d[0] == 0 ? a : d[0] == 1 ? (uint16_t)(a / 2) : 0, d[0] == 0 ? (uint16_t)(a / 3) : d[0] == 1 ? a : (uint16_t)(a & 0xff00), d[0] == 2 ? a : (uint16_t)(a >> 9), a };
    int bpp = PIXMAN_FORMAT_BPP(FD_FMT[d[2]]); int W = 5, H = 2; int stride = ((W * bpp + 31) / 32) * 4;
    size_t sz = (size_t)stride * H;
    uint32_t *b1 = malloc(sz), *b2 = malloc(sz);
    if (FD_FMT[d[2]] == PIXMAN_rgba_float || FD_FMT[d[2]] == PIXMAN_rgb_float) {
        int nc = bpp / 32; float *f = (float *)b1;
        for (int i = 0; i < W * H; i++) { float al = (float)((i * 3) % 5) / 4.0f; for (int k = 0; k < nc; k++) f[i * nc + k] = k == 3 ? al : (nc == 4 ? al : 1.0f) * (float)((i + 2 * k) % 4) / 3.0f; }
    } else {
        ph_fmt_t f; ph_fmt_describe(FD_FMT[d[2]], FD_FMTN[d[2]], &f);
        for (int y = 0; y < H; y++) for (int x = 0; x < W; x++) ph_put_pixel((uint8_t *)b1 + (size_t)y * stride, bpp, x, ph_from_8888(&f, translucent(y * W + x + 1)));
    }
    memcpy(b2, b1, sz);
    pixman_image_t *d1 = pixman_image_create_bits(FD_FMT[d[2]], W, H, b1, stride), *d2 = pixman_image_create_bits(FD_FMT[d[2]], W, H, b2, stride);
    pixman_rectangle16_t r = { 1, 0, 3, 2 };
    pixman_bool_t ok = pixman_image_fill_rectangles((pixman_op_t)op, d1, &col, 1, &r);
    pixman_image_t *solid = pixman_image_create_solid_fill(&col);
    pixman_image_composite32((pixman_op_t)op, solid, NULL, d2, 0, 0, 0, 0, 1, 0, 3, 2);
    vf_count_eval(1); vf_count_libcalls(2);
    int diff = -1; char cfgn[64];
    for (size_t i = 0; i < sz; i++) if (((uint8_t *)b1)[i] != ((uint8_t *)b2)[i]) { diff = (int)i; break; }
    if (!ok) vf_violation("c09-fill-refused", "pixman_image_fill_rectangles(%s, %s, colour a=%#x r=%#x g=%#x b=%#x) [%s] returned FALSE", rc_op_name(op), FD_FMTN[d[2]], col.alpha, col.red, col.green, col.blue, ph_cfg_name(c->cfgs[d[4]], cfgn, sizeof cfgn));
    else if (diff >= 0) {
        int px = diff % stride * 8 / bpp, py = diff / stride; char h1[80] = "", h2[80] = ""; int nb = bpp / 8 ? bpp / 8 : 1;
        for (int k = 0; k < nb && k < 16; k++) { sprintf(h1 + 2 * k, "%02x", ((uint8_t *)b1)[(size_t)py * stride + (size_t)px * nb + k]); sprintf(h2 + 2 * k, "%02x", ((uint8_t *)b2)[(size_t)py * stride + (size_t)px * nb + k]); }
        vf_violation("c09-fill-differs-from-solid-composite", "operator %s, destination %s 5x2, colour a=%#x r=%#x g=%#x b=%#x [%s]: pixman_image_fill_rectangles and compositing the same colour as a solid image "
                     "differ at pixel (%d,%d): fill bytes %s, composite bytes %s (a colour is opaque only if its alpha is exactly 0xffff)", rc_op_name(op), FD_FMTN[d[2]], col.alpha, col.red, col.green, col.blue,
                     ph_cfg_name(c->cfgs[d[4]], cfgn, sizeof cfgn), px, py, h1, h2);
    }
    if (!vf_in_confirm) { if (memcmp(b2, b1, sz) == 0) { uint32_t *b0 = b2; (void)b0; } vf_count_nontrivial(1); vf_outcome(vf_mix(vf_hash64(b2, sz, (uint64_t)op), (uint64_t)d[2])); }
    pixman_image_unref(solid); pixman_image_unref(d1); pixman_image_unref(d2); free(b1); free(b2);
}

/* ------------------------------------------------------------------ space "indexed": a palette image and its a8r8g8b8 expansion
 * A c8 image presents whatever its palette says.  Whether the library may treat it as opaque depends on the palette's CURRENT contents
 * (the library keeps the caller's table, which the caller may edit): variant 0 opaque palette, 1 translucent palette, 2 palette opaque at
 * the first use and edited in place to the translucent one afterwards.  Every variant must draw exactly like the a8r8g8b8 image that
 * holds the palette colours of the same indices. */
typedef struct { const int *cfgs; int ncfg; } ix_ctx;
static void indexed_case(uint64_t idx, void *vctx)
{
    ix_ctx *c = vctx;
    int dims[6] = { 2, 3, 2, 4, RC_NOPS, c->ncfg }, d[6];
    vf_decode(idx, dims, 6, d);
    int rqk = d[0], var = d[1], role = d[2], rep = d[3], op = rc_all_ops[d[4]];
    if (role == 1 && rc_is_hsl(op)) { /* unified mask: fine */ }
    static pixman_indexed_t palbuf[2];      /* [0] the image's table, [1] scratch */
    pixman_indexed_t *P = &palbuf[0];
    memset(P, 0, sizeof *P); P->color = 1;
    for (int i = 0; i < 256; i++) { unsigned r = (unsigned)(i * 37 + 11) & 0xff, g = (unsigned)(i * 91 + 7) & 0xff, b = (unsigned)(i * 13 + 3) & 0xff; P->rgba[i] = 0xff000000u | r << 16 | g << 8 | b; }
    for (int i = 0; i < 32768; i++) P->ent[i] = (uint8_t)((i * 13 + (i >> 7)) & 0xff);
#define IX_TRANSLUCENT(Pp) do { for (int i_ = 1; i_ < 256; i_ += 2) { unsigned a_ = 0x40 + (unsigned)(i_ % 3) * 0x40, r_ = ((Pp)->rgba[i_] >> 16 & 255) * a_ / 255, g_ = ((Pp)->rgba[i_] >> 8 & 255) * a_ / 255, b_ = ((Pp)->rgba[i_] & 255) * a_ / 255; (Pp)->rgba[i_] = a_ << 24 | r_ << 16 | g_ << 8 | b_; } } while (0)
    if (var == 1) IX_TRANSLUCENT(P);
    uint8_t ibits[4][8]; uint32_t xbits[4][5];
    for (int y = 0; y < 4; y++) for (int x = 0; x < 5; x++) ibits[y][x] = (uint8_t)(x * 3 + y * 7 + 1);      /* odd and even indices */
    pixman_image_t *ix = pixman_image_create_bits(PIXMAN_c8, 5, 4, (uint32_t *)&ibits[0][0], 8);
    pixman_image_set_indexed(ix, P);
    static const pixman_repeat_t reps[4] = { PIXMAN_REPEAT_NONE, PIXMAN_REPEAT_NORMAL, PIXMAN_REPEAT_PAD, PIXMAN_REPEAT_REFLECT };
    pixman_image_set_repeat(ix, reps[rep]);
    ph_set_cfg(c->cfgs[d[5]]);
    uint32_t dinit[DW * DH], dA[DW * DH], dB[DW * DH];
    for (int i = 0; i < DW * DH; i++) dinit[i] = translucent(i + 1);
    pixman_image_t *solid = NULL; { pixman_color_t cc = { 0xc0c0, 0x3030, 0x6060, 0xd0d0 }; solid = pixman_image_create_solid_fill(&cc); }
    if (var == 2) {
        /* first use with the opaque palette, then the edit in place (no library call) */
        memcpy(dA, dinit, sizeof dA); pixman_image_t *dd = pixman_image_create_bits(PIXMAN_a8r8g8b8, DW, DH, dA, DW * 4);
        pixman_image_composite32(PIXMAN_OP_OVER, ix, NULL, dd, 0, 0, 0, 0, 0, 0, 5, 4); pixman_image_composite32(PIXMAN_OP_OVER, solid, ix, dd, 0, 0, 0, 0, 0, 0, 5, 4);
        pixman_image_unref(dd);
        IX_TRANSLUCENT(P);
    }
    for (int y = 0; y < 4; y++) for (int x = 0; x < 5; x++) xbits[y][x] = P->rgba[ibits[y][x]];
    pixman_image_t *ex = pixman_image_create_bits(PIXMAN_a8r8g8b8, 5, 4, &xbits[0][0], 20);
    pixman_image_set_repeat(ex, reps[rep]);
    int sx = rqk ? -2 : 0, sy = rqk ? -1 : 0, w = rqk ? 9 : 5, h = rqk ? 6 : 4;
    for (int k = 0; k < 2; k++) {
        uint32_t *db = k ? dB : dA; memcpy(db, dinit, sizeof dinit);
        pixman_image_t *dd = pixman_image_create_bits(PIXMAN_a8r8g8b8, DW, DH, db, DW * 4);
        pixman_image_t *img = k ? ex : ix;
        if (role == 0) pixman_image_composite32((pixman_op_t)op, img, NULL, dd, sx, sy, 0, 0, 1, 1, w, h);
        else pixman_image_composite32((pixman_op_t)op, solid, img, dd, 0, 0, sx, sy, 1, 1, w, h);
        pixman_image_unref(dd);
    }
    vf_count_eval(1); vf_count_libcalls(2);
    for (int i = 0; i < DW * DH; i++) if (dA[i] != dB[i]) {
        char cn[64];
        vf_violation("c09-indexed-differs-from-its-expansion", "operator %s, c8 image as %s, repeat %s, palette %s, request %dx%d at source (%d,%d) [%s]: destination pixel (%d,%d) is %08x, "
                     "the a8r8g8b8 image holding the same palette colours gives %08x", rc_op_name(op), role ? "mask of a solid" : "source", REPN[rep],
                     var == 0 ? "all opaque" : var == 1 ? "with translucent entries" : "all opaque at the first use, edited in place to translucent entries afterwards", w, h, sx, sy,
                     ph_cfg_name(c->cfgs[d[5]], cn, sizeof cn), i % DW, i / DW, dA[i], dB[i]);
        break;
    }
    if (!vf_in_confirm) { if (memcmp(dA, dinit, sizeof dinit)) vf_count_nontrivial(1); vf_outcome(vf_mix(vf_hash64(dA, sizeof dA, (uint64_t)op), (uint64_t)var)); }
    pixman_image_unref(ix); pixman_image_unref(ex); pixman_image_unref(solid);
}

int main(int argc, char **argv)
{
    vf_init(argc, argv, "C09", "exploration");
    ph_init_cfgs();
    cov = mmap(NULL, sizeof *cov, PROT_READ | PROT_WRITE, MAP_SHARED | MAP_ANONYMOUS, -1, 0);
    memset(cov, 0, sizeof *cov);
    int th = vf_is_thorough();
    if (vf_replaying()) {
        FILE *f = fopen(vf_replay_file, "r"); char line[256];
        if (f) { while (fgets(line, sizeof line, f)) if (!strncmp(line, "tier ", 5)) th = vf_thorough = !strncmp(line + 5, "thorough", 8); fclose(f); }
    }
    ctx_t c;
    int ncfg = th ? (int)(sizeof CFG_T / sizeof CFG_T[0]) : (int)(sizeof CFG_Q / sizeof CFG_Q[0]);
    c.cfgs = th ? CFG_T : CFG_Q;
    c.dims[0] = th ? NRQ_T : NRQ_Q; c.dims[1] = th ? NFIL_T : NFIL_Q; c.dims[2] = 4; c.dims[3] = th ? NXF_T : NXF_Q;
    c.dims[4] = th ? NCTX_T : NCTX_Q; c.dims[5] = 2; c.dims[6] = 3; c.dims[7] = RC_NOPS; c.dims[8] = ncfg;
    vf_rule = "E1 differential. A case is one scenario (operator, role under test in {source, mask, destination}, content, context images, transform, repeat, filter, request rectangle, "
              "PIXMAN_DISABLE configuration); the same fully opaque content is presented as x8r8g8b8 (junk in the x byte), a8r8g8b8 with alpha 255, r5g6b5, and where it is the same picture "
              "also as solid fill, 1x1 repeating bits image (3 formats), 'no mask', and for REPEAT_NONE as an a8r8g8b8 image carrying the transparent outside as an explicit border; all "
              "destinations must be equal bit for bit on the channels both define (r5g6b5 destination: equal to the 8888 result truncated to 565). Precision classes not compared exactly: "
              "(P1) r5g6b5 input under the operators that run in the float pipeline (v/31 vs byte/255): within 2 steps, not compared for the 4 HSL operators (not Lipschitz); "
              "(P2) SATURATE with a visibly opaque source is evaluated as OVER_REVERSE in 8-bit arithmetic but as SATURATE in float for an a8r8g8b8/a8/a1 presentation: within 1 step (7 when the sample is interpolated: 7-bit vs 16-bit bilinear weights); "
              "(P3) float pipeline, interpolating filter: interpolated 3x3 constant image vs solid / 1x1 (delivered without interpolation): within 1 step (float rounding of c*w1+..+c*w4). Additionally the 13 exact operators, untransformed, are compared with the "
              "reference equations (rc_exact_pixel), including the alpha channel of the a8r8g8b8 destination presentation. evaluations = scenarios; non-trivial = the destination changed AND "
              "two compared presentations were dispatched differently by the library (other operator after optimize_operator, mask elided, other IS_OPAQUE bits), observed through a link-time "
              "wrapper of _pixman_implementation_lookup_composite (observation only: the oracle never reads it). "
              "Space 'gradients': a case is (operator, role in {source, unified-alpha mask, component-alpha mask}, context images, gradient geometry, stop set, repeat, transform, request rectangle, configuration); the picture is presented as "
              "the gradient image itself and as an a8r8g8b8 REPEAT_NONE bits image holding a pre-rendered copy of exactly the sampled w x h region (the gradient, same repeat and transform, composited with OP_SRC into a "
              "zeroed buffer with the same origin; then used with origin 0,0), and additionally as x8r8g8b8 (junk x byte) when that region is entirely opaque; destinations must be equal bit for bit, except "
              "(G1) float-pipeline operators read the gradient in float but the copy in 8 bits: within 2 steps, and for the source role not compared for COLOR_DODGE, COLOR_BURN and the 4 HSL operators (not Lipschitz); "
              "(G2) SATURATE between the a8r8g8b8 and x8r8g8b8 copies: 1 step (= P2). (G3) component-alpha mask role, gradient against its copy: 1 step (the walker's value depends by one rounding tie on where the scanline started; the copies are compared exactly). The 13 exact operators on 32-bit destinations are also compared with the reference equations applied to the copy's pixels. "
              "Non-trivial as above (e.g. an opaque-stop repeating gradient is dispatched as OVER->SRC or elided as a mask, its a8r8g8b8 copy is not).";
    vf_assume("C02 (all implementations bit-identical) is checked separately; here 2 (quick) / 5 (thorough) PIXMAN_DISABLE configurations");
    vf_assume("solid fills are created with 16-bit channels = byte * 0x101, i.e. the same colour as the 8-bit pixels");
    vf_assume("solid and 1x1 presentations are paired only with repeating images; solid/1x1/no-mask are not paired under convolution filters (a solid has no filter; outside the statement)");
    vf_assume("HSL operators with a component-alpha mask are undefined (documented as unsupported): those 4 x (mask role, component-alpha content) scenarios are left out");
    vf_assume("gradients space: the pre-rendered copy is produced by the library itself (OP_SRC, no mask, general path) - trusted to be the gradient's 8-bit rendering (C13 checks that against the geometry); "
              "the context mask of the source role has no zero pixel, because the 8-bit gradient iterators skip masked-out pixels and the walker's value on a REPEAT_NORMAL/REFLECT period boundary depends by one rounding tie on "
              "which pixel was fetched before (inside C13's one-step contract, not an opacity matter)");
    vf_assume("component-alpha masks are presented as white (all four channels 1); indexed, wide and sRGB formats are not presentations of this check");

    c.dims[9] = 2;
    uint64_t N = vf_product(c.dims, 10);
    const char *only = getenv("C09_ONLY");                       /* development aid: run one space only (the evidence then says so in the bounds) */
    if (!only || !strcmp(only, "scenarios")) vf_space_run("scenarios", N, scen_case, &c);

    /* space "gradients" (c09_gradients.h): gradient image vs pre-rendered copy of the sampled region */
    gctx_t gc;
    gc.cfgs = c.cfgs;                                            /* quick: default, general path only; thorough: the same 5 as the main space */
    gc.dims[0] = th ? NGRQ_T : NGRQ_Q; gc.dims[1] = th ? NGXF_T : NGXF_Q; gc.dims[2] = 4; gc.dims[3] = th ? NGS_T : NGS_Q; gc.dims[4] = th ? NGD_T : NGD_Q;
    gc.dims[5] = th ? NGCTX_T : NGCTX_Q; gc.dims[6] = 3; gc.dims[7] = RC_NOPS; gc.dims[8] = ncfg;
    uint64_t NG = vf_product(gc.dims, 9);
    int nkind[3] = { 0, 0, 0 }; for (int i = 0; i < gc.dims[4]; i++) nkind[GD[i].kind]++;
    if (!only || !strcmp(only, "gradients")) vf_space_run("gradients", NG, gscen_case, &gc);

    ix_ctx xc = { c.cfgs, ncfg };
    if (!only || !strcmp(only, "indexed")) vf_space_run("indexed", (uint64_t)2 * 3 * 2 * 4 * RC_NOPS * ncfg, indexed_case, &xc);
    fd_ctx fc = { c.cfgs, ncfg };
    ts_ctx tc = { c.cfgs, ncfg };
    if (!only || !strcmp(only, "trapezoid-shortcut")) vf_space_run("trapezoid-shortcut", (uint64_t)TS_NSRC * 3 * 3 * 2 * 3 * ncfg, trapshort_case, &tc);
    if (!only || !strcmp(only, "solid-fill")) vf_space_run("solid-fill", (uint64_t)3 * FD_NALPHA * FD_NFMT * RC_NOPS * ncfg, fill_case, &fc);

    int cells = 0, cells_possible = 0;
    for (int i = 0; i < RC_NOPS; i++) for (int k = 0; k < 4; k++) { cells_possible++; if (cov->cell[rc_all_ops[i]][k]) cells++; }
    snprintf(vf->extra_json, sizeof vf->extra_json,
             "\"dispatch_observed\": {\"lookups\": %llu, \"operator_table_cells_exercised\": \"%d/%d\", \"operator_replaced\": %llu, \"mask_elided\": %llu, "
             "\"source_promoted_to_opaque_by_coverage\": %llu, \"mask_promoted_to_opaque_by_coverage\": %llu, \"scenarios_with_differently_dispatched_presentations\": %llu}, "
             "\"pairs\": {\"bit_exact\": %llu, \"within_tolerance(P1 r5g6b5-in-float 2 steps, P2 SATURATE 1 or 7 steps, P3 float interpolation noise 1 step)\": %llu, \"skipped\": %llu}, "
             "\"repeat_none_scenarios_checked_against_explicit_transparent_border\": %llu, \"reference_equation_scenarios\": %llu, \"reference_equation_pixels\": %llu, "
             "\"gradients\": {\"cases\": %llu, \"gradient_flagged_IS_OPAQUE\": %llu, \"internally_tangent_radial(a==0)\": %llu, \"request_partly_outside_the_gradient\": %llu, "
             "\"request_wholly_outside\": %llu, \"opaque_stops_repeating_but_request_reaches_transparent_pixels\": %llu, \"x8r8g8b8_copy_also_presented\": %llu, "
             "\"cases_with_differently_dispatched_presentations\": %llu, \"pairs_bit_exact\": %llu, \"pairs_within_tolerance(G1 float gradient vs 8-bit copy 2 steps, G2 SATURATE 1 step)\": %llu, "
             "\"pairs_skipped(G1: source role, HSL x4 + COLOR_DODGE + COLOR_BURN, gradient-vs-copy)\": %llu}",
             (unsigned long long)cov->lookups, cells, cells_possible, (unsigned long long)cov->reduced, (unsigned long long)cov->mask_elided, (unsigned long long)cov->promoted_src,
             (unsigned long long)cov->promoted_mask, (unsigned long long)cov->decisions_differ, (unsigned long long)cov->exact_pairs, (unsigned long long)cov->tol_pairs,
             (unsigned long long)cov->skipped_pairs, (unsigned long long)cov->outside_explicit, (unsigned long long)cov->ref_cases, (unsigned long long)cov->ref_pixels,
             (unsigned long long)cov->g_cases, (unsigned long long)cov->g_flagged_opaque, (unsigned long long)cov->g_tangent, (unsigned long long)cov->g_partly_outside,
             (unsigned long long)cov->g_wholly_outside, (unsigned long long)cov->g_opaque_stops_not_covering, (unsigned long long)cov->g_x8_presented,
             (unsigned long long)cov->g_decisions_differ, (unsigned long long)cov->g_exact_pairs, (unsigned long long)cov->g_tol_pairs, (unsigned long long)cov->g_skipped_pairs);
    {
        size_t l = strlen(vf->extra_json);
        l += snprintf(vf->extra_json + l, sizeof vf->extra_json - l, ", \"gradients_largest_difference_seen_in_G1_pairs(steps)\": \"");
        for (int i = 0; i < RC_NOPS && l + 60 < sizeof vf->extra_json; i++) if (needs_division(rc_all_ops[i]))
            l += snprintf(vf->extra_json + l, sizeof vf->extra_json - l, "%s=%llu ", rc_op_name(rc_all_ops[i]), (unsigned long long)cov->g_maxdiff[rc_all_ops[i]]);
        snprintf(vf->extra_json + l, sizeof vf->extra_json - l, "\"");
    }
    static char bounds[1800];
    snprintf(bounds, sizeof bounds, "53 operators x 3 roles x 2 contents (3x3 of nine 565-representable opaque colours | constant; masks: unified | component-alpha white) x %d context image sets "
             "(translucent / opaque / r5g6b5 / a8 partners, with and without masks) x %d transforms x 4 repeats x %d filters x %d request rectangles (inside, bilinear-covered, nearest-covered only, "
             "partly and wholly outside the 3x3 source, up to 20 pixels wide) x %d configurations x {no clip, a two-box client clip on the role image that applies to it} = %llu scenarios, up to 11 presentations each; destination 21x8. "
             "Space 'gradients': 53 operators x 2 roles (source, unified-alpha mask) x %d context image sets (a8r8g8b8 / x8r8g8b8 / r5g6b5%s destinations; with and without a8 or solid mask; solid, "
             "opaque and translucent 3x3 sources) x %d gradients (%d linear, %d radial: a<0, a==0 internally tangent, a>0 disjoint / overlapping / equal circles; %d conical) x %d stop sets "
             "(all opaque | one translucent stop) x 4 repeats x %d transforms x %d request rectangles (up to 20x7, reaching outside the cone resp. outside [0,1]) x %d configurations "
             "(default, general path only%s) = %llu cases, 2-3 presentations each. Space 'solid-fill': 53 operators x 10 destination formats (8-bit, 10-bit, sRGB, float) x 8 colour alphas "
             "(0xffff, 0xfffe, 0xff80, 0xff00, 0xfeff, 0xc000, 1, 0) x 3 colours x the configurations: fill_rectangles vs compositing the solid image. Space 'indexed': 53 operators x c8 image as source / mask x 4 repeats x "
             "palette {opaque, translucent, opaque at first use then edited in place} x 2 requests x the configurations, against the a8r8g8b8 expansion%s",
             c.dims[4], c.dims[3], c.dims[1], c.dims[0], ncfg, (unsigned long long)N,
             gc.dims[5], th ? " / a8" : "", gc.dims[4], nkind[GK_LINEAR], nkind[GK_RADIAL], nkind[GK_CONICAL], gc.dims[3], gc.dims[1], gc.dims[0], ncfg, th ? ", whole-operation paths off, SSE2+SSSE3 off, MMX+SSE2+SSSE3 off" : "", (unsigned long long)NG,
             only ? " [C09_ONLY set: only one space was run]" : "");
    vf_bounds = bounds;
    if (!vf_replaying()) printf("C09 coverage: %s\n", vf->extra_json);
    return vf_finish();
}
