/* c15_fault.h — allocation-fault injector for C15 (engine E3, "Faults").
 *
 * The harness is linked with -Wl,--wrap=malloc,calloc,realloc,free,posix_memalign, so EVERY
 * allocation call made from any object of the link (libpixman.a members and the harness
 * itself; not libc-internal ones such as strdup/fopen/popen) arrives here.  __real_* is the
 * AddressSanitizer allocator, which stays the oracle for overruns / use-after-free /
 * double free.  This file adds
 *   - a *window*: only calls made while fi_on is set are numbered (1,2,3,… per execution)
 *     and are candidates for injected failure; the harness' own setup/cleanup runs outside;
 *   - the *schedule*: up to 3 single call numbers that fail, plus "everything from call p on";
 *   - a live-block table (pointer -> size, call number, site) = leak / invalid-free oracle;
 *   - the table of allocation *sites* reached (two return addresses), kept in shared memory
 *     so that the parent can list them in the evidence.
 */
#ifndef C15_FAULT_H
#define C15_FAULT_H
#include <stdint.h>
#include <stddef.h>
#include <string.h>
#include <sys/mman.h>

void *__real_malloc (size_t);
void *__real_calloc (size_t, size_t);
void *__real_realloc (void *, size_t);
void  __real_free (void *);
int   __real_posix_memalign (void **, size_t, size_t);

#define FI_MAXSINGLE 3
#define FI_MAXSITES  1024
#define FI_TABBITS   14
#define FI_TABSIZE   (1u << FI_TABBITS)

typedef struct { volatile uintptr_t ra0, ra1; volatile uint64_t calls, failed; } fi_site_t;

typedef struct { void *p; size_t size; long call, seq; int site; uintptr_t ra0, ra1; } fi_block_t;

static struct {
    /* schedule */
    long single[FI_MAXSINGLE]; int nsingle; long persist;
    /* execution state */
    int  on;                 /* window open */
    long calls;              /* allocation calls numbered so far in this execution */
    long injected;           /* of which failed by injection */
    int  single_hit[FI_MAXSINGLE];
    int  persist_hit;
    /* totals for the whole process life (sanity) */
    uint64_t total_wrapped, total_window;
    /* live table */
    long live, live_bytes, seq;
    uintptr_t cur_ra0, cur_ra1;
    long bad_free;           /* free()/realloc() of a pointer that is not live, inside a window */
    void *bad_free_ptr;
    long last_fail_site;
} fi;

static fi_block_t fi_tab[FI_TABSIZE];
static fi_site_t *fi_sites;          /* shared, FI_MAXSITES entries; NULL until fi_setup() */
static volatile int *fi_nsites;

static void fi_setup (void)
{
    void *m = mmap (NULL, sizeof (fi_site_t) * FI_MAXSITES + 64, PROT_READ | PROT_WRITE, MAP_SHARED | MAP_ANONYMOUS, -1, 0);
    fi_nsites = (volatile int *) m;
    fi_sites = (fi_site_t *) ((char *) m + 64);
}

static inline unsigned fi_hash (const void *p) { uintptr_t v = (uintptr_t) p; v ^= v >> 17; v *= 0x9E3779B97F4A7C15ull; return (unsigned) (v >> (64 - FI_TABBITS)); }

static void fi_tab_insert (void *p, size_t size, long call, int site)
{
    if (!p) return;
    unsigned i = fi_hash (p);
    for (unsigned n = 0; n < FI_TABSIZE; n++, i = (i + 1) & (FI_TABSIZE - 1))
        if (!fi_tab[i].p) { fi_tab[i].p = p; fi_tab[i].size = size; fi_tab[i].call = call; fi_tab[i].site = site; fi_tab[i].seq = ++fi.seq; fi_tab[i].ra0 = fi.cur_ra0; fi_tab[i].ra1 = fi.cur_ra1; fi.live++; fi.live_bytes += (long) size; return; }
    /* table full: cannot happen with the small scenarios; make it visible as a bad free later */
}

/* returns 1 if p was live (and removes it); backward-shift deletion keeps probing chains intact */
static int fi_tab_remove (void *p)
{
    unsigned i = fi_hash (p);
    for (unsigned n = 0; n < FI_TABSIZE; n++, i = (i + 1) & (FI_TABSIZE - 1)) {
        if (!fi_tab[i].p) return 0;
        if (fi_tab[i].p == p) {
            fi.live--; fi.live_bytes -= (long) fi_tab[i].size;
            unsigned j = i;
            for (;;) {
                fi_tab[i].p = NULL;
                for (;;) {
                    j = (j + 1) & (FI_TABSIZE - 1);
                    if (!fi_tab[j].p) return 1;
                    unsigned k = fi_hash (fi_tab[j].p);
                    /* can entry j stay where it is?  it can if its home k lies cyclically in (i, j] */
                    if (i <= j ? (i < k && k <= j) : (i < k || k <= j)) continue;
                    break;
                }
                fi_tab[i] = fi_tab[j];
                i = j;
            }
        }
    }
    return 0;
}

static int fi_site_lookup (uintptr_t ra0, uintptr_t ra1)
{
    if (!fi_sites) return -1;
    int n = *fi_nsites; if (n > FI_MAXSITES) n = FI_MAXSITES;
    for (int i = 0; i < n; i++) {
        for (int spin = 0; fi_sites[i].ra0 == 0 && spin < 1000000; spin++) ;   /* another process is publishing this slot */
        if (fi_sites[i].ra0 == ra0 && fi_sites[i].ra1 == ra1) return i;
    }
    int k = __atomic_fetch_add (fi_nsites, 1, __ATOMIC_SEQ_CST);
    if (k >= FI_MAXSITES) { __atomic_fetch_sub (fi_nsites, 1, __ATOMIC_SEQ_CST); return -1; }
    fi_sites[k].ra1 = ra1; __atomic_store_n (&fi_sites[k].ra0, ra0, __ATOMIC_SEQ_CST);
    /* two processes may have inserted the same site concurrently; duplicates are merged when reporting */
    return k;
}

/* decides whether the current (windowed) call fails; numbers it and books the site */
static int fi_gate (uintptr_t ra0, uintptr_t ra1, int *site_out)
{
    fi.total_wrapped++;
    *site_out = -1;
    if (!fi.on) return 0;
    fi.total_window++;
    long n = ++fi.calls;
    int site = fi_site_lookup (ra0, ra1);
    *site_out = site;
    if (site >= 0) __atomic_add_fetch (&fi_sites[site].calls, 1, __ATOMIC_RELAXED);
    int fail = 0;
    for (int i = 0; i < fi.nsingle; i++) if (fi.single[i] == n) { fi.single_hit[i] = 1; fail = 1; }
    if (fi.persist && n >= fi.persist) { fi.persist_hit = 1; fail = 1; }
    if (fail) {
        fi.injected++; fi.last_fail_site = site;
        if (site >= 0) __atomic_add_fetch (&fi_sites[site].failed, 1, __ATOMIC_RELAXED);
    }
    return fail;
}

/* two return addresses by frame-pointer walk (library and harness are built with
 * -fno-omit-frame-pointer; the ASan fake stack is off) */
#define FI_RA(ra0, ra1) do {                                                          \
        void **fp_ = (void **) __builtin_frame_address (0);                            \
        ra0 = (uintptr_t) __builtin_return_address (0); ra1 = 0;                       \
        if (fp_) { void **cfp_ = (void **) fp_[0];                            \
            if (cfp_ > fp_ && (char *) cfp_ - (char *) fp_ < (1 << 20)) ra1 = (uintptr_t) cfp_[1]; } \
        fi.cur_ra0 = ra0; fi.cur_ra1 = ra1;                                            \
    } while (0)

__attribute__((noinline)) void *__wrap_malloc (size_t n)
{
    uintptr_t ra0, ra1; int site; FI_RA (ra0, ra1);
    if (fi_gate (ra0, ra1, &site)) return NULL;
    void *p = __real_malloc (n);
    fi_tab_insert (p, n, fi.on ? fi.calls : 0, site);
    return p;
}
__attribute__((noinline)) void *__wrap_calloc (size_t a, size_t b)
{
    uintptr_t ra0, ra1; int site; FI_RA (ra0, ra1);
    if (fi_gate (ra0, ra1, &site)) return NULL;
    void *p = __real_calloc (a, b);
    fi_tab_insert (p, a * b, fi.on ? fi.calls : 0, site);
    return p;
}
__attribute__((noinline)) void *__wrap_realloc (void *old, size_t n)
{
    uintptr_t ra0, ra1; int site; FI_RA (ra0, ra1);
    if (fi_gate (ra0, ra1, &site)) return NULL;          /* a failed realloc leaves the old block alone */
    if (old && !fi_tab_remove (old)) { if (fi.on) { fi.bad_free++; fi.bad_free_ptr = old; } }
    void *p = __real_realloc (old, n);
    if (p) fi_tab_insert (p, n, fi.on ? fi.calls : 0, site);
    return p;
}
__attribute__((noinline)) int __wrap_posix_memalign (void **out, size_t al, size_t n)
{
    uintptr_t ra0, ra1; int site; FI_RA (ra0, ra1);
    if (fi_gate (ra0, ra1, &site)) return 12 /* ENOMEM */;
    int r = __real_posix_memalign (out, al, n);
    if (!r) fi_tab_insert (*out, n, fi.on ? fi.calls : 0, site);
    return r;
}
__attribute__((noinline)) void __wrap_free (void *p)
{
    if (!p) return;
    if (!fi_tab_remove (p)) {
        /* not one of ours: allocated inside libc (strdup, getline, …) — legal outside a window;
         * inside a window only library code runs, and it must free only what it allocated */
        if (fi.on) { fi.bad_free++; fi.bad_free_ptr = p; }
    }
    __real_free (p);
}

/* ---- schedule / execution control ---- */
static void fi_begin_execution (const long *single, int nsingle, long persist)
{
    fi.nsingle = nsingle; for (int i = 0; i < FI_MAXSINGLE; i++) { fi.single[i] = i < nsingle ? single[i] : 0; fi.single_hit[i] = 0; }
    fi.persist = persist; fi.persist_hit = 0;
    fi.on = 0; fi.calls = 0; fi.injected = 0; fi.bad_free = 0; fi.bad_free_ptr = NULL; fi.last_fail_site = -1;
}
static inline void fi_window_open (void)  { fi.on = 1; }
static inline void fi_window_close (void) { fi.on = 0; }

/* oldest live block allocated after sequence number seq0 (for leak reports) */
static const fi_block_t *fi_first_block_since (long seq0)
{
    const fi_block_t *best = NULL;
    for (unsigned i = 0; i < FI_TABSIZE; i++)
        if (fi_tab[i].p && fi_tab[i].seq > seq0 && (!best || fi_tab[i].seq < best->seq)) best = &fi_tab[i];
    return best;
}

#endif
