/* C10 — pixel formats: exact codec, bit-replicated widening, accessor equivalence.
 *
 * Engine E1 (bounded-exhaustive enumeration against a reference model).  The reference codec
 * (c10_codec.h) is derived from the format code's bit fields only.  The library is observed where
 * the property says: PIXMAN_OP_SRC composites between an image of format F and a8r8g8b8 /
 * rgba_float images, in both directions, plus F -> F.
 *
 * Routes      fetch8  F -> a8r8g8b8          store8  a8r8g8b8 -> F        self  F -> F
 *             fetchf  F -> rgba_float        storef  rgba_float -> F
 * Access      scan    untransformed (scanline fetchers)
 *             trans   integer-translation transform  (affine fetcher -> fetch_pixel per pixel)
 *             refl    x-reflection transform          (per pixel, reverse order)
 * Storage     direct, or user read/write accessors whose backing store is XOR-scrambled: any access
 *             that bypasses the callbacks reads/writes garbage and is seen as a mismatch.
 * Chains      default and general-only (PIXMAN_DISABLE="fast mmx sse2 ssse3"); under the latter every
 *             format goes through pixman-access.c.
 * Every destination (and source) buffer is compared in full: bits outside the addressed pixels, row
 * padding, the other row and guard bytes must be unchanged; undefined (x) bits of stored pixels are
 * not compared.
 */
#include "vf.h"
#include "c10_codec.h"
#include <float.h>

enum { R_FETCH8, R_STORE8, R_SELF, R_FETCHF, R_STOREF, NROUTES };
static const char *const route_names[NROUTES] = { "fetch8", "store8", "self", "fetchf", "storef" };
enum { M_SCAN, M_TRANS, M_REFL, NMODES };
static const char *const mode_names[NMODES] = { "scan", "trans", "refl" };
enum { VM_SEQ, VM_SUB4, VM_SUB1, VM_CHAN, VM_FULL };

typedef struct { int route, mode, acc; } variant_t;

typedef struct {
    volatile uint64_t acc_reads, acc_writes;
    volatile uint64_t conv[NROUTES], by_mode[NMODES], by_acc[2], by_cfg[C10_NCFGS];
    volatile uint64_t yuv, indexed, srgb;
} stats_t;
static stats_t *st;
#define ST_ADD(f, n) __atomic_add_fetch(&st->f, (uint64_t)(n), __ATOMIC_RELAXED)

/* ---------------------------------------------------------------- accessors (scrambled store) */
#define SCR 0x5a
static uint64_t acc_r_local, acc_w_local;
static uint32_t acc_read(const void *p, int size)
{
    uint32_t v = 0;
    acc_r_local++;
    memcpy(&v, p, (size_t)size);
    v ^= 0x5a5a5a5au;
    return size >= 4 ? v : v & ((1u << (8 * size)) - 1);
}
static void acc_write(void *p, uint32_t v, int size)
{
    acc_w_local++;
    v ^= 0x5a5a5a5au;
    memcpy(p, &v, (size_t)size);
}
static void acc_flush(void)
{
    if (vf_in_confirm) { acc_r_local = acc_w_local = 0; return; }
    if (acc_r_local) ST_ADD(acc_reads, acc_r_local);
    if (acc_w_local) ST_ADD(acc_writes, acc_w_local);
    acc_r_local = acc_w_local = 0;
}

/* ---------------------------------------------------------------- test images */
#define GUARD 64
typedef struct {
    pixman_image_t *im;
    uint8_t *alloc; size_t size;
    uint8_t *bits; int stride;
    int W, H, bpp, acc;
} timg;

static void ti_alloc(timg *t, int bpp, int W, int H, int bg, int acc)
{
    memset(t, 0, sizeof *t);
    t->W = W; t->H = H; t->bpp = bpp; t->acc = acc;
    t->stride = c10_min_stride(bpp, W) + (bpp == 128 ? 16 : 4);
    t->size = GUARD + (size_t)t->stride * (size_t)H + GUARD;
    t->alloc = malloc(t->size);
    if (!t->alloc) { perror("malloc"); _exit(3); }
    memset(t->alloc, bg, t->size);
    t->bits = t->alloc + GUARD;
}
static inline uint8_t *ti_row(timg *t, int y) { return t->bits + (size_t)t->stride * (size_t)y; }
static void ti_scramble(timg *t) { for (size_t i = 0; i < t->size; i++) t->alloc[i] ^= SCR; }
static int c10_single_write;     /* acc == 3: which single callback is installed (0: read_func only - the only combination used, for sources) */
static void ti_create(timg *t, pixman_format_code_t code, const pixman_indexed_t *pal)
{
    if (t->acc) ti_scramble(t);
    t->im = pixman_image_create_bits(code, t->W, t->H, (uint32_t *)t->bits, t->stride);
    if (!t->im) { fprintf(stderr, "create_bits failed for %08x W=%d\n", (unsigned)code, t->W); _exit(3); }
    if (pal) pixman_image_set_indexed(t->im, pal);
    if (t->acc == 2) {
        /* the callbacks are installed on an image that has already been used (validated) as a plain image: once as a source and once as a
         * destination of a request that writes nothing; from then on it must behave like any other image with accessors */
        uint32_t one = 0; pixman_image_t *scratch = pixman_image_create_bits(PIXMAN_a8r8g8b8, 1, 1, &one, 4);
        ti_scramble(t);             /* back to the logical view for the plain use */
        pixman_image_composite32(PIXMAN_OP_SRC, t->im, NULL, scratch, 0, 0, 0, 0, 0, 0, 1, 1);
        if (pixman_format_supported_destination(code)) pixman_image_composite32(PIXMAN_OP_DST, scratch, NULL, t->im, 0, 0, 0, 0, 0, 0, 1, 1);
        pixman_image_unref(scratch);
        ti_scramble(t);
    }
    if (t->acc == 3) pixman_image_set_accessors(t->im, c10_single_write ? NULL : acc_read, c10_single_write ? acc_write : NULL);      /* one callback only: legal, and still an image with accessors */
    else if (t->acc) pixman_image_set_accessors(t->im, acc_read, acc_write);
}
static void ti_release(timg *t)     /* drop the pixman image, bring the store back to the logical view */
{
    if (t->im) { pixman_image_unref(t->im); t->im = NULL; if (t->acc) ti_scramble(t); }
}
static void ti_free(timg *t) { ti_release(t); free(t->alloc); t->alloc = NULL; }

/* SRC-composite `n` pixels of row 1 of src starting at logical pixel sx0 to row 1 of dst at dx0.
 * mode selects how the source is addressed; with M_REFL destination pixel j receives source pixel
 * sx0 + n - 1 - j. */
static void run_src_composite(timg *s, timg *d, int mode, int sx0, int dx0, int n)
{
    pixman_transform_t tr;
    int src_x = sx0;
    if (mode == M_TRANS) {
        const int T = 3;
        pixman_transform_init_translate(&tr, pixman_int_to_fixed(T), 0);
        pixman_image_set_transform(s->im, &tr);
        src_x = sx0 - T;
    } else if (mode == M_REFL) {
        pixman_transform_init_identity(&tr);
        tr.matrix[0][0] = -pixman_fixed_1;
        tr.matrix[0][2] = pixman_int_to_fixed(sx0 + n);
        pixman_image_set_transform(s->im, &tr);
        src_x = 0;
    }
    pixman_image_composite32(PIXMAN_OP_SRC, s->im, NULL, d->im, src_x, 1, 0, 0, dx0, 1, n, 1);
    vf_count_libcalls(1);
}
static inline int src_index(int mode, int n, int j) { return mode == M_REFL ? n - 1 - j : j; }

/* first differing byte between got and exp under the care mask (NULL = all bits), or -1 */
static long first_diff(const uint8_t *got, const uint8_t *exp, const uint8_t *care, size_t n)
{
    if (!care) {
        if (!memcmp(got, exp, n)) return -1;
        for (size_t i = 0; i < n; i++) if (got[i] != exp[i]) return (long)i;
        return -1;
    }
    size_t i = 0;
    for (; i + 8 <= n; i += 8) {
        uint64_t g, e, m; memcpy(&g, got + i, 8); memcpy(&e, exp + i, 8); memcpy(&m, care + i, 8);
        if ((g ^ e) & m) break;
    }
    for (; i < n; i++)
        if ((got[i] ^ exp[i]) & care[i]) return (long)i;
    return -1;
}

/* c10_set_px with a shortcut for whole 32-bit pixels (same little-endian byte layout) */
static inline void put_px(uint8_t *row, int bpp, int x, uint32_t v, uint32_t mask)
{
    if (bpp == 32 && mask == 0xffffffffu) memcpy(row + 4 * (size_t)x, &v, 4);
    else c10_set_px(row, bpp, x, v, mask);
}

/* the reference codec tabulated per channel (used for the long runs of the exhaustive 24/32-bit sweeps) */
typedef struct { uint8_t to8[4][1024]; uint32_t from8[4][256]; } lut_t;
static void lut_build(lut_t *T, const c10_layout_t *L)
{
    for (int c = 0; c < 4; c++) {
        if (!L->w[c]) continue;
        for (uint32_t k = 0; k < (1u << L->w[c]); k++) T->to8[c][k] = (uint8_t)c10_rescale(k, L->w[c], 8);
        for (uint32_t k = 0; k < 256; k++) T->from8[c][k] = c10_rescale(k, 8, L->w[c]) << L->sh[c];
    }
}
static inline uint32_t lut_to_8888(const lut_t *T, const c10_layout_t *L, uint32_t p)
{
    uint32_t a = L->w[CH_A] ? T->to8[CH_A][(p >> L->sh[CH_A]) & ((1u << L->w[CH_A]) - 1)] : 0xff;
    uint32_t r = L->w[CH_R] ? T->to8[CH_R][(p >> L->sh[CH_R]) & ((1u << L->w[CH_R]) - 1)] : 0;
    uint32_t g = L->w[CH_G] ? T->to8[CH_G][(p >> L->sh[CH_G]) & ((1u << L->w[CH_G]) - 1)] : 0;
    uint32_t b = L->w[CH_B] ? T->to8[CH_B][(p >> L->sh[CH_B]) & ((1u << L->w[CH_B]) - 1)] : 0;
    return a << 24 | r << 16 | g << 8 | b;
}
static inline uint32_t lut_from_8888(const lut_t *T, const c10_layout_t *L, uint32_t argb)
{
    uint32_t p = 0;
    if (L->w[CH_A]) p |= T->from8[CH_A][argb >> 24];
    if (L->w[CH_R]) p |= T->from8[CH_R][(argb >> 16) & 255];
    if (L->w[CH_G]) p |= T->from8[CH_G][(argb >> 8) & 255];
    if (L->w[CH_B]) p |= T->from8[CH_B][argb & 255];
    return p;
}

/* Is byte offset `off` of the allocation inside pixels [x0, x0+n) of row 1?  Returns the pixel or -1. */
static int run_pixel_of(const timg *t, long off, int x0, int n)
{
    long rel = off - GUARD - (long)t->stride;         /* relative to row 1 */
    if (rel < 0 || rel >= t->stride) return -1;
    long px = rel * 8 / t->bpp;
    if (px < x0 || px >= x0 + n) return -1;
    return (int)px;
}

/* ---------------------------------------------------------------- value generation */
static const uint32_t PAT[4] = { 0x00000000u, 0xffffffffu, 0xaaaaaaaau, 0x55555555u };

static int n_blocks(int vm, int bpp, int fullbits)
{
    switch (vm) {
    case VM_SEQ:  return bpp >= 8 ? (1 << bpp) / 256 : 1;
    case VM_SUB4: return 2;
    case VM_SUB1: return 8;
    case VM_CHAN: return 20;
    case VM_FULL: return 1 << (bpp - fullbits);
    }
    return 0;
}

static int gen_vals(const c10_layout_t *L, int vm, int fullbits, int block, uint32_t **out)
{
    int N = 0; uint32_t *v = NULL;
    switch (vm) {
    case VM_SEQ:
        N = 256; v = malloc(sizeof *v * N);
        for (int i = 0; i < N; i++) v[i] = ((uint32_t)block * 256u + (uint32_t)i) & L->pmask;
        break;
    case VM_SUB4: {
        static const int mult[3] = { 1, 5, 11 };
        N = 48; v = malloc(sizeof *v * N);
        for (int i = 0; i < N; i++) v[i] = (uint32_t)((i % 16) * mult[i / 16] + block + i / 16) & 15;
        break;
    }
    case VM_SUB1:
        N = 70; v = malloc(sizeof *v * N);
        for (int i = 0; i < N; i++) {
            switch (block) {
            case 0: v[i] = 0; break;
            case 1: v[i] = 1; break;
            case 2: v[i] = i & 1; break;
            case 3: v[i] = ~i & 1; break;
            default: v[i] = (uint32_t)(vf_mix((uint64_t)block, (uint64_t)i) >> 17) & 1; break;
            }
        }
        break;
    case VM_CHAN: {
        int c = block / 4, p = block % 4;
        if (c < 4) {
            if (!L->w[c]) { N = 1; v = malloc(sizeof *v); v[0] = PAT[p] & L->pmask; }
            else {
                uint32_t cm = ((1u << L->w[c]) - 1) << L->sh[c];
                N = 1 << L->w[c]; v = malloc(sizeof *v * N);
                for (int k = 0; k < N; k++) v[k] = (PAT[p] & L->pmask & ~cm) | ((uint32_t)k << L->sh[c]);
            }
        } else {
            uint32_t xm = L->pmask & ~L->dmask;
            if (!xm) { N = 1; v = malloc(sizeof *v); v[0] = PAT[p] & L->pmask; }
            else {
                N = 256; v = malloc(sizeof *v * N);
                for (int k = 0; k < N; k++) v[k] = (PAT[p] & L->dmask) | (((uint32_t)k * 0x01010101u) & xm);
            }
        }
        break;
    }
    case VM_FULL:
        N = 1 << fullbits; v = malloc(sizeof *v * N);
        for (int i = 0; i < N; i++) v[i] = (((uint32_t)block << fullbits) + (uint32_t)i) & L->pmask;
        break;
    }
    if (!v) { perror("malloc"); _exit(3); }
    *out = v;
    return N;
}

/* ---------------------------------------------------------------- layout formats: the main space */
typedef struct {
    int cfg;
    int nf; int f[48];
    int nxo, nblocks, vm, fullbits;
    int nvar; variant_t var[64];
} lay_ctx;

#define FLOAT_BG 0x3e            /* 0x3e3e3e3e = 0.1857..., a finite float */
#define TOL_FLOAT 1.2e-7

static void describe(char *buf, size_t n, const lay_ctx *c, const c10_fmt_t *F, const variant_t *V, int xo, int block)
{
    snprintf(buf, n, "format=%s route=%s access=%s accessors=%d chain=%s(PIXMAN_DISABLE=\"%s\") xoffset=%d block=%d",
             F->name, route_names[V->route], mode_names[V->mode], V->acc, c10_cfg_names[c->cfg], c10_cfgs[c->cfg], xo, block);
}

static inline int trivial_value(const c10_layout_t *L, uint32_t v) { return (v & L->dmask) == 0 || (v & L->dmask) == L->dmask; }

/* store a run into an F destination and compare the whole buffer.  srcdesc[i] describes what was fed. */
static void check_stored(timg *d, const uint8_t *exp, const uint8_t *care, int dx0, int n, const c10_fmt_t *F,
                         const char *route, const char *what, const uint64_t *srcdesc, int mode)
{
    long off = first_diff(d->alloc, exp, care, d->size);
    if (off < 0) return;
    int px = run_pixel_of(d, off, dx0, n);
    char key[64];
    if (d->bpp < 8) {
        /* several pixels share the byte: name the one that differs (it may be a neighbour of the run: then it is a clobber) */
        long rel = off - GUARD - (long)d->stride;
        if (rel >= 0 && rel < d->stride) {
            int first = (int)(rel * 8 / d->bpp); px = -1;
            for (int q = first; q < first + 8 / d->bpp; q++) {
                uint32_t cm = care ? c10_get_px(care + GUARD + d->stride, d->bpp, q) : 0xffffffffu;
                if ((c10_get_px(exp + GUARD + d->stride, d->bpp, q) ^ c10_get_px(ti_row(d, 1), d->bpp, q)) & cm) { px = (q >= dx0 && q < dx0 + n) ? q : -1; break; }
            }
        }
    }
    if (px >= 0) {
        int j = px - dx0;
        snprintf(key, sizeof key, "c10-%s-%s", route, F->name);
        vf_violation(key, "%s: destination pixel %d (x=%d): expected %#x got %#x (compared bits %#x); source value %#llx",
                     what, j, px, c10_get_px(exp + GUARD + d->stride, d->bpp, px), c10_get_px(ti_row(d, 1), d->bpp, px),
                     care ? c10_get_px(care + GUARD + d->stride, d->bpp, px) : 0xffffffffu, (unsigned long long)srcdesc[src_index(mode, n, j)]);
    } else {
        snprintf(key, sizeof key, "c10-clobber-%s", F->name);
        vf_violation(key, "%s: byte at offset %ld of the destination allocation (row stride %d, guard %d, run = pixels %d..%d of row 1) "
                     "changed from %#04x to %#04x although it is not part of the addressed pixels", what, off, d->stride, GUARD,
                     dx0, dx0 + n - 1, exp[off], d->alloc[off]);
    }
}

static void check_source_intact(timg *s, const uint8_t *before, const c10_fmt_t *F, const char *what)
{
    long off = first_diff(s->alloc, before, NULL, s->size);
    if (off < 0) return;
    char key[64]; snprintf(key, sizeof key, "c10-source-modified-%s", F->name);
    vf_violation(key, "%s: source buffer byte %ld changed from %#04x to %#04x by a read-only use", what, off, before[off], s->alloc[off]);
}

static void lay_case(uint64_t idx, void *vctx)
{
    const lay_ctx *c = vctx;
    int dims[4] = { c->nblocks, c->nxo, c->nvar, c->nf }, dg[4];
    vf_decode(idx, dims, 4, dg);
    int block = dg[0], xo = dg[1];
    const variant_t *V = &c->var[dg[2]];
    const c10_fmt_t *F = &c10_formats[c->f[dg[3]]];
    c10_layout_t L, L8;
    if (!c10_layout_of(F->code, &L)) { vf_harderr("no layout for %s", F->name); return; }
    c10_layout_of(PIXMAN_a8r8g8b8, &L8);
    char what[400]; describe(what, sizeof what, c, F, V, xo, block);
    if (vf_verbose) printf("  case: %s\n", what);

    uint32_t *vals; int N = gen_vals(&L, c->vm, c->fullbits, block, &vals);
    int bpp = L.bpp, mode = V->mode, acc = V->acc;
    if (acc == 3) {
        /* only a source can live with one callback: the library may read a destination under any operator (the float pipeline does even
         * for SRC), so a destination without read_func is the caller's error, not an input of the property */
        c10_single_write = 0;
        if (V->route == R_STORE8 || V->route == R_STOREF) { free(vals); return; }
    }
    uint64_t outcome = 0;
    uint64_t nontriv = 0;
    for (int i = 0; i < N; i++) nontriv += !trivial_value(&L, vals[i]);
    int big = N >= 4096; lut_t *T = NULL;
    if (big) { T = calloc(1, sizeof *T); lut_build(T, &L); }

    switch (V->route) {
    case R_FETCH8: {
        timg s, d; int dx0 = 1 + (xo & 1);
        ti_alloc(&s, bpp, xo + N + 2, 2, (block & 1) ? 0xff : 0x00, acc);
        for (int i = 0; i < N; i++) put_px(ti_row(&s, 1), bpp, xo + i, vals[i], L.pmask);
        uint8_t *sbefore = malloc(s.size); memcpy(sbefore, s.alloc, s.size);
        ti_alloc(&d, 32, dx0 + N + 2, 2, 0x5a, 0);
        uint8_t *exp = malloc(d.size); memcpy(exp, d.alloc, d.size);
        uint64_t *desc = malloc(sizeof *desc * N);
        for (int j = 0; j < N; j++) {
            uint32_t v = vals[src_index(mode, N, j)];
            put_px(exp + GUARD + d.stride, 32, dx0 + j, big ? lut_to_8888(T, &L, v) : c10_to_8888(&L, v), 0xffffffffu);
        }
        for (int i = 0; i < N; i++) desc[i] = vals[i];
        ti_create(&s, F->code, NULL); ti_create(&d, PIXMAN_a8r8g8b8, NULL);
        run_src_composite(&s, &d, mode, xo, dx0, N);
        ti_release(&s); ti_release(&d);
        check_stored(&d, exp, NULL, dx0, N, F, "fetch8", what, desc, mode);
        if (!vf_failed()) check_source_intact(&s, sbefore, F, what);
        outcome = vf_hash64(ti_row(&d, 1), (size_t)d.stride, 1);
        free(desc); free(exp); free(sbefore); ti_free(&s); ti_free(&d);
        break;
    }
    case R_STORE8: {
        /* per value: the exact widening, and the widening with every dropped low bit cleared / set;
         * channels absent from F carry a pattern that must be ignored.  VM_FULL on 32 bpp: the values
         * themselves are the a8r8g8b8 source pixels (all 2^32 of them over the space). */
        int per = (c->vm == VM_FULL) ? 1 : 3, n = N * per;
        uint32_t *src = malloc(sizeof *src * n); uint64_t *desc = malloc(sizeof *desc * n);
        for (int i = 0; i < N; i++) {
            if (per == 1) {
                src[i] = bpp == 32 ? vals[i] : (vals[i] | ((uint32_t)(vf_mix(3, vals[i]) & 0xff) << 24));
            } else {
                uint32_t w8 = c10_to_8888(&L, vals[i]);
                uint32_t lowmask = 0, absent = 0;
                for (int ch = 0; ch < 4; ch++) {
                    int sh8 = ch == CH_A ? 24 : ch == CH_R ? 16 : ch == CH_G ? 8 : 0;
                    if (!L.w[ch]) absent |= 0xffu << sh8;
                    else if (L.w[ch] < 8) lowmask |= ((1u << (8 - L.w[ch])) - 1) << sh8;
                }
                uint32_t junk = (uint32_t)vf_mix(5, vals[i]) & absent;
                src[3 * i + 0] = (w8 & ~absent) | junk;
                src[3 * i + 1] = (w8 & ~absent & ~lowmask) | (~junk & absent);
                src[3 * i + 2] = (w8 & ~absent) | lowmask | junk;
            }
        }
        for (int i = 0; i < n; i++) desc[i] = src[i];
        for (int bgi = (per == 1 ? (block & 1) : 0); bgi < (per == 1 ? (block & 1) + 1 : 2) && !vf_failed(); bgi++) {   /* exhaustive sweeps: one background per block */
            timg s, d; int bg = bgi ? 0xff : 0x00;
            ti_alloc(&s, 32, 2 + n + 2, 2, 0x33, 0);
            for (int i = 0; i < n; i++) put_px(ti_row(&s, 1), 32, 2 + i, src[i], 0xffffffffu);
            ti_alloc(&d, bpp, xo + n + 3, 2, bg, acc);
            uint8_t *exp = malloc(d.size), *care = malloc(d.size);
            memcpy(exp, d.alloc, d.size); memset(care, 0xff, d.size);
            for (int j = 0; j < n; j++) {
                uint32_t a = src[src_index(mode, n, j)];
                put_px(exp + GUARD + d.stride, bpp, xo + j, big ? lut_from_8888(T, &L, a) : c10_from_8888(&L, a), L.pmask);
                put_px(care + GUARD + d.stride, bpp, xo + j, L.dmask, L.pmask);
            }
            ti_create(&s, PIXMAN_a8r8g8b8, NULL); ti_create(&d, F->code, NULL);
            run_src_composite(&s, &d, mode, 2, xo, n);
            ti_release(&s); ti_release(&d);
            check_stored(&d, exp, care, xo, n, F, "store8", what, desc, mode);
            outcome = vf_mix(outcome, vf_hash64(ti_row(&d, 1), (size_t)d.stride, 2));
            free(exp); free(care); ti_free(&s); ti_free(&d);
        }
        if (per == 3 && !vf_failed())       /* model self-check: narrowing the widening gives the value back */
            for (int i = 0; i < N; i++)
                if (c10_from_8888(&L, c10_to_8888(&L, vals[i])) != (vals[i] & L.dmask) && L.w[CH_R] <= 8) {
                    vf_harderr("reference codec is not a round trip for %s value %#x", F->name, vals[i]); break;
                }
        free(src); free(desc);
        break;
    }
    case R_SELF: {
        uint64_t *desc = malloc(sizeof *desc * N);
        for (int i = 0; i < N; i++) desc[i] = vals[i];
        for (int k = 0; k < 4 && !vf_failed(); k++) {
            timg s, d; int bg = (k & 1) ? 0xff : 0x00;
            int dxo = (k & 2) ? (xo + 1) % c->nxo : xo;
            ti_alloc(&s, bpp, xo + N + 2, 2, (k & 1) ? 0x00 : 0xff, acc);
            for (int i = 0; i < N; i++) c10_set_px(ti_row(&s, 1), bpp, xo + i, vals[i], L.pmask);
            uint8_t *sbefore = malloc(s.size); memcpy(sbefore, s.alloc, s.size);
            ti_alloc(&d, bpp, dxo + N + 3, 2, bg, acc);
            uint8_t *exp = malloc(d.size), *care = malloc(d.size);
            memcpy(exp, d.alloc, d.size); memset(care, 0xff, d.size);
            for (int j = 0; j < N; j++) {
                c10_set_px(exp + GUARD + d.stride, bpp, dxo + j, vals[src_index(mode, N, j)], L.pmask);
                c10_set_px(care + GUARD + d.stride, bpp, dxo + j, L.dmask, L.pmask);
            }
            ti_create(&s, F->code, NULL); ti_create(&d, F->code, NULL);
            run_src_composite(&s, &d, mode, xo, dxo, N);
            ti_release(&s); ti_release(&d);
            check_stored(&d, exp, care, dxo, N, F, "self", what, desc, mode);
            if (!vf_failed()) check_source_intact(&s, sbefore, F, what);
            outcome = vf_mix(outcome, vf_hash64(ti_row(&d, 1), (size_t)d.stride, 3));
            free(exp); free(care); free(sbefore); ti_free(&s); ti_free(&d);
        }
        free(desc);
        break;
    }
    case R_FETCHF: {
        timg s, d; int dx0 = 1;
        ti_alloc(&s, bpp, xo + N + 2, 2, (block & 1) ? 0xff : 0x00, acc);
        for (int i = 0; i < N; i++) c10_set_px(ti_row(&s, 1), bpp, xo + i, vals[i], L.pmask);
        ti_alloc(&d, 128, dx0 + N + 1, 2, FLOAT_BG, 0);
        uint8_t *before = malloc(d.size); memcpy(before, d.alloc, d.size);
        ti_create(&s, F->code, NULL); ti_create(&d, PIXMAN_rgba_float, NULL);
        run_src_composite(&s, &d, mode, xo, dx0, N);
        ti_release(&s); ti_release(&d);
        const float *fp = (const float *)ti_row(&d, 1);
        static const int memch[4] = { CH_R, CH_G, CH_B, CH_A };      /* rgba_float is r,g,b,a in memory */
        for (int j = 0; j < N && !vf_failed(); j++) {
            uint32_t v = vals[src_index(mode, N, j)];
            for (int q = 0; q < 4; q++) {
                int ch = memch[q]; float got = fp[4 * (dx0 + j) + q];
                int ok; double want;
                if (!L.w[ch]) { want = ch == CH_A ? 1.0 : 0.0; ok = (got == (float)want); }
                else {
                    uint32_t k = c10_chan(&L, ch, v), m = (1u << L.w[ch]) - 1;
                    want = (double)k / (double)m;
                    if (k == 0) ok = (got == 0.0f);
                    else if (k == m) ok = (got == 1.0f);
                    else ok = fabs((double)got - want) <= TOL_FLOAT;
                }
                if (!ok) {
                    char key[64]; snprintf(key, sizeof key, "c10-fetchf-%s", F->name);
                    vf_violation(key, "%s: pixel %d source value %#x channel %c: expected %.9g (k/(2^n-1); 0 and max exact, absent alpha 1, absent colour 0) got %.9g",
                                 what, j, v, "argb"[ch], want, (double)got);
                    break;
                }
            }
        }
        if (!vf_failed()) {      /* everything but the run must be untouched */
            size_t lo = GUARD + (size_t)d.stride + (size_t)dx0 * 16, hi = lo + (size_t)N * 16;
            for (size_t i = 0; i < d.size; i++)
                if ((i < lo || i >= hi) && d.alloc[i] != before[i]) {
                    char key[64]; snprintf(key, sizeof key, "c10-clobber-rgba_float");
                    vf_violation(key, "%s: float destination byte %zu outside the run changed", what, i); break;
                }
        }
        outcome = vf_hash64(ti_row(&d, 1), (size_t)d.stride, 4);
        free(before); ti_free(&s); ti_free(&d);
        break;
    }
    case R_STOREF: {
        /* per value four float encodings of every channel: k/(2^n-1), the lower edge k/2^n of the bucket, the largest float below
         * the upper edge (k+1)/2^n, and - narrowing saturates - a value below 0 where k is 0 / above 1 where k is the maximum */
        int n = 4 * N;
        float *src = malloc(sizeof *src * 4 * n); uint64_t *desc = malloc(sizeof *desc * n);
        for (int i = 0; i < N; i++)
            for (int e = 0; e < 4; e++) {
                float *p = src + 4 * (4 * i + e);
                static const int memch[4] = { CH_R, CH_G, CH_B, CH_A };
                static const float below[6] = { -0.25f, -1e-6f, -3.0f, -0.00390625f, -1.0f, -65536.0f }, above[6] = { 1.5f, 1.0000001f, 2.0f, 255.0f, 3.0e9f, 1.00390625f };
                for (int q = 0; q < 4; q++) {
                    int ch = memch[q];
                    if (!L.w[ch]) { p[q] = (float)((vf_mix(9, vals[i] + q) & 0xff) / 255.0); continue; }
                    uint32_t k = c10_chan(&L, ch, vals[i]), m = (1u << L.w[ch]) - 1;
                    double two_n = (double)(1u << L.w[ch]);
                    if (e == 0) p[q] = (float)((double)k / (double)m);
                    else if (e == 1) p[q] = (float)((double)k / two_n);
                    else if (e == 2) p[q] = nextafterf((float)((double)(k + 1) / two_n), 0.0f);
                    else p[q] = k == 0 ? below[(vals[i] + (uint32_t)q) % 6] : k == m ? above[(vals[i] + (uint32_t)q) % 6] : (float)((double)k / (double)m);
                }
                desc[4 * i + e] = ((uint64_t)e << 32) | vals[i];
            }
        for (int bgi = 0; bgi < 2 && !vf_failed(); bgi++) {
            timg s, d; int bg = bgi ? 0xff : 0x00;
            ti_alloc(&s, 128, 1 + n + 1, 2, FLOAT_BG, 0);
            memcpy(ti_row(&s, 1) + 16, src, sizeof *src * 4 * n);
            ti_alloc(&d, bpp, xo + n + 3, 2, bg, acc);
            uint8_t *exp = malloc(d.size), *care = malloc(d.size);
            memcpy(exp, d.alloc, d.size); memset(care, 0xff, d.size);
            for (int j = 0; j < n; j++) {
                const float *p = src + 4 * src_index(mode, n, j);
                uint32_t px = 0;
                if (L.w[CH_R]) px |= c10_float_to_n(p[0], L.w[CH_R]) << L.sh[CH_R];
                if (L.w[CH_G]) px |= c10_float_to_n(p[1], L.w[CH_G]) << L.sh[CH_G];
                if (L.w[CH_B]) px |= c10_float_to_n(p[2], L.w[CH_B]) << L.sh[CH_B];
                if (L.w[CH_A]) px |= c10_float_to_n(p[3], L.w[CH_A]) << L.sh[CH_A];
                if (px != (vals[src_index(mode, n, j) / 4] & L.dmask)) { vf_harderr("float bucket model disagrees with itself for %s", F->name); }
                c10_set_px(exp + GUARD + d.stride, bpp, xo + j, px, L.pmask);
                c10_set_px(care + GUARD + d.stride, bpp, xo + j, L.dmask, L.pmask);
            }
            ti_create(&s, PIXMAN_rgba_float, NULL); ti_create(&d, F->code, NULL);
            run_src_composite(&s, &d, mode, 1, xo, n);
            ti_release(&s); ti_release(&d);
            check_stored(&d, exp, care, xo, n, F, "storef", what, desc, mode);
            outcome = vf_mix(outcome, vf_hash64(ti_row(&d, 1), (size_t)d.stride, 5));
            free(exp); free(care); ti_free(&s); ti_free(&d);
        }
        free(src); free(desc);
        break;
    }
    }
    acc_flush();
    if (!vf_in_confirm) {
        uint64_t per = (V->route == R_STORE8 && c->vm != VM_FULL) || V->route == R_STOREF ? 8 : V->route == R_SELF ? 4 : 1;
        vf_count_eval((uint64_t)N * per);
        vf_count_nontrivial(nontriv * per);
        ST_ADD(conv[V->route], (uint64_t)N * per); ST_ADD(by_mode[mode], (uint64_t)N * per); ST_ADD(by_acc[acc ? 1 : 0], (uint64_t)N * per);
        ST_ADD(by_cfg[c->cfg], (uint64_t)N * per);
        vf_outcome(vf_mix(outcome, (uint64_t)F->code));
        if (block == c->nblocks / 2 && xo == 1 && dg[3] == c->nf - 1 && dg[2] == (c->nf * 7 + c->cfg) % c->nvar && vf_want_sample() && N > 2) {
            uint32_t v = vals[N / 3];
            vf_sample("%s: e.g. value %#x -> a8r8g8b8 %#010x by the reference codec; %d values in the run, all matched", what, v, c10_to_8888(&L, v), N);
        }
    }
    free(vals); free(T);
}

/* ---------------------------------------------------------------- float widening is monotone */
typedef struct { int cfg; } mono_ctx;
static void mono_case(uint64_t idx, void *vctx)
{
    /* one case = (format with a layout, channel, access mode): sweep the channel 0..max with the others 0 and
     * demand a strictly increasing float, first 0, last 1 */
    const mono_ctx *c = vctx;
    int dims[3] = { 4, NMODES, C10_NLAYOUT }, dg[3]; vf_decode(idx, dims, 3, dg);
    int ch = dg[0], mode = dg[1]; const c10_fmt_t *F = &c10_formats[dg[2]];
    c10_layout_t L; c10_layout_of(F->code, &L);
    vf_count_eval(1);
    if (!L.w[ch]) return;
    int N = 1 << L.w[ch];
    timg s, d;
    ti_alloc(&s, L.bpp, N + 2, 2, 0, 0);
    for (int k = 0; k < N; k++) c10_set_px(ti_row(&s, 1), L.bpp, 1 + k, (uint32_t)k << L.sh[ch], L.pmask);
    ti_alloc(&d, 128, N + 2, 2, FLOAT_BG, 0);
    ti_create(&s, F->code, NULL); ti_create(&d, PIXMAN_rgba_float, NULL);
    run_src_composite(&s, &d, mode, 1, 1, N);
    ti_release(&s); ti_release(&d);
    static const int memq[4] = { 3, 0, 1, 2 };   /* channel a r g b -> float index within r,g,b,a */
    const float *fp = (const float *)ti_row(&d, 1);
    float prev = -1.0f;
    for (int j = 0; j < N; j++) {
        int k = src_index(mode, N, j);
        (void)k;
    }
    for (int k = 0; k < N; k++) {
        int j = mode == M_REFL ? N - 1 - k : k;
        float f = fp[4 * (1 + j) + memq[ch]];
        if (!(f > prev) || (k == 0 && f != 0.0f) || (k == N - 1 && f != 1.0f)) {
            char key[64]; snprintf(key, sizeof key, "c10-float-monotone-%s", F->name);
            vf_violation(key, "format=%s channel %c access=%s chain=%s: widening to float is not strictly increasing from 0 to 1: value %d -> %.9g, previous %.9g",
                         F->name, "argb"[ch], mode_names[mode], c10_cfg_names[c->cfg], k, (double)f, (double)prev);
            break;
        }
        prev = f;
    }
    vf_count_nontrivial(1);
    vf_outcome(vf_hash64(fp, (size_t)N * 16, (uint64_t)F->code + (uint64_t)ch));
    ti_free(&s); ti_free(&d);
}

/* ---------------------------------------------------------------- sRGB */
typedef struct { int cfg; } srgb_ctx;
/* one case = (channel sweep block (a,r,g,b) x 4 patterns of the other channels, access mode, accessors) */
static void srgb_case(uint64_t idx, void *vctx)
{
    const srgb_ctx *c = vctx;
    int dims[3] = { 16, NMODES, 2 }, dg[3]; vf_decode(idx, dims, 3, dg);
    int block = dg[0], mode = dg[1], acc = dg[2], ch = block / 4;
    c10_layout_t L; c10_layout_of(PIXMAN_a8r8g8b8_sRGB, &L);
    uint32_t *vals; int N = gen_vals(&L, VM_CHAN, 0, block, &vals);
    char what[300];
    snprintf(what, sizeof what, "format=a8r8g8b8_sRGB sweep of channel %c others=%#x access=%s accessors=%d chain=%s", "argb"[ch],
             PAT[block % 4], mode_names[mode], acc, c10_cfg_names[c->cfg]);
    if (vf_verbose) printf("  case: %s\n", what);
    static const int memq[4] = { 3, 0, 1, 2 };
    uint64_t outcome = 0;

    /* (1) sRGB -> rgba_float: alpha k/255; colour strictly increasing, 0 -> 0, 255 -> 1 */
    timg s, fl, back, d8;
    ti_alloc(&s, 32, N + 2, 2, 0x00, acc);
    for (int i = 0; i < N; i++) c10_set_px(ti_row(&s, 1), 32, 1 + i, vals[i], 0xffffffffu);
    ti_alloc(&fl, 128, N + 2, 2, FLOAT_BG, 0);
    ti_create(&s, PIXMAN_a8r8g8b8_sRGB, NULL); ti_create(&fl, PIXMAN_rgba_float, NULL);
    run_src_composite(&s, &fl, mode, 1, 1, N);
    ti_release(&fl);
    const float *fp = (const float *)ti_row(&fl, 1);
    float prev = -1.0f;
    for (int k = 0; k < N && !vf_failed(); k++) {
        int j = mode == M_REFL ? N - 1 - k : k;
        float f = fp[4 * (1 + j) + memq[ch]];
        int ok = f > prev && (k != 0 || f == 0.0f) && (k != 255 || f == 1.0f);
        if (ch == CH_A) ok = ok && fabs((double)f - k / 255.0) <= TOL_FLOAT;
        if (!ok) vf_violation("c10-fetchf-a8r8g8b8_sRGB", "%s: value %d reads as %.9g (previous %.9g): expected strictly increasing, 0 -> 0, 255 -> 1%s",
                              what, k, (double)f, (double)prev, ch == CH_A ? ", alpha = k/255" : "");
        prev = f;
    }
    outcome = vf_hash64(fp, (size_t)N * 16, 11);
    /* (2) ... and back: rgba_float -> sRGB must give the original pixels (to_srgb o to_linear = id) */
    if (!vf_failed()) {
        ti_create(&fl, PIXMAN_rgba_float, NULL);
        ti_alloc(&back, 32, N + 3, 2, 0xff, acc);
        uint8_t *exp = malloc(back.size); memcpy(exp, back.alloc, back.size);
        uint64_t *desc = malloc(sizeof *desc * N);
        for (int j = 0; j < N; j++) {
            /* the float row holds (in mode order) the pixels; composite it straight */
            int i = src_index(mode, N, j);
            c10_set_px(exp + GUARD + back.stride, 32, 2 + j, vals[i], 0xffffffffu); desc[j] = vals[i];
        }
        ti_create(&back, PIXMAN_a8r8g8b8_sRGB, NULL);
        run_src_composite(&fl, &back, M_SCAN, 1, 2, N);
        ti_release(&back); ti_release(&fl);
        c10_fmt_t F = { "a8r8g8b8_sRGB", PIXMAN_a8r8g8b8_sRGB, CK_SRGB };
        check_stored(&back, exp, NULL, 2, N, &F, "float-roundtrip", what, desc, M_SCAN);
        free(exp); free(desc); ti_free(&back);
    }
    /* (3) sRGB -> sRGB is the identity */
    if (!vf_failed()) {
        ti_alloc(&back, 32, N + 3, 2, 0x00, acc);
        uint8_t *exp = malloc(back.size); memcpy(exp, back.alloc, back.size);
        uint64_t *desc = malloc(sizeof *desc * N);
        for (int j = 0; j < N; j++) { c10_set_px(exp + GUARD + back.stride, 32, 2 + j, vals[src_index(mode, N, j)], 0xffffffffu); desc[j] = vals[j]; }
        ti_create(&back, PIXMAN_a8r8g8b8_sRGB, NULL);
        run_src_composite(&s, &back, mode, 1, 2, N);
        ti_release(&back);
        c10_fmt_t F = { "a8r8g8b8_sRGB", PIXMAN_a8r8g8b8_sRGB, CK_SRGB };
        check_stored(&back, exp, NULL, 2, N, &F, "self", what, desc, mode);
        free(exp); free(desc); ti_free(&back);
    }
    /* (4) sRGB -> a8r8g8b8: alpha exact; colour non-decreasing, 0 -> 0, 255 -> 255; other channels constant */
    if (!vf_failed()) {
        ti_alloc(&d8, 32, N + 2, 2, 0x5a, 0);
        ti_create(&d8, PIXMAN_a8r8g8b8, NULL);
        run_src_composite(&s, &d8, mode, 1, 1, N);
        ti_release(&d8);
        int sh = ch == CH_A ? 24 : ch == CH_R ? 16 : ch == CH_G ? 8 : 0;
        int prevc = -1; uint32_t others0 = c10_get_px(ti_row(&d8, 1), 32, 1) & ~(0xffu << sh);
        for (int k = 0; k < N && !vf_failed(); k++) {
            int j = mode == M_REFL ? N - 1 - k : k;
            uint32_t p = c10_get_px(ti_row(&d8, 1), 32, 1 + j); int cv = (p >> sh) & 0xff;
            int ok = cv >= prevc && (k != 0 || cv == 0) && (k != 255 || cv == 255) && (p & ~(0xffu << sh)) == others0;
            if (ch == CH_A) ok = ok && cv == k;
            if (!ok) vf_violation("c10-fetch8-a8r8g8b8_sRGB", "%s: value %d reads as a8r8g8b8 %#010x (channel %d, previous %d): expected non-decreasing, 0 -> 0, 255 -> 255, "
                                  "alpha exact, other channels unaffected (%#010x)", what, k, p, cv, prevc, others0);
            prevc = cv;
        }
        outcome = vf_mix(outcome, vf_hash64(ti_row(&d8, 1), (size_t)d8.stride, 12));
        ti_free(&d8);
    }
    ti_release(&s);
    /* (5) a8r8g8b8 -> sRGB: same shape */
    if (!vf_failed()) {
        timg s8;
        ti_alloc(&s8, 32, N + 2, 2, 0x00, 0);
        for (int i = 0; i < N; i++) c10_set_px(ti_row(&s8, 1), 32, 1 + i, vals[i], 0xffffffffu);
        ti_alloc(&back, 32, N + 3, 2, 0xff, acc);
        uint8_t *before = malloc(back.size); memcpy(before, back.alloc, back.size);
        ti_create(&s8, PIXMAN_a8r8g8b8, NULL); ti_create(&back, PIXMAN_a8r8g8b8_sRGB, NULL);
        run_src_composite(&s8, &back, mode, 1, 2, N);
        ti_release(&s8); ti_release(&back);
        int sh = ch == CH_A ? 24 : ch == CH_R ? 16 : ch == CH_G ? 8 : 0;
        int prevc = -1; uint32_t others0 = c10_get_px(ti_row(&back, 1), 32, 2 + (mode == M_REFL ? N - 1 : 0)) & ~(0xffu << sh);
        for (int k = 0; k < N && !vf_failed(); k++) {
            int j = mode == M_REFL ? N - 1 - k : k;
            uint32_t p = c10_get_px(ti_row(&back, 1), 32, 2 + j); int cv = (p >> sh) & 0xff;
            int ok = cv >= prevc && (k != 0 || cv == 0) && (k != 255 || cv == 255) && (p & ~(0xffu << sh)) == others0;
            if (ch == CH_A) ok = ok && cv == k;
            if (!ok) vf_violation("c10-store8-a8r8g8b8_sRGB", "%s: a8r8g8b8 value %d stored as sRGB pixel %#010x (channel %d, previous %d): expected non-decreasing, "
                                  "0 -> 0, 255 -> 255, alpha exact, other channels unaffected (%#010x)", what, k, p, cv, prevc, others0);
            prevc = cv;
        }
        for (size_t i = 0; i < back.size && !vf_failed(); i++) {
            size_t lo = GUARD + (size_t)back.stride + 8, hi = lo + (size_t)N * 4;
            if ((i < lo || i >= hi) && back.alloc[i] != before[i])
                vf_violation("c10-clobber-a8r8g8b8_sRGB", "%s: destination byte %zu outside the run changed", what, i);
        }
        outcome = vf_mix(outcome, vf_hash64(ti_row(&back, 1), (size_t)back.stride, 13));
        free(before); ti_free(&s8); ti_free(&back);
    }
    ti_free(&s); ti_free(&fl);
    acc_flush();
    if (!vf_in_confirm) {
        vf_count_eval((uint64_t)N * 5); vf_count_nontrivial((uint64_t)(N - 2) * 5);
        ST_ADD(srgb, (uint64_t)N * 5); ST_ADD(by_cfg[c->cfg], (uint64_t)N * 5);
        vf_outcome(outcome);
    }
    free(vals);
}

/* ---------------------------------------------------------------- indexed formats */
typedef struct { int cfg; int nxo; pixman_indexed_t pal[5][2]; } idx_ctx;
static const int idx_fmts[5] = { 38, 39, 40, 41, 42 };   /* c8 g8 c4 g4 g1 in c10_formats */

static void idx_case(uint64_t idx, void *vctx)
{
    const idx_ctx *c = vctx;
    /* dims: xo, palette variant, route (fetch8, store8, self, fetchf, storef), mode, acc, format */
    int dims[6] = { c->nxo, 2, NROUTES, NMODES, 2, 5 }, dg[6]; vf_decode(idx, dims, 6, dg);
    int xo = dg[0], pv = dg[1], route = dg[2], mode = dg[3], acc = dg[4];
    const c10_fmt_t *F = &c10_formats[idx_fmts[dg[5]]];
    const pixman_indexed_t *pal = &c->pal[dg[5]][pv];
    c10_layout_t L; c10_layout_of(F->code, &L);
    int bpp = L.bpp, color = (L.type == 4), nent = 1 << bpp;
    uint32_t pmask = (1u << bpp) - 1;
    char what[300];
    snprintf(what, sizeof what, "format=%s palette=%d route=%s access=%s accessors=%d chain=%s xoffset=%d", F->name, pv, route_names[route],
             mode_names[mode], acc, c10_cfg_names[c->cfg], xo);
    if (vf_verbose) printf("  case: %s\n", what);
    /* index run: every index, three orders for the small tables */
    int N = bpp == 8 ? 256 : bpp == 4 ? 48 : 70;
    uint32_t *vals = malloc(sizeof *vals * N);
    for (int i = 0; i < N; i++)
        vals[i] = bpp == 8 ? (uint32_t)((i * 73 + xo) & 255) : bpp == 4 ? (uint32_t)(((i % 16) * (i < 16 ? 1 : i < 32 ? 5 : 11) + i / 16) & 15)
                                                                          : (uint32_t)((vf_mix(xo + 1, i) >> 20) & 1);
    uint64_t outcome = 0;
    uint64_t *desc = malloc(sizeof *desc * 3 * N);
    c10_layout_t Lfake = L; Lfake.pmask = pmask; Lfake.dmask = pmask;

    if (route == R_FETCH8 || route == R_FETCHF) {
        timg s, d; int dbpp = route == R_FETCH8 ? 32 : 128;
        ti_alloc(&s, bpp, xo + N + 2, 2, (xo & 1) ? 0xff : 0, acc);
        for (int i = 0; i < N; i++) c10_set_px(ti_row(&s, 1), bpp, xo + i, vals[i], pmask);
        ti_alloc(&d, dbpp, 1 + N + 2, 2, route == R_FETCH8 ? 0x5a : FLOAT_BG, 0);
        uint8_t *exp = malloc(d.size); memcpy(exp, d.alloc, d.size);
        for (int i = 0; i < N; i++) desc[i] = vals[i];
        ti_create(&s, F->code, pal); ti_create(&d, route == R_FETCH8 ? PIXMAN_a8r8g8b8 : PIXMAN_rgba_float, NULL);
        run_src_composite(&s, &d, mode, xo, 1, N);
        ti_release(&s); ti_release(&d);
        if (route == R_FETCH8) {
            for (int j = 0; j < N; j++) c10_set_px(exp + GUARD + d.stride, 32, 1 + j, pal->rgba[vals[src_index(mode, N, j)]], 0xffffffffu);
            check_stored(&d, exp, NULL, 1, N, F, "fetch8", what, desc, mode);
        } else {
            const float *fp = (const float *)ti_row(&d, 1);
            for (int j = 0; j < N && !vf_failed(); j++) {
                uint32_t argb = pal->rgba[vals[src_index(mode, N, j)]];
                uint32_t ch8[4] = { (argb >> 16) & 255, (argb >> 8) & 255, argb & 255, argb >> 24 };
                for (int q = 0; q < 4; q++) {
                    float got = fp[4 * (1 + j) + q]; double want = ch8[q] / 255.0;
                    int ok = ch8[q] == 0 ? got == 0.0f : ch8[q] == 255 ? got == 1.0f : fabs((double)got - want) <= TOL_FLOAT;
                    if (!ok) { char key[64]; snprintf(key, sizeof key, "c10-fetchf-%s", F->name);
                        vf_violation(key, "%s: index %u (palette colour %#010x) float component %d: expected %.9g got %.9g", what, vals[src_index(mode, N, j)], argb, q, want, (double)got); break; }
                }
            }
        }
        outcome = vf_hash64(ti_row(&d, 1), (size_t)d.stride, 21);
        free(exp); ti_free(&s); ti_free(&d);
    } else if (route == R_STORE8 || route == R_STOREF) {
        /* feed the palette colour of each index; for colour tables also with the three dropped low bits of
         * every channel cleared / set (the table is looked up with the top five bits) */
        int per = color ? 3 : 1, n = per * N;
        uint32_t *src = malloc(sizeof *src * n);
        for (int i = 0; i < N; i++) {
            uint32_t a = pal->rgba[vals[i]];
            src[per * i] = a;
            if (per == 3) { src[3 * i + 1] = a & 0xfff8f8f8u; src[3 * i + 2] = a | 0x00070707u; }
        }
        for (int i = 0; i < n; i++) desc[i] = src[i];
        if (route == R_STOREF) { per = 1; n = N; for (int i = 0; i < N; i++) { src[i] = pal->rgba[vals[i]]; desc[i] = src[i]; } }
        for (int bgi = 0; bgi < 2 && !vf_failed(); bgi++) {
            timg s, d;
            if (route == R_STORE8) {
                ti_alloc(&s, 32, 2 + n + 2, 2, 0x33, 0);
                for (int i = 0; i < n; i++) c10_set_px(ti_row(&s, 1), 32, 2 + i, src[i], 0xffffffffu);
            } else {
                ti_alloc(&s, 128, 2 + n + 2, 2, FLOAT_BG, 0);
                float *fp = (float *)ti_row(&s, 1);
                for (int i = 0; i < n; i++) {
                    fp[4 * (2 + i) + 0] = (float)(((src[i] >> 16) & 255) / 255.0); fp[4 * (2 + i) + 1] = (float)(((src[i] >> 8) & 255) / 255.0);
                    fp[4 * (2 + i) + 2] = (float)((src[i] & 255) / 255.0);         fp[4 * (2 + i) + 3] = (float)((src[i] >> 24) / 255.0);
                }
            }
            ti_alloc(&d, bpp, xo + n + 3, 2, bgi ? 0xff : 0, acc);
            uint8_t *exp = malloc(d.size); memcpy(exp, d.alloc, d.size);
            for (int j = 0; j < n; j++) c10_set_px(exp + GUARD + d.stride, bpp, xo + j, vals[src_index(mode, n, j) / per], pmask);
            ti_create(&s, route == R_STORE8 ? PIXMAN_a8r8g8b8 : PIXMAN_rgba_float, NULL); ti_create(&d, F->code, pal);
            run_src_composite(&s, &d, mode, 2, xo, n);
            ti_release(&s); ti_release(&d);
            check_stored(&d, exp, NULL, xo, n, F, route_names[route], what, desc, mode);
            outcome = vf_mix(outcome, vf_hash64(ti_row(&d, 1), (size_t)d.stride, 22));
            free(exp); ti_free(&s); ti_free(&d);
        }
        free(src);
    } else {
        for (int i = 0; i < N; i++) desc[i] = vals[i];
        /* k & 4: the destination carries the OTHER palette of the same format: the copy has to go through colour
         * (index -> source palette colour -> 15-bit key (5:5:5, or luma (153 r + 301 g + 58 b) >> 2) -> destination table) */
        const pixman_indexed_t *opal = &c->pal[dg[5]][pv ^ 1];
        for (int k = 0; k < 8 && !vf_failed(); k++) {
            timg s, d; int dxo = (k & 2) ? (xo + 1) % c->nxo : xo;
            const pixman_indexed_t *dpal = (k & 4) ? opal : pal;
            ti_alloc(&s, bpp, xo + N + 2, 2, (k & 1) ? 0 : 0xff, acc);
            for (int i = 0; i < N; i++) c10_set_px(ti_row(&s, 1), bpp, xo + i, vals[i], pmask);
            ti_alloc(&d, bpp, dxo + N + 3, 2, (k & 1) ? 0xff : 0, acc);
            uint8_t *exp = malloc(d.size); memcpy(exp, d.alloc, d.size);
            for (int j = 0; j < N; j++) {
                uint32_t v = vals[src_index(mode, N, j)];
                if (k & 4) {
                    uint32_t a = pal->rgba[v], r = (a >> 16) & 255, gg = (a >> 8) & 255, b = a & 255;
                    uint32_t key = color ? ((r >> 3) << 10 | (gg >> 3) << 5 | (b >> 3)) : ((r * 153 + gg * 301 + b * 58) >> 2);
                    v = dpal->ent[key] & pmask;
                }
                c10_set_px(exp + GUARD + d.stride, bpp, dxo + j, v, pmask);
            }
            ti_create(&s, F->code, pal); ti_create(&d, F->code, dpal);
            run_src_composite(&s, &d, mode, xo, dxo, N);
            ti_release(&s); ti_release(&d);
            check_stored(&d, exp, NULL, dxo, N, F, (k & 4) ? "self-other-palette" : "self", what, desc, mode);
            outcome = vf_mix(outcome, vf_hash64(ti_row(&d, 1), (size_t)d.stride, 23));
            free(exp); ti_free(&s); ti_free(&d);
        }
    }
    (void)nent; (void)Lfake;
    acc_flush();
    if (!vf_in_confirm) {
        vf_count_eval((uint64_t)N); vf_count_nontrivial((uint64_t)N);
        ST_ADD(indexed, (uint64_t)N); ST_ADD(by_cfg[c->cfg], (uint64_t)N);
        vf_outcome(vf_mix(outcome, F->code + (uint64_t)pv));
    }
    free(vals); free(desc);
}

/* ---------------------------------------------------------------- YUV sources */
typedef struct { int cfg; int full; } yuv_ctx;
static const int B12[12] = { 0x00, 0x01, 0x02, 0x3f, 0x40, 0x7f, 0x80, 0x81, 0xbf, 0xc0, 0xfe, 0xff };

static void bt601(int Y, int U, int V, double out[3])
{
    double y = 1.164 * (Y - 16), r = y + 1.596 * (V - 128), g = y - 0.813 * (V - 128) - 0.391 * (U - 128), b = y + 2.018 * (U - 128);
    out[0] = r < 0 ? 0 : r > 255 ? 255 : r; out[1] = g < 0 ? 0 : g > 255 ? 255 : g; out[2] = b < 0 ? 0 : b > 255 ? 255 : b;
}

/* one case = (U, V, format, accessors) ; all 256 Y values, at even and odd x, on two rows, read by the three access modes */
/* ---------------------------------------------------------------- dithered destinations
 * Ordered dithering adds an offset strictly inside (0, 1) of one destination step before narrowing, so a value the destination can hold
 * exactly is stored unchanged at EVERY position of the dither matrix: a same-format copy onto a dithered destination is the identity
 * (0 stays 0, the maximum stays the maximum), whatever the dither offsets. */
static void dither_case(uint64_t idx, void *vctx)
{
    (void)vctx;
    static const pixman_format_code_t fm[10] = { PIXMAN_r5g6b5, PIXMAN_a4r4g4b4, PIXMAN_a1r5g5b5, PIXMAN_r3g3b2, PIXMAN_a8, PIXMAN_a8r8g8b8, PIXMAN_x2b10g10r10, PIXMAN_a2r2g2b2, PIXMAN_r8g8b8, PIXMAN_a4 };
    static const char *fn[10] = { "r5g6b5", "a4r4g4b4", "a1r5g5b5", "r3g3b2", "a8", "a8r8g8b8", "x2b10g10r10", "a2r2g2b2", "r8g8b8", "a4" };
    static const pixman_dither_t dm[5] = { PIXMAN_DITHER_ORDERED_BAYER_8, PIXMAN_DITHER_ORDERED_BLUE_NOISE_64, PIXMAN_DITHER_FAST, PIXMAN_DITHER_GOOD, PIXMAN_DITHER_BEST };
    static const char *dn[5] = { "ORDERED_BAYER_8", "ORDERED_BLUE_NOISE_64", "FAST", "GOOD", "BEST" };
    static const int offs[3][2] = { { 0, 0 }, { 5, 7 }, { 63, 1 } };
    int dims[5] = { 10, 5, 7, 3, 2 }, d[5]; vf_decode(idx, dims, 5, d);
    int bpp = PIXMAN_FORMAT_BPP(fm[d[0]]);
    c10_layout_t L; c10_layout_of(fm[d[0]], &L);
    /* values: all zeros, all ones, and five patterns of the defined bits */
    uint32_t full = bpp == 32 ? 0xffffffffu : ((1u << bpp) - 1), pats[7] = { 0, full, 0x55555555u & full, 0xaaaaaaaau & full, 0x12345678u & full, 0x00010101u & full, 0xfefefefeu & full };
    uint32_t val = pats[d[2]] & L.dmask;
    enum { N = 66 };
    int stride = ((N * bpp + 31) / 32) * 4;
    uint8_t *sb = calloc((size_t)stride, N), *db = malloc((size_t)stride * N); memset(db, d[4] ? 0xff : 0x00, (size_t)stride * N);
    for (int y = 0; y < N; y++) for (int x = 0; x < N; x++) c10_set_px(sb + (size_t)y * stride, bpp, x, val, full);
    pixman_image_t *src = pixman_image_create_bits(fm[d[0]], N, N, (uint32_t *)sb, stride), *dst = pixman_image_create_bits(fm[d[0]], N, N, (uint32_t *)db, stride);
    pixman_image_set_dither(dst, dm[d[1]]); pixman_image_set_dither_offset(dst, offs[d[3]][0], offs[d[3]][1]);
    /* OVER from an image the library cannot prove opaque keeps the request in the general pipeline (a plain same-format SRC may be a memcpy) */
    pixman_image_composite32(PIXMAN_OP_SRC, src, NULL, dst, 0, 0, 0, 0, 0, 0, N, N);
    pixman_image_unref(src); pixman_image_unref(dst); vf_count_libcalls(1);
    uint64_t h = 0;
    for (int y = 0; y < N && !vf_failed(); y++) for (int x = 0; x < N; x++) {
        uint32_t got = c10_get_px(db + (size_t)y * stride, bpp, x) & L.dmask;
        h = vf_mix(h, got);
        if (got != val) { vf_violation("c10-dithered-copy-not-identity", "format %s, destination dither %s offset (%d,%d): source pixel %#x copied (OP_SRC, same format) to (%d,%d) reads back %#x (defined bits %#x)",
                                       fn[d[0]], dn[d[1]], offs[d[3]][0], offs[d[3]][1], val, x, y, got, L.dmask); break; }
    }
    free(sb); free(db);
    if (!vf_in_confirm) { vf_count_eval((uint64_t)N * N); vf_count_nontrivial((uint64_t)N * N); vf_outcome(vf_mix(h, idx)); }
}

static void yuv_case(uint64_t idx, void *vctx)
{
    const yuv_ctx *c = vctx;
    int nu = c->full ? 256 : 12;
    int dims[4] = { nu, nu, 2, 2 }, dg[4]; vf_decode(idx, dims, 4, dg);
    int U = c->full ? dg[0] : B12[dg[0]], V = c->full ? dg[1] : B12[dg[1]], isyv12 = dg[2], acc = dg[3];
    const char *fname = isyv12 ? "yv12" : "yuy2";
    /* image: W = 512 pixels (Y value k at x = 2k and a second copy 255-k at x = 2k+1 so both pixels of a
     * chroma pair are exercised), H = 2 */
    int W = 512, H = 2;
    char what[200]; snprintf(what, sizeof what, "format=%s U=%d V=%d accessors=%d chain=%s", fname, U, V, acc, c10_cfg_names[c->cfg]);
    if (vf_verbose) printf("  case: %s\n", what);
    size_t size; uint8_t *alloc, *bits; int stride;
    if (!isyv12) {
        stride = W * 2; size = GUARD * 2 + (size_t)stride * H; alloc = malloc(size); memset(alloc, 0x77, size); bits = alloc + GUARD;
        for (int y = 0; y < H; y++) for (int x = 0; x < W; x++) {
            int Y = (x & 1) ? 255 - x / 2 : x / 2; if (y == 0) Y = 255 - Y;
            bits[y * stride + 2 * x] = (uint8_t)Y;
            bits[y * stride + ((2 * x) & ~3) + 1] = (uint8_t)U; bits[y * stride + ((2 * x) & ~3) + 3] = (uint8_t)V;
        }
    } else {
        stride = W;             /* bytes per luma line; chroma lines are stride/2 bytes; V plane first, then U */
        size = GUARD * 2 + (size_t)stride * H + 2 * ((size_t)(stride / 2) * (H / 2)); alloc = malloc(size); memset(alloc, 0x77, size); bits = alloc + GUARD;
        for (int y = 0; y < H; y++) for (int x = 0; x < W; x++) { int Y = (x & 1) ? 255 - x / 2 : x / 2; if (y == 0) Y = 255 - Y; bits[y * stride + x] = (uint8_t)Y; }
        uint8_t *vplane = bits + (size_t)stride * H, *uplane = vplane + (size_t)(stride / 2) * (H / 2);
        memset(vplane, V, (size_t)(stride / 2) * (H / 2)); memset(uplane, U, (size_t)(stride / 2) * (H / 2));
    }
    uint8_t *before = malloc(size); memcpy(before, alloc, size);
    if (acc) for (size_t i = 0; i < size; i++) alloc[i] ^= SCR;
    pixman_image_t *src = pixman_image_create_bits(isyv12 ? PIXMAN_yv12 : PIXMAN_yuy2, W, H, (uint32_t *)bits, stride);
    if (acc) pixman_image_set_accessors(src, acc_read, acc_write);
    uint64_t reads0 = acc_r_local;
    uint32_t *res[NMODES];
    for (int mode = 0; mode < NMODES; mode++) {
        res[mode] = calloc((size_t)W * H, 4);
        pixman_image_t *d = pixman_image_create_bits(PIXMAN_a8r8g8b8, W, H, res[mode], W * 4);
        pixman_transform_t tr; int sx = 0;
        if (mode == M_TRANS) { pixman_transform_init_translate(&tr, pixman_int_to_fixed(4), 0); pixman_image_set_transform(src, &tr); sx = -4; }
        else if (mode == M_REFL) { pixman_transform_init_identity(&tr); tr.matrix[0][0] = -pixman_fixed_1; tr.matrix[0][2] = pixman_int_to_fixed(W); pixman_image_set_transform(src, &tr); }
        else pixman_image_set_transform(src, NULL);
        pixman_image_composite32(PIXMAN_OP_SRC, src, NULL, d, sx, 0, 0, 0, 0, 0, W, H);
        vf_count_libcalls(1);
        pixman_image_unref(d);
    }
    /* the same pixels widened to float (scanline reader, float pipeline): each component is the 8-bit one / 255 */
    float *resf = calloc((size_t)W * H * 4, sizeof(float));
    {
        pixman_image_t *d = pixman_image_create_bits(PIXMAN_rgba_float, W, H, (uint32_t *)resf, W * 16);
        pixman_image_set_transform(src, NULL);
        pixman_image_composite32(PIXMAN_OP_SRC, src, NULL, d, 0, 0, 0, 0, 0, 0, W, H);
        vf_count_libcalls(1);
        pixman_image_unref(d);
    }
    pixman_image_unref(src);
    if (acc) for (size_t i = 0; i < size; i++) alloc[i] ^= SCR;
    for (int i = 0; i < W * H && !vf_failed(); i++) {
        uint32_t p = res[M_SCAN][i]; const float *f = resf + 4 * i;
        float w4[4] = { (float)((p >> 16 & 255) / 255.0), (float)((p >> 8 & 255) / 255.0), (float)((p & 255) / 255.0), (float)((p >> 24) / 255.0) };
        for (int q = 0; q < 4; q++) if (fabsf(f[q] - w4[q]) > 1e-6f) {
            char key[64]; snprintf(key, sizeof key, "c10-yuv-float-widening-%s", fname);
            vf_violation(key, "%s: pixel %d reads %#010x in the 8-bit pipeline but (r,g,b,a) = (%.6f, %.6f, %.6f, %.6f) in the float pipeline", what, i, p, f[0], f[1], f[2], f[3]);
            break;
        }
    }
    free(resf);
    uint64_t nontriv = 0, reads = acc_r_local - reads0;
    for (int y = 0; y < H && !vf_failed(); y++) for (int x = 0; x < W && !vf_failed(); x++) {
        int Y = (x & 1) ? 255 - x / 2 : x / 2; if (y == 0) Y = 255 - Y;
        uint32_t p0 = res[M_SCAN][y * W + x], p1 = res[M_TRANS][y * W + x], p2 = res[M_REFL][y * W + (W - 1 - x)];
        char key[64];
        if (p0 != p1 || p0 != p2) {
            snprintf(key, sizeof key, acc ? "c10-yuv-readers-disagree-acc-%s" : "c10-yuv-readers-disagree-%s", fname);
            vf_violation(key, "%s: pixel (%d,%d) Y=%d: scanline reader %#010x, per-pixel reader (translation) %#010x, per-pixel reader (reflection) %#010x", what, x, y, Y, p0, p1, p2);
            break;
        }
        double want[3]; bt601(Y, U, V, want);
        int got[3] = { (p0 >> 16) & 255, (p0 >> 8) & 255, p0 & 255 };
        if ((p0 >> 24) != 0xff || fabs(got[0] - want[0]) > 1.0 || fabs(got[1] - want[1]) > 1.0 || fabs(got[2] - want[2]) > 1.0) {
            if (acc && reads == 0) {
                /* the image has a read callback, the callback was never invoked, and the result is not that of the logical contents */
                snprintf(key, sizeof key, "c10-yuv-accessor-bypass-%s", fname);
                vf_violation(key, "%s: the image has user read/write accessors but read_func was called 0 times during 3 composites; pixel (%d,%d) Y=%d reads as %#010x "
                             "(raw storage decoded directly) instead of a=255 r=%.2f g=%.2f b=%.2f as for the directly addressed image with the same contents",
                             what, x, y, Y, p0, want[0], want[1], want[2]);
            } else {
                snprintf(key, sizeof key, acc ? "c10-yuv-value-acc-%s" : "c10-yuv-value-%s", fname);
                vf_violation(key, "%s: pixel (%d,%d) Y=%d: got %#010x, BT.601 gives a=255 r=%.2f g=%.2f b=%.2f (tolerance 1)", what, x, y, Y, p0, want[0], want[1], want[2]);
            }
            break;
        }
        nontriv += (want[0] > 0 && want[0] < 255) || (want[1] > 0 && want[1] < 255) || (want[2] > 0 && want[2] < 255);
    }
    if (!vf_failed() && first_diff(alloc, before, NULL, size) >= 0)
        vf_violation("c10-source-modified-yuv", "%s: source buffer modified by reading", what);
    acc_flush();
    if (!vf_in_confirm) {
        vf_count_eval((uint64_t)W * H); vf_count_nontrivial(nontriv); ST_ADD(yuv, (uint64_t)W * H); ST_ADD(by_cfg[c->cfg], (uint64_t)W * H);
        vf_outcome(vf_hash64(res[0], (size_t)W * H * 4, 31));
        if (U == 0x40 && V == 0xc0 && !acc && vf_want_sample())
            vf_sample("%s: Y=128 reads as %#010x by all three readers (BT.601 within 1)", what, res[0][1 * W + 256]);
    }
    for (int m = 0; m < NMODES; m++) free(res[m]);
    free(before); free(alloc);
}

/* ---------------------------------------------------------------- rgb_float (96 bpp): absent alpha, neighbours */
typedef struct { int cfg; } rgbf_ctx;
static void rgbf_case(uint64_t idx, void *vctx)
{
    const rgbf_ctx *c = vctx;
    int dims[2] = { NMODES, 2 }, dg[2]; vf_decode(idx, dims, 2, dg);
    int mode = dg[0], dir = dg[1], N = 64;
    char what[200]; snprintf(what, sizeof what, "rgb_float %s rgba_float access=%s chain=%s", dir ? "<-" : "->", mode_names[mode], c10_cfg_names[c->cfg]);
    timg s, d;
    ti_alloc(&s, dir ? 128 : 96, N + 2, 2, FLOAT_BG, 0); ti_alloc(&d, dir ? 96 : 128, N + 3, 2, FLOAT_BG, 0);
    int sc = dir ? 4 : 3, dc = dir ? 3 : 4;
    float *sp = (float *)ti_row(&s, 1);
    for (int i = 0; i < N; i++) for (int q = 0; q < sc; q++) sp[sc * (1 + i) + q] = (float)((vf_mix(i, q) & 0xffff) / 65535.0);
    uint8_t *before = malloc(d.size); memcpy(before, d.alloc, d.size);
    ti_create(&s, dir ? PIXMAN_rgba_float : PIXMAN_rgb_float, NULL); ti_create(&d, dir ? PIXMAN_rgb_float : PIXMAN_rgba_float, NULL);
    run_src_composite(&s, &d, mode, 1, 2, N);
    ti_release(&s); ti_release(&d);
    const float *dp = (const float *)ti_row(&d, 1);
    for (int j = 0; j < N && !vf_failed(); j++) {
        int i = src_index(mode, N, j);
        for (int q = 0; q < dc; q++) {
            float want = q < 3 ? sp[sc * (1 + i) + q] : 1.0f, got = dp[dc * (2 + j) + q];
            if (want != got) vf_violation("c10-rgb_float", "%s: pixel %d component %d expected %.9g got %.9g (colour copied, absent alpha reads 1)", what, j, q, (double)want, (double)got);
        }
    }
    size_t lo = GUARD + (size_t)d.stride + (size_t)2 * dc * 4, hi = lo + (size_t)N * dc * 4;
    for (size_t i = 0; i < d.size && !vf_failed(); i++)
        if ((i < lo || i >= hi) && d.alloc[i] != before[i]) vf_violation("c10-clobber-float", "%s: destination byte %zu outside the run changed", what, i);
    vf_count_eval(N); vf_count_nontrivial(N); vf_outcome(vf_hash64(dp, (size_t)d.stride, 41));
    free(before); ti_free(&s); ti_free(&d);
}

/* ---------------------------------------------------------------- main */
static int add_variants(variant_t *v, int routes_mask, int modes_mask, int acc_mask)
{
    int n = 0;
    for (int r = 0; r < NROUTES; r++) if (routes_mask & (1 << r))
        for (int m = 0; m < NMODES; m++) if (modes_mask & (1 << m))
            for (int a = 0; a < 4; a++) if (acc_mask & (1 << (a ? 1 : 0))) { if (a == 3 && r == R_SELF) continue; v[n].route = r; v[n].mode = m; v[n].acc = a; n++; }   /* a = 2: accessors installed after a first plain use; a = 3: one callback only */
    return n;
}

static void run_layout_space(const char *label, int cfg, int bpp_sel, int kind_sel, int vm, int fullbits, int routes, int modes, int accs)
{
    lay_ctx c; memset(&c, 0, sizeof c);
    c.cfg = cfg; c.vm = vm; c.fullbits = fullbits;
    for (int i = 0; i < C10_NLAYOUT; i++) {
        c10_layout_t L; c10_layout_of(c10_formats[i].code, &L);
        if (L.bpp == bpp_sel && (kind_sel < 0 || c10_formats[i].kind == kind_sel)) c.f[c.nf++] = i;
    }
    c.nxo = 32 / bpp_sel + 2; if (bpp_sel == 24) c.nxo = 5;
    if (vm == VM_FULL) c.nxo = bpp_sel == 32 ? 1 : 2;
    c.nblocks = n_blocks(vm, bpp_sel, fullbits);
    c.nvar = add_variants(c.var, routes, modes, accs);
    char nm[64]; snprintf(nm, sizeof nm, "%s-%s", label, c10_cfg_names[cfg]);
    vf_space_run(nm, (uint64_t)c.nblocks * (uint64_t)c.nxo * (uint64_t)c.nvar * (uint64_t)c.nf, lay_case, &c);
}


/* ---- YUV chroma addressing: every scanline start x and width, on an image whose chroma differs per pair / per row pair ----
 * (the value sweep below uses constant chroma and always starts at x = 0, so it cannot see a chroma sample taken from the
 * wrong pair; this space can) */
static void yuvpos_case(uint64_t idx, void *vctx)
{
    int dims[5] = { 2, 2, 8, 9, 4 }, dg[5]; vf_decode(idx, dims, 5, dg);
    int isyv12 = dg[0], acc = dg[1], sx = dg[2], w = dg[3] + 1, sy = dg[4];
    int W = 16, H = 4;
    if (sx + w > W) return;
    const char *fname = isyv12 ? "yv12" : "yuy2";
    int stride = isyv12 ? W : W * 2;
    size_t size = isyv12 ? (size_t)stride * H + 2 * ((size_t)(stride / 2) * (H / 2)) : (size_t)stride * H;
    uint8_t *bits = malloc(size + 64);
    int Yv[4][16], Uv[4][16], Vv[4][16];
    for (int y = 0; y < H; y++) for (int x = 0; x < W; x++) {
        Yv[y][x] = 40 + 9 * x + 3 * y;
        int cy = isyv12 ? y / 2 : y;
        Uv[y][x] = (60 + 37 * (x / 2) + 71 * cy) & 255; Vv[y][x] = (200 - 29 * (x / 2) - 53 * cy) & 255;
    }
    if (!isyv12) {
        for (int y = 0; y < H; y++) for (int x = 0; x < W; x++) { bits[y * stride + 2 * x] = (uint8_t)Yv[y][x]; bits[y * stride + ((2 * x) & ~3) + 1] = (uint8_t)Uv[y][x]; bits[y * stride + ((2 * x) & ~3) + 3] = (uint8_t)Vv[y][x]; }
    } else {
        uint8_t *vplane = bits + (size_t)stride * H, *uplane = vplane + (size_t)(stride / 2) * (H / 2);
        for (int y = 0; y < H; y++) for (int x = 0; x < W; x++) { bits[y * stride + x] = (uint8_t)Yv[y][x]; vplane[(y / 2) * (stride / 2) + x / 2] = (uint8_t)Vv[y][x]; uplane[(y / 2) * (stride / 2) + x / 2] = (uint8_t)Uv[y][x]; }
    }
    if (acc) for (size_t i = 0; i < size; i++) bits[i] ^= SCR;
    pixman_image_t *src = pixman_image_create_bits(isyv12 ? PIXMAN_yv12 : PIXMAN_yuy2, W, H, (uint32_t *)bits, stride);
    if (acc) pixman_image_set_accessors(src, acc_read, acc_write);
    uint32_t scan[16], pix[16]; memset(scan, 0, sizeof scan); memset(pix, 0, sizeof pix);
    pixman_image_t *d = pixman_image_create_bits(PIXMAN_a8r8g8b8, w, 1, scan, 64);
    pixman_image_composite32(PIXMAN_OP_SRC, src, NULL, d, sx, sy, 0, 0, 0, 0, w, 1);                 /* scanline reader */
    pixman_image_unref(d);
    pixman_transform_t tr; pixman_transform_init_translate(&tr, pixman_int_to_fixed(sx), pixman_int_to_fixed(sy)); pixman_image_set_transform(src, &tr);
    d = pixman_image_create_bits(PIXMAN_a8r8g8b8, w, 1, pix, 64);
    pixman_image_composite32(PIXMAN_OP_SRC, src, NULL, d, 0, 0, 0, 0, 0, 0, w, 1);                   /* per-pixel reader */
    pixman_image_unref(d); pixman_image_unref(src);
    vf_count_libcalls(2);
    for (int i = 0; i < w && !vf_failed(); i++) {
        int x = sx + i; double want[3]; bt601(Yv[sy][x], Uv[sy][x], Vv[sy][x], want);
        char key[64];
        for (int m = 0; m < 2; m++) {
            uint32_t p = m ? pix[i] : scan[i]; int got[3] = { (p >> 16) & 255, (p >> 8) & 255, p & 255 };
            if ((p >> 24) != 0xff || fabs(got[0] - want[0]) > 1.0 || fabs(got[1] - want[1]) > 1.0 || fabs(got[2] - want[2]) > 1.0) {
                snprintf(key, sizeof key, "c10-yuv-chroma-position-%s", fname);
                vf_violation(key, "%s 16x4 accessors=%d, %s reader, read starting at (%d,%d) width %d: pixel x=%d (Y=%d U=%d V=%d) reads %#010x, BT.601 gives r=%.1f g=%.1f b=%.1f (tolerance 1) — chroma taken from the wrong sample?",
                             fname, acc, m ? "per-pixel" : "scanline", sx, sy, w, x, Yv[sy][x], Uv[sy][x], Vv[sy][x], p, want[0], want[1], want[2]);
                break;
            }
        }
        if (!vf_failed() && scan[i] != pix[i]) {
            snprintf(key, sizeof key, "c10-yuv-readers-disagree-%s", fname);
            vf_violation(key, "%s 16x4 accessors=%d read starting at (%d,%d) width %d: pixel x=%d scanline reader %#010x, per-pixel reader %#010x", fname, acc, sx, sy, w, x, scan[i], pix[i]);
        }
    }
    acc_flush();
    free(bits);
    if (!vf_in_confirm) { vf_count_eval((uint64_t)w); vf_count_nontrivial((uint64_t)w); vf_outcome(vf_hash64(scan, sizeof scan, (uint64_t)idx)); }
}

int main(int argc, char **argv)
{
    vf_init(argc, argv, "C10", "exploration");
    st = mmap(NULL, sizeof *st, PROT_READ | PROT_WRITE, MAP_SHARED | MAP_ANONYMOUS, -1, 0);
    memset(st, 0, sizeof *st);
    int th = vf_is_thorough();
    c10_tune_malloc();
    vf_rule = "E1: every case is one run of pixel values of one format pushed through one route (F->a8r8g8b8, a8r8g8b8->F, F->F, F->rgba_float, rgba_float->F) by a "
              "PIXMAN_OP_SRC composite, with one access mode (scanline / integer-translation transform / x-reflection transform = per-pixel readers), direct or "
              "scrambled-accessor storage, one x offset, one implementation chain; every destination and source buffer is compared in full against the reference codec "
              "(defined bits of the addressed pixels; all bits elsewhere). evaluations = pixel conversions compared; non-trivial = conversions whose source pixel is "
              "neither all-zero nor all-one on its defined bits; outcomes = distinct destination rows.";
    vf_bounds = th ? "all 2^bpp pixel values for bpp<=16 at every x offset 0..32/bpp+1; all 2^24 values of the 24-bpp formats (F<->a8r8g8b8, F->F; scanline and per-pixel; direct and accessors); per-channel exhaustive sweeps (others 0/1s/0xaa/0x55, x bits swept) "
                     "of all 32-bpp and 10-bit formats on all routes/access modes/accessors plus ALL 2^32 pixel values of every 32-bpp packed and 10-bit format for F->a8r8g8b8 and "
                     "all 2^32 a8r8g8b8 values for a8r8g8b8->F into every 32-bpp packed format (general chain, scanline, direct); sRGB per channel; indexed c8/g8/c4/g4/g1 with two bijective palettes; YUV all 2^24 (Y,U,V); "
                     "chains default and general-only"
                   : "all 2^bpp pixel values for bpp<=16 at every x offset 0..32/bpp+1; per-channel exhaustive sweeps (others 0/1s/0xaa/0x55, x bits swept) for 24/32-bpp and 10-bit "
                     "formats; sRGB per channel; indexed c8/g8/c4/g4/g1 with two bijective palettes; YUV all Y x 12x12 boundary (U,V); chains default and general-only";
    vf_assume("reference codec c10_codec.h (derived from the format code bit fields) is the specification of widening/narrowing/layout");
    vf_assume("little-endian host; library built from the /repo working tree with gcc -O2");
    vf_assume("pixels are observed only through PIXMAN_OP_SRC composites (the property's observation point); accessor tables that no composite can reach are not exercised");
    vf_assume("float comparisons: 0 and max exact, interior values within 1.2e-7 of k/(2^n-1); YUV within 1 of real-valued BT.601");
    vf_assume("x4c4/x4g4 have the same format codes as c8/g8 and are covered by them; rgba_float/rgb_float are not accepted by pixman_format_supported_source and refuse accessors, so they only serve as canonical endpoints");

    const int ALLR = (1 << NROUTES) - 1, ALLM = (1 << NMODES) - 1, ALLA = 3;
    static const int cfgs[2] = { 0, 4 };
    for (int ci = 0; ci < 2; ci++) {
        int cfg = cfgs[ci];
        c10_set_cfg(cfg);
        run_layout_space("bpp1", cfg, 1, -1, VM_SUB1, 0, ALLR, ALLM, ALLA);
        run_layout_space("bpp4", cfg, 4, -1, VM_SUB4, 0, ALLR, ALLM, ALLA);
        run_layout_space("bpp8", cfg, 8, -1, VM_SEQ, 0, ALLR, ALLM, ALLA);
        run_layout_space("bpp16", cfg, 16, -1, VM_SEQ, 0, ALLR, ALLM, ALLA);
        run_layout_space("bpp24-chan", cfg, 24, -1, VM_CHAN, 0, ALLR, ALLM, ALLA);
        run_layout_space("bpp32-chan", cfg, 32, CK_PACKED, VM_CHAN, 0, ALLR, ALLM, ALLA);
        run_layout_space("bpp32-10bit-chan", cfg, 32, CK_WIDE10, VM_CHAN, 0, ALLR, ALLM, ALLA);
        { mono_ctx m = { cfg }; char nm[64]; snprintf(nm, sizeof nm, "float-monotone-%s", c10_cfg_names[cfg]); vf_space_run(nm, 4 * NMODES * C10_NLAYOUT, mono_case, &m); }
        { srgb_ctx s = { cfg }; char nm[64]; snprintf(nm, sizeof nm, "srgb-%s", c10_cfg_names[cfg]); vf_space_run(nm, 16 * NMODES * 2, srgb_case, &s); }
        {
            static idx_ctx ic; ic.cfg = cfg; ic.nxo = 10;
            for (int f = 0; f < 5; f++) for (int v = 0; v < 2; v++) c10_make_palette(&ic.pal[f][v], c10_formats[idx_fmts[f]].code, v);
            char nm[64]; snprintf(nm, sizeof nm, "indexed-%s", c10_cfg_names[cfg]);
            vf_space_run(nm, (uint64_t)ic.nxo * 2 * NROUTES * NMODES * 2 * 5, idx_case, &ic);
        }
        { yuv_ctx y = { cfg, th }; char nm[64]; snprintf(nm, sizeof nm, "yuv-%s", c10_cfg_names[cfg]); uint64_t nu = th ? 256 : 12; vf_space_run(nm, nu * nu * 2 * 2, yuv_case, &y); }
        { char nm[64]; snprintf(nm, sizeof nm, "yuv-chroma-position-%s", c10_cfg_names[cfg]); vf_space_run(nm, 2 * 2 * 8 * 9 * 4, yuvpos_case, NULL); }
        if (cfg == 0 || cfg == 4) { char nm[64]; snprintf(nm, sizeof nm, "dithered-same-format-copy-%s", c10_cfg_names[cfg]); vf_space_run(nm, 10 * 5 * 7 * 3 * 2, dither_case, NULL); }
        { rgbf_ctx r = { cfg }; char nm[64]; snprintf(nm, sizeof nm, "rgb_float-%s", c10_cfg_names[cfg]); vf_space_run(nm, NMODES * 2, rgbf_case, &r); }
        if (th) {
            run_layout_space("bpp24-full", cfg, 24, -1, VM_FULL, 12, 1 << R_FETCH8 | 1 << R_STORE8 | 1 << R_SELF, 1 << M_SCAN | 1 << M_TRANS, ALLA);
        }
    }
    if (th) {
        /* composites wider than 32767 pixels are refused by the library (16-bit extents), hence blocks of 2^14 values */
        c10_set_cfg(4);
        run_layout_space("bpp32-full-fetch", 4, 32, CK_PACKED, VM_FULL, 14, 1 << R_FETCH8, 1 << M_SCAN, 1);
        run_layout_space("bpp32-full-store", 4, 32, CK_PACKED, VM_FULL, 14, 1 << R_STORE8, 1 << M_SCAN, 1);
        run_layout_space("bpp32-10bit-full-fetch", 4, 32, CK_WIDE10, VM_FULL, 14, 1 << R_FETCH8, 1 << M_SCAN, 1);
    }
    snprintf(vf->extra_json, sizeof vf->extra_json,
             "\"conversions_by_route\": {\"fetch8\": %llu, \"store8\": %llu, \"self\": %llu, \"fetchf\": %llu, \"storef\": %llu}, "
             "\"conversions_by_access\": {\"scan\": %llu, \"trans\": %llu, \"refl\": %llu}, \"conversions_by_storage\": {\"direct\": %llu, \"accessors\": %llu}, "
             "\"conversions_by_chain\": {\"default\": %llu, \"general\": %llu}, \"accessor_reads\": %llu, \"accessor_writes\": %llu, "
             "\"srgb_conversions\": %llu, \"indexed_conversions\": %llu, \"yuv_pixels\": %llu",
             (unsigned long long)st->conv[0], (unsigned long long)st->conv[1], (unsigned long long)st->conv[2], (unsigned long long)st->conv[3], (unsigned long long)st->conv[4],
             (unsigned long long)st->by_mode[0], (unsigned long long)st->by_mode[1], (unsigned long long)st->by_mode[2], (unsigned long long)st->by_acc[0], (unsigned long long)st->by_acc[1],
             (unsigned long long)st->by_cfg[0], (unsigned long long)st->by_cfg[4], (unsigned long long)st->acc_reads, (unsigned long long)st->acc_writes,
             (unsigned long long)st->srgb, (unsigned long long)st->indexed, (unsigned long long)st->yuv);
    return vf_finish();
}
