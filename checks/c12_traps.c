/* C12 — trapezoid coverage is an exact sample count; abutting shapes tile seamlessly.
 *
 * Engine E1: bounded-exhaustive enumeration of trapezoids / triangles / composite requests against
 *   (i)  c12_ref.h, the ideal geometric sample-counting rule (exact rational edge positions, no stepping), and
 *   (ii) metamorphic equalities that need no reference (horizontal split, shared-edge split, offsets in the
 *        geometry vs. x_off/y_off, accessor path, add_traps/add_trapezoids, triangle vertex order,
 *        composite_trapezoids/triangles vs. rasterise-to-mask + composite32).
 *
 * Classification of a difference to the ideal rule (DESIGN C12):
 *   got outside [lo,hi] (counts reachable by moving each edge <= 1 ulp per sample row)  -> c12-wrong-count   (VIOLATION)
 *   got inside [lo,hi] but != ideal                                                     -> c12-edge-one-ulp  (known finding)
 */
#include "vf.h"
#include <pixman.h>
#include "c12_ref.h"

#define MAXPIX C12_MAXPIX
#define GUARD_ROWS 2
#define FARX (1000 * 65536)

/* ------------------------------------------------------------------------------------------------ images */

typedef struct {
    pixman_format_code_t fmt; int bpp, W, H, stride; size_t total;
    uint8_t *base, *bits; pixman_image_t *pi;
} timg;

static void timg_init(timg *m, pixman_format_code_t fmt, int W, int H)
{
    m->fmt = fmt; m->bpp = PIXMAN_FORMAT_BPP(fmt); m->W = W; m->H = H;
    m->stride = ((W * m->bpp + 31) / 32) * 4;
    m->total = (size_t)m->stride * (H + 2 * GUARD_ROWS);
    m->base = malloc(m->total);
    memset(m->base, 0xA5, m->total);
    m->bits = m->base + (size_t)m->stride * GUARD_ROWS;
    memset(m->bits, 0, (size_t)m->stride * H);
    m->pi = pixman_image_create_bits(fmt, W, H, (uint32_t *)m->bits, m->stride);
    if (!m->pi) { fprintf(stderr, "image creation failed\n"); abort(); }
}
static void timg_fini(timg *m) { pixman_image_unref(m->pi); free(m->base); }

/* Per-process scratch images, re-created only when format/size change (a worker process runs one space, so this saves an
 * image allocation per case).  Every user resets the image before drawing, so no state is carried between cases. */
static timg *timg_cached(int slot, pixman_format_code_t fmt, int W, int H)
{
    static timg cache[4]; static int have[4];
    timg *m = &cache[slot];
    if (have[slot] && m->fmt == fmt && m->W == W && m->H == H) return m;
    if (have[slot]) timg_fini(m);
    timg_init(m, fmt, W, H); have[slot] = 1;
    return m;
}

static inline int timg_get(const timg *m, int x, int y)
{
    const uint8_t *row = m->bits + (size_t)y * m->stride;
    switch (m->bpp) {
    case 8: return row[x];
    case 4: return (row[x >> 1] >> ((x & 1) * 4)) & 15;
    case 1: return (((const uint32_t *)row)[x >> 5] >> (x & 31)) & 1;
    case 32: return (int)((const uint32_t *)row)[x];
    }
    return -1;
}
static inline void timg_put(timg *m, int x, int y, int v)
{
    uint8_t *row = m->bits + (size_t)y * m->stride;
    switch (m->bpp) {
    case 8: row[x] = (uint8_t)v; break;
    case 4: row[x >> 1] = (uint8_t)((row[x >> 1] & ~(15 << ((x & 1) * 4))) | ((v & 15) << ((x & 1) * 4))); break;
    case 1: { uint32_t *w = &((uint32_t *)row)[x >> 5]; *w = (*w & ~(1u << (x & 31))) | ((uint32_t)(v & 1) << (x & 31)); break; }
    case 32: ((uint32_t *)row)[x] = (uint32_t)v; break;
    }
}
/* reset to background bg[] (NULL = zeros) */
static void timg_reset(timg *m, const int *bg)
{
    memset(m->base, 0xA5, m->total);
    memset(m->bits, 0, (size_t)m->stride * m->H);
    if (bg) for (int y = 0; y < m->H; y++) for (int x = 0; x < m->W; x++) timg_put(m, x, y, bg[y * m->W + x]);
}
/* guard rows untouched and row padding still zero (pixel values are judged separately) */
static int timg_frame_ok(const timg *m)
{
    for (size_t i = 0; i < (size_t)m->stride * GUARD_ROWS; i++)
        if (m->base[i] != 0xA5 || m->bits[(size_t)m->stride * m->H + i] != 0xA5) return 0;
    int usedbits = m->W * m->bpp;
    for (int y = 0; y < m->H; y++) {
        const uint8_t *row = m->bits + (size_t)y * m->stride;
        for (int b = usedbits; b < m->stride * 8; b++) if ((row[b >> 3] >> (b & 7)) & 1) return 0;
    }
    return 1;
}
static int timg_same(const timg *a, const timg *b) { return a->total == b->total && !memcmp(a->base, b->base, a->total); }

static const char *timg_str(const timg *m, char *buf, size_t cap)
{
    size_t l = 0; buf[0] = 0;
    for (int y = 0; y < m->H && l + 8 < cap; y++) {
        for (int x = 0; x < m->W && l + 12 < cap; x++)
            l += snprintf(buf + l, cap - l, m->bpp == 32 ? "%08x " : m->bpp == 8 ? "%02x " : "%x", timg_get(m, x, y));
        l += snprintf(buf + l, cap - l, "/");
    }
    return buf;
}
static const char *arr_str(const int *a, int W, int H, int bpp, char *buf, size_t cap)
{
    size_t l = 0; buf[0] = 0;
    for (int y = 0; y < H && l + 8 < cap; y++) {
        for (int x = 0; x < W && l + 8 < cap; x++) l += snprintf(buf + l, cap - l, bpp == 8 ? "%02x " : "%x", a[y * W + x]);
        l += snprintf(buf + l, cap - l, "/");
    }
    return buf;
}

static inline int sat_expect(const c12_grid *g, int bgv, int cnt)
{
    if (g->bpp == 1) return bgv | (cnt > 0);
    int v = bgv + cnt; return v > g->maxv ? g->maxv : v;
}

static const char *trap_str(const pixman_trapezoid_t *t, char *buf, size_t cap)
{
    snprintf(buf, cap, "trap{top=%d bottom=%d left=(%d,%d)-(%d,%d) right=(%d,%d)-(%d,%d)}", t->top, t->bottom,
             t->left.p1.x, t->left.p1.y, t->left.p2.x, t->left.p2.y, t->right.p1.x, t->right.p1.y, t->right.p2.x, t->right.p2.y);
    return buf;
}

/* The textual description of the running case is only needed for failures, samples and replays: built on demand. */
static struct {
    int kind;                 /* 0 raster, 1 offsets, 2 shared edge, 3 triangle */
    int bpp, W, H, bg, ox, oy, strict;
    pixman_trapezoid_t T; pixman_line_fixed_t M; pixman_triangle_t tri;
} G;
static char g_desc[900]; static int g_desc_ok;
static const char *cur_desc(void)
{
    if (g_desc_ok) return g_desc;
    char ts[300]; const char *fn = G.bpp == 8 ? "a8" : G.bpp == 4 ? "a4" : "a1";
    switch (G.kind) {
    case 0: snprintf(g_desc, sizeof g_desc, "%s %dx%d bg%d %s", fn, G.W, G.H, G.bg, trap_str(&G.T, ts, sizeof ts)); break;
    case 1: snprintf(g_desc, sizeof g_desc, "%s %dx%d x_off=%d y_off=%d %s", fn, G.W, G.H, G.ox, G.oy, trap_str(&G.T, ts, sizeof ts)); break;
    case 2: snprintf(g_desc, sizeof g_desc, "%s %dx%d %s middle line (%d,%d)-(%d,%d)%s", fn, G.W, G.H, trap_str(&G.T, ts, sizeof ts), G.M.p1.x, G.M.p1.y, G.M.p2.x, G.M.p2.y,
                     G.strict ? " [lines >= 2 ulp apart or identical: strict]" : ""); break;
    default: snprintf(g_desc, sizeof g_desc, "%s %dx%d x_off=%d y_off=%d tri{(%d,%d) (%d,%d) (%d,%d)}", fn, G.W, G.H, G.ox, G.oy, G.tri.p1.x, G.tri.p1.y, G.tri.p2.x, G.tri.p2.y,
                      G.tri.p3.x, G.tri.p3.y); break;
    }
    g_desc_ok = 1;
    return g_desc;
}

/* ------------------------------------------------------------------------------------------------ judging */

/* "soft" = difference explained by the recorded edge-position findings; raised at the end of the case unless a hard violation
 * was found.  level 1: inside the one-ulp window (c12-edge-one-ulp); level 2: 1-bit only, inside the two-ulp window
 * (c12-a1-edge-two-ulp).  The higher level wins. */
static int soft_set; static char soft_text[1500];
static void soft(int level, const char *fmt, ...) __attribute__((format(printf, 2, 3)));
static void soft(int level, const char *fmt, ...)
{
    if (soft_set >= level) return;
    soft_set = level;
    va_list ap; va_start(ap, fmt); vsnprintf(soft_text, sizeof soft_text, fmt, ap); va_end(ap);
}
static void soft_flush(void)
{
    if (soft_set && !vf_failed()) vf_violation(soft_set == 2 ? "c12-a1-edge-two-ulp" : "c12-edge-one-ulp", "%s", soft_text);
    soft_set = 0;
}

/* 0 = equals the ideal rule, 1 = differs but every pixel inside the one-ulp window [lo,hi], 2 = (1-bit only) inside the
 * two-ulp window, 3 = some pixel outside; (*px,*py) = first pixel of the worst class */
static int judge(const c12_grid *g, const timg *m, const int *bg, const c12_counts *rc, int *px, int *py)
{
    int res = 0;
    for (int y = 0; y < m->H; y++) for (int x = 0; x < m->W; x++) {
        int i = y * m->W + x, b = bg ? bg[i] : 0, got = timg_get(m, x, y), cls;
        if (got == sat_expect(g, b, rc->ideal[i])) continue;
        if (got >= sat_expect(g, b, rc->lo[i]) && got <= sat_expect(g, b, rc->hi[i])) cls = 1;
        else if (g->bpp == 1 && got >= sat_expect(g, b, rc->lo2[i]) && got <= sat_expect(g, b, rc->hi2[i])) cls = 2;
        else cls = 3;
        if (cls > res) { res = cls; *px = x; *py = y; }
    }
    return res;
}

/* compare an image with the reference; raises the hard violation or records the soft one */
static void check_vs_ref(const c12_grid *g, const timg *m, const int *bg, const c12_counts *rc, const char *what, const char *desc)
{
    if (vf_failed()) return;
    if (!timg_frame_ok(m)) { vf_violation("c12-write-outside-image", "%s: guard rows or row padding modified; %s", what, desc ? desc : cur_desc()); return; }
    int px = 0, py = 0, r = judge(g, m, bg, rc, &px, &py);
    if (!r) return;
    if (!desc) desc = cur_desc();
    char a[700], b[500], c[500], d[500];
    int i = py * m->W + px;
    if (r == 3)
        vf_violation("c12-wrong-count", "%s: pixel (%d,%d) got %d, ideal %d, one-ulp window [%d,%d] (before saturation, background %d); %s; got %s ideal %s",
                     what, px, py, timg_get(m, px, py), rc->ideal[i], rc->lo[i], rc->hi[i], bg ? bg[i] : 0, desc, timg_str(m, a, sizeof a),
                     arr_str(rc->ideal, m->W, m->H, m->bpp, b, sizeof b));
    else {
        /* inside the window: attributed to the recorded finding only if it is exactly what that finding produces (c12_rep_trap) */
        if (rc->have_rep) {
            for (int y = 0; y < m->H; y++) for (int x = 0; x < m->W; x++) {
                int k = y * m->W + x, bb = bg ? bg[k] : 0;
                if (timg_get(m, x, y) != sat_expect(g, bb, rc->rep[k])) {
                    vf_violation("c12-edge-position-unexplained", "%s: pixel (%d,%d) got %d, ideal %d, and the recorded edge-position finding (error term of a carry-less first jump not stored) gives %d: "
                                 "inside the one-ulp window but a different departure (background %d); %s; got %s ideal %s", what, x, y, timg_get(m, x, y), rc->ideal[k], rc->rep[k], bb, desc,
                                 timg_str(m, a, sizeof a), arr_str(rc->ideal, m->W, m->H, m->bpp, b, sizeof b));
                    return;
                }
            }
        }
        soft(r, "%s: pixel (%d,%d) got %d, ideal %d, one-ulp window [%d,%d]%s (background %d); %s; got %s ideal %s lo %s hi %s", what, px, py,
             timg_get(m, px, py), rc->ideal[i], rc->lo[i], rc->hi[i], r == 2 ? " - outside it, inside the two-ulp window" : "", bg ? bg[i] : 0, desc,
             timg_str(m, a, sizeof a), arr_str(rc->ideal, m->W, m->H, m->bpp, b, sizeof b),
             arr_str(rc->lo, m->W, m->H, m->bpp, c, sizeof c), arr_str(rc->hi, m->W, m->H, m->bpp, d, sizeof d));
    }
}

/* metamorphic equality a == b.  strict: any difference is a violation under `key`.  Otherwise a difference is the edge-position
 * finding iff both images lie inside the window of the reference for the shape, else a violation under `key`. */
static void check_same(const c12_grid *g, const timg *a, const timg *b, int strict, const int *bg, const c12_counts *rc,
                       const char *key, const char *what, const char *desc)
{
    if (vf_failed()) return;
    if (timg_same(a, b)) return;
    if (!desc) desc = cur_desc();
    char s1[700], s2[700];
    if (!strict && timg_frame_ok(a) && timg_frame_ok(b)) {
        int px, py;
        int ra = judge(g, a, bg, rc, &px, &py), rb = judge(g, b, bg, rc, &px, &py);
        if (ra < 3 && rb < 3) {
            int r = ra > rb ? ra : rb; if (r < 1) r = 1;
            soft(r, "%s: the two results differ only inside the %s-ulp window; %s; A %s B %s", what, r == 2 ? "two" : "one", desc, timg_str(a, s1, sizeof s1), timg_str(b, s2, sizeof s2));
            return;
        }
    }
    vf_violation(key, "%s: results differ; %s; A %s B %s", what, desc, timg_str(a, s1, sizeof s1), timg_str(b, s2, sizeof s2));
}

/* accessors */
static uint32_t acc_read(const void *src, int size)
{
    switch (size) { case 1: return *(const uint8_t *)src; case 2: return *(const uint16_t *)src; default: return *(const uint32_t *)src; }
}
static void acc_write(void *dst, uint32_t v, int size)
{
    switch (size) { case 1: *(uint8_t *)dst = (uint8_t)v; break; case 2: *(uint16_t *)dst = (uint16_t)v; break; default: *(uint32_t *)dst = v; }
}

/* ------------------------------------------------------------------------------------------------ alphabets */

typedef struct {
    pixman_format_code_t fmt; int bpp, W, H; c12_grid g;
    int nY; int32_t Y[48]; int npairs; uint8_t pt[1200], pb[1200];
    int nX; int32_t X[24];
    int nvar; int vars[4];    /* edge end-point variants per edge (see make_line) */
    int nbg;
    int level;                /* 0 quick, 1 thorough */
    int dims[12], nd;
    int do_split, do_acc;
} tctx;

static int cmp_i32(const void *a, const void *b) { int32_t x = *(const int32_t *)a, y = *(const int32_t *)b; return x < y ? -1 : x > y; }
static int uniq_sort(int32_t *v, int n)
{
    qsort(v, n, sizeof v[0], cmp_i32);
    int k = 0; for (int i = 0; i < n; i++) if (!k || v[k - 1] != v[i]) v[k++] = v[i];
    return k;
}

/* y alphabet: size 0 small (6), 1 medium (11), 2 large (~21) */
static void make_Y(tctx *c, int size)
{
    const c12_grid *g = &c->g; int H = c->H, n = 0; int32_t *Y = c->Y;
    int32_t r0 = g->y0, rl = g->y0 + (g->ny - 1) * g->ystep, rm = (H - 1) * 65536 + g->y0 + (g->ny / 2) * g->ystep;
    if (size == 0) {
        int32_t v[] = { -32768, r0, 16384 + 1, rl + 1, H * 65536 - 16384, H * 65536 + 32768 };
        for (unsigned i = 0; i < sizeof v / sizeof v[0]; i++) Y[n++] = v[i];
    } else {
        int32_t v[] = { -65536, 0, r0 - 1, r0, r0 + 1, 16384, 32768, rl + 1, H * 65536 - 16384, H * 65536, H * 65536 + 65536 };
        for (unsigned i = 0; i < sizeof v / sizeof v[0]; i++) Y[n++] = v[i];
        if (size >= 2) {
            int32_t w[] = { -1, 32767, 32769, 49152, rl, 65536, rm - 1, rm, rm + 1, H * 65536 + 1 };
            for (unsigned i = 0; i < sizeof w / sizeof w[0]; i++) Y[n++] = w[i];
        }
    }
    c->nY = uniq_sort(Y, n);
    c->npairs = 0;
    for (int a = 0; a < c->nY; a++) for (int b = a + 1; b < c->nY; b++) { c->pt[c->npairs] = (uint8_t)a; c->pb[c->npairs] = (uint8_t)b; c->npairs++; }
}
/* x alphabet: size 0 (4), 1 (8), 2 (12) */
static void make_X(tctx *c, int size)
{
    int W = c->W, n = 0; int32_t *X = c->X;
    int32_t mid = W * 65536 / 2 + 0x1234;
    if (size == 0) { int32_t v[] = { -FARX, 16384, W * 65536 - 16384 - 1, W * 65536 + 98304 + 5 }; for (int i = 0; i < 4; i++) X[n++] = v[i]; }
    else {
        int32_t v[] = { -FARX, -1, 16384, 32767, mid, W * 65536 - 16384, W * 65536 + 1, FARX };
        for (int i = 0; i < 8; i++) X[n++] = v[i];
        if (size >= 2) { int32_t w[] = { 0, 32768, 32769, W * 65536 }; for (int i = 0; i < 4; i++) X[n++] = w[i]; }
    }
    c->nX = uniq_sort(X, n);
}

#define D1 19661            /* 0.3 pixel */
#define D2 (3 * 65536 + 7)
static pixman_line_fixed_t make_line(int32_t xa, int32_t xb, int32_t top, int32_t bot, int var)
{
    pixman_line_fixed_t l;
    switch (var) {
    default:
    case 0: l.p1.x = xa; l.p1.y = top; l.p2.x = xb; l.p2.y = bot; break;
    case 1: l.p1.x = xb; l.p1.y = bot + D1; l.p2.x = xa; l.p2.y = top - D1; break;      /* longer line, points given bottom-up */
    case 2: l.p1.x = xa; l.p1.y = top - D2; l.p2.x = xb; l.p2.y = bot + 1; break;       /* long lead-in above the top */
    case 3: {                                                                          /* segment strictly inside (top,bottom): the edge is the */
        int32_t h = bot - top, ya = top + h / 3, yb = bot - h / 3;                      /* line extrapolated upwards (negative edge step) and downwards */
        if (ya >= yb) { ya = top; yb = bot; }
        l.p1.x = xa; l.p1.y = ya; l.p2.x = xb; l.p2.y = yb; break; }
    }
    return l;
}

static void make_bg(const c12_grid *g, int W, int H, int kind, int *bg)
{
    for (int y = 0; y < H; y++) for (int x = 0; x < W; x++)
        bg[y * W + x] = kind == 0 ? 0 : g->bpp == 1 ? ((x + y) & 1) : g->bpp == 4 ? ((x * 5 + y * 3 + 1) & 15) : ((x * 67 + y * 29 + 200) & 255);
}

/* the ten evidence samples are spread over the kinds of space (raster, offsets, shared edge, triangles; composite takes the rest) */
static const int sample_quota[4] = { 3, 4, 5, 8 };
static void note_case(const c12_grid *g, const timg *m, const int *ideal, const char *desc)
{
    int W = m->W, H = m->H, any = 0, partial = 0, clear = 0;
    for (int i = 0; i < W * H; i++) { if (ideal[i] > 0) any = 1; if (ideal[i] > 0 && ideal[i] < g->maxv) partial = 1; if (ideal[i] == 0) clear = 1; }
    int nt = g->bpp == 1 ? (any && clear) : partial;
    vf_count_eval(1);
    if (nt) vf_count_nontrivial(1);
    if (!vf_in_confirm) {
        uint64_t h = vf_hash64(m->bits, (size_t)m->stride * H, (uint64_t)m->fmt * 131 + (uint64_t)W * 17 + (uint64_t)H);
        vf_outcome(h);
        /* samples: thinned by the result hash so that they are not ten neighbours of the first space */
        if (nt && (h % 1021) == 3 && vf->nsamples < sample_quota[G.kind] && vf_want_sample()) {
            char a[400]; vf_sample("%s -> %s", desc ? desc : cur_desc(), timg_str(m, a, sizeof a));
        }
    }
}

/* ------------------------------------------------------------------------------------------------ space: raster */
/* dims: pair, xl1, xl2, xr1, xr2, varL, varR, bg */
static void ras_case(uint64_t idx, void *vctx)
{
    const tctx *c = vctx; const c12_grid *g = &c->g;
    int d[12]; vf_decode(idx, c->dims, c->nd, d);
    int W = c->W, H = c->H;
    int32_t top = c->Y[c->pt[d[0]]], bot = c->Y[c->pb[d[0]]];
    pixman_trapezoid_t T; T.top = top; T.bottom = bot;
    int vL = c->vars[d[5]], vR = c->vars[d[6]];
    T.left = make_line(c->X[d[1]], c->X[d[2]], top, bot, vL);
    T.right = make_line(c->X[d[3]], c->X[d[4]], top, bot, vR);
    int bgk = d[7];
    int bg[MAXPIX]; c12_counts rc; memset(&rc, 0, sizeof rc); int *ideal = rc.ideal, *lo = rc.lo, *hi = rc.hi;
    make_bg(g, W, H, bgk, bg);
    const char *desc = NULL;
    G.kind = 0; G.bpp = c->bpp; G.W = W; G.H = H; G.bg = bgk; G.T = T; g_desc_ok = 0;
    if (vf_verbose) printf("  case: %s\n", cur_desc());
    soft_set = 0;

    timg *pA = timg_cached(0, c->fmt, W, H), *pB = timg_cached(1, c->fmt, W, H);
#define A (*pA)
#define B (*pB)
    timg_reset(&A, bg);
    pixman_rasterize_trapezoid(A.pi, &T, 0, 0); vf_count_libcalls(1);
    c12_ref_trap(g, W, H, &T, 0, 0, &rc);
    rc.have_rep = c12_rep_trap(g, W, H, &T, 0, 0, rc.rep);
    if (vf_verbose) { char a[700], b[500], l[500], h[500]; printf("  got   %s\n  ideal %s\n  lo    %s\n  hi    %s\n", timg_str(&A, a, sizeof a), arr_str(ideal, W, H, c->bpp, b, sizeof b), arr_str(lo, W, H, c->bpp, l, sizeof l), arr_str(hi, W, H, c->bpp, h, sizeof h)); }
    check_vs_ref(g, &A, bg, &rc, "rasterize_trapezoid vs ideal sample count", desc);

    /* accessor path must give the same bits */
    if (c->do_acc && !vf_failed()) {
        timg_reset(&B, bg);
        pixman_image_set_accessors(B.pi, acc_read, acc_write);
        pixman_rasterize_trapezoid(B.pi, &T, 0, 0); vf_count_libcalls(1);
        pixman_image_set_accessors(B.pi, NULL, NULL);
        check_same(g, &A, &B, 1, bg, &rc, "c12-accessor-path-differs", "accessor vs direct rasterisation", desc);
    }
    /* the same trapezoid through the public edge functions (sample_ceil_y / sample_floor_y / line_fixed_edge_init / rasterize_edges), as documented for callers
     * that walk edges themselves */
    if (!vf_failed()) {
        timg_reset(&B, bg);
        pixman_fixed_t t = T.top < 0 ? 0 : T.top, b = T.bottom;
        t = pixman_sample_ceil_y(t, c->bpp);
        if (pixman_fixed_to_int(b) >= H) b = pixman_int_to_fixed(H) - 1;
        b = pixman_sample_floor_y(b, c->bpp);
        if (b >= t && c12_trap_valid(&T)) {
            pixman_edge_t l, r;
            pixman_line_fixed_edge_init(&l, c->bpp, t, &T.left, 0, 0);
            pixman_line_fixed_edge_init(&r, c->bpp, t, &T.right, 0, 0);
            pixman_rasterize_edges(B.pi, &l, &r, t, b); vf_count_libcalls(3);
        }
        check_same(g, &A, &B, 1, bg, &rc, "c12-public-edge-route-differs", "sample_ceil_y/floor_y + line_fixed_edge_init + rasterize_edges vs rasterize_trapezoid", desc);
    }
    /* pixman_add_traps with the same edges (only when the lines end exactly on top/bottom) */
    if (vL == 0 && vR == 0 && !vf_failed()) {
        pixman_trap_t tr = { { c->X[d[1]], c->X[d[3]], top }, { c->X[d[2]], c->X[d[4]], bot } };
        timg_reset(&B, bg);
        pixman_add_traps(B.pi, 0, 0, 1, &tr); vf_count_libcalls(1);
        check_same(g, &A, &B, 1, bg, &rc, "c12-add-traps-differs", "add_traps vs rasterize_trapezoid", desc);
    }
    /* horizontal split at every alphabet value strictly inside */
    if (c->do_split)
        for (int k = c->pt[d[0]] + 1; k < c->pb[d[0]] && !vf_failed(); k++) {
            pixman_trapezoid_t T1 = T, T2 = T; T1.bottom = c->Y[k]; T2.top = c->Y[k];
            timg_reset(&B, bg);
            pixman_rasterize_trapezoid(B.pi, &T1, 0, 0); pixman_rasterize_trapezoid(B.pi, &T2, 0, 0); vf_count_libcalls(2);
            char w[80]; snprintf(w, sizeof w, "split at y=%d: whole (A) vs two halves (B)", c->Y[k]);
            check_same(g, &A, &B, 0, bg, &rc, "c12-hsplit-not-additive", w, desc);
        }
    note_case(g, &A, ideal, desc);
    soft_flush();
#undef A
#undef B
}

/* nvar > 0: variants 0..nvar-1; nvar == -3: only the extrapolating variant 3 */
static void set_vars(tctx *c, int nvar)
{
    if (nvar < 0) { c->nvar = 1; c->vars[0] = -nvar; return; }
    c->nvar = nvar; for (int i = 0; i < nvar; i++) c->vars[i] = i;
}

static void ras_setup(tctx *c, pixman_format_code_t fmt, int W, int H, int ysz, int xsz, int nvar, int nbg, int split, int acc)
{
    memset(c, 0, sizeof *c);
    c->fmt = fmt; c->bpp = PIXMAN_FORMAT_BPP(fmt); c->W = W; c->H = H; c->g = c12_mkgrid(c->bpp);
    make_Y(c, ysz); make_X(c, xsz);
    set_vars(c, nvar); c->nbg = nbg; c->do_split = split; c->do_acc = acc;
    int dims[] = { c->npairs, c->nX, c->nX, c->nX, c->nX, c->nvar, c->nvar, nbg };
    c->nd = 8; memcpy(c->dims, dims, sizeof dims);
}

/* ------------------------------------------------------------------------------------------------ space: offsets */
/* dims: pair, xl1, xl2, xr1, xr2, var (both edges), ox, oy */
static void off_case(uint64_t idx, void *vctx)
{
    const tctx *c = vctx; const c12_grid *g = &c->g;
    int d[12]; vf_decode(idx, c->dims, c->nd, d);
    int W = c->W, H = c->H, ox = d[6] - 1, oy = d[7] - 1;
    int32_t top = c->Y[c->pt[d[0]]], bot = c->Y[c->pb[d[0]]];
    pixman_trapezoid_t T; T.top = top; T.bottom = bot;
    int vE = c->vars[d[5]];
    T.left = make_line(c->X[d[1]], c->X[d[2]], top, bot, vE);
    T.right = make_line(c->X[d[3]], c->X[d[4]], top, bot, vE);
    c12_counts rc; memset(&rc, 0, sizeof rc); int *ideal = rc.ideal, *lo = rc.lo, *hi = rc.hi;
    const char *desc = NULL;
    G.kind = 1; G.bpp = c->bpp; G.W = W; G.H = H; G.ox = ox; G.oy = oy; G.T = T; g_desc_ok = 0;
    if (vf_verbose) printf("  case: %s\n", cur_desc());
    soft_set = 0;
    timg A, B; timg_init(&A, c->fmt, W, H); timg_init(&B, c->fmt, W, H);
    pixman_rasterize_trapezoid(A.pi, &T, ox, oy); vf_count_libcalls(1);
    c12_ref_trap(g, W, H, &T, ox, oy, &rc);
    rc.have_rep = c12_rep_trap(g, W, H, &T, ox, oy, rc.rep);
    check_vs_ref(g, &A, NULL, &rc, "rasterize_trapezoid with x_off/y_off vs ideal sample count", desc);
    /* offsets applied to the geometry instead */
    {
        pixman_trapezoid_t S = T; int32_t fx = ox * 65536, fy = oy * 65536;
        S.top += fy; S.bottom += fy; S.left.p1.x += fx; S.left.p2.x += fx; S.right.p1.x += fx; S.right.p2.x += fx;
        S.left.p1.y += fy; S.left.p2.y += fy; S.right.p1.y += fy; S.right.p2.y += fy;
        timg_reset(&B, NULL);
        pixman_rasterize_trapezoid(B.pi, &S, 0, 0); vf_count_libcalls(1);
        check_same(g, &A, &B, 1, NULL, &rc, "c12-offset-not-commuting", "x_off/y_off (A) vs offsets added to the coordinates (B)", desc);
    }
    /* pixman_add_trapezoids: [invalid, T] with the same offsets */
    {
        pixman_trapezoid_t two[2]; two[0] = T; two[0].bottom = two[0].top; two[1] = T;
        timg_reset(&B, NULL);
        pixman_add_trapezoids(B.pi, (int16_t)ox, oy, 2, two); vf_count_libcalls(1);
        check_same(g, &A, &B, 1, NULL, &rc, "c12-add-trapezoids-differs", "rasterize_trapezoid (A) vs add_trapezoids of [empty, same] (B)", desc);
    }
    if (vE == 0) {
        pixman_trap_t tr = { { c->X[d[1]], c->X[d[3]], top }, { c->X[d[2]], c->X[d[4]], bot } };
        timg_reset(&B, NULL);
        pixman_add_traps(B.pi, (int16_t)ox, (int16_t)oy, 1, &tr); vf_count_libcalls(1);
        check_same(g, &A, &B, 1, NULL, &rc, "c12-add-traps-differs", "rasterize_trapezoid (A) vs add_traps (B) with offsets", desc);
    }
    /* whole-pixel shift commutes: the same shape drawn without offset into a larger canvas, shifted window compared */
    if (!vf_failed()) {
        timg C; timg_init(&C, c->fmt, W + 2, H + 2);
        pixman_rasterize_trapezoid(C.pi, &T, 1, 1); vf_count_libcalls(1);
        /* pixel (x,y) of A shows scene point (x-ox, y-oy); C shows scene point (x-1,y-1) */
        int bad = 0, inwin = 1, bx = 0, by = 0;
        for (int y = 0; y < H; y++) for (int x = 0; x < W; x++) {
            int cx = x - ox + 1, cy = y - oy + 1;
            if (cx < 0 || cy < 0 || cx >= W + 2 || cy >= H + 2) continue;
            int va = timg_get(&A, x, y), vc = timg_get(&C, cx, cy);
            if (va != vc) {
                int i = y * W + x;
                if (!bad) { bx = x; by = y; }
                bad = 1;
                if (vc < sat_expect(g, 0, lo[i]) || vc > sat_expect(g, 0, hi[i])) {
                    if (g->bpp == 1 && vc >= sat_expect(g, 0, rc.lo2[i]) && vc <= sat_expect(g, 0, rc.hi2[i])) { if (inwin == 1) inwin = 2; }
                    else inwin = 0;
                }
            }
        }
        if (bad) {
            char a[700], b[700];
            if (inwin) soft(inwin, "whole-pixel shift: pixel (%d,%d) differs from the same scene point on a larger canvas, inside the one-ulp window; %s; A %s canvas %s", bx, by, cur_desc(), timg_str(&A, a, sizeof a), timg_str(&C, b, sizeof b));
            else vf_violation("c12-shift-not-commuting", "pixel (%d,%d) differs from the same scene point drawn on a larger canvas with offset (1,1); %s; A %s canvas %s", bx, by, cur_desc(), timg_str(&A, a, sizeof a), timg_str(&C, b, sizeof b));
        }
        timg_fini(&C);
    }
    note_case(g, &A, ideal, desc);
    soft_flush();
    timg_fini(&A); timg_fini(&B);
}

static void off_setup(tctx *c, pixman_format_code_t fmt, int W, int H, int ysz, int xsz, int nvar)
{
    memset(c, 0, sizeof *c);
    c->fmt = fmt; c->bpp = PIXMAN_FORMAT_BPP(fmt); c->W = W; c->H = H; c->g = c12_mkgrid(c->bpp);
    make_Y(c, ysz); make_X(c, xsz); set_vars(c, nvar);
    int dims[] = { c->npairs, c->nX, c->nX, c->nX, c->nX, c->nvar, 3, 3 };
    c->nd = 8; memcpy(c->dims, dims, sizeof dims);
}

/* ------------------------------------------------------------------------------------------------ space: shared edge */
/* dims: pair, xl1, xl2, xr1, xr2, xm1, xm2, varL, varM, varR */
static void edge_case(uint64_t idx, void *vctx)
{
    const tctx *c = vctx; const c12_grid *g = &c->g;
    int d[12]; vf_decode(idx, c->dims, c->nd, d);
    int W = c->W, H = c->H;
    int32_t top = c->Y[c->pt[d[0]]], bot = c->Y[c->pb[d[0]]];
    pixman_trapezoid_t T, T1, T2; T.top = top; T.bottom = bot;
    T.left = make_line(c->X[d[1]], c->X[d[2]], top, bot, c->vars[d[7]]);
    T.right = make_line(c->X[d[3]], c->X[d[4]], top, bot, c->vars[d[9]]);
    pixman_line_fixed_t M = make_line(c->X[d[5]], c->X[d[6]], top, bot, c->vars[d[8]]);
    T1 = T; T1.right = M; T2 = T; T2.left = M;
    /* the identity is claimed only where the middle line lies between the outer ones at every sample row drawn */
    c12_line L = c12_mkline(&T.left, 0, 0), R = c12_mkline(&T.right, 0, 0), Mi = c12_mkline(&M, 0, 0);
    int between = 1, separated = 1, rows = 0;
    for (int py = 0; py < H; py++) for (int k = 0; k < g->ny; k++) {
        int64_t y = (int64_t)py * 65536 + g->y0 + (int64_t)k * g->ystep;
        if (y < top || y >= bot) continue;
        rows++;
        int64_t cl = c12_ceil_x(&L, y), cm = c12_ceil_x(&Mi, y), cr = c12_ceil_x(&R, y);
        if (!(cl <= cm && cm <= cr)) between = 0;
        if (!(cl + 2 <= cm && cm + 2 <= cr)) separated = 0;
    }
    int same_as_L = !memcmp(&M, &T.left, sizeof M), same_as_R = !memcmp(&M, &T.right, sizeof M);
    if (!between || !rows) return;      /* the identity is not claimed for this tuple */
    vf_count_eval(1);
    int strict = separated || same_as_L || same_as_R;
    c12_counts rc; memset(&rc, 0, sizeof rc); int *ideal = rc.ideal, *lo = rc.lo, *hi = rc.hi;
    const char *desc = NULL;
    G.kind = 2; G.bpp = c->bpp; G.W = W; G.H = H; G.T = T; G.M = M; G.strict = strict; g_desc_ok = 0;
    if (vf_verbose) printf("  case: %s\n", cur_desc());
    soft_set = 0;
    timg A, B; timg_init(&A, c->fmt, W, H); timg_init(&B, c->fmt, W, H);
    pixman_rasterize_trapezoid(A.pi, &T, 0, 0);
    pixman_rasterize_trapezoid(B.pi, &T1, 0, 0); pixman_rasterize_trapezoid(B.pi, &T2, 0, 0); vf_count_libcalls(3);
    c12_ref_trap(g, W, H, &T, 0, 0, &rc);
    check_same(g, &A, &B, strict, NULL, &rc, "c12-shared-edge-not-additive", "whole (A) vs the two parts abutting along the middle line (B)", desc);
    /* the two parts drawn in the other order */
    if (!vf_failed()) {
        timg_reset(&A, NULL);
        pixman_rasterize_trapezoid(A.pi, &T2, 0, 0); pixman_rasterize_trapezoid(A.pi, &T1, 0, 0); vf_count_libcalls(2);
        check_same(g, &A, &B, 1, NULL, &rc, "c12-shared-edge-order", "parts drawn right-then-left (A) vs left-then-right (B)", desc);
    }
    {
        int partial = 0; for (int i = 0; i < W * H; i++) if (ideal[i] > 0 && (g->bpp == 1 || ideal[i] < g->maxv)) partial = 1;
        if (partial) vf_count_nontrivial(1);
        if (!vf_in_confirm) {
            uint64_t h = vf_hash64(B.bits, (size_t)B.stride * H, 77 + (uint64_t)c->fmt);
            vf_outcome(h);
            if (partial && (h % 1021) == 3 && vf->nsamples < sample_quota[2] && vf_want_sample()) { char a[400]; vf_sample("shared edge: %s -> %s", cur_desc(), timg_str(&B, a, sizeof a)); }
        }
    }
    soft_flush();
    timg_fini(&A); timg_fini(&B);
}

static void edge_setup(tctx *c, pixman_format_code_t fmt, int W, int H, int ysz, int xsz, int nvar)
{
    memset(c, 0, sizeof *c);
    c->fmt = fmt; c->bpp = PIXMAN_FORMAT_BPP(fmt); c->W = W; c->H = H; c->g = c12_mkgrid(c->bpp);
    make_Y(c, ysz); make_X(c, xsz); set_vars(c, nvar);
    int dims[] = { c->npairs, c->nX, c->nX, c->nX, c->nX, c->nX, c->nX, c->nvar, c->nvar, c->nvar };
    c->nd = 10; memcpy(c->dims, dims, sizeof dims);
}

/* ------------------------------------------------------------------------------------------------ space: triangles */
typedef struct {
    pixman_format_code_t fmt; int bpp, W, H; c12_grid g;
    int np; pixman_point_fixed_t P[64];
    int dims[6], nd;
} trictx;

static const char *tri_str(const pixman_triangle_t *t, char *buf, size_t cap)
{
    snprintf(buf, cap, "tri{(%d,%d) (%d,%d) (%d,%d)}", t->p1.x, t->p1.y, t->p2.x, t->p2.y, t->p3.x, t->p3.y);
    return buf;
}
static int pt_less(const pixman_point_fixed_t *a, const pixman_point_fixed_t *b) { return a->y != b->y ? a->y < b->y : a->x < b->x; }

/* rasterise src IN mask OP dst by hand: mask image of the destination's size, then composite32 */
static void tri_case(uint64_t idx, void *vctx)
{
    const trictx *c = vctx; const c12_grid *g = &c->g;
    int d[6]; vf_decode(idx, c->dims, c->nd, d);
    int W = c->W, H = c->H, ox = d[3] - 1, oy = d[4] - 1;
    pixman_triangle_t tri = { c->P[d[0]], c->P[d[1]], c->P[d[2]] };
    c12_counts rc; memset(&rc, 0, sizeof rc); int *ideal = rc.ideal, *lo = rc.lo, *hi = rc.hi;
    const char *desc = NULL;
    G.kind = 3; G.bpp = c->bpp; G.W = W; G.H = H; G.ox = ox; G.oy = oy; G.tri = tri; g_desc_ok = 0;
    if (vf_verbose) printf("  case: %s\n", cur_desc());
    soft_set = 0;
    timg A, B; timg_init(&A, c->fmt, W, H); timg_init(&B, c->fmt, W, H);
    pixman_add_triangles(A.pi, ox, oy, 1, &tri); vf_count_libcalls(1);
    c12_ref_tri(g, W, H, &tri, ox, oy, &rc);
    if (vf_verbose) { char a[700], b[500]; printf("  got   %s\n  ideal %s\n", timg_str(&A, a, sizeof a), arr_str(ideal, W, H, c->bpp, b, sizeof b)); }
    check_vs_ref(g, &A, NULL, &rc, "add_triangles vs ideal sample count of the triangle", desc);
    /* vertex order must not matter: compare with the sorted order */
    {
        pixman_triangle_t s = tri; pixman_point_fixed_t t;
        if (pt_less(&s.p2, &s.p1)) { t = s.p1; s.p1 = s.p2; s.p2 = t; }
        if (pt_less(&s.p3, &s.p2)) { t = s.p2; s.p2 = s.p3; s.p3 = t; }
        if (pt_less(&s.p2, &s.p1)) { t = s.p1; s.p1 = s.p2; s.p2 = t; }
        timg_reset(&B, NULL);
        pixman_add_triangles(B.pi, ox, oy, 1, &s); vf_count_libcalls(1);
        check_same(g, &A, &B, 1, NULL, &rc, "c12-triangle-vertex-order", "given vertex order (A) vs sorted vertex order (B)", desc);
    }
    /* two-trapezoid decomposition written independently: split at the middle vertex, long side vs the two short sides */
    {
        pixman_point_fixed_t v[3] = { tri.p1, tri.p2, tri.p3 }, t;
        if (v[1].y < v[0].y) { t = v[0]; v[0] = v[1]; v[1] = t; }
        if (v[2].y < v[1].y) { t = v[1]; v[1] = v[2]; v[2] = t; }
        if (v[1].y < v[0].y) { t = v[0]; v[0] = v[1]; v[1] = t; }
        pixman_trapezoid_t tz[4]; int n = 0;
        if (v[0].y != v[2].y) {
            pixman_line_fixed_t lng = { v[0], v[2] };
            /* side of the middle vertex relative to the long side: sign of the cross product */
            __int128 cr = (__int128)(v[2].x - (int64_t)v[0].x) * (v[1].y - (int64_t)v[0].y) - (__int128)(v[2].y - (int64_t)v[0].y) * (v[1].x - (int64_t)v[0].x);
            int mid_left = cr > 0;   /* middle vertex lies to the left of the long side (y grows downwards) */
            if (cr != 0) {
                if (v[0].y != v[1].y) {
                    pixman_line_fixed_t sh = { v[0], v[1] };
                    tz[n].top = v[0].y; tz[n].bottom = v[1].y; tz[n].left = mid_left ? sh : lng; tz[n].right = mid_left ? lng : sh; n++;
                }
                if (v[1].y != v[2].y) {
                    pixman_line_fixed_t sh = { v[1], v[2] };
                    tz[n].top = v[1].y; tz[n].bottom = v[2].y; tz[n].left = mid_left ? sh : lng; tz[n].right = mid_left ? lng : sh; n++;
                }
            }
        }
        timg_reset(&B, NULL);
        if (n) { pixman_add_trapezoids(B.pi, (int16_t)ox, oy, n, tz); vf_count_libcalls(1); }
        check_same(g, &A, &B, 0, NULL, &rc, "c12-triangle-decomposition", "add_triangles (A) vs add_trapezoids of the two-trapezoid decomposition (B)", desc);
    }
    /* composite_triangles, ADD of an opaque solid into a zeroed image of the mask format = direct route; two triangles */
    if (!vf_failed()) {
        pixman_color_t white = { 0xffff, 0xffff, 0xffff, 0xffff };
        pixman_image_t *src = pixman_image_create_solid_fill(&white);
        pixman_triangle_t two[2] = { tri, { c->P[0], c->P[c->np - 1], c->P[c->np / 2] } };
        timg_reset(&A, NULL); timg_reset(&B, NULL);
        pixman_add_triangles(A.pi, ox, oy, 0, two); pixman_composite_triangles(PIXMAN_OP_ADD, src, B.pi, c->fmt, 0, 0, ox, oy, 0, two);   /* no triangles: no effect */
        pixman_add_triangles(A.pi, ox, oy, 2, two);
        pixman_composite_triangles(PIXMAN_OP_ADD, src, B.pi, c->fmt, 0, 0, ox, oy, 2, two); vf_count_libcalls(2);
        check_same(g, &A, &B, 1, NULL, &rc, "c12-composite-triangles-add", "add_triangles of two (A) vs composite_triangles ADD opaque, same format (B)", desc);
        /* temp-mask route: OVER of a translucent colour onto a8r8g8b8 with a clip, against mask + composite32 */
        if (!vf_failed()) {
            pixman_color_t col = { 0x6000, 0x4000, 0x2000, 0x8000 };
            pixman_image_t *s2 = pixman_image_create_solid_fill(&col);
            timg D1i, D2i, Mk; timg_init(&D1i, PIXMAN_a8r8g8b8, W, H); timg_init(&D2i, PIXMAN_a8r8g8b8, W, H); timg_init(&Mk, c->fmt, W, H);
            for (int y = 0; y < H; y++) for (int x = 0; x < W; x++) { int a = (x * 53 + y * 101 + 40) & 255; int v = (a << 24) | ((a / 2) << 16) | ((a / 3) << 8) | (a / 5); timg_put(&D1i, x, y, v); timg_put(&D2i, x, y, v); }
            pixman_region32_t clip; pixman_region32_init_rect(&clip, 1, 0, W > 1 ? W - 1 : 1, H);
            pixman_image_set_clip_region32(D1i.pi, &clip); pixman_image_set_clip_region32(D2i.pi, &clip);
            pixman_composite_triangles(PIXMAN_OP_OVER, s2, D1i.pi, c->fmt, 0, 0, ox, oy, 2, two);
            pixman_add_triangles(Mk.pi, ox, oy, 2, two);
            pixman_image_composite32(PIXMAN_OP_OVER, s2, Mk.pi, D2i.pi, 0, 0, 0, 0, 0, 0, W, H); vf_count_libcalls(3);
            check_same(g, &D1i, &D2i, 1, NULL, &rc, "c12-composite-triangles-route", "composite_triangles OVER onto clipped a8r8g8b8 (A) vs add_triangles into a mask + composite32 (B)", desc);
            pixman_region32_fini(&clip);
            timg_fini(&D1i); timg_fini(&D2i); timg_fini(&Mk); pixman_image_unref(s2);
        }
        pixman_image_unref(src);
        timg_reset(&A, NULL); pixman_add_triangles(A.pi, ox, oy, 1, &tri);
    }
    note_case(g, &A, ideal, desc);
    soft_flush();
    timg_fini(&A); timg_fini(&B);
}

static void tri_setup(trictx *c, pixman_format_code_t fmt, int W, int H, int level)
{
    memset(c, 0, sizeof *c);
    c->fmt = fmt; c->bpp = PIXMAN_FORMAT_BPP(fmt); c->W = W; c->H = H; c->g = c12_mkgrid(c->bpp);
    int32_t xs0[] = { -98304, 16384, 32767, W * 65536 - 16384, W * 65536 + 131072 + 3 };
    int32_t ys0[] = { -32768, c->g.y0, 65536 + 1, H * 65536 - 16384, H * 65536 + 65536 };
    int32_t xs1[] = { -98304, -1, 16384, 32767, W * 65536 / 2 + 0x1234, W * 65536 - 16384, W * 65536 + 131072 + 3 };
    int32_t ys1[] = { -32768, c->g.y0, c->g.y0 + 1, 32768, 65536 + 1, H * 65536 - 16384, H * 65536 + 65536 };
    int32_t *xs = level ? xs1 : xs0, *ys = level ? ys1 : ys0; int nx = level ? 7 : 5, ny = level ? 7 : 5;
    for (int j = 0; j < ny; j++) for (int i = 0; i < nx; i++) { c->P[c->np].x = xs[i]; c->P[c->np].y = ys[j]; c->np++; }
    int dims[] = { c->np, c->np, c->np, 3, 3 };
    c->nd = 5; memcpy(c->dims, dims, sizeof dims);
}

/* ------------------------------------------------------------------------------------------------ space: composite_trapezoids */
typedef struct { int n; pixman_trapezoid_t t[3]; } traplist;
typedef struct {
    pixman_format_code_t dfmt, mfmt; int W, H; c12_grid g;
    int nlists; traplist *lists;
    int dims[8], nd;
} compctx;

static const pixman_op_t comp_ops[] = {
    PIXMAN_OP_CLEAR, PIXMAN_OP_SRC, PIXMAN_OP_DST, PIXMAN_OP_OVER, PIXMAN_OP_OVER_REVERSE, PIXMAN_OP_IN, PIXMAN_OP_IN_REVERSE,
    PIXMAN_OP_OUT, PIXMAN_OP_OUT_REVERSE, PIXMAN_OP_ATOP, PIXMAN_OP_ATOP_REVERSE, PIXMAN_OP_XOR, PIXMAN_OP_ADD, PIXMAN_OP_SATURATE,
    PIXMAN_OP_DISJOINT_OVER, PIXMAN_OP_CONJOINT_XOR, PIXMAN_OP_MULTIPLY, PIXMAN_OP_DIFFERENCE };
static const char *comp_opname[] = { "CLEAR", "SRC", "DST", "OVER", "OVER_REVERSE", "IN", "IN_REVERSE", "OUT", "OUT_REVERSE", "ATOP", "ATOP_REVERSE",
    "XOR", "ADD", "SATURATE", "DISJOINT_OVER", "CONJOINT_XOR", "MULTIPLY", "DIFFERENCE" };
#define N_COMP_OPS ((int)(sizeof comp_ops / sizeof comp_ops[0]))
static const int comp_doff[][2] = { { 0, 0 }, { 1, 0 }, { 0, -1 }, { -1, 1 }, { 2, 1 } };
static const int comp_soff[][2] = { { 0, 0 }, { 1, 1 } };
static const uint32_t src_argb[6] = { 0xff804020, 0x80402010, 0x00000000, 0x40101040, 0xffffffff, 0xc0c00060 };
static const uint32_t src_xrgb[4] = { 0x00804020, 0x12ffffff, 0xff000000, 0x7f10f040 };

static pixman_image_t *make_src(int kind, uint32_t *store)
{
    pixman_image_t *s = NULL;
    switch (kind) {
    case 0: { pixman_color_t c = { 0xffff, 0xffff, 0xffff, 0xffff }; s = pixman_image_create_solid_fill(&c); break; }
    case 1: { pixman_color_t c = { 0x6000, 0x4000, 0x2000, 0x8000 }; s = pixman_image_create_solid_fill(&c); break; }
    case 2: memcpy(store, src_argb, sizeof src_argb); s = pixman_image_create_bits(PIXMAN_a8r8g8b8, 3, 2, store, 12); pixman_image_set_repeat(s, PIXMAN_REPEAT_NORMAL); break;
    case 3: memcpy(store, src_xrgb, sizeof src_xrgb); s = pixman_image_create_bits(PIXMAN_x8r8g8b8, 2, 2, store, 8); pixman_image_set_repeat(s, PIXMAN_REPEAT_NORMAL); break;
    }
    return s;
}

static void set_clip(pixman_image_t *img, int kind, int W, int H)
{
    if (kind == 0) return;
    pixman_region32_t r;
    if (kind == 1) pixman_region32_init_rect(&r, 1, 0, W > 2 ? W - 2 : 1, H);
    else {
        pixman_box32_t b[2] = { { 0, 0, 2, 1 }, { 2, 1, W, H } };
        pixman_region32_init_rects(&r, b, H > 1 && W > 2 ? 2 : 1);
    }
    pixman_image_set_clip_region32(img, &r);
    pixman_region32_fini(&r);
}

/* initial destination contents: varied, includes 0 and the maximum */
static void fill_dst(timg *m)
{
    for (int y = 0; y < m->H; y++) for (int x = 0; x < m->W; x++) {
        int a = (x * 53 + y * 101 + 40) & 255; if (x == 0 && y == 0) a = 0; if (x == 1 && y == 0) a = 255;
        int v = m->bpp == 32 ? (int)(((uint32_t)a << 24) | ((a / 2) << 16) | ((a / 3) << 8) | (a / 5)) : m->fmt == PIXMAN_x4a4 ? (a >> 4) /* the x nibble is not a pixel value: routes that rewrite a pixel and routes that leave it alone may differ there, so it starts as 0 */ : m->bpp == 8 ? a : m->bpp == 4 ? (a & 15) : (a & 1);
        timg_put(m, x, y, v);
    }
}

/* dims: list, op, src, clip, doff, soff */
static void comp_case(uint64_t idx, void *vctx)
{
    const compctx *c = vctx;
    int d[8]; vf_decode(idx, c->dims, c->nd, d);
    int W = c->W, H = c->H;
    const traplist *tl = &c->lists[d[0]];
    pixman_op_t op = comp_ops[d[1]];
    int xd = comp_doff[d[4]][0], yd = comp_doff[d[4]][1], xs = comp_soff[d[5]][0], ys = comp_soff[d[5]][1];
    uint32_t store[8];
    pixman_image_t *src = make_src(d[2], store);
    timg D1i, D2i, Mk; timg_init(&D1i, c->dfmt, W, H); timg_init(&D2i, c->dfmt, W, H); timg_init(&Mk, c->mfmt, W, H);
    int dbpp = PIXMAN_FORMAT_BPP(c->dfmt);
    fill_dst(&D1i); fill_dst(&D2i);
    set_clip(D1i.pi, d[3], W, H); set_clip(D2i.pi, d[3], W, H);
    char desc[1200]; size_t l = 0;
    l += snprintf(desc + l, sizeof desc - l, "op=%s src=%d dst=%s mask_format=a%d %dx%d clip=%d x_dst=%d y_dst=%d x_src=%d y_src=%d traps:", comp_opname[d[1]], d[2],
                  dbpp == 32 ? "a8r8g8b8" : dbpp == 8 ? "a8" : dbpp == 4 ? "a4" : "a1", PIXMAN_FORMAT_BPP(c->mfmt), W, H, d[3], xd, yd, xs, ys);
    for (int i = 0; i < tl->n && l + 200 < sizeof desc; i++) { char ts[300]; l += snprintf(desc + l, sizeof desc - l, " %s", trap_str(&tl->t[i], ts, sizeof ts)); }
    if (vf_verbose) printf("  case: %s\n", desc);

    pixman_composite_trapezoids(op, src, D1i.pi, c->mfmt, xs, ys, xd, yd, tl->n, tl->t);
    /* by hand: every trapezoid into a mask aligned with the destination, then one composite over the whole destination */
    for (int i = 0; i < tl->n; i++) pixman_rasterize_trapezoid(Mk.pi, &tl->t[i], xd, yd);
    pixman_image_composite32(op, src, Mk.pi, D2i.pi, xs - xd, ys - yd, 0, 0, 0, 0, W, H);
    vf_count_libcalls(2 + tl->n);
    vf_count_eval(1);
    int covered = 0, partial = 0; c12_grid mg = c12_mkgrid(PIXMAN_FORMAT_BPP(c->mfmt));
    for (int y = 0; y < H; y++) for (int x = 0; x < W; x++) { int v = timg_get(&Mk, x, y); if (v) covered = 1; if (v < mg.maxv || mg.bpp == 1) partial = 1; }
    if (covered && partial) vf_count_nontrivial(1);
    uint64_t oh = vf_hash64(D1i.bits, (size_t)D1i.stride * H, 1000 + d[1]);
    if (!vf_in_confirm) vf_outcome(oh);
    int same = timg_same(&D1i, &D2i);
    if (!same && tl->n == 0) {
        /* An empty list is not "a trapezoid": the statement does not say whether the operator is then applied with an all-zero
         * mask (B) or the call is a no-op (what the X Render protocol does).  Either is accepted; anything else is not. */
        timg D0; timg_init(&D0, c->dfmt, W, H); fill_dst(&D0); set_clip(D0.pi, d[3], W, H);
        same = timg_same(&D1i, &D0);
        timg_fini(&D0);
    }
    if (!same) {
        char a[700], b[700], m[300];
        /* Known defect, narrowly: for operators where a zero source has an effect the library composites a destination-sized
         * box of the *trapezoid* coordinate space, [0,W)x[0,H), placed at (x_dst,y_dst), instead of the whole destination.
         * Emulate exactly that; anything else is a plain route difference. */
        const char *key = "c12-composite-route-differs";
        int full = !(op == PIXMAN_OP_DST || op == PIXMAN_OP_OVER || op == PIXMAN_OP_OVER_REVERSE || op == PIXMAN_OP_OUT_REVERSE || op == PIXMAN_OP_ATOP ||
                     op == PIXMAN_OP_XOR || op == PIXMAN_OP_ADD);
        if (full && (xd || yd)) {
            timg D3, M0; timg_init(&D3, c->dfmt, W, H); timg_init(&M0, c->mfmt, W, H);
            fill_dst(&D3);
            set_clip(D3.pi, d[3], W, H);
            for (int i = 0; i < tl->n; i++) pixman_rasterize_trapezoid(M0.pi, &tl->t[i], 0, 0);
            pixman_image_composite32(op, src, M0.pi, D3.pi, xs, ys, 0, 0, xd, yd, W, H);
            if (timg_same(&D1i, &D3)) key = "c12-composite-fulldest-op-with-dst-offset";
            timg_fini(&D3); timg_fini(&M0);
        }
        vf_violation(key, "composite_trapezoids (A) differs from rasterise-to-mask + composite32 (B); %s; A %s B %s mask %s", desc, timg_str(&D1i, a, sizeof a),
                     timg_str(&D2i, b, sizeof b), timg_str(&Mk, m, sizeof m));
    } else if (covered && partial && !vf_in_confirm && (oh % 1021) == 3 && vf_want_sample()) {
        char a[400]; vf_sample("%s -> %s", desc, timg_str(&D1i, a, sizeof a));
    }
    timg_fini(&D1i); timg_fini(&D2i); timg_fini(&Mk); pixman_image_unref(src);
}

static void comp_setup(compctx *c, pixman_format_code_t dfmt, pixman_format_code_t mfmt, int W, int H, int level)
{
    memset(c, 0, sizeof *c);
    c->dfmt = dfmt; c->mfmt = mfmt; c->W = W; c->H = H; c->g = c12_mkgrid(PIXMAN_FORMAT_BPP(mfmt));
    int32_t X3[] = { -3 * 65536 - 32768, 16384, W * 65536 - 49152 - 1 }, X4[] = { -3 * 65536 - 32768, 16384, W * 65536 - 49152 - 1, W * 65536 + 2 * 65536 + 16384 };
    int32_t *X = level ? X4 : X3; int nx = level ? 4 : 3;
    int32_t yp[][2] = { { 16384, H * 65536 - 16384 }, { -32768, 65536 + 5 }, { 32768, H * 65536 + 32768 } };
    int nyp = level ? 3 : 2;
    int cap = nyp * nx * nx * nx * nx + 200;
    c->lists = calloc(cap, sizeof(traplist));
    int n = 0;
    for (int p = 0; p < nyp; p++) for (int a = 0; a < nx; a++) for (int b = 0; b < nx; b++) for (int e = 0; e < nx; e++) for (int f = 0; f < nx; f++) {
        traplist *t = &c->lists[n++]; t->n = 1; t->t[0].top = yp[p][0]; t->t[0].bottom = yp[p][1];
        t->t[0].left = make_line(X[a], X[b], yp[p][0], yp[p][1], (a + b) & 1); t->t[0].right = make_line(X[e], X[f], yp[p][0], yp[p][1], (e + f + 1) & 1);
    }
    int singles = n;
    /* pairs (overlap: saturation inside the mask) and lists holding an invalid trapezoid */
    int pick[8]; for (int i = 0; i < 8; i++) pick[i] = (i * 37 + 5) % singles;
    for (int i = 0; i < 8; i++) for (int j = 0; j < (level ? 8 : 3); j++) {
        traplist *t = &c->lists[n++]; t->n = 2; t->t[0] = c->lists[pick[i]].t[0]; t->t[1] = c->lists[pick[j]].t[0];
    }
    for (int i = 0; i < 8; i++) {
        traplist *t = &c->lists[n++]; t->n = 3; t->t[0] = c->lists[pick[i]].t[0]; t->t[0].bottom = t->t[0].top;   /* invalid */
        t->t[1] = c->lists[pick[i]].t[0]; t->t[2] = c->lists[pick[i]].t[0]; t->t[2].left.p2.y = t->t[2].left.p1.y;   /* invalid: horizontal line */
    }
    { traplist *t = &c->lists[n++]; t->n = 1; t->t[0] = c->lists[pick[0]].t[0]; t->t[0].bottom = t->t[0].top - 5; }   /* nothing valid: no extents */
    { traplist *t = &c->lists[n++]; t->n = 0; t->t[0] = c->lists[pick[0]].t[0]; }                                      /* n_traps == 0 */
    c->nlists = n;
    int dims[] = { n, N_COMP_OPS, 4, 3, 5, 2 };
    c->nd = 6; memcpy(c->dims, dims, sizeof dims);
}

/* ------------------------------------------------------------------------------------------------ main */

static const char *fmtname(pixman_format_code_t f) { return f == PIXMAN_a8 ? "a8" : f == PIXMAN_a4 ? "a4" : f == PIXMAN_a1 ? "a1" : f == PIXMAN_a8r8g8b8 ? "a8r8g8b8" : f == PIXMAN_x4a4 ? "x4a4" : "?"; }

/* start-up self test of the grid understanding on axis-aligned rectangles (hard error, not a violation, if the model is off) */
static void grid_selftest(void)
{
    int bpps[] = { 1, 4, 8 };
    for (int k = 0; k < 3; k++) {
        c12_grid g = c12_mkgrid(bpps[k]);
        if (g.ny * g.nx != g.maxv) { vf_harderr("grid model: %d x %d samples != max %d", g.ny, g.nx, g.maxv); exit(2); }
        /* one full pixel and one pixel cut between two sample columns / rows */
        pixman_format_code_t f = bpps[k] == 1 ? PIXMAN_a1 : bpps[k] == 4 ? PIXMAN_a4 : PIXMAN_a8;
        timg A; timg_init(&A, f, 2, 2);
        pixman_trapezoid_t T = { 0, 65536, { { 0, 0 }, { 0, 65536 } }, { { 65536, 0 }, { 65536, 65536 } } };
        pixman_rasterize_trapezoid(A.pi, &T, 0, 0);
        if (timg_get(&A, 0, 0) != g.maxv || timg_get(&A, 1, 0) || timg_get(&A, 0, 1) || timg_get(&A, 1, 1)) { vf_harderr("grid self-test: unit square on depth %d", bpps[k]); exit(2); }
        timg_fini(&A);
    }
}

/* One engine space = the same enumeration for several contexts (the three depths) back to back: index ranges are concatenated.
 * (vf.h keeps at most 96 space records, so the depths are not separate spaces.) */
typedef struct { int n; void *ctx[4]; uint64_t size[4]; vf_case_fn fn; } multi;
static void multi_case(uint64_t idx, void *v)
{
    const multi *m = v;
    for (int i = 0; i < m->n; i++) { if (idx < m->size[i]) { m->fn(idx, m->ctx[i]); return; } idx -= m->size[i]; }
}
static void multi_run(const char *name, multi *m)
{
    uint64_t N = 0; for (int i = 0; i < m->n; i++) N += m->size[i];
    vf_space_run(name, N, multi_case, m);
}

/* (8) composite_triangles with many triangles in one call: a strip of n abutting triangles (and the same strip laid twice, overlapping) must equal
 * ONE mask holding all of them, composited once - seams between neighbours, double blending of overlaps and, for operators where an empty mask still
 * changes the destination, wiping of earlier shapes all show if the request is processed in pieces. */
static void many_tri_case(uint64_t idx, void *vctx)
{
    (void)vctx;
    static const int NS[5] = { 2, 16, 17, 33, 40 };
    static const pixman_op_t ops[4] = { PIXMAN_OP_OVER, PIXMAN_OP_SRC, PIXMAN_OP_ADD, PIXMAN_OP_IN };
    static const pixman_format_code_t mf[3] = { PIXMAN_a8, PIXMAN_a4, PIXMAN_a1 };
    int dims[5] = { 5, 4, 3, 2, 2 }, d[5]; vf_decode(idx, dims, 5, d);
    int n = NS[d[0]], twice = d[3], dsta8 = d[4];
    enum { W = 44, H = 4 };
    pixman_triangle_t tri[80]; int nt = 0;
    for (int rep = 0; rep <= twice; rep++) for (int i = 0; i < n; i++) {
        /* a zig-zag strip: triangle i has its base on the top edge for even i, on the bottom edge for odd i; neighbours share a full side */
        pixman_fixed_t x0 = pixman_int_to_fixed(i + 1) + 0x4000, x1 = pixman_int_to_fixed(i + 2) + 0x4000, x2 = pixman_int_to_fixed(i + 3) + 0x4000, yt = 0x2000, yb = pixman_int_to_fixed(H) - 0x2000;
        if (i & 1) tri[nt++] = (pixman_triangle_t){ { x0, yb }, { x2, yb }, { x1, yt } };
        else tri[nt++] = (pixman_triangle_t){ { x0, yt }, { x2, yt }, { x1, yb } };
    }
    pixman_format_code_t df = dsta8 ? PIXMAN_a8 : PIXMAN_a8r8g8b8;
    uint32_t da[W * H], db[W * H], mbuf[W * H];
    for (int i = 0; i < W * H; i++) da[i] = db[i] = dsta8 ? 0x40302010u + (uint32_t)i * 0x01010101u : (0x80402010u + (uint32_t)i * 0x00030201u);
    memset(mbuf, 0, sizeof mbuf);
    pixman_color_t col = { 0x6000, 0x3000, 0x9000, 0xc000 };
    pixman_image_t *src = pixman_image_create_solid_fill(&col);
    pixman_image_t *ia = pixman_image_create_bits(df, dsta8 ? W * 4 : W, H, da, W * 4), *ib = pixman_image_create_bits(df, dsta8 ? W * 4 : W, H, db, W * 4);
    pixman_composite_triangles(ops[d[1]], src, ia, mf[d[2]], 0, 0, 0, 0, nt, tri);
    /* reference: the box of the request as the library documents it = bounds of the triangles; one mask of that size, every triangle added, one composite */
    pixman_image_t *m = pixman_image_create_bits(mf[d[2]], W, H, mbuf, W * 4);
    for (int i = 0; i < nt; i++) pixman_add_triangles(m, 0, 0, 1, &tri[i]);
    int x1 = 1, x2 = n + 3, ww = dsta8 ? W * 4 : W; if (x2 > ww) x2 = ww;
    int unbounded = ops[d[1]] == PIXMAN_OP_SRC || ops[d[1]] == PIXMAN_OP_IN;
    if (unbounded) pixman_image_composite32(ops[d[1]], src, m, ib, 0, 0, 0, 0, 0, 0, ww, H);      /* a zero mask has an effect: the whole destination is the request */
    else pixman_image_composite32(ops[d[1]], src, m, ib, x1, 0, x1, 0, x1, 0, x2 - x1, H);
    vf_count_libcalls(nt + 2);
    pixman_image_unref(src); pixman_image_unref(ia); pixman_image_unref(ib); pixman_image_unref(m);
    vf_count_eval(1); vf_count_nontrivial(1);
    if (!vf_in_confirm) vf_outcome(vf_hash64(db, sizeof db, idx));
    if (memcmp(da, db, sizeof da)) {
        int at = 0; for (int i = 0; i < W * H; i++) if (da[i] != db[i]) { at = i; break; }
        vf_violation("c12-many-triangles-differ-from-one-mask", "pixman_composite_triangles(op %d, %d triangles%s, mask format %s, destination %s): word %d of row %d is %#010x, one mask holding every triangle composited once gives %#010x",
                     (int)ops[d[1]], nt, twice ? " (the strip laid twice)" : "", fmtname(mf[d[2]]), dsta8 ? "a8" : "a8r8g8b8", at % W, at / W, da[at], db[at]);
    }
}

/* (7) edges with exactly representable slopes: the error term of such an edge becomes exactly 0 on some rows (the edge passes through a
 * point of the 16.16 grid), which is where "carry when positive" and "carry when not negative" part; every sub-pixel position of the
 * starting point, so that on some row a sample column lies exactly there. */
static const int ES_NUM[6] = { -1, -1, 1, 1, 1, 2 }, ES_DEN[6] = { 1, 2, 2, 3, 1, 1 };
static void exact_slope_case(uint64_t idx, void *vctx)
{
    (void)vctx;
    int f = (int)(idx & 0xffff), si = (int)((idx >> 16) % 6), bi = (int)((idx >> 16) / 6);
    static const int bpps[3] = { 1, 4, 8 }; static const pixman_format_code_t fm[3] = { PIXMAN_a1, PIXMAN_a4, PIXMAN_a8 };
    c12_grid g = c12_mkgrid(bpps[bi]);
    enum { W = 8, H = 2 };
    int32_t dy = 3 * 65536, dxl = (int32_t)((int64_t)ES_NUM[si] * dy / ES_DEN[si]);
    int32_t x0 = (ES_NUM[si] < 0 ? 3 * 65536 : 0) + f;
    pixman_trapezoid_t T; T.top = 0; T.bottom = H * 65536;
    T.left.p1.x = x0; T.left.p1.y = 0; T.left.p2.x = x0 + dxl; T.left.p2.y = dy;
    T.right.p1.x = W * 65536; T.right.p1.y = 0; T.right.p2.x = W * 65536; T.right.p2.y = dy;
    c12_counts rc; memset(&rc, 0, sizeof rc);
    G.kind = 0; G.bpp = bpps[bi]; G.W = W; G.H = H; G.bg = 0; G.T = T; g_desc_ok = 0;
    soft_set = 0;
    timg *pA = timg_cached(0, fm[bi], W, H);
    timg_reset(pA, NULL);
    pixman_rasterize_trapezoid(pA->pi, &T, 0, 0); vf_count_libcalls(1);
    c12_ref_trap(&g, W, H, &T, 0, 0, &rc);
    rc.have_rep = c12_rep_trap(&g, W, H, &T, 0, 0, rc.rep);
    check_vs_ref(&g, pA, NULL, &rc, "rasterize_trapezoid (left edge of exactly representable slope) vs ideal sample count", NULL);
    /* the same shape cut at the pixel row boundary: the lower half starts from a freshly initialised edge */
    if (!vf_failed()) {
        timg *pB = timg_cached(1, fm[bi], W, H);
        pixman_trapezoid_t T1 = T, T2 = T; T1.bottom = 65536; T2.top = 65536;
        timg_reset(pB, NULL);
        pixman_rasterize_trapezoid(pB->pi, &T1, 0, 0); pixman_rasterize_trapezoid(pB->pi, &T2, 0, 0); vf_count_libcalls(2);
        check_same(&g, pA, pB, 0, NULL, &rc, "c12-hsplit-not-additive", "split at y=65536: whole (A) vs two halves (B)", NULL);
    }
    note_case(&g, pA, rc.ideal, NULL);
    soft_flush();
}

/* (6) the public grid and edge functions.  sample_ceil_y(y) is the smallest grid row >= y, sample_floor_y(y) the largest grid row < y
 * (rows as derived in c12_ref.h); stepping an initialised edge by n equals initialising it n units lower. */
#define GRID_WIN (3 * 65536)
static void gridfn_case(uint64_t idx, void *vctx)
{
    (void)vctx;
    static const int bpps[3] = { 1, 4, 8 };
    int bpp = bpps[idx % 3]; int64_t k = (int64_t)(idx / 3);
    int32_t y = (int32_t)(k - GRID_WIN);
    if (k > 2 * GRID_WIN) { int64_t j = k - 2 * GRID_WIN - 1; y = j < 70000 ? (int32_t)(0x7ffe0000 - 70000 + j) : (int32_t)(-0x7ffe0000 + (j - 70000)); }   /* far rows, short of the saturating ones */
    c12_grid g = c12_mkgrid(bpp);
    int64_t base = (int64_t)(y >> 16) * 65536, f = y - base;
    /* smallest row >= y */
    int64_t ce;
    if (f <= g.y0) ce = base + g.y0;
    else { int64_t kk = (f - g.y0 + g.ystep - 1) / g.ystep; ce = kk < g.ny ? base + g.y0 + kk * g.ystep : base + 65536 + g.y0; }
    /* largest row < y */
    int64_t fl;
    if (f <= g.y0) fl = base - 65536 + g.y0 + (int64_t)(g.ny - 1) * g.ystep;
    else { int64_t kk = (f - 1 - g.y0) / g.ystep; if (kk > g.ny - 1) kk = g.ny - 1; fl = base + g.y0 + kk * g.ystep; }
    pixman_fixed_t lc = pixman_sample_ceil_y(y, bpp), lf = pixman_sample_floor_y(y, bpp); vf_count_libcalls(2);
    vf_outcome((uint64_t)(uint32_t)(lc - y) << 32 | (uint32_t)(y - lf));
    if (lc != ce) vf_violation("c12-sample-ceil-y", "pixman_sample_ceil_y(%d, %d) = %d, the smallest sample row >= y is %lld", y, bpp, lc, (long long)ce);
    if (lf != fl) vf_violation("c12-sample-floor-y", "pixman_sample_floor_y(%d, %d) = %d, the largest sample row < y is %lld", y, bpp, lf, (long long)fl);
}
/* Edge state.  An initialised edge at sample row y stands for the exact position X(y) = x_top + (y - y_top) * DX / DY of its line:
 *     x * dy + signdx * e + (signdx > 0 ? dy : 0)  ==  x_top * dy + (y - y_top) * DX      with  -dy <= e <= 0
 * (the representation-independent reading of the Bresenham pair (x, e)).  The recorded finding c12-edge-one-ulp is that pixman_edge_step
 * does not store the new error term when the jump produces no carry; a state that differs from the exact one is classified as that finding
 * only if it equals, field for field, what that one omission produces (m_step with lossy = 1), otherwise it is a violation. */
typedef struct { int64_t x, e, stepx, signdx, dy, dx; int ovf; } medge;
static void m_step(medge *m, int64_t n, int lossy)
{
    int64_t sx = n * m->stepx; if (sx > INT32_MAX || sx < INT32_MIN) m->ovf = 1;
    m->x += sx;
    int64_t ne = m->e + n * m->dx;
    if (n >= 0) {
        if (ne > 0) { int64_t nx = (ne + m->dy - 1) / m->dy; m->e = ne - nx * m->dy; m->x += nx * m->signdx; }
        else if (!lossy) m->e = ne;
    } else {
        if (ne <= -m->dy) { int64_t nx = (-ne) / m->dy; m->e = ne + nx * m->dy; m->x -= nx * m->signdx; }
        else if (!lossy) m->e = ne;
    }
    if (m->x > INT32_MAX || m->x < INT32_MIN) m->ovf = 1;
}
static void m_init(medge *m, const pixman_line_fixed_t *l, int64_t y, int lossy, int64_t *xtop, int64_t *ytop, int64_t *DX)
{
    const pixman_point_fixed_t *t = l->p1.y <= l->p2.y ? &l->p1 : &l->p2, *b = l->p1.y <= l->p2.y ? &l->p2 : &l->p1;
    int64_t dx = (int64_t)b->x - t->x, dy = (int64_t)b->y - t->y;
    m->ovf = 0; m->x = t->x; m->e = 0; m->dy = dy; m->dx = 0; m->stepx = 0; m->signdx = 0;
    if (dx >= 0) { m->signdx = 1; m->stepx = dx / dy; m->dx = dx % dy; m->e = -dy; }
    else { m->signdx = -1; m->stepx = -(-dx / dy); m->dx = -dx % dy; m->e = 0; }
    m_step(m, y - t->y, lossy);
    *xtop = t->x; *ytop = t->y; *DX = dx;
}
/* 0 exact, 1 the recorded omission, 2 anything else */
static int edge_judge(const pixman_edge_t *e, const medge *lossy, int64_t xtop, int64_t ytop, int64_t DX, int64_t y)
{
    __int128 q = (__int128)e->x * e->dy + (__int128)e->signdx * e->e + (e->signdx > 0 ? e->dy : 0);
    __int128 want = (__int128)xtop * e->dy + (__int128)(y - ytop) * DX;
    if (q == want && e->e <= 0 && e->e >= -(int64_t)e->dy) return 0;
    if (e->x == lossy->x && e->e == lossy->e && e->dy == lossy->dy && e->dx == lossy->dx && e->stepx == lossy->stepx && e->signdx == lossy->signdx) return 1;
    return 2;
}
static const int32_t ES_X[7] = { 0, 1, 65536, 3 * 65536 + 7, -2 * 65536 - 1, 40000, 1000 * 65536 };
static const int32_t ES_DY[5] = { 1, 3, 65536, 2 * 65536 + 5, 10 * 65536 - 1 };
static const int32_t ES_A[6] = { 0, 1, 2185, 65535, 65536 + 4369, -7 };          /* y_start - y_top */
static const int ES_N[12] = { 0, 1, 2, 3, 5, 17, 4369, 65536, -1, -2, -5, -4369 };
static void edgestep_case(uint64_t idx, void *vctx)
{
    (void)vctx;
    int dims[6] = { 7, 7, 5, 6, 12, 3 }, v[6]; vf_decode(idx, dims, 6, v);
    static const int bpps[3] = { 1, 4, 8 };
    int bpp = bpps[v[5]]; int32_t ytop = 65536 / 2 + 3;
    pixman_line_fixed_t ln = { { ES_X[v[0]], ytop }, { ES_X[v[1]], ytop + ES_DY[v[2]] } };
    int32_t a = ytop + ES_A[v[3]]; int n = ES_N[v[4]];
    medge m1, m2; int64_t xt, yt, DX;
    m_init(&m1, &ln, a, 1, &xt, &yt, &DX); m_step(&m1, n, 1);
    m_init(&m2, &ln, (int64_t)a + n, 1, &xt, &yt, &DX);
    if (m1.ovf || m2.ovf) return;                 /* n * stepx leaves the 32-bit range: not a legal use of the edge functions */
    pixman_edge_t e1, e2;
    pixman_line_fixed_edge_init(&e1, bpp, a, &ln, 0, 0);
    pixman_edge_step(&e1, n);
    pixman_line_fixed_edge_init(&e2, bpp, a + n, &ln, 0, 0); vf_count_libcalls(3);
    vf_outcome(((uint64_t)(uint32_t)e2.x << 32) ^ (uint64_t)(uint32_t)e2.e ^ ((uint64_t)(uint32_t)e1.e << 13));
    int j1 = edge_judge(&e1, &m1, xt, yt, DX, (int64_t)a + n), j2 = edge_judge(&e2, &m2, xt, yt, DX, (int64_t)a + n);
    if (n != 0 && DX != 0) vf_count_nontrivial(1);
    if (j2 == 2)
        vf_violation("c12-edge-init-wrong", "line (%d,%d)-(%d,%d) depth %d: the edge initialised at y=%d has x=%d e=%lld dy=%d signdx=%d, which stands for neither the exact position of the line there "
                     "nor the position with the recorded carry-less omission (x=%lld e=%lld)", ln.p1.x, ln.p1.y, ln.p2.x, ln.p2.y, bpp, a + n, e2.x, (long long)e2.e, e2.dy, e2.signdx, (long long)m2.x, (long long)m2.e);
    else if (j1 == 2)
        vf_violation("c12-edge-step-wrong", "line (%d,%d)-(%d,%d) depth %d: the edge initialised at y=%d and stepped by %d has x=%d e=%lld, which stands for neither the exact position of the line at y=%d "
                     "nor the position with the recorded carry-less omission (x=%lld e=%lld)", ln.p1.x, ln.p1.y, ln.p2.x, ln.p2.y, bpp, a, n, e1.x, (long long)e1.e, a + n, (long long)m1.x, (long long)m1.e);
    else if (j1 == 1 || j2 == 1)
        vf_violation("c12-edge-one-ulp", "line (%d,%d)-(%d,%d) depth %d: edge initialised at y=%d and stepped by %d: x=%d e=%lld; initialised at y=%d: x=%d e=%lld; one of them lags the exact position by less "
                     "than one ulp in exactly the way the missing store of the error term on a carry-less jump produces", ln.p1.x, ln.p1.y, ln.p2.x, ln.p2.y, bpp, a, n, e1.x, (long long)e1.e, a + n, e2.x, (long long)e2.e);
    if (vf_failed()) return;
    /* the same line given bottom-up, and shifted by whole pixels through the offset arguments: identical state */
    pixman_line_fixed_t rev = { ln.p2, ln.p1 }, sh = { { ln.p1.x - 2 * 65536, ln.p1.y + 65536 }, { ln.p2.x - 2 * 65536, ln.p2.y + 65536 } };
    pixman_edge_t e3, e4;
    pixman_line_fixed_edge_init(&e3, bpp, a + n, &rev, 0, 0);
    pixman_line_fixed_edge_init(&e4, bpp, a + n, &sh, 2, -1); vf_count_libcalls(2);
#define SAME_EDGE(p, q) ((p).x == (q).x && (p).e == (q).e && (p).stepx == (q).stepx && (p).signdx == (q).signdx && (p).dy == (q).dy && (p).dx == (q).dx && \
                         (p).stepx_small == (q).stepx_small && (p).stepx_big == (q).stepx_big && (p).dx_small == (q).dx_small && (p).dx_big == (q).dx_big)
    if (!SAME_EDGE(e3, e2))
        vf_violation("c12-edge-init-direction", "line (%d,%d)-(%d,%d) depth %d at y=%d: given bottom-up the edge is x=%d e=%lld stepx=%d, top-down x=%d e=%lld stepx=%d",
                     ln.p1.x, ln.p1.y, ln.p2.x, ln.p2.y, bpp, a + n, e3.x, (long long)e3.e, e3.stepx, e2.x, (long long)e2.e, e2.stepx);
    if (!SAME_EDGE(e4, e2))
        vf_violation("c12-edge-init-offsets", "line (%d,%d)-(%d,%d) depth %d at y=%d: moved by (-2,+1) pixels and given offsets (2,-1) the edge is x=%d e=%lld, unmoved x=%d e=%lld",
                     ln.p1.x, ln.p1.y, ln.p2.x, ln.p2.y, bpp, a + n, e4.x, (long long)e4.e, e2.x, (long long)e2.e);
    /* the multi-row steps the rasterisers use: small = one sample row, big = last row of a pixel to the first row of the next */
    {
        c12_grid g = c12_mkgrid(bpp);
        int64_t small = g.ystep, big = 65536 - (int64_t)(g.ny - 1) * g.ystep;
        /* stepx_small/dx_small must equal the jump of `small` unit rows: small*stepx + carries of small*dx */
        int64_t nes = small * (int64_t)e2.dx, neb = big * (int64_t)e2.dx;
        int64_t ws = small * (int64_t)e2.stepx + (nes / e2.dy) * e2.signdx, wds = nes % e2.dy;
        int64_t wb = big * (int64_t)e2.stepx + (neb / e2.dy) * e2.signdx, wdb = neb % e2.dy;
        if (bpp == 1) { ws = wb = (int64_t)65536 * e2.stepx + ((int64_t)65536 * e2.dx / e2.dy) * e2.signdx; wds = wdb = (int64_t)65536 * e2.dx % e2.dy; }
        if (ws >= INT32_MIN && ws <= INT32_MAX && wb >= INT32_MIN && wb <= INT32_MAX &&
            (e2.stepx_small != ws || e2.dx_small != wds || e2.stepx_big != wb || e2.dx_big != wdb))
            vf_violation("c12-edge-multi-step", "line (%d,%d)-(%d,%d) depth %d: stepx_small=%d dx_small=%d stepx_big=%d dx_big=%d, but %lld / %lld unit rows of stepx=%d dx=%d dy=%d are %lld+%lld/dy and %lld+%lld/dy",
                         ln.p1.x, ln.p1.y, ln.p2.x, ln.p2.y, bpp, e2.stepx_small, e2.dx_small, e2.stepx_big, e2.dx_big, (long long)small, (long long)big, e2.stepx, e2.dx, e2.dy,
                         (long long)ws, (long long)wds, (long long)wb, (long long)wdb);
    }
}

int main(int argc, char **argv)
{
    vf_init(argc, argv, "C12", "exploration");
    int th = vf_is_thorough();
    vf_rule = "E1 bounded-exhaustive enumeration: every tuple of the Cartesian product of the stated alphabets is rasterised by the real library and compared "
              "(i) pixel by pixel with the ideal sample-count model c12_ref.h (exact rational edge positions, no stepping) and (ii) with metamorphically equal requests "
              "(horizontal split, shared-edge split, offsets, accessor path, add_traps/add_trapezoids, triangle vertex order and decomposition, composite route). "
              "evaluations = shapes/requests executed and judged (shared-edge tuples whose middle line is not between the outer ones are skipped and not counted); "
              "non-trivial = the shape covers at least one sample and leaves at least one pixel partially covered (a1: at least one pixel set and one clear); "
              "outcomes = distinct result images (the set saturates at 4194304).";
    vf_assume("the sample grid per depth is as derived in c12_ref.h from the depth alone (checked at start-up on unit squares: full pixel == maximum)");
    vf_assume("coordinates stay within +-1000 pixels (+-3000 for extrapolated edges) and |y| far from 32767: pixman_sample_floor_y saturation (finding #3) belongs to C04");
    vf_assume("edge lines span [top,bottom] or are extrapolated by at most their own length (variant 3); near-horizontal edges extrapolated beyond int32 x are not enumerated");
    vf_assume("pixman_image_composite32 itself is trusted here (C01/C03): the composite route check compares two uses of it");
    vf_assume("an empty trapezoid list (n_traps == 0) may be a no-op or an all-zero mask composite: the statement is about trapezoids");
    grid_selftest();

    pixman_format_code_t fmts[3] = { PIXMAN_a1, PIXMAN_a4, PIXMAN_a8 };
    char nm[64];

    /* (1) raster: trapezoid vs ideal model, + accessor path, add_traps, horizontal splits */
    {
        struct { int W, H, q; } sizes[] = {
            { 1, 1, 1 }, { 2, 1, 1 }, { 3, 1, 0 }, { 4, 1, 0 }, { 5, 1, 0 }, { 6, 1, 0 },
            { 1, 2, 1 }, { 2, 2, 0 }, { 3, 2, 1 }, { 4, 2, 0 }, { 5, 2, 0 }, { 6, 2, 0 },
            { 1, 3, 0 }, { 2, 3, 0 }, { 3, 3, 0 }, { 4, 3, 1 }, { 5, 3, 0 }, { 6, 3, 0 },
            { 1, 4, 0 }, { 2, 4, 0 }, { 3, 4, 0 }, { 4, 4, 0 }, { 5, 4, 0 }, { 6, 4, 1 },
            { 9, 2, 1 }, { 16, 2, 1 }, { 13, 3, 0 },     /* wide: the span-fill optimisation of rasterize_edges_8 needs spans >= 7 pixels */
            { 70, 1, 1 } };                              /* a1 only: whole 32-bit words in the middle of a span */
        for (unsigned s = 0; s < sizeof sizes / sizeof sizes[0]; s++) {
            if (!th && !sizes[s].q) continue;
            int W = sizes[s].W, H = sizes[s].H, nbg = W * H <= 6 ? 2 : 1, nf = W == 70 ? 1 : 3;
            static tctx c[3]; multi m; m.fn = ras_case; m.n = nf;
            /* quick, and the non-main sizes of thorough: y 11 values, x 8 values, end-point variants {0,1} per edge;
             * thorough main sizes: x 12 values, variants {0,1,2,3} */
            for (int f = 0; f < nf; f++) {
                if (th && sizes[s].q) ras_setup(&c[f], fmts[f], W, H, 1, 2, 4, nbg, 1, 1);
                else ras_setup(&c[f], fmts[f], W, H, 1, 1, 2, th ? 2 : nbg, 1, 1);
                m.ctx[f] = &c[f]; m.size[f] = vf_product(c[f].dims, c[f].nd);
            }
            snprintf(nm, sizeof nm, "raster-%dx%d", W, H);
            multi_run(nm, &m);
            /* quick: the extrapolating variant (edge lines that end inside (top,bottom)) on two sizes */
            if (!th && ((W == 3 && H == 2) || (W == 6 && H == 4))) {
                for (int f = 0; f < 3; f++) { ras_setup(&c[f], fmts[f], W, H, 1, 1, -3, 1, 1, 0); m.size[f] = vf_product(c[f].dims, c[f].nd); }
                snprintf(nm, sizeof nm, "raster-extrap-%dx%d", W, H);
                multi_run(nm, &m);
            }
            /* thorough: the large y alphabet (21 values: every sample-row neighbourhood, quarter positions) on three sizes */
            if (th && ((W == 1 && H == 1) || (W == 3 && H == 2) || (W == 6 && H == 4))) {
                for (int f = 0; f < 3; f++) { ras_setup(&c[f], fmts[f], W, H, 2, 2, 2, 1, 1, 1); m.size[f] = vf_product(c[f].dims, c[f].nd); }
                snprintf(nm, sizeof nm, "raster-bigY-%dx%d", W, H);
                multi_run(nm, &m);
            }
        }
    }
    /* (2) offsets */
    {
        struct { int W, H, q; } sizes[] = { { 2, 2, 1 }, { 5, 3, 1 }, { 1, 1, 0 }, { 6, 4, 0 }, { 9, 2, 0 } };
        for (unsigned s = 0; s < sizeof sizes / sizeof sizes[0]; s++) {
            if (!th && !sizes[s].q) continue;
            static tctx c[3]; multi m; m.fn = off_case; m.n = 3;
            for (int f = 0; f < 3; f++) {
                off_setup(&c[f], fmts[f], sizes[s].W, sizes[s].H, th ? 1 : 0, th ? 1 : 0, th ? 4 : 2);
                m.ctx[f] = &c[f]; m.size[f] = vf_product(c[f].dims, c[f].nd);
            }
            snprintf(nm, sizeof nm, "offsets-%dx%d", sizes[s].W, sizes[s].H);
            multi_run(nm, &m);
        }
    }
    /* (3) shared edge */
    {
        struct { int W, H, q; } sizes[] = { { 3, 2, 1 }, { 9, 2, 1 }, { 6, 4, 0 } };
        for (unsigned s = 0; s < sizeof sizes / sizeof sizes[0]; s++) {
            if (!th && !sizes[s].q) continue;
            static tctx c[3]; multi m; m.fn = edge_case; m.n = 0;
            for (int f = 0; f < 3; f++) {
                if (sizes[s].W == 9 && f != 2) continue;     /* the wide size is there for the a8 span-fill optimisation */
                edge_setup(&c[f], fmts[f], sizes[s].W, sizes[s].H, 0, th ? 1 : 0, 2);
                m.ctx[m.n] = &c[f]; m.size[m.n] = vf_product(c[f].dims, c[f].nd); m.n++;
            }
            snprintf(nm, sizeof nm, "shared-edge-%dx%d", sizes[s].W, sizes[s].H);
            multi_run(nm, &m);
        }
    }
    /* (4) triangles */
    {
        struct { int W, H, q; } sizes[] = { { 4, 3, 1 }, { 6, 4, 0 }, { 2, 2, 0 } };
        for (unsigned s = 0; s < sizeof sizes / sizeof sizes[0]; s++) {
            if (!th && !sizes[s].q) continue;
            static trictx c[3]; multi m; m.fn = tri_case; m.n = 3;
            for (int f = 0; f < 3; f++) {
                tri_setup(&c[f], fmts[f], sizes[s].W, sizes[s].H, th);
                m.ctx[f] = &c[f]; m.size[f] = vf_product(c[f].dims, c[f].nd);
            }
            snprintf(nm, sizeof nm, "triangles-%dx%d", sizes[s].W, sizes[s].H);
            multi_run(nm, &m);
        }
    }
    /* (6) public grid / edge functions */
    vf_space_run("public-sample-ceil-floor-y", 3ull * (2 * GRID_WIN + 1 + 140000), gridfn_case, NULL);
    vf_space_run("composite-triangles-many-in-one-call", 5 * 4 * 3 * 2 * 2, many_tri_case, NULL);
    vf_space_run("exact-slope-edges-every-subpixel-start", 65536ull * 6 * 3, exact_slope_case, NULL);
    vf_space_run("public-edge-init-step", 7ull * 7 * 5 * 6 * 12 * 3, edgestep_case, NULL);
    /* (5) composite_trapezoids route independence */
    {
        pixman_format_code_t dfm[] = { PIXMAN_a8, PIXMAN_a8r8g8b8, PIXMAN_a4, PIXMAN_a1, PIXMAN_x4a4 };     /* x4a4: alpha-only and 8 bpp like a8, but not the same format as any mask format */
        for (int df = 0; df < 5; df++) for (int mf = 0; mf < 3; mf++) {
            if ((df == 2 || df == 3) && dfm[df] != fmts[mf]) continue;      /* a4/a1 destinations only with the same mask format (ADD shortcut) */
            static compctx c;
            comp_setup(&c, dfm[df], fmts[mf], 5, 3, th);
            snprintf(nm, sizeof nm, "composite-%s-mask-%s", fmtname(dfm[df]), fmtname(fmts[mf]));
            vf_space_run(nm, vf_product(c.dims, c.nd), comp_case, &c);
            free(c.lists);
        }
    }
    vf_bounds = th ? "targets a1/a4/a8 (each space = the three depths back to back). raster: all 24 sizes 1x1..6x4 plus 9x2 16x2 13x3 (and 70x1 for a1); y alphabet 11 values "
                     "(-1, 0, first sample row and +-1 ulp, 1/4, 1/2, last row + 1 ulp, H-1/4, H, H+1), x alphabet 8 values (+-1000 px, -1 ulp, 1/4, 1/2 - 1 ulp = sample column, "
                     "interior, W-1/4, W + 1 ulp), edge end-point variants {at top/bottom, beyond by 0.3 px given bottom-up}, 2 backgrounds; on the 8 main sizes x alphabet 12 values "
                     "(+ 0, 1/2, 1/2 + 1 ulp, W) and 4 variants (+ long lead-in, + inner segment = extrapolated edge); on 1x1 3x2 6x4 additionally y alphabet 21 values; every case also "
                     "through the accessor path, add_traps, and split at every y alphabet value inside. offsets {0,+-1}^2 on 5 sizes (y 11, x 8, 4 variants). shared-edge: 15 y pairs x 8^6 "
                     "end points x 2^3 variants on 3x2 6x4 (9x2 a8). triangles: 49 points^3 x offsets on 3 sizes. composite_trapezoids: 18 operators x 4 sources x 3 clips x 5 dst offsets "
                     "x 2 src offsets x 842 lists x 8 destination/mask format pairs on 5x3"
                   : "targets a1/a4/a8 (each space = the three depths back to back). raster: sizes 1x1 2x1 1x2 3x2 4x3 6x4 9x2 16x2 (and 70x1 for a1); y alphabet 11 values, x alphabet 8 values "
                     "incl. +-1000 px, edge end-point variants {at top/bottom, beyond by 0.3 px}, 2 backgrounds up to 6 pixels; extrapolated-edge variant on 3x2 6x4; every case also through "
                     "the accessor path, add_traps, and split at every y alphabet value inside. offsets {0,+-1}^2 on 2x2 5x3 (y 6, x 4 values). shared-edge: 15 y pairs x 4^6 end points x 2^3 "
                     "variants on 3x2 (9x2 a8). triangles: 25 points^3 x offsets on 4x3. composite_trapezoids: 18 operators x 4 sources x 3 clips x 5 dst offsets x 2 src offsets x 196 lists "
                     "x 8 destination/mask format pairs on 5x3";
    return vf_finish();
}
