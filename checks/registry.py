# check registry (exec'd by ../run): reg(id, source, variant, cflags=[...], ldflags=[...], defs=[...], srcs=[...])
import glob as _glob
reg("C05", "regions.c", "opt", cflags=["-DPROP=5", "-O2"])
reg("C06", "regions.c", "opt", cflags=["-DPROP=6", "-O2"])
reg("C07", "regions.c", "opt", cflags=["-DPROP=7", "-O2"])
for _f in sorted(_glob.glob(os.path.join(VERIF, "checks", "registry.d", "*.py"))):
    exec(open(_f).read())
