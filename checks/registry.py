# check registry (exec'd by ../run): reg(id, source, variant, cflags=[...], ldflags=[...], defs=[...])
reg("C05", "regions.c", "opt", cflags=["-DPROP=5", "-O2"])
reg("C06", "regions.c", "opt", cflags=["-DPROP=6", "-O2"])
reg("C07", "regions.c", "opt", cflags=["-DPROP=7", "-O2"])
