/* C16 — concurrent drawing from several threads is race-free and deterministic.
 * Engine E3 (schedules): the library is compiled with -fsanitize-coverage=trace-pc-guard, so every basic block
 * of libpixman calls __sanitizer_cov_trace_pc_guard(), which this harness turns into a SCHEDULING POINT.
 * Worker threads are real pthreads; a baton (futex hand-off) lets exactly one of them run.  The explorer is the
 * iterative-context-bounding DFS: execute a schedule prefix, continue without switching, then branch at every
 * later point whose preemption cost fits the bound.  Oracle: every thread's result digest equals its digest
 * when run alone.  (Data races inside a basic block are the separate free-running TSan pass, c16_tsan.c.)
 */
#include "vf.h"
#include "c16_bodies.h"
#include <pthread.h>
#include <linux/futex.h>
#include <sys/syscall.h>
#include <limits.h>

/* ---------------- scheduler ---------------- */
#define MAXP 60000
typedef struct { uint8_t nen; uint8_t running_enabled; uint8_t choice; uint8_t interesting; } point_t;

static volatile int sched_on;
static __thread int my_tid = -1;
static volatile int turn = -1;                 /* thread holding the baton */
static volatile int alive[MAXT];
static int NT;
static point_t trace[MAXP]; static int npoints;
static const int *prefix; static int prefix_len;
static int diverged;                           /* replayed prefix asked for a choice that does not exist */
static uint64_t trace_hash;
static uintptr_t interesting_lo[64], interesting_hi[64]; static int n_interesting;

static void futex_wait(volatile int *addr, int val) { syscall(SYS_futex, addr, FUTEX_WAIT, val, NULL, NULL, 0); }
static void futex_wake_all(volatile int *addr) { syscall(SYS_futex, addr, FUTEX_WAKE, INT_MAX, NULL, NULL, 0); }

static void wait_for_turn(void) { int t; while ((t = turn) != my_tid) futex_wait(&turn, t); }
static void give_turn(int to) { __atomic_store_n(&turn, to, __ATOMIC_SEQ_CST); futex_wake_all(&turn); }

/* A point is "interesting" (eligible for the deeper preemption bound) if it lies inside one of the dispatch/validation
 * functions AND is among the first two visits of its basic block during the current stay of the thread in that function:
 * the linear scans over the fast-path tables otherwise contribute hundreds of equivalent points. */
static int last_range[MAXT];
static struct { uintptr_t pc; int count; } visit[MAXT][128];
static int is_interesting(uintptr_t pc)
{
    int r = -1;
    for (int i = 0; i < n_interesting; i++) if (pc >= interesting_lo[i] && pc < interesting_hi[i]) { r = i; break; }
    int t = my_tid;
    if (r != last_range[t]) { memset(visit[t], 0, sizeof visit[t]); last_range[t] = r; }
    if (r < 0) return 0;
    unsigned k = (unsigned)(pc * 0x9e3779b1u) >> 25;     /* 7 bits */
    for (int probe = 0; probe < 128; probe++, k = (k + 1) & 127) {
        if (visit[t][k].pc == pc) return visit[t][k].count++ < 2;
        if (visit[t][k].pc == 0) { visit[t][k].pc = pc; visit[t][k].count = 1; return 1; }
    }
    return 0;
}

/* one scheduling decision; `running_enabled` = the calling thread could continue */
static void decide(int running_enabled, uintptr_t pc)
{
    int order[MAXT], n = 0;
    if (running_enabled) order[n++] = my_tid;
    for (int t = 0; t < NT; t++) if (alive[t] && t != my_tid) order[n++] = t;
    if (n == 0) { give_turn(-2); return; }                    /* everybody finished */
    int i = npoints;
    int choice = 0;
    if (i < prefix_len) { choice = prefix[i]; if (choice >= n) { diverged = 1; choice = 0; } }
    if (i < MAXP) { trace[i].nen = (uint8_t)n; trace[i].running_enabled = (uint8_t)running_enabled; trace[i].choice = (uint8_t)choice; trace[i].interesting = (uint8_t)is_interesting(pc); }
    npoints++;
    trace_hash = vf_mix(trace_hash, (uint64_t)my_tid << 48 ^ pc);
    int next = order[choice];
    if (next != my_tid) {
        give_turn(next);
        if (running_enabled) wait_for_turn();
    }
}

void __sanitizer_cov_trace_pc_guard(uint32_t *guard)
{
    if (!sched_on || my_tid < 0) return;
    decide(1, (uintptr_t)__builtin_return_address(0));
}
void __sanitizer_cov_trace_pc_guard_init(uint32_t *start, uint32_t *stop)
{
    for (uint32_t *x = start; x < stop; x++) *x = 1;
}

/* ---------------- one execution ---------------- */
typedef struct { int tid; tctx_t *ctx; const harness_t *h; } targ_t;
static void *thread_main(void *v)
{
    targ_t *a = v;
    my_tid = a->tid;
    wait_for_turn();
    /* the thread's private state is digested after EVERY operation: a later operation that overwrites the same pixels cannot hide a wrong one */
    for (int k = 0; k < a->h->nops[a->tid]; k++) { body_run(a->ctx, a->h->ops[a->tid][k]); uint64_t d = body_digest(a->ctx); a->ctx->digest = body_hash(&d, sizeof d, a->ctx->digest + (uint64_t)k); }
    alive[my_tid] = 0;
    decide(0, 0);                       /* hand the baton on; costs no preemption */
    my_tid = -1;
    return NULL;
}

static uint32_t shared_pix[DH][DW];
static uint64_t solo_digest[MAXT];
static int shared_refs_bad;

/* Runs the harness under the given schedule prefix.  Returns 0 if all digests equal the solo digests. */
static int execute(const harness_t *h, const int *pfx, int plen, uint64_t got[MAXT])
{
    tctx_t ctx[MAXT]; targ_t args[MAXT]; pthread_t th[MAXT];
    for (int y = 0; y < DH; y++) for (int x = 0; x < DW; x++) shared_pix[y][x] = 0x90603010u + (unsigned)(x + 3 * y) * 0x04030201u;
    pixman_image_t *shared = pixman_image_create_bits(PIXMAN_a8r8g8b8, DW, DH, &shared_pix[0][0], DW * 4);
    {   /* first use of the shared source happens here, on the main thread */
        uint32_t tmp[DH][DW]; memset(tmp, 0, sizeof tmp);
        pixman_image_t *d = pixman_image_create_bits(PIXMAN_a8r8g8b8, DW, DH, &tmp[0][0], DW * 4);
        pixman_image_composite32(PIXMAN_OP_OVER, shared, NULL, d, 0, 0, 0, 0, 0, 0, DW, DH);
        pixman_image_unref(d);
    }
    pixman_image_t *sgrad = body_make_shared_gradient();
    {   /* first use of the shared gradient on the main thread */
        uint32_t tmp[DH][DW]; memset(tmp, 0, sizeof tmp);
        pixman_image_t *d = pixman_image_create_bits(PIXMAN_a8r8g8b8, DW, DH, &tmp[0][0], DW * 4);
        pixman_image_composite32(PIXMAN_OP_SRC, sgrad, NULL, d, 0, 0, 0, 0, 0, 0, DW, DH);
        pixman_image_unref(d);
    }
    static uint32_t clipped_pix[DW * DH];
    pixman_image_t *sclip = body_make_shared_clipped(clipped_pix);
    {   /* first use on the main thread */
        uint32_t tmp[DH][DW]; memset(tmp, 0, sizeof tmp);
        pixman_image_t *d = pixman_image_create_bits(PIXMAN_a8r8g8b8, DW, DH, &tmp[0][0], DW * 4);
        pixman_image_composite32(PIXMAN_OP_OVER, sclip, NULL, d, 1, 0, 0, 0, 0, 0, DW, DH);
        pixman_image_unref(d);
    }
    static uint32_t tile8[2 * TILE_STRIDE_WORDS], tile16[2 * TILE_STRIDE_WORDS];
    memset(tile8, 0x5a, sizeof tile8); memset(tile16, 0xa5, sizeof tile16);
    static uint32_t tile_pix[64];
    pixman_image_t *stile = body_make_shared_tile(tile_pix);
    {   /* first use on the main thread */
        uint32_t tmp[2][40]; memset(tmp, 0, sizeof tmp);
        pixman_image_t *d = pixman_image_create_bits(PIXMAN_a8r8g8b8, 40, 2, &tmp[0][0], 160);
        pixman_image_composite32(PIXMAN_OP_SRC, stile, NULL, d, 3, 0, 0, 0, 0, 0, 40, 2);
        pixman_image_unref(d);
    }
    static uint32_t acc_pix[DW * DH];
    pixman_image_t *sacc = body_make_shared_acc(acc_pix);
    {   /* first use on the main thread */
        uint32_t tmp[DH][DW]; memset(tmp, 0, sizeof tmp);
        pixman_image_t *d = pixman_image_create_bits(PIXMAN_a8r8g8b8, DW, DH, &tmp[0][0], DW * 4);
        pixman_image_composite32(PIXMAN_OP_OVER, sacc, NULL, d, 0, 0, 0, 0, 0, 0, DW, DH);
        pixman_image_unref(d);
    }
    NT = h->nthreads;
    for (int t = 0; t < NT; t++) { body_setup(&ctx[t], t, shared); ctx[t].shared_grad = sgrad; ctx[t].shared_clipped = sclip; ctx[t].shared_acc = sacc; ctx[t].shared_tile = stile; ctx[t].tile8 = tile8; ctx[t].tile16 = tile16; ctx[t].tile_ix = t; alive[t] = 1; }
    npoints = 0; prefix = pfx; prefix_len = plen; diverged = 0; trace_hash = 0;
    for (int t = 0; t < MAXT; t++) last_range[t] = -2;
    turn = -1;
    sched_on = 1;
    for (int t = 0; t < NT; t++) { args[t].tid = t; args[t].ctx = &ctx[t]; args[t].h = h; pthread_create(&th[t], NULL, thread_main, &args[t]); }
    give_turn(0);
    for (int t = 0; t < NT; t++) pthread_join(th[t], NULL);
    sched_on = 0;
    int bad = 0;
    for (int t = 0; t < NT; t++) { got[t] = body_digest(&ctx[t]) ^ ctx[t].digest; if (got[t] != solo_digest[t]) bad = 1; body_teardown(&ctx[t]); }
    /* the shared images were only read: the harness holds the only reference to each, so every unref must be the last one */
    shared_refs_bad = 0;
    if (!pixman_image_unref(shared)) shared_refs_bad |= 1;
    if (!pixman_image_unref(sgrad)) shared_refs_bad |= 2;
    if (!pixman_image_unref(sclip)) shared_refs_bad |= 4;
    if (!pixman_image_unref(sacc)) shared_refs_bad |= 8;
    if (!pixman_image_unref(stile)) shared_refs_bad |= 16;
    if (shared_refs_bad) bad = 1;
    return bad;
}

/* solo digests: each thread's operations executed alone */
static void compute_solo(const harness_t *h)
{
    for (int t = 0; t < h->nthreads; t++) {
        harness_t one = *h;
        for (int u = 0; u < h->nthreads; u++) if (u != t) one.nops[u] = 0;
        uint64_t got[MAXT];
        memset(solo_digest, 0, sizeof solo_digest);
        execute(&one, NULL, 0, got);
        uint64_t d = got[t];
        /* stash */
        static uint64_t tmp[MAXT]; tmp[t] = d;
        if (t == h->nthreads - 1) memcpy(solo_digest, tmp, sizeof tmp);
    }
}

/* ---------------- explorer ---------------- */
typedef struct { int bound_all; int bound_interesting; } bounds_t;
static bounds_t B;
static uint64_t n_exec, n_points_total, max_points;
static int explore_failed;
static char fail_text[1500];

static void describe_schedule(const int *choices, int n, char *buf, size_t cap)
{
    size_t l = 0; buf[0] = 0;
    for (int i = 0; i < n && l + 24 < cap; i++) if (choices[i]) l += snprintf(buf + l, cap - l, "%s@%d:alt%d", l ? " " : "", i, choices[i]);
    if (!l) snprintf(buf, cap, "(no switches)");
}

/* prev_int: every preemption taken so far was at an "interesting" point */
static void explore(const harness_t *h, int hid, const int *pfx, int plen, int preempt_used, int prev_int)
{
    if (explore_failed || vf->stop) return;
    uint64_t got[MAXT];
    int bad = execute(h, pfx, plen, got);
    n_exec++; n_points_total += (uint64_t)npoints; if ((uint64_t)npoints > max_points) max_points = (uint64_t)npoints;
    vf_count_transitions(1);
    if (!vf_in_confirm) vf_outcome(vf_mix(trace_hash, hid));
    int np = npoints < MAXP ? npoints : MAXP;
    if (diverged) { vf_harderr("schedule prefix could not be replayed (harness %d, prefix length %d)", hid, plen); explore_failed = 1; return; }
    if (npoints >= MAXP) { vf_cap("execution exceeded %d scheduling points (harness %d)", MAXP, hid); }
    if (bad) {
        char sch[600]; int ch[MAXP > 4096 ? 4096 : MAXP]; int n = np < 4096 ? np : 4096;
        for (int i = 0; i < n; i++) ch[i] = trace[i].choice;
        describe_schedule(ch, n, sch, sizeof sch);
        size_t l = (size_t)snprintf(fail_text, sizeof fail_text, "harness %d, schedule [%s] (%d points): ", hid, sch, npoints);
        for (int t = 0; t < h->nthreads && l + 80 < sizeof fail_text; t++)
            l += snprintf(fail_text + l, sizeof fail_text - l, "thread %d digest %016llx (alone: %016llx)%s ", t, (unsigned long long)got[t], (unsigned long long)solo_digest[t], got[t] != solo_digest[t] ? " DIFFERS" : "");
        if (shared_refs_bad && l + 120 < sizeof fail_text) snprintf(fail_text + l, sizeof fail_text - l, "; a shared (read-only) image was still referenced after the harness dropped its only reference (mask %d)", shared_refs_bad);
        explore_failed = 1;
        return;
    }
    /* copy the trace: recursion overwrites it */
    point_t *tr = malloc(sizeof(point_t) * (size_t)np);
    memcpy(tr, trace, sizeof(point_t) * (size_t)np);
    int *child = malloc(sizeof(int) * (size_t)(np + 1));
    for (int i = 0; i < np; i++) child[i] = tr[i].choice;
    for (int i = plen; i < np && !explore_failed; i++) {
        if (tr[i].nen < 2) continue;
        int pre = tr[i].running_enabled ? 1 : 0;
        int cost = preempt_used + pre;
        int allowed = cost <= B.bound_all || (cost <= B.bound_interesting && prev_int && (tr[i].interesting || !pre));
        if (!allowed) continue;
        for (int alt = 1; alt < tr[i].nen && !explore_failed; alt++) {
            int save = child[i];
            child[i] = alt;
            explore(h, hid, child, i + 1, cost, prev_int && (tr[i].interesting || !pre));
            child[i] = save;
        }
    }
    free(tr); free(child);
}

/* ---------------- harnesses ---------------- */
static harness_t H[128]; static int NH;
static void add_pair(int a, int b) { harness_t *h = &H[NH++]; memset(h, 0, sizeof *h); h->nthreads = 2; h->nops[0] = 2; h->ops[0][0] = a; h->ops[0][1] = b; h->nops[1] = 2; h->ops[1][0] = b; h->ops[1][1] = a; }
static void add_triple(int a, int b, int c) { harness_t *h = &H[NH++]; memset(h, 0, sizeof *h); h->nthreads = 3; for (int t = 0; t < 3; t++) h->nops[t] = 1; h->ops[0][0] = a; h->ops[1][0] = b; h->ops[2][0] = c; }

typedef struct { int first_dev_points[128]; int base[129]; } layout_t;
static layout_t L;
static point_t base_trace[128][MAXP / 8]; static int base_np[128];

/* case = (harness, first deviation). index 0 of a harness = the deviation-free schedule + determinism check */
static void sched_case(uint64_t idx, void *ctx)
{
    int hid = 0; while (hid + 1 < NH && (uint64_t)L.base[hid + 1] <= idx) hid++;
    int k = (int)(idx - (uint64_t)L.base[hid]);
    const harness_t *h = &H[hid];
    compute_solo(h);
    explore_failed = 0; n_exec = 0; n_points_total = 0;
    uint64_t got[MAXT];
    if (k == 0) {
        /* determinism: the same schedule executed twice gives the same points and program counters */
        int bad = execute(h, NULL, 0, got); uint64_t h1 = trace_hash; int n1 = npoints;
        int bad2 = execute(h, NULL, 0, got);
        vf_count_transitions(2);
        if (h1 != trace_hash || n1 != npoints) vf_harderr("replay of the deviation-free schedule diverged: %d vs %d points", n1, npoints);
        if (bad || bad2) vf_violation("c16-result-differs-from-solo", "harness %d: even the schedule without any switch gives a digest different from running alone", hid);
        vf_count_eval(1); vf_count_states(1);
        return;
    }
    /* k-th first deviation: find point i and alt */
    int np = base_np[hid], cnt = 0, pi = -1, palt = 0;
    for (int i = 0; i < np && pi < 0; i++) {
        if (base_trace[hid][i].nen < 2) continue;
        int cost = base_trace[hid][i].running_enabled ? 1 : 0;
        int allowed = cost <= B.bound_all || (base_trace[hid][i].interesting && cost <= B.bound_interesting);
        if (!allowed) continue;
        for (int alt = 1; alt < base_trace[hid][i].nen; alt++) { cnt++; if (cnt == k) { pi = i; palt = alt; break; } }
    }
    if (pi < 0) return;
    int *pfx = calloc((size_t)pi + 1, sizeof(int));
    pfx[pi] = palt;
    explore(h, hid, pfx, pi + 1, base_trace[hid][pi].running_enabled ? 1 : 0, base_trace[hid][pi].interesting || !base_trace[hid][pi].running_enabled);
    free(pfx);
    if (explore_failed && fail_text[0]) {
        vf_violation("c16-result-differs-from-solo", "%s; ops: T0=[%s, %s] T1=[%s, %s]", fail_text, body_op_name[h->ops[0][0]], h->nops[0] > 1 ? body_op_name[h->ops[0][1]] : "-",
                     body_op_name[h->ops[1][0]], h->nops[1] > 1 ? body_op_name[h->ops[1][1]] : "-");
        fail_text[0] = 0;
    }
    vf_count_eval(n_exec); vf_count_nontrivial(n_exec); vf_count_states(n_exec); vf_count_libcalls(n_points_total);
    if (vf_want_sample() && !vf_in_confirm && k % 50 == 7)
        vf_sample("harness %d (T0=[%s, %s] T1=[%s, %s]%s): first switch at point %d -> %llu schedules below it, up to %llu points each", hid, body_op_name[h->ops[0][0]],
                  h->nops[0] > 1 ? body_op_name[h->ops[0][1]] : "-", body_op_name[h->ops[1][0]], h->nops[1] > 1 ? body_op_name[h->ops[1][1]] : "-", h->nthreads == 3 ? " + T2" : "", pi,
                  (unsigned long long)n_exec, (unsigned long long)max_points);
}

static void load_interesting(void)
{
    /* program-counter ranges of the functions that touch shared or lazily derived state */
    static const char *names[] = { "_pixman_implementation_lookup_composite", "_pixman_image_validate", "compute_image_info", "_pixman_implementation_lookup_combiner",
                                   "_pixman_implementation_iter_init", "_pixman_choose_implementation", "have_feature", "_pixman_log_error", "get_implementation",
                                   "_pixman_implementation_fill", "_pixman_implementation_blt", "gradient_property_changed", "bits_image_property_changed", "image_property_changed" };
    char exe[600], cmd[700]; ssize_t el = readlink("/proc/self/exe", exe, sizeof exe - 1);
    if (el <= 0) return;
    exe[el] = 0; snprintf(cmd, sizeof cmd, "nm -n -S '%s' 2>/dev/null", exe);
    FILE *p = popen(cmd, "r");
    if (!p) return;
    char line[512];
    while (fgets(line, sizeof line, p)) {
        unsigned long addr, size; char type; char name[256];
        if (sscanf(line, "%lx %lx %c %255s", &addr, &size, &type, name) != 4) continue;
        for (unsigned i = 0; i < sizeof names / sizeof names[0]; i++)
            if (!strcmp(name, names[i]) && n_interesting < 64) { interesting_lo[n_interesting] = addr; interesting_hi[n_interesting] = addr + size; n_interesting++; }
    }
    pclose(p);
}

int main(int argc, char **argv)
{
    vf_init(argc, argv, "C16", "model_checking");
    int th = vf_is_thorough();
    if (th && vf_deadline_s == 1500) vf_deadline_s = 3600;     /* the second bound on the core harnesses alone takes 20-45 minutes depending on load */
    load_interesting();
    B.bound_all = th ? 2 : 1; B.bound_interesting = th ? 3 : 2;
    if (getenv("C16_BOUND_ALL")) B.bound_all = atoi(getenv("C16_BOUND_ALL"));
    if (getenv("C16_BOUND_INT")) B.bound_interesting = atoi(getenv("C16_BOUND_INT"));
    vf_rule = "E3 schedule exploration on the real library: scheduling point = every basic block of libpixman (sanitizer-coverage trace-pc-guard callback); only the baton holder runs; "
              "iterative context bounding: all schedules with at most `bound_all` preemptions anywhere, plus all schedules with at most `bound_interesting` preemptions that all lie inside "
              "the dispatch/validation functions (implementation lookup and fast-path cache, image validation, feature detection; first two visits of each basic block per stay in the "
              "function); thread exits are free switches. A case is one first deviation of one harness and the whole schedule subtree below it. states = schedules executed, "
              "transitions = executions; oracle: every thread's result digest equals its digest when run alone.";
    vf_assume("preemption at basic-block boundaries and sequentially consistent executions only; races inside a block are the free-running ThreadSanitizer pass's subject");
    vf_assume("harnesses of 2 threads x 2 operations (all unordered pairs of 14 operation kinds, each thread in opposite order) and 3 threads x 1 operation");
    if (n_interesting == 0) vf_cap("symbol table not available: no 'interesting' function ranges, only bound_all applies");

    /* Iterating the bound: the space "schedules" takes the tier's harness list at the lower bound (1 everywhere / 2 inside the dispatch functions) and is
     * always run to completion; the thorough tier then repeats the core harness list (the quick tier's) at the next bound (2 / 3). */
    static char b[600]; size_t bl = 0;
    for (int pass = 0; pass < (th ? 2 : 1); pass++) {
        int wide = th && pass == 0;          /* all unordered pairs + 4 triples */
        NH = 0;
        for (int a = 0; a < N_BODY_OPS; a++) for (int bb = a; bb < N_BODY_OPS; bb++) {
            if (!wide && !((a == bb && a != OP_TRAP) || (a == OP_FAST_OVER && (bb == OP_GENERAL_ATOP || bb == OP_SAME_TWICE || bb == OP_SHARED_SRC)) ||
                           (a == OP_GENERAL_ATOP && (bb == OP_GRADIENT || bb == OP_FILL)) || (a == OP_REGION && bb == OP_TRAP) || (a == OP_GRADIENT && bb == OP_SHARED_GRADIENT) || (a == OP_SHARED_TILE_SRC && bb == OP_SHARED_TILE_MASK))) continue;
            add_pair(a, bb);
        }
        if (wide) { add_triple(OP_FAST_OVER, OP_GENERAL_ATOP, OP_SAME_TWICE); add_triple(OP_GENERAL_ATOP, OP_GENERAL_ATOP, OP_GRADIENT); add_triple(OP_SHARED_SRC, OP_SHARED_SRC, OP_FILL); add_triple(OP_REGION, OP_TRAP, OP_FAST_OVER);
                    add_triple(OP_SHARED_CLIPPED_SRC, OP_SHARED_CLIPPED_SRC, OP_SHARED_GRADIENT); add_triple(OP_SHARED_ACCESSOR_SRC, OP_SHARED_ACCESSOR_SRC, OP_SHARED_SRC); }
        else add_triple(OP_FAST_OVER, OP_GENERAL_ATOP, OP_SHARED_SRC);
        B.bound_all = pass ? 2 : 1; B.bound_interesting = pass ? 3 : 2;
        if (getenv("C16_BOUND_ALL")) B.bound_all = atoi(getenv("C16_BOUND_ALL"));
        if (getenv("C16_BOUND_INT")) B.bound_interesting = atoi(getenv("C16_BOUND_INT"));

        /* baseline (no deviation) traces decide the layout of the space */
        uint64_t total = 0;
        for (int hid = 0; hid < NH; hid++) {
            compute_solo(&H[hid]);
            uint64_t got[MAXT];
            execute(&H[hid], NULL, 0, got);
            base_np[hid] = npoints < MAXP / 8 ? npoints : MAXP / 8;
            memcpy(base_trace[hid], trace, sizeof(point_t) * (size_t)base_np[hid]);
            int cnt = 0;
            for (int i = 0; i < base_np[hid]; i++) {
                if (base_trace[hid][i].nen < 2) continue;
                int cost = base_trace[hid][i].running_enabled ? 1 : 0;
                if (cost <= B.bound_all || (base_trace[hid][i].interesting && cost <= B.bound_interesting)) cnt += base_trace[hid][i].nen - 1;
            }
            L.base[hid] = (int)total; total += 1 + (uint64_t)cnt;
            if (getenv("VF_TIMING")) { int ni = 0; for (int i = 0; i < base_np[hid]; i++) ni += base_trace[hid][i].interesting;
                fprintf(stderr, "harness %d: %d threads, %d points in the deviation-free schedule (%d interesting), %d first deviations\n", hid, H[hid].nthreads, npoints, ni, cnt); }
        }
        L.base[NH] = (int)total;
        vf_hang_s = 120;
        vf_space_run(pass ? "schedules-next-bound-core-harnesses" : "schedules", total, sched_case, NULL);
        bl += snprintf(b + bl, sizeof b - bl, "%s%d harnesses (2 threads x 2 ops, 3 threads x 1 op): preemption bound %d at every basic block, %d inside dispatch/validation functions (%d function ranges), %llu first deviations",
                       pass ? "; then " : "", NH, B.bound_all, B.bound_interesting, n_interesting, (unsigned long long)total);
    }
    vf_bounds = b;
    return vf_finish();
}
