/* C13 — gradients paint the stop interpolation at each pixel's geometric parameter; degenerate
 * gradients never crash, hang or read outside the stop array.
 *
 * Engine E1 (bounded-exhaustive enumeration against a reference model, nothing sampled).
 * One case = one gradient image (stop list x geometry x repeat x transform x origin) drawn with
 * PIXMAN_OP_SRC into an 8x4 a8r8g8b8 destination (narrow pipeline) and into an 8x4 rgba_float
 * destination (wide pipeline); every pixel of both is compared with ref_* of c13_ref.h.
 * The safety spaces only demand that the call returns (engine: crash/hang attributed to the index)
 * and that AddressSanitizer stays silent (the stop array incl. its two sentinels is a heap block of
 * the library, so any read at stops[-2] / stops[n+1] lands in an ASan redzone).
 */
#include "vf.h"
#include "c13_ref.h"
#include <pixman.h>

#define W 8
#define H 4
#define FX(v) ((pixman_fixed_t)((v) * 65536.0))

/* ---- alphabets ----------------------------------------------------------------------------- */

/* stop colours: 16 bit a,r,g,b non-premultiplied; two opaque, one half transparent, one fully
 * transparent but coloured (distinguishes interpolation before/after premultiplication) */
static const uint16_t COLS[4][4] = {
    { 0xffff, 0xffff, 0x0000, 0x0000 },
    { 0xffff, 0x0000, 0x8000, 0xffff },
    { 0x8000, 0xffff, 0xffff, 0xffff },
    { 0x0000, 0x0000, 0xffff, 0x4000 },
};
/* stop positions (16.16): 0, 1/4, 1/2, 1/2 (repeated), 3/4, 1 */
static const int32_t POS6[6] = { 0, 0x4000, 0x8000, 0x8000, 0xc000, 0x10000 };

typedef struct { int n; int32_t x[4]; uint8_t c[4]; } stoplist;
static stoplist *LISTS; static int NLISTS[5]; /* NLISTS[k] = number of lists with <= k stops (prefix) */

static void build_lists(void)
{
    LISTS = malloc(sizeof(stoplist) * 8000);
    int cnt = 0;
    for (int n = 1; n <= 4; n++) {
        /* distinct position vectors: subsequences of POS6 of length n */
        int32_t seen[64][4]; int nseen = 0;
        for (int m = 0; m < 64; m++) {
            if (__builtin_popcount(m) != n) continue;
            int32_t v[4]; int k = 0;
            for (int b = 0; b < 6; b++) if (m & (1 << b)) v[k++] = POS6[b];
            int dup = 0;
            for (int s = 0; s < nseen; s++) if (!memcmp(seen[s], v, n * sizeof(int32_t))) dup = 1;
            if (dup) continue;
            memcpy(seen[nseen++], v, n * sizeof(int32_t));
            int ncol = 1 << (2 * n);
            for (int cc = 0; cc < ncol; cc++) {
                stoplist *L = &LISTS[cnt++];
                L->n = n;
                for (int i = 0; i < n; i++) { L->x[i] = v[i]; L->c[i] = (cc >> (2 * i)) & 3; }
            }
        }
        NLISTS[n] = cnt;
    }
}

/* far spaces: the 1..k-stop quarter-grid lists plus a few with closely spaced stops (sharp edges) */
static stoplist *FARLISTS; static int NFAR_GRID, NFAR;
static void build_far_lists(int ngrid)
{
    static const stoplist SHARP[] = {
        { 4, { 0, 0x8000 - 0x400, 0x8000, 0x10000 }, { 0, 0, 1, 1 } },   /* stripes with a 1/64-wide edge */
        { 2, { 0, 0x400 }, { 0, 1 } },                                   /* 1/64 ramp, then wrap-around ramp back */
        { 2, { 0x8000 - 0x100, 0x8000 }, { 2, 0 } },                     /* 1/256-wide edge */
        { 3, { 0, 0x1000, 0x10000 }, { 1, 0, 1 } },                      /* 1/16 */
    };
    int nsharp = (int)(sizeof SHARP / sizeof SHARP[0]);
    FARLISTS = malloc(sizeof(stoplist) * (ngrid + nsharp));
    memcpy(FARLISTS, LISTS, sizeof(stoplist) * ngrid);
    memcpy(FARLISTS + ngrid, SHARP, sizeof SHARP);
    NFAR_GRID = ngrid; NFAR = ngrid + nsharp;
}

/* safety stop lists: unsorted, out of range, extreme */
typedef struct { int n; int32_t x[5]; } rawlist;
static const rawlist SAFE_LISTS[] = {
    { 1, { 0x8000 } },
    { 2, { 0x10000, 0 } },                                   /* descending */
    { 3, { 0x8000, 0x4000, 0xc000 } },                       /* unsorted */
    { 3, { 0x8000, 0x8000, 0x8000 } },                       /* all equal */
    { 2, { -0x10000, 0x20000 } },                            /* out of range */
    { 2, { 0x20000, -0x10000 } },                            /* out of range, descending */
    { 2, { INT32_MIN, INT32_MAX } },
    { 2, { INT32_MAX, INT32_MIN } },
    { 1, { INT32_MAX } },
    { 1, { INT32_MIN } },
    { 4, { 0, 0x10000, 0, 0x10000 } },                       /* zig-zag */
    { 5, { 0x10000, 0xc000, 0x8000, 0x4000, 0 } },           /* strictly descending */
    { 3, { 0x7fff0000, 1, -0x7fff0000 } },
    { 2, { 0, 1 } },                                         /* one ulp apart */
};
#define N_SAFE_LISTS ((int)(sizeof SAFE_LISTS / sizeof SAFE_LISTS[0]))

/* linear: ordered pairs of a 4-point set; i == j (coincident) is safety-only */
static const double LPTS[4][2] = { { 0.5, 0.5 }, { 4.5, 0.5 }, { 1, 3 }, { 6, 2.5 } };
/* extra linear end points, thorough tier: vertical, short span (many periods), long span, off-grid */
static const double LPAIRS_X[][4] = {
    { 2.5, 0, 2.5, 4 },        /* vertical: t constant along a row (fill_pixel path) */
    { 3, 1, 3.5, 1 },          /* span 1/2: many periods across the image */
    { -20, -10, 40, 30 },      /* long span: t varies slowly */
    { 0.3125, 0.1875, 5.0625, 2.4375 },
};
#define N_LPAIRS_X 4

/* radial: c1x c1y r1 c2x c2y r2 */
static const double RGEO[][6] = {
    { 4, 2, 0, 4, 2, 3 },          /* concentric from a point (a < 0) */
    { 4, 2, 1, 4, 2, 3 },          /* concentric ring */
    { 2, 2, 1, 5, 2, 2 },          /* separate growing cone (a > 0) */
    { 3, 2, 0.5, 4, 2, 3 },        /* one inside the other, eccentric (a < 0) */
    { 3, 2, 1, 4, 2, 2 },          /* internally touching (a = 0) */
    { 2, 2, 1, 5, 2, 1 },          /* cylinder: equal radii, distinct centres */
    { 2, 2, 2, 6, 2, 0.5 },        /* shrinking cone */
    { 1, 1.5, 0, 6, 1.5, 0 },      /* both radii zero, distinct centres: only the axis can be painted */
    { 4, 2, 2, 4, 2, 2 },          /* identical circles */
    { 4, 2, 0, 4, 2, 0 },          /* identical points */
    { 4, 2, 3, 4, 2, 1 },          /* concentric shrinking (a < 0) */
    { 3.5, 1.5, 0, 3.5, 1.5, 2 },  /* centre on a pixel centre */
    /* thorough only from here */
    { 4, 2, 2, 5, 2, 1 },          /* internally touching, shrinking (a = 0) */
    { 1, 1, 0, 5, 3, 1.5 },        /* cone from a point, oblique axis */
    { 0.3125, 0.1875, 0.4375, 5.0625, 2.4375, 1.5625 },  /* off-grid */
    { 4, 2, 0.5, 4.25, 2, 0.5 },   /* cylinder, centres close */
    { 2, 2, 1.5, 4, 2, 3.5 },      /* externally: |cd| = dr -> a = 0 growing */
};
#define N_RGEO_QUICK 12
#define N_RGEO_ALL   ((int)(sizeof RGEO / sizeof RGEO[0]))

/* conical: centre x angle (degrees) */
static const double CCEN[][2] = { { 4, 2 }, { 3.5, 1.5 }, { -1, 5 } };
static const double CANG[] = { 0, 90, 360, -45, -270, -630.5, 180.5, 725 };       /* incl. angles below -180 and beyond one turn */
#define N_CCEN 3
#define N_CANG_QUICK 6
#define N_CANG_ALL 8

/* transforms */
enum { T_NONE, T_SCALE2, T_TRANS_HALF, T_ROT90, T_PROJ, T_W2, T_SHEAR, T_PROJ2,
       T_SING_ZERO, T_SING_RANK1, T_SING_W0, T_SING_WCROSS, T_SING_WNEG, T_HUGE, T_HUGE2, T_KEYSTONE, T_COUNT };
static const char *TNAME[T_COUNT] = { "none", "scale2", "translate-half", "rot90", "projective(w=1+x/32)", "w=2 (scale 1/2)",
    "shear", "projective(w=1+x/64+y/32)", "singular-zero", "singular-rank1", "singular-w=0", "singular-w-crosses-0",
    "w-negative", "huge-scale(overflow)", "scale4096", "keystone(w=1+y/32, w does not depend on x)" };
static const double TM[T_COUNT][9] = {
    { 1, 0, 0, 0, 1, 0, 0, 0, 1 },
    { 2, 0, 0, 0, 2, 0, 0, 0, 1 },
    { 1, 0, 0.5, 0, 1, 0.5, 0, 0, 1 },
    { 0, -1, 4, 1, 0, 0, 0, 0, 1 },               /* rotate by 90 degrees, then shift x by 4 */
    { 1, 0, 0, 0, 1, 0, 1.0 / 32, 0, 1 },
    { 1, 0, 0, 0, 1, 0, 0, 0, 2 },
    { 1, 0.5, -1, 0.25, 1, 0, 0, 0, 1 },
    { 1, 0, 0, 0, 1, 0, 1.0 / 64, 1.0 / 32, 1 },
    { 0, 0, 0, 0, 0, 0, 0, 0, 0 },
    { 1, 0, 0, 1, 0, 0, 0, 0, 1 },
    { 1, 0, 0, 0, 1, 0, 0, 0, 0 },
    { 1, 0, 0, 0, 1, 0, 1, 0, -2.5 },             /* w = 0 at x = 2 */
    { 1, 0, 0, 0, 1, 0, 0, 0, -1 },
    { 16384, 0, 0, 0, 16384, 0, 0, 0, 1 },        /* transform_point_3d overflows */
    { 4096, 0, 0, 0, 4096, 0, 0, 0, 1 },          /* forward differencing leaves the 16.16 range */
    { 1, 0, 0, 0, 1, 0, 0, 1.0 / 32, 1 },         /* w changes from row to row only: a horizontal gradient is NOT the same on every row */
};
static const int TR_QUICK[]    = { T_NONE, T_SCALE2, T_ROT90, T_PROJ, T_W2, T_KEYSTONE };
static const int TR_THOROUGH[] = { T_NONE, T_SCALE2, T_TRANS_HALF, T_ROT90, T_PROJ, T_W2, T_SHEAR, T_PROJ2, T_KEYSTONE };
static const int TR_SAFETY[]   = { T_NONE, T_PROJ, T_SING_ZERO, T_SING_RANK1, T_SING_W0, T_SING_WCROSS, T_SING_WNEG, T_HUGE, T_HUGE2 };

static const int REPS[4] = { PIXMAN_REPEAT_NONE, PIXMAN_REPEAT_NORMAL, PIXMAN_REPEAT_PAD, PIXMAN_REPEAT_REFLECT };
static const char *REPNAME[4] = { "none", "normal", "pad", "reflect" }; /* indexed by pixman_repeat_t */

/* origins (src_x, src_y of the composite request = gradient coordinate of destination pixel 0,0) */
static const int ORG[2][2] = { { 0, 0 }, { -3, 1 } };
/* far origins: the same gradients drawn thousands of pixels (= thousands of periods) away from p1 / c1 */
static const int ORG_FAR[6][2] = { { 128, 1 }, { 512, 1 }, { 2048, 1 }, { 8192, 1 }, { 12000, 1 }, { -8192, 1 } }; /* x2 stays inside 16.16 */
/* far geometries: short periods */
static const double FAR_LIN[4][6] = { { 3, 1, 3.5, 1 }, { 0.5, 0.5, 4.5, 0.5 }, { 1, 3, 6, 2.5 }, { 3.5, 1, 3, 1 } };
static const double FAR_RAD[4][6] = { { 4, 2, 0, 4, 2, 0.5 }, { 2, 2, 1, 5, 2, 1 }, { 3, 2, 1, 4, 2, 2 }, { 4, 2, 0.25, 4.5, 2, 0.5 } };
static const int TR_FAR[] = { 0 /*T_NONE*/, 1 /*T_SCALE2*/ };

enum { K_LINEAR, K_RADIAL, K_CONICAL };
static const char *KNAME[3] = { "linear", "radial", "conical" };

/* ---- one gradient request ------------------------------------------------------------------- */

typedef struct {
    int kind;
    int nstops; pixman_gradient_stop_t stops[8];
    double g[6];            /* linear p1x p1y p2x p2y | radial c1x c1y r1 c2x c2y r2 | conical cx cy angle */
    int repeat;             /* pixman_repeat_t */
    int tr;                 /* transform id */
    int ox, oy;
    int prehist;            /* 1: the image was first drawn from with ANOTHER repeat mode, then switched to `repeat` (the derived stop table must be refreshed) */
    int far;                /* drawn from a far origin (separate spaces, separate key for periodic repeats) */
    int listid;
} request;

static void req_str(const request *q, char *buf, size_t sz)
{
    int o = snprintf(buf, sz, "%s ", KNAME[q->kind]);
    if (q->kind == K_LINEAR) o += snprintf(buf + o, sz - o, "p1=(%g,%g) p2=(%g,%g)", q->g[0], q->g[1], q->g[2], q->g[3]);
    else if (q->kind == K_RADIAL) o += snprintf(buf + o, sz - o, "c1=(%g,%g) r1=%g c2=(%g,%g) r2=%g", q->g[0], q->g[1], q->g[2], q->g[3], q->g[4], q->g[5]);
    else o += snprintf(buf + o, sz - o, "centre=(%g,%g) angle=%g", q->g[0], q->g[1], q->g[2]);
    o += snprintf(buf + o, sz - o, " repeat=%s%s transform=%s origin=(%d,%d) stops[a,r,g,b]=", REPNAME[q->repeat], q->prehist ? "(set after a first use with another repeat mode)" : "", TNAME[q->tr], q->ox, q->oy);
    for (int i = 0; i < q->nstops && o < (int)sz - 60; i++)
        o += snprintf(buf + o, sz - o, "%s%g:%04x,%04x,%04x,%04x", i ? " " : "", q->stops[i].x / 65536.0,
                      q->stops[i].color.alpha, q->stops[i].color.red, q->stops[i].color.green, q->stops[i].color.blue);
}

static pixman_image_t *req_image(const request *q)
{
    pixman_image_t *img;
    if (q->kind == K_LINEAR) {
        pixman_point_fixed_t p1 = { FX(q->g[0]), FX(q->g[1]) }, p2 = { FX(q->g[2]), FX(q->g[3]) };
        img = pixman_image_create_linear_gradient(&p1, &p2, q->stops, q->nstops);
    } else if (q->kind == K_RADIAL) {
        pixman_point_fixed_t c1 = { FX(q->g[0]), FX(q->g[1]) }, c2 = { FX(q->g[3]), FX(q->g[4]) };
        img = pixman_image_create_radial_gradient(&c1, &c2, FX(q->g[2]), FX(q->g[5]), q->stops, q->nstops);
    } else {
        pixman_point_fixed_t c = { FX(q->g[0]), FX(q->g[1]) };
        img = pixman_image_create_conical_gradient(&c, FX(q->g[2]), q->stops, q->nstops);
    }
    if (!img) return NULL;
    if (q->prehist) {
        static const pixman_repeat_t other[4] = { PIXMAN_REPEAT_PAD, PIXMAN_REPEAT_REFLECT, PIXMAN_REPEAT_NORMAL, PIXMAN_REPEAT_NONE };   /* indexed by pixman_repeat_t: NONE<-PAD, NORMAL<-REFLECT, PAD<-NORMAL, REFLECT<-NONE */
        uint32_t one[2] = { 0, 0 }; pixman_image_t *scratch = pixman_image_create_bits(PIXMAN_a8r8g8b8, 2, 1, one, 8);
        pixman_image_set_repeat(img, other[q->repeat & 3]);
        pixman_image_composite32(PIXMAN_OP_SRC, img, NULL, scratch, q->ox, q->oy, 0, 0, 0, 0, 2, 1);
        pixman_image_unref(scratch);
    }
    pixman_image_set_repeat(img, (pixman_repeat_t)q->repeat);
    if (q->tr != T_NONE) {
        pixman_transform_t t;
        for (int i = 0; i < 3; i++) for (int j = 0; j < 3; j++) t.matrix[i][j] = FX(TM[q->tr][3 * i + j]);
        pixman_image_set_transform(img, &t);
    }
    return img;
}

/* draw the request into both destinations; returns 0 if an image could not be created */
static int req_draw(const request *q, uint32_t narrow[W * H], float wide[W * H * 4])
{
    pixman_image_t *src = req_image(q);
    if (!src) return 0;
    memset(narrow, 0, sizeof(uint32_t) * W * H);
    memset(wide, 0, sizeof(float) * W * H * 4);
    pixman_image_t *dn = pixman_image_create_bits(PIXMAN_a8r8g8b8, W, H, narrow, W * 4);
    pixman_image_t *dw = pixman_image_create_bits(PIXMAN_rgba_float, W, H, (uint32_t *)wide, W * 16);
    if (!dn || !dw) { if (dn) pixman_image_unref(dn); if (dw) pixman_image_unref(dw); pixman_image_unref(src); return 0; }
    pixman_image_composite32(PIXMAN_OP_SRC, src, NULL, dn, q->ox, q->oy, 0, 0, 0, 0, W, H);
    pixman_image_composite32(PIXMAN_OP_SRC, src, NULL, dw, q->ox, q->oy, 0, 0, 0, 0, W, H);
    vf_count_libcalls(2);
    {
        /* the same request with a mask that masks nothing (a8, every pixel 0xff): the gradient iterators are handed the mask scanline and
         * may skip pixels it zeroes; with this mask both pipelines must deliver exactly the unmasked picture */
        static uint32_t n2[W * H]; static float w2[W * H * 4]; static uint8_t mpix[H][(W + 3) & ~3];
        memset(n2, 0, sizeof n2); memset(w2, 0, sizeof w2); memset(mpix, 0xff, sizeof mpix);
        pixman_image_t *m = pixman_image_create_bits(PIXMAN_a8, W, H, (uint32_t *)mpix, (W + 3) & ~3);
        pixman_image_t *dn2 = pixman_image_create_bits(PIXMAN_a8r8g8b8, W, H, n2, W * 4);
        pixman_image_t *dw2 = pixman_image_create_bits(PIXMAN_rgba_float, W, H, (uint32_t *)w2, W * 16);
        if (m && dn2 && dw2) {
            pixman_image_composite32(PIXMAN_OP_SRC, src, m, dn2, q->ox, q->oy, 0, 0, 0, 0, W, H);
            pixman_image_composite32(PIXMAN_OP_SRC, src, m, dw2, q->ox, q->oy, 0, 0, 0, 0, W, H);
            vf_count_libcalls(2);
            int bn = memcmp(n2, narrow, sizeof n2) != 0, bw = memcmp(w2, wide, sizeof w2) != 0;
            if (bn || bw) {
                char rs[400], key[64]; req_str(q, rs, sizeof rs);
                int at = 0;
                if (bn) { for (int i = 0; i < W * H; i++) if (n2[i] != narrow[i]) { at = i; break; } }
                else { for (int i = 0; i < W * H * 4; i++) if (memcmp(&w2[i], &wide[i], 4)) { at = i / 4; break; } }
                snprintf(key, sizeof key, "c13-%s-masked-by-all-ones-differs-%s", KNAME[q->kind], bn ? "narrow" : "wide");
                vf_violation(key, "%s: drawn through an a8 mask whose every pixel is 0xff, pixel (%d,%d) of the %s destination differs from the unmasked drawing (%s)", rs, at % W, at / W,
                             bn ? "a8r8g8b8" : "rgba_float", bn ? "8-bit pipeline" : "float pipeline");
            }
        }
        if (m) pixman_image_unref(m);
        if (dn2) pixman_image_unref(dn2);
        if (dw2) pixman_image_unref(dw2);
    }
    pixman_image_unref(dn); pixman_image_unref(dw); pixman_image_unref(src);
    if (vf_asan_flag) {   /* the engine would report key "asan"; give it the decoded case and a narrower key */
        char rs[400], key[64]; req_str(q, rs, sizeof rs);
        snprintf(key, sizeof key, "c13-asan-%s", KNAME[q->kind]);
        vf_violation(key, "%s: AddressSanitizer reported %s while drawing", rs, vf_asan_desc);
    }
    return 1;
}

/* ---- colour oracle ---------------------------------------------------------------------------- */

typedef struct { int skip; int transparent; int nh; c13_hull h[4]; long double t[4]; } accept_t;

static void ref_pixel(const request *q, const c13_grad *g, const long double m[3][3], int px, int py, accept_t *a)
{
    long double x, y, t;
    a->skip = 0; a->transparent = 0; a->nh = 0;
    if (!ref_map_point(m, q->tr != T_NONE, px + q->ox, py + q->oy, &x, &y)) { a->skip = 1; return; }
    if (q->kind == K_LINEAR) {
        if (!ref_linear_t(q->g[0], q->g[1], q->g[2], q->g[3], x, y, &t)) { a->skip = 1; return; }
        a->t[0] = t; a->nh = 1;
    } else if (q->kind == K_CONICAL) {
        if (!ref_conical_t(q->g[0], q->g[1], q->g[2], x, y, &t)) { a->skip = 1; return; }
        a->t[a->nh++] = t;
        /* t is an angle: within D of the seam 1 == 0 either representative may be used */
        if (t >= 1.0L - C13_D) a->t[a->nh++] = t - 1.0L;
        if (t <= C13_D) a->t[a->nh++] = t + 1.0L;
    } else {
        c13_radial_out r;
        if (!ref_radial(q->g[0], q->g[1], q->g[2], q->g[3], q->g[4], q->g[5], g->repeat, x, y, &r)) { a->skip = 1; return; }
        a->transparent = r.transparent;
        for (int i = 0; i < r.nt; i++) a->t[a->nh++] = r.t[i];
    }
    for (int i = 0; i < a->nh; i++) ref_hull(g, a->t[i], &a->h[i]);
}

static int accept_px(const accept_t *a, const long double got[4], int is_zero)
{
    if (a->skip) return 1;
    if (a->transparent && is_zero) return 1;
    for (int i = 0; i < a->nh; i++) {
        int ok = 1;
        for (int k = 0; k < 4; k++) if (got[k] < a->h[i].lo[k] - 1.0L || got[k] > a->h[i].hi[k] + 1.0L) ok = 0;
        if (ok) return 1;
    }
    return 0;
}

static void describe_accept(const accept_t *a, char *buf, size_t sz)
{
    int o = 0; buf[0] = 0;
    if (a->transparent) o += snprintf(buf + o, sz - o, "{transparent (exactly 0)} ");
    for (int i = 0; i < a->nh && o < (int)sz - 150; i++)
        o += snprintf(buf + o, sz - o, "{t=%.9Lf: a[%.3Lf,%.3Lf] r[%.3Lf,%.3Lf] g[%.3Lf,%.3Lf] b[%.3Lf,%.3Lf] +-1} ", a->t[i],
                      a->h[i].lo[0], a->h[i].hi[0], a->h[i].lo[1], a->h[i].hi[1], a->h[i].lo[2], a->h[i].hi[2], a->h[i].lo[3], a->h[i].hi[3]);
    if (!a->transparent && !a->nh) snprintf(buf + o, sz - o, "(nothing)");
}

static int chan_diff(uint32_t a, uint32_t b)
{
    int m = 0;
    for (int sh = 0; sh < 32; sh += 8) { int d = (int)((a >> sh) & 0xff) - (int)((b >> sh) & 0xff); if (d < 0) d = -d; if (d > m) m = d; }
    return m;
}

static void check_colour(const request *q)
{
    uint32_t narrow[W * H]; float wide[W * H * 4];
    char rs[400];
    if (!req_draw(q, narrow, wide)) { req_str(q, rs, sizeof rs); vf_violation("c13-create-failed", "image creation failed for %s", rs); return; }
    if (vf_failed()) return;

    c13_grad g; g.n = q->nstops; g.repeat = q->repeat;
    for (int i = 0; i < q->nstops; i++) {
        g.s[i].x = q->stops[i].x / 65536.0L;
        g.s[i].c[0] = q->stops[i].color.alpha / 65535.0L; g.s[i].c[1] = q->stops[i].color.red / 65535.0L;
        g.s[i].c[2] = q->stops[i].color.green / 65535.0L; g.s[i].c[3] = q->stops[i].color.blue / 65535.0L;
    }
    long double m[3][3];
    for (int i = 0; i < 3; i++) for (int j = 0; j < 3; j++) m[i][j] = FX(TM[q->tr][3 * i + j]) / 65536.0L;

    int compared = 0;
    uint8_t single_valued[W * H]; memset(single_valued, 0, sizeof single_valued);
    for (int py = 0; py < H && !vf_failed(); py++)
        for (int px = 0; px < W && !vf_failed(); px++) {
            accept_t a; ref_pixel(q, &g, m, px, py, &a);
            if (a.skip) continue;
            /* exactly on a discontinuity (coincident stops, period boundary, admissibility flip) the statement does not fix the side and the
             * unmodified library itself picks it depending on the direction the scanline approaches it from: only pixels with a single
             * accepted hull take part in the position-independence comparison below */
            {
                int sv = (a.nh == 1 && !a.transparent) || (a.nh == 0 && a.transparent);
                /* the accepted hull itself must be narrow: a hull spanning both sides of a colour jump is a discontinuity too */
                if (a.nh == 1) for (int k = 0; k < 4; k++) if (a.h[0].hi[k] - a.h[0].lo[k] > 1.0L) sv = 0;
                single_valued[py * W + px] = (uint8_t)sv;
            }
            compared++;
            uint32_t p = narrow[py * W + px];
            long double gn[4] = { p >> 24, (p >> 16) & 0xff, (p >> 8) & 0xff, p & 0xff };
            const float *f = &wide[(py * W + px) * 4];     /* memory order r g b a */
            long double gw[4] = { 255.0L * f[3], 255.0L * f[0], 255.0L * f[1], 255.0L * f[2] };
            int okn = accept_px(&a, gn, p == 0);
            int okw = accept_px(&a, gw, f[0] == 0 && f[1] == 0 && f[2] == 0 && f[3] == 0) &&
                      f[0] == f[0] && f[1] == f[1] && f[2] == f[2] && f[3] == f[3];
            if (!okn || !okw) {
                char key[64], acc[900];
                req_str(q, rs, sizeof rs); describe_accept(&a, acc, sizeof acc);
                snprintf(key, sizeof key, "c13-%s-%s-%s", KNAME[q->kind], REPNAME[q->repeat], okn ? "wide" : "narrow");
                if (q->far && (q->repeat == PIXMAN_REPEAT_NORMAL || q->repeat == PIXMAN_REPEAT_REFLECT)) {
                    /* many periods away from the origin: one key for both pipelines and all geometries */
                    snprintf(key, sizeof key, "c13-periodic-repeat-far-t-precision");
                    /* left_x of the shifted interval equals INT32_MIN for t in [-32768, -32767): distinct defect */
                    for (int i = 0; i < a.nh; i++)
                        if (a.t[i] >= -32768.0L - C13_D && a.t[i] < -32767.0L)
                            snprintf(key, sizeof key, "c13-periodic-repeat-t-minus-32768-sentinel-confusion");
                }
                if (!okn)
                    vf_violation(key, "%s: pixel (%d,%d) narrow a8r8g8b8 got %08x (a=%d r=%d g=%d b=%d, premultiplied), accepted: %s",
                                 rs, px, py, p, (int)gn[0], (int)gn[1], (int)gn[2], (int)gn[3], acc);
                else
                    vf_violation(key, "%s: pixel (%d,%d) wide rgba_float got a=%.4Lf r=%.4Lf g=%.4Lf b=%.4Lf (x255, premultiplied), accepted: %s",
                                 rs, px, py, gw[0], gw[1], gw[2], gw[3], acc);
            }
            if (vf_verbose && px == 0) { char acc[900]; describe_accept(&a, acc, sizeof acc); printf("   row %d px0 got %08x accepted %s\n", py, p, acc); }
        }

    /* position independence (needs no reference): a pixel's colour is a function of its own parameter t only, so fetching the
     * image column by column (each pixel is then the first of its scanline fetch) must reproduce the full-width fetch bit for bit.
     * This is what separates "took the other side of a discontinuity" (accepted above) from "depends on what was fetched before".
     * The library steps t incrementally along a scanline, so the two fetches may differ in the last bit: each is within one 8-bit
     * step of the true colour (the statement's tolerance), hence they must be within two steps of each other. */
    if (!vf_failed() && !q->far) {
        pixman_image_t *src = req_image(q);
        if (src) {
            uint32_t cols[W * H]; memset(cols, 0, sizeof cols);
            pixman_image_t *dn = pixman_image_create_bits(PIXMAN_a8r8g8b8, W, H, cols, W * 4);
            for (int px = 0; px < W; px++) pixman_image_composite32(PIXMAN_OP_SRC, src, NULL, dn, q->ox + px, q->oy, 0, 0, px, 0, 1, H);
            vf_count_libcalls(W);
            pixman_image_unref(dn); pixman_image_unref(src);
            for (int i = 0; i < W * H; i++) if (single_valued[i] && chan_diff(cols[i], narrow[i]) > 2) {   /* each is within one step of the true colour, so within two of each other */
                char key[64]; req_str(q, rs, sizeof rs);
                snprintf(key, sizeof key, "c13-%s-depends-on-scanline-start", KNAME[q->kind]);
                vf_violation(key, "%s: pixel (%d,%d) is %08x when the whole row is fetched but %08x when fetched on its own (same pixel, same t; more than two 8-bit steps apart)", rs, i % W, i / W, narrow[i], cols[i]);
                break;
            }
        }
    }

    /* evidence */
    int distinct = 0; uint32_t seen[W * H];
    for (int i = 0; i < W * H; i++) { int j; for (j = 0; j < distinct; j++) if (seen[j] == narrow[i]) break; if (j == distinct) seen[distinct++] = narrow[i]; }
    vf_count_eval(1);
    if (distinct >= 3) vf_count_nontrivial(1);
    if (!vf_in_confirm) {
        vf_outcome(vf_hash64(narrow, sizeof narrow, 13));
        if (distinct >= 6 && vf_want_sample()) {
            req_str(q, rs, sizeof rs);
            vf_sample("%s -> %d pixels compared in both pipelines, %d distinct values, row1 = %08x %08x %08x %08x %08x %08x %08x %08x",
                      rs, compared, distinct, narrow[8], narrow[9], narrow[10], narrow[11], narrow[12], narrow[13], narrow[14], narrow[15]);
        }
    }
    if (vf_verbose) {
        req_str(q, rs, sizeof rs); printf("   %s\n", rs);
        for (int py = 0; py < H; py++) { printf("   "); for (int px = 0; px < W; px++) printf("%08x ", narrow[py * W + px]); printf("\n"); }
    }
}

/* ---- case functions --------------------------------------------------------------------------- */

typedef struct {
    int kind;
    int nlists;                  /* colour: prefix of LISTS; safety: N_SAFE_LISTS */
    int ngeo;                    /* number of geometries */
    int ntr; const int *trs;
    int norg;
    int safety;                  /* 1: safety alphabets, 2: far alphabets */
    int dims[5];
} cctx;

static void set_geometry(request *q, int kind, int gi, int safety)
{
    q->kind = kind;
    memset(q->g, 0, sizeof q->g);
    if (kind == K_LINEAR) {
        if (safety) {          /* 4 coincident + one extreme pair */
            if (gi < 4) { q->g[0] = q->g[2] = LPTS[gi][0]; q->g[1] = q->g[3] = LPTS[gi][1]; }
            else if (gi == 4) { q->g[0] = -32768; q->g[1] = -32768; q->g[2] = 32767; q->g[3] = 32767; }
            else if (gi == 5) { q->g[0] = 0; q->g[1] = 0; q->g[2] = 1.0 / 65536; q->g[3] = 0; }
            else { q->g[0] = LPTS[0][0]; q->g[1] = LPTS[0][1]; q->g[2] = LPTS[3][0]; q->g[3] = LPTS[3][1]; }
        } else if (gi < 12) {  /* ordered pairs i != j */
            int i = gi / 3, j = gi % 3; if (j >= i) j++;
            q->g[0] = LPTS[i][0]; q->g[1] = LPTS[i][1]; q->g[2] = LPTS[j][0]; q->g[3] = LPTS[j][1];
        } else memcpy(q->g, LPAIRS_X[gi - 12], 4 * sizeof(double));
    } else if (kind == K_RADIAL) {
        if (safety && gi >= N_RGEO_ALL) {
            static const double X[][6] = {
                { 0, 0, 32767, 0, 0, 32767 }, { -32768, -32768, 0, 32767, 32767, 32767 }, { 4, 2, 1.0 / 65536, 4, 2, 0 },
                { 4, 2, 0, 4 + 1.0 / 65536, 2, 1.0 / 65536 }, { 4, 2, 181, 132, 130, 0 } };
            memcpy(q->g, X[gi - N_RGEO_ALL], sizeof q->g);
        } else memcpy(q->g, RGEO[gi], sizeof q->g);
    } else {
        if (safety && gi >= N_CCEN * N_CANG_ALL) {
            static const double X[][3] = { { 3.5, 1.5, 32767 }, { 3.5, 1.5, -32768 }, { 32767, -32768, 0 }, { 0.5, 0.5, 1.0 / 65536 } };
            memcpy(q->g, X[gi - N_CCEN * N_CANG_ALL], 3 * sizeof(double));
        } else { q->g[0] = CCEN[gi % N_CCEN][0]; q->g[1] = CCEN[gi % N_CCEN][1]; q->g[2] = CANG[gi / N_CCEN]; }
    }
}

static void colour_case(uint64_t idx, void *vctx)
{
    const cctx *c = vctx;
    int d[5]; vf_decode(idx, c->dims, 5, d);     /* origin, transform, repeat, geometry, stop list */
    request q; memset(&q, 0, sizeof q);
    if (c->safety == 2) {
        q.kind = c->kind; q.far = 1;
        memcpy(q.g, c->kind == K_LINEAR ? FAR_LIN[d[3]] : FAR_RAD[d[3]], sizeof q.g);
        q.ox = ORG_FAR[d[0]][0]; q.oy = ORG_FAR[d[0]][1];
    } else {
        set_geometry(&q, c->kind, d[3], 0);
        q.ox = ORG[d[0] % c->norg][0]; q.oy = ORG[d[0] % c->norg][1]; q.prehist = d[0] / c->norg;
    }
    q.tr = c->trs[d[1]];
    q.repeat = REPS[d[2]];
    const stoplist *L = c->safety == 2 ? &FARLISTS[d[4]] : &LISTS[d[4]];
    q.listid = d[4];
    q.nstops = L->n;
    for (int i = 0; i < L->n; i++) {
        q.stops[i].x = L->x[i];
        q.stops[i].color.alpha = COLS[L->c[i]][0]; q.stops[i].color.red = COLS[L->c[i]][1];
        q.stops[i].color.green = COLS[L->c[i]][2]; q.stops[i].color.blue = COLS[L->c[i]][3];
    }
    check_colour(&q);
}

static void safety_case(uint64_t idx, void *vctx)
{
    const cctx *c = vctx;
    int d[5]; vf_decode(idx, c->dims, 5, d);
    request q; memset(&q, 0, sizeof q);
    set_geometry(&q, c->kind, d[3], 1);
    q.ox = ORG[d[0]][0]; q.oy = ORG[d[0]][1];
    q.tr = c->trs[d[1]];
    q.repeat = REPS[d[2]];
    const rawlist *L = &SAFE_LISTS[d[4]];
    q.nstops = L->n;
    for (int i = 0; i < L->n; i++) {
        int ci = (i + d[4]) & 3;
        q.stops[i].x = L->x[i];
        q.stops[i].color.alpha = COLS[ci][0]; q.stops[i].color.red = COLS[ci][1];
        q.stops[i].color.green = COLS[ci][2]; q.stops[i].color.blue = COLS[ci][3];
    }
    uint32_t narrow[W * H]; float wide[W * H * 4];
    if (!req_draw(&q, narrow, wide)) { char rs[400]; req_str(&q, rs, sizeof rs); vf_violation("c13-create-failed", "image creation failed for %s", rs); return; }
    if (vf_failed()) return;
    /* oracle: we got here (no crash, no hang) and ASan was silent (checked in req_draw) */
    int distinct = 0; uint32_t seen[W * H];
    for (int i = 0; i < W * H; i++) { int j; for (j = 0; j < distinct; j++) if (seen[j] == narrow[i]) break; if (j == distinct) seen[distinct++] = narrow[i]; }
    vf_count_eval(1);
    if (distinct >= 3) vf_count_nontrivial(1);
    if (!vf_in_confirm) vf_outcome(vf_hash64(narrow, sizeof narrow, 14));
    if (vf_verbose) {
        char rs[400]; req_str(&q, rs, sizeof rs); printf("   %s\n", rs);
        for (int py = 0; py < H; py++) { printf("   "); for (int px = 0; px < W; px++) printf("%08x ", narrow[py * W + px]); printf("\n"); }
    }
}

/* n_stops <= 0 must be refused, not crash */
static void refuse_case(uint64_t idx, void *vctx)
{
    (void)vctx;
    pixman_gradient_stop_t s[1] = { { 0, { 0, 0, 0, 0 } } };
    pixman_point_fixed_t p1 = { 0, 0 }, p2 = { 0x10000, 0 };
    int n = idx % 2 ? -1 : 0; int kind = (int)(idx / 2);
    pixman_image_t *img = kind == 0 ? pixman_image_create_linear_gradient(&p1, &p2, s, n)
                        : kind == 1 ? pixman_image_create_radial_gradient(&p1, &p2, 0, 0x10000, s, n)
                                    : pixman_image_create_conical_gradient(&p1, 0, s, n);
    vf_count_eval(1); vf_count_libcalls(1);
    if (!vf_in_confirm) vf_outcome(vf_mix(77, img != NULL));
    if (img) { pixman_image_unref(img); vf_violation("c13-zero-stops-accepted", "%s gradient with n_stops=%d was created", KNAME[kind], n); }
}

static void run_colour(const char *name, int kind, int nlists, int ngeo, int ntr, const int *trs, int norg)
{
    cctx c = { kind, nlists, ngeo, ntr, trs, norg, 0, { norg * 2, ntr, 4, ngeo, nlists } };     /* x2: fresh image / image used with another repeat mode before */
    vf_space_run(name, vf_product(c.dims, 5), colour_case, &c);
}
static void run_far(const char *name, int kind, int nlists)
{
    cctx c = { kind, nlists, 4, 2, TR_FAR, 6, 2, { 6, 2, 4, 4, nlists } };
    vf_space_run(name, vf_product(c.dims, 5), colour_case, &c);
}
static void run_safety(const char *name, int kind, int ngeo, int ntr, const int *trs)
{
    cctx c = { kind, N_SAFE_LISTS, ngeo, ntr, trs, 2, 1, { 2, ntr, 4, ngeo, N_SAFE_LISTS } };
    vf_space_run(name, vf_product(c.dims, 5), safety_case, &c);
}

/* ASan in recover mode reports every faulting PC only once per process (suppress_equal_pcs=1 by
 * default), so the engine's confirmation re-execution of a case could never see the report again.
 * Options are read before main(), hence: extend ASAN_OPTIONS and re-exec once. */
static void ensure_asan_reports_repeat(char **argv)
{
#ifdef VF_ASAN
    const char *o = getenv("ASAN_OPTIONS");
    if (o && strstr(o, "suppress_equal_pcs=0")) return;
    char buf[1024];
    snprintf(buf, sizeof buf, "%s%ssuppress_equal_pcs=0", o ? o : "", o && *o ? ":" : "");
    setenv("ASAN_OPTIONS", buf, 1);
    execv("/proc/self/exe", argv);
    perror("execv"); exit(2);
#else
    (void)argv;
#endif
}

int main(int argc, char **argv)
{
    ensure_asan_reports_repeat(argv);
    vf_init(argc, argv, "C13", "exploration");
    build_lists();
    int th = vf_is_thorough();
    vf_rule = "E1: every element of the product stop list x geometry x repeat mode x transform x origin is drawn once with OP_SRC into an 8x4 "
              "a8r8g8b8 destination (narrow walker) and an 8x4 rgba_float destination (wide walker); an evaluation is one gradient image "
              "(2 composites, 64 pixel comparisons against the long double reference); non-trivial = the narrow image holds at least 3 "
              "distinct pixel values; outcome = hash of the 32 narrow pixels.  Safety spaces: oracle is only 'returns, no ASan report'.";
    vf_assume("Outside the stop range the colour is the sentinel colour the statement's anchor names (stops[-1]/stops[n] per repeat mode): "
              "REPEAT_NONE is transparent before the first and from the last stop on (also inside [0,1]); NORMAL continues the list "
              "periodically, REFLECT mirrored, PAD with the end colours");
    vf_assume("conical parameter convention t = 1 - frac((atan2(dy,dx) + angle)/2pi) is taken from the library; the pixel whose mapped centre "
              "is the cone centre, the linear gradient with p1 == p2, and points on two identical circles have no defined t and are not compared");
    vf_assume("acceptance: within one 8-bit step per channel of the per-channel hull of the reference colour over |t'-t| <= 2^-15 (the library "
              "quantises t to 16.16 by truncation, twice on the linear path); a radial root whose admissibility (radius >= 0, t in [0,1] for NONE) "
              "or existence (root pair within 2^-15 of merging) is within 2^-15 of flipping may be taken or not; 'no admissible t' means exactly 0");
    vf_assume("library and harness built with clang -O1 AddressSanitizer: the stop array with its two sentinels is a library heap block, reads "
              "outside [-1, n] hit a redzone and are reported with the case index");
    vf_assume("masks (the `if (!mask || *mask++)` skipping), operators other than SRC, destinations other than a8r8g8b8/rgba_float, dithering, "
              "stop lists with more than 4 stops or positions off the quarter grid, and negative radii are not enumerated");

    int nl = th ? NLISTS[4] : NLISTS[3];
    int ntr = th ? 9 : 6; const int *trs = th ? TR_THOROUGH : TR_QUICK;
    int norg = th ? 2 : 1;
    run_colour("colour-linear", K_LINEAR, nl, th ? 12 + N_LPAIRS_X : 12, ntr, trs, norg);
    run_colour("colour-radial", K_RADIAL, nl, th ? N_RGEO_ALL : N_RGEO_QUICK, ntr, trs, norg);
    run_colour("colour-conical", K_CONICAL, nl, N_CCEN * (th ? N_CANG_ALL : N_CANG_QUICK), ntr, trs, norg);
    /* safety: degenerate stop lists x degenerate and regular geometries x regular and singular transforms */
    run_safety("safety-linear", K_LINEAR, 7, 9, TR_SAFETY);
    run_safety("safety-radial", K_RADIAL, N_RGEO_ALL + 5, 9, TR_SAFETY);
    run_safety("safety-conical", K_CONICAL, N_CCEN * N_CANG_ALL + 4, 9, TR_SAFETY);
    vf_space_run("safety-zero-stops", 6, refuse_case, NULL);
    /* colour claim many periods away from the gradient's origin (last: a genuine finding lives here) */
    build_far_lists(th ? NLISTS[3] : NLISTS[2]);
    run_far("colour-far-linear", K_LINEAR, NFAR);
    run_far("colour-far-radial", K_RADIAL, NFAR);

    /* far spaces, appended to both descriptions below */
#define FAR_TXT " Far spaces: 4 short-period linear and 4 radial geometries drawn from origins x in {128,512,2048,8192,12000,-8192} (|t| up to 48000 periods), " \
                "transforms none/scale 2, 4 repeats, the quarter-grid lists plus 4 lists with stops 1/16..1/256 apart"
    vf_bounds = th ? "stop lists: all 1..4-stop lists with non-decreasing positions from {0,1/4,1/2,1/2,3/4,1} x 4 colours per stop; linear 12 ordered "
                     "point pairs + 4 extra (vertical, half-pixel span, long span, off-grid); radial 17 circle pairs (a<0, a>0, a=0, equal radii, zero "
                     "radii, identical circles); conical 3 centres x 8 angles (incl. -270, -630.5, 725); 4 repeat modes; 9 transforms (keystone w = 1 + y/32, none, scale 2, translate 1/2, rotate 90, "
                     "2 projective, w=2, shear); 2 origins; fresh image and image first used with another repeat mode; 2 pipelines.  Safety: 14 unsorted/out-of-range/extreme stop lists x degenerate geometries "
                     "x 9 transforms (5 singular/overflowing) x 4 repeats x 2 origins; n_stops <= 0." FAR_TXT " (grid lists with <= 3 stops)"
                   : "stop lists: all 1..3-stop lists with non-decreasing positions from {0,1/4,1/2,1/2,3/4,1} x 4 colours per stop; linear 12 ordered "
                     "point pairs; radial 12 circle pairs; conical 3 centres x 6 angles (0, 90, 360, -45, -270, -630.5); 4 repeat modes; 6 transforms (keystone w = 1 + y/32, none, scale 2, rotate 90, "
                     "projective, affine with w=2); origin (0,0); fresh image and image first used with another repeat mode; 2 pipelines.  Safety spaces as in the thorough tier." FAR_TXT " (grid lists with <= 2 stops)";
    return vf_finish();
}
