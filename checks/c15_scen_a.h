/* c15_scen_a.h — C15 scenarios: constructors, setters, region conversions, filter. */

/* hidden (not exported) entry points, reachable because the library is linked statically */
pixman_bool_t pixman_region32_copy_from_region16 (pixman_region32_t *dst, pixman_region16_t *src);
pixman_bool_t pixman_region16_copy_from_region32 (pixman_region16_t *dst, pixman_region32_t *src);

#define WIN(stmt) do { long f0_ = w_open (); stmt; hf = w_close (f0_); } while (0)

/* ---------------- constructors ---------------- */
static void sc_ctor_bits (T *t)
{
    int hf; pixman_image_t *img;
    WIN (img = pixman_image_create_bits (PIXMAN_a8r8g8b8, 8, 4, NULL, 0));
    if (st (t, "create_bits(NULL bits)", img != NULL, hf)) {
        expect_same (t, "bits-zeroed", pixman_image_get_data (img), (size_t) pixman_image_get_stride (img) * 4, "the zero-initialised buffer");
        pixman_image_t *s = mk_solid (t, 0x8000, 0x4000, 0x2000, 0x1000);
        pixman_image_composite32 (PIXMAN_OP_SRC, s, NULL, img, 0, 0, 0, 0, 1, 1, 5, 2);
        pixman_image_unref (s);
        exercise_source (t, "bits-as-source", img, 1);
        pixman_image_unref (img);
    }
    WIN (img = pixman_image_create_bits_no_clear (PIXMAN_r5g6b5, 5, 3, NULL, 0));
    if (st (t, "create_bits_no_clear(NULL bits)", img != NULL, hf)) {
        memset (pixman_image_get_data (img), 0x5a, (size_t) pixman_image_get_stride (img) * 3);
        exercise_source (t, "noclear-as-source", img, 1);
        pixman_image_unref (img);
    }
}

static void sc_ctor_bits_own (T *t)
{
    int hf; pixman_image_t *img; uint32_t buf[8 * 3]; for (int i = 0; i < 24; i++) buf[i] = pat (5, i);
    WIN (img = pixman_image_create_bits (PIXMAN_x8r8g8b8, 8, 3, buf, 32));
    if (st (t, "create_bits(own buffer)", img != NULL, hf)) { exercise_source (t, "own-as-source", img, 1); pixman_image_unref (img); }
}

static void sc_ctor_solid (T *t)
{
    int hf; pixman_image_t *img; pixman_color_t c = { 0x1234, 0x8000, 0xffff, 0xc000 };
    WIN (img = pixman_image_create_solid_fill (&c));
    if (st (t, "create_solid_fill", img != NULL, hf)) { exercise_source (t, "solid-as-source", img, 1); pixman_image_unref (img); }
}

static const pixman_gradient_stop_t c15_stops[3] = {
    { 0x0000, { 0xffff, 0x0000, 0x0000, 0xffff } }, { 0x8000, { 0x0000, 0xffff, 0x0000, 0x8000 } }, { 0x10000, { 0x0000, 0x0000, 0xffff, 0xffff } } };

static void sc_ctor_linear (T *t)
{
    int hf; pixman_image_t *img; pixman_point_fixed_t p1 = { 0, 0 }, p2 = { pixman_int_to_fixed (6), pixman_int_to_fixed (2) };
    WIN (img = pixman_image_create_linear_gradient (&p1, &p2, c15_stops, 3));
    if (st (t, "create_linear_gradient", img != NULL, hf)) {
        pixman_image_set_repeat (img, PIXMAN_REPEAT_REFLECT);
        exercise_source (t, "linear-as-source", img, 1); pixman_image_unref (img);
    }
}
static void sc_ctor_radial (T *t)
{
    int hf; pixman_image_t *img; pixman_point_fixed_t p1 = { pixman_int_to_fixed (2), pixman_int_to_fixed (1) }, p2 = { pixman_int_to_fixed (3), pixman_int_to_fixed (1) };
    WIN (img = pixman_image_create_radial_gradient (&p1, &p2, pixman_int_to_fixed (0), pixman_int_to_fixed (4), c15_stops, 3));
    if (st (t, "create_radial_gradient", img != NULL, hf)) { exercise_source (t, "radial-as-source", img, 1); pixman_image_unref (img); }
}
static void sc_ctor_conical (T *t)
{
    int hf; pixman_image_t *img; pixman_point_fixed_t c = { pixman_int_to_fixed (3), pixman_int_to_fixed (1) };
    WIN (img = pixman_image_create_conical_gradient (&c, pixman_int_to_fixed (30), c15_stops, 3));
    if (st (t, "create_conical_gradient", img != NULL, hf)) { exercise_source (t, "conical-as-source", img, 1); pixman_image_unref (img); }
}

/* ---------------- setters ---------------- */
static void sc_set_transform (T *t)
{
    int hf, ok; surf_t s = surf_new (t, PIXMAN_a8r8g8b8, 12, 6, 3);
    pixman_transform_t tr; pixman_transform_init_scale (&tr, pixman_int_to_fixed (2), pixman_fixed_1 + pixman_fixed_1 / 2);
    WIN (ok = pixman_image_set_transform (s.img, &tr));
    st (t, "set_transform(first)", ok, hf);
    exercise_source (t, "after-set_transform", s.img, ok);
    /* replacing an existing transform re-uses the storage; removing it releases it */
    pixman_transform_t tr2; pixman_transform_init_translate (&tr2, pixman_int_to_fixed (1), pixman_int_to_fixed (2));
    WIN (ok = pixman_image_set_transform (s.img, &tr2));
    st (t, "set_transform(second)", ok, hf);
    exercise_source (t, "after-set_transform-2", s.img, ok);
    WIN (ok = pixman_image_set_transform (s.img, NULL));
    st (t, "set_transform(NULL)", ok, hf);
    exercise_source (t, "after-set_transform-null", s.img, ok);
    surf_free (&s);
}

static void sc_set_filter_conv (T *t)
{
    int hf, ok; surf_t s = surf_new (t, PIXMAN_a8r8g8b8, 10, 6, 4);
    pixman_fixed_t k[2 + 9] = { pixman_int_to_fixed (3), pixman_int_to_fixed (3) };
    for (int i = 0; i < 9; i++) k[2 + i] = pixman_fixed_1 / 9;
    WIN (ok = pixman_image_set_filter (s.img, PIXMAN_FILTER_CONVOLUTION, k, 11));
    st (t, "set_filter(convolution 3x3)", ok, hf);
    exercise_source (t, "after-set_filter", s.img, ok);
    int ok1 = ok;
    k[2 + 4] = pixman_fixed_1 / 3;
    WIN (ok = pixman_image_set_filter (s.img, PIXMAN_FILTER_CONVOLUTION, k, 11));     /* replaces existing parameters */
    st (t, "set_filter(replace)", ok, hf);
    exercise_source (t, "after-set_filter-2", s.img, ok);
    WIN (ok = pixman_image_set_filter (s.img, PIXMAN_FILTER_NEAREST, NULL, 0));
    st (t, "set_filter(nearest)", ok, hf);
    exercise_source (t, "after-set_filter-3", s.img, ok && ok1 >= 0);
    surf_free (&s);
}

static void sc_filter_separable (T *t)
{
    int hf, ok, n = 0; pixman_fixed_t *p;
    surf_t s = surf_new (t, PIXMAN_a8r8g8b8, 12, 8, 6), d = surf_new (t, PIXMAN_a8r8g8b8, 6, 4, 8);
    pixman_transform_t tr; pixman_transform_init_scale (&tr, pixman_fixed_1 + pixman_fixed_1 / 2, pixman_fixed_1 + pixman_fixed_1 / 2);
    if (!pixman_image_set_transform (s.img, &tr)) V (t, "c15-harness-setup", "set_transform");
    WIN (p = pixman_filter_create_separable_convolution (&n, pixman_fixed_1 + pixman_fixed_1 / 2, pixman_fixed_1 + pixman_fixed_1 / 2,
                                                         PIXMAN_KERNEL_LINEAR, PIXMAN_KERNEL_LINEAR, PIXMAN_KERNEL_BOX, PIXMAN_KERNEL_BOX, 1, 1));
    if (st (t, "filter_create_separable_convolution", p != NULL, hf)) {
        expect_same (t, "separable-table", p, (size_t) n * sizeof *p, "the filter table");
        WIN (ok = pixman_image_set_filter (s.img, PIXMAN_FILTER_SEPARABLE_CONVOLUTION, p, n));
        st (t, "set_filter(separable)", ok, hf);
        free (p);
        if (ok) {
            WIN (pixman_image_composite32 (PIXMAN_OP_SRC, s.img, NULL, d.img, 0, 0, 0, 0, 0, 0, 6, 4));
            draw_check (t, "composite(separable source)", &d, 0, 0, 6, 4, DRAW_VOID, hf);
        } else exercise_source (t, "after-failed-set_filter", s.img, 0);
    }
    surf_free (&s); surf_free (&d);
}

static void sc_set_clip32 (T *t)
{
    int hf, ok; surf_t s = surf_new (t, PIXMAN_a8r8g8b8, 30, 6, 9), d = surf_new (t, PIXMAN_a8r8g8b8, 30, 6, 10);
    pixman_box32_t b[5]; for (int i = 0; i < 5; i++) { b[i].x1 = 6 * i; b[i].x2 = 6 * i + 3; b[i].y1 = i % 2; b[i].y2 = 5; }
    pixman_region32_t r; if (!pixman_region32_init_rects (&r, b, 5)) V (t, "c15-harness-setup", "region");
    WIN (ok = pixman_image_set_clip_region32 (d.img, &r));
    st (t, "set_clip_region32(5 rects)", ok, hf);
    /* draw through the clip: with the clip set the picture must be the fault-free one; after a failure only safety is required */
    pixman_image_composite32 (PIXMAN_OP_SRC, s.img, NULL, d.img, 0, 0, 0, 0, 0, 0, 30, 6);
    if (ok) expect_same (t, "drawn-through-clip32", d.bits, d.bytes, "picture drawn through the clip");
    /* replace by a bigger clip: the old rectangles are released before the new ones are allocated */
    pixman_box32_t b2[9]; for (int i = 0; i < 9; i++) { b2[i].x1 = 3 * i; b2[i].x2 = 3 * i + 2; b2[i].y1 = (i % 3); b2[i].y2 = 6; }
    pixman_region32_t r2; if (!pixman_region32_init_rects (&r2, b2, 9)) V (t, "c15-harness-setup", "region");
    int ok2; WIN (ok2 = pixman_image_set_clip_region32 (d.img, &r2));
    st (t, "set_clip_region32(replace by 9 rects)", ok2, hf);
    uint32_t *before2 = malloc (d.bytes); memcpy (before2, d.bits, d.bytes);
    pixman_image_composite32 (PIXMAN_OP_SRC, s.img, NULL, d.img, 2, 0, 0, 0, 0, 0, 28, 6);
    if (ok && ok2) expect_same (t, "drawn-through-clip32-2", d.bits, d.bytes, "picture drawn through the second clip");
    if (ok && !ok2) {
        /* the image HAD a clip and the replacement failed: whatever clip it is left with (the old one, the new one, none that lets anything
         * through), a later drawing may only touch pixels that the old or the new clip permits */
        for (int y = 0; y < 6; y++) for (int x = 0; x < 30; x++)
            if (d.bits[y * (d.stride / 4) + x] != before2[y * (d.stride / 4) + x] && !pixman_region32_contains_point (&r, x, y, NULL) && !pixman_region32_contains_point (&r2, x, y, NULL)) {
                V (t, "c15-drawing-escapes-clip-after-failed-set-clip", "set_clip_region32 failed on an image that had a clip; the next composite changed pixel (%d,%d), which neither the old nor the new clip permits", x, y);
                y = 6; break;
            }
    }
    free (before2);
    WIN (ok = pixman_image_set_clip_region32 (d.img, NULL));
    st (t, "set_clip_region32(NULL)", ok, hf);
    pixman_image_composite32 (PIXMAN_OP_SRC, s.img, NULL, d.img, 1, 1, 0, 0, 0, 0, 29, 5);
    pixman_region32_fini (&r); pixman_region32_fini (&r2); surf_free (&s); surf_free (&d);
}

static void set_clip16_n (T *t, int n, const char *key)
{
    int hf, ok; surf_t s = surf_new (t, PIXMAN_a8r8g8b8, 64, 4, 9), d = surf_new (t, PIXMAN_a8r8g8b8, 64, 4, 10);
    pixman_box16_t b[24]; for (int i = 0; i < n; i++) { b[i].x1 = 3 * i; b[i].x2 = 3 * i + 2; b[i].y1 = i % 2; b[i].y2 = 3 + i % 2; }
    pixman_region16_t r; if (!pixman_region_init_rects (&r, b, n)) V (t, "c15-harness-setup", "region16");
    /* the image already has a (one-rectangle, allocation-free) clip */
    pixman_region16_t old; pixman_region_init_rect (&old, 60, 0, 4, 2);
    if (!pixman_image_set_clip_region (d.img, &old)) V (t, "c15-harness-setup", "old clip");
    WIN (ok = pixman_image_set_clip_region (d.img, &r));
    st (t, key, ok, hf);
    uint32_t *before = malloc (d.bytes); memcpy (before, d.bits, d.bytes);
    pixman_image_composite32 (PIXMAN_OP_SRC, s.img, NULL, d.img, 0, 0, 0, 0, 0, 0, 64, 4);
    if (ok) expect_same (t, "drawn-through-clip16", d.bits, d.bytes, "picture drawn through the clip");
    else for (int y = 0; y < 4; y++) for (int x = 0; x < 64; x++)
        if (d.bits[y * (d.stride / 4) + x] != before[y * (d.stride / 4) + x] && !pixman_region_contains_point (&r, x, y, NULL) && !pixman_region_contains_point (&old, x, y, NULL)) {
            V (t, "c15-drawing-escapes-clip-after-failed-set-clip", "set_clip_region (16-bit) failed on an image that had a clip; the next composite changed pixel (%d,%d), which neither the old nor the new clip permits", x, y);
            y = 4; break;
        }
    free (before); pixman_region_fini (&old);
    pixman_region_fini (&r); surf_free (&s); surf_free (&d);
}
static void sc_set_clip16_small (T *t) { set_clip16_n (t, 8, "set_clip_region(8 rects, stack boxes)"); }
static void sc_set_clip16_big (T *t)   { set_clip16_n (t, 20, "set_clip_region(20 rects, heap boxes)"); }

/* ---------------- 16 <-> 32 conversions ---------------- */
static void sc_conv_32_from_16 (T *t)
{
    int hf, ok; pixman_box16_t b[20]; for (int i = 0; i < 20; i++) { b[i].x1 = 3 * i; b[i].x2 = 3 * i + 2; b[i].y1 = i % 3; b[i].y2 = 4 + i % 3; }
    pixman_region16_t r; if (!pixman_region_init_rects (&r, b, 20)) V (t, "c15-harness-setup", "region16");
    pixman_region32_t d; pixman_region32_init_rect (&d, 0, 0, 5, 5);
    WIN (ok = pixman_region32_copy_from_region16 (&d, &r));
    st (t, "region32_copy_from_region16(20)", ok, hf);
    if (ok) { uint64_t h = r32_hash (&d); expect_same (t, "conv32", &h, sizeof h, "converted rectangles"); if (!pixman_region32_selfcheck (&d)) V (t, "c15-region-success-malformed", "converted region malformed"); }
    else {
        /* the destination is either untouched (temporary array failed) or the broken region; both are safe */
        pixman_region32_t one, tmp; pixman_region32_init_rect (&one, 0, 0, 2, 2); pixman_region32_init (&tmp);
        (void) pixman_region32_union (&tmp, &d, &one); (void) pixman_region32_n_rects (&d); pixman_region32_fini (&tmp);
    }
    pixman_region32_fini (&d); pixman_region_fini (&r);
}
static void sc_conv_16_from_32 (T *t)
{
    int hf, ok; pixman_box32_t b[20]; for (int i = 0; i < 20; i++) { b[i].x1 = 3 * i; b[i].x2 = 3 * i + 2; b[i].y1 = i % 3; b[i].y2 = 4 + i % 3; }
    pixman_region32_t r; if (!pixman_region32_init_rects (&r, b, 20)) V (t, "c15-harness-setup", "region32");
    pixman_region16_t d; pixman_region_init_rect (&d, 0, 0, 5, 5);
    WIN (ok = pixman_region16_copy_from_region32 (&d, &r));
    st (t, "region16_copy_from_region32(20)", ok, hf);
    if (ok) { uint64_t h = r16_hash (&d); expect_same (t, "conv16", &h, sizeof h, "converted rectangles"); if (!pixman_region_selfcheck (&d)) V (t, "c15-region-success-malformed", "converted region malformed"); }
    else { pixman_region16_t one, tmp; pixman_region_init_rect (&one, 0, 0, 2, 2); pixman_region_init (&tmp); (void) pixman_region_union (&tmp, &d, &one); pixman_region_fini (&tmp); }
    pixman_region_fini (&d); pixman_region32_fini (&r);
}

/* the same conversion into a region that already owns a rectangle array (three rectangles): on failure the caller's region must still be a region */
static void sc_conv_16_from_32_owned (T *t)
{
    int hf, ok; pixman_box32_t b[20]; for (int i = 0; i < 20; i++) { b[i].x1 = 3 * i; b[i].x2 = 3 * i + 2; b[i].y1 = i % 3; b[i].y2 = 4 + i % 3; }
    pixman_region32_t r; if (!pixman_region32_init_rects (&r, b, 20)) V (t, "c15-harness-setup", "region32");
    pixman_box16_t o[3] = { { 0, 0, 2, 1 }, { 4, 0, 6, 1 }, { 1, 2, 5, 4 } };
    pixman_region16_t d; if (!pixman_region_init_rects (&d, o, 3)) V (t, "c15-harness-setup", "region16");
    WIN (ok = pixman_region16_copy_from_region32 (&d, &r));
    st (t, "region16_copy_from_region32(20) into a region that owns three rectangles", ok, hf);
    if (ok) { uint64_t h = r16_hash (&d); expect_same (t, "conv16-owned", &h, sizeof h, "converted rectangles"); if (!pixman_region_selfcheck (&d)) V (t, "c15-region-success-malformed", "converted region malformed"); }
    else { pixman_region16_t one, tmp; pixman_region_init_rect (&one, 0, 0, 2, 2); pixman_region_init (&tmp); (void) pixman_region_union (&tmp, &d, &one); (void) pixman_region_n_rects (&d); pixman_region_fini (&tmp); }
    pixman_region_fini (&d); pixman_region32_fini (&r);
}
/* compute_composite_region with a 20-rectangle clip (more than any on-stack conversion buffer) into a result region that holds the result of an earlier call */
static void sc_compute_region16_reused (T *t)
{
    int hf, ok; surf_t s = surf_new (t, PIXMAN_a8r8g8b8, 70, 8, 1), d = surf_new (t, PIXMAN_a8r8g8b8, 70, 8, 2);
    pixman_box32_t b[20]; for (int i = 0; i < 20; i++) { b[i].x1 = 3 * i; b[i].x2 = 3 * i + 2; b[i].y1 = i % 3; b[i].y2 = 5 + i % 3; }
    pixman_region32_t r; if (!pixman_region32_init_rects (&r, b, 20) || !pixman_image_set_clip_region32 (d.img, &r)) V (t, "c15-harness-setup", "clip");
    pixman_box16_t o[3] = { { 0, 0, 2, 1 }, { 4, 0, 6, 1 }, { 1, 2, 5, 4 } };
    pixman_region16_t out; if (!pixman_region_init_rects (&out, o, 3)) V (t, "c15-harness-setup", "region16");
    WIN (ok = pixman_compute_composite_region (&out, s.img, NULL, d.img, 0, 0, 0, 0, 1, 0, 66, 8));
    st (t, "compute_composite_region(20-rect clip) into a region that owns three rectangles", ok, hf);
    if (ok) { uint64_t h = r16_hash (&out); expect_same (t, "region16-reused", &h, sizeof h, "composite region"); }
    else { pixman_region16_t one, tmp; pixman_region_init_rect (&one, 0, 0, 2, 2); pixman_region_init (&tmp); (void) pixman_region_union (&tmp, &out, &one); (void) pixman_region_n_rects (&out); pixman_region_fini (&tmp); }
    pixman_region_fini (&out); pixman_region32_fini (&r); surf_free (&s); surf_free (&d);
}

/* public 16-bit composite-region query: region32 arithmetic + conversion */
static void sc_compute_region16 (T *t)
{
    int hf, ok; surf_t s = surf_new (t, PIXMAN_a8r8g8b8, 40, 6, 1), d = surf_new (t, PIXMAN_a8r8g8b8, 40, 6, 2);
    pixman_box32_t b[5]; for (int i = 0; i < 5; i++) { b[i].x1 = 8 * i; b[i].x2 = 8 * i + 5; b[i].y1 = i % 2; b[i].y2 = 5; }
    pixman_region32_t r; if (!pixman_region32_init_rects (&r, b, 5) || !pixman_image_set_clip_region32 (d.img, &r)) V (t, "c15-harness-setup", "clip");
    pixman_region16_t out; pixman_region_init (&out);
    WIN (ok = pixman_compute_composite_region (&out, s.img, NULL, d.img, 0, 0, 0, 0, 2, 1, 30, 4));
    st (t, "compute_composite_region(5-rect clip)", ok, hf);
    if (ok) { uint64_t h = r16_hash (&out); expect_same (t, "region16", &h, sizeof h, "composite region"); }
    else { pixman_region16_t one, tmp; pixman_region_init_rect (&one, 0, 0, 2, 2); pixman_region_init (&tmp); (void) pixman_region_union (&tmp, &out, &one); pixman_region_fini (&tmp); }
    pixman_region_fini (&out); pixman_region32_fini (&r); surf_free (&s); surf_free (&d);
}
