/* C11 — fixed-point transform arithmetic is exactly rounded and reports overflow.
 *
 * Engine E1: bounded-exhaustive enumeration of inputs built from boundary-value alphabets, every
 * case compared with exact rational arithmetic in __int128 (c11_oracle.h).  One engine case is a
 * *block* of inputs (the inner loop is part of the case), so evaluations = inputs, not blocks.
 *
 *   c11_point.h : transform_point, point_3d, the 48.16 entry points, multiply
 *   c11_ops.h   : scale / rotate / translate (forward, reverse NULL or not), bounds, invert, is_*
 *   c11_float.h : fixed<->double conversions and the pixman_f_transform family
 *
 * The library is built with assertions ON; an assertion failure or abort() inside a call is
 * captured (c11_common.h) and becomes a violation with its own key instead of killing the worker.
 */
#include "c11_common.h"
#include "c11_point.h"
#include "c11_ops.h"
#include "c11_float.h"

static const int64_t *W21, *W7X, *W7R, *W11, *W9B;

static pspace_t mk_uniform(const char *name, const int64_t *al, int n)
{
    pspace_t s; memset(&s, 0, sizeof s); s.name = name;
    for (int k = 0; k < 9; k++) { s.al[k] = al; s.n[k] = n; }
    return s;
}

/* w sweep: row2 = (0,0,c), v2 = d, so w = c*d walks through magnitudes, +-2^k and both sides of the
 * exact/one-unit boundary |w| = 65536; row0 and v0,v1 over the extremes alphabet */
static const int64_t WS[] = { 1, -1, 2, -2, 3, -3, 0xff, -0xff, 0x100, -0x100, 0xffff, -0xffff, 0x10000, -0x10000, 0x10001, -0x10001, 0x18000, -0x18000,
    0x7fffff, -0x7fffff, 0x800000, -0x800000, 0x800001, -0x800001, 0xffffff, -0xffffff, 0x1000000, -0x1000000, 0x1000001, -0x1000001,
    0x3fffffff, -0x3fffffff, 0x40000000, -0x40000000, FX_MAX, -FX_MAX, FX_MIN };
static const int64_t ZERO1[] = { 0 };

/* 48.16 vectors: |v| < 2^46 is the documented precondition of the 31_16 entry points */
static const int64_t V48[] = { 0, 1, 0x8000, 0x10000, -0x10000, 0x18000, ((int64_t)1 << 31), -((int64_t)1 << 31) - 1, ((int64_t)1 << 40) + 0x7fff,
    ((int64_t)1 << 46) - 1, -((int64_t)1 << 46) };

static void report_stats(void)
{
    char *ej = vf->extra_json; size_t cap = sizeof vf->extra_json, l = 0;
    l += snprintf(ej + l, cap - l, "\"failing_inputs_by_key\": {");
    for (int i = 0; i < c11_st->nkeys; i++) {
        l += snprintf(ej + l, cap - l, "%s\"%s\": %llu", i ? ", " : "", (const char *)c11_st->keys[i].key, (unsigned long long)c11_st->keys[i].inner);
        printf("FAILING-INPUTS C11: %-48s %llu input(s)%s\n", (const char *)c11_st->keys[i].key, (unsigned long long)c11_st->keys[i].inner,
               vf_is_known((const char *)c11_st->keys[i].key) ? " (known finding)" : "");
    }
    l += snprintf(ej + l, cap - l, "}, \"transform_point\": {\"affine_w1\": %llu, \"exact_regime\": %llu, \"one_unit_regime\": %llu, \"w_zero\": %llu, \"ties\": %llu, "
                  "\"inexact_quotients\": %llu, \"false_required\": %llu, \"either_allowed\": %llu, \"aborts\": %llu}",
                  (unsigned long long)c11_st->tp_affine, (unsigned long long)c11_st->tp_exact, (unsigned long long)c11_st->tp_tol, (unsigned long long)c11_st->tp_w0,
                  (unsigned long long)c11_st->tp_tie, (unsigned long long)c11_st->tp_inexact, (unsigned long long)c11_st->tp_false_forced,
                  (unsigned long long)c11_st->tp_either, (unsigned long long)c11_st->tp_abort);
    l += snprintf(ej + l, cap - l, ", \"multiply\": {\"inexact\": %llu, \"false_required\": %llu, \"either_allowed\": %llu}", (unsigned long long)c11_st->mul_inexact,
                  (unsigned long long)c11_st->mul_false_forced, (unsigned long long)c11_st->mul_either);
    l += snprintf(ej + l, cap - l, ", \"invert\": {\"singular\": %llu, \"accuracy_demanded\": %llu, \"ill_conditioned_not_judged\": %llu, \"inverse_overflows\": %llu}",
                  (unsigned long long)c11_st->inv_singular, (unsigned long long)c11_st->inv_demanded, (unsigned long long)c11_st->inv_illcond, (unsigned long long)c11_st->inv_overflow);
    l += snprintf(ej + l, cap - l, ", \"predicates\": {\"true\": %llu, \"false\": %llu}", (unsigned long long)c11_st->pred_true, (unsigned long long)c11_st->pred_false);
    l += snprintf(ej + l, cap - l, ", \"observations\": {\"scale_inverse_truncated_not_nearest\": %llu, \"from_f_transform_false_in_band_32767_32768\": %llu}",
                  (unsigned long long)c11_st->scale_inv_trunc_differs, (unsigned long long)c11_st->fromf_band_false);
    l += snprintf(ej + l, cap - l, ", \"f_transform\": {\"results_compared\": %llu, \"bit_exact_expected\": %llu}", (unsigned long long)c11_st->f_demanded,
                  (unsigned long long)c11_st->f_exact);
}

int main(int argc, char **argv)
{
    vf_init(argc, argv, "C11", "exploration");
    c11_st = mmap(NULL, sizeof *c11_st, PROT_READ | PROT_WRITE, MAP_SHARED | MAP_ANONYMOUS, -1, 0);
    if (c11_st == MAP_FAILED) { perror("mmap"); return 2; }
    c11_install_abort_handler();
    int th = vf_is_thorough();
    W21 = widen(A21, 21); W7X = widen(A7X, 7); W7R = widen(A7R, 7); W11 = widen(A11, 11); W9B = widen(A9B, 9);

    vf_rule = "odometer over boundary-value alphabets; one engine case = a block (outer digits) with the inner digits looped inside, evaluations count inputs; "
              "non-trivial = the exact result needs rounding, a division by w != 1, an overflow verdict, a singular/ill-conditioned matrix or a predicate "
              "answering TRUE; outcome = hash of (return value, result)";
    vf_bounds = th ? "transform_point/point_3d: 9 variables (row0,row2,v; row1 = rotated row0) over A11 (11^9 = 2.36e9), the 9 values A11 lacks (9^9), A7 extremes (7^9), A7 rounding (7^9) "
                     "and a w sweep (w = c*d, c,d over 37 magnitudes, x 7^5); 48.16 entry points 5^3 x 5^3 x 11^3; multiply 21^6; scale/rotate/translate: 21^2 parameters x "
                     "3 NULL patterns x 3125 matrix pairs; bounds: 62500 matrices (5^6 x 4 last rows) x 400 boxes; invert 6^9 + 7^6 x 4 last rows; "
                     "is_identity/is_scale/is_int_translate 8^9; is_inverse 1024^2; double->fixed 9 x 74^2; f_transform family 1024 matrices x (1024 partners + 343 vectors + "
                     "9 x 21^2 parameters + 100 boxes); f_invert 6^9"
                   : "transform_point/point_3d: 9 variables (row0,row2,v; row1 = rotated row0) over A7 extremes (7^9 = 4.0e7), A7 rounding (7^9) and a w sweep (w = c*d, c,d over 37 "
                     "magnitudes, x 7^5); 48.16 entry points 3^3 x 5^3 x 11^3; multiply 21^6 = 8.6e7; scale/rotate/translate: 21^2 parameters x 3 NULL patterns x 1215 matrix pairs (5 last rows: projective, affine with w = 2, 1/2, -1, and m21 != 0); "
                     "bounds: 62500 matrices (5^6 x 4 last rows) x 100 boxes; invert 5^9 + 7^6 x 4 last rows; is_identity/is_scale/is_int_translate 6^9; is_inverse 243^2; "
                     "double->fixed 9 x 74^2; f_transform family 243 matrices x (243 partners + 343 vectors + 9 x 21 x 11 parameters + 100 boxes); f_invert 5^9";
    vf_assume("the reference is exact integer arithmetic in __int128 written from the statement (round to nearest, either neighbour on a tie, one unit outside |w|<65536)");
    vf_assume("an assertion failure inside a call is observed by interposing __assert_fail (and SIGABRT) and longjmp-ing out of the library; the library keeps no state across calls in pixman-matrix.c");
    vf_assume("multiply-like results may round every term separately: |result - exact| <= 1/2 unit per term that is not already a multiple of 2^-16 (DESIGN C11)");
    vf_assume("NaN/infinity are not in the alphabet of the pixman_f_transform functions; doubles are dyadic values derived from the fixed alphabets plus quarter-unit offsets");

    /* ---------- transform_point / point_3d ---------- */
    static pspace_t sp[8]; int nsp = 0;
    sp[nsp++] = mk_uniform("point-A7-extremes", W7X, 7);
    sp[nsp++] = mk_uniform("point-A7-rounding", W7R, 7);
    {
        pspace_t s = mk_uniform("point-w-sweep", W7X, 7);
        s.al[3] = ZERO1; s.n[3] = 1; s.al[4] = ZERO1; s.n[4] = 1;
        s.al[5] = WS; s.n[5] = sizeof WS / sizeof WS[0];
        s.al[8] = WS; s.n[8] = sizeof WS / sizeof WS[0];
        sp[nsp++] = s;
    }
    {
        static const int64_t R2[] = { 0, 0x10000, 1, FX_MAX, FX_MIN };
        pspace_t s = mk_uniform("point-48.16", R2, th ? 5 : 3);                 /* row0: all 5 (first 3) values */
        for (int k = 3; k < 6; k++) { s.al[k] = R2; s.n[k] = 5; }
        for (int k = 6; k < 9; k++) { s.al[k] = V48; s.n[k] = sizeof V48 / sizeof V48[0]; }
        s.wide = 1;
        sp[nsp++] = s;
    }
    if (th) {
        sp[nsp++] = mk_uniform("point-A11", W11, 11);
        sp[nsp++] = mk_uniform("point-A9-complement", W9B, 9);
    }
    for (int i = 0; i < nsp; i++) vf_space_run(sp[i].name, pspace_blocks(&sp[i]), point_block, &sp[i]);

    /* ---------- multiply ---------- */
    static mspace_t ms = { A21, 21 };
    vf_space_run("multiply-A21", 21 * 21 * 21, multiply_block, &ms);

    c11_run_ops(th);
    c11_run_float(th);

    if (!vf_replaying()) report_stats();
    return vf_finish();
}
