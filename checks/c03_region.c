/* C03 — drawing touches only the composite region; that region is the exact intersection.
 * Engine E1.  Model: boolean grid over the destination = request rectangle ∩ bounds ∩ destination clip ∩
 * destination alpha-map bounds ∩ source/mask clips that are enabled for sources (translated to destination space).
 * Oracle: two complementary runs (all-0 buffer + opaque white source, all-1 buffer + transparent black source, OP_SRC)
 * make every covered pixel flip all its bits; so after a run each destination bit is known exactly: inside flipped,
 * everything else — neighbouring sub-byte pixels, row padding, guard words — unchanged.
 */
#include "vf.h"
#include "pixhelp.h"

typedef struct { int n; pixman_box32_t b[4]; int empty; int none; const char *name; } clip_t;

/* clip shapes are defined relative to an image of size (w,h) */
static clip_t make_clip(int kind, int w, int h)
{
    clip_t c; memset(&c, 0, sizeof c);
    switch (kind) {
    case 0: c.none = 1; c.name = "none"; break;
    case 1: c.n = 1; c.b[0] = (pixman_box32_t){ 1, 0, w - 2 > 1 ? w - 2 : 2, h > 1 ? h - 1 : 1 }; c.name = "1rect"; break;
    case 2: c.n = 2; c.b[0] = (pixman_box32_t){ 0, 0, w / 2, 1 }; c.b[1] = (pixman_box32_t){ 0, 1, w, h }; c.name = "L-2rects"; break;
    case 3: c.n = 3; c.b[0] = (pixman_box32_t){ 1, 0, 3, 1 }; c.b[1] = (pixman_box32_t){ w / 2, 0, w, 1 }; c.b[2] = (pixman_box32_t){ 2, h - 1, w - 1, h }; c.name = "3bands"; if (h < 2) c.n = 2; break;
    case 4: c.n = 0; c.empty = 1; c.name = "empty"; break;
    case 5: c.n = 1; c.b[0] = (pixman_box32_t){ -3, -2, w + 5, h + 4 }; c.name = "larger-than-image"; break;
    case 7: c.n = 1; c.b[0] = (pixman_box32_t){ 0, 0, w, h }; c.name = "exactly-the-image"; break;
    case 6: c.n = 2; c.b[0] = (pixman_box32_t){ 0, 0, w / 2, (h + 1) / 2 }; c.b[1] = (pixman_box32_t){ w / 2 + 1, (h + 1) / 2, w, h }; c.name = "two-corners(extents=image,holes)"; if (h < 2) { c.b[0].y2 = 1; c.b[1].y1 = 0; c.b[1].y2 = 1; } break;
    }
    return c;
}
static int clip_has(const clip_t *c, int x, int y)
{
    if (c->none) return 1;
    for (int i = 0; i < c->n; i++) if (x >= c->b[i].x1 && x < c->b[i].x2 && y >= c->b[i].y1 && y < c->b[i].y2) return 1;
    return 0;
}
/* clips have a history: every other image first held a larger clip (five boxes), then an empty one, before it is given the clip under test */
static int g_clip_history;
static void clip_apply(pixman_image_t *img, const clip_t *c)
{
    if (c->none) return;
    pixman_region32_t r;
    if (g_clip_history) {
        pixman_box32_t old[5] = { { 0, 0, 1, 1 }, { 2, 0, 3, 1 }, { 4, 0, 6, 1 }, { 0, 1, 2, 2 }, { 3, 1, 40, 3 } };
        pixman_region32_init_rects(&r, old, 5); pixman_image_set_clip_region32(img, &r); pixman_region32_fini(&r);
        if (g_clip_history == 2) { pixman_region32_init(&r); pixman_image_set_clip_region32(img, &r); pixman_region32_fini(&r); }
    }
    pixman_region32_init_rects(&r, c->b, c->n);
    pixman_image_set_clip_region32(img, &r);
    pixman_region32_fini(&r);
}

/* source / mask options */
typedef struct { int clip; int clip_sources, client_clip; int off; } sopt_t;
static const sopt_t SOPT[] = {
    { 0, 0, 0, 0 },
    { 1, 1, 1, 0 }, { 2, 1, 1, 0 }, { 3, 1, 1, 0 }, { 4, 1, 1, 0 },
    { 1, 1, 1, -1 }, { 2, 1, 1, 2 }, { 3, 1, 1, -1 }, { 1, 1, 1, 2 }, { 2, 1, 1, -1 },
    { 1, 0, 1, 0 }, { 1, 1, 0, 0 }, { 2, 0, 0, 2 }, { 4, 0, 1, 0 }, { 4, 1, 0, -1 },
    /* clips that contain every pixel of the source itself: they clip nothing as a destination clip, but bound the request when the image is a source */
    { 7, 1, 1, 2 }, { 7, 1, 1, -1 }, { 5, 1, 1, -1 }, { 7, 1, 1, 0 },
};
#define NSOPT ((int)(sizeof SOPT / sizeof SOPT[0]))
static const int SOPT_Q[] = { 0, 1, 2, 6, 10, 11, 4, 15 };
#define NSOPT_Q 8

typedef struct { int kind; int ox, oy; int dw, dh; } aopt_t;   /* alpha map: kind 0 none; size = dest size + dw/dh */
static const aopt_t AOPT[] = { { 0, 0, 0, 0, 0 }, { 1, 0, 0, 0, 0 }, { 1, 1, 0, -2, -1 }, { 1, -1, 1, 0, 0 } };
#define NAOPT 4

static const pixman_format_code_t DFMT[] = { PIXMAN_a8r8g8b8, PIXMAN_r5g6b5, PIXMAN_r8g8b8, PIXMAN_a8, PIXMAN_a4, PIXMAN_a1 };
static const char *DFMT_N[] = { "a8r8g8b8", "r5g6b5", "r8g8b8", "a8", "a4", "a1" };
#define NDFMT 6
static const int DSIZE[2][2] = { { 7, 3 }, { 37, 2 } };

typedef struct { int thorough; } c3_ctx;

/* guarded buffer: GUARD words before and after, stride = minimal + 4 bytes */
#define GUARD 8
typedef struct { uint32_t *base; uint8_t *pix; int stride, w, h, bpp; size_t total; } gbuf_t;
static gbuf_t gb_make(int bpp, int w, int h, uint8_t fill)
{
    gbuf_t g; g.bpp = bpp; g.w = w; g.h = h;
    g.stride = ((w * bpp + 31) / 32) * 4 + 4;
    g.total = GUARD * 4 * 2 + (size_t)g.stride * h;
    g.base = malloc(g.total);
    memset(g.base, fill, g.total);
    g.pix = (uint8_t *)g.base + GUARD * 4;
    return g;
}

/* verify: every pixel inside `in` has all bits == !fillbit, everything else == fill */
static int gb_check(const gbuf_t *g, uint8_t fill, const uint8_t *in /* w*h */, int *bx, int *by, int *kind)
{
    const uint8_t *p = (const uint8_t *)g->base;
    for (int i = 0; i < GUARD * 4; i++) if (p[i] != fill || p[g->total - 1 - i] != fill) { *kind = 3; *bx = i; *by = -1; return 0; }
    uint32_t ones = g->bpp == 32 ? 0xffffffffu : ((1u << g->bpp) - 1);
    uint32_t vin = fill ? 0 : ones, vout = fill ? ones : 0;
    for (int y = 0; y < g->h; y++) {
        const uint8_t *row = g->pix + (size_t)y * g->stride;
        for (int x = 0; x < g->w; x++) {
            uint32_t v = ph_get_pixel(row, g->bpp, x);
            uint32_t e = in[y * g->w + x] ? vin : vout;
            if (v != e) { *bx = x; *by = y; *kind = in[y * g->w + x] ? 1 : 0; return 0; }
        }
        /* padding: bits after the last pixel up to the stride */
        int used_bits = g->w * g->bpp;
        for (int b = used_bits; b < g->stride * 8; b++) {
            int bit = (row[b >> 3] >> (b & 7)) & 1;
            if (bit != (fill & 1)) { *bx = b; *by = y; *kind = 2; return 0; }
        }
    }
    return 1;
}

static void c3_case(uint64_t idx, void *vctx)
{
    c3_ctx *c = vctx;
    int th = c->thorough;
    int nso = th ? NSOPT : NSOPT_Q;
    g_clip_history = (int)(idx % 3);             /* 0: fresh images; 1: each clipped image held a five-box clip before; 2: that, then an empty clip */
    int sz = (int)(idx % 2); idx /= 2;
    int fi = (int)(idx % NDFMT); idx /= NDFMT;
    int dclip_k = (int)(idx % 7); idx /= 7;
    int ai = (int)(idx % NAOPT); idx /= NAOPT;
    int so = (int)(idx % nso); idx /= nso;
    int mo = (int)(idx % (nso + 1)) - 1; idx /= (nso + 1);         /* -1: no mask */
    int mkind = (int)(idx % 3);                   /* mask image: a8 of 0xff | x8r8g8b8 (flagged opaque by the library: the mask is elided, its clip must not be) | opaque solid fill */
    if (mo < 0 && mkind) return;
    if (!th) { so = SOPT_Q[so]; if (mo >= 0) mo = SOPT_Q[mo]; }
    int W = DSIZE[sz][0], H = DSIZE[sz][1];
    pixman_format_code_t fmt = DFMT[fi]; int bpp = PIXMAN_FORMAT_BPP(fmt);
    clip_t dclip = make_clip(dclip_k, W, H);
    clip_t sclip = make_clip(SOPT[so].clip, W, H);
    clip_t mclip = make_clip(mo >= 0 ? SOPT[mo].clip : 0, W, H);
    int s_on = SOPT[so].clip && SOPT[so].clip_sources && SOPT[so].client_clip;
    int m_on = mo >= 0 && SOPT[mo].clip && SOPT[mo].clip_sources && SOPT[mo].client_clip;
    const aopt_t *ao = &AOPT[ai];
    int AW = W + ao->dw, AH = H + ao->dh; if (AW < 1) AW = 1; if (AH < 1) AH = 1;

    /* request alphabet */
    int XS[7] = { -2, -1, 0, 1, W - 1, W, W + 1 }, YS[4] = { -1, 0, 1, H };
    int WS[6] = { 0, 1, 2, W, W + 3, 1 << 30 }, HS[5] = { 0, 1, H, H + 2, 1 << 30 };
    uint8_t *in = malloc((size_t)W * H), *ain = malloc((size_t)AW * AH);
    uint64_t nontriv = 0, evals = 0, hh = idx;

    for (int run = 0; run < 2 && !vf_failed(); run++) {
        uint8_t fill = run ? 0xff : 0x00;
        /* source: opaque white (run 0) / transparent black (run 1), REPEAT_NORMAL so that any offset is valid */
        static uint32_t spix[64 * 4], mpix[64], spix_x8[64 * 4];
        for (int i = 0; i < 64 * 4; i++) { spix[i] = run ? 0x00000000 : 0xffffffff; spix_x8[i] = 0x00ffffff; }
        memset(mpix, 0xff, sizeof mpix);
        pixman_image_t *src = pixman_image_create_bits(PIXMAN_a8r8g8b8, W, H, spix, 64 * 4);
        pixman_image_set_repeat(src, PIXMAN_REPEAT_NORMAL);
        clip_apply(src, &sclip);
        /* "true" is any non-zero int (ph_truthy): 1 is not the only value a caller may pass */
        pixman_image_set_source_clipping(src, SOPT[so].clip_sources ? ph_truthy((uint64_t)so + (uint64_t)fi + 1) : 0);
        pixman_image_set_has_client_clip(src, SOPT[so].client_clip ? ph_truthy((uint64_t)so + (uint64_t)dclip_k) : 0);
        pixman_image_t *msk = NULL;
        if (mo >= 0) {
            pixman_color_t opaque_white = { 0xffff, 0xffff, 0xffff, 0xffff };
            msk = mkind == 0 ? pixman_image_create_bits(PIXMAN_a8, W, H, mpix, 64) : mkind == 1 ? pixman_image_create_bits(PIXMAN_x8r8g8b8, W, H, spix_x8, 64 * 4) : pixman_image_create_solid_fill(&opaque_white);
            pixman_image_set_repeat(msk, PIXMAN_REPEAT_NORMAL);
            clip_apply(msk, &mclip);
            pixman_image_set_source_clipping(msk, SOPT[mo].clip_sources ? ph_truthy((uint64_t)mo + (uint64_t)ai + 3) : 0);
            pixman_image_set_has_client_clip(msk, SOPT[mo].client_clip ? ph_truthy((uint64_t)mo + (uint64_t)sz + 1) : 0);
        }
        gbuf_t g = gb_make(bpp, W, H, fill), ga = gb_make(8, AW, AH, fill);
        pixman_image_t *dst = pixman_image_create_bits(fmt, W, H, (uint32_t *)g.pix, g.stride);
        pixman_image_t *amap = NULL;
        clip_apply(dst, &dclip);
        if (ao->kind) {
            amap = pixman_image_create_bits(PIXMAN_a8, AW, AH, (uint32_t *)ga.pix, ga.stride);
            /* the map is first attached at another origin and then moved: the region must follow the CURRENT origin */
            pixman_image_set_alpha_map(dst, amap, (int16_t)(ao->ox + 3), (int16_t)(ao->oy - 2));
            if (idx & 1) { uint32_t t4[4] = { 0, 0, 0, 0 }; pixman_image_t *tsrc = pixman_image_create_bits(PIXMAN_a8r8g8b8, 1, 1, t4, 4);
                           gbuf_t gt = gb_make(bpp, W, H, fill), gat = gb_make(8, AW, AH, fill); (void)gt; (void)gat;
                           pixman_image_composite32(PIXMAN_OP_DST, tsrc, NULL, dst, 0, 0, 0, 0, 0, 0, 1, 1);    /* a use in between (validates the image) */
                           pixman_image_unref(tsrc); free(gt.base); free(gat.base); }
            pixman_image_set_alpha_map(dst, amap, (int16_t)ao->ox, (int16_t)ao->oy);
        }
        for (int xi = 0; xi < 7 && !vf_failed(); xi++) for (int yi = 0; yi < 4; yi++) for (int wi = 0; wi < 6; wi++) for (int hi = 0; hi < 5; hi++) {
            int dx = XS[xi], dy = YS[yi], rw = WS[wi], rh = HS[hi];
            int sx = SOPT[so].off, sy = (so & 1), mx = mo >= 0 ? SOPT[mo].off : 0, my = 0;
            /* model */
            int any = 0;
            memset(ain, 0, (size_t)AW * AH);
            for (int y = 0; y < H; y++) for (int x = 0; x < W; x++) {
                int inside = x >= dx && (int64_t)x < (int64_t)dx + rw && y >= dy && (int64_t)y < (int64_t)dy + rh;
                inside = inside && clip_has(&dclip, x, y);
                if (ao->kind) inside = inside && x >= ao->ox && x < ao->ox + AW && y >= ao->oy && y < ao->oy + AH;
                if (s_on) inside = inside && clip_has(&sclip, x - dx + sx, y - dy + sy);
                if (m_on) inside = inside && clip_has(&mclip, x - dx + mx, y - dy + my);
                in[y * W + x] = (uint8_t)inside; any |= inside;
                if (inside && ao->kind) ain[(y - ao->oy) * AW + (x - ao->ox)] = 1;
            }
            memset(g.base, fill, g.total); memset(ga.base, fill, ga.total);
            /* the second run goes through the 16-bit entry point pixman_image_composite whenever the request fits its argument types */
            if (run == 1 && rw < 65536 && rh < 65536)
                pixman_image_composite(PIXMAN_OP_SRC, src, msk, dst, (int16_t)sx, (int16_t)sy, (int16_t)mx, (int16_t)my, (int16_t)dx, (int16_t)dy, (uint16_t)rw, (uint16_t)rh);
            else
                pixman_image_composite32(PIXMAN_OP_SRC, src, msk, dst, sx, sy, mx, my, dx, dy, rw, rh);
            vf_count_libcalls(1);
            int bx, by, kind;
            char what[400];
            snprintf(what, sizeof what, "dest %s %dx%d clip=%s alpha-map=%s@(%d,%d)%dx%d src{clip=%s cs=%d cc=%d off=%d} mask{%s clip=%s cs=%d cc=%d off=%d} request (%d,%d) %dx%d run=%d",
                     DFMT_N[fi], W, H, dclip.name, ao->kind ? "a8" : "none", ao->ox, ao->oy, AW, AH, sclip.name, SOPT[so].clip_sources, SOPT[so].client_clip, sx,
                     mo >= 0 ? (mkind == 0 ? "a8" : mkind == 1 ? "x8r8g8b8(opaque)" : "solid(opaque)") : "none", mclip.name, mo >= 0 ? SOPT[mo].clip_sources : 0, mo >= 0 ? SOPT[mo].client_clip : 0, mx, dx, dy, rw, rh, run);
            if (!gb_check(&g, fill, in, &bx, &by, &kind)) {
                static const char *kn[] = { "pixel outside the composite region was modified", "pixel inside the composite region was not drawn", "row padding modified", "guard area around the buffer modified" };
                static const char *kk[] = { "c03-wrote-outside-region", "c03-region-pixel-not-drawn", "c03-padding-modified", "c03-guard-modified" };
                vf_violation(kk[kind], "%s: %s at (%d,%d)", what, kn[kind], bx, by);
                break;
            }
            if (ao->kind && !gb_check(&ga, fill, ain, &bx, &by, &kind)) {
                vf_violation(kind == 1 ? "c03-alpha-map-pixel-not-drawn" : "c03-alpha-map-wrote-outside-region", "%s: alpha map %s at (%d,%d)", what, kind == 1 ? "not written inside the region" : "modified outside the region", bx, by);
                break;
            }
            /* pixman_compute_composite_region (16-bit API) reports exactly the model region */
            if (run == 0 && rw < 65536 && rh < 65536) {
                pixman_region16_t r16; pixman_region_init(&r16);
                int ret = pixman_compute_composite_region(&r16, src, msk, dst, (int16_t)sx, (int16_t)sy, (int16_t)mx, (int16_t)my, (int16_t)dx, (int16_t)dy, (uint16_t)rw, (uint16_t)rh);
                vf_count_libcalls(1);
                int n; pixman_box16_t *b = pixman_region_rectangles(&r16, &n);
                int bad = 0;
                if ((ret != 0) != (any != 0)) bad = 1;
                if (ret) for (int y = -2; y < H + 2 && !bad; y++) for (int x = -2; x < W + 2; x++) {
                    int rin = 0; for (int k = 0; k < n; k++) if (x >= b[k].x1 && x < b[k].x2 && y >= b[k].y1 && y < b[k].y2) rin = 1;
                    int min_ = (x >= 0 && x < W && y >= 0 && y < H) ? in[y * W + x] : 0;
                    if (rin != min_) { bad = 1; bx = x; by = y; break; }
                }
                if (bad) vf_violation("c03-compute-region-wrong", "%s: pixman_compute_composite_region returned %d with %d rectangles; model region is %s (first difference near (%d,%d))", what, ret, n, any ? "non-empty" : "empty", bx, by);
                pixman_region_fini(&r16);
                if (vf_failed()) break;
            }
            evals++; if (any) nontriv++;
            hh = vf_mix(hh, vf_hash64(in, (size_t)W * H, 1));
        }
        pixman_image_unref(src); if (msk) pixman_image_unref(msk); pixman_image_unref(dst); if (amap) pixman_image_unref(amap);
        free(g.base); free(ga.base);
    }
    free(in); free(ain);
    vf_count_eval(evals); vf_count_nontrivial(nontriv);
    if (!vf_in_confirm) vf_outcome(hh);
    if (vf_want_sample() && !vf_in_confirm && dclip_k == 2 && so == 2 && mo == 1)
        vf_sample("dest %s %dx%d clip=%s alpha-map#%d src-option#%d mask-option#%d: 840 request rectangles x 2 complementary runs + compute_composite_region", DFMT_N[fi], W, H, dclip.name, ai, so, mo);
}

/* ---------- clips of the ALPHA MAPS of source and mask ----------
 * A source's (mask's) alpha map may carry a client clip of its own; with source clipping enabled on it, it bounds the request like the image's own clip,
 * translated by the image's origin in the request minus the alpha map's origin in the image.  Source and mask origins differ, so each translation is seen. */
static void amapclip_case(uint64_t idx, void *vctx)
{
    (void)vctx;
    static const int SXS[3] = { 0, 2, -1 }, MXS[3] = { 0, 1, 3 }, AO[3][2] = { { 0, 0 }, { -1, 0 }, { -2, -1 } };       /* origins <= 0 and alpha maps two pixels larger: every pixel of the image has an alpha-map pixel (an alpha map does not repeat) */
    int dims[7] = { 3, 3, 3, 3, 2, 2, 2 }, d[7]; vf_decode(idx, dims, 7, d);
    int sx = SXS[d[0]], mx = MXS[d[1]], sao = d[2], mao = d[3], s_has = d[4], m_has = d[5], sy = d[6];
    enum { W = 12, H = 6 };
    clip_t ca = make_clip(1, W, H), cb = make_clip(2, W, H), big = make_clip(5, W, H);
    uint8_t in[W * H];
    for (int run = 0; run < 2 && !vf_failed(); run++) {
        uint8_t fill = run ? 0xff : 0x00;
        static uint32_t spix[64 * 8], apix[64 * 8]; static uint8_t mpix[64 * 8], ampix[64 * 8];
        for (int i = 0; i < 64 * 8; i++) { spix[i] = run ? 0 : 0xffffffffu; apix[i] = run ? 0 : 0xffffffffu; }
        memset(mpix, 0xff, sizeof mpix); memset(ampix, 0xff, sizeof ampix);
        pixman_image_t *src = pixman_image_create_bits(PIXMAN_a8r8g8b8, W, H, spix, 64 * 4), *sam = pixman_image_create_bits(PIXMAN_a8r8g8b8, W + 2, H + 2, apix, 64 * 4);
        pixman_image_t *msk = pixman_image_create_bits(PIXMAN_a8, W, H, (uint32_t *)mpix, 64), *mam = pixman_image_create_bits(PIXMAN_a8, W + 2, H + 2, (uint32_t *)ampix, 64);
        pixman_image_set_repeat(src, PIXMAN_REPEAT_NORMAL); pixman_image_set_repeat(msk, PIXMAN_REPEAT_NORMAL);
        pixman_image_set_repeat(sam, PIXMAN_REPEAT_NORMAL); pixman_image_set_repeat(mam, PIXMAN_REPEAT_NORMAL);
        if (s_has) { clip_apply(sam, &ca); pixman_image_set_source_clipping(sam, 1); pixman_image_set_has_client_clip(sam, 1); }
        if (m_has) { clip_apply(mam, &cb); pixman_image_set_source_clipping(mam, 1); pixman_image_set_has_client_clip(mam, 1); }
        clip_apply(msk, &big); pixman_image_set_source_clipping(msk, 1); pixman_image_set_has_client_clip(msk, 1);      /* the mask has a (non-restricting) clip of its own */
        pixman_image_set_alpha_map(src, sam, (int16_t)AO[sao][0], (int16_t)AO[sao][1]);
        pixman_image_set_alpha_map(msk, mam, (int16_t)AO[mao][0], (int16_t)AO[mao][1]);
        gbuf_t g = gb_make(32, W, H, fill);
        pixman_image_t *dst = pixman_image_create_bits(PIXMAN_a8r8g8b8, W, H, (uint32_t *)g.pix, g.stride);
        static const int RQ[3][4] = { { 0, 0, W, H }, { 1, 1, 9, 4 }, { -2, 0, 8, 7 } };
        for (int q = 0; q < 3 && !vf_failed(); q++) {
            int dx = RQ[q][0], dy = RQ[q][1], rw = RQ[q][2], rh = RQ[q][3], my = 0, any = 0;
            for (int y = 0; y < H; y++) for (int x = 0; x < W; x++) {
                int inside = x >= dx && x < dx + rw && y >= dy && y < dy + rh;
                /* the big mask clip (-3,-2)-(W+5,H+4) in mask coordinates */
                int mcx = x - dx + mx, mcy = y - dy + my; inside = inside && mcx >= -3 && mcx < W + 5 && mcy >= -2 && mcy < H + 4;
                if (s_has) inside = inside && clip_has(&ca, x - dx + sx - AO[sao][0], y - dy + sy - AO[sao][1]);
                if (m_has) inside = inside && clip_has(&cb, x - dx + mx - AO[mao][0], y - dy + my - AO[mao][1]);
                in[y * W + x] = (uint8_t)inside; any |= inside;
            }
            memset(g.base, fill, g.total);
            pixman_image_composite32(PIXMAN_OP_SRC, src, msk, dst, sx, sy, mx, my, dx, dy, rw, rh);
            vf_count_libcalls(1);
            int bx, by, kind; char what[300];
            snprintf(what, sizeof what, "dest a8r8g8b8 12x6, source at (%d,%d) with an alpha map at origin (%d,%d) %s, a8 mask at (%d,0) with an alpha map at origin (%d,%d) %s, request (%d,%d) %dx%d run=%d",
                     sx, sy, AO[sao][0], AO[sao][1], s_has ? "clipped to one rectangle (client clip, source clipping on)" : "unclipped", mx, AO[mao][0], AO[mao][1], m_has ? "clipped to an L of two rectangles" : "unclipped", dx, dy, rw, rh, run);
            if (!gb_check(&g, fill, in, &bx, &by, &kind)) {
                static const char *kk[] = { "c03-wrote-outside-region", "c03-region-pixel-not-drawn", "c03-padding-modified", "c03-guard-modified" };
                vf_violation(kk[kind], "%s: %s at (%d,%d) (the region includes the client clips of the alpha maps)", what, kind == 1 ? "pixel inside the composite region was not drawn" : "pixel outside the composite region was modified", bx, by);
                break;
            }
            pixman_region16_t r16; pixman_region_init(&r16);
            int ret = pixman_compute_composite_region(&r16, src, msk, dst, (int16_t)sx, (int16_t)sy, (int16_t)mx, (int16_t)my, (int16_t)dx, (int16_t)dy, (uint16_t)rw, (uint16_t)rh);
            int n; pixman_box16_t *b = pixman_region_rectangles(&r16, &n); int bad = (ret != 0) != (any != 0);
            if (ret) for (int y = 0; y < H && !bad; y++) for (int x = 0; x < W; x++) { int rin = 0; for (int k = 0; k < n; k++) if (x >= b[k].x1 && x < b[k].x2 && y >= b[k].y1 && y < b[k].y2) rin = 1; if (rin != in[y * W + x]) { bad = 1; bx = x; by = y; break; } }
            if (bad) vf_violation("c03-compute-region-wrong", "%s: pixman_compute_composite_region returned %d with %d rectangles; the model region is %s (first difference near (%d,%d))", what, ret, n, any ? "non-empty" : "empty", bx, by);
            pixman_region_fini(&r16);
        }
        pixman_image_unref(src); pixman_image_unref(msk); pixman_image_unref(sam); pixman_image_unref(mam); pixman_image_unref(dst); free(g.base);
    }
    vf_count_eval(6); vf_count_nontrivial(s_has || m_has ? 6 : 0);
    if (!vf_in_confirm) vf_outcome(idx);
}

/* ---------- other entry points: changed pixels are confined to bounds ∩ clip (∩ boxes) ---------- */
static void other_case(uint64_t idx, void *vctx)
{
    g_clip_history = (int)(idx % 3);
    int sz = (int)(idx % 2); idx /= 2; int fi = (int)(idx % NDFMT); idx /= NDFMT; int dclip_k = (int)(idx % 7); idx /= 7; int ep = (int)(idx % 5); idx /= 5; int geo = (int)idx;  /* 0..20 */
    int W = DSIZE[sz][0], H = DSIZE[sz][1];
    pixman_format_code_t fmt = DFMT[fi]; int bpp = PIXMAN_FORMAT_BPP(fmt);
    if ((ep == 3 || ep == 4) && !(fmt == PIXMAN_a8 || fmt == PIXMAN_a4 || fmt == PIXMAN_a1)) { if (ep == 4) return; }
    clip_t dclip = make_clip(dclip_k, W, H);
    int gx = (geo % 7) - 3 + (geo / 7) * (W / 2), gy = (geo % 3) - 1;    /* anchor of the shape */
    for (int run = 0; run < 2 && !vf_failed(); run++) {
        uint8_t fill = run ? 0xff : 0x00;
        gbuf_t g = gb_make(bpp, W, H, fill);
        pixman_image_t *dst = pixman_image_create_bits(fmt, W, H, (uint32_t *)g.pix, g.stride);
        clip_apply(dst, &dclip);
        pixman_color_t col = run ? (pixman_color_t){ 0, 0, 0, 0 } : (pixman_color_t){ 0xffff, 0xffff, 0xffff, 0xffff };
        pixman_image_t *solid = pixman_image_create_solid_fill(&col);
        uint8_t *allowed = calloc((size_t)W * H, 1);
        const char *epn = "";
        int clip_applies = 1;
        pixman_box32_t boxes[3] = { { gx, gy, gx + 3, gy + 2 }, { gx + 2, gy + 1, gx + W, gy + 2 }, { -5, H - 1, 2, H + 4 } };
        switch (ep) {
        case 0: { epn = "fill_boxes";
            /* one, two or three boxes: a single box (a large one, so that it spans the gaps of a multi-rectangle clip) may take a route of its own */
            int nb = 1 + geo % 3;
            if (nb == 1) { epn = "fill_boxes(one large box)"; boxes[0] = (pixman_box32_t){ gx - 1, gy, gx + W, gy + H }; }
            pixman_image_fill_boxes(PIXMAN_OP_SRC, dst, &col, nb, boxes);
            for (int y = 0; y < H; y++) for (int x = 0; x < W; x++) for (int k = 0; k < nb; k++) if (x >= boxes[k].x1 && x < boxes[k].x2 && y >= boxes[k].y1 && y < boxes[k].y2) allowed[y * W + x] = 1;
            break; }
        case 1: { epn = "fill_rectangles(8 rects)";
            pixman_rectangle16_t r[8];
            for (int k = 0; k < 8; k++) { r[k].x = (int16_t)(gx + k * 2); r[k].y = (int16_t)(gy + (k & 1)); r[k].width = 2; r[k].height = (uint16_t)(1 + (k % 3)); }
            int nr = (geo % 4 == 3) ? 1 : 8;
            if (nr == 1) { epn = "fill_rectangles(one large rect)"; r[0].x = (int16_t)(gx - 1); r[0].y = (int16_t)gy; r[0].width = (uint16_t)(W + 1); r[0].height = (uint16_t)H; }
            pixman_image_fill_rectangles(PIXMAN_OP_SRC, dst, &col, nr, r);
            for (int y = 0; y < H; y++) for (int x = 0; x < W; x++) for (int k = 0; k < nr; k++) if (x >= r[k].x && x < r[k].x + r[k].width && y >= r[k].y && y < r[k].y + r[k].height) allowed[y * W + x] = 1;
            break; }
        case 2: { epn = "composite_trapezoids";
            pixman_trapezoid_t t; t.top = pixman_int_to_fixed(gy) - 0x8000; t.bottom = pixman_int_to_fixed(gy + 2) + 0x4000;
            t.left.p1.x = pixman_int_to_fixed(gx); t.left.p1.y = t.top; t.left.p2.x = pixman_int_to_fixed(gx - 1); t.left.p2.y = t.bottom;
            t.right.p1.x = pixman_int_to_fixed(gx + 5) + 0x3000; t.right.p1.y = t.top; t.right.p2.x = pixman_int_to_fixed(gx + 9); t.right.p2.y = t.bottom;
            /* alpha-only destinations, even anchors: ADD of an opaque colour with the mask format of the destination - the request the library may
             * rasterise straight into the destination; the clip must hold all the same */
            if ((fmt == PIXMAN_a8 || fmt == PIXMAN_a4 || fmt == PIXMAN_a1) && !(geo & 1) && run == 0) {
                epn = "composite_trapezoids(ADD, opaque solid, mask format = destination format)";
                pixman_composite_trapezoids(PIXMAN_OP_ADD, solid, dst, fmt, 0, 0, 0, 0, 1, &t);
            } else
            pixman_composite_trapezoids(PIXMAN_OP_SRC, solid, dst, PIXMAN_a8, 0, 0, 0, 0, 1, &t);
            /* SRC through a mask may write (zero coverage -> 0) anywhere in the composite region, whose extents the library derives from
             * the trapezoid: the property bounds changes by clip ∩ bounds only */
            for (int i = 0; i < W * H; i++) allowed[i] = 1;
            break; }
        case 3: { epn = "composite_glyphs_no_mask";
            pixman_glyph_cache_t *cache = pixman_glyph_cache_create();
            static uint32_t gp[4] = { 0xffffffff, 0xffffffff, 0xffffffff, 0xffffffff };
            pixman_image_t *gi = pixman_image_create_bits(PIXMAN_a8, 3, 2, gp, 4);
            pixman_glyph_cache_freeze(cache);
            const void *gl = pixman_glyph_cache_insert(cache, (void *)1, (void *)2, 1, 1, gi);
            pixman_glyph_t gs[2] = { { gx, gy, gl }, { gx + W - 2, gy + 1, gl } };
            if (gl) pixman_composite_glyphs_no_mask(PIXMAN_OP_SRC, solid, dst, 0, 0, 0, 0, cache, 2, gs);
            pixman_glyph_cache_thaw(cache); pixman_glyph_cache_destroy(cache); pixman_image_unref(gi);
            for (int k = 0; k < 2; k++) for (int y = 0; y < H; y++) for (int x = 0; x < W; x++)
                if (x >= gs[k].x - 1 && x < gs[k].x - 1 + 3 && y >= gs[k].y - 1 && y < gs[k].y - 1 + 2) allowed[y * W + x] = 1;
            break; }
        case 4: { epn = "rasterize_trapezoid/add_traps (alpha-only destination)";
            clip_applies = 0;    /* these write straight into the image: only the bounds confine them */
            pixman_trapezoid_t t; t.top = pixman_int_to_fixed(gy) - 0x10000; t.bottom = pixman_int_to_fixed(gy + H + 2);
            t.left.p1.x = pixman_int_to_fixed(gx) - 0x20000; t.left.p1.y = t.top; t.left.p2.x = pixman_int_to_fixed(gx); t.left.p2.y = t.bottom;
            t.right.p1.x = pixman_int_to_fixed(gx + W + 3); t.right.p1.y = t.top; t.right.p2.x = pixman_int_to_fixed(gx + W); t.right.p2.y = t.bottom;
            pixman_rasterize_trapezoid(dst, &t, geo % 3 - 1, geo % 2);
            pixman_trap_t tr = { { t.left.p1.x, t.right.p1.x, t.top }, { t.left.p2.x, t.right.p2.x, t.bottom } };
            pixman_add_traps(dst, (int16_t)(geo % 3 - 1), 0, 1, &tr);
            for (int i = 0; i < W * H; i++) allowed[i] = 1;
            break; }
        }
        vf_count_libcalls(1);
        /* every pixel not allowed, or outside the clip, must be unchanged; padding and guards intact */
        const uint8_t *p = (const uint8_t *)g.base; int bad = 0; int bx = 0, by = 0;
        for (int i = 0; i < GUARD * 4 && !bad; i++) if (p[i] != fill || p[g.total - 1 - i] != fill) { bad = 3; bx = i; }
        uint32_t ones = bpp == 32 ? 0xffffffffu : ((1u << bpp) - 1), vout = fill ? ones : 0;
        uint64_t changed = 0;
        for (int y = 0; y < H && !bad; y++) {
            const uint8_t *row = g.pix + (size_t)y * g.stride;
            for (int x = 0; x < W; x++) {
                uint32_t v = ph_get_pixel(row, bpp, x);
                int ok_to_change = allowed[y * W + x] && (!clip_applies || clip_has(&dclip, x, y));
                if (v != vout) { changed++; if (!ok_to_change) { bad = 1; bx = x; by = y; break; } }
            }
            for (int b = W * bpp; b < g.stride * 8 && !bad; b++) if (((row[b >> 3] >> (b & 7)) & 1) != (fill & 1)) { bad = 2; bx = b; by = y; }
        }
        if (bad) {
            static const char *kk[] = { "", "c03-entry-wrote-outside-region", "c03-entry-padding-modified", "c03-entry-guard-modified" };
            const char *key = kk[bad];
            if (ep == 0 && dclip.none) key = "c03-fill-boxes-outside-bounds";
            vf_violation(key, "%s on dest %s %dx%d clip=%s shape anchor (%d,%d) run=%d: %s at (%d,%d)", epn, DFMT_N[fi], W, H, dclip.name, gx, gy, run,
                         bad == 1 ? "pixel outside the permitted region modified" : bad == 2 ? "row padding modified" : "memory outside the image modified", bx, by);
        }
        if (!vf_in_confirm) { vf_count_eval(1); if (changed) vf_count_nontrivial(1); vf_outcome(vf_mix(vf_hash64(g.pix, (size_t)g.stride * H, ep), idx)); }
        free(allowed);
        pixman_image_unref(dst); pixman_image_unref(solid); free(g.base);
    }
}

/* ---------- trapezoid entry points at the image's edges: top/bottom/left/right of the shape sweep fine positions around row 0, row H,
 * column 0 and column W; the image is a window in a larger buffer and every bit outside the window's pixels must be unchanged ---------- */
static const pixman_format_code_t TB_FMT[3] = { PIXMAN_a8, PIXMAN_a4, PIXMAN_a1 };
static const char *TB_FMTN[3] = { "a8", "a4", "a1" };
#define TB_NY 15
#define TB_NLX 4
#define TB_NRX 6
static void trap_bounds_case(uint64_t idx, void *vctx)
{
    (void)vctx;
    int dims[8] = { 4, 2, 3, 3, TB_NY, TB_NY, TB_NLX, TB_NRX }, d[8];
    vf_decode(idx, dims, 8, d);
    int ep = d[0], sz = d[1], fi = d[2], yoff = d[3] - 1, ti = d[4], bi = d[5], xoff = (d[3] * 2 + d[6]) % 3 - 1;
    if (ti >= bi) return;
    int W = DSIZE[sz][0], H = DSIZE[sz][1];
    pixman_format_code_t fmt = TB_FMT[fi]; int bpp = PIXMAN_FORMAT_BPP(fmt);
    const int32_t YV[TB_NY] = { -0x18000, -0x4000, 0, 0x4000, 0x8000, (H << 16) - 0xc000, (H << 16) - 0x4000, H << 16, (H << 16) + 1, (H << 16) + 0x4000, (H << 16) + 0x8000,
                                (H << 16) + 0xc000, (H << 16) + 0xffff, (H << 16) + 0x10000, (H << 16) + 0x18000 };
    const int32_t LX[TB_NLX] = { -0x28000, -0x4000, 0, 0x4ccc };
    const int32_t RX[TB_NRX] = { (W << 16) - 0x4ccc, W << 16, (W << 16) + 0x4000, (W << 16) + 0xffff, (W << 16) + 0x10000, (W << 16) + 0x30000 };
    /* destination-space geometry, then moved back by the offsets the entry point will add */
    pixman_fixed_t top = YV[ti] - (yoff << 16), bot = YV[bi] - (yoff << 16), lx = LX[d[6]] - (xoff << 16), rx = RX[d[7]] - (xoff << 16);
    static const char *EPN[4] = { "add_traps", "add_trapezoids", "rasterize_trapezoid", "add_triangles" };
    int stride = ((W * bpp + 31) / 32) * 4 + 4, rows = H + 4;      /* two spare rows above and below the window */
    size_t total = (size_t)stride * rows;
    for (int run = 0; run < 2 && !vf_failed(); run++) {
        uint8_t fill = run ? 0x55 : 0x00;
        uint8_t *buf = malloc(total), *ref = malloc(total); memset(buf, fill, total); memset(ref, fill, total);
        pixman_image_t *dst = pixman_image_create_bits(fmt, W, H, (uint32_t *)(buf + 2 * (size_t)stride), stride);
        pixman_trapezoid_t t = { top, bot, { { lx, top }, { lx + 0x8000, bot } }, { { rx, top }, { rx - 0x2000, bot } } };
        switch (ep) {
        case 0: { pixman_trap_t tr = { { lx, rx, top }, { lx + 0x8000, rx - 0x2000, bot } }; pixman_add_traps(dst, (int16_t)xoff, (int16_t)yoff, 1, &tr); break; }
        case 1: pixman_add_trapezoids(dst, (int16_t)xoff, yoff, 1, &t); break;
        case 2: pixman_rasterize_trapezoid(dst, &t, xoff, yoff); break;
        default: { pixman_triangle_t tri = { { lx, top }, { rx, top }, { lx + 0x8000, bot } }; pixman_add_triangles(dst, xoff, yoff, 1, &tri); break; }
        }
        vf_count_libcalls(1);
        pixman_image_unref(dst);
        int bad = 0; size_t at = 0; uint64_t changed = 0;
        for (int r = 0; r < rows && !bad; r++) {
            const uint8_t *row = buf + (size_t)r * stride;
            int inwin = r >= 2 && r < 2 + H;
            for (int b = 0; b < stride; b++) {
                if (row[b] == fill) continue;
                if (inwin && (b + 1) * 8 <= W * bpp) { changed++; continue; }                 /* wholly inside the window's pixels */
                if (inwin && b * 8 < W * bpp) {                                               /* the byte that holds the last pixels and the first padding bits */
                    int nb = W * bpp - b * 8; uint8_t padmask;
#ifdef WORDS_BIGENDIAN
                    padmask = (uint8_t)(0xff >> nb);
#else
                    padmask = (uint8_t)(0xff << nb);
#endif
                    if (((row[b] ^ fill) & padmask) == 0) { changed++; continue; }
                }
                bad = inwin ? 2 : 3; at = (size_t)r * stride + (size_t)b; break;
            }
        }
        if (bad) vf_violation(bad == 2 ? "c03-entry-padding-modified" : "c03-entry-guard-modified",
                              "%s on a %s %dx%d window (stride %d, two spare rows above and below), offsets (%d,%d), trapezoid top=%d bottom=%d left %d..%d right %d..%d (16.16; destination space top=%.5f bottom=%.5f), background %#x: "
                              "byte %zu of row %d (window rows are 0..%d) changed %#x -> %#x", EPN[ep], TB_FMTN[fi], W, H, stride, xoff, yoff, top, bot, lx, lx + 0x8000, rx, rx - 0x2000,
                              YV[ti] / 65536.0, YV[bi] / 65536.0, fill, at % (size_t)stride, (int)(at / (size_t)stride) - 2, H - 1, fill, buf[at]);
        if (!vf_in_confirm) { vf_count_eval(1); if (changed) vf_count_nontrivial(1); vf_outcome(vf_mix(vf_hash64(buf, total, (uint64_t)ep), (uint64_t)(fi * 2 + sz))); }
        free(buf); free(ref);
    }
}

/* ---------- trapezoid entry points: a pixel-aligned rectangle given as a trapezoid changes its own pixels and nothing else ----------
 * (the request of these entry points is the shape; its bounding box here is the shape itself).  Destinations a8 / a4 / a1, plain and behind accessor
 * callbacks (the rasterisers exist in two instantiations, direct and accessor), spans from one pixel to wider than any internal run optimisation. */
static uint32_t tb_acc_read(const void *p, int size) { return size == 1 ? *(const uint8_t *)p : size == 2 ? *(const uint16_t *)p : *(const uint32_t *)p; }
static void tb_acc_write(void *p, uint32_t v, int size) { if (size == 1) *(uint8_t *)p = (uint8_t)v; else if (size == 2) *(uint16_t *)p = (uint16_t)v; else *(uint32_t *)p = v; }
static void trap_box_case(uint64_t idx, void *vctx)
{
    (void)vctx;
    static const int X1[3] = { 0, 1, 4 }, BW_[8] = { 1, 5, 6, 7, 8, 16, 20, 32 };
    int dims[7] = { 5, 3, 2, 3, 8, 2, 2 }, d[7]; vf_decode(idx, dims, 7, d);
    int ep = d[0], fi = d[1], acc = d[2], x1 = X1[d[3]], x2 = x1 + BW_[d[4]], y1 = d[5], y2 = y1 + 1 + d[6];
    enum { W = 37, H = 4 };
    pixman_format_code_t fmt = TB_FMT[fi]; int bpp = PIXMAN_FORMAT_BPP(fmt);
    if (x2 > W) x2 = W;
    static const char *EPN[5] = { "add_traps", "add_trapezoids", "rasterize_trapezoid", "add_triangles(two halves of the rectangle)", "composite_trapezoids(ADD, opaque solid, mask format = destination format)" };
    const int stride = 48;                                        /* 37 pixels need 37 / 19 / 5 bytes: the rest of each row is padding that must survive */
    uint8_t big[H][48] __attribute__((aligned(4))), bigb[H][48];
    for (int y = 0; y < H; y++) for (int b = 0; b < 48; b++) big[y][b] = bigb[y][b] = bpp == 8 ? (uint8_t)(0x10 + (y * 7 + b * 3) % 0x30) : bpp == 4 ? (uint8_t)(((b + y) % 4) * 0x11) : 0;
    pixman_image_t *dst = pixman_image_create_bits(fmt, W, H, (uint32_t *)big, stride);
    if (acc) pixman_image_set_accessors(dst, tb_acc_read, tb_acc_write);
    pixman_fixed_t fx1 = pixman_int_to_fixed(x1), fx2 = pixman_int_to_fixed(x2), fy1 = pixman_int_to_fixed(y1), fy2 = pixman_int_to_fixed(y2);
    pixman_trapezoid_t t = { fy1, fy2, { { fx1, fy1 }, { fx1, fy2 } }, { { fx2, fy1 }, { fx2, fy2 } } };
    switch (ep) {
    case 0: { pixman_trap_t tr = { { fx1, fx2, fy1 }, { fx1, fx2, fy2 } }; pixman_add_traps(dst, 0, 0, 1, &tr); break; }
    case 1: pixman_add_trapezoids(dst, 0, 0, 1, &t); break;
    case 2: pixman_rasterize_trapezoid(dst, &t, 0, 0); break;
    case 3: { pixman_triangle_t tri[2] = { { { fx1, fy1 }, { fx2, fy1 }, { fx1, fy2 } }, { { fx2, fy1 }, { fx2, fy2 }, { fx1, fy2 } } }; pixman_add_triangles(dst, 0, 0, 2, tri); break; }
    default: { pixman_color_t c = { 0xffff, 0xffff, 0xffff, 0xffff }; pixman_image_t *solid = pixman_image_create_solid_fill(&c);
               pixman_composite_trapezoids(PIXMAN_OP_ADD, solid, dst, fmt, 0, 0, 0, 0, 1, &t); pixman_image_unref(solid); break; }
    }
    vf_count_libcalls(1);
    pixman_image_unref(dst);
    uint64_t changed = 0;
    for (int y = 0; y < H && !vf_failed(); y++) for (int x = 0; x < 48 * 8 / bpp; x++) {
        uint32_t was = ph_get_pixel(bigb[y], bpp, x), now = ph_get_pixel(big[y], bpp, x);
        int inside = x >= x1 && x < x2 && y >= y1 && y < y2 && x < W;
        if (now != was) changed++;
        if (!inside && now != was) {
            vf_violation(x >= W ? "c03-entry-padding-modified" : "c03-entry-wrote-outside-shape", "%s, destination %s %dx%d%s: the rectangle x[%d,%d) y[%d,%d) given as a trapezoid changed pixel (%d,%d) %#x -> %#x, which lies outside it",
                         EPN[ep], TB_FMTN[fi], W, H, acc ? " behind accessor callbacks" : "", x1, x2, y1, y2, x, y, was, now);
            break;
        }
        if (inside && ep != 3 && now != ((1u << bpp) - 1)) {
            vf_violation("c03-entry-shape-pixel-not-covered", "%s, destination %s %dx%d%s: the rectangle x[%d,%d) y[%d,%d) given as a trapezoid left pixel (%d,%d) at %#x (was %#x): a fully covered pixel saturates",
                         EPN[ep], TB_FMTN[fi], W, H, acc ? " behind accessor callbacks" : "", x1, x2, y1, y2, x, y, now, was);
            break;
        }
    }
    if (!vf_in_confirm) { vf_count_eval(1); vf_count_nontrivial(changed != 0); vf_outcome(vf_mix(vf_hash64(big, sizeof big, (uint64_t)ep), (uint64_t)fi)); }
}

int main(int argc, char **argv)
{
    vf_init(argc, argv, "C03", "exploration");
    vf_quick_is_deep();      /* the larger alphabets complete in well under a minute: the quick tier uses them too */
    int th = vf_is_thorough();
    vf_rule = "E1: a case fixes (destination size, format, destination clip, destination alpha map, source option = clip shape x clip_sources x client_clip x offset, mask option) and "
              "executes 840 request rectangles (x in {-2,-1,0,1,W-1,W,W+1}, y in {-1,0,1,H}, w in {0,1,2,W,W+3,2^30}, h in {0,1,H,H+2,2^30}) twice (complementary fill/source) with OP_SRC; "
              "every bit of the destination, its padding, guard words and the alpha-map buffer is compared with the boolean-grid model, and pixman_compute_composite_region's answer with "
              "the model region. evaluations = requests; non-trivial = non-empty model region; outcomes = distinct model-region sequences per case.";
    vf_assume("clip regions set on alpha-map images are not in the alphabet (the statement does not list them among the intersected sets)");
    vf_assume("request coordinates within int32 arithmetic (x + width does not overflow)");
    c3_ctx c = { th };
    int nso = th ? NSOPT : NSOPT_Q;
    vf_space_run("composite32-and-compute-region", (uint64_t)2 * NDFMT * 7 * NAOPT * nso * (nso + 1) * 3, c3_case, &c);
    vf_space_run("clips-of-source-and-mask-alpha-maps", 3 * 3 * 3 * 3 * 2 * 2 * 2, amapclip_case, NULL);
    vf_space_run("fill-glyph-trapezoid-entry-points", (uint64_t)2 * NDFMT * 7 * 5 * 21, other_case, NULL);
    vf_space_run("trapezoid-entry-points-pixel-aligned-rectangles", 5 * 3 * 2 * 3 * 8 * 2 * 2, trap_box_case, NULL);
    vf_space_run("trapezoid-entry-points-at-the-edges", (uint64_t)4 * 2 * 3 * 3 * TB_NY * TB_NY * TB_NLX * TB_NRX, trap_bounds_case, NULL);
    vf_bounds = th ? "2 sizes x 6 formats x 7 destination clips x 4 alpha-map options x 15 source options x 16 mask options (mask image a8 / opaque x8r8g8b8 / opaque solid) x 840 rectangles x 2 runs; other entry points: 5 x 21 anchors; trapezoid edges: 4 entry points x 3 alpha formats x 2 sizes x 3 offsets x 105 (top,bottom) x 24 (left,right) x 2 backgrounds"
                   : "2 sizes x 6 formats x 7 destination clips x 4 alpha-map options x 7 source options x 8 mask options (mask image a8 / opaque x8r8g8b8 / opaque solid) x 840 rectangles x 2 runs; other entry points: 5 x 21 anchors";
    return vf_finish();
}
