/* C16 companion: hand-off histories.  An image may be used by several threads as long as the uses do not overlap (the caller
 * synchronises).  Whatever the library remembers per thread (dispatch cache, anything keyed by image address) must not make
 * the result depend on WHICH thread issued each request: every history of `len` steps over the step alphabet below, with every
 * assignment of the steps to two threads, is executed with a strict hand-off (semaphores: no two requests ever overlap) and the
 * private destination's digest after every step is compared with the same history executed by a single thread.
 * Exhaustive over (steps ^ len) x (2 ^ len); no scheduling nondeterminism is left, so one execution per history decides it. */
#include <pixman.h>
#include <pthread.h>
#include <semaphore.h>
#include <stdint.h>
#include <stdio.h>
#include <stdlib.h>
#include <string.h>

#define SW 8
#define SH 8
#define BW 48            /* the source is a window of a larger buffer: reads outside it pick up a colour no source pixel has */
#define BH 48
#define DW 12
#define DH 6
#define MAXLEN 5

enum { ST_DRAW, ST_DRAW_ELSEWHERE, ST_XLATE_SMALL, ST_XLATE_FAR, ST_SCALE_HUGE, ST_BILINEAR, ST_REPEAT_PAD, ST_IDENTITY_NEAREST, ST_RECREATE, ST_CLIP, NSTEPS };
static const char *STN[NSTEPS] = { "draw", "draw with another operator at another place (OVER, other source origin)", "set_transform(translate 2,2)+draw", "set_transform(translate 12,12)+draw", "set_transform(scale 20000)+draw", "set_filter(BILINEAR)+draw",
                                   "set_repeat(PAD)+draw", "set_transform(NULL)+set_filter(NEAREST)+set_repeat(NONE)+draw", "destroy the source, create another of the same size (usually at the same address)+draw",
                                   "set_clip_region(3,0 3x8)+source clipping+draw" };

typedef struct {
    uint32_t backing[BW * BH]; uint32_t dst[DW * DH];
    pixman_image_t *src, *dimg; int generation;
} world_t;

static void make_src(world_t *w)
{
    for (int i = 0; i < BW * BH; i++) w->backing[i] = 0xff00ff00u;
    for (int y = 0; y < SH; y++) for (int x = 0; x < SW; x++) w->backing[(16 + y) * BW + 16 + x] = 0xff000000u | (uint32_t)(0x10 + 0x11 * x + 0x05 * w->generation) << 16 | (uint32_t)(0x20 + 0x13 * y);
    w->src = pixman_image_create_bits(PIXMAN_a8r8g8b8, SW, SH, w->backing + 16 * BW + 16, BW * 4);
}
static void world_init(world_t *w)
{
    memset(w, 0, sizeof *w);
    make_src(w);
    for (int i = 0; i < DW * DH; i++) w->dst[i] = 0x11111111u * (uint32_t)(1 + i % 7);
    w->dimg = pixman_image_create_bits(PIXMAN_a8r8g8b8, DW, DH, w->dst, DW * 4);
}
static void world_fini(world_t *w) { pixman_image_unref(w->src); pixman_image_unref(w->dimg); }

static void do_step(world_t *w, int st)
{
    pixman_transform_t t;
    switch (st) {
    case ST_DRAW: break;
    case ST_DRAW_ELSEWHERE: pixman_image_composite32(PIXMAN_OP_OVER, w->src, NULL, w->dimg, 1, 1, 0, 0, 7, 0, 4, 5); return;
    case ST_XLATE_SMALL: pixman_transform_init_translate(&t, 2 << 16, 2 << 16); pixman_image_set_transform(w->src, &t); break;
    case ST_XLATE_FAR: pixman_transform_init_translate(&t, 12 << 16, 12 << 16); pixman_image_set_transform(w->src, &t); break;
    case ST_SCALE_HUGE: pixman_transform_init_scale(&t, 20000 << 16, 20000 << 16); pixman_image_set_transform(w->src, &t); break;
    case ST_BILINEAR: pixman_image_set_filter(w->src, PIXMAN_FILTER_BILINEAR, NULL, 0); break;
    case ST_REPEAT_PAD: pixman_image_set_repeat(w->src, PIXMAN_REPEAT_PAD); break;
    case ST_IDENTITY_NEAREST: pixman_image_set_transform(w->src, NULL); pixman_image_set_filter(w->src, PIXMAN_FILTER_NEAREST, NULL, 0); pixman_image_set_repeat(w->src, PIXMAN_REPEAT_NONE); break;
    case ST_RECREATE: pixman_image_unref(w->src); w->generation++; make_src(w); break;
    case ST_CLIP: { pixman_region32_t r; pixman_region32_init_rect(&r, 3, 0, 3, 8); pixman_image_set_clip_region32(w->src, &r); pixman_region32_fini(&r);
                    pixman_image_set_has_client_clip(w->src, 1); pixman_image_set_source_clipping(w->src, 1); break; }
    }
    /* one request per step, always the same one: whatever a thread remembers about "the last request" stays in place until its next step */
    pixman_image_composite32(PIXMAN_OP_SRC, w->src, NULL, w->dimg, 0, 0, 0, 0, 1, 1, 6, 4);
}
static uint64_t digest(const world_t *w)
{
    uint64_t h = 0xcbf29ce484222325ULL; const unsigned char *p = (const unsigned char *)w->dst;
    for (size_t i = 0; i < sizeof w->dst; i++) { h ^= p[i]; h *= 0x100000001b3ULL; }
    return h;
}

/* two workers per history, driven by the main thread one step at a time */
typedef struct { sem_t go, done; world_t *w; volatile int step; volatile int quit; } worker_t;
static void *worker(void *v)
{
    worker_t *k = v;
    for (;;) { sem_wait(&k->go); if (k->quit) break; do_step(k->w, k->step); sem_post(&k->done); }
    return NULL;
}
static void run_history(const int *steps, int len, unsigned assign, uint64_t *dig)
{
    world_t w; world_init(&w);
    worker_t k[2]; pthread_t th[2];
    for (int i = 0; i < 2; i++) { sem_init(&k[i].go, 0, 0); sem_init(&k[i].done, 0, 0); k[i].w = &w; k[i].quit = 0; pthread_create(&th[i], NULL, worker, &k[i]); }
    for (int s = 0; s < len; s++) {
        worker_t *x = &k[(assign >> s) & 1];
        x->step = steps[s]; sem_post(&x->go); sem_wait(&x->done);
        dig[s] = digest(&w);
    }
    for (int i = 0; i < 2; i++) { k[i].quit = 1; sem_post(&k[i].go); pthread_join(th[i], NULL); sem_destroy(&k[i].go); sem_destroy(&k[i].done); }
    world_fini(&w);
}

int main(int argc, char **argv)
{
    setvbuf(stdout, NULL, _IOLBF, 0);          /* a mismatch found before a later crash must not be lost */
    int len = argc > 1 ? atoi(argv[1]) : 3; if (len < 1 || len > MAXLEN) len = 3;
    uint64_t total = 1; for (int i = 0; i < len; i++) total *= NSTEPS;
    uint64_t histories = 0, executions = 0, mismatches = 0, distinct_last = 0, prev = 0;
    for (uint64_t h = 0; h < total; h++) {
        int steps[MAXLEN]; uint64_t r = h; for (int i = 0; i < len; i++) { steps[i] = (int)(r % NSTEPS); r /= NSTEPS; }
        uint64_t ref[MAXLEN], got[MAXLEN];
        run_history(steps, len, 0, ref); executions++;
        if (ref[len - 1] != prev) { distinct_last++; prev = ref[len - 1]; }
        for (unsigned a = 1; a < (1u << len); a++) {
            run_history(steps, len, a, got); executions++;
            for (int s = 0; s < len; s++) if (got[s] != ref[s]) {
                if (mismatches < 20) {
                    printf("HANDOFF-MISMATCH after step %d of history [", s + 1);
                    for (int i = 0; i < len; i++) printf("%sT%u: %s", i ? "; " : "", (a >> i) & 1, STN[steps[i]]);
                    printf("]: destination digest %016llx, the same history on one thread gives %016llx\n", (unsigned long long)got[s], (unsigned long long)ref[s]);
                }
                mismatches++; break;
            }
        }
        histories++;
    }
    printf("HANDOFF-DONE len=%d steps=%d histories=%llu executions=%llu distinct_outcomes>=%llu mismatches=%llu\n", len, NSTEPS, (unsigned long long)histories,
           (unsigned long long)executions, (unsigned long long)distinct_last, (unsigned long long)mismatches);
    return mismatches ? 1 : 0;
}
