/* c13_ref.h — reference model for gradient sources (property C13), long double throughout.
 *
 * Independent of the library: no pixman header is needed here.  Units are user-space
 * (1.0 = one pixel, t dimensionless, colours in [0,1] non-premultiplied at the stops,
 * results premultiplied in 1/255 units).
 *
 *   ref_color()        colour of the stop list at parameter t under a repeat mode
 *   ref_hull()         set-valued acceptance around t: per-channel hull of the colour over
 *                      [t-D, t+D] (D = 2^-15), sampled at t-D, t, t+D and on both sides of every
 *                      discontinuity candidate inside the window
 *   ref_linear_t / ref_radial / ref_conical_t    geometric parameter of a point
 */
#ifndef C13_REF_H
#define C13_REF_H
#include <math.h>
#include <string.h>

#define C13_MAXSTOPS 8
#define C13_D   (1.0L / 32768.0L)          /* 2^-15: admitted uncertainty of t */
#define C13_EPS (1.0L / 1073741824.0L)     /* 2^-30: "just left / just right" of a discontinuity */

enum { R_NONE = 0, R_NORMAL = 1, R_PAD = 2, R_REFLECT = 3 }; /* same numbering as pixman_repeat_t */

typedef struct { long double x; long double c[4]; } c13_stop;      /* c = a, r, g, b in [0,1], not premultiplied */
typedef struct { int n; c13_stop s[C13_MAXSTOPS]; int repeat; } c13_grad;

static inline void c13_premul(const long double c[4], long double out[4])
{
    out[0] = 255.0L * c[0];
    out[1] = 255.0L * c[0] * c[1];
    out[2] = 255.0L * c[0] * c[2];
    out[3] = 255.0L * c[0] * c[3];
}

static inline void c13_lerp(const c13_stop *l, long double lx, const c13_stop *r, long double rx, long double x, long double out[4])
{
    long double c[4];
    if (rx > lx) {
        long double w = (x - lx) / (rx - lx);
        for (int k = 0; k < 4; k++) c[k] = l->c[k] + w * (r->c[k] - l->c[k]);
    } else {
        for (int k = 0; k < 4; k++) c[k] = 0.5L * (l->c[k] + r->c[k]);
    }
    c13_premul(c, out);
}

/* Colour at parameter t.  Stop positions are non-decreasing.  Stop search: the interval is
 * [s[i-1].x, s[i].x) with i the first index whose position is strictly greater than the folded
 * parameter (so of two stops at the same position the left one closes the interval before it and
 * the right one opens the interval after it).  Outside the stop range the colour is given by the
 * repeat mode (the library keeps these as sentinel stops [-1] and [n]):
 *   NONE     transparent before the first and from the last stop on
 *   PAD      first / last stop colour
 *   NORMAL   the list continues periodically: (x_last - 1, c_last) before, (x_first + 1, c_first) after
 *   REFLECT  the list continues mirrored: (-x_first, c_first) before, (2 - x_last, c_last) after       */
static void ref_color(const c13_grad *g, long double t, long double out[4])
{
    int n = g->n, i;
    long double x = t;
    const c13_stop *s = g->s;
    if (g->repeat == R_NORMAL) x = t - floorl(t);
    else if (g->repeat == R_REFLECT) {
        long double u = t - 2.0L * floorl(t / 2.0L);   /* [0,2) */
        x = u <= 1.0L ? u : 2.0L - u;
    }
    for (i = 0; i < n; i++) if (x < s[i].x) break;
    if (i > 0 && i < n) { c13_lerp(&s[i - 1], s[i - 1].x, &s[i], s[i].x, x, out); return; }
    switch (g->repeat) {
    case R_NONE:
        out[0] = out[1] = out[2] = out[3] = 0; return;
    case R_PAD: case R_REFLECT:
        c13_premul(i == 0 ? s[0].c : s[n - 1].c, out); return;
    default: /* NORMAL */
        if (i == 0) c13_lerp(&s[n - 1], s[n - 1].x - 1.0L, &s[0], s[0].x, x, out);
        else        c13_lerp(&s[n - 1], s[n - 1].x, &s[0], s[0].x + 1.0L, x, out);
        return;
    }
}

typedef struct { long double lo[4], hi[4]; } c13_hull;

static inline void c13_hull_add(c13_hull *h, const long double c[4], int first)
{
    for (int k = 0; k < 4; k++) {
        if (first || c[k] < h->lo[k]) h->lo[k] = c[k];
        if (first || c[k] > h->hi[k]) h->hi[k] = c[k];
    }
}

/* Per-channel hull of ref_color over [t-D, t+D]. */
static void ref_hull(const c13_grad *g, long double t, c13_hull *h)
{
    long double c[4];
    long double lo = t - C13_D, hi = t + C13_D;
    ref_color(g, lo, c); c13_hull_add(h, c, 1);
    ref_color(g, t, c);  c13_hull_add(h, c, 0);
    ref_color(g, hi, c); c13_hull_add(h, c, 0);
    /* discontinuity candidates: k +- x_i, k +- {0,1} for the periods touching the window */
    long double k0 = floorl(lo) - 1.0L, k1 = floorl(hi) + 1.0L;
    if (g->repeat == R_NONE || g->repeat == R_PAD) k0 = k1 = 0.0L;
    for (long double k = k0; k <= k1; k += 1.0L) {
        for (int i = -2; i < g->n; i++) {
            long double xi = i == -2 ? 0.0L : i == -1 ? 1.0L : g->s[i].x;
            for (int sg = 0; sg < 2; sg++) {
                long double sp = sg ? k - xi : k + xi;
                if (sp < lo || sp > hi) continue;
                if (sp - C13_EPS >= lo) { ref_color(g, sp - C13_EPS, c); c13_hull_add(h, c, 0); }
                if (sp + C13_EPS <= hi) { ref_color(g, sp + C13_EPS, c); c13_hull_add(h, c, 0); }
                ref_color(g, sp, c); c13_hull_add(h, c, 0);
            }
        }
    }
}

/* ---- geometry ------------------------------------------------------------------------------ */

/* 3x3 homogeneous transform applied to the pixel centre; returns 0 when w is (nearly) zero */
static int ref_map_point(const long double m[3][3], int has_m, int px, int py, long double *ox, long double *oy)
{
    long double x = px + 0.5L, y = py + 0.5L;
    if (!has_m) { *ox = x; *oy = y; return 1; }
    long double X = m[0][0] * x + m[0][1] * y + m[0][2];
    long double Y = m[1][0] * x + m[1][1] * y + m[1][2];
    long double W = m[2][0] * x + m[2][1] * y + m[2][2];
    if (fabsl(W) < 1e-9L) return 0;
    *ox = X / W; *oy = Y / W;
    return 1;
}

/* linear: projection of p onto p1->p2, 0 at p1 and 1 at p2.  Returns 0 if p1 == p2 (undefined). */
static int ref_linear_t(long double p1x, long double p1y, long double p2x, long double p2y,
                        long double x, long double y, long double *t)
{
    long double dx = p2x - p1x, dy = p2y - p1y, l = dx * dx + dy * dy;
    if (l == 0) return 0;
    *t = ((x - p1x) * dx + (y - p1y) * dy) / l;
    return 1;
}

/* conical: t = 1 - frac((atan2(dy,dx) + angle)/2pi) in (0,1]; angle in degrees.  Returns 0 at the
 * centre itself (undefined). */
static int ref_conical_t(long double cx, long double cy, long double angle_deg, long double x, long double y, long double *t)
{
    long double dx = x - cx, dy = y - cy;
    if (fabsl(dx) < 1e-9L && fabsl(dy) < 1e-9L) return 0;
    long double a = fmodl(angle_deg, 360.0L); if (a < 0) a += 360.0L;
    long double th = (atan2l(dy, dx) / (2.0L * M_PIl)) + a / 360.0L;
    th -= floorl(th);
    *t = 1.0L - th;
    return 1;
}

/* radial (PDF type 3 shading): circles ((1-t)c1 + t c2, (1-t)r1 + t r2); the pixel takes the largest
 * t with radius >= 0 (and 0 <= t <= 1 under REPEAT_NONE) whose circle passes through it, and is
 * transparent if there is none.  Set-valued: every root whose admissibility is within D of flipping
 * may or may not be taken; a root pair within D of merging/vanishing may or may not exist.
 *   out->nt candidate parameters, out->transparent = transparent is an allowed outcome,
 *   returns 0 if the point is undefined (identical circles and the point on them). */
typedef struct { int nt; long double t[2]; int transparent; } c13_radial_out;

static int c13_adm(long double t, long double r1, long double dr, int repeat)
{
    /* 2 = admissible, 1 = borderline, 0 = not */
    int st = 2;
    if (dr != 0) {
        long double r = r1 + t * dr, tol = C13_D * fabsl(dr);
        if (r < -tol) return 0;
        if (r <= tol) st = 1;
    }
    if (repeat == R_NONE) {
        if (t < -C13_D || t > 1.0L + C13_D) return 0;
        if (t <= C13_D || t >= 1.0L - C13_D) st = 1;
    }
    return st;
}

static int ref_radial(long double c1x, long double c1y, long double r1, long double c2x, long double c2y, long double r2,
                      int repeat, long double x, long double y, c13_radial_out *out)
{
    long double cdx = c2x - c1x, cdy = c2y - c1y, dr = r2 - r1, pdx = x - c1x, pdy = y - c1y;
    long double A = cdx * cdx + cdy * cdy - dr * dr;
    long double B = pdx * cdx + pdy * cdy + r1 * dr;
    long double C = pdx * pdx + pdy * pdy - r1 * r1;
    long double roots[2]; int nr = 0, maybe_none = 0;
    out->nt = 0; out->transparent = 0;
    if (A == 0) {
        if (B == 0) {
            if (fabsl(C) < 1e-12L) return 0;
            out->transparent = 1; return 1;
        }
        roots[nr++] = C / (2.0L * B);
    } else {
        long double D = B * B - A * C, thr = C13_D * C13_D * A * A;
        if (D < -thr) { out->transparent = 1; return 1; }
        if (fabsl(D) <= thr) maybe_none = 1;
        long double sq = sqrtl(D > 0 ? D : 0);
        long double q = B >= 0 ? B + sq : B - sq, ta, tb;
        if (q == 0) ta = tb = 0;
        else { ta = q / A; tb = C / q; }
        if (ta >= tb) { roots[0] = ta; roots[1] = tb; } else { roots[0] = tb; roots[1] = ta; }
        nr = 2;
    }
    int decided = 0;
    for (int i = 0; i < nr && !decided; i++) {
        int st = c13_adm(roots[i], r1, dr, repeat);
        if (st >= 1) out->t[out->nt++] = roots[i];
        if (st == 2) decided = 1;
    }
    if (!decided || maybe_none) out->transparent = 1;
    return 1;
}

#endif
