/* C15 — any allocation failure is survived: no crash, no leak, failure is reported.
 *
 * Engine E3 (deviation-bounded environment exploration), level "fault_enumeration".
 * The environment answer that is enumerated is "does this allocation succeed?".  For every
 * scenario (a short piece of client code around one or a few API calls) the harness first runs
 * it fault-free and numbers the allocation calls the LIBRARY makes inside the API calls under
 * test (1..N); then it executes, on the real code, every schedule
 *     single k        only the k-th call fails                       k = 1..N
 *     persistent k    every call from the k-th on fails              k = 1..N
 *     pair (i,j)      calls i and j fail; j ranges over all calls that the execution with
 *                     "only i fails" makes after i (measured in a pre-pass, so j is always reached)
 *     single+persistent (i,j)   [thorough] i fails, then everything from j on fails
 *     triple (i,j,l)  [thorough] three single failures, l over every later call of the pair run
 * Nothing is sampled.  Oracle: see DESIGN §3 C15 and the helpers in c15_core.h / c15_region_body.h.
 *
 * Variant "asan" + -Wl,--wrap=malloc,calloc,realloc,free,posix_memalign: the wrappers in
 * c15_fault.h decide, count and keep the live-block table; AddressSanitizer stays underneath as
 * the oracle for overruns, use-after-free and double free.
 */
#include "vf.h"
#include <pixman.h>
#include <link.h>
#include "c15_fault.h"
#include "c15_core.h"
#define RB 32
#include "c15_region_body.h"
#undef RB
#define RB 16
#include "c15_region_body.h"
#undef RB
#include "c15_scen_a.h"
#include "c15_scen_b.h"

typedef struct { const char *name; void (*fn) (T *); int thorough_only; } scen_t;
static const scen_t SC[] = {
    { "ctor-bits", sc_ctor_bits }, { "ctor-bits-own-buffer", sc_ctor_bits_own }, { "ctor-solid", sc_ctor_solid },
    { "ctor-linear", sc_ctor_linear }, { "ctor-radial", sc_ctor_radial }, { "ctor-conical", sc_ctor_conical },
    { "set-transform", sc_set_transform }, { "set-filter-convolution", sc_set_filter_conv }, { "filter-separable", sc_filter_separable },
    { "set-clip32", sc_set_clip32 }, { "set-clip16-small", sc_set_clip16_small }, { "set-clip16-big", sc_set_clip16_big },
    { "conv-32-from-16", sc_conv_32_from_16 }, { "conv-16-from-32", sc_conv_16_from_32 }, { "compute-composite-region16", sc_compute_region16 },
    { "conv-16-from-32-into-owned", sc_conv_16_from_32_owned }, { "compute-composite-region16-reused-result", sc_compute_region16_reused },
#define REG(p) \
    { #p "-copy", p##_sc_copy }, { #p "-union-disjoint", p##_sc_union_disjoint }, { #p "-union-alias", p##_sc_union_alias }, \
    { #p "-union-small-heap-dst", p##_sc_union_small_heap_dst }, { #p "-union-cross", p##_sc_union_cross }, \
    { #p "-intersect-cross", p##_sc_intersect_cross }, { #p "-subtract-cross", p##_sc_subtract_cross }, \
    { #p "-subtract-single-minus-many", p##_sc_subtract_single_minus_many }, { #p "-inverse", p##_sc_inverse }, \
    { #p "-rect-ops", p##_sc_rect_ops }, { #p "-init-rects-banded", p##_sc_init_rects_banded }, \
    { #p "-init-rects-overlap", p##_sc_init_rects_overlap }, { #p "-init-rects-append", p##_sc_init_rects_append }, \
    { #p "-init-rects-scattered", p##_sc_init_rects_scattered }, { #p "-intersect-downsize", p##_sc_intersect_downsize }, { #p "-covering-operand-shortcuts", p##_sc_covering_operand }, { #p "-init-from-image", p##_sc_init_from_image }
    REG (r32), REG (r16),
    { "comp-heap-narrow", sc_comp_heap_narrow }, { "comp-heap-narrow-clip3", sc_comp_heap_narrow_clip }, { "comp-heap-wide", sc_comp_heap_wide },
    { "comp-float-store", sc_comp_float_store }, { "comp-float-store-clip3", sc_comp_float_store_clip }, { "comp-wide-by-operator", sc_comp_wide_by_operator },
    { "comp-clips-mask", sc_comp_clips_mask }, { "alpha-map-narrow", sc_alpha_map_narrow }, { "alpha-map-wide", sc_alpha_map_wide },
    { "bilinear-cover-xor", sc_bilinear_cover_xor }, { "bilinear-cover-src", sc_bilinear_cover_src },
    { "bilinear-cover-fast-xor", sc_bilinear_cover_fast_xor }, { "bilinear-cover-fast-src", sc_bilinear_cover_fast_src },
    { "fill-rects-src8", sc_fill_rects_src8 }, { "fill-rects-over8", sc_fill_rects_over8 }, { "fill-rects-stack", sc_fill_rects_stack }, { "fill-rects-src-clip3", sc_fill_rects_src_clip },
    { "fill-boxes-src", sc_fill_boxes_src }, { "fill-boxes-src-clip3", sc_fill_boxes_src_clip }, { "fill-boxes-over", sc_fill_boxes_over }, { "fill-boxes-over-clip3", sc_fill_boxes_over_clip },
    { "traps-mask", sc_traps_mask }, { "traps-mask-wide", sc_traps_mask_wide }, { "triangles", sc_triangles }, { "add-triangles", sc_add_triangles },
    { "glyphs-same-format", sc_glyphs_same_format }, { "glyphs-white", sc_glyphs_white }, { "glyphs-white-src", sc_glyphs_white_src },
    { "glyphs-mixed", sc_glyphs_mixed }, { "glyphs-no-mask", sc_glyphs_no_mask }, { "glyphs-wide-insert", sc_glyphs_wide_insert },
    { "comp-heap-mask-ca", sc_comp_heap_mask_ca, 1 }, { "alpha-map-x888", sc_alpha_map_x888, 1 }, { "fill-rects-over-clip3", sc_fill_rects_over_clip, 1 },
};
#define NSC ((int) (sizeof SC / sizeof SC[0]))
#define MAXN 4096
#define MAXP 2100

typedef struct {
    int N, prepass_done, prepass_k, prepass_p, prepass_crashes, npairs;
    uint16_t M[MAXN + 2];
    uint16_t M2[MAXP];            /* thorough: length of the run in which the p-th pair fails */
    volatile uint64_t exec[5], fail_reported, success_despite, draw_old, draw_new, draw_mixed, windows, second_reached;
} scstat_t;
static scstat_t *SS;
static int PAIRLIM, in_prepass;

enum { K_SINGLE = 0, K_PERSIST = 1, K_PAIR = 2, K_SINGLE_PERSIST = 3, K_TRIPLE = 4, NKIND = 5 };
static const char *KNAME[NKIND] = { "single", "persistent", "pair", "single+persistent", "triple" };
typedef struct { int kind, s; long a, b, c; int p; } sched_t;

static void site_text (uintptr_t ra0, uintptr_t ra1, char *out, size_t cap);

static void run_execution (int s, T *t, const sched_t *sc)
{
    long single[3]; int ns = 0; long persist = 0;
    if (sc) {
        if (sc->kind == K_SINGLE) { single[ns++] = sc->a; }
        else if (sc->kind == K_PERSIST) { persist = sc->a; }
        else if (sc->kind == K_PAIR) { single[ns++] = sc->a; single[ns++] = sc->b; }
        else if (sc->kind == K_TRIPLE) { single[ns++] = sc->a; single[ns++] = sc->b; single[ns++] = sc->c; }
        else { single[ns++] = sc->a; persist = sc->b; }
    }
    fi_begin_execution (single, ns, persist);
    CT = t; SC[s].fn (t); fi_window_close (); CT = NULL;
}

static void init_T (T *t, int s, int faulted, const char *sched)
{
    memset (t, 0, sizeof *t); t->scname = SC[s].name; t->faulted = faulted; t->thorough = vf_is_thorough ();
    snprintf (t->sched, sizeof t->sched, "%s", sched);
}

/* one case: fault-free execution (reference), then the faulted execution, then the global oracles */
static void do_case (const sched_t *sc)
{
    int s = sc->s; static T base, ft;     /* static: T is large; cases never nest */
    long live0 = fi.live;
    init_T (&base, s, 0, "fault-free");
    run_execution (s, &base, NULL);
    if (fi.calls != SS[s].N && SS[s].prepass_done) V (&base, "c15-harness-nondeterministic", "fault-free run makes %ld allocation calls, pre-pass counted %d", fi.calls, SS[s].N);
    if (fi.bad_free) V (&base, "c15-invalid-free", "fault-free run: free()/realloc() of %p which is not a live block", fi.bad_free_ptr);
    if (fi.live != live0 + base.nobs && !vf_failed ()) { V (&base, "c15-leak-fault-free", "fault-free run leaves %ld block(s) allocated", fi.live - live0 - base.nobs); }
    if (vf_failed ()) { obs_free (&base); return; }

    char sd[96];
    if (sc->kind == K_SINGLE) snprintf (sd, sizeof sd, "only allocation #%ld of %d fails", sc->a, SS[s].N);
    else if (sc->kind == K_PERSIST) snprintf (sd, sizeof sd, "every allocation from #%ld on fails (fault-free N=%d)", sc->a, SS[s].N);
    else if (sc->kind == K_PAIR) snprintf (sd, sizeof sd, "allocations #%ld and #%ld fail (fault-free N=%d)", sc->a, sc->b, SS[s].N);
    else if (sc->kind == K_TRIPLE) snprintf (sd, sizeof sd, "allocations #%ld, #%ld and #%ld fail (fault-free N=%d)", sc->a, sc->b, sc->c, SS[s].N);
    else snprintf (sd, sizeof sd, "allocation #%ld fails, then every one from #%ld on (fault-free N=%d)", sc->a, sc->b, SS[s].N);
    init_T (&ft, s, 1, sd); ft.base = base.obs; ft.nbase = base.nobs;
    live0 = fi.live; long seq0 = fi.seq;
    run_execution (s, &ft, sc);
    long calls = fi.calls, injected = fi.injected;
    int reached1 = sc->kind == K_PERSIST ? fi.persist_hit : fi.single_hit[0];
    int reached2 = sc->kind == K_PAIR ? fi.single_hit[1] : sc->kind == K_SINGLE_PERSIST ? fi.persist_hit : sc->kind == K_TRIPLE ? (fi.single_hit[1] && fi.single_hit[2]) : 1;
    if (vf_verbose) printf ("   %s: %ld allocation calls in the faulted run, %ld failed; reported failures %d, success despite fault %d, draws old/new/mixed %d/%d/%d\n",
                            sd, calls, injected, ft.n_fail_reported, ft.n_success_despite, ft.n_draw_old, ft.n_draw_new, ft.n_draw_mixed);
    if (!vf_failed ()) {
        if (!reached1 || (!reached2 && !in_prepass))
            V (&ft, "c15-harness-schedule-not-reached", "the scheduled failing allocation was not reached (%ld calls made)", calls);
        else if (fi.bad_free) V (&ft, "c15-invalid-free", "free()/realloc() of %p which is not a live block", fi.bad_free_ptr);
        else if (fi.live != live0) {
            const fi_block_t *b = fi_first_block_since (seq0); char where[400] = "?";
            if (b) site_text (b->ra0, b->ra1, where, sizeof where);
            V (&ft, "c15-leak", "%ld block(s) still allocated after the scenario's cleanup; oldest: %zu bytes allocated at %s%s", fi.live - live0, b ? b->size : 0, where,
               b && b->call ? " (inside an API call under test)" : " (by the scenario's setup, i.e. handed to the library and lost there)");
        }
    }
    if (in_prepass) {
        if (sc->kind == K_SINGLE && sc->a <= MAXN) SS[s].M[sc->a] = (uint16_t) (calls > 65535 ? 65535 : calls);
        if (sc->kind == K_PAIR && sc->p < MAXP) SS[s].M2[sc->p] = (uint16_t) (calls > 65535 ? 65535 : calls);
    }
    else if (!vf_in_confirm) {
        __atomic_add_fetch (&SS[s].exec[sc->kind], 1, __ATOMIC_RELAXED);
        __atomic_add_fetch (&SS[s].fail_reported, ft.n_fail_reported, __ATOMIC_RELAXED);
        __atomic_add_fetch (&SS[s].success_despite, ft.n_success_despite, __ATOMIC_RELAXED);
        __atomic_add_fetch (&SS[s].draw_old, ft.n_draw_old, __ATOMIC_RELAXED);
        __atomic_add_fetch (&SS[s].draw_new, ft.n_draw_new, __ATOMIC_RELAXED);
        __atomic_add_fetch (&SS[s].draw_mixed, ft.n_draw_mixed, __ATOMIC_RELAXED);
        __atomic_add_fetch (&SS[s].windows, base.n_windows + ft.n_windows, __ATOMIC_RELAXED);
        if (reached2) __atomic_add_fetch (&SS[s].second_reached, 1, __ATOMIC_RELAXED);
        vf_count_eval (1); vf_count_libcalls ((uint64_t) (base.n_windows + ft.n_windows));
        if (injected > 0 && reached1) vf_count_nontrivial (1);
        uint64_t h = vf_mix (vf_mix (vf_mix ((uint64_t) s, (uint64_t) ft.n_fail_reported), (uint64_t) ft.n_success_despite * 64 + (uint64_t) ft.n_draw_old * 16 + (uint64_t) ft.n_draw_mixed * 4 + (uint64_t) ft.n_draw_new), (uint64_t) calls);
        vf_outcome (h);
        if (vf_want_sample () && (sc->a % 3 == 1 || sc->kind >= K_PAIR))
            vf_sample ("%s: %s -> %ld allocation calls made, %ld failed; API calls reporting failure %d, succeeding despite a failed allocation %d, drawings skipped/complete/partial %d/%d/%d; live blocks back to %ld",
                       SC[s].name, sd, calls, injected, ft.n_fail_reported, ft.n_success_despite, ft.n_draw_old, ft.n_draw_new, ft.n_draw_mixed, fi.live);
    }
    obs_free (&base);
}

/* ---- index spaces ---- */
static int scen_enabled (int s) { return !SC[s].thorough_only || vf_is_thorough (); }

static int pairs_enabled (int s) { return scen_enabled (s) && SS[s].N <= PAIRLIM; }
static int count_pairs (int s) { int n = 0; for (int i = 1; i <= SS[s].N; i++) if (SS[s].M[i] > i) n += SS[s].M[i] - i; return n; }
/* p-th pair of scenario s in enumeration order (i ascending, then j ascending) */
static int nth_pair (int s, int p, long *a, long *b)
{
    for (int i = 1; i <= SS[s].N; i++) { int c = SS[s].M[i] > i ? SS[s].M[i] - i : 0; if (p < c) { *a = i; *b = i + 1 + p; return 1; } p -= c; }
    return 0;
}
static int triples_enabled (int s) { return pairs_enabled (s) && count_pairs (s) <= MAXP; }

static uint64_t space_size (int kind)
{
    uint64_t n = 0;
    for (int s = 0; s < NSC; s++) {
        if (!scen_enabled (s)) continue;
        if (kind <= K_PERSIST) n += (uint64_t) SS[s].N;
        else if (kind == K_TRIPLE) { if (triples_enabled (s)) { int np = count_pairs (s); for (int p = 0; p < np; p++) { long a, b; nth_pair (s, p, &a, &b); if (SS[s].M2[p] > b) n += (uint64_t) (SS[s].M2[p] - b); } } }
        else if (pairs_enabled (s)) n += (uint64_t) count_pairs (s);
    }
    return n;
}
static int decode (int kind, uint64_t idx, sched_t *sc)
{
    memset (sc, 0, sizeof *sc); sc->kind = kind;
    for (int s = 0; s < NSC; s++) {
        if (!scen_enabled (s)) continue;
        if (kind <= K_PERSIST) {
            if (idx < (uint64_t) SS[s].N) { sc->s = s; sc->a = (long) idx + 1; return 1; }
            idx -= (uint64_t) SS[s].N;
        } else if (kind == K_TRIPLE) {
            if (!triples_enabled (s)) continue;
            int np = count_pairs (s);
            for (int p = 0; p < np; p++) {
                long a, b; nth_pair (s, p, &a, &b);
                uint64_t c = SS[s].M2[p] > b ? (uint64_t) (SS[s].M2[p] - b) : 0;
                if (idx < c) { sc->s = s; sc->a = a; sc->b = b; sc->c = b + 1 + (long) idx; sc->p = p; return 1; }
                idx -= c;
            }
        } else if (pairs_enabled (s)) {
            uint64_t c = (uint64_t) count_pairs (s);
            if (idx < c) { sc->s = s; sc->p = (int) idx; return nth_pair (s, (int) idx, &sc->a, &sc->b); }
            idx -= c;
        }
    }
    return 0;
}
static void case_kind (uint64_t idx, void *ctx)
{
    sched_t sc; if (!decode (*(int *) ctx, idx, &sc)) { vf_violation ("c15-harness-decode", "index %llu out of range", (unsigned long long) idx); return; }
    if (vf_verbose) printf ("   scenario %s, %s schedule (%ld,%ld,%ld)\n", SC[sc.s].name, KNAME[sc.kind], sc.a, sc.b, sc.c);
    do_case (&sc);
}
/* fault-free space: each scenario twice; same observations, same number of allocation calls, no leak */
static void case_baseline (uint64_t idx, void *ctx)
{
    int s = (int) idx; static T a, b; long live0 = fi.live;
    if (!scen_enabled (s)) return;
    init_T (&a, s, 0, "fault-free #1"); run_execution (s, &a, NULL); long n1 = fi.calls;
    init_T (&b, s, 1, "fault-free #2"); b.base = a.obs; b.nbase = a.nobs; run_execution (s, &b, NULL);
    if (!vf_failed ()) {
        if (fi.calls != n1 || n1 != SS[s].N) V (&b, "c15-harness-nondeterministic", "allocation calls: %ld, %ld, pre-pass %d", n1, fi.calls, SS[s].N);
        else if (fi.live != live0 + a.nobs) V (&b, "c15-leak-fault-free", "fault-free runs leave %ld block(s) allocated", fi.live - live0 - a.nobs);
        /* n1 == 0 (no allocation inside the API calls, e.g. after a repair removed one) is not an error: listed in the evidence */
    }
    vf_count_eval (1); vf_count_libcalls ((uint64_t) (a.n_windows + b.n_windows));
    obs_free (&a);
}

static const char *classify (const char *space, uint64_t idx, const char *defkey)
{
    static char key[64]; sched_t sc; int kind = -1;
    for (int k = 0; k < NKIND; k++) if (!strcmp (space, KNAME[k])) kind = k;
    if (kind >= 0 && decode (kind, idx, &sc)) snprintf (key, sizeof key, "c15-%s-%s", defkey, SC[sc.s].name);
    else if (!strcmp (space, "fault-free") && idx < (uint64_t) NSC) snprintf (key, sizeof key, "c15-%s-%s", defkey, SC[idx].name);
    else snprintf (key, sizeof key, "c15-%s", defkey);
    return key;
}

/* ---- pre-pass: N per scenario and, for short scenarios, the length M_i of the run in which only i fails ---- */
static void prepass_child (int s, int from_k, int from_p)
{
    in_prepass = 1; vf_in_confirm = 1;
    if (from_k == 0) {
        static T t; init_T (&t, s, 0, "pre-pass"); run_execution (s, &t, NULL); obs_free (&t);
        SS[s].N = fi.calls > MAXN ? MAXN : (int) fi.calls;
        from_k = 1;
    }
    if (SS[s].N <= PAIRLIM) {
        for (int k = from_k; k <= SS[s].N; k++) {
            SS[s].prepass_k = k;
            sched_t sc = { K_SINGLE, s, k, 0, 0, 0 }; vf_pending = 0; do_case (&sc);
        }
        SS[s].prepass_k = SS[s].N + 1;
        if (vf_is_thorough () && triples_enabled (s)) {
            int np = count_pairs (s);
            for (int p = from_p; p < np; p++) {
                SS[s].prepass_p = p;
                sched_t sc = { K_PAIR, s, 0, 0, 0, p }; nth_pair (s, p, &sc.a, &sc.b); vf_pending = 0; do_case (&sc);
            }
        }
    }
    SS[s].prepass_done = 1;
    _exit (0);
}
static void prepass (void)
{
    int next = 0, running = 0; pid_t pid[NSC]; memset (pid, 0, sizeof pid);
    fflush (stdout); fflush (stderr);
    while (next < NSC || running) {
        while (next < NSC && running < vf_workers) {
            if (!scen_enabled (next)) { next++; continue; }
            pid_t p = fork (); if (p == 0) { if (!getenv ("VF_STDERR")) vf_worker_stderr (); prepass_child (next, 0, 0); }
            pid[next++] = p; running++;
        }
        if (!running) break;
        int stt; pid_t r = wait (&stt); if (r <= 0) break;
        int s; for (s = 0; s < NSC; s++) if (pid[s] == r) break;
        if (s == NSC) continue;
        running--; pid[s] = 0;
        if (!SS[s].prepass_done) {
            /* died inside one pre-pass run: the engine will attribute the crash in its own space;
             * here that schedule gets no successors and the pre-pass continues after it */
            SS[s].prepass_crashes++;
            int k = SS[s].prepass_k, nk, np;
            if (k == 0 || SS[s].prepass_crashes > MAXN) { SS[s].prepass_done = 1; continue; }
            if (k <= SS[s].N) { SS[s].M[k] = (uint16_t) k; nk = k + 1; np = 0; }
            else { int pp = SS[s].prepass_p; if (pp < MAXP) SS[s].M2[pp] = 0; nk = k; np = pp + 1; }
            pid_t p = fork (); if (p == 0) { if (!getenv ("VF_STDERR")) vf_worker_stderr (); prepass_child (s, nk, np); }
            pid[s] = p; running++;
        }
    }
}

/* ---- allocation sites: symbolisation and report ---- */
static uintptr_t exe_base;
static int phdr_cb (struct dl_phdr_info *i, size_t sz, void *d) { (void) sz; (void) d; exe_base = i->dlpi_addr; return 1; }

/* innermost..outermost "func file:line" frames of one code address (addr2line -i) */
static int symbolize (uintptr_t addr, char frames[][160], int maxf)
{
    if (!addr) return 0;
    if (!exe_base) dl_iterate_phdr (phdr_cb, NULL);
    char cmd[256]; snprintf (cmd, sizeof cmd, "addr2line -f -i -s -e /proc/%d/exe 0x%lx 2>/dev/null", (int) getpid (), (unsigned long) (addr - 1 - exe_base));
    FILE *p = popen (cmd, "r"); if (!p) return 0;
    char fn[200], fl[200]; int n = 0;
    while (n < maxf && fgets (fn, sizeof fn, p) && fgets (fl, sizeof fl, p)) {
        fn[strcspn (fn, "\n")] = 0; fl[strcspn (fl, "\n")] = 0;
        char *sp = strchr (fl, ' '); if (sp) *sp = 0;       /* drop "(discriminator n)" */
        snprintf (frames[n++], 160, "%s %s", fn, fl);
    }
    pclose (p);
    return n;
}
static void site_text (uintptr_t ra0, uintptr_t ra1, char *out, size_t cap)
{
    char f0[6][160], f1[6][160]; int n0 = symbolize (ra0, f0, 6), n1 = symbolize (ra1, f1, 6);
    snprintf (out, cap, "%s <- %s", n0 ? f0[n0 - 1] : "?", n1 ? f1[n1 - 1] : "?");
}

static int cmpstr (const void *a, const void *b) { return strcmp ((const char *) a, (const char *) b); }

static void report (void)
{
    static char label[FI_MAXSITES][200]; static char lines[FI_MAXSITES * 8][64]; int nl = 0, nlab = 0;
    int ns = *fi_nsites; if (ns > FI_MAXSITES) ns = FI_MAXSITES;
    for (int i = 0; i < ns; i++) {
        char f0[6][160], f1[6][160]; int n0 = symbolize (fi_sites[i].ra0, f0, 6), n1 = symbolize (fi_sites[i].ra1, f1, 6);
        for (int k = 0; k < n0 && nl < FI_MAXSITES * 8; k++) { char *sp = strchr (f0[k], ' '); snprintf (lines[nl++], 64, "%s", sp ? sp + 1 : f0[k]); }
        for (int k = 0; k < n1 && nl < FI_MAXSITES * 8; k++) { char *sp = strchr (f1[k], ' '); snprintf (lines[nl++], 64, "%s", sp ? sp + 1 : f1[k]); }
        /* label: outermost frame of the allocating call, and the function that called it */
        char l[200]; char callee[160] = "?", cfile[160] = "", caller[160] = "?";
        if (n0) { sscanf (f0[n0 - 1], "%159s %159s", callee, cfile); }
        if (n1) { sscanf (f1[n1 - 1], "%159s", caller); }
        const char *cf = !strncmp (cfile, "pixman-", 7) ? cfile + 7 : cfile;
        snprintf (l, sizeof l, "%s %s<-%s", cf, callee, caller);
        int j; for (j = 0; j < nlab; j++) if (!strcmp (label[j], l)) break;
        if (j == nlab) { snprintf (label[nlab], 200, "%s", l); nlab++; }
    }
    /* static inventory of allocation call sites in the sources that were compiled */
    static const char *files[] = { "pixman.c", "pixman-access.c", "pixman-bits-image.c", "pixman-combine32.c", "pixman-combine-float.c", "pixman-conical-gradient.c",
        "pixman-filter.c", "pixman-x86.c", "pixman-edge.c", "pixman-fast-path.c", "pixman-glyph.c", "pixman-general.c", "pixman-gradient-walker.c", "pixman-image.c",
        "pixman-implementation.c", "pixman-linear-gradient.c", "pixman-matrix.c", "pixman-noop.c", "pixman-radial-gradient.c", "pixman-region.c", "pixman-solid-fill.c",
        "pixman-timer.c", "pixman-trap.c", "pixman-utils.c", "pixman-mmx.c", "pixman-sse2.c", "pixman-ssse3.c" };
    const char *repo = getenv ("VERIF_REPO") ? getenv ("VERIF_REPO") : "/repo";
    char unreached[1500] = ""; int nstatic = 0, nunreached = 0;
    for (unsigned f = 0; f < sizeof files / sizeof files[0]; f++) {
        char path[600]; snprintf (path, sizeof path, "%s/pixman/%s", repo, files[f]);
        FILE *fp = fopen (path, "r"); if (!fp) continue;
        char ln[600]; int no = 0;
        while (fgets (ln, sizeof ln, fp)) {
            no++;
            int hit = 0; const char *pats[] = { "malloc (", "calloc (", "realloc (", "pixman_malloc_ab (", "pixman_malloc_abc (", "pixman_malloc_ab_plus_c (", "alloc_data (", "DOWNSIZE (" };
            for (unsigned q = 0; q < 8; q++) if (strstr (ln, pats[q])) hit = 1;
            const char *q0 = ln; while (*q0 == ' ' || *q0 == '\t') q0++;
            if (!hit || strstr (ln, "unsigned int") || strstr (ln, "size_t n)") || q0[0] == '*' || q0[0] == '#' || (q0[0] == '/' && q0[1] == '*') || strstr (ln, "\\\n")) continue;
            if (!strncmp (ln, "pixman_malloc", 13) || !strncmp (ln, "alloc_data", 10)) continue;     /* definitions */
            nstatic++;
            char key[64]; snprintf (key, sizeof key, "%s:%d", files[f], no);
            int found = 0; for (int k = 0; k < nl; k++) if (!strcmp (lines[k], key)) found = 1;
            if (!found) { nunreached++; size_t l = strlen (unreached); snprintf (unreached + l, sizeof unreached - l, "%s\"%s\"", l ? "," : "", !strncmp (key, "pixman-", 7) ? key + 7 : key); }
        }
        fclose (fp);
    }
    /* per-scenario table + totals */
    uint64_t tot[NKIND] = { 0 }, tfail = 0, tdesp = 0, told = 0, tnew = 0, tmix = 0, tsecond = 0; int nscen = 0, ncrash = 0; long sumN = 0, maxN = 0;
    char noalloc[400] = "";
    for (int s = 0; s < NSC; s++) if (scen_enabled (s) && SS[s].N == 0) { size_t l0 = strlen (noalloc); snprintf (noalloc + l0, sizeof noalloc - l0, "%s\"%s\"", l0 ? "," : "", SC[s].name); }
    char side[700]; snprintf (side, sizeof side, "%s/evidence/C15-detail-%s.txt", VF_VERIF_DIR, vf_is_thorough () ? "thorough" : "quick");
    FILE *sf = fopen (side, "w");
    if (sf) fprintf (sf, "# C15 %s: per scenario: N = allocation calls in the fault-free run; executed schedules by kind; outcomes\n", vf_is_thorough () ? "thorough" : "quick");
    for (int s = 0; s < NSC; s++) {
        if (!scen_enabled (s)) continue;
        nscen++; sumN += SS[s].N; if (SS[s].N > maxN) maxN = SS[s].N; ncrash += SS[s].prepass_crashes;
        for (int k = 0; k < NKIND; k++) tot[k] += SS[s].exec[k];
        tfail += SS[s].fail_reported; tdesp += SS[s].success_despite; told += SS[s].draw_old; tnew += SS[s].draw_new; tmix += SS[s].draw_mixed; tsecond += SS[s].second_reached;
        if (sf) fprintf (sf, "%-32s N=%-4d single=%-4llu persistent=%-4llu pair=%-5llu single+persistent=%-5llu triple=%-5llu | API calls reporting failure %llu, succeeding despite a failed allocation %llu, drawings skipped/complete/partial %llu/%llu/%llu\n",
                         SC[s].name, SS[s].N, (unsigned long long) SS[s].exec[0], (unsigned long long) SS[s].exec[1], (unsigned long long) SS[s].exec[2], (unsigned long long) SS[s].exec[3], (unsigned long long) SS[s].exec[4],
                         (unsigned long long) SS[s].fail_reported, (unsigned long long) SS[s].success_despite, (unsigned long long) SS[s].draw_old, (unsigned long long) SS[s].draw_new, (unsigned long long) SS[s].draw_mixed);
    }
    qsort (label, (size_t) nlab, 200, cmpstr);
    if (sf) {
        fprintf (sf, "\n# allocation sites reached inside the API calls under test (file:line function<-caller)\n");
        for (int j = 0; j < nlab; j++) fprintf (sf, "%s\n", label[j]);
        fprintf (sf, "\n# allocation call sites in the compiled sources never reached: %s\n", unreached[0] ? unreached : "(none)");
        fclose (sf);
    }
    size_t l = 0; char *x = vf->extra_json; size_t cap = sizeof vf->extra_json;
    l += (size_t) snprintf (x + l, cap - l, "\"scenarios\": %d, \"scenarios_without_allocation\": [%s], \"alloc_calls_fault_free_total\": %ld, \"alloc_calls_fault_free_max\": %ld, "
                            "\"schedules\": {\"single\": %llu, \"persistent\": %llu, \"pair\": %llu, \"single_then_persistent\": %llu, \"triple\": %llu}, "
                            "\"schedules_whose_failing_allocations_were_all_reached\": %llu, "
                            "\"api_calls_reporting_failure\": %llu, \"api_calls_succeeding_despite_failed_allocation\": %llu, "
                            "\"drawings_skipped\": %llu, \"drawings_complete\": %llu, \"drawings_partial\": %llu, \"prepass_crashes\": %d, "
                            "\"detail_file\": \"evidence/C15-detail-%s.txt\", \"alloc_sites_in_sources\": %d, \"alloc_sites_in_sources_unreached\": [%s], \"alloc_sites_reached\": %d, \"alloc_sites\": [",
                            nscen, noalloc, sumN, maxN, (unsigned long long) tot[0], (unsigned long long) tot[1], (unsigned long long) tot[2], (unsigned long long) tot[3], (unsigned long long) tot[4],
                            (unsigned long long) tsecond, (unsigned long long) tfail, (unsigned long long) tdesp, (unsigned long long) told, (unsigned long long) tnew, (unsigned long long) tmix, ncrash,
                            vf_is_thorough () ? "thorough" : "quick", nstatic, unreached, nlab);
    int shown = 0;
    for (int j = 0; j < nlab; j++) {
        size_t need = strlen (label[j]) + 6;
        if (l + need + 40 >= cap) break;
        l += (size_t) snprintf (x + l, cap - l, "%s\"%s\"", shown ? "," : "", label[j]); shown++;
    }
    l += (size_t) snprintf (x + l, cap - l, "], \"alloc_sites_listed\": %d", shown);
    printf ("C15: %d scenarios, fault-free allocation calls total %ld (max %ld); schedules single %llu, persistent %llu, pair %llu, single+persistent %llu, triple %llu; "
            "%d allocation sites reached, %d of %d source sites unreached [%s]\n", nscen, sumN, maxN,
            (unsigned long long) tot[0], (unsigned long long) tot[1], (unsigned long long) tot[2], (unsigned long long) tot[3], (unsigned long long) tot[4], nlab, nunreached, nstatic, unreached);
}

int main (int argc, char **argv)
{
    vf_init (argc, argv, "C15", "fault_enumeration");
    vf_quick_is_deep();      /* the larger alphabets complete in well under a minute: the quick tier uses them too */
    int th = vf_is_thorough ();
    PAIRLIM = th ? MAXN : 12;
    fi_setup ();
    SS = mmap (NULL, sizeof (scstat_t) * NSC, PROT_READ | PROT_WRITE, MAP_SHARED | MAP_ANONYMOUS, -1, 0);
    memset (SS, 0, sizeof (scstat_t) * NSC);
    vf_rule = "per scenario: fault-free run numbers the allocation calls made by the library inside the API calls under test (1..N); then every schedule is executed on the real code: "
              "only call k fails (all k), every call from k on fails (all k), and for short scenarios calls i and j fail for every j that the run 'only i fails' makes after i"
              " [thorough: also i fails then everything from j on, and three single failures]. A case is non-trivial when its first failing allocation was reached and made to fail (checked for every case; a miss is an error).";
    vf_bounds = th ? "81 scenarios (larger region operands: 12x12 crosses, 260 overlapping boxes; 5-row alpha-map/float-store composites); single + persistent for every call; pairs, single+persistent and triples (third failure ranging over every call of the pair run) for every scenario"
                   : "78 scenarios; single + persistent for every call; pairs for scenarios with N <= 12";
    vf_assume ("allocation = malloc/calloc/realloc/posix_memalign calls made from libpixman objects inside an API call under test (linker --wrap); the 6 implementation objects allocated by the library constructor before main() are outside (no API call is running)");
    vf_assume ("the fault-free run of the same scenario is the reference for 'complete/correct' results (its correctness is the subject of C01/C03/C05-C07, not of this check)");
    vf_assume ("a drawing that is partly done is accepted when every pixel is either its old value or the fault-free value; operands of multi-part drawings do not overlap");
    vf_assume ("AddressSanitizer (clang -O1) reports every invalid access, double free and use after free of the executions");
    vf_classify_abnormal = classify;
    prepass ();
    vf_space_run ("fault-free", (uint64_t) NSC, case_baseline, NULL);
    int k0 = K_SINGLE, k1 = K_PERSIST, k2 = K_PAIR, k3 = K_SINGLE_PERSIST;
    vf_space_run (KNAME[k0], space_size (k0), case_kind, &k0);
    vf_space_run (KNAME[k1], space_size (k1), case_kind, &k1);
    vf_space_run (KNAME[k2], space_size (k2), case_kind, &k2);
    if (th) vf_space_run (KNAME[k3], space_size (k3), case_kind, &k3);
    int k4 = K_TRIPLE; if (th) vf_space_run (KNAME[k4], space_size (k4), case_kind, &k4);
    if (!vf_replaying ()) report ();
    return vf_finish ();
}
