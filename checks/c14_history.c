/* C14 — rendering depends only on an image's current properties, never on its history.
 * Engine E2 (explicit-state exploration of operation histories on the real library).
 *
 * A long-lived image L is driven through a history of pixman_image_set_* calls interleaved with drawing; after a
 * transition it is probed (as source with SRC and OVER, as mask, and - bits images - as destination) and every probe
 * must be byte-identical to the same probe of a FRESH replica F that was created, given each non-default property of
 * the final abstract state exactly once in a fixed (different) order, and never drawn before.
 *
 *   "everywhere": every abstract state s of a finite universe is built on L by one setter per non-default field WITH A DRAW
 *                 AFTER EVERY SETTER (so L is validated/clean in s), then EVERY (setter, value) transition is applied and judged.
 *                 Construction variants: field order forward / reverse / forward with a detour through another value.
 *   "depth3":     all setter sequences of length 3 from the initial state with every draw/no-draw pattern; judged at every draw
 *                 and at the end (so sequences of length 1 and 2 are judged as prefixes).
 * A "draw" is the probe set plus further composites with other operators, so the 8-entry thread-local fast-path cache is full of
 * entries made under L's earlier properties.  Each case starts from a deterministically flushed cache and runs, history and
 * probes, under one PIXMAN_DISABLE configuration ({none, wholeops}).
 */
#include "vf.h"
#include "config.h"
#include "pixman-private.h"
#include "pixhelp.h"

enum { K_ARGB, K_565, K_C8, K_ARGB1, K_LIN, K_RAD, K_CON, NKINDS };     /* K_ARGB1: a 1x1 a8r8g8b8 image (with a repeat mode the library treats it as a single colour) */
static const char *KINDN[NKINDS] = { "bits-a8r8g8b8", "bits-r5g6b5", "bits-c8-indexed", "bits-a8r8g8b8-1x1", "linear-gradient", "radial-gradient", "conical-gradient" };
#define IS_BITS(k) ((k) <= K_ARGB1)

enum { F_XF, F_FIL, F_REP, F_CLIP, F_CSRC, F_CCL, F_AMAP, F_CA, F_ACC, F_DITH, F_DOFF, F_PAL, F_PAST, NFIELDS };   /* F_PAST: an episode in the image's life that leaves none of its properties changed */
static const int NVAL[NFIELDS] = { 10, 6, 4, 6, 2, 2, 4, 2, 2, 3, 2, 5, 3 };
static const char *FIELDN[NFIELDS] = { "set_transform", "set_filter", "set_repeat", "set_clip_region", "set_source_clipping", "set_has_client_clip",
                                       "set_alpha_map", "set_component_alpha", "set_accessors", "set_dither", "set_dither_offset", "set_indexed", "episode" };
static const char *VALN[NFIELDS][10] = {
    { "NULL", "identity", "scale2", "rot90", "translate(.5,.5)", "scale(2,1)", "homogeneous(2,2,2)", "translate(.5,1.5)", "translate(1,2)", "rot90+translate(.5,0)(= rot90 except for the translation column)" },
    { "nearest", "bilinear", "convolution3x3", "separable", "convolution3x3-B(same header and first row, other later coefficients)", "separable-B(same header and prefix, other last weights)" },
    { "none", "normal", "pad", "reflect" },
    { "none", "r1(region32: 1,1-4,3)", "r2(region16: 0,0-3,2 + 2,2-5,4)", "r3(region32: 0,0-5,1 + 0,1-2,4; same extents and rectangle count as r2)", "empty(region16: a non-NULL region without rectangles)", "empty(region32)" },
    { "off", "on" }, { "off", "on" },
    { "none", "m@(0,0)", "m@(1,0)", "m@(0,0)+accessors-set-on-the-map-image-itself(only the map is touched if it is already attached there)" },
    { "off", "on" }, { "off", "on(xor-1 read/write callbacks)" },
    { "none", "ordered-bayer-8", "ordered-blue-noise-64" }, { "(0,0)", "(13,44)" },
    { "p1", "p2", "p3(= p1 in the first half of both tables)", "own-copy-of-p1(all entries opaque)", "own-copy-of-p1-with-odd-entries-translucent(edited IN PLACE if the own copy is already attached)" },
    { "none", "served-as-the-alpha-map-of-a-temporary-image(drawn,then-detached,then-that-image-destroyed)", "served-as-the-alpha-map-of-a-temporary-image-that-was-destroyed-while-attached" },
};
typedef struct { uint8_t v[NFIELDS]; } ast_t;
typedef struct { uint8_t f, v; } trans_t;

#define LW 5
#define LH 4
#define PW 8
#define PH 7
#define NPROBE 10
static const char *PROBEN[NPROBE] = { "as-source-SRC", "as-source-OVER", "as-mask", "as-dest-OVER", "as-dest-ATOP-masked", "as-source-OVER-inside", "as-mask-inside", "as-source-OVER-onto-a2r10g10b10(float pipeline)",
                                          "as-dest-fill_rectangles-SRC", "as-dest-fill_rectangles-OVER-opaque" };

/* ---------------------------------------------------------------- read-only context (built before the workers fork) */
static pixman_fixed_t *sep_params, *sep_params_b; static int sep_n;
static pixman_indexed_t *pal[3];
static uint32_t pristine[NKINDS][LW * LH + 8];     /* raw words of L's pixel buffer */
static uint8_t pristine_a[LH * 8];                 /* alpha map a8, stride 8 */
static int lstride[NKINDS], lbpp[NKINDS];
static const pixman_format_code_t LFMT[4] = { PIXMAN_a8r8g8b8, PIXMAN_r5g6b5, PIXMAN_c8, PIXMAN_a8r8g8b8 };

static uint32_t translucent(int i)
{
    static const uint8_t A[8] = { 0x00, 0x40, 0xff, 0x80, 0x01, 0xc0, 0xfe, 0x7f };
    unsigned a = A[i & 7], r = a * ((i * 5 + 1) % 7) / 6, g = a * ((i * 3 + 2) % 5) / 4, b = a * ((i * 11 + 3) % 9) / 8;
    return a << 24 | r << 16 | g << 8 | b;
}
static void make_palette(pixman_indexed_t *p, int which)
{
    memset(p, 0, sizeof *p);
    p->color = 1;
    for (int i = 0; i < 256; i++) {
        unsigned r = (i * (which ? 37 : 5) + 11) & 0xff, g = (i * (which ? 3 : 91) + 7) & 0xff, b = (i * (which ? 149 : 13) + 3) & 0xff;
        p->rgba[i] = 0xff000000u | r << 16 | g << 8 | b;
    }
    for (int i = 0; i < 32768; i++) p->ent[i] = (uint8_t)((i * (which ? 7 : 13) + (i >> 7)) & 0xff);
}
static void ctx_init(void)
{
    sep_params = pixman_filter_create_separable_convolution(&sep_n, 0x18000, 0x14000, PIXMAN_KERNEL_LINEAR, PIXMAN_KERNEL_LINEAR, PIXMAN_KERNEL_BOX, PIXMAN_KERNEL_BOX, 1, 1);
    /* second separable table: identical header and identical leading weights, only the last y-phase row differs (sum preserved) */
    sep_params_b = malloc(sizeof(pixman_fixed_t) * (size_t)sep_n); memcpy(sep_params_b, sep_params, sizeof(pixman_fixed_t) * (size_t)sep_n);
    sep_params_b[sep_n - 1] -= 0x1800; sep_params_b[sep_n - 2] += 0x1800;
    for (int w = 0; w < 3; w++) { pal[w] = malloc(sizeof(pixman_indexed_t)); make_palette(pal[w], w == 1); }
    for (int i = 128; i < 256; i++) pal[2]->rgba[i] = pal[1]->rgba[i];
    for (int i = 16384; i < 32768; i++) pal[2]->ent[i] = pal[1]->ent[i];
    for (int k = 0; k < 4; k++) {
        lbpp[k] = PIXMAN_FORMAT_BPP(LFMT[k]); lstride[k] = ph_stride_for(lbpp[k], LW) + 4;
        memset(pristine[k], 0x5a, sizeof pristine[k]);
        for (int y = 0; y < LH; y++) for (int x = 0; x < LW; x++) {
            int i = y * LW + x; uint32_t p = (k == 0 || k == K_ARGB1) ? translucent(i + 1) : k == 1 ? (uint32_t)((i * 2654435761u) >> 11) & 0xffff : (uint32_t)(i * 29 + 3) & 0xff;
            ph_put_pixel((uint8_t *)pristine[k] + (size_t)y * lstride[k], lbpp[k], x, p);
        }
    }
    memset(pristine_a, 0x5a, sizeof pristine_a);
    for (int y = 0; y < LH; y++) for (int x = 0; x < LW; x++) pristine_a[y * 8 + x] = (uint8_t)(0x30 + 0x23 * ((x * 3 + y * 5) % 7));
}

/* ---------------------------------------------------------------- accessors: not the identity, so a stale direct-memory fetcher/store shows */
static uint32_t acc_read(const void *p, int size)
{
    switch (size) { case 1: return *(const uint8_t *)p ^ 0x01u; case 2: return *(const uint16_t *)p ^ 0x0101u; default: return *(const uint32_t *)p ^ 0x01010101u; }
}
static void acc_write(void *p, uint32_t v, int size)
{
    switch (size) { case 1: *(uint8_t *)p = (uint8_t)(v ^ 0x01u); break; case 2: *(uint16_t *)p = (uint16_t)(v ^ 0x0101u); break; default: *(uint32_t *)p = v ^ 0x01010101u; }
}

/* ---------------------------------------------------------------- objects */
typedef struct { int kind; pixman_image_t *img; uint32_t *buf; size_t bufsz; pixman_image_t *amap; uint8_t *abuf; pixman_indexed_t *ownpal; } obj_t;

static const pixman_gradient_stop_t STOPS[3] = { { 0, { 0xffff, 0, 0, 0xffff } }, { 0x8000, { 0, 0x8000, 0, 0x8000 } }, { 0x10000, { 0x2000, 0x2000, 0xffff, 0xffff } } };

static obj_t obj_create(int kind, int palette)
{
    obj_t o; memset(&o, 0, sizeof o); o.kind = kind;
    if (IS_BITS(kind)) {
        o.bufsz = (size_t)lstride[kind] * LH;
        o.buf = malloc(o.bufsz); memcpy(o.buf, pristine[kind], o.bufsz);
        o.img = pixman_image_create_bits(LFMT[kind], kind == K_ARGB1 ? 1 : LW, kind == K_ARGB1 ? 1 : LH, o.buf, lstride[kind]);      /* the 1x1 kind is the top-left pixel of the same buffer */
        if (kind == K_C8) {
            /* the object's own palette (the library keeps the pointer, not a copy: the caller may edit the table) */
            o.ownpal = malloc(sizeof(pixman_indexed_t)); memcpy(o.ownpal, pal[0], sizeof(pixman_indexed_t));
            if (palette >= 3) { if (palette == 4) for (int i = 1; i < 256; i += 2) o.ownpal->rgba[i] = (o.ownpal->rgba[i] & 0x00ffffffu) | 0x80000000u; pixman_image_set_indexed(o.img, o.ownpal); }
            else pixman_image_set_indexed(o.img, pal[palette]);
        }
        o.abuf = malloc(sizeof pristine_a); memcpy(o.abuf, pristine_a, sizeof pristine_a);
        o.amap = pixman_image_create_bits(PIXMAN_a8, LW, LH, (uint32_t *)o.abuf, 8);
    } else if (kind == K_LIN) {
        pixman_point_fixed_t p1 = { 0x8000, 0 }, p2 = { 4 << 16, 3 << 16 };
        o.img = pixman_image_create_linear_gradient(&p1, &p2, STOPS, 3);
    } else if (kind == K_RAD) {
        pixman_point_fixed_t c1 = { 2 << 16, 2 << 16 }, c2 = { 0x28000, 2 << 16 };
        o.img = pixman_image_create_radial_gradient(&c1, &c2, 0x8000, 3 << 16, STOPS, 3);
    } else {
        pixman_point_fixed_t c = { 0x28000, 2 << 16 };
        o.img = pixman_image_create_conical_gradient(&c, 30 << 16, STOPS, 3);
    }
    return o;
}
static void obj_free(obj_t *o)
{
    if (o->img) pixman_image_unref(o->img);
    if (o->amap) pixman_image_unref(o->amap);
    free(o->buf); free(o->abuf); free(o->ownpal); memset(o, 0, sizeof *o);
}

static const int32_t XFM[10][9] = {
    { 0 }, { 0x10000, 0, 0, 0, 0x10000, 0, 0, 0, 0x10000 }, { 0x20000, 0, 0, 0, 0x20000, 0, 0, 0, 0x10000 },
    { 0, -0x10000, LH << 16, 0x10000, 0, 0, 0, 0, 0x10000 }, { 0x10000, 0, 0x8000, 0, 0x10000, 0x8000, 0, 0, 0x10000 },
    { 0x20000, 0, 0, 0, 0x10000, 0, 0, 0, 0x10000 }, { 0x20000, 0, 0, 0, 0x20000, 0, 0, 0, 0x20000 },
    { 0x10000, 0, 0x8000, 0, 0x10000, 0x18000, 0, 0, 0x10000 },      /* differs from translate(.5,.5) in one entry of the second row only */
    { 0x10000, 0, 0x10000, 0, 0x10000, 0x20000, 0, 0, 0x10000 },     /* integer translation: bilinear reduces to nearest */
    { 0, -0x10000, (LH << 16) + 0x8000, 0x10000, 0, 0, 0, 0, 0x10000 },   /* rot90 with a fractional translation */
};
static const pixman_fixed_t CONV3[11] = { 3 << 16, 3 << 16, 0x1000, 0x2000, 0x1000, 0x2000, 0x4000, 0x2000, 0x1000, 0x2000, 0x1000 };
static const pixman_fixed_t CONV3B[11] = { 3 << 16, 3 << 16, 0x1000, 0x2000, 0x1000, 0x1000, 0x2000, 0x4000, 0x2000, 0x1000, 0x2000 };   /* same header, same first row */

static void apply_setter(obj_t *o, int f, int v)
{
    pixman_image_t *im = o->img;
    switch (f) {
    case F_XF:
        if (v == 0) pixman_image_set_transform(im, NULL);
        else { pixman_transform_t t; for (int i = 0; i < 9; i++) t.matrix[i / 3][i % 3] = XFM[v][i]; pixman_image_set_transform(im, &t); }
        break;
    case F_FIL:
        if (v == 0) pixman_image_set_filter(im, PIXMAN_FILTER_NEAREST, NULL, 0);
        else if (v == 1) pixman_image_set_filter(im, PIXMAN_FILTER_BILINEAR, NULL, 0);
        else if (v == 2) pixman_image_set_filter(im, PIXMAN_FILTER_CONVOLUTION, CONV3, 11);
        else if (v == 3) pixman_image_set_filter(im, PIXMAN_FILTER_SEPARABLE_CONVOLUTION, sep_params, sep_n);
        else if (v == 4) pixman_image_set_filter(im, PIXMAN_FILTER_CONVOLUTION, CONV3B, 11);
        else pixman_image_set_filter(im, PIXMAN_FILTER_SEPARABLE_CONVOLUTION, sep_params_b, sep_n);
        break;
    case F_REP: { static const pixman_repeat_t r[4] = { PIXMAN_REPEAT_NONE, PIXMAN_REPEAT_NORMAL, PIXMAN_REPEAT_PAD, PIXMAN_REPEAT_REFLECT }; pixman_image_set_repeat(im, r[v]); break; }
    case F_CLIP:
        if (v == 0) pixman_image_set_clip_region32(im, NULL);
        else if (v == 1) { pixman_region32_t r; pixman_region32_init_rect(&r, 1, 1, 3, 2); pixman_image_set_clip_region32(im, &r); pixman_region32_fini(&r); }
        else if (v == 2) { pixman_region16_t r; pixman_box16_t b[2] = { { 0, 0, 3, 2 }, { 2, 2, 5, 4 } }; pixman_region_init_rects(&r, b, 2); pixman_image_set_clip_region(im, &r); pixman_region_fini(&r); }
        else if (v == 3) { pixman_region32_t r; pixman_box32_t b[2] = { { 0, 0, 5, 1 }, { 0, 1, 2, 4 } }; pixman_region32_init_rects(&r, b, 2); pixman_image_set_clip_region32(im, &r); pixman_region32_fini(&r); }
        else if (v == 4) { pixman_region16_t r; pixman_region_init(&r); pixman_image_set_clip_region(im, &r); pixman_region_fini(&r); }      /* clipped to nothing */
        else { pixman_region32_t r; pixman_region32_init(&r); pixman_image_set_clip_region32(im, &r); pixman_region32_fini(&r); }
        break;
    case F_CSRC: pixman_image_set_source_clipping(im, v ? ph_truthy((uint64_t)o->kind + 1) : 0); break;      /* "on" is any non-zero int */
    case F_CCL: pixman_image_set_has_client_clip(im, v ? ph_truthy((uint64_t)o->kind + 3) : 0); break;
    case F_AMAP:
        /* value 3 changes a property of the ALPHA-MAP image (a separate long-lived image that is only ever validated through its owner);
         * when the map is already attached at (0,0) the owner is not touched at all */
        if (v == 3) {
            pixman_image_set_accessors(o->amap, acc_read, acc_write);
            if (!(im->common.alpha_map == &o->amap->bits && im->common.alpha_origin_x == 0 && im->common.alpha_origin_y == 0)) pixman_image_set_alpha_map(im, o->amap, 0, 0);
        } else {
            if (o->amap) pixman_image_set_accessors(o->amap, NULL, NULL);
            if (v == 0) pixman_image_set_alpha_map(im, NULL, 0, 0); else pixman_image_set_alpha_map(im, o->amap, (int16_t)(v - 1), 0);
        }
        break;
    case F_CA: pixman_image_set_component_alpha(im, v ? ph_truthy((uint64_t)o->kind + 2) : 0); break;
    case F_ACC: if (v) pixman_image_set_accessors(im, acc_read, acc_write); else pixman_image_set_accessors(im, NULL, NULL); break;
    case F_DITH: { static const pixman_dither_t d[3] = { PIXMAN_DITHER_NONE, PIXMAN_DITHER_ORDERED_BAYER_8, PIXMAN_DITHER_ORDERED_BLUE_NOISE_64 }; pixman_image_set_dither(im, d[v]); break; }
    case F_DOFF: pixman_image_set_dither_offset(im, v ? 13 : 0, v ? 44 : 0); break;      /* beyond the 8x8 matrix, inside the 64x64 one: the offset outlives a change of the dither mode */
    case F_PAL:
        if (v < 3) pixman_image_set_indexed(im, pal[v]);
        else {
            int attached = im->bits.indexed == o->ownpal;
            /* bring the own table to the wanted contents; if it is the table the image already uses this is an edit in place and no library call is made */
            for (int i = 0; i < 256; i++) o->ownpal->rgba[i] = pal[0]->rgba[i];
            if (v == 4) for (int i = 1; i < 256; i += 2) o->ownpal->rgba[i] = (o->ownpal->rgba[i] & 0x00ffffffu) | 0x80000000u;
            if (!attached) pixman_image_set_indexed(im, o->ownpal);
        }
        break;
    case F_PAST:
        if (v) {
            pixman_image_t *owner = pixman_image_create_bits(PIXMAN_a8r8g8b8, LW, LH, NULL, 0);
            uint32_t one = 0; pixman_image_t *scratch = pixman_image_create_bits(PIXMAN_a8r8g8b8, 1, 1, &one, 4);
            pixman_image_set_alpha_map(owner, im, 0, 0);             /* ignored by the library if im has an alpha map of its own */
            pixman_image_composite32(PIXMAN_OP_SRC, owner, NULL, scratch, 0, 0, 0, 0, 0, 0, 1, 1);
            if (v == 1) pixman_image_set_alpha_map(owner, NULL, 0, 0);
            pixman_image_unref(owner); pixman_image_unref(scratch);
        }
        break;
    }
}

/* the library's own fields must agree with the abstract state (replay determinism / model sanity) */
static const char *model_mismatch(const obj_t *o, const ast_t *s)
{
    const image_common_t *c = &o->img->common;
    static const pixman_repeat_t r[4] = { PIXMAN_REPEAT_NONE, PIXMAN_REPEAT_NORMAL, PIXMAN_REPEAT_PAD, PIXMAN_REPEAT_REFLECT };
    static const pixman_filter_t fl[6] = { PIXMAN_FILTER_NEAREST, PIXMAN_FILTER_BILINEAR, PIXMAN_FILTER_CONVOLUTION, PIXMAN_FILTER_SEPARABLE_CONVOLUTION, PIXMAN_FILTER_CONVOLUTION, PIXMAN_FILTER_SEPARABLE_CONVOLUTION };
    if (c->repeat != r[s->v[F_REP]]) return "repeat";
    if (c->filter != fl[s->v[F_FIL]]) return "filter";
    if (s->v[F_FIL] >= 2) {
        const pixman_fixed_t *want = s->v[F_FIL] == 2 ? CONV3 : s->v[F_FIL] == 4 ? CONV3B : s->v[F_FIL] == 3 ? sep_params : sep_params_b; int wn = (s->v[F_FIL] & 1) ? sep_n : 11;
        if (c->n_filter_params != wn || !c->filter_params || memcmp(c->filter_params, want, sizeof(pixman_fixed_t) * (size_t)wn)) return "filter_params";
    }
    if (s->v[F_XF] <= 1) { if (c->transform) return "transform (expected NULL)"; }
    else { if (!c->transform) return "transform (NULL)"; for (int i = 0; i < 9; i++) if (c->transform->matrix[i / 3][i % 3] != XFM[s->v[F_XF]][i]) return "transform matrix"; }
    if (!!c->have_clip_region != (s->v[F_CLIP] != 0)) return "have_clip_region";
    if (s->v[F_CLIP] >= 4) { if (pixman_region32_not_empty((pixman_region32_t *)&c->clip_region)) return "clip_region (expected empty)"; }
    else if (s->v[F_CLIP]) {
        static const pixman_box32_t B[3][2] = { { { 1, 1, 4, 3 }, { 0, 0, 0, 0 } }, { { 0, 0, 3, 2 }, { 2, 2, 5, 4 } }, { { 0, 0, 5, 1 }, { 0, 1, 2, 4 } } };
        pixman_region32_t want; pixman_region32_init_rects(&want, B[s->v[F_CLIP] - 1], s->v[F_CLIP] == 1 ? 1 : 2);
        int eq = pixman_region32_equal(&want, (pixman_region32_t *)&c->clip_region); pixman_region32_fini(&want);
        if (!eq) return "clip_region";
    }
    if (!!c->clip_sources != s->v[F_CSRC]) return "clip_sources";
    if (!!c->client_clip != s->v[F_CCL]) return "client_clip";
    if (!!c->component_alpha != s->v[F_CA]) return "component_alpha";
    if (IS_BITS(o->kind)) {
        if ((c->alpha_map != NULL) != (s->v[F_AMAP] != 0)) return "alpha_map";
        if (s->v[F_AMAP] && (c->alpha_map != &o->amap->bits || c->alpha_origin_x != (s->v[F_AMAP] == 2 ? 1 : 0) || c->alpha_origin_y != 0)) return "alpha_map origin";
        if (o->amap && (o->amap->bits.read_func != NULL) != (s->v[F_AMAP] == 3)) return "alpha map image accessors";
        if ((o->img->bits.read_func != NULL) != (s->v[F_ACC] != 0)) return "accessors";
        if ((int)o->img->bits.dither != (s->v[F_DITH] == 0 ? PIXMAN_DITHER_NONE : s->v[F_DITH] == 1 ? PIXMAN_DITHER_ORDERED_BAYER_8 : PIXMAN_DITHER_ORDERED_BLUE_NOISE_64)) return "dither";
        if (o->img->bits.dither_offset_x != (s->v[F_DOFF] ? 13 : 0) || o->img->bits.dither_offset_y != (s->v[F_DOFF] ? 44 : 0)) return "dither_offset";
        if (o->kind == K_C8 && o->img->bits.indexed != (s->v[F_PAL] < 3 ? pal[s->v[F_PAL]] : o->ownpal)) return "indexed";
    }
    return NULL;
}

/* ---------------------------------------------------------------- probes */
typedef struct { uint8_t out[NPROBE][PW * PH * 4]; int len[NPROBE]; } probe_t;

typedef struct { pixman_image_t *d, *dw, *solid, *s33, *m33, *scratch; uint32_t dbuf[PW * PH], s33buf[9], scbuf[PW * PH]; uint8_t m33buf[12]; } aux_t;
static aux_t AUX; static int aux_ready;
static pixman_image_t *fl_img[2]; static uint32_t fl_buf[2][1];
static void aux_init(void)
{
    if (aux_ready) return;
    aux_ready = 1;
    AUX.d = pixman_image_create_bits(PIXMAN_a8r8g8b8, PW, PH, AUX.dbuf, PW * 4);
    AUX.dw = pixman_image_create_bits(PIXMAN_a2r10g10b10, PW, PH, AUX.dbuf, PW * 4);       /* same storage, 10-bit view: composites onto it run in the float pipeline */
    pixman_color_t c = { 0xc0c0, 0x3030, 0x6060, 0xd0d0 };
    AUX.solid = pixman_image_create_solid_fill(&c);
    for (int i = 0; i < 9; i++) AUX.s33buf[i] = translucent(i * 3 + 2);
    AUX.s33 = pixman_image_create_bits(PIXMAN_a8r8g8b8, 3, 3, AUX.s33buf, 12);
    pixman_image_set_repeat(AUX.s33, PIXMAN_REPEAT_NORMAL);
    for (int i = 0; i < 12; i++) AUX.m33buf[i] = (uint8_t)(0x20 + i * 0x13);
    AUX.m33 = pixman_image_create_bits(PIXMAN_a8, 3, 3, (uint32_t *)AUX.m33buf, 4);
    pixman_image_set_repeat(AUX.m33, PIXMAN_REPEAT_NORMAL);
    AUX.scratch = pixman_image_create_bits(PIXMAN_a8r8g8b8, PW, PH, AUX.scbuf, PW * 4);
    fl_img[0] = pixman_image_create_bits(PIXMAN_a8r8g8b8, 1, 1, fl_buf[0], 4);
    fl_img[1] = pixman_image_create_bits(PIXMAN_a8r8g8b8, 1, 1, fl_buf[1], 4);
}
/* deterministic start: evict all 8 entries of this thread's fast-path cache */
static void flush_cache(void)
{
    static const pixman_op_t ops[10] = { PIXMAN_OP_CLEAR, PIXMAN_OP_SRC, PIXMAN_OP_OVER, PIXMAN_OP_OVER_REVERSE, PIXMAN_OP_IN, PIXMAN_OP_IN_REVERSE, PIXMAN_OP_OUT,
                                         PIXMAN_OP_OUT_REVERSE, PIXMAN_OP_ADD, PIXMAN_OP_XOR };
    for (int i = 0; i < 10; i++) pixman_image_composite32(ops[i], fl_img[0], NULL, fl_img[1], 0, 0, 0, 0, 0, 0, 1, 1);
}

static uint64_t ncomposites;
static void run_probes(obj_t *o, probe_t *pr, int fill_cache)
{
    memset(pr->len, 0, sizeof pr->len);
    if (IS_BITS(o->kind)) {
        /* 8, 9: direct fills, issued before any composite has looked at the image again (the fill entry point takes its own decisions about
         * accessors, alpha maps and clips); storage and alpha map are read back raw, then restored */
        static const pixman_color_t half = { 0x4040, 0x2020, 0x6060, 0x8080 }, opaque = { 0x1234, 0xfedc, 0x8000, 0xffff };
        static const pixman_rectangle16_t rects[2] = { { 1, 0, 3, 3 }, { 0, 2, 5, 2 } };
        for (int p = 8; p < 10; p++) {
            pixman_image_fill_rectangles(p == 8 ? PIXMAN_OP_SRC : PIXMAN_OP_OVER, o->img, p == 8 ? &half : &opaque, 2, rects);
            memcpy(pr->out[p], o->buf, o->bufsz); memcpy(pr->out[p] + o->bufsz, o->abuf, sizeof pristine_a); pr->len[p] = (int)(o->bufsz + sizeof pristine_a);
            memcpy(o->buf, pristine[o->kind], o->bufsz); memcpy(o->abuf, pristine_a, sizeof pristine_a);
            ncomposites++;
        }
    }
    /* 0: as source, SRC */
    memset(AUX.dbuf, 0, sizeof AUX.dbuf);
    pixman_image_composite32(PIXMAN_OP_SRC, o->img, NULL, AUX.d, -1, -1, 0, 0, 0, 0, PW, PH);
    memcpy(pr->out[0], AUX.dbuf, sizeof AUX.dbuf); pr->len[0] = sizeof AUX.dbuf;
    /* 1: as source, OVER a translucent destination */
    for (int i = 0; i < PW * PH; i++) AUX.dbuf[i] = translucent(i + 5);
    pixman_image_composite32(PIXMAN_OP_OVER, o->img, NULL, AUX.d, -1, -1, 0, 0, 0, 0, PW, PH);
    memcpy(pr->out[1], AUX.dbuf, sizeof AUX.dbuf); pr->len[1] = sizeof AUX.dbuf;
    /* 2: as mask of a solid source */
    for (int i = 0; i < PW * PH; i++) AUX.dbuf[i] = translucent(i + 2);
    pixman_image_composite32(PIXMAN_OP_OVER, AUX.solid, o->img, AUX.d, 0, 0, -1, -1, 0, 0, PW, PH);
    memcpy(pr->out[2], AUX.dbuf, sizeof AUX.dbuf); pr->len[2] = sizeof AUX.dbuf;
    /* 7: as source, OVER, evaluated by the wide (float) fetchers and combiners */
    for (int i = 0; i < PW * PH; i++) AUX.dbuf[i] = translucent(i + 9) | 0xc0000000u;
    pixman_image_composite32(PIXMAN_OP_OVER, o->img, NULL, AUX.dw, -1, -1, 0, 0, 0, 0, PW, PH);
    memcpy(pr->out[7], AUX.dbuf, sizeof AUX.dbuf); pr->len[7] = sizeof AUX.dbuf;
    ncomposites += 4;
    if (IS_BITS(o->kind)) {
        /* 3, 4: as destination; the image's storage (and its alpha map's) is read back raw, then restored */
        for (int p = 3; p < 5; p++) {
            if (p == 3) pixman_image_composite32(PIXMAN_OP_OVER, AUX.s33, NULL, o->img, 0, 0, 0, 0, 0, 0, LW, LH);
            else pixman_image_composite32(PIXMAN_OP_ATOP, AUX.s33, AUX.m33, o->img, 1, 0, 0, 1, 0, 0, LW, LH);
            memcpy(pr->out[p], o->buf, o->bufsz); memcpy(pr->out[p] + o->bufsz, o->abuf, sizeof pristine_a); pr->len[p] = (int)(o->bufsz + sizeof pristine_a);
            memcpy(o->buf, pristine[o->kind], o->bufsz); memcpy(o->abuf, pristine_a, sizeof pristine_a);
            ncomposites++;
        }
    }
    if (IS_BITS(o->kind)) {
        /* 5, 6: request rectangle wholly inside the image (these are the requests that reach the common whole-operation fast paths) */
        for (int i = 0; i < PW * PH; i++) AUX.dbuf[i] = translucent(i + 7);
        pixman_image_composite32(PIXMAN_OP_OVER, o->img, NULL, AUX.d, 0, 0, 0, 0, 1, 1, LW, LH);
        memcpy(pr->out[5], AUX.dbuf, sizeof AUX.dbuf); pr->len[5] = sizeof AUX.dbuf;
        for (int i = 0; i < PW * PH; i++) AUX.dbuf[i] = translucent(i + 4);
        pixman_image_composite32(PIXMAN_OP_OVER, AUX.solid, o->img, AUX.d, 0, 0, 0, 0, 2, 1, LW, LH);
        memcpy(pr->out[6], AUX.dbuf, sizeof AUX.dbuf); pr->len[6] = sizeof AUX.dbuf;
        ncomposites += 2;
    } else if (fill_cache) {
        static const pixman_op_t ops[4] = { PIXMAN_OP_ADD, PIXMAN_OP_IN, PIXMAN_OP_OUT_REVERSE, PIXMAN_OP_XOR };
        for (int i = 0; i < 4; i++) pixman_image_composite32(ops[i], o->img, NULL, AUX.scratch, 0, 0, 0, 0, 0, 0, PW, PH);
        ncomposites += 4;
    }
    /* A draw issues at most 7 distinct fast-path cache keys: with 8 entries and move-to-front every entry is still resident when the same
     * composite comes round again after the next setter (9 keys would evict each entry just before its reuse and the cache would never be hit). */
}

/* ---------------------------------------------------------------- abstract states, transitions */
static void state_str(int kind, const ast_t *s, char *buf, size_t cap)
{
    size_t l = 0; buf[0] = 0;
    for (int f = 0; f < NFIELDS; f++) {
        if (f == F_PAL && kind != K_C8) continue;
        if (!IS_BITS(kind) && (f == F_AMAP || f == F_ACC || f == F_DITH || f == F_DOFF)) continue;
        if (s->v[f] || f == F_PAL) l += snprintf(buf + l, cap - l, "%s%s=%s", l ? " " : "", FIELDN[f] + 4, VALN[f][s->v[f]]);
    }
    if (!l) snprintf(buf, cap, "(all defaults)");
}
static uint64_t state_id(const ast_t *s) { uint64_t id = 0; for (int f = NFIELDS - 1; f >= 0; f--) id = id * 8 + s->v[f]; return id; }

typedef struct {
    int kind;
    int ntrans; trans_t trans[64];
    int nstates; ast_t *states;
    int nvariants;
    int ncfg; const int *cfgs;
} space_t;

static void add_trans(space_t *sp, int f, int nv) { for (int v = 0; v < nv; v++) { sp->trans[sp->ntrans].f = (uint8_t)f; sp->trans[sp->ntrans].v = (uint8_t)v; sp->ntrans++; } }
static void make_trans(space_t *sp, int kind)
{
    sp->ntrans = 0;
    add_trans(sp, F_XF, 10); add_trans(sp, F_REP, 4);
    if (IS_BITS(kind)) {
        add_trans(sp, F_FIL, 6); add_trans(sp, F_CLIP, 6); add_trans(sp, F_CSRC, 2); add_trans(sp, F_CCL, 2); add_trans(sp, F_AMAP, 4); add_trans(sp, F_CA, 2);
        add_trans(sp, F_ACC, 2); add_trans(sp, F_DITH, 3); add_trans(sp, F_DOFF, 2);
        sp->trans[sp->ntrans].f = F_PAST; sp->trans[sp->ntrans++].v = 1; sp->trans[sp->ntrans].f = F_PAST; sp->trans[sp->ntrans++].v = 2;
        if (kind == K_C8) add_trans(sp, F_PAL, 5);
    } else {
        add_trans(sp, F_FIL, 2); add_trans(sp, F_CLIP, 6); add_trans(sp, F_CSRC, 2); add_trans(sp, F_CCL, 2); add_trans(sp, F_CA, 2);
    }
}
/* universe = product of the listed per-field value counts (values 0..n-1 of each field) */
static void make_universe(space_t *sp, const int *nv)
{
    uint64_t n = 1; for (int f = 0; f < NFIELDS; f++) n *= (uint64_t)nv[f];
    sp->nstates = (int)n; sp->states = calloc(n, sizeof(ast_t));
    for (uint64_t i = 0; i < n; i++) { uint64_t r = i; for (int f = 0; f < NFIELDS; f++) { sp->states[i].v[f] = (uint8_t)(r % (uint64_t)nv[f]); r /= (uint64_t)nv[f]; } }
}

/* fixed order in which the fresh replica receives its properties (deliberately not the order used on L) */
static const int FRESH_ORDER[NFIELDS] = { F_ACC, F_CA, F_AMAP, F_DOFF, F_DITH, F_CCL, F_CSRC, F_CLIP, F_REP, F_FIL, F_XF, F_PAL, F_PAST };
static const int BUILD_ORDER[NFIELDS] = { F_XF, F_FIL, F_REP, F_CLIP, F_CSRC, F_CCL, F_AMAP, F_CA, F_ACC, F_DITH, F_DOFF, F_PAL, F_PAST };

static obj_t make_fresh(int kind, const ast_t *s)
{
    obj_t o = obj_create(kind, s->v[F_PAL]);
    for (int i = 0; i < NFIELDS; i++) { int f = FRESH_ORDER[i]; if (f == F_PAL) continue; if (s->v[f]) apply_setter(&o, f, s->v[f]); }
    return o;
}

/* judge L against a fresh replica of abstract state m.  Returns 1 if equal, else fills the verdict. */
typedef struct { int failed; char key[64]; char text[2600]; } verdict_t;
static int judge(int kind, const char *mm, const ast_t *m, const probe_t *pl, const char *what, int field, const char *history, verdict_t *vd)
{
    char st[400];
    /* the fresh replica must not inherit fast-path cache entries made for the long-lived image: start it from an empty cache */
    flush_cache();
    obj_t F = make_fresh(kind, m);
    static probe_t pf;
    run_probes(&F, &pf, 0);
    int ok = 1;
    for (int p = 0; p < NPROBE && ok; p++) {
        if (pl->len[p] != pf.len[p] || memcmp(pl->out[p], pf.out[p], (size_t)pl->len[p])) {
            int off = 0; while (off < pl->len[p] && pl->out[p][off] == pf.out[p][off]) off++;
            state_str(kind, m, st, sizeof st);
            int word = off / 4; uint32_t a, b; memcpy(&a, pl->out[p] + word * 4, 4); memcpy(&b, pf.out[p] + word * 4, 4);
            vd->failed = 1; snprintf(vd->key, sizeof vd->key, "c14-after-%s-%s", FIELDN[field], PROBEN[p]);
            snprintf(vd->text, sizeof vd->text, "%s, %s: probe %s of the long-lived image differs from a fresh image with the same properties {%s} at byte %d (%s): long-lived %08x, fresh %08x; history: %s",
                     KINDN[kind], what, PROBEN[p], st, off, (p < 3 || p == 7) ? "of the 8x7 probe destination" : "of the image's own storage + alpha map", a, b, history);
            ok = 0;
        }
    }
    obj_free(&F);
    if (ok && mm) {
        state_str(kind, m, st, sizeof st); vd->failed = 1; snprintf(vd->key, sizeof vd->key, "c14-setter-value-not-stored");
        snprintf(vd->text, sizeof vd->text, "%s %s: library field '%s' does not hold the value of abstract state {%s} (rendering nevertheless equal); history: %s", KINDN[kind], what, mm, st, history);
        ok = 0;
    }
    return ok;
}

static void hist_add(char *h, size_t cap, const char *fmt, ...) __attribute__((format(printf, 3, 4)));
static void hist_add(char *h, size_t cap, const char *fmt, ...)
{
    size_t l = strlen(h); if (l + 2 >= cap) return;
    va_list ap; va_start(ap, fmt); vsnprintf(h + l, cap - l, fmt, ap); va_end(ap);
}

/* A history: optional initial draw, then steps (setter, value, draw?, judge?).  Executed on a new long-lived image.
 * Stops at the first failed judgement (verdict filled).  `changed` reports whether the LAST drawn step's probes differ from the draw before it. */
typedef struct { uint8_t f, v, draw, judge; } step_t;
#define MAXSTEPS 40
/* The long-lived image's whole history runs first, undisturbed; every judged point (probe outputs, abstract state, history text) is recorded and
 * judged afterwards, each fresh replica starting from an empty fast-path cache. */
typedef struct { probe_t pr; ast_t m; const char *mm; int field; const char *what; int hlen; } point_t;
static int exec_history(int kind, int initial_draw, const step_t *st, int n, int judge_all, const char *what, verdict_t *vd, probe_t *last, int *changed, char *hist, size_t hcap)
{
    static probe_t prev, cur;
    static point_t pts[2 * MAXSTEPS]; int npts = 0;
    obj_t L = obj_create(kind, 0);
    ast_t m; memset(&m, 0, sizeof m);
    int have_prev = 0, ok = 1;
    hist[0] = 0; hist_add(hist, hcap, "create");
    if (changed) *changed = 0;
    if (initial_draw) { run_probes(&L, &prev, 1); have_prev = 1; hist_add(hist, hcap, "; draw"); }
    for (int k = 0; k < n; k++) {
        apply_setter(&L, st[k].f, st[k].v); if (st[k].f != F_PAST) m.v[st[k].f] = st[k].v;
        hist_add(hist, hcap, "; %s(%s)", FIELDN[st[k].f], VALN[st[k].f][st[k].v]);
        if (!st[k].draw) continue;
        run_probes(&L, &cur, 1);
        int j = st[k].judge || judge_all;
        hist_add(hist, hcap, j ? "; draw+judge" : "; draw");
        if (k == n - 1 && changed && have_prev) for (int p = 0; p < NPROBE; p++) if (prev.len[p] != cur.len[p] || memcmp(prev.out[p], cur.out[p], (size_t)cur.len[p])) *changed = 1;
        prev = cur; have_prev = 1;
        if (j) {
            point_t *p = &pts[npts++]; p->pr = cur; p->m = m; p->mm = model_mismatch(&L, &m); p->field = st[k].f; p->what = what; p->hlen = (int)strlen(hist);
            if (st[k].judge == 2) {     /* second use after the transition: the image is clean in the new state and must still agree */
                run_probes(&L, &cur, 0);
                hist_add(hist, hcap, "; probe again+judge");
                p = &pts[npts++]; p->pr = cur; p->m = m; p->mm = NULL; p->field = st[k].f; p->what = "second probe after the transition"; p->hlen = (int)strlen(hist);
            }
        }
    }
    if (last) *last = cur;
    obj_free(&L);
    for (int i = 0; i < npts && ok; i++) {
        char h[1800]; snprintf(h, sizeof h, "%.*s", pts[i].hlen, hist);
        ok = judge(kind, pts[i].mm, &pts[i].m, &pts[i].pr, pts[i].what, pts[i].field, h, vd);
    }
    return ok;
}

/* ---------------------------------------------------------------- "everywhere": depth 1 from every state of the universe */
static void everywhere_case(uint64_t idx, void *vctx)
{
    space_t *sp = vctx;
    int dims[4] = { sp->ntrans, sp->nvariants, sp->nstates, sp->ncfg }, d[4];
    vf_decode(idx, dims, 4, d);
    int kind = sp->kind; const ast_t *s = &sp->states[d[2]]; trans_t t = sp->trans[d[0]]; int variant = d[1];
    aux_init(); ph_set_cfg(sp->cfgs[d[3]]); flush_cache();
    step_t st[MAXSTEPS]; int n = 0;
    for (int i = 0; i < NFIELDS; i++) {
        int f = BUILD_ORDER[variant == 1 ? NFIELDS - 1 - i : i];
        if (!s->v[f]) continue;
        if (variant == 2) {     /* detour: another value first (drawn), then the target value */
            int other = (s->v[f] + 1) % NVAL[f]; if (f == F_XF && other == 0) other = 2;
            st[n++] = (step_t){ (uint8_t)f, (uint8_t)other, 1, 0 };
        }
        st[n++] = (step_t){ (uint8_t)f, s->v[f], 1, 0 };
    }
    st[n++] = (step_t){ t.f, t.v, 1, 2 };
    static probe_t after; static verdict_t vd; char hist[1800]; int changed = 0;
    vd.failed = 0;
    int ok = exec_history(kind, 1, st, n, 0, "depth 1 from a drawn state", &vd, &after, &changed, hist, sizeof hist);
    if (!ok) {
        /* attribute: re-run the same history judging after every setter; the first failing judgement names the culprit */
        static verdict_t vd2; vd2.failed = 0; char hist2[1800];
        flush_cache();
        if (!exec_history(kind, 1, st, n, 1, "while constructing the state (every draw judged)", &vd2, NULL, NULL, hist2, sizeof hist2)) vd = vd2;
        vf_violation(vd.key, "%s", vd.text);
    }
    if (vf_verbose) printf("  history: %s\n", hist);
    if (!vf_in_confirm) {
        vf_count_eval(1); vf_count_transitions(1); if (changed) vf_count_nontrivial(1);
        vf_outcome(vf_hash64(after.out, sizeof after.out, (uint64_t)kind));
        vf_count_libcalls(ncomposites); ncomposites = 0;
        if (vf_want_sample() && changed && d[2] % 977 == 5 && d[0] % 5 == 2) {
            char stt[400]; state_str(kind, s, stt, sizeof stt);
            vf_sample("everywhere %s: from drawn state {%s} (construction variant %d) apply %s(%s): 7 probes (twice) equal to a fresh replica; the transition changed the rendering", KINDN[kind], stt, variant, FIELDN[t.f], VALN[t.f][t.v]);
        }
    }
}

/* ---------------------------------------------------------------- depth k from the initial state, listed draw patterns */
/* pattern bit 0: draw before the first setter; bit i (1 <= i < k): draw after the i-th setter; the end is always drawn and judged */
typedef struct { space_t *sp; int depth; int npat; const uint8_t *pats; } depth_t;
static void depth_case(uint64_t idx, void *vctx)
{
    depth_t *dc = vctx; space_t *sp = dc->sp; int K = dc->depth;
    int dims[8], d[8];
    for (int k = 0; k < K; k++) dims[k] = sp->ntrans;
    dims[K] = dc->npat; dims[K + 1] = sp->ncfg;
    vf_decode(idx, dims, K + 2, d);
    int kind = sp->kind; int pat = dc->pats[d[K]];
    aux_init(); ph_set_cfg(sp->cfgs[d[K + 1]]); flush_cache();
    step_t st[6];
    for (int k = 0; k < K; k++) { trans_t t = sp->trans[d[K - 1 - k]]; int draw = k == K - 1 || (pat >> (k + 1) & 1); st[k] = (step_t){ t.f, t.v, (uint8_t)draw, (uint8_t)draw }; }
    static probe_t last; static verdict_t vd; char hist[900]; int changed = 0;
    vd.failed = 0;
    if (!exec_history(kind, pat & 1, st, K, 0, "in a history from a new image", &vd, &last, &changed, hist, sizeof hist)) vf_violation(vd.key, "%s", vd.text);
    if (vf_verbose) printf("  history: %s\n", hist);
    if (!vf_in_confirm) {
        vf_count_eval(1); vf_count_transitions((uint64_t)K); if (changed) vf_count_nontrivial(1);
        vf_outcome(vf_hash64(last.out, sizeof last.out, (uint64_t)kind + 16));
        vf_count_libcalls(ncomposites); ncomposites = 0;
        if (vf_want_sample() && changed && pat == 5 && idx % 7919 == 11) vf_sample("depth%d %s: %s -> all judged probes equal to fresh replicas", K, KINDN[kind], hist);
    }
}

/* distinct abstract states (parent side, pure model): a set of (kind, state id) */
static uint64_t *stset; static uint64_t stset_n;
#define STSET_BITS 22
static void stset_add(int kind, const ast_t *m)
{
    if (!stset) stset = calloc((size_t)1 << STSET_BITS, sizeof *stset);
    uint64_t id = (state_id(m) << 3 | (uint64_t)kind) + 1, h = vf_mix(id, 77) & (((uint64_t)1 << STSET_BITS) - 1);
    while (stset[h] && stset[h] != id) h = (h + 1) & (((uint64_t)1 << STSET_BITS) - 1);
    if (!stset[h]) { stset[h] = id; stset_n++; }
}
static void reach_rec(const space_t *sp, ast_t m, int left)
{
    stset_add(sp->kind, &m);
    if (!left) return;
    for (int t = 0; t < sp->ntrans; t++) { ast_t n = m; n.v[sp->trans[t].f] = sp->trans[t].v; if (left == 1) stset_add(sp->kind, &n); else reach_rec(sp, n, left - 1); }
}

int main(int argc, char **argv)
{
    vf_init(argc, argv, "C14", "model_checking");
    ph_init_cfgs();
    ctx_init();
    int th = vf_is_thorough();
    if (vf_replaying()) {
        FILE *f = fopen(vf_replay_file, "r"); char line[256];
        if (f) { while (fgets(line, sizeof line, f)) if (!strncmp(line, "tier ", 5)) th = vf_thorough = !strncmp(line + 5, "thorough", 8); fclose(f); }
    }
    static const int cfgs[2] = { PH_CFG_DEFAULT, PH_CFG_WHOLEOPS };
    vf_rule = "E2 on the real library. State = abstract property vector of a long-lived image (transform, filter, repeat, clip, clip_sources, client_clip, alpha map, component alpha, accessors, dither, "
              "dither offset, palette); transition = one pixman_image_set_* call with one value. 'everywhere-*' spaces: every state of the stated universe is built on a long-lived image by one setter per "
              "non-default field with a draw (the 7 probes = 7 distinct fast-path cache keys, all still resident in the 8-entry cache when the same composite recurs after the next setter) after every setter, then every transition is applied and the image probed (as source SRC, as "
              "source OVER, as mask, as destination OVER, as destination masked ATOP with storage and alpha map read back raw, as source and as mask with the request inside the image) twice; 'depth3-*' spaces: every setter sequence of length 3 from a new image with "
              "every draw/no-draw pattern, judged at every draw and at the end (thorough: also length 4 on the a8r8g8b8 image with 2 draw patterns). Oracle: byte equality with the same probes of a freshly created image that received each non-default property of the final "
              "abstract state once, in another fixed order, and was never drawn before; plus the library's own fields must hold the abstract state. transitions = setter applications judged; states = distinct "
              "abstract states (universe sizes + states reachable in <= 3 setters); non-trivial = the judged setter changed at least one probe's output relative to the draw before it.";
    vf_assume("the accessor callbacks are deterministic xor-1 read/write functions (not the identity, so a stale direct-memory fetcher shows); pixel storage is restored after destination probes");
    vf_assume("alpha map: one a8 image per history, without properties of its own; clip regions are never set on alpha maps; gradient stops fixed (3 stops, one translucent)");
    vf_assume("each history, its draws and its probes run in one process under one PIXMAN_DISABLE configuration ({none, wholeops}); the fast-path cache is flushed at the start of each case for determinism");

    static space_t SP[16]; int nsp = 0;
    uint64_t universe_states = 0;
    char label[64];
    /*                           XF FIL REP CLIP CSRC CCL AMAP CA ACC DITH DOFF PAL */
    static const int U_ARGB_Q[NFIELDS] = { 5, 4, 4, 3, 2, 1, 3, 2, 2, 1, 1, 1, 1 };     /*  5 760: client_clip tied to clip_sources (both off / both on) */
    static const int U_ARGB_T[NFIELDS] = { 5, 4, 4, 3, 2, 2, 3, 2, 2, 2, 1, 1, 1 };     /* 23 040 */
    static const int U_565_T[NFIELDS]  = { 5, 2, 4, 2, 2, 1, 3, 1, 2, 3, 2, 1, 1 };     /*  5 760, client_clip tied to clip_sources (set below) */
    static const int U_C8[NFIELDS]     = { 5, 2, 4, 2, 1, 1, 2, 1, 2, 2, 1, 2, 1 };     /*  1 280 */
    static const int U_GRAD[NFIELDS]   = { 5, 2, 4, 3, 2, 2, 1, 2, 1, 1, 1, 1, 1 };     /*    960 */
    struct { int kind; const int *u; int variants; } plan[8]; int np = 0;
    plan[np].kind = K_ARGB; plan[np].u = th ? U_ARGB_T : U_ARGB_Q; plan[np].variants = th ? 3 : 1; np++;
    plan[np].kind = K_C8; plan[np].u = U_C8; plan[np].variants = th ? 3 : 1; np++;
    static const int U_ARGB1[NFIELDS]  = { 2, 2, 4, 1, 1, 1, 3, 1, 2, 1, 1, 1, 1 };     /*     96 */
    plan[np].kind = K_ARGB1; plan[np].u = U_ARGB1; plan[np].variants = 1; np++;
    if (th) { plan[np].kind = K_565; plan[np].u = U_565_T; plan[np].variants = 3; np++; }
    plan[np].kind = K_LIN; plan[np].u = U_GRAD; plan[np].variants = th ? 3 : 1; np++;
    plan[np].kind = K_RAD; plan[np].u = U_GRAD; plan[np].variants = th ? 3 : 1; np++;
    plan[np].kind = K_CON; plan[np].u = U_GRAD; plan[np].variants = th ? 3 : 1; np++;
    static char bounds[1600]; size_t bl = 0;
    for (int i = 0; i < np; i++) {
        space_t *sp = &SP[nsp++]; memset(sp, 0, sizeof *sp);
        sp->kind = plan[i].kind; sp->cfgs = cfgs; sp->ncfg = 2; sp->nvariants = plan[i].variants;
        make_trans(sp, sp->kind); make_universe(sp, plan[i].u);
        if (sp->kind == K_565 || (sp->kind == K_ARGB && !th)) for (int k = 0; k < sp->nstates; k++) sp->states[k].v[F_CCL] = sp->states[k].v[F_CSRC];
        snprintf(label, sizeof label, "everywhere-%s", KINDN[sp->kind]);
        uint64_t N = (uint64_t)sp->ntrans * sp->nvariants * sp->nstates * sp->ncfg;
        vf_space_run(label, N, everywhere_case, sp);
        universe_states += (uint64_t)sp->nstates;
        bl += snprintf(bounds + bl, sizeof bounds - bl, "%s%s: %d states x %d transitions x %d construction variant(s) x 2 cfgs", i ? "; " : "everywhere: ", KINDN[sp->kind], sp->nstates, sp->ntrans, sp->nvariants);
    }
    static const uint8_t PAT3[8] = { 0, 1, 2, 3, 4, 5, 6, 7 };
    static const uint8_t PAT3Q[4] = { 0, 7, 5, 2 };
    static const uint8_t PAT4[2] = { 15, 10 };      /* a draw after every setter (and before the first) / draws after the 1st and 3rd setter only */
    static depth_t DC[16]; int ndc = 0;
    for (int i = 0; i < np; i++) {
        space_t *sp = &SP[i];
        depth_t *dc = &DC[ndc++]; dc->sp = sp; dc->depth = 3; dc->npat = 8; dc->pats = PAT3;
        if (!th && sp->kind != K_ARGB) { dc->npat = 4; dc->pats = PAT3Q; }       /* quick: indexed and gradient images with 4 of the 8 draw patterns */
        snprintf(label, sizeof label, "depth3-%s", KINDN[sp->kind]);
        uint64_t N = (uint64_t)sp->ntrans * sp->ntrans * sp->ntrans * (uint64_t)dc->npat * sp->ncfg;
        vf_space_run(label, N, depth_case, dc);
        ast_t z; memset(&z, 0, sizeof z); reach_rec(sp, z, 3);
        for (int k = 0; k < sp->nstates; k++) stset_add(sp->kind, &sp->states[k]);
        bl += snprintf(bounds + bl, sizeof bounds - bl, "%s%s: %d^3 sequences x %d draw patterns x 2 cfgs", i ? "; " : " || depth3: ", KINDN[sp->kind], sp->ntrans, dc->npat);
    }
    if (th) {
        space_t *sp = &SP[0];
        depth_t *dc = &DC[ndc++]; dc->sp = sp; dc->depth = 4; dc->npat = 2; dc->pats = PAT4;
        snprintf(label, sizeof label, "depth4-%s", KINDN[sp->kind]);
        uint64_t N = (uint64_t)sp->ntrans * sp->ntrans * sp->ntrans * sp->ntrans * 2 * sp->ncfg;
        vf_space_run(label, N, depth_case, dc);
        ast_t z; memset(&z, 0, sizeof z); reach_rec(sp, z, 4);
        bl += snprintf(bounds + bl, sizeof bounds - bl, " || depth4: %s: %d^4 sequences x 2 draw patterns x 2 cfgs", KINDN[sp->kind], sp->ntrans);
    }
    if (!vf_replaying()) vf_count_states(stset_n);
    snprintf(vf->extra_json, sizeof vf->extra_json, "\"universe_states\": %llu, \"distinct_abstract_states_universe_plus_reachable_from_init\": %llu, \"composites_executed\": %llu",
             (unsigned long long)universe_states, (unsigned long long)stset_n, (unsigned long long)vf->libcalls);
    vf_bounds = bounds;
    return vf_finish();
}
