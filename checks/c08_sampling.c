/* C08 — transformed sources are sampled at the documented position, filter and repeat.
 * Engine E1: every transform of the alphabet x filter x repeat x source size x format is drawn with OP_SRC into
 * an a8r8g8b8 destination under three implementation configurations; every destination pixel is compared with
 * ref_sample(), an integer model of rounding.txt: position = round-half-up of the exact matrix product at the
 * pixel centre; nearest = floor(p - e); bilinear = 7-bit weights of p - 1/2, truncating; convolution and
 * separable convolution aligned at floor(p - (w-1)/2 - e); repeat NONE/NORMAL/PAD/REFLECT.
 */
#include "vf.h"
#include "pixhelp.h"

#define FX1 0x10000
#define EPS 1

/* ---------- reference ---------- */
typedef struct {
    int w, h; ph_fmt_t fmt; const uint32_t *raw;    /* raw pixel values, w*h */
    int repeat;
} rsrc_t;

static int ref_repeat(int mode, int *c, int size)
{
    if (mode == PIXMAN_REPEAT_NONE) return *c >= 0 && *c < size;
    if (mode == PIXMAN_REPEAT_NORMAL) { *c %= size; if (*c < 0) *c += size; return 1; }
    if (mode == PIXMAN_REPEAT_PAD) { if (*c < 0) *c = 0; if (*c >= size) *c = size - 1; return 1; }
    int m = *c % (2 * size); if (m < 0) m += 2 * size;
    *c = m >= size ? 2 * size - 1 - m : m;
    return 1;
}
/* pixel at integer coordinates after repeat, as a8r8g8b8; outside a non-repeating image: transparent */
static uint32_t ref_pixel(const rsrc_t *s, int x, int y)
{
    if (!ref_repeat(s->repeat, &x, s->w) || !ref_repeat(s->repeat, &y, s->h)) return 0;
    return ph_to_8888(&s->fmt, s->raw[y * s->w + x]);
}
static inline int64_t fl16(int64_t v) { return v >> 16; }   /* floor of a 16.16 value (arithmetic shift) */

static uint32_t ref_nearest(const rsrc_t *s, int64_t px, int64_t py) { return ref_pixel(s, (int)fl16(px - EPS), (int)fl16(py - EPS)); }

static uint32_t ref_bilinear(const rsrc_t *s, int64_t px, int64_t py)
{
    int64_t x1 = px - FX1 / 2, y1 = py - FX1 / 2;
    int wx = (int)((x1 >> 9) & 127) * 2, wy = (int)((y1 >> 9) & 127) * 2;    /* 7-bit weights on a 256 scale */
    int ix = (int)fl16(x1), iy = (int)fl16(y1);
    uint32_t tl = ref_pixel(s, ix, iy), tr = ref_pixel(s, ix + 1, iy), bl = ref_pixel(s, ix, iy + 1), br = ref_pixel(s, ix + 1, iy + 1);
    uint32_t out = 0;
    for (int sh = 0; sh < 32; sh += 8) {
        uint32_t v = ((tl >> sh) & 0xff) * (256 - wx) * (256 - wy) + ((tr >> sh) & 0xff) * wx * (256 - wy) + ((bl >> sh) & 0xff) * (256 - wx) * wy + ((br >> sh) & 0xff) * wx * wy;
        out |= (v >> 16) << sh;
    }
    return out;
}
static uint32_t ref_reduce(const int64_t tot[4])
{
    uint32_t out = 0;
    for (int c = 0; c < 4; c++) { int64_t v = (tot[c] + 0x8000) >> 16; if (v < 0) v = 0; if (v > 255) v = 255; out |= (uint32_t)v << (24 - 8 * c); }
    return out;
}
static uint32_t ref_convolution(const rsrc_t *s, int64_t px, int64_t py, const pixman_fixed_t *params)
{
    int cw = params[0] >> 16, ch = params[1] >> 16;
    int64_t xoff = (params[0] - FX1) >> 1, yoff = (params[1] - FX1) >> 1;
    int x1 = (int)fl16(px - EPS - xoff), y1 = (int)fl16(py - EPS - yoff);
    int64_t tot[4] = { 0, 0, 0, 0 };
    const pixman_fixed_t *k = params + 2;
    for (int j = 0; j < ch; j++) for (int i = 0; i < cw; i++, k++) {
        if (!*k) continue;
        uint32_t p = ref_pixel(s, x1 + i, y1 + j);
        for (int c = 0; c < 4; c++) tot[c] += (int64_t)((p >> (24 - 8 * c)) & 0xff) * *k;
    }
    return ref_reduce(tot);
}
static uint32_t ref_separable(const rsrc_t *s, int64_t px, int64_t py, const pixman_fixed_t *params)
{
    int cw = params[0] >> 16, ch = params[1] >> 16, xb = params[2] >> 16, yb = params[3] >> 16;
    int xs = 16 - xb, ys = 16 - yb;
    int64_t xoff = (((int64_t)cw << 16) - FX1) >> 1, yoff = (((int64_t)ch << 16) - FX1) >> 1;
    /* position rounded to the middle of its phase */
    px = ((px >> xs) << xs) + ((1 << xs) >> 1); py = ((py >> ys) << ys) + ((1 << ys) >> 1);
    int phx = (int)((px & 0xffff) >> xs), phy = (int)((py & 0xffff) >> ys);
    const pixman_fixed_t *xk = params + 4 + phx * cw, *yk = params + 4 + (1 << xb) * cw + phy * ch;
    int x1 = (int)fl16(px - EPS - xoff), y1 = (int)fl16(py - EPS - yoff);
    int64_t tot[4] = { 0, 0, 0, 0 };
    for (int j = 0; j < ch; j++) { if (!yk[j]) continue; for (int i = 0; i < cw; i++) {
        if (!xk[i]) continue;
        int64_t f = ((int64_t)yk[j] * xk[i] + 0x8000) >> 16;
        uint32_t p = ref_pixel(s, x1 + i, y1 + j);
        for (int c = 0; c < 4; c++) tot[c] += (int64_t)((p >> (24 - 8 * c)) & 0xff) * f;
    } }
    return ref_reduce(tot);
}

/* ---------- filters ---------- */
typedef struct { const char *name; int kind; int n; pixman_fixed_t p[80]; } filt_t;   /* kind 0 nearest 1 bilinear 2 convolution 3 separable */
static filt_t FIL[24]; static int NFIL;
static void add_conv(const char *name, int cw, int ch, const int *k)
{
    filt_t *f = &FIL[NFIL++]; f->name = name; f->kind = 2; f->p[0] = cw << 16; f->p[1] = ch << 16;
    for (int i = 0; i < cw * ch; i++) f->p[2 + i] = k[i];
    f->n = 2 + cw * ch;
}
static void add_sep(const char *name, int cw, int ch, int xb, int yb)
{
    filt_t *f = &FIL[NFIL++]; f->name = name; f->kind = 3;
    f->p[0] = cw << 16; f->p[1] = ch << 16; f->p[2] = xb << 16; f->p[3] = yb << 16;
    int n = 4;
    /* phase tables: distinct positive weights summing to 65536 per phase (any table is legal input) */
    for (int ax = 0; ax < 2; ax++) {
        int w = ax ? ch : cw, b = ax ? yb : xb;
        for (int ph = 0; ph < (1 << b); ph++) {
            int rest = 65536;
            for (int i = 0; i < w; i++) {
                int v = (i == w - 1) ? rest : (65536 / w) + ((i * 37 + ph * 101 + ax * 17) % 200) * 16 - 1600;
                if (i == 1 && w == 3 && ph == 1) v = 0;      /* a zero tap: must be skipped */
                f->p[n++] = v; rest -= v;
            }
        }
    }
    f->n = n;
}
static void init_filters(int th)
{
    FIL[NFIL].name = "nearest"; FIL[NFIL++].kind = 0;
    FIL[NFIL].name = "bilinear"; FIL[NFIL++].kind = 1;
    static const int k11[1] = { 0x10000 }, k22[4] = { 0x4000, 0x4000, 0x4000, 0x4000 }, k33[9] = { 0x1000, 0x2000, 0x1000, 0x2000, 0x4000, 0x2000, 0x1000, 0x2000, 0x1000 };
    static const int k31[3] = { 0x4000, 0x8000, 0x4000 }, k14[4] = { 0x2000, 0x6000, 0x6000, 0x2000 }, kneg[3] = { -0x4000, 0x18000, -0x4000 }, kbig[2] = { 0x18000, 0x8000 };
    add_conv("conv1x1", 1, 1, k11); add_conv("conv2x2", 2, 2, k22); add_conv("conv3x3", 3, 3, k33);
    add_conv("conv3x1", 3, 1, k31); add_conv("conv1x4", 1, 4, k14);
    add_conv("conv3x1-negative-lobes", 3, 1, kneg); add_conv("conv2x1-sum2", 2, 1, kbig);
    add_sep("sep1x1-p0", 1, 1, 0, 0); add_sep("sep2x2-p1", 2, 2, 1, 1); add_sep("sep3x3-p2", 3, 3, 2, 2); add_sep("sep3x2-p1,2", 3, 2, 1, 2);
    if (th) { add_sep("sep2x3-p2,0", 2, 3, 2, 0); add_sep("sep1x2-p2,1", 1, 2, 2, 1); add_sep("sep3x1-p0,2", 3, 1, 0, 2); add_sep("sep2x1-p4", 2, 1, 4, 0); add_sep("sep3x3-p0", 3, 3, 0, 0); }
}

/* ---------- sources ---------- */
static const int SZ[4][2] = { { 1, 1 }, { 2, 2 }, { 3, 2 }, { 4, 4 } };
static ph_fmt_t FM[4];
static const char *FMN[4] = { "a8r8g8b8", "x8r8g8b8", "r5g6b5", "a8" };

static uint32_t src_raw(const ph_fmt_t *f, int w, int x, int y)
{
    /* position-encoding pixels: every pixel distinct in every channel */
    unsigned k = (unsigned)(y * w + x) + 1;
    uint32_t argb = (0x40 + 11 * k) << 24 | (0x10 + 13 * k) << 16 | (0xf0 - 9 * k) << 8 | (0x08 + 15 * k);
    uint32_t raw = ph_from_8888(f, argb);
    if (f->bpp == 32 && !f->aw) raw |= 0x5a000000;    /* junk in the undefined byte */
    return raw;
}

/* ---------- transforms ---------- */
static const int32_t A00[] = { FX1, FX1 / 2, -FX1 / 2, -FX1, FX1 + EPS, 2 * FX1, 0x5555 };
static const int32_t A01[] = { 0, FX1 / 2, -FX1 / 2, FX1, -FX1 };
static int32_t TT[8];
static const int32_t PROJ[8][3] = { { 0, 0, FX1 }, { 0, 0, 2 * FX1 }, { 0, 0, FX1 / 2 }, { EPS, 0, FX1 }, { FX1 / 4, 0, FX1 }, { 0, -FX1 / 4, FX1 }, { 0, 0, -FX1 }, { 0x199a, 0x199a, 0xb333 } };

#define DW 6
#define DH 5

typedef struct { int th; int projective; } c8_ctx;

static const int CF[3] = { PH_CFG_DEFAULT, PH_CFG_WHOLEOPS, PH_CFG_GENERAL };

static void c8_case(uint64_t idx, void *vctx)
{
    c8_ctx *c = vctx; int th = c->th; uint64_t idx0 = idx;
    pixman_transform_t t; memset(&t, 0, sizeof t);
    char tdesc[160];
    if (!c->projective) {
        int n00 = 7, n11 = th ? 7 : 3, n01 = th ? 5 : 3, n10 = th ? 5 : 3, ntx = 8, nty = th ? 8 : 3;
        int i00 = (int)(idx % n00); idx /= n00; int i11 = (int)(idx % n11); idx /= n11; int i01 = (int)(idx % n01); idx /= n01; int i10 = (int)(idx % n10); idx /= n10;
        int itx = (int)(idx % ntx); idx /= ntx; int ity = (int)(idx % nty); idx /= nty;
        static const int q11[3] = { 0, 2, 5 }, qty[3] = { 0, 3, 6 };
        t.matrix[0][0] = A00[i00]; t.matrix[1][1] = A00[th ? i11 : q11[i11]]; t.matrix[0][1] = A01[i01]; t.matrix[1][0] = A01[i10];
        t.matrix[0][2] = TT[itx]; t.matrix[1][2] = TT[th ? ity : qty[ity]]; t.matrix[2][2] = FX1;
    } else {
        int pr = (int)(idx % 8); idx /= 8; int i00 = (int)(idx % 4); idx /= 4; int itx = (int)(idx % 8); idx /= 8; int i01 = (int)(idx % 3); idx /= 3;
        t.matrix[0][0] = A00[i00]; t.matrix[1][1] = A00[(i00 + 1) % 4]; t.matrix[0][1] = A01[i01]; t.matrix[1][0] = A01[(i01 + 1) % 3];
        t.matrix[0][2] = TT[itx]; t.matrix[1][2] = TT[(itx + 3) % 8];
        t.matrix[2][0] = PROJ[pr][0]; t.matrix[2][1] = PROJ[pr][1]; t.matrix[2][2] = PROJ[pr][2];
    }
    snprintf(tdesc, sizeof tdesc, "[%d %d %d; %d %d %d; %d %d %d]", t.matrix[0][0], t.matrix[0][1], t.matrix[0][2], t.matrix[1][0], t.matrix[1][1], t.matrix[1][2], t.matrix[2][0], t.matrix[2][1], t.matrix[2][2]);
    uint64_t hh = 0, ev = 0, nt = 0;
    char cfgn[64];
    static const pixman_repeat_t reps[4] = { PIXMAN_REPEAT_NONE, PIXMAN_REPEAT_NORMAL, PIXMAN_REPEAT_PAD, PIXMAN_REPEAT_REFLECT };
    for (int si = 0; si < 4; si++) {
        /* (the 1x1 source matters: with a repeat mode the library treats it as a solid colour) */
        for (int fi = 0; fi < 4; fi++) {
            int sw = SZ[si][0], sh = SZ[si][1];
            uint32_t raw[16]; for (int y = 0; y < sh; y++) for (int x = 0; x < sw; x++) raw[y * sw + x] = src_raw(&FM[fi], sw, x, y);
            uint32_t sbuf[16 * 2]; memset(sbuf, 0, sizeof sbuf);
            int stride = ph_stride_for(FM[fi].bpp, sw);
            for (int y = 0; y < sh; y++) for (int x = 0; x < sw; x++) ph_put_pixel((uint8_t *)sbuf + y * stride, FM[fi].bpp, x, raw[y * sw + x]);
            pixman_image_t *src = pixman_image_create_bits(FM[fi].code, sw, sh, sbuf, stride);
            int hist = (int)((idx0 + (uint64_t)si) & 1), cur_fl = -1, cur_ri = -1;
            if (hist) {
                /* history: the image is first drawn from (bilinear) with the same linear part and an INTEGER translation, then given the transform
                 * under test - what the library derived from the first matrix (e.g. "bilinear reduces to nearest") must not survive */
                pixman_transform_t t0 = t; t0.matrix[0][2] = 2 * FX1; t0.matrix[1][2] = FX1;
                uint32_t one[2] = { 0, 0 }; pixman_image_t *scratch = pixman_image_create_bits(PIXMAN_a8r8g8b8, 2, 1, one, 8);
                pixman_image_set_transform(src, &t0); pixman_image_set_filter(src, PIXMAN_FILTER_BILINEAR, NULL, 0); pixman_image_set_repeat(src, PIXMAN_REPEAT_REFLECT);
                pixman_image_composite32(PIXMAN_OP_SRC, src, NULL, scratch, 0, 0, 0, 0, 0, 0, 2, 1);
                pixman_image_unref(scratch);
                cur_fl = 1; cur_ri = 3;
            }
            pixman_image_set_transform(src, &t);
            /* with a history the first judged drawing uses the filter and repeat the image already has: no other setter runs between
             * set_transform and that drawing */
            for (int flk = 0; flk < NFIL; flk++) {
                int fl = hist ? (flk == 0 ? 1 : flk == 1 ? 0 : flk) : flk;
                if (c->projective && FIL[fl].kind >= 2 && fl % 3) continue;
                if (fl != cur_fl) {
                    if (FIL[fl].kind == 0) pixman_image_set_filter(src, PIXMAN_FILTER_NEAREST, NULL, 0);
                    else if (FIL[fl].kind == 1) pixman_image_set_filter(src, PIXMAN_FILTER_BILINEAR, NULL, 0);
                    else if (FIL[fl].kind == 2) pixman_image_set_filter(src, PIXMAN_FILTER_CONVOLUTION, FIL[fl].p, FIL[fl].n);
                    else pixman_image_set_filter(src, PIXMAN_FILTER_SEPARABLE_CONVOLUTION, FIL[fl].p, FIL[fl].n);
                    cur_fl = fl;
                }
                for (int rik = 0; rik < 4; rik++) {
                    int ri = hist ? (rik + 3) % 4 : rik;
                    if (ri != cur_ri) { pixman_image_set_repeat(src, reps[ri]); cur_ri = ri; }
                    rsrc_t rs = { sw, sh, FM[fi], raw, reps[ri] };
                    for (int off = 0; off < 2; off++) {
                        int dx0 = off ? 2 : 0, dy0 = off ? 1 : 0;     /* request starts at (dx0,dy0) in the destination, source origin follows */
                        /* expected image */
                        uint32_t exp[DH][DW][9]; int nexp[DH][DW];
                        for (int y = 0; y < DH; y++) for (int x = 0; x < DW; x++) {
                            nexp[y][x] = 0;
                            if (x < dx0 || y < dy0) continue;
                            /* source-space pixel centre: (x - dx0 + src_x + 1/2), src_x = 0 */
                            int64_t cx = (int64_t)(2 * (x - dx0) + 1) * (FX1 / 2), cy = (int64_t)(2 * (y - dy0) + 1) * (FX1 / 2);
                            int64_t vx = ((int64_t)t.matrix[0][0] * cx + (int64_t)t.matrix[0][1] * cy + (int64_t)t.matrix[0][2] * FX1 + 0x8000) >> 16;
                            int64_t vy = ((int64_t)t.matrix[1][0] * cx + (int64_t)t.matrix[1][1] * cy + (int64_t)t.matrix[1][2] * FX1 + 0x8000) >> 16;
                            int64_t vw = ((int64_t)t.matrix[2][0] * cx + (int64_t)t.matrix[2][1] * cy + (int64_t)t.matrix[2][2] * FX1 + 0x8000) >> 16;
                            int64_t candx[3], candy[3]; int nc = 1;
                            if (!c->projective) { candx[0] = vx; candy[0] = vy; }
                            else {
                                if (vw == 0) { candx[0] = 0; candy[0] = 0; }
                                else {
                                    /* quotient of the rounded components; the statement does not fix its rounding: floor, and one ulp either side */
                                    __int128 qx = ((__int128)vx << 16), qy = ((__int128)vy << 16);
                                    int64_t fx = (int64_t)(qx / vw), fy = (int64_t)(qy / vw);
                                    if ((qx % vw != 0) && ((qx < 0) != (vw < 0))) fx--;
                                    if ((qy % vw != 0) && ((qy < 0) != (vw < 0))) fy--;
                                    candx[0] = fx; candx[1] = fx + 1; candx[2] = fx - 1; candy[0] = fy; candy[1] = fy + 1; candy[2] = fy - 1; nc = 3;
                                }
                            }
                            for (int a = 0; a < nc; a++) for (int b = 0; b < nc; b++) {
                                int64_t px = candx[a], py = candy[b];
                                if (px != (int32_t)px || py != (int32_t)py) continue;
                                uint32_t e = FIL[fl].kind == 0 ? ref_nearest(&rs, px, py) : FIL[fl].kind == 1 ? ref_bilinear(&rs, px, py)
                                           : FIL[fl].kind == 2 ? ref_convolution(&rs, px, py, FIL[fl].p) : ref_separable(&rs, px, py, FIL[fl].p);
                                exp[y][x][nexp[y][x]++] = e;
                            }
                        }
                        /* mk = 1: the same request through an a8 mask holding only 0 and 0xff: a masked-out pixel must come out 0 and must not
                         * disturb the sampling position of the pixels after it (fetchers skip source pixels whose mask is 0) */
                        /* mk = 2: a component-alpha a8r8g8b8 mask holding ffffffff and 00ffffff: where its ALPHA is 0 the colour channels still pass (only the
                         * result's alpha becomes 0), so the source must be sampled there like anywhere else */
                        for (int mk = 0; mk < 3; mk++) for (int ci = 0; ci < 3; ci++) {
                            if (mk && (off || !(FIL[fl].kind < 2 || fl == 4 || c->projective))) continue;
                            ph_set_cfg(CF[ci]);
                            uint32_t dbuf[DH][DW]; memset(dbuf, 0xa5, sizeof dbuf);
                            static const uint8_t mrow[2][8] = { { 0xff, 0x00, 0xff, 0xff, 0x00, 0x00, 0, 0 }, { 0x00, 0x00, 0xff, 0x00, 0xff, 0xff, 0, 0 } };
                            uint8_t mbuf[DH][8]; for (int y = 0; y < DH; y++) memcpy(mbuf[y], mrow[y & 1], 8);
                            pixman_image_t *dst = pixman_image_create_bits(PIXMAN_a8r8g8b8, DW, DH, &dbuf[0][0], DW * 4);
                            uint32_t cabuf[DH][8]; for (int y = 0; y < DH; y++) for (int x = 0; x < 8; x++) cabuf[y][x] = mbuf[y][x] ? 0xffffffffu : 0x00ffffffu;
                            pixman_image_t *msk = mk == 1 ? pixman_image_create_bits(PIXMAN_a8, DW, DH, (uint32_t *)&mbuf[0][0], 8) : mk == 2 ? pixman_image_create_bits(PIXMAN_a8r8g8b8, DW, DH, &cabuf[0][0], 32) : NULL;
                            if (mk == 2) pixman_image_set_component_alpha(msk, 1);
                            pixman_image_composite32(PIXMAN_OP_SRC, src, msk, dst, 0, 0, dx0, dy0, dx0, dy0, DW - dx0, DH - dy0);
                            pixman_image_unref(dst); if (msk) pixman_image_unref(msk);
                            vf_count_libcalls(1); ev++;
                            for (int y = 0; y < DH; y++) for (int x = 0; x < DW; x++) {
                                if (x < dx0 || y < dy0) { if (dbuf[y][x] != 0xa5a5a5a5) { vf_violation("c08-wrote-outside-request", "transform %s: pixel (%d,%d) outside the request modified", tdesc, x, y); goto done; } continue; }
                                uint32_t keep = (mk == 2 && mbuf[y][x] == 0) ? 0x00ffffffu : 0xffffffffu;
                                if (mk == 1 && mbuf[y][x] == 0) {
                                    if (dbuf[y][x] != 0) { vf_violation("c08-masked-out-pixel-not-zero", "transform %s filter=%s: pixel (%d,%d) has mask 0 but SRC left %08x", tdesc, FIL[fl].name, x, y, dbuf[y][x]); goto done; }
                                    continue;
                                }
                                if (nexp[y][x] == 0) continue;     /* position not representable: not judged */
                                int ok = 0; for (int k = 0; k < nexp[y][x]; k++) if ((exp[y][x][k] & keep) == dbuf[y][x]) ok = 1;
                                if (!ok) {
                                    const char *key = "c08-sample-mismatch";
                                    if (c->projective) key = "c08-projective-sample-mismatch";
                                    else if (FIL[fl].kind >= 2) { int neg = 0; for (int k = 0; k < FIL[fl].n; k++) if (FIL[fl].p[k] < 0) neg = 1; if (neg) key = "c08-convolution-negative-total"; }
                                    if (mk) key = "c08-sample-mismatch-behind-mask";
                                    vf_violation(key, "source %s %dx%d repeat=%d filter=%s %stransform %s request origin (%d,%d) PIXMAN_DISABLE=[%s]: destination (%d,%d) = %08x, reference %08x%s",
                                                 FMN[fi], sw, sh, ri, FIL[fl].name, mk == 1 ? "through an a8 mask of 0/ff runs, " : mk == 2 ? "through a component-alpha mask of ffffffff/00ffffff runs, " : "", tdesc, dx0, dy0, ph_cfg_name(CF[ci], cfgn, sizeof cfgn), x, y, dbuf[y][x], exp[y][x][0],
                                                 nexp[y][x] > 1 ? " (or a neighbour within one ulp of the quotient)" : "");
                                    goto done;
                                }
                                if (ci == 0) { hh = vf_mix(hh, dbuf[y][x]); if (dbuf[y][x]) nt++; }
                            }
                        }
                    }
                }
            }
            pixman_image_unref(src);
            continue;
done:
            pixman_image_unref(src);
            return;
        }
    }
    vf_count_eval(ev); vf_count_nontrivial(nt ? ev : 0);
    if (!vf_in_confirm) vf_outcome(hh);
    if (vf_want_sample() && !vf_in_confirm && (idx0 % 97) == 13) vf_sample("transform %s: 4 source sizes x 4 formats x %d filters x 4 repeats x 2 request origins x 3 configurations, every destination pixel compared", tdesc, NFIL);
}

/* ---------- very wide / very tall sources: the scaled fast paths split a scanline into padding and image parts with arithmetic in
 * the source size; the property quantifies over all source sizes, so sizes next to the 16.16 limit of the coordinate space belong ---------- */
static const int BIGS[4] = { 32766, 32765, 32700, 20000 };   /* analyze_extent() drops transformed requests on bits images of 32767 or more pixels a side */
static const int32_t BSC[6] = { FX1, FX1 / 2, 2 * FX1, 0x5555, FX1 + EPS, -FX1 };
static const int32_t BSUB[3] = { 0, FX1 / 2, EPS };
#define BW 8
static uint32_t big_raw(const ph_fmt_t *f, int i)
{
    uint32_t k = (uint32_t)i * 2654435761u;
    uint32_t argb = (0x30 + (k >> 8 & 0x7f)) << 24 | (k >> 16 & 0xff) << 16 | (k >> 24) << 8 | ((uint32_t)i * 37 & 0xff);
    /* keep it premultiplied-looking is not needed for SRC; make the last and first pixels unmistakable */
    uint32_t raw = ph_from_8888(f, argb);
    if (f->bpp == 32 && !f->aw) raw |= 0x5a000000;
    return raw;
}
typedef struct { int th; } big_ctx;
static void big_case(uint64_t idx, void *vctx)
{
    (void)vctx;
    int dims[5] = { 3, 7, 6, 4, 2 }, d[5];
    vf_decode(idx, dims, 5, d);
    int tall = d[4], S = BIGS[d[3]]; int32_t sc = BSC[d[2]], sub = BSUB[d[0]];
    /* first sample (source pixels) for positive scales; negative scale walks leftwards from there */
    int64_t span = ((int64_t)(sc < 0 ? -sc : sc) * BW) >> 16;
    int margin = (int)span + 6;
    const int starts[7] = { -70, -3, -1, 0, S / 2, S - margin, 32767 - margin };
    int start = starts[d[1]];
    if (sc < 0) start = start + (int)span + 1;
    if (start > 32767 - 4 || start < -32000) return;
    pixman_transform_t t; memset(&t, 0, sizeof t);
    int a = tall ? 1 : 0, b = tall ? 0 : 1;
    t.matrix[a][a] = sc; t.matrix[a][2] = start * FX1 + sub; t.matrix[b][b] = FX1; t.matrix[b][2] = 0; t.matrix[2][2] = FX1;
    int sw = tall ? 2 : S, sh = tall ? S : 2, dw = tall ? 2 : BW, dh = tall ? BW : 2;
    char tdesc[160]; snprintf(tdesc, sizeof tdesc, "[%d %d %d; %d %d %d; 0 0 65536]", t.matrix[0][0], t.matrix[0][1], t.matrix[0][2], t.matrix[1][0], t.matrix[1][1], t.matrix[1][2]);
    static const pixman_repeat_t reps[4] = { PIXMAN_REPEAT_NONE, PIXMAN_REPEAT_NORMAL, PIXMAN_REPEAT_PAD, PIXMAN_REPEAT_REFLECT };
    uint64_t ev = 0, nt = 0, hh = 0; char cfgn[64];
    uint32_t *raw = malloc(sizeof(uint32_t) * (size_t)sw * sh);
    for (int fi = 0; fi < 4; fi++) {
        for (int i = 0; i < sw * sh; i++) raw[i] = big_raw(&FM[fi], i);
        int stride = ph_stride_for(FM[fi].bpp, sw);
        uint8_t *sbuf = calloc((size_t)stride, (size_t)sh);
        for (int y = 0; y < sh; y++) for (int x = 0; x < sw; x++) ph_put_pixel(sbuf + (size_t)y * stride, FM[fi].bpp, x, raw[y * sw + x]);
        pixman_image_t *src = pixman_image_create_bits(FM[fi].code, sw, sh, (uint32_t *)sbuf, stride);
        pixman_image_set_transform(src, &t);
        for (int fl = 0; fl < 2; fl++) {
            pixman_image_set_filter(src, fl ? PIXMAN_FILTER_BILINEAR : PIXMAN_FILTER_NEAREST, NULL, 0);
            for (int ri = 0; ri < 4; ri++) {
                pixman_image_set_repeat(src, reps[ri]);
                rsrc_t rs = { sw, sh, FM[fi], raw, reps[ri] };
                uint32_t exp[BW][BW]; int judged = 1;
                for (int y = 0; y < dh; y++) for (int x = 0; x < dw; x++) {
                    int64_t cx = (int64_t)(2 * x + 1) * (FX1 / 2), cy = (int64_t)(2 * y + 1) * (FX1 / 2);
                    int64_t vx = ((int64_t)t.matrix[0][0] * cx + (int64_t)t.matrix[0][2] * FX1 + 0x8000) >> 16;
                    int64_t vy = ((int64_t)t.matrix[1][1] * cy + (int64_t)t.matrix[1][2] * FX1 + 0x8000) >> 16;
                    if (vx != (int32_t)vx || vy != (int32_t)vy) { judged = 0; continue; }
                    exp[y][x] = fl ? ref_bilinear(&rs, vx, vy) : ref_nearest(&rs, vx, vy);
                }
                if (!judged) continue;
                for (int di = 0; di < 2; di++) for (int oi = 0; oi < 2; oi++) for (int ci = 0; ci < 3; ci++) {
                    /* destination a8r8g8b8 / r5g6b5; OP_SRC onto a pattern / OP_OVER onto zero (= the source itself) */
                    if (oi && !FM[fi].aw) continue;   /* an alpha-less source under OVER is SRC again */
                    ph_set_cfg(CF[ci]);
                    uint32_t dbuf[BW][BW]; memset(dbuf, oi ? 0 : 0xa5, sizeof dbuf);
                    pixman_image_t *dst = pixman_image_create_bits(di ? PIXMAN_r5g6b5 : PIXMAN_a8r8g8b8, dw, dh, &dbuf[0][0], BW * 4);
                    pixman_image_composite32(oi ? PIXMAN_OP_OVER : PIXMAN_OP_SRC, src, NULL, dst, 0, 0, 0, 0, 0, 0, dw, dh);
                    pixman_image_unref(dst);
                    vf_count_libcalls(1); ev++;
                    for (int y = 0; y < dh; y++) for (int x = 0; x < dw; x++) {
                        uint32_t got = di ? ((uint16_t *)&dbuf[y][0])[x] : dbuf[y][x], e = exp[y][x];
                        if (oi && di) continue;                                        /* OVER onto 565 rounds through the blend: not an exact copy */
                        if (di) { uint32_t r = e >> 16 & 0xff, g = e >> 8 & 0xff, bb = e & 0xff; e = (r >> 3) << 11 | (g >> 2) << 5 | (bb >> 3); }
                        if (got != e) {
                            vf_violation("c08-wide-source-sample-mismatch", "source %s %dx%d repeat=%d filter=%s transform %s (first sample at source %s %d%+.5f, step %.5f) %s onto %s PIXMAN_DISABLE=[%s]: destination (%d,%d) = %08x, reference %08x",
                                         FMN[fi], sw, sh, ri, fl ? "bilinear" : "nearest", tdesc, tall ? "row" : "column", start, sub / 65536.0, sc / 65536.0, oi ? "OVER (onto zero)" : "SRC", di ? "r5g6b5" : "a8r8g8b8",
                                         ph_cfg_name(CF[ci], cfgn, sizeof cfgn), x, y, got, e);
                            pixman_image_unref(src); free(sbuf); free(raw); return;
                        }
                        if (ci == 0) { hh = vf_mix(hh, got); if (got) nt++; }
                    }
                }
            }
        }
        pixman_image_unref(src); free(sbuf);
    }
    free(raw);
    vf_count_eval(ev); vf_count_nontrivial(nt ? ev : 0);
    if (!vf_in_confirm) vf_outcome(hh);
}

/* ---------- the wide (float) pipeline: same positions, filters and repeat rules; real-valued reference ----------
 * A composite is evaluated in floating point when any of its images has more than 8 bits per channel.  The per-pixel float fetchers
 * are separate code from the 8-bit ones.  Reference: the exact position as above; nearest = that pixel; bilinear = the four neighbours
 * weighted by the fraction of p - 1/2 (the float fetcher uses the full 16-bit fraction, the statement names 7 bits: the tolerance
 * admits both); convolution = the kernel sum.  Accepted: within one destination step (+ the 7-bit weight slack) of the real value. */
typedef struct { int w, h, repeat; const long double *px; /* w*h*4, a r g b in [0,1] */ } wsrc_t;
static void w_pixel(const wsrc_t *s, int x, int y, long double out[4])
{
    if (!ref_repeat(s->repeat, &x, s->w) || !ref_repeat(s->repeat, &y, s->h)) { out[0] = out[1] = out[2] = out[3] = 0; return; }
    for (int c = 0; c < 4; c++) out[c] = s->px[(y * s->w + x) * 4 + c];
}
static void w_sample(const wsrc_t *s, const filt_t *f, int64_t px, int64_t py, long double out[4], long double *slack)
{
    *slack = 0;
    if (f->kind == 0) { w_pixel(s, (int)fl16(px - EPS), (int)fl16(py - EPS), out); return; }
    if (f->kind == 1) {
        int64_t x1 = px - FX1 / 2, y1 = py - FX1 / 2;
        long double fx = (long double)(x1 & 0xffff) / 65536.0L, fy = (long double)(y1 & 0xffff) / 65536.0L;
        int ix = (int)fl16(x1), iy = (int)fl16(y1);
        long double tl[4], tr[4], bl[4], br[4]; w_pixel(s, ix, iy, tl); w_pixel(s, ix + 1, iy, tr); w_pixel(s, ix, iy + 1, bl); w_pixel(s, ix + 1, iy + 1, br);
        for (int c = 0; c < 4; c++) {
            out[c] = tl[c] * (1 - fx) * (1 - fy) + tr[c] * fx * (1 - fy) + bl[c] * (1 - fx) * fy + br[c] * fx * fy;
            long double lo = tl[c], hi = tl[c]; const long double v[3] = { tr[c], bl[c], br[c] };
            for (int k = 0; k < 3; k++) { if (v[k] < lo) lo = v[k]; if (v[k] > hi) hi = v[k]; }
            if ((hi - lo) / 64 > *slack) *slack = (hi - lo) / 64;       /* weights quantised to 7 bits on either axis */
        }
        return;
    }
    /* plain convolution */
    int cw = f->p[0] >> 16, ch = f->p[1] >> 16;
    int x1 = (int)fl16(px - EPS - (((int64_t)f->p[0] - FX1) >> 1)), y1 = (int)fl16(py - EPS - (((int64_t)f->p[1] - FX1) >> 1));
    for (int c = 0; c < 4; c++) out[c] = 0;
    for (int j = 0; j < ch; j++) for (int i = 0; i < cw; i++) {
        long double wgt = (long double)f->p[2 + j * cw + i] / 65536.0L, p[4];
        if (wgt == 0) continue;
        w_pixel(s, x1 + i, y1 + j, p);
        for (int c = 0; c < 4; c++) out[c] += p[c] * wgt;
    }
    for (int c = 0; c < 4; c++) { if (out[c] < 0) out[c] = 0; if (out[c] > 1) out[c] = 1; }
}
static void wide_case(uint64_t idx, void *vctx)
{
    c8_ctx *c = vctx; uint64_t idx0 = idx;
    pixman_transform_t t; memset(&t, 0, sizeof t);
    if (!c->projective) {
        int i00 = (int)(idx % 7); idx /= 7; int i11 = (int)(idx % 3); idx /= 3; int i01 = (int)(idx % 3); idx /= 3; int i10 = (int)(idx % 3); idx /= 3; int itx = (int)(idx % 8); idx /= 8; int ity = (int)(idx % 3);
        static const int q11[3] = { 0, 2, 5 }, qty[3] = { 0, 3, 6 };
        t.matrix[0][0] = A00[i00]; t.matrix[1][1] = A00[q11[i11]]; t.matrix[0][1] = A01[i01]; t.matrix[1][0] = A01[i10];
        t.matrix[0][2] = TT[itx]; t.matrix[1][2] = TT[qty[ity]]; t.matrix[2][2] = FX1;
    } else {
        int pr = (int)(idx % 8); idx /= 8; int i00 = (int)(idx % 4); idx /= 4; int itx = (int)(idx % 8); idx /= 8; int i01 = (int)(idx % 3);
        t.matrix[0][0] = A00[i00]; t.matrix[1][1] = A00[(i00 + 1) % 4]; t.matrix[0][1] = A01[i01]; t.matrix[1][0] = A01[(i01 + 1) % 3];
        t.matrix[0][2] = TT[itx]; t.matrix[1][2] = TT[(itx + 3) % 8];
        t.matrix[2][0] = PROJ[pr][0]; t.matrix[2][1] = PROJ[pr][1]; t.matrix[2][2] = PROJ[pr][2];
    }
    char tdesc[160];
    snprintf(tdesc, sizeof tdesc, "[%d %d %d; %d %d %d; %d %d %d]", t.matrix[0][0], t.matrix[0][1], t.matrix[0][2], t.matrix[1][0], t.matrix[1][1], t.matrix[1][2], t.matrix[2][0], t.matrix[2][1], t.matrix[2][2]);
    static const pixman_repeat_t reps[4] = { PIXMAN_REPEAT_NONE, PIXMAN_REPEAT_NORMAL, PIXMAN_REPEAT_PAD, PIXMAN_REPEAT_REFLECT };
    /* (source format, destination format): at least one of them wide */
    static const pixman_format_code_t SFW[3] = { PIXMAN_a8r8g8b8, PIXMAN_a2r10g10b10, PIXMAN_rgba_float }, DFW[3] = { PIXMAN_rgba_float, PIXMAN_a8r8g8b8, PIXMAN_a8r8g8b8 };
    static const char *SFWN[3] = { "a8r8g8b8", "a2r10g10b10", "rgba_float" }, *DFWN[3] = { "rgba_float", "a8r8g8b8", "a8r8g8b8" };
    static const int wfil[4] = { 0, 1, 3, 5 };          /* nearest, bilinear, conv2x2, conv3x1 */
    uint64_t ev = 0, nt = 0, hh = 0;
    for (int si = 1; si < 4; si++) for (int fi = 0; fi < 3; fi++) {
        int sw = SZ[si][0], sh = SZ[si][1];
        long double px[16 * 4]; uint32_t sbuf[16 * 4]; memset(sbuf, 0, sizeof sbuf);
        int sbpp = PIXMAN_FORMAT_BPP(SFW[fi]); int stride = fi == 2 ? sw * 16 : sw * 4;
        for (int i = 0; i < sw * sh; i++) {
            unsigned k = (unsigned)i + 1;
            if (fi == 0) { unsigned a = (0x40 + 11 * k) & 0xff, r = (0x10 + 13 * k) & 0xff, g = (0xf0 - 9 * k) & 0xff, b = (0x08 + 15 * k) & 0xff;
                           sbuf[i] = a << 24 | r << 16 | g << 8 | b; px[i * 4] = a / 255.0L; px[i * 4 + 1] = r / 255.0L; px[i * 4 + 2] = g / 255.0L; px[i * 4 + 3] = b / 255.0L; }
            else if (fi == 1) { unsigned a = k & 3, r = (0x040 + 111 * k) & 0x3ff, g = (0x3f0 - 93 * k) & 0x3ff, b = (0x008 + 157 * k) & 0x3ff;
                           sbuf[i] = a << 30 | r << 20 | g << 10 | b; px[i * 4] = a / 3.0L; px[i * 4 + 1] = r / 1023.0L; px[i * 4 + 2] = g / 1023.0L; px[i * 4 + 3] = b / 1023.0L; }
            else { float *f = (float *)sbuf + i * 4; f[0] = (float)((k * 37) % 101) / 100.0f; f[1] = (float)((k * 53) % 97) / 96.0f; f[2] = (float)((k * 11) % 89) / 88.0f; f[3] = (float)((k * 29) % 83) / 82.0f;
                   px[i * 4] = f[3]; px[i * 4 + 1] = f[0]; px[i * 4 + 2] = f[1]; px[i * 4 + 3] = f[2]; }
        }
        (void)sbpp;
        pixman_image_t *src = pixman_image_create_bits(SFW[fi], sw, sh, sbuf, stride);
        pixman_image_set_transform(src, &t);
        for (int fk = 0; fk < 4; fk++) {
            const filt_t *F = &FIL[wfil[fk]];
            if (c->projective && fk >= 2) continue;
            if (F->kind == 0) pixman_image_set_filter(src, PIXMAN_FILTER_NEAREST, NULL, 0);
            else if (F->kind == 1) pixman_image_set_filter(src, PIXMAN_FILTER_BILINEAR, NULL, 0);
            else pixman_image_set_filter(src, PIXMAN_FILTER_CONVOLUTION, F->p, F->n);
            for (int ri = 0; ri < 4; ri++) {
                pixman_image_set_repeat(src, reps[ri]);
                wsrc_t ws = { sw, sh, reps[ri], px };
                float dfl[DH][DW][4]; uint32_t d32[DH][DW];
                memset(dfl, 0, sizeof dfl); memset(d32, 0xa5, sizeof d32);
                pixman_image_t *dst = fi == 0 ? pixman_image_create_bits(PIXMAN_rgba_float, DW, DH, (uint32_t *)&dfl[0][0][0], DW * 16) : pixman_image_create_bits(PIXMAN_a8r8g8b8, DW, DH, &d32[0][0], DW * 4);
                ph_set_cfg(PH_CFG_DEFAULT);
                pixman_image_composite32(PIXMAN_OP_SRC, src, NULL, dst, 0, 0, 0, 0, 0, 0, DW, DH);
                pixman_image_unref(dst);
                vf_count_libcalls(1); ev++;
                for (int y = 0; y < DH; y++) for (int x = 0; x < DW; x++) {
                    int64_t cx = (int64_t)(2 * x + 1) * (FX1 / 2), cy = (int64_t)(2 * y + 1) * (FX1 / 2);
                    int64_t vx = ((int64_t)t.matrix[0][0] * cx + (int64_t)t.matrix[0][1] * cy + (int64_t)t.matrix[0][2] * FX1 + 0x8000) >> 16;
                    int64_t vy = ((int64_t)t.matrix[1][0] * cx + (int64_t)t.matrix[1][1] * cy + (int64_t)t.matrix[1][2] * FX1 + 0x8000) >> 16;
                    int64_t vw = ((int64_t)t.matrix[2][0] * cx + (int64_t)t.matrix[2][1] * cy + (int64_t)t.matrix[2][2] * FX1 + 0x8000) >> 16;
                    int64_t candx[3], candy[3]; int nc = 1;
                    if (!c->projective) { candx[0] = vx; candy[0] = vy; }
                    else if (vw == 0) { candx[0] = 0; candy[0] = 0; }
                    else {
                        __int128 qx = ((__int128)vx << 16), qy = ((__int128)vy << 16);
                        int64_t fx = (int64_t)(qx / vw), fy = (int64_t)(qy / vw);
                        if ((qx % vw != 0) && ((qx < 0) != (vw < 0))) fx--;
                        if ((qy % vw != 0) && ((qy < 0) != (vw < 0))) fy--;
                        candx[0] = fx; candx[1] = fx + 1; candx[2] = fx - 1; candy[0] = fy; candy[1] = fy + 1; candy[2] = fy - 1; nc = 3;
                    }
                    long double got[4];
                    if (fi == 0) { got[0] = dfl[y][x][3]; got[1] = dfl[y][x][0]; got[2] = dfl[y][x][1]; got[3] = dfl[y][x][2]; }
                    else { got[0] = (d32[y][x] >> 24) / 255.0L; got[1] = ((d32[y][x] >> 16) & 255) / 255.0L; got[2] = ((d32[y][x] >> 8) & 255) / 255.0L; got[3] = (d32[y][x] & 255) / 255.0L; }
                    long double step = fi == 0 ? 2e-4L : 1.0L / 255 + 1e-6L;
                    int ok = 0, judged = 0; long double want0[4] = { 0, 0, 0, 0 };
                    for (int a = 0; a < nc && !ok; a++) for (int b = 0; b < nc && !ok; b++) {
                        if (candx[a] != (int32_t)candx[a] || candy[b] != (int32_t)candy[b]) continue;
                        long double want[4], slack; w_sample(&ws, F, candx[a], candy[b], want, &slack);
                        if (!judged) memcpy(want0, want, sizeof want0);
                        judged = 1;
                        int all = 1; for (int ch = 0; ch < 4; ch++) { long double df = got[ch] - want[ch]; if (df < 0) df = -df; if (!(df <= step + slack)) all = 0; }
                        if (all) ok = 1;
                    }
                    if (!judged) continue;
                    if (!ok) {
                        vf_violation(c->projective ? "c08-wide-projective-sample-mismatch" : "c08-wide-sample-mismatch",
                                     "wide pipeline: source %s %dx%d repeat=%d filter=%s transform %s -> %s: destination (%d,%d) = a %.5Lf r %.5Lf g %.5Lf b %.5Lf, reference a %.5Lf r %.5Lf g %.5Lf b %.5Lf (one destination step%s allowed)",
                                     SFWN[fi], sw, sh, ri, F->name, tdesc, DFWN[fi], x, y, got[0], got[1], got[2], got[3], want0[0], want0[1], want0[2], want0[3], F->kind == 1 ? " + the 7-bit weight slack" : "");
                        pixman_image_unref(src); return;
                    }
                    uint32_t hb = (uint32_t)(got[1] * 1023); hh = vf_mix(hh, hb); if (hb) nt++;
                }
            }
        }
        pixman_image_unref(src);
    }
    vf_count_eval(ev); vf_count_nontrivial(nt ? ev : 0);
    if (!vf_in_confirm) vf_outcome(hh);
    if (vf_want_sample() && !vf_in_confirm && (idx0 % 197) == 13) vf_sample("wide pipeline, transform %s: 3 source sizes x 3 format pairs x 4 filters x 4 repeats, every destination pixel within one step of the real-valued reference", tdesc);
}

/* ---------- quarter turns, half turns and flips whose samples all lie inside the source ("cover") ----------
 * These requests are served by dedicated blitters that compute the source origin once from the translation; the sampling rule
 * floor(p - e) decides which row / column they start at, and translations whose fraction is exactly 1/2 sit on that rule's edge. */
static const int32_t ROTM[7][4] = { { 0, FX1, -FX1, 0 }, { 0, -FX1, FX1, 0 }, { -FX1, 0, 0, -FX1 }, { -FX1, 0, 0, FX1 }, { FX1, 0, 0, -FX1 }, { 0, FX1, FX1, 0 }, { FX1, 0, 0, FX1 } };
static const char *ROTN[7] = { "rot270", "rot90", "rot180", "flip-x", "flip-y", "transpose", "identity" };
static const int32_t RFR[7] = { 0, EPS, FX1 / 2 - EPS, FX1 / 2, FX1 / 2 + EPS, FX1 - EPS, FX1 / 4 };
#define RSW 11
#define RSH 9
static void rot_case(uint64_t idx, void *vctx)
{
    (void)vctx;
    int dims[6] = { 7, 7, 7, 4, 2, 2 }, d[6];
    vf_decode(idx, dims, 6, d);
    int ri = d[0], fi = d[3], fl = d[4], big = d[5];
    int dw = big ? 5 : 3, dh = big ? 4 : 2;
    /* place the request so that all samples fall inside: choose the integer part of the translation from the matrix signs */
    pixman_transform_t t; memset(&t, 0, sizeof t); t.matrix[2][2] = FX1;
    t.matrix[0][0] = ROTM[ri][0]; t.matrix[0][1] = ROTM[ri][1]; t.matrix[1][0] = ROTM[ri][2]; t.matrix[1][1] = ROTM[ri][3];
    int negx = (ROTM[ri][0] < 0 || ROTM[ri][1] < 0), negy = (ROTM[ri][2] < 0 || ROTM[ri][3] < 0);
    t.matrix[0][2] = (negx ? 8 : 2) * FX1 + RFR[d[1]]; t.matrix[1][2] = (negy ? 7 : 1) * FX1 + RFR[d[2]];
    char tdesc[160]; snprintf(tdesc, sizeof tdesc, "%s [%d %d %d; %d %d %d; 0 0 65536]", ROTN[ri], t.matrix[0][0], t.matrix[0][1], t.matrix[0][2], t.matrix[1][0], t.matrix[1][1], t.matrix[1][2]);
    uint32_t raw[RSW * RSH]; for (int y = 0; y < RSH; y++) for (int x = 0; x < RSW; x++) raw[y * RSW + x] = src_raw(&FM[fi], RSW, x, y);
    int stride = ph_stride_for(FM[fi].bpp, RSW) + 4;
    uint8_t *sbuf = calloc((size_t)stride, RSH);
    for (int y = 0; y < RSH; y++) for (int x = 0; x < RSW; x++) ph_put_pixel(sbuf + (size_t)y * stride, FM[fi].bpp, x, raw[y * RSW + x]);
    pixman_image_t *src = pixman_image_create_bits(FM[fi].code, RSW, RSH, (uint32_t *)sbuf, stride);
    pixman_image_set_transform(src, &t);
    pixman_image_set_filter(src, fl ? PIXMAN_FILTER_BILINEAR : PIXMAN_FILTER_NEAREST, NULL, 0);
    rsrc_t rs = { RSW, RSH, FM[fi], raw, PIXMAN_REPEAT_NONE };
    uint64_t ev = 0, hh = 0; char cfgn[64];
    for (int di = 0; di < 2; di++) for (int ci = 0; ci < 3; ci++) {
        /* destination of the SAME format as the source (the dedicated blitters need that) or a8r8g8b8 */
        const ph_fmt_t *DF = di ? &FM[fi] : &FM[0];
        int dstride = ph_stride_for(DF->bpp, 8) + 4; uint8_t dbuf[8 * 40]; memset(dbuf, 0xa5, sizeof dbuf);
        pixman_image_t *dst = pixman_image_create_bits(DF->code, 8, 6, (uint32_t *)dbuf, dstride);
        ph_set_cfg(CF[ci]);
        pixman_image_composite32(PIXMAN_OP_SRC, src, NULL, dst, 0, 0, 0, 0, 1, 1, dw, dh);
        pixman_image_unref(dst); vf_count_libcalls(1); ev++;
        for (int y = 0; y < dh; y++) for (int x = 0; x < dw; x++) {
            int64_t cx = (int64_t)(2 * x + 1) * (FX1 / 2), cy = (int64_t)(2 * y + 1) * (FX1 / 2);
            int64_t vx = ((int64_t)t.matrix[0][0] * cx + (int64_t)t.matrix[0][1] * cy + (int64_t)t.matrix[0][2] * FX1 + 0x8000) >> 16;
            int64_t vy = ((int64_t)t.matrix[1][0] * cx + (int64_t)t.matrix[1][1] * cy + (int64_t)t.matrix[1][2] * FX1 + 0x8000) >> 16;
            uint32_t e = fl ? ref_bilinear(&rs, vx, vy) : ref_nearest(&rs, vx, vy);
            uint32_t want = ph_from_8888(DF, e) & ph_defined_mask(DF), got = ph_get_pixel(dbuf + (size_t)(y + 1) * dstride, DF->bpp, x + 1) & ph_defined_mask(DF);
            if (want != got) {
                vf_violation("c08-cover-rotation-sample-mismatch", "source %s %dx%d (all samples inside) filter=%s transform %s -> %s %dx%d request PIXMAN_DISABLE=[%s]: destination (%d,%d) = %x, reference %x (source position %.5f,%.5f)",
                             FMN[fi], RSW, RSH, fl ? "bilinear" : "nearest", tdesc, di ? FMN[fi] : "a8r8g8b8", dw, dh, ph_cfg_name(CF[ci], cfgn, sizeof cfgn), x, y, got, want, vx / 65536.0, vy / 65536.0);
                pixman_image_unref(src); free(sbuf); return;
            }
            if (ci == 0) hh = vf_mix(hh, got);
        }
    }
    pixman_image_unref(src); free(sbuf);
    vf_count_eval(ev); vf_count_nontrivial(ev);
    if (!vf_in_confirm) vf_outcome(hh);
}

/* ---------- covering rotations with long spans: the dedicated rotation blitters work in cache-line tiles (64 bytes of destination row): an unaligned
 * leading part, whole tiles, a trailing part.  Every combination of (row alignment, span length) around those boundaries, per pixel size. ---------- */
#define WS 150
static const int RW_XOFF[6] = { 0, 1, 5, 15, 17, 33 };
static const int RW_W[14] = { 1, 15, 16, 17, 18, 31, 33, 47, 49, 64, 65, 66, 97, 131 };
static void rot_wide_case(uint64_t idx, void *vctx)
{
    (void)vctx;
    int dims[5] = { 7, 4, 6, 14, 2 }, d[5];
    vf_decode(idx, dims, 5, d);
    int ri = d[0], fi = d[1], xoff = RW_XOFF[d[2]], dw = RW_W[d[3]], dh = 3;
    pixman_transform_t t; memset(&t, 0, sizeof t); t.matrix[2][2] = FX1;
    t.matrix[0][0] = ROTM[ri][0]; t.matrix[0][1] = ROTM[ri][1]; t.matrix[1][0] = ROTM[ri][2]; t.matrix[1][1] = ROTM[ri][3];
    int32_t fr = d[4] ? FX1 / 4 : 0;
    t.matrix[0][2] = (ROTM[ri][0] < 0 ? dw + 2 : ROTM[ri][1] < 0 ? dh + 2 : 2) * FX1 + fr;
    t.matrix[1][2] = (ROTM[ri][2] < 0 ? dw + 3 : ROTM[ri][3] < 0 ? dh + 3 : 3) * FX1 + fr;
    char tdesc[160]; snprintf(tdesc, sizeof tdesc, "%s [%d %d %d; %d %d %d; 0 0 65536]", ROTN[ri], t.matrix[0][0], t.matrix[0][1], t.matrix[0][2], t.matrix[1][0], t.matrix[1][1], t.matrix[1][2]);
    static uint32_t raw[WS * WS];
    for (int y = 0; y < WS; y++) for (int x = 0; x < WS; x++) raw[y * WS + x] = src_raw(&FM[fi], WS, x, y);
    int stride = ph_stride_for(FM[fi].bpp, WS) + 4;
    uint8_t *sbuf = calloc((size_t)stride, WS);
    for (int y = 0; y < WS; y++) for (int x = 0; x < WS; x++) ph_put_pixel(sbuf + (size_t)y * stride, FM[fi].bpp, x, raw[y * WS + x]);
    pixman_image_t *src = pixman_image_create_bits(FM[fi].code, WS, WS, (uint32_t *)sbuf, stride);
    pixman_image_set_transform(src, &t);
    pixman_image_set_filter(src, PIXMAN_FILTER_NEAREST, NULL, 0);
    rsrc_t rs = { WS, WS, FM[fi], raw, PIXMAN_REPEAT_NONE };
    uint64_t ev = 0, hh = 0; char cfgn[64];
    for (int di = 0; di < 2; di++) for (int ci = 0; ci < 3; ci++) {
        const ph_fmt_t *DF = di ? &FM[fi] : &FM[0];
        int dstride = 832, DHT = dh + 2; uint8_t *dbuf = NULL;
        if (posix_memalign((void **)&dbuf, 64, (size_t)dstride * DHT)) { vf_harderr("posix_memalign"); exit(2); }
        memset(dbuf, 0xa5, (size_t)dstride * DHT);
        pixman_image_t *dst = pixman_image_create_bits(DF->code, 200, DHT, (uint32_t *)dbuf, dstride);
        ph_set_cfg(CF[ci]);
        pixman_image_composite32(PIXMAN_OP_SRC, src, NULL, dst, 0, 0, 0, 0, xoff, 1, dw, dh);
        pixman_image_unref(dst); vf_count_libcalls(1); ev++;
        for (int y = -1; y <= dh && !vf_failed(); y++) for (int x = -1; x <= dw; x++) {
            if (xoff + x < 0) continue;
            uint32_t got = ph_get_pixel(dbuf + (size_t)(y + 1) * dstride, DF->bpp, xoff + x), want;
            if (x < 0 || y < 0 || x >= dw || y >= dh) {
                uint32_t bgw = 0xa5a5a5a5u; want = ph_get_pixel((const uint8_t *)&bgw, DF->bpp, 0);
                if (DF->bpp < 32) want = 0xa5a5a5a5u & ((1u << DF->bpp) - 1);
            } else {
                int64_t cx = (int64_t)(2 * x + 1) * (FX1 / 2), cy = (int64_t)(2 * y + 1) * (FX1 / 2);
                int64_t vx = ((int64_t)t.matrix[0][0] * cx + (int64_t)t.matrix[0][1] * cy + (int64_t)t.matrix[0][2] * FX1 + 0x8000) >> 16;
                int64_t vy = ((int64_t)t.matrix[1][0] * cx + (int64_t)t.matrix[1][1] * cy + (int64_t)t.matrix[1][2] * FX1 + 0x8000) >> 16;
                want = ph_from_8888(DF, ref_nearest(&rs, vx, vy)) & ph_defined_mask(DF); got &= ph_defined_mask(DF);
            }
            if (want != got) {
                vf_violation("c08-cover-rotation-long-span-mismatch", "source %s %dx%d (all samples inside) nearest, transform %s -> %s destination (64-byte aligned rows), request at x=%d %dx%d PIXMAN_DISABLE=[%s]: "
                             "pixel (%d,%d) of the request = %x, reference %x", FMN[fi], WS, WS, tdesc, di ? FMN[fi] : "a8r8g8b8", xoff, dw, dh, ph_cfg_name(CF[ci], cfgn, sizeof cfgn), x, y, got, want);
                break;
            }
            if (ci == 0) hh = vf_mix(hh, got);
        }
        free(dbuf);
        if (vf_failed()) break;
    }
    pixman_image_unref(src); free(sbuf);
    vf_count_eval(ev); vf_count_nontrivial(ev);
    if (!vf_in_confirm) vf_outcome(hh);
}

int main(int argc, char **argv)
{
    vf_init(argc, argv, "C08", "exploration");
    ph_init_cfgs();
    int th = vf_is_thorough();
    FM[0] = PH_FMT(PIXMAN_a8r8g8b8); FM[1] = PH_FMT(PIXMAN_x8r8g8b8); FM[2] = PH_FMT(PIXMAN_r5g6b5); FM[3] = PH_FMT(PIXMAN_a8);
    init_filters(th);
    int32_t tt[8] = { 0, EPS, -EPS, FX1 / 2 - EPS, FX1 / 2, -FX1 / 2, FX1, 3 * FX1 - EPS };
    memcpy(TT, tt, sizeof tt);
    vf_rule = "E1: a case is one 3x3 fixed-point transform; inside it every (source size, format, filter, repeat, request origin, configuration) is drawn with OP_SRC into a 6x5 a8r8g8b8 "
              "destination and every pixel compared bit-exactly with an integer model of rounding.txt (projective: any of the 9 positions within one ulp of the quotient). "
              "evaluations = composites; non-trivial = composites of cases that produced a non-zero pixel; outcomes = distinct destination digests per transform.";
    vf_assume("bit-exact comparison for narrow formats (a8r8g8b8, x8r8g8b8, r5g6b5, a8); the wide (float) pipeline - a2r10g10b10 and rgba_float sources, rgba_float destination - is compared with a real-valued reference within one destination step");
    vf_assume("sample positions representable in 16.16; source sizes up to 4x4 so that every repeat fold is exercised");
    c8_ctx ca = { th, 0 }, cp = { th, 1 };
    uint64_t naff = th ? (uint64_t)7 * 7 * 5 * 5 * 8 * 8 : (uint64_t)7 * 3 * 3 * 3 * 8 * 3;
    vf_space_run("affine-transforms", naff, c8_case, &ca);
    vf_space_run("projective-transforms", 8 * 4 * 8 * 3, c8_case, &cp);
    vf_space_run("wide-pipeline-affine", (uint64_t)7 * 3 * 3 * 3 * 8 * 3, wide_case, &ca);
    vf_space_run("wide-pipeline-projective", 8 * 4 * 8 * 3, wide_case, &cp);
    vf_space_run("covering-rotations-and-flips", 7 * 7 * 7 * 4 * 2 * 2, rot_case, NULL);
    vf_space_run("covering-rotations-long-spans", 7 * 4 * 6 * 14 * 2, rot_wide_case, NULL);
    big_ctx cb = { th };
    vf_space_run("wide-and-tall-sources", 3 * 7 * 6 * 4 * 2, big_case, &cb);
    static char b[1500];
    snprintf(b, sizeof b, "%llu affine transforms (m00 x m11 x m01 x m10 x tx x ty alphabets incl. +-1/2, +-1, 1+e, 2, 1/3 and translations 0, +-e, 1/2-e, 1/2, -1/2, 1, 3-e) + 768 projective; "
             "%d filters (nearest, bilinear, 7 convolution kernels incl. negative lobes, %d separable tables); 4 repeats; sources 1x1 2x2 3x2 4x4 x 4 formats (every other image first drawn from with an integer-translation twin of the transform); 3 configurations; covering quarter/half turns and flips: 7 matrices x 7x7 translation fractions (0, e, 1/2-e, 1/2, 1/2+e, 1-e, 1/4) x 4 formats x nearest/bilinear x 2 request sizes x same-format and a8r8g8b8 destinations x 3 configurations; the same 7 matrices with spans of 1..131 pixels (14 lengths around 16/32/64-pixel tiles) at 6 row alignments of a 64-byte aligned destination x 4 formats x 2 translation fractions x 2 destinations x 3 configurations; wide pipeline: 4536 affine + 768 projective transforms x 3 sizes x 3 format pairs (a8r8g8b8->rgba_float, a2r10g10b10->a8r8g8b8, rgba_float->a8r8g8b8) x {nearest, bilinear, conv2x2, conv3x1} x 4 repeats; wide/tall sources: sizes 32766, 32765, 32700, 20000 (x2 and 2x; the library drops transformed requests on sources of 32767 or more) x 6 scales x 7 first-sample positions "
             "(left of the image, at its start, middle, end, end of the coordinate range) x 3 sub-pixel offsets x nearest/bilinear x 4 repeats x 4 formats x {SRC, OVER} x {a8r8g8b8, r5g6b5} destinations x 3 configurations",
             (unsigned long long)naff, NFIL, NFIL - 9);
    vf_bounds = b;
    return vf_finish();
}
