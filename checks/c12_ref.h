/* c12_ref.h — reference model for C12: the ideal geometric sample-counting rule.
 *
 * Independent of the library: no stepping, no Bresenham state, none of the library's grid
 * macros.  The grid is re-derived here from the depth alone:
 *
 *   depth n > 1:  NY = 2^(n/2) - 1 sample rows and NX = 2^(n/2) + 1 sample columns per pixel,
 *                 so NY*NX = 2^n - 1 = full coverage (a4: 3x5 = 15, a8: 15x17 = 255);
 *                 rows    y_k = ybig/2 + k*ystep,        ystep = floor(65536/NY), ybig = 65536 - (NY-1)*ystep
 *                 columns x_i = (i+1)*xstep - xbig/2,    xstep = floor(65536/NX), xbig = 65536 - (NX-1)*xstep
 *                 (a8: rows 2185 + 4369k, columns 1927 + 3855i;  a4: rows 10923 + 21845k, columns 6553 + 13107i)
 *   depth 1:      the pixel centre (32768, 32768).
 *
 * A sample (s, y) is inside a trapezoid iff  top <= y < bottom  and  L(y) <= s < R(y), L and R
 * being the exact rational x of the left/right edge lines at y.  With integer s this reads
 * ceil(L) <= s < ceil(R); ceil(L) is computed exactly in integers (int64 where the product fits, else __int128).
 *
 * Besides the ideal count the model returns, per pixel, the interval [lo, hi] of counts that can be
 * obtained when each edge position is moved by at most one ulp (1/65536) at each sample row:
 *   lo counts samples with L+1 <= s < R-1,  hi counts samples with L-1 <= s < R+1
 * (and for depth 1 the same with two ulps, lo2/hi2).  These intervals are not part of the oracle: they only
 * classify a difference from the ideal count as the recorded edge-position finding or as a plain miscount.
 * Counts are accumulated unsaturated into int arrays; the caller saturates.
 */
#ifndef C12_REF_H
#define C12_REF_H
#include <stdint.h>
#include <pixman.h>

typedef struct { int bpp, ny, nx, ystep, y0, xstep, x0, maxv; } c12_grid;

static c12_grid c12_mkgrid(int bpp)
{
    c12_grid g; g.bpp = bpp; g.maxv = (1 << bpp) - 1;
    if (bpp == 1) { g.ny = g.nx = 1; g.ystep = g.xstep = 65536; g.y0 = g.x0 = 32768; return g; }
    g.ny = (1 << (bpp / 2)) - 1; g.nx = (1 << (bpp / 2)) + 1;
    g.ystep = 65536 / g.ny; g.y0 = (65536 - (g.ny - 1) * g.ystep) / 2;
    g.xstep = 65536 / g.nx; g.x0 = g.xstep - (65536 - (g.nx - 1) * g.xstep) / 2;
    return g;
}

typedef struct { int64_t x1, y1, x2, y2; } c12_line;   /* y1 != y2 */

static inline c12_line c12_mkline(const pixman_line_fixed_t *l, int xoff, int yoff)
{
    c12_line r = { (int64_t)l->p1.x + (int64_t)xoff * 65536, (int64_t)l->p1.y + (int64_t)yoff * 65536,
                   (int64_t)l->p2.x + (int64_t)xoff * 65536, (int64_t)l->p2.y + (int64_t)yoff * 65536 };
    return r;
}

/* ceil of the exact x of the line at height y */
static inline int64_t c12_ceil_x(const c12_line *l, int64_t y)
{
    int64_t x1 = l->x1, y1 = l->y1, x2 = l->x2, y2 = l->y2;
    if (y1 > y2) { int64_t t = x1; x1 = x2; x2 = t; t = y1; y1 = y2; y2 = t; }
    int64_t dy = y2 - y1, dx = x2 - x1, n = y - y1;
    /* X = x1 + n*dx/dy exactly; ceil(X) = x1 + ceil(n*dx/dy) */
    if (dy < ((int64_t)1 << 30) && dx > -((int64_t)1 << 31) && dx < ((int64_t)1 << 31) && n > -((int64_t)1 << 31) && n < ((int64_t)1 << 31)) {
        int64_t num = n * dx, q = num / dy, r = num % dy;       /* |num| < 2^62 */
        if (r > 0) q++;
        return x1 + q;
    } else {
        __int128 num = (__int128)n * dx, q = num / dy, r = num % dy;
        if (r > 0) q++;
        return x1 + (int64_t)q;
    }
}

/* number of sample columns of pixel px that are < v */
static inline int c12_nlt(const c12_grid *g, int64_t v, int px)
{
    int64_t f64 = v - (int64_t)px * 65536;
    if (f64 <= g->x0) return 0;
    if (f64 > 65536) return g->nx;
    int c = ((int)f64 - g->x0 + g->xstep - 1) / g->xstep;
    return c > g->nx ? g->nx : c;
}
/* number of sample columns s of pixel px with a <= s < b */
static inline int c12_cnt(const c12_grid *g, int64_t a, int64_t b, int px)
{
    if (b <= a) return 0;
    return c12_nlt(g, b, px) - c12_nlt(g, a, px);
}
/* counts per pixel: ideal rule, and the intervals reachable by moving each edge by <= 1 ulp (lo,hi) resp. <= 2 ulp (lo2,hi2)
 * at each sample row.  lo2/hi2 are only filled for depth 1 (see c12_traps.c: the 1-bit rasteriser compounds two one-ulp effects). */
#define C12_MAXPIX 96
/* rep: see "model of the recorded edge-position finding" at the end of this file; have_rep: rep is filled for this request */
typedef struct { int ideal[C12_MAXPIX], lo[C12_MAXPIX], hi[C12_MAXPIX], lo2[C12_MAXPIX], hi2[C12_MAXPIX], rep[C12_MAXPIX]; int have_rep; } c12_counts;

/* add the samples s of one row with a <= s < b to cnt[0..W) */
static inline void c12_add_span(const c12_grid *g, int W, int64_t a, int64_t b, int *cnt)
{
    if (b <= a) return;
    int64_t p0 = a >> 16, p1 = (b - 1) >> 16;
    if (p0 < 0) p0 = 0;
    if (p1 > W - 1) p1 = W - 1;
    for (int64_t p = p0; p <= p1; p++) {
        if (a <= p * 65536 && (p + 1) * 65536 <= b) cnt[p] += g->nx;
        else cnt[p] += c12_nlt(g, b, (int)p) - c12_nlt(g, a, (int)p);
    }
}
/* add one sample row (pixel row py) with ceil(L) = cl, ceil(R) = cr */
static inline void c12_add_row(const c12_grid *g, int W, int py, int64_t cl, int64_t cr, c12_counts *c)
{
    c12_add_span(g, W, cl, cr, c->ideal + py * W);
    c12_add_span(g, W, cl + 1, cr - 1, c->lo + py * W);
    c12_add_span(g, W, cl - 1, cr + 1, c->hi + py * W);
    if (g->bpp == 1) {
        c12_add_span(g, W, cl + 2, cr - 2, c->lo2 + py * W);
        c12_add_span(g, W, cl - 2, cr + 2, c->hi2 + py * W);
    }
}

static inline int c12_trap_valid(const pixman_trapezoid_t *t)
{
    return t->left.p1.y != t->left.p2.y && t->right.p1.y != t->right.p2.y && t->bottom > t->top;
}

/* add the coverage of one trapezoid, drawn with integer offsets, to the counts (W*H <= C12_MAXPIX) */
static void c12_ref_trap(const c12_grid *g, int W, int H, const pixman_trapezoid_t *t, int xoff, int yoff, c12_counts *c)
{
    if (!c12_trap_valid(t)) return;
    int64_t top = (int64_t)t->top + (int64_t)yoff * 65536, bot = (int64_t)t->bottom + (int64_t)yoff * 65536;
    c12_line L = c12_mkline(&t->left, xoff, yoff), R = c12_mkline(&t->right, xoff, yoff);
    for (int py = 0; py < H; py++)
        for (int k = 0; k < g->ny; k++) {
            int64_t y = (int64_t)py * 65536 + g->y0 + (int64_t)k * g->ystep;
            if (y < top || y >= bot) continue;
            int64_t cl = c12_ceil_x(&L, y), cr = c12_ceil_x(&R, y);
            c12_add_row(g, W, py, cl, cr, c);
        }
}

/* Triangle as a point set: sample (s,y) is inside iff ymin <= y < ymax and Lt(y) <= s < Rt(y), [Lt,Rt] being the
 * cross-section of the triangle at y (min / max of the x of the non-horizontal sides that span y). */
static void c12_ref_tri(const c12_grid *g, int W, int H, const pixman_triangle_t *tri, int xoff, int yoff, c12_counts *c)
{
    const pixman_point_fixed_t *p[3] = { &tri->p1, &tri->p2, &tri->p3 };
    int64_t ymin = p[0]->y, ymax = p[0]->y;
    for (int i = 1; i < 3; i++) { if (p[i]->y < ymin) ymin = p[i]->y; if (p[i]->y > ymax) ymax = p[i]->y; }
    if (ymin == ymax) return;
    ymin += (int64_t)yoff * 65536; ymax += (int64_t)yoff * 65536;
    c12_line side[3]; int ns = 0;
    for (int i = 0; i < 3; i++) {
        const pixman_point_fixed_t *a = p[i], *b = p[(i + 1) % 3];
        if (a->y == b->y) continue;
        pixman_line_fixed_t l = { *a, *b };
        side[ns++] = c12_mkline(&l, xoff, yoff);
    }
    for (int py = 0; py < H; py++)
        for (int k = 0; k < g->ny; k++) {
            int64_t y = (int64_t)py * 65536 + g->y0 + (int64_t)k * g->ystep;
            if (y < ymin || y >= ymax) continue;
            int have = 0; int64_t cl = 0, cr = 0;
            for (int i = 0; i < ns; i++) {
                int64_t a = side[i].y1 < side[i].y2 ? side[i].y1 : side[i].y2, b = side[i].y1 < side[i].y2 ? side[i].y2 : side[i].y1;
                if (y < a || y > b) continue;
                int64_t c = c12_ceil_x(&side[i], y);
                if (!have) { cl = cr = c; have = 1; } else { if (c < cl) cl = c; if (c > cr) cr = c; }
            }
            if (!have) continue;
            c12_add_row(g, W, py, cl, cr, c);
        }
}

/* ---------------------------------------------------------------- model of the recorded edge-position finding
 * NOT part of the oracle.  The recorded finding c12-edge-one-ulp says: the library's edge positions differ from the exact ones by less
 * than one ulp because (a) pixman_edge_step does not store the error term of a jump that produces no carry, (b) an exact hit of an edge
 * with dx < 0 is represented at x = X, and (c) the 1-bit rule adds X_FRAC_FIRST(1) - e.  A result that differs from the ideal count is
 * attributed to that finding only if it is, pixel for pixel, what exactly those three facts produce - which this function computes by
 * walking the two edges the way the library documents (initial jump with the omission, then one carry per row when the error term
 * becomes positive) and counting, per row, the sample columns at or left of the edge position.  Anything else inside the one-ulp window is
 * a different departure from the statement and is reported as a violation. */
typedef struct { int64_t x, e, stepx, signdx, dy, dx, sx_small, dx_small, sx_big, dx_big; } c12_edge;
static inline void c12_edge_jump(c12_edge *m, int64_t n)
{
    m->x += n * m->stepx;
    int64_t ne = m->e + n * m->dx;
    if (n >= 0) { if (ne > 0) { int64_t nx = (ne + m->dy - 1) / m->dy; m->e = ne - nx * m->dy; m->x += nx * m->signdx; } }       /* (a): no 'else m->e = ne' */
    else if (ne <= -m->dy) { int64_t nx = (-ne) / m->dy; m->e = ne + nx * m->dy; m->x -= nx * m->signdx; }
}
static inline void c12_edge_multi(const c12_edge *m, int64_t n, int64_t *sx, int64_t *dxp)
{
    int64_t ne = n * m->dx, st = n * m->stepx;
    if (ne > 0) { int64_t nx = ne / m->dy; ne -= nx * m->dy; st += nx * m->signdx; }
    *sx = st; *dxp = ne;
}
static inline void c12_edge_init(c12_edge *m, const c12_grid *g, const pixman_line_fixed_t *l, int xoff, int yoff, int64_t ystart)
{
    const pixman_point_fixed_t *t = l->p1.y <= l->p2.y ? &l->p1 : &l->p2, *b = l->p1.y <= l->p2.y ? &l->p2 : &l->p1;
    int64_t xt = (int64_t)t->x + (int64_t)xoff * 65536, yt = (int64_t)t->y + (int64_t)yoff * 65536, dx = (int64_t)b->x - t->x, dy = (int64_t)b->y - t->y;
    m->x = xt; m->e = 0; m->dy = dy; m->dx = 0; m->stepx = 0; m->signdx = 0;
    if (dx >= 0) { m->signdx = 1; m->stepx = dx / dy; m->dx = dx % dy; m->e = -dy; }
    else { m->signdx = -1; m->stepx = -(-dx / dy); m->dx = -dx % dy; m->e = 0; }
    int64_t small = g->bpp == 1 ? 65536 : g->ystep, big = g->bpp == 1 ? 65536 : 65536 - (int64_t)(g->ny - 1) * g->ystep;
    c12_edge_multi(m, small, &m->sx_small, &m->dx_small); c12_edge_multi(m, big, &m->sx_big, &m->dx_big);
    c12_edge_jump(m, ystart - yt);
}
static inline void c12_edge_row(c12_edge *m, int big)
{
    m->x += big ? m->sx_big : m->sx_small; m->e += big ? m->dx_big : m->dx_small;
    if (m->e > 0) { m->e -= m->dy; m->x += m->signdx; }
}
/* smallest grid row >= y / largest grid row < y */
static inline int64_t c12_row_ceil(const c12_grid *g, int64_t y)
{
    int64_t base = (y >> 16) * 65536, f = y - base;
    if (f <= g->y0) return base + g->y0;
    int64_t k = (f - g->y0 + g->ystep - 1) / g->ystep;
    return k < g->ny ? base + g->y0 + k * g->ystep : base + 65536 + g->y0;
}
static inline int64_t c12_row_floor(const c12_grid *g, int64_t y)
{
    int64_t base = (y >> 16) * 65536, f = y - base;
    if (f <= g->y0) return base - 65536 + g->y0 + (int64_t)(g->ny - 1) * g->ystep;
    int64_t k = (f - 1 - g->y0) / g->ystep; if (k > g->ny - 1) k = g->ny - 1;
    return base + g->y0 + k * g->ystep;
}
/* returns 0 when the request leaves the range in which the model is meaningful (32-bit edge coordinates) */
static int c12_rep_trap(const c12_grid *g, int W, int H, const pixman_trapezoid_t *t, int xoff, int yoff, int *rep)
{
    if (!c12_trap_valid(t)) return 1;
    int64_t top = (int64_t)t->top + (int64_t)yoff * 65536, bot = (int64_t)t->bottom + (int64_t)yoff * 65536;
    if (top < 0) top = 0;
    top = c12_row_ceil(g, top);
    if ((bot >> 16) >= H) bot = (int64_t)H * 65536 - 1;
    bot = c12_row_floor(g, bot);
    if (bot < top) return 1;
    c12_edge l, r; c12_edge_init(&l, g, &t->left, xoff, yoff, top); c12_edge_init(&r, g, &t->right, xoff, yoff, top);
    int64_t xbig = 65536 - (int64_t)(g->nx - 1) * g->xstep, first = xbig / 2, ylast = g->y0 + (int64_t)(g->ny - 1) * g->ystep;
    for (int64_t y = top;;) {
        if (l.x > INT32_MAX || l.x < INT32_MIN || r.x > INT32_MAX || r.x < INT32_MIN) return 0;
        int64_t lx = l.x, rx = r.x; int py = (int)(y >> 16);
        if (g->bpp == 1) {
            if (lx < (int64_t)W * 65536) lx += 32768 - 1;
            if (rx < (int64_t)W * 65536) rx += 32768 - 1;
        }
        if (lx < 0) lx = 0;
        if ((rx >> 16) >= W) rx = g->bpp == 1 ? (int64_t)W * 65536 : (int64_t)W * 65536 - 1;
        if (rx > lx) {
            int lxi = (int)(lx >> 16), rxi = (int)(rx >> 16);
            if (g->bpp == 1) { for (int x = lxi; x < rxi; x++) rep[py * W + x] += 1; }
            else {
                int lxs = (int)(((lx & 0xffff) + first) / g->xstep), rxs = (int)(((rx & 0xffff) + first) / g->xstep);
                if (lxi == rxi) rep[py * W + lxi] += rxs - lxs;
                else { rep[py * W + lxi] += g->nx - lxs; for (int x = lxi + 1; x < rxi; x++) rep[py * W + x] += g->nx; rep[py * W + rxi] += rxs; }
            }
        }
        if (y == bot) break;
        int big = g->bpp == 1 || (y & 0xffff) == ylast;
        c12_edge_row(&l, big); c12_edge_row(&r, big);
        y += big ? (g->bpp == 1 ? 65536 : 65536 - (int64_t)(g->ny - 1) * g->ystep) : g->ystep;
        if (y > bot) return 0;          /* cannot happen: bot is a grid row */
    }
    return 1;
}

#endif
