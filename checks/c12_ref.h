/* c12_ref.h — reference model for C12: the ideal geometric sample-counting rule.
 *
 * Independent of the library: no stepping, no Bresenham state, none of the library's grid
 * macros.  The grid is re-derived here from the depth alone:
 *
 *   depth n > 1:  NY = 2^(n/2) - 1 sample rows and NX = 2^(n/2) + 1 sample columns per pixel,
 *                 so NY*NX = 2^n - 1 = full coverage (a4: 3x5 = 15, a8: 15x17 = 255);
 *                 rows    y_k = ybig/2 + k*ystep,        ystep = floor(65536/NY), ybig = 65536 - (NY-1)*ystep
 *                 columns x_i = (i+1)*xstep - xbig/2,    xstep = floor(65536/NX), xbig = 65536 - (NX-1)*xstep
 *                 (a8: rows 2185 + 4369k, columns 1927 + 3855i;  a4: rows 10923 + 21845k, columns 6553 + 13107i)
 *   depth 1:      the pixel centre (32768, 32768).
 *
 * A sample (s, y) is inside a trapezoid iff  top <= y < bottom  and  L(y) <= s < R(y), L and R
 * being the exact rational x of the left/right edge lines at y.  With integer s this reads
 * ceil(L) <= s < ceil(R); ceil(L) is computed exactly in integers (int64 where the product fits, else __int128).
 *
 * Besides the ideal count the model returns, per pixel, the interval [lo, hi] of counts that can be
 * obtained when each edge position is moved by at most one ulp (1/65536) at each sample row:
 *   lo counts samples with L+1 <= s < R-1,  hi counts samples with L-1 <= s < R+1
 * (and for depth 1 the same with two ulps, lo2/hi2).  These intervals are not part of the oracle: they only
 * classify a difference from the ideal count as the recorded edge-position finding or as a plain miscount.
 * Counts are accumulated unsaturated into int arrays; the caller saturates.
 */
#ifndef C12_REF_H
#define C12_REF_H
#include <stdint.h>
#include <pixman.h>

typedef struct { int bpp, ny, nx, ystep, y0, xstep, x0, maxv; } c12_grid;

static c12_grid c12_mkgrid(int bpp)
{
    c12_grid g; g.bpp = bpp; g.maxv = (1 << bpp) - 1;
    if (bpp == 1) { g.ny = g.nx = 1; g.ystep = g.xstep = 65536; g.y0 = g.x0 = 32768; return g; }
    g.ny = (1 << (bpp / 2)) - 1; g.nx = (1 << (bpp / 2)) + 1;
    g.ystep = 65536 / g.ny; g.y0 = (65536 - (g.ny - 1) * g.ystep) / 2;
    g.xstep = 65536 / g.nx; g.x0 = g.xstep - (65536 - (g.nx - 1) * g.xstep) / 2;
    return g;
}

typedef struct { int64_t x1, y1, x2, y2; } c12_line;   /* y1 != y2 */

static inline c12_line c12_mkline(const pixman_line_fixed_t *l, int xoff, int yoff)
{
    c12_line r = { (int64_t)l->p1.x + (int64_t)xoff * 65536, (int64_t)l->p1.y + (int64_t)yoff * 65536,
                   (int64_t)l->p2.x + (int64_t)xoff * 65536, (int64_t)l->p2.y + (int64_t)yoff * 65536 };
    return r;
}

/* ceil of the exact x of the line at height y */
static inline int64_t c12_ceil_x(const c12_line *l, int64_t y)
{
    int64_t x1 = l->x1, y1 = l->y1, x2 = l->x2, y2 = l->y2;
    if (y1 > y2) { int64_t t = x1; x1 = x2; x2 = t; t = y1; y1 = y2; y2 = t; }
    int64_t dy = y2 - y1, dx = x2 - x1, n = y - y1;
    /* X = x1 + n*dx/dy exactly; ceil(X) = x1 + ceil(n*dx/dy) */
    if (dy < ((int64_t)1 << 30) && dx > -((int64_t)1 << 31) && dx < ((int64_t)1 << 31) && n > -((int64_t)1 << 31) && n < ((int64_t)1 << 31)) {
        int64_t num = n * dx, q = num / dy, r = num % dy;       /* |num| < 2^62 */
        if (r > 0) q++;
        return x1 + q;
    } else {
        __int128 num = (__int128)n * dx, q = num / dy, r = num % dy;
        if (r > 0) q++;
        return x1 + (int64_t)q;
    }
}

/* number of sample columns of pixel px that are < v */
static inline int c12_nlt(const c12_grid *g, int64_t v, int px)
{
    int64_t f64 = v - (int64_t)px * 65536;
    if (f64 <= g->x0) return 0;
    if (f64 > 65536) return g->nx;
    int c = ((int)f64 - g->x0 + g->xstep - 1) / g->xstep;
    return c > g->nx ? g->nx : c;
}
/* number of sample columns s of pixel px with a <= s < b */
static inline int c12_cnt(const c12_grid *g, int64_t a, int64_t b, int px)
{
    if (b <= a) return 0;
    return c12_nlt(g, b, px) - c12_nlt(g, a, px);
}
/* counts per pixel: ideal rule, and the intervals reachable by moving each edge by <= 1 ulp (lo,hi) resp. <= 2 ulp (lo2,hi2)
 * at each sample row.  lo2/hi2 are only filled for depth 1 (see c12_traps.c: the 1-bit rasteriser compounds two one-ulp effects). */
#define C12_MAXPIX 96
typedef struct { int ideal[C12_MAXPIX], lo[C12_MAXPIX], hi[C12_MAXPIX], lo2[C12_MAXPIX], hi2[C12_MAXPIX]; } c12_counts;

/* add the samples s of one row with a <= s < b to cnt[0..W) */
static inline void c12_add_span(const c12_grid *g, int W, int64_t a, int64_t b, int *cnt)
{
    if (b <= a) return;
    int64_t p0 = a >> 16, p1 = (b - 1) >> 16;
    if (p0 < 0) p0 = 0;
    if (p1 > W - 1) p1 = W - 1;
    for (int64_t p = p0; p <= p1; p++) {
        if (a <= p * 65536 && (p + 1) * 65536 <= b) cnt[p] += g->nx;
        else cnt[p] += c12_nlt(g, b, (int)p) - c12_nlt(g, a, (int)p);
    }
}
/* add one sample row (pixel row py) with ceil(L) = cl, ceil(R) = cr */
static inline void c12_add_row(const c12_grid *g, int W, int py, int64_t cl, int64_t cr, c12_counts *c)
{
    c12_add_span(g, W, cl, cr, c->ideal + py * W);
    c12_add_span(g, W, cl + 1, cr - 1, c->lo + py * W);
    c12_add_span(g, W, cl - 1, cr + 1, c->hi + py * W);
    if (g->bpp == 1) {
        c12_add_span(g, W, cl + 2, cr - 2, c->lo2 + py * W);
        c12_add_span(g, W, cl - 2, cr + 2, c->hi2 + py * W);
    }
}

static inline int c12_trap_valid(const pixman_trapezoid_t *t)
{
    return t->left.p1.y != t->left.p2.y && t->right.p1.y != t->right.p2.y && t->bottom > t->top;
}

/* add the coverage of one trapezoid, drawn with integer offsets, to the counts (W*H <= C12_MAXPIX) */
static void c12_ref_trap(const c12_grid *g, int W, int H, const pixman_trapezoid_t *t, int xoff, int yoff, c12_counts *c)
{
    if (!c12_trap_valid(t)) return;
    int64_t top = (int64_t)t->top + (int64_t)yoff * 65536, bot = (int64_t)t->bottom + (int64_t)yoff * 65536;
    c12_line L = c12_mkline(&t->left, xoff, yoff), R = c12_mkline(&t->right, xoff, yoff);
    for (int py = 0; py < H; py++)
        for (int k = 0; k < g->ny; k++) {
            int64_t y = (int64_t)py * 65536 + g->y0 + (int64_t)k * g->ystep;
            if (y < top || y >= bot) continue;
            int64_t cl = c12_ceil_x(&L, y), cr = c12_ceil_x(&R, y);
            c12_add_row(g, W, py, cl, cr, c);
        }
}

/* Triangle as a point set: sample (s,y) is inside iff ymin <= y < ymax and Lt(y) <= s < Rt(y), [Lt,Rt] being the
 * cross-section of the triangle at y (min / max of the x of the non-horizontal sides that span y). */
static void c12_ref_tri(const c12_grid *g, int W, int H, const pixman_triangle_t *tri, int xoff, int yoff, c12_counts *c)
{
    const pixman_point_fixed_t *p[3] = { &tri->p1, &tri->p2, &tri->p3 };
    int64_t ymin = p[0]->y, ymax = p[0]->y;
    for (int i = 1; i < 3; i++) { if (p[i]->y < ymin) ymin = p[i]->y; if (p[i]->y > ymax) ymax = p[i]->y; }
    if (ymin == ymax) return;
    ymin += (int64_t)yoff * 65536; ymax += (int64_t)yoff * 65536;
    c12_line side[3]; int ns = 0;
    for (int i = 0; i < 3; i++) {
        const pixman_point_fixed_t *a = p[i], *b = p[(i + 1) % 3];
        if (a->y == b->y) continue;
        pixman_line_fixed_t l = { *a, *b };
        side[ns++] = c12_mkline(&l, xoff, yoff);
    }
    for (int py = 0; py < H; py++)
        for (int k = 0; k < g->ny; k++) {
            int64_t y = (int64_t)py * 65536 + g->y0 + (int64_t)k * g->ystep;
            if (y < ymin || y >= ymax) continue;
            int have = 0; int64_t cl = 0, cr = 0;
            for (int i = 0; i < ns; i++) {
                int64_t a = side[i].y1 < side[i].y2 ? side[i].y1 : side[i].y2, b = side[i].y1 < side[i].y2 ? side[i].y2 : side[i].y1;
                if (y < a || y > b) continue;
                int64_t c = c12_ceil_x(&side[i], y);
                if (!have) { cl = cr = c; have = 1; } else { if (c < cl) cl = c; if (c > cr) cr = c; }
            }
            if (!have) continue;
            c12_add_row(g, W, py, cl, cr, c);
        }
}

#endif
