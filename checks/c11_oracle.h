/* c11_oracle.h — exact rational reference arithmetic for C11 (fixed-point transforms), in __int128.
 *
 * Conventions: a pixman_fixed_t value x stands for x/2^16.  A product of two fixed values is an
 * integer in units of 2^-32 ("raw32").  All reference results are *sets* of admissible integers
 * (an interval [lo,hi] in target units), because the statement allows either neighbour on an exact
 * tie and one unit of slack outside the exact regime.
 */
#ifndef C11_ORACLE_H
#define C11_ORACLE_H
#include <stdint.h>

typedef __int128 i128;

typedef struct { i128 lo, hi; } iv_t;            /* admissible integers; empty iff lo > hi */

enum { V_FALSE = 0, V_TRUE = 1, V_EITHER = 2 };  /* what the return value must be */

#define I32_MIN_ ((i128)INT32_MIN)
#define I32_MAX_ ((i128)INT32_MAX)

static inline iv_t iv_empty(void) { iv_t a = { 1, 0 }; return a; }
static inline int iv_is_empty(iv_t a) { return a.lo > a.hi; }
static inline int iv_has(iv_t a, i128 v) { return v >= a.lo && v <= a.hi; }

/* floor division, den > 0 */
static inline void floordiv(i128 num, i128 den, i128 *q, i128 *r)
{
    i128 qq = num / den, rr = num % den;
    if (rr < 0) { rr += den; qq -= 1; }
    *q = qq; *r = rr;
}

/* Integers admissible as "num/den rounded":
 *   mode 0 (exact): the nearest integer, both neighbours on an exact tie;
 *   mode 1 (one unit): every integer within 1 of the exact quotient.
 * den != 0.  *tie / *inexact report what happened (for the non-triviality statistics). */
static inline iv_t adm_div(i128 num, i128 den, int mode, int *tie, int *inexact)
{
    i128 q, r; iv_t a;
    if (den < 0) { num = -num; den = -den; }
    floordiv(num, den, &q, &r);
    if (inexact) *inexact = r != 0;
    if (tie) *tie = 0;
    if (mode == 0) {
        if (2 * r < den) a.lo = a.hi = q;
        else if (2 * r > den) a.lo = a.hi = q + 1;
        else { a.lo = q; a.hi = q + 1; if (tie) *tie = 1; }
    } else {
        if (r == 0) { a.lo = q - 1; a.hi = q + 1; }
        else { a.lo = q; a.hi = q + 1; }
    }
    return a;
}

/* Required return value given the admissible set and the representable range. */
static inline int verdict(iv_t a, i128 rmin, i128 rmax)
{
    if (iv_is_empty(a) || a.hi < rmin || a.lo > rmax) return V_FALSE;
    if (a.lo >= rmin && a.hi <= rmax) return V_TRUE;
    return V_EITHER;
}
static inline int verdict_and(int a, int b)   /* all parts must succeed for TRUE */
{
    if (a == V_FALSE || b == V_FALSE) return V_FALSE;
    if (a == V_TRUE && b == V_TRUE) return V_TRUE;
    return V_EITHER;
}

/* Sum of up to three raw32 products, to be delivered in 16.16: each term may have been rounded
 * separately (either way on a tie) or the exact sum may have been rounded once.  Admissible:
 * |65536*r - S| <= 32768 * (number of terms that are not multiples of 65536). */
static inline iv_t adm_sum3(const i128 p[3], int nterms, int *inexact_terms)
{
    i128 S = 0; int k = 0;
    for (int i = 0; i < nterms; i++) { S += p[i]; if ((p[i] & 0xffff) != 0) k++; }
    if (inexact_terms) *inexact_terms = k;
    i128 B = (i128)32768 * k, q, r; iv_t a;
    floordiv(S - B + 65535, 65536, &q, &r); a.lo = q;      /* ceil ((S-B)/65536) */
    floordiv(S + B, 65536, &q, &r); a.hi = q;              /* floor ((S+B)/65536) */
    return a;
}

/* 3x3 product of matrices with 64-bit entries (entries of helper matrices such as -s may exceed
 * int32), each output entry as an admissible set; returns the combined verdict for int32 output. */
static inline int adm_matmul(const int64_t l[3][3], const int64_t r[3][3], iv_t out[3][3], int *any_inexact)
{
    int v = V_TRUE, inx = 0;
    for (int i = 0; i < 3; i++) for (int j = 0; j < 3; j++) {
        i128 p[3]; int k;
        for (int o = 0; o < 3; o++) p[o] = (i128)l[i][o] * r[o][j];
        out[i][j] = adm_sum3(p, 3, &k);
        inx |= k;
        v = verdict_and(v, verdict(out[i][j], I32_MIN_, I32_MAX_));
    }
    if (any_inexact) *any_inexact = inx != 0;
    return v;
}

static inline const char *i128_str(i128 v, char *buf)   /* buf >= 48 */
{
    char tmp[48]; int n = 0, neg = v < 0;
    unsigned __int128 u = neg ? -(unsigned __int128)v : (unsigned __int128)v;
    do { tmp[n++] = (char)('0' + (int)(u % 10)); u /= 10; } while (u);
    int k = 0; if (neg) buf[k++] = '-';
    while (n) buf[k++] = tmp[--n];
    buf[k] = 0;
    return buf;
}

#endif
