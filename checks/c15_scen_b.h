/* c15_scen_b.h — C15 scenarios: composites, fills, trapezoids/triangles, glyphs. */

/* ---------------- composites through the general path ---------------- */
static void comp_simple (T *t, const char *key, pixman_op_t op, pixman_format_code_t sfmt, pixman_format_code_t dfmt, int w, int h, int clip)
{
    int hf; surf_t s = surf_new (t, sfmt, w, h, 21), d = surf_new (t, dfmt, w, h, 22);
    if (sfmt == PIXMAN_a8r8g8b8) surf_premul (&s);
    if (dfmt == PIXMAN_a8r8g8b8) surf_premul (&d);
    if (clip) clip3 (t, d.img, w, h);
    WIN (pixman_image_composite32 (op, s.img, NULL, d.img, 0, 0, 0, 0, 0, 0, w, h));
    draw_check (t, key, &d, 0, 0, w, h, DRAW_VOID, hf);
    exercise_source (t, "dest-usable", d.img, 0);
    surf_free (&s); surf_free (&d);
}
/* narrow pipeline, width > 2044: scanline buffers leave the stack */
static void sc_comp_heap_narrow (T *t) { comp_simple (t, "composite XOR 8888->8888 2100x2", PIXMAN_OP_XOR, PIXMAN_a8r8g8b8, PIXMAN_a8r8g8b8, 2100, 2, 0); }
/* the same through a three-rectangle clip: region arithmetic + one heap buffer per rectangle */
static void sc_comp_heap_narrow_clip (T *t) { comp_simple (t, "composite XOR 8888->8888 6600x2 clip3", PIXMAN_OP_XOR, PIXMAN_a8r8g8b8, PIXMAN_a8r8g8b8, 6600, 2, 1); }
/* wide (float) pipeline: heap buffer from width 512; every stored scanline of a narrow destination needs a temporary */
static void sc_comp_heap_wide (T *t) { comp_simple (t, "composite OVER 2101010->8888 600x2", PIXMAN_OP_OVER, PIXMAN_a2r10g10b10, PIXMAN_a8r8g8b8, 600, 2, 0); }
static void sc_comp_float_store (T *t) { comp_simple (t, "composite SRC 2101010->565 9x3", PIXMAN_OP_SRC, PIXMAN_a2r10g10b10, PIXMAN_r5g6b5, 9, 3, 0); }
static void sc_comp_float_store_clip (T *t) { comp_simple (t, "composite OVER 2101010->8888 30xH clip3", PIXMAN_OP_OVER, PIXMAN_a2r10g10b10, PIXMAN_a8r8g8b8, 30, t->thorough ? 5 : 3, 1); }
/* operator that needs division forces the wide pipeline on narrow images */
static void sc_comp_wide_by_operator (T *t) { comp_simple (t, "composite COLOR_DODGE 8888->8888 700x2", PIXMAN_OP_COLOR_DODGE, PIXMAN_a8r8g8b8, PIXMAN_a8r8g8b8, 700, 2, 0); }

/* source clip honoured (clip_sources + client_clip), mask present, destination clip: region arithmetic only */
static void sc_comp_clips_mask (T *t)
{
    int hf; surf_t s = surf_new (t, PIXMAN_a8r8g8b8, 48, 4, 31), m = surf_new (t, PIXMAN_a8, 48, 4, 32), d = surf_new (t, PIXMAN_a8r8g8b8, 48, 4, 33);
    surf_premul (&s); surf_premul (&d);
    clip3 (t, d.img, 48, 4);
    pixman_box32_t b[4] = { { 0, 0, 10, 4 }, { 12, 1, 20, 4 }, { 22, 0, 30, 3 }, { 33, 0, 47, 4 } };
    pixman_region32_t r; if (!pixman_region32_init_rects (&r, b, 4) || !pixman_image_set_clip_region32 (s.img, &r)) V (t, "c15-harness-setup", "clip");
    pixman_region32_fini (&r);
    pixman_image_set_source_clipping (s.img, 1); pixman_image_set_has_client_clip (s.img, 1);
    WIN (pixman_image_composite32 (PIXMAN_OP_OVER, s.img, m.img, d.img, 0, 0, 0, 0, 0, 0, 48, 4));
    draw_check (t, "composite OVER src-clip4 mask a8 dst-clip3", &d, 0, 0, 48, 4, DRAW_VOID, hf);
    surf_free (&s); surf_free (&m); surf_free (&d);
}

/* destination with an alpha map: one scratch line per fetched scanline (dest_get_scanline_narrow/_wide) */
static void comp_alpha_map (T *t, const char *key, pixman_format_code_t sfmt, pixman_op_t op)
{
    int hf, H = t->thorough ? 5 : 3; surf_t s = surf_new (t, sfmt, 8, H, 41), d = surf_new (t, PIXMAN_a8r8g8b8, 8, H, 42), a = surf_new (t, PIXMAN_a8, 8, H, 43);
    if (sfmt == PIXMAN_a8r8g8b8) surf_premul (&s);
    surf_premul (&d);
    pixman_image_set_alpha_map (d.img, a.img, 0, 0);
    t->key_third = "c15-alpha-scratch-failure-wrong-pixels";
    WIN (pixman_image_composite32 (op, s.img, NULL, d.img, 0, 0, 0, 0, 0, 0, 8, H));
    draw_check (t, key, &d, 0, 0, 8, H, DRAW_VOID, hf);
    if (!vf_failed ()) { char k2[64]; snprintf (k2, sizeof k2, "%s [alpha map]", key); draw_check (t, k2, &a, 0, 0, 8, H, DRAW_VOID, hf); }
    t->key_third = NULL;
    pixman_image_set_alpha_map (d.img, NULL, 0, 0);
    surf_free (&s); surf_free (&d); surf_free (&a);
}
static void sc_alpha_map_narrow (T *t) { comp_alpha_map (t, "composite OVER_REVERSE 8888->8888+alphamap(a8)", PIXMAN_a8r8g8b8, PIXMAN_OP_OVER_REVERSE); }
static void sc_alpha_map_wide (T *t)   { comp_alpha_map (t, "composite OVER_REVERSE 2101010->8888+alphamap(a8)", PIXMAN_a2r10g10b10, PIXMAN_OP_OVER_REVERSE); }

/* scaled bilinear source that covers the clip: the (ssse3 | fast) "bilinear cover" iterator allocates two lines */
static void comp_bilinear_cover (T *t, const char *key, pixman_op_t op, pixman_format_code_t dfmt, const char *third)
{
    int hf; surf_t s = surf_new (t, PIXMAN_a8r8g8b8, 16, 10, 51), d = surf_new (t, dfmt, 8, 4, 52);
    surf_premul (&s); if (dfmt == PIXMAN_a8r8g8b8) surf_premul (&d);
    pixman_transform_t tr; pixman_transform_init_scale (&tr, pixman_fixed_1 + pixman_fixed_1 / 2, pixman_fixed_1 + pixman_fixed_1 / 2);
    if (!pixman_image_set_transform (s.img, &tr)) V (t, "c15-harness-setup", "set_transform");
    pixman_image_set_filter (s.img, PIXMAN_FILTER_BILINEAR, NULL, 0);
    t->key_third = third;
    WIN (pixman_image_composite32 (op, s.img, NULL, d.img, 1, 1, 0, 0, 0, 0, 8, 4));
    draw_check (t, key, &d, 0, 0, 8, 4, DRAW_VOID, hf);
    t->key_third = NULL;
    surf_free (&s); surf_free (&d);
}
static void sc_bilinear_cover_xor (T *t) { comp_bilinear_cover (t, "composite XOR scaled-bilinear 8888->8888", PIXMAN_OP_XOR, PIXMAN_a8r8g8b8, NULL); }
static void sc_bilinear_cover_src (T *t) { comp_bilinear_cover (t, "composite SRC scaled-bilinear 8888->a1r5g5b5", PIXMAN_OP_SRC, PIXMAN_a1r5g5b5, "c15-bilinear-cover-iter-failure-wrong-pixels"); }


/* the same with the ssse3 implementation disabled, so that the generic C iterator (pixman-fast-path.c) is the one that
 * allocates.  Implementation switch as in the harness guide: new chain, new thread (fresh fast-path cache). */
#include <pthread.h>
extern void *global_implementation;
void *_pixman_choose_implementation (void);
typedef struct { T *t; int src; } bcf_arg;
static void *bcf_thread (void *p)
{
    bcf_arg *a = p;
    if (a->src) comp_bilinear_cover (a->t, "composite SRC scaled-bilinear 8888->a1r5g5b5 (no ssse3)", PIXMAN_OP_SRC, PIXMAN_a1r5g5b5, "c15-bilinear-cover-iter-failure-wrong-pixels");
    else comp_bilinear_cover (a->t, "composite XOR scaled-bilinear 8888->8888 (no ssse3)", PIXMAN_OP_XOR, PIXMAN_a8r8g8b8, NULL);
    return NULL;
}
static void bilinear_cover_fast (T *t, int src)
{
    fflush (stdout);
    int sv = dup (1), nul = open ("/dev/null", O_WRONLY); dup2 (nul, 1);      /* the library announces "Disabled ssse3" on stdout */
    setenv ("PIXMAN_DISABLE", "ssse3", 1);
    void *old = global_implementation, *imp = _pixman_choose_implementation ();
    unsetenv ("PIXMAN_DISABLE");
    fflush (stdout); dup2 (sv, 1); close (sv); close (nul);
    if (!imp) { V (t, "c15-harness-setup", "choose_implementation"); return; }
    global_implementation = imp;
    bcf_arg a = { t, src }; pthread_t th;
    if (pthread_create (&th, NULL, bcf_thread, &a)) V (t, "c15-harness-setup", "pthread_create"); else pthread_join (th, NULL);
    global_implementation = old;
    while (imp) { void *next = ((void **) imp)[1]; free (imp); imp = next; }   /* toplevel, fallback, ... */
}
static void sc_bilinear_cover_fast_xor (T *t) { bilinear_cover_fast (t, 0); }
static void sc_bilinear_cover_fast_src (T *t) { bilinear_cover_fast (t, 1); }

/* ---------------- fill_rectangles / fill_boxes ---------------- */
static void fill_rects_n (T *t, const char *key, pixman_op_t op, unsigned alpha, int n, int clip)
{
    int hf, ok; surf_t d = surf_new (t, PIXMAN_a8r8g8b8, 48, 6, 61); surf_premul (&d);
    if (clip) clip3 (t, d.img, 48, 6);
    pixman_color_t c = { (uint16_t) (alpha / 2), (uint16_t) (alpha / 3), (uint16_t) (alpha / 4), (uint16_t) alpha };
    pixman_rectangle16_t r[10]; for (int i = 0; i < n; i++) { r[i].x = (int16_t) (5 * i); r[i].y = (int16_t) (i % 3); r[i].width = 4; r[i].height = (uint16_t) (2 + i % 3); }
    WIN (ok = pixman_image_fill_rectangles (op, d.img, &c, n, r));
    st (t, key, ok, hf);
    draw_check (t, key, &d, 0, 0, 48, 6, ok ? DRAW_MUST_NEW : DRAW_VOID, hf);
    exercise_source (t, "dest-usable", d.img, 0);
    surf_free (&d);
}
static void sc_fill_rects_src8 (T *t)   { fill_rects_n (t, "fill_rectangles SRC opaque 8 rects", PIXMAN_OP_SRC, 0xffff, 8, 0); }
static void sc_fill_rects_over8 (T *t)  { fill_rects_n (t, "fill_rectangles OVER translucent 8 rects", PIXMAN_OP_OVER, 0x8000, 8, 0); }
static void sc_fill_rects_stack (T *t)  { fill_rects_n (t, "fill_rectangles SRC 4 rects (stack boxes)", PIXMAN_OP_SRC, 0xffff, 4, 0); }
static void sc_fill_rects_src_clip (T *t) { fill_rects_n (t, "fill_rectangles SRC 8 rects clip3", PIXMAN_OP_SRC, 0xffff, 8, 1); }

static void fill_boxes_n (T *t, const char *key, pixman_op_t op, unsigned alpha, int clip, const char *k_notdrawn)
{
    int hf, ok; surf_t d = surf_new (t, PIXMAN_a8r8g8b8, 48, 6, 62); surf_premul (&d);
    if (clip) clip3 (t, d.img, 48, 6);
    pixman_color_t c = { (uint16_t) (alpha / 2), (uint16_t) (alpha / 3), (uint16_t) (alpha / 4), (uint16_t) alpha };
    pixman_box32_t b[4] = { { 0, 0, 20, 2 }, { 22, 1, 40, 4 }, { 30, 4, 47, 6 }, { 2, 3, 9, 6 } };
    WIN (ok = pixman_image_fill_boxes (op, d.img, &c, 4, b));
    st (t, key, ok, hf);
    t->key_notdrawn = k_notdrawn;
    draw_check (t, key, &d, 0, 0, 48, 6, ok ? DRAW_MUST_NEW : DRAW_VOID, hf);
    t->key_notdrawn = NULL;
    surf_free (&d);
}
static void sc_fill_boxes_src (T *t)       { fill_boxes_n (t, "fill_boxes SRC opaque 4 boxes", PIXMAN_OP_SRC, 0xffff, 0, NULL); }
static void sc_fill_boxes_src_clip (T *t)  { fill_boxes_n (t, "fill_boxes SRC opaque 4 boxes clip3", PIXMAN_OP_SRC, 0xffff, 1, NULL); }
static void sc_fill_boxes_over (T *t)      { fill_boxes_n (t, "fill_boxes OVER translucent 4 boxes", PIXMAN_OP_OVER, 0x8000, 0, NULL); }
static void sc_fill_boxes_over_clip (T *t) { fill_boxes_n (t, "fill_boxes OVER translucent 4 boxes clip3", PIXMAN_OP_OVER, 0x8000, 1, "c15-fill-boxes-true-after-skipped-composite"); }

/* ---------------- trapezoids / triangles ---------------- */
#define FX(v) pixman_int_to_fixed (v)
static void mk_trap (pixman_trapezoid_t *tr, int top, int bot, int lx1, int lx2, int rx1, int rx2)
{
    tr->top = FX (top); tr->bottom = FX (bot);
    tr->left.p1.x = FX (lx1); tr->left.p1.y = FX (top); tr->left.p2.x = FX (lx2); tr->left.p2.y = FX (bot);
    tr->right.p1.x = FX (rx1); tr->right.p1.y = FX (top); tr->right.p2.x = FX (rx2); tr->right.p2.y = FX (bot);
}
static void traps_case (T *t, const char *key, pixman_op_t op, int w, int h)
{
    int hf; surf_t d = surf_new (t, PIXMAN_a8r8g8b8, w, h, 71); surf_premul (&d);
    pixman_image_t *src = mk_solid (t, 0xc000, 0x9000, 0x3000, 0x6000);
    pixman_trapezoid_t tr[2]; mk_trap (&tr[0], 0, h - 1, 1, 3, w / 2, w / 2 - 2); mk_trap (&tr[1], 1, h, w / 2 + 1, w / 2 + 2, w - 2, w - 1);
    WIN (pixman_composite_trapezoids (op, src, d.img, PIXMAN_a8, 0, 0, 0, 0, 2, tr));
    draw_check (t, key, &d, 0, 0, w, h, DRAW_VOID, hf);
    pixman_image_unref (src); surf_free (&d);
}
static void sc_traps_mask (T *t)      { traps_case (t, "composite_trapezoids OVER a8 mask 24x8", PIXMAN_OP_OVER, 24, 8); }
static void sc_traps_mask_wide (T *t) { traps_case (t, "composite_trapezoids XOR a8 mask 2100x3", PIXMAN_OP_XOR, 2100, 3); }

static void mk_tris (pixman_triangle_t *tri)
{
    tri[0].p1.x = FX (1); tri[0].p1.y = FX (0); tri[0].p2.x = FX (10); tri[0].p2.y = FX (2); tri[0].p3.x = FX (3); tri[0].p3.y = FX (7);
    tri[1].p1.x = FX (12); tri[1].p1.y = FX (7); tri[1].p2.x = FX (22); tri[1].p2.y = FX (1); tri[1].p3.x = FX (20); tri[1].p3.y = FX (8);
}
static void sc_triangles (T *t)
{
    int hf; surf_t d = surf_new (t, PIXMAN_a8r8g8b8, 24, 8, 72); surf_premul (&d);
    pixman_image_t *src = mk_solid (t, 0xc000, 0x9000, 0x3000, 0x6000); pixman_triangle_t tri[2]; mk_tris (tri);
    WIN (pixman_composite_triangles (PIXMAN_OP_OVER, src, d.img, PIXMAN_a8, 0, 0, 0, 0, 2, tri));
    draw_check (t, "composite_triangles OVER a8 mask", &d, 0, 0, 24, 8, DRAW_VOID, hf);
    pixman_image_unref (src); surf_free (&d);
}
static void sc_add_triangles (T *t)
{
    int hf; surf_t d = surf_new (t, PIXMAN_a8, 24, 8, 73); for (size_t i = 0; i < d.bytes / 4; i++) d.bits[i] &= 0x3f3f3f3f; memcpy (d.old, d.bits, d.bytes);
    pixman_triangle_t tri[2]; mk_tris (tri);
    WIN (pixman_add_triangles (d.img, 0, 0, 2, tri));
    draw_check (t, "add_triangles a8", &d, 0, 0, 24, 8, DRAW_VOID, hf);
    surf_free (&d);
}

/* ---------------- glyphs ---------------- */
typedef struct { pixman_format_code_t gfmt[2]; int gw; pixman_format_code_t mask_fmt; pixman_op_t op; int no_mask; int clip; const char *third; const char *key; } glyph_cfg;

static void glyph_case (T *t, const glyph_cfg *g)
{
    int hf; pixman_glyph_cache_t *cache;
    WIN (cache = pixman_glyph_cache_create ());
    if (!st (t, "glyph_cache_create", cache != NULL, hf)) return;
    surf_t d = surf_new (t, PIXMAN_a8r8g8b8, g->gw * 2 + 12, 8, 81); surf_premul (&d);
    if (g->clip) clip3 (t, d.img, d.w, d.h);
    pixman_image_t *src = mk_solid (t, 0xe000, 0xb000, 0x2000, 0x7000);
    surf_t gi[2]; const void *gp[2]; int all = 1, nfault_insert = 0;
    pixman_glyph_cache_freeze (cache);
    for (int i = 0; i < 2; i++) {
        gi[i] = surf_new (t, g->gfmt[i], g->gw, 5, 82 + i);
        if (g->gfmt[i] == PIXMAN_a8r8g8b8) surf_premul (&gi[i]);
        char k[64]; snprintf (k, sizeof k, "glyph_cache_insert #%d", i);
        WIN (gp[i] = pixman_glyph_cache_insert (cache, (void *) 1, (void *) (intptr_t) (i + 1), 1, 2, gi[i].img));
        nfault_insert += hf;
        if (!st (t, k, gp[i] != NULL, hf)) all = 0;
        else if (pixman_glyph_cache_lookup (cache, (void *) 1, (void *) (intptr_t) (i + 1)) != gp[i]) V (t, "c15-glyph-insert-not-found", "%s succeeded but lookup does not return the glyph", k);
    }
    pixman_glyph_t gl[2]; int n = 0;
    for (int i = 0; i < 2; i++) if (gp[i]) { gl[n].x = 2 + i * (g->gw + 3); gl[n].y = 3; gl[n].glyph = gp[i]; n++; }
    if (n) {
        /* glyphs that were inserted "successfully" while an allocation failed must still hold their picture:
         * the drawing below is compared with the fault-free one whenever both inserts reported success */
        t->key_third = g->third;
        if (all && nfault_insert) t->key_third = "c15-glyph-insert-success-but-glyph-not-copied";
        WIN (if (g->no_mask) pixman_composite_glyphs_no_mask (g->op, src, d.img, 0, 0, 0, 0, cache, n, gl);
             else pixman_composite_glyphs (g->op, src, d.img, g->mask_fmt, 0, 0, 0, 0, 0, 0, d.w, d.h, cache, n, gl));
        if (all) {
            if (nfault_insert && !hf) {
                /* no fault in the drawing call itself: complete picture required; a difference means the cached glyph is wrong */
                const obs_t *o = obs_find (t, g->key);
                if (t->faulted && o && memcmp (o->data, d.bits, d.bytes)) V (t, "c15-glyph-insert-success-but-glyph-not-copied", "%s: both inserts reported success (an allocation failed inside one of them) but the glyphs draw differently from the fault-free run", g->key);
            } else draw_check (t, g->key, &d, 0, 0, d.w, d.h, DRAW_VOID, hf);
        }
        t->key_third = NULL;
    }
    /* the cache stays usable: remove, thaw, insert again, destroy */
    if (gp[0]) pixman_glyph_cache_remove (cache, (void *) 1, (void *) (intptr_t) 1);
    pixman_glyph_cache_thaw (cache);
    pixman_glyph_cache_freeze (cache);
    if (!pixman_glyph_cache_insert (cache, (void *) 2, (void *) 9, 0, 0, gi[1].img)) V (t, "c15-reuse-after-failure", "glyph_cache_insert failed without fault after the scenario");
    pixman_glyph_cache_thaw (cache);
    pixman_glyph_cache_destroy (cache);
    for (int i = 0; i < 2; i++) surf_free (&gi[i]);
    pixman_image_unref (src); surf_free (&d);
}
static void sc_glyphs_same_format (T *t) { glyph_cfg g = { { PIXMAN_a8, PIXMAN_a8 }, 6, PIXMAN_a8, PIXMAN_OP_OVER, 0, 0, NULL, "composite_glyphs OVER a8 glyphs, a8 mask" }; glyph_case (t, &g); }
static void sc_glyphs_white (T *t)       { glyph_cfg g = { { PIXMAN_a8, PIXMAN_a8 }, 6, PIXMAN_a8r8g8b8, PIXMAN_OP_OVER, 0, 0, NULL, "composite_glyphs OVER a8 glyphs, argb mask (white source)" }; glyph_case (t, &g); }
static void sc_glyphs_white_src (T *t)   { glyph_cfg g = { { PIXMAN_a8, PIXMAN_a8 }, 6, PIXMAN_a8r8g8b8, PIXMAN_OP_SRC, 0, 0, "c15-glyphs-mask-build-failure-wrong-pixels", "composite_glyphs SRC a8 glyphs, argb mask (white source)" }; glyph_case (t, &g); }
static void sc_glyphs_mixed (T *t)       { glyph_cfg g = { { PIXMAN_a8r8g8b8, PIXMAN_a8 }, 6, PIXMAN_a8r8g8b8, PIXMAN_OP_OVER, 0, 0, "c15-glyphs-mask-build-failure-wrong-pixels", "composite_glyphs OVER argb+a8 glyphs, argb mask" }; glyph_case (t, &g); }
static void sc_glyphs_no_mask (T *t)     { glyph_cfg g = { { PIXMAN_a8, PIXMAN_a8r8g8b8 }, 6, PIXMAN_a8, PIXMAN_OP_OVER, 1, 1, NULL, "composite_glyphs_no_mask OVER clip3" }; glyph_case (t, &g); }
/* a glyph wider than the stack scanline buffer in a format without a copy fast path: insert's internal copy needs the heap */
static void sc_glyphs_wide_insert (T *t) { glyph_cfg g = { { PIXMAN_a4, PIXMAN_a8 }, 2100, PIXMAN_a8, PIXMAN_OP_OVER, 0, 0, NULL, "composite_glyphs OVER a4 2100-wide glyph" }; glyph_case (t, &g); }

/* ---- thorough-only variants ---- */
static void sc_comp_heap_mask_ca (T *t)
{
    int hf; surf_t s = surf_new (t, PIXMAN_a8r8g8b8, 2100, 2, 91), m = surf_new (t, PIXMAN_a8r8g8b8, 2100, 2, 92), d = surf_new (t, PIXMAN_a8r8g8b8, 2100, 2, 93);
    surf_premul (&s); surf_premul (&d); pixman_image_set_component_alpha (m.img, 1);
    WIN (pixman_image_composite32 (PIXMAN_OP_ATOP, s.img, m.img, d.img, 0, 0, 0, 0, 0, 0, 2100, 2));
    draw_check (t, "composite ATOP 8888 x CA-mask 8888 -> 8888 2100x2", &d, 0, 0, 2100, 2, DRAW_VOID, hf);
    surf_free (&s); surf_free (&m); surf_free (&d);
}
static void sc_alpha_map_x888 (T *t)
{
    int hf; surf_t s = surf_new (t, PIXMAN_a8r8g8b8, 8, 4, 94), d = surf_new (t, PIXMAN_x8r8g8b8, 8, 4, 95), a = surf_new (t, PIXMAN_a8, 8, 4, 96);
    surf_premul (&s);
    pixman_image_set_alpha_map (d.img, a.img, 0, 0);
    t->key_third = "c15-alpha-scratch-failure-wrong-pixels";
    WIN (pixman_image_composite32 (PIXMAN_OP_IN_REVERSE, s.img, NULL, d.img, 0, 0, 0, 0, 1, 1, 6, 3));
    draw_check (t, "composite IN_REVERSE 8888->x888+alphamap(a8)", &d, 1, 1, 6, 3, DRAW_VOID, hf);
    if (!vf_failed ()) draw_check (t, "composite IN_REVERSE 8888->x888+alphamap(a8) [alpha map]", &a, 1, 1, 6, 3, DRAW_VOID, hf);
    t->key_third = NULL;
    pixman_image_set_alpha_map (d.img, NULL, 0, 0);
    surf_free (&s); surf_free (&d); surf_free (&a);
}
static void sc_fill_rects_over_clip (T *t)
{
    t->key_notdrawn = "c15-fill-boxes-true-after-skipped-composite";
    fill_rects_n (t, "fill_rectangles OVER translucent 8 rects clip3", PIXMAN_OP_OVER, 0x8000, 8, 1);
    t->key_notdrawn = NULL;
}
