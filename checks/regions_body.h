/* regions_body.h — included twice by regions.c, once per instantiation.
 * Macros supplied by the includer:
 *   RW            16 or 32
 *   RT            region type, BT box type, CT coordinate type
 *   RF(name)      library function  pixman_region[32]_name
 *   N(name)       local name suffixing
 *   RMIN/RMAX     coordinate limits
 */

typedef struct { RT r; } N(reg);

/* ---------- helpers ---------- */
static RF(data_t) *N(empty_data);

static void N(lib_to_list)(RT *r, mreg *out)
{
    int n; BT *b = RF(rectangles)(r, &n);
    out->n = n > MAXR ? MAXR : n;
    for (int i = 0; i < out->n; i++) { out->r[i].x1 = b[i].x1; out->r[i].y1 = b[i].y1; out->r[i].x2 = b[i].x2; out->r[i].y2 = b[i].y2; }
    BT *e = RF(extents)(r);
    out->ext.x1 = e->x1; out->ext.y1 = e->y1; out->ext.x2 = e->x2; out->ext.y2 = e->y2;
}

/* Judge a library region against the expected canonical region.
 * what: short description of the operation for the report. */
static void N(judge)(RT *r, const mreg *exp, const char *what)
{
    if (vf_failed()) return;
    mreg got; N(lib_to_list)(r, &got);
    int n; RF(rectangles)(r, &n);
#if PROP == 5
    /* C05: point set only — canonicalise what the library holds and compare sets */
    mreg gc;
    if (n > MAXR) { vf_violation("c05-too-many-rects", "%s: %d rects", what, n); return; }
    m_canon(got.r, got.n, &gc);
    if (!m_same_list(&gc, exp)) {
        char a[700], b[700];
        vf_violation("c05-wrong-point-set", "%s: library holds %s, set algebra requires %s", what, m_str(&got, a, sizeof a), m_str(exp, b, sizeof b));
    }
#elif PROP == 6
    char a[700], b[700];
    if (n != exp->n || !m_same_list(&got, exp)) {
        mreg gc; m_canon(got.r, got.n, &gc);
        const char *key = m_same_list(&gc, exp) ? "c06-not-canonical" : "c06-wrong-set";
        vf_violation(key, "%s: rectangles %s, canonical form is %s", what, m_str(&got, a, sizeof a), m_str(exp, b, sizeof b));
        return;
    }
    if (exp->n == 0) {
        if (!(got.ext.x1 == got.ext.x2 && got.ext.y1 == got.ext.y2)) {
            vf_violation("c06-empty-extents", "%s: empty region with non-degenerate extents (%lld,%lld,%lld,%lld)", what,
                         (long long)got.ext.x1, (long long)got.ext.y1, (long long)got.ext.x2, (long long)got.ext.y2);
            return;
        }
        /* storage of an empty region: the statement does not prescribe it; the library's own well-formedness
         * rule (selfcheck) is "static empty data, or a heap block" — checked through selfcheck() below */
        if (RF(not_empty)(r)) { vf_violation("c06-empty-not-empty", "%s: not_empty() TRUE for empty set", what); return; }
    } else {
        if (memcmp(&got.ext, &exp->ext, sizeof(mbox))) {
            vf_violation("c06-extents", "%s: extents (%lld,%lld,%lld,%lld) but tight box is (%lld,%lld,%lld,%lld) for %s", what,
                         (long long)got.ext.x1, (long long)got.ext.y1, (long long)got.ext.x2, (long long)got.ext.y2,
                         (long long)exp->ext.x1, (long long)exp->ext.y1, (long long)exp->ext.x2, (long long)exp->ext.y2, m_str(exp, b, sizeof b));
            return;
        }
        if (exp->n == 1 && r->data != NULL) { vf_violation("c06-single-not-inline", "%s: single rectangle stored with a list", what); return; }
        if (exp->n > 1 && (r->data == NULL || r->data->numRects != exp->n || r->data->size < exp->n)) {
            vf_violation("c06-storage", "%s: inconsistent storage", what); return;
        }
    }
    if (!RF(selfcheck)(r)) vf_violation("c06-selfcheck", "%s: selfcheck() FALSE on %s", what, m_str(&got, a, sizeof a));
#else
    /* C07: descriptive queries */
    char b[700];
    if (RF(n_rects)(r) != n) { vf_violation("c07-n_rects", "%s: n_rects %d vs rectangles() %d", what, RF(n_rects)(r), n); return; }
    mreg gc; m_canon(got.r, got.n > MAXR ? MAXR : got.n, &gc);
    if (!m_same_list(&gc, exp)) return; /* set itself wrong: C05's business */
    if ((RF(not_empty)(r) != 0) != (exp->n != 0)) { vf_violation("c07-not_empty", "%s: not_empty()=%d for %s", what, RF(not_empty)(r), m_str(exp, b, sizeof b)); return; }
    if (exp->n && memcmp(&got.ext, &exp->ext, sizeof(mbox))) {
        vf_violation("c07-extents", "%s: extents() (%lld,%lld,%lld,%lld) does not describe %s", what,
                     (long long)got.ext.x1, (long long)got.ext.y1, (long long)got.ext.x2, (long long)got.ext.y2, m_str(exp, b, sizeof b));
    }
#endif
}

static void N(expect_true)(int ret, const char *what)
{
#if PROP == 5
    if (!ret && !vf_failed()) vf_violation("c05-returned-false", "%s returned FALSE", what);
#endif
}

/* ---------- constructions: build a region holding exactly the universe mask ---------- */

static void N(cells_to_boxes)(const universe *u, uint64_t mask, BT *out, int *n)
{
    int k = 0;
    for (int j = 0; j < u->gy; j++) for (int i = 0; i < u->gx; i++)
        if (mask >> (j * u->gx + i) & 1) {
            out[k].x1 = (CT)u->X[i]; out[k].x2 = (CT)u->X[i + 1]; out[k].y1 = (CT)u->Y[j]; out[k].y2 = (CT)u->Y[j + 1]; k++;
        }
    *n = k;
}

/* returns 1 on success (the construction itself is library code and is judged too) */
static int N(construct)(const universe *u, uint64_t mask, int cons, RT *r)
{
    BT cells[64], tmp[64]; int n;
    N(cells_to_boxes)(u, mask, cells, &n);
    int ret = 1;
    if (mask == 0) {
        BT b1, b2; RT t1, t2;
        switch (cons % N_ECONS) {
        case EC_INIT: RF(init)(r); break;
        case EC_CLEAR: RF(init_rect)(r, (int)u->X[1], (int)u->Y[1], (unsigned)(u->X[2] - u->X[1]), (unsigned)(u->Y[2] - u->Y[1])); RF(clear)(r); break;
        case EC_DISJOINT:
            RF(init_rect)(&t1, (int)u->X[0], (int)u->Y[0], (unsigned)(u->X[1] - u->X[0]), (unsigned)(u->Y[1] - u->Y[0]));
            RF(init_rect)(&t2, (int)u->X[u->gx - 1], (int)u->Y[u->gy - 1], (unsigned)(u->X[u->gx] - u->X[u->gx - 1]), (unsigned)(u->Y[u->gy] - u->Y[u->gy - 1]));
            RF(init_rect)(r, (int)u->X[1], (int)u->Y[1], (unsigned)(u->X[2] - u->X[1]), (unsigned)(u->Y[2] - u->Y[1]));
            ret = RF(intersect)(r, &t1, &t2);
            RF(fini)(&t1); RF(fini)(&t2);
            break;
        case EC_SELFSUB:
            b1.x1 = (CT)u->X[1]; b1.y1 = (CT)u->Y[1]; b1.x2 = (CT)u->X[2]; b1.y2 = (CT)u->Y[2];
            b2 = b1; b2.x1 = (CT)u->X[2]; b2.x2 = (CT)u->X[3]; b2.y1 = (CT)u->Y[2]; b2.y2 = (CT)u->Y[3];
            tmp[0] = b1; tmp[1] = b2;
            ret = RF(init_rects)(r, tmp, 2);
            ret &= RF(subtract)(r, r, r);
            break;
        case EC_TRANSLATE:
            /* an inline single rectangle pushed completely out of range (16-bit: no int overflow involved);
             * for 32-bit coordinates every out-of-range translation overflows int arithmetic, which is C07's
             * subject, so the 32-bit variant empties an inline rectangle with a disjoint intersect_rect instead */
#if RW == 16
            RF(init_rect)(r, RMAX - 10, RMAX - 10, 5, 5);
            RF(translate)(r, 20, 20);
#else
            RF(init_rect)(r, RMAX - 10, RMAX - 10, 5, 5);
            ret = RF(intersect_rect)(r, r, 0, 0, 7, 7);
#endif
            break;
        }
        return ret;
    }
    switch (cons % N_CONS) {
    case CONS_SORTED:
        ret = RF(init_rects)(r, cells, n); break;
    case CONS_REVERSED:
        for (int i = 0; i < n; i++) tmp[i] = cells[n - 1 - i];
        ret = RF(init_rects)(r, tmp, n); break;
    case CONS_INTERLEAVED: {
        int k = 0;
        for (int i = 0; i < n; i += 2) tmp[k++] = cells[i];
        for (int i = 1; i < n; i += 2) tmp[k++] = cells[i];
        ret = RF(init_rects)(r, tmp, n); break;
    }
    case CONS_UNION_RECT:
        RF(init)(r);
        for (int i = 0; i < n && ret; i++) {
            /* column-major order so that bands are split and re-coalesced */
            int k = (i * 7) % n; (void)k;
            ret = RF(union_rect)(r, r, cells[i].x1, cells[i].y1, (unsigned)((int64_t)cells[i].x2 - cells[i].x1), (unsigned)((int64_t)cells[i].y2 - cells[i].y1));
        }
        break;
    case CONS_OVERSIZED: {
        /* big heap block first (every cell separately banded), then cut down by subtracting the complement */
        RT full, comp; BT all[64]; int na, nc; BT cc[64];
        uint64_t fullmask = (u->gx * u->gy >= 64) ? ~(uint64_t)0 : (((uint64_t)1 << (u->gx * u->gy)) - 1);
        /* checkerboard has the largest rectangle count */
        uint64_t checker = 0;
        for (int j = 0; j < u->gy; j++) for (int i = 0; i < u->gx; i++) if ((i + j) & 1) checker |= (uint64_t)1 << (j * u->gx + i);
        N(cells_to_boxes)(u, checker | mask, all, &na);
        ret = RF(init_rects)(r, all, na);
        N(cells_to_boxes)(u, fullmask & ~mask, cc, &nc);
        ret &= RF(init_rects)(&comp, cc, nc);
        ret &= RF(subtract)(r, r, &comp);
        RF(fini)(&comp);
        (void)full;
        break;
    }
    }
    return ret;
}

static const char *N(cons_name)(uint64_t mask, int cons)
{
    static const char *cn[] = { "init_rects/sorted", "init_rects/reversed", "init_rects/interleaved", "union_rect-accumulated", "oversized-then-subtract" };
    static const char *en[] = { "init", "init_rect+clear", "disjoint-intersect", "subtract(A,A)", "translated-out-of-range" };
    return mask ? cn[cons % N_CONS] : en[cons % N_ECONS];
}

static int N(unchanged)(RT *r, const mreg *before)
{
    mreg now; N(lib_to_list)(r, &now);
    return m_same_list(&now, before) && (before->n == 0 || !memcmp(&now.ext, &before->ext, sizeof(mbox)));
}

/* ---------- space: all pairs × constructions; union/intersect/subtract × aliasing; equal ---------- */
typedef struct { const universe *u; int ncons; int ops_only; } N(pairs_ctx);

static void N(pairs_case)(uint64_t idx, void *vctx)
{
    N(pairs_ctx) *c = vctx; const universe *u = c->u;
    uint64_t nm = u->ninner;
    uint64_t ia = idx % nm; idx /= nm;
    uint64_t ib = idx % nm; idx /= nm;
    int ca = (int)(idx % c->ncons); idx /= c->ncons;
    int cb = (int)(idx % c->ncons);
    uint64_t A = u->inner[ia], B = u->inner[ib];
    mreg ea, eb, eres; canon_mask(u, A, &ea); canon_mask(u, B, &eb);
    char what[300];
    static const char *opn[] = { "union", "intersect", "subtract" };
    static const char *aln[] = { "dst=fresh", "dst=other-heap-region", "dst==src1", "dst==src2", "src1==src2 (same object)" };
    int nontriv = 0;
    for (int op = 0; op < 3; op++) {
        uint64_t R = op == 0 ? (A | B) : op == 1 ? (A & B) : (A & ~B);
        canon_mask(u, R, &eres);
        for (int al = 0; al < 5; al++) {
            if (al == 4 && !(A == B && ca == cb)) continue;
            RT ra, rb, rd; RT *pa = &ra, *pb = &rb, *pd = &rd;
            int ok = N(construct)(u, A, ca, &ra);
            snprintf(what, sizeof what, "%s w=%d construct A=%#llx via %s", u->name, RW, (unsigned long long)A, N(cons_name)(A, ca));
            N(expect_true)(ok, what); N(judge)(&ra, &ea, what);
            ok = N(construct)(u, B, cb, &rb);
            snprintf(what, sizeof what, "%s w=%d construct B=%#llx via %s", u->name, RW, (unsigned long long)B, N(cons_name)(B, cb));
            N(expect_true)(ok, what); N(judge)(&rb, &eb, what);
            if (al == 0) RF(init)(&rd);
            else if (al == 1) N(construct)(u, u->checker, CONS_SORTED, &rd);
            else if (al == 2) pd = pa;
            else if (al == 3) pd = pb;
            else { RF(init)(&rd); pb = pa; }
            int ret = op == 0 ? RF(union)(pd, pa, pb) : op == 1 ? RF(intersect)(pd, pa, pb) : RF(subtract)(pd, pa, pb);
            vf_count_transitions(1);
            snprintf(what, sizeof what, "%s w=%d %s(%s) A=%#llx[%s] B=%#llx[%s]", u->name, RW, opn[op], aln[al], (unsigned long long)A,
                     N(cons_name)(A, ca), (unsigned long long)B, N(cons_name)(B, cb));
            N(expect_true)(ret, what);
            N(judge)(pd, &eres, what);
            if (!vf_failed()) {
                if (pd != pa && !N(unchanged)(pa, &ea)) vf_violation("c05-operand-modified", "%s: operand 1 changed", what);
                if (pd != pb && pb != pa && !N(unchanged)(pb, &eb)) vf_violation("c05-operand-modified", "%s: operand 2 changed", what);
            }
            RF(fini)(&ra); RF(fini)(&rb); if (al != 2 && al != 3) RF(fini)(&rd);
            if (vf_failed()) return;
            if (R != 0 && R != A && R != B) nontriv = 1;
        }
    }
#if PROP == 6
    {   /* equal() is set equality, whatever the constructions */
        RT ra, rb;
        N(construct)(u, A, ca, &ra); N(construct)(u, B, cb, &rb);
        int e1 = RF(equal)(&ra, &rb), e2 = RF(equal)(&rb, &ra);
        vf_count_transitions(2);
        if ((e1 != 0) != (A == B) || (e2 != 0) != (A == B)) {
            const char *key = (A == 0 && B == 0) ? "c06-equal-empties" : "c06-equal";
            mreg ga, gb; N(lib_to_list)(&ra, &ga); N(lib_to_list)(&rb, &gb);
            vf_violation(key, "%s w=%d equal(A=%#llx[%s], B=%#llx[%s]) = %d/%d, sets are %s; extents A (%lld,%lld,%lld,%lld) B (%lld,%lld,%lld,%lld)",
                         u->name, RW, (unsigned long long)A, N(cons_name)(A, ca), (unsigned long long)B, N(cons_name)(B, cb), e1, e2, A == B ? "equal" : "different",
                         (long long)ga.ext.x1, (long long)ga.ext.y1, (long long)ga.ext.x2, (long long)ga.ext.y2,
                         (long long)gb.ext.x1, (long long)gb.ext.y1, (long long)gb.ext.x2, (long long)gb.ext.y2);
        }
        RF(fini)(&ra); RF(fini)(&rb);
        nontriv = 1;
    }
#endif
    vf_count_eval(1);
    if (nontriv) vf_count_nontrivial(1);
    if (vf_in_confirm == 0) vf_outcome(vf_mix(vf_mix(A | B, A & B), vf_mix(A & ~B, RW)));
    if (vf_want_sample() && A && B && A != B && (A & B))
        vf_sample("%s w=%d A=%#llx[%s] B=%#llx[%s]: union/intersect/subtract x 4 aliasing patterns -> %d/%d/%d rects", u->name, RW,
                  (unsigned long long)A, N(cons_name)(A, ca), (unsigned long long)B, N(cons_name)(B, cb),
                  (canon_mask(u, A | B, &eres), eres.n), (canon_mask(u, A & B, &eres), eres.n), (canon_mask(u, A & ~B, &eres), eres.n));
}

/* ---------- space: every region × every box / point / translation ---------- */
typedef struct { const universe *u; int ncons; } N(unary_ctx);

static int N(model_contains_rect)(const universe *u, uint64_t A, uint64_t boxmask)
{
    if ((A & boxmask) == 0) return PIXMAN_REGION_OUT;
    if ((A & boxmask) == boxmask) return PIXMAN_REGION_IN;
    return PIXMAN_REGION_PART;
}

static void N(unary_case)(uint64_t idx, void *vctx)
{
    N(unary_ctx) *c = vctx; const universe *u = c->u;
    uint64_t ia = idx % u->ninner; idx /= u->ninner;
    int ca = (int)(idx % c->ncons);
    uint64_t A = u->inner[ia];
    mreg ea, eres; canon_mask(u, A, &ea);
    char what[300];
    RT ra, rd;
    int lines_x = u->gx + 1, lines_y = u->gy + 1;
    uint64_t outcome = vf_mix(A, RW);

#define FRESH_A() do { int ok_ = N(construct)(u, A, ca, &ra); (void)ok_; } while (0)

    /* boxes on grid lines, including zero-width/height ones */
    for (int i1 = 0; i1 < lines_x; i1++) for (int i2 = i1; i2 < lines_x; i2++)
    for (int j1 = 0; j1 < lines_y; j1++) for (int j2 = j1; j2 < lines_y; j2++) {
        uint64_t bm = box_mask(u, i1, j1, i2, j2);
        BT box = { (CT)u->X[i1], (CT)u->Y[j1], (CT)u->X[i2], (CT)u->Y[j2] };
        int degenerate = (i1 == i2 || j1 == j2);
        int64_t bw = u->X[i2] - u->X[i1], bh = u->Y[j2] - u->Y[j1];
#if PROP != 7
        /* intersect_rect: dst fresh and dst==src */
        for (int al = 0; al < 2; al++) {
            FRESH_A(); RT *pd = al ? &ra : &rd; if (!al) RF(init)(&rd);
            int ret = RF(intersect_rect)(pd, &ra, box.x1, box.y1, (unsigned)bw, (unsigned)bh);
            vf_count_transitions(1);
            snprintf(what, sizeof what, "%s w=%d intersect_rect(%s) A=%#llx[%s] box=(%d,%d,%d,%d)", u->name, RW, al ? "dst==src" : "dst=fresh",
                     (unsigned long long)A, N(cons_name)(A, ca), (int)box.x1, (int)box.y1, (int)box.x2, (int)box.y2);
            canon_mask(u, A & bm, &eres);
            N(expect_true)(ret, what); N(judge)(pd, &eres, what);
            RF(fini)(&ra); if (!al) RF(fini)(&rd);
            if (vf_failed()) return;
        }
        /* union_rect */
        for (int al = 0; al < 2; al++) {
            FRESH_A(); RT *pd = al ? &ra : &rd; if (!al) N(construct)(u, u->checker, CONS_SORTED, &rd);
            int ret = RF(union_rect)(pd, &ra, box.x1, box.y1, (unsigned)bw, (unsigned)bh);
            vf_count_transitions(1);
            snprintf(what, sizeof what, "%s w=%d union_rect(%s) A=%#llx[%s] box=(%d,%d,%d,%d)", u->name, RW, al ? "dst==src" : "dst=other-heap-region",
                     (unsigned long long)A, N(cons_name)(A, ca), (int)box.x1, (int)box.y1, (int)box.x2, (int)box.y2);
            canon_mask(u, A | bm, &eres);
            N(expect_true)(ret, what); N(judge)(pd, &eres, what);
            RF(fini)(&ra); if (!al) RF(fini)(&rd);
            if (vf_failed()) return;
        }
        if (!degenerate) {
            /* inverse within the box */
            for (int al = 0; al < 2; al++) {
                FRESH_A(); RT *pd = al ? &ra : &rd; if (!al) RF(init)(&rd);
                int ret = RF(inverse)(pd, &ra, &box);
                vf_count_transitions(1);
                snprintf(what, sizeof what, "%s w=%d inverse(%s) A=%#llx[%s] box=(%d,%d,%d,%d)", u->name, RW, al ? "dst==src" : "dst=fresh",
                         (unsigned long long)A, N(cons_name)(A, ca), (int)box.x1, (int)box.y1, (int)box.x2, (int)box.y2);
                canon_mask(u, bm & ~A, &eres);
                N(expect_true)(ret, what); N(judge)(pd, &eres, what);
                RF(fini)(&ra); if (!al) RF(fini)(&rd);
                if (vf_failed()) return;
            }
            /* reset */
            FRESH_A();
            RF(reset)(&ra, &box); vf_count_transitions(1);
            snprintf(what, sizeof what, "%s w=%d reset A=%#llx[%s] box=(%d,%d,%d,%d)", u->name, RW, (unsigned long long)A, N(cons_name)(A, ca), (int)box.x1, (int)box.y1, (int)box.x2, (int)box.y2);
            canon_mask(u, bm, &eres); N(judge)(&ra, &eres, what);
            RF(fini)(&ra);
            if (vf_failed()) return;
        }
#else
        if (!degenerate) {
            FRESH_A();
            int got = RF(contains_rectangle)(&ra, &box); vf_count_transitions(1);
            int exp = N(model_contains_rect)(u, A, bm);
            if (got != exp) {
                vf_violation("c07-contains_rectangle", "%s w=%d contains_rectangle A=%#llx[%s] box=(%d,%d,%d,%d): got %d expected %d (0=OUT 1=IN 2=PART)", u->name, RW,
                             (unsigned long long)A, N(cons_name)(A, ca), (int)box.x1, (int)box.y1, (int)box.x2, (int)box.y2, got, exp);
            }
            outcome = vf_mix(outcome, (uint64_t)got);
            RF(fini)(&ra);
            if (vf_failed()) return;
        }
#endif
    }
#if PROP != 7
    /* box arguments that live INSIDE the region they are applied to: the region's own extents, its first rectangle */
    if (A) {
        mbox ebox = ea.ext; uint64_t em = 0;
        for (int j = 0; j < u->gy; j++) for (int i = 0; i < u->gx; i++) if (u->X[i] >= ebox.x1 && u->X[i + 1] <= ebox.x2 && u->Y[j] >= ebox.y1 && u->Y[j + 1] <= ebox.y2) em |= (uint64_t)1 << (j * u->gx + i);
        {   FRESH_A();
            RF(reset)(&ra, RF(extents)(&ra)); vf_count_transitions(1);
            snprintf(what, sizeof what, "%s w=%d reset(r, extents(r)) A=%#llx[%s]", u->name, RW, (unsigned long long)A, N(cons_name)(A, ca));
            canon_mask(u, em, &eres); N(judge)(&ra, &eres, what); RF(fini)(&ra);
            if (vf_failed()) return; }
        {   FRESH_A(); int nr; BT *rl = RF(rectangles)(&ra, &nr); mbox fb = { rl[0].x1, rl[0].y1, rl[0].x2, rl[0].y2 }; uint64_t fm = 0;
            for (int j = 0; j < u->gy; j++) for (int i = 0; i < u->gx; i++) if (u->X[i] >= fb.x1 && u->X[i + 1] <= fb.x2 && u->Y[j] >= fb.y1 && u->Y[j + 1] <= fb.y2) fm |= (uint64_t)1 << (j * u->gx + i);
            RF(reset)(&ra, &rl[0]); vf_count_transitions(1);
            snprintf(what, sizeof what, "%s w=%d reset(r, &rectangles(r)[0]) A=%#llx[%s]", u->name, RW, (unsigned long long)A, N(cons_name)(A, ca));
            canon_mask(u, fm, &eres); N(judge)(&ra, &eres, what); RF(fini)(&ra);
            if (vf_failed()) return; }
        {   FRESH_A();
            int ret = RF(inverse)(&ra, &ra, RF(extents)(&ra)); vf_count_transitions(1);
            snprintf(what, sizeof what, "%s w=%d inverse(r, r, extents(r)) A=%#llx[%s]", u->name, RW, (unsigned long long)A, N(cons_name)(A, ca));
            canon_mask(u, em & ~A, &eres); N(expect_true)(ret, what); N(judge)(&ra, &eres, what); RF(fini)(&ra);
            if (vf_failed()) return; }
        {   FRESH_A(); RF(init)(&rd);
            int ret = RF(inverse)(&rd, &ra, RF(extents)(&ra)); vf_count_transitions(1);
            snprintf(what, sizeof what, "%s w=%d inverse(fresh, r, extents(r)) A=%#llx[%s]", u->name, RW, (unsigned long long)A, N(cons_name)(A, ca));
            canon_mask(u, em & ~A, &eres); N(expect_true)(ret, what); N(judge)(&rd, &eres, what); RF(fini)(&ra); RF(fini)(&rd);
            if (vf_failed()) return; }
    }
#endif
#if PROP == 7
    /* contains_point at every grid line and one before it */
    {
        FRESH_A();
        mreg la; N(lib_to_list)(&ra, &la);
        for (int i = 0; i < lines_x; i++) for (int dx = -1; dx <= 0; dx++)
        for (int j = 0; j < lines_y; j++) for (int dy = -1; dy <= 0; dy++) {
            int64_t px = u->X[i] + dx, py = u->Y[j] + dy;
            if (px < RMIN || px > RMAX || py < RMIN || py > RMAX) continue;
            int ci = -1, cj = -1;
            for (int k = 0; k < u->gx; k++) if (px >= u->X[k] && px < u->X[k + 1]) ci = k;
            for (int k = 0; k < u->gy; k++) if (py >= u->Y[k] && py < u->Y[k + 1]) cj = k;
            int exp = (ci >= 0 && cj >= 0) ? (int)(A >> (cj * u->gx + ci) & 1) : 0;
            BT out = { 77, 77, 77, 77 };
            int got = RF(contains_point)(&ra, (int)px, (int)py, &out); vf_count_transitions(1);
            if ((got != 0) != exp) {
                vf_violation("c07-contains_point", "%s w=%d contains_point A=%#llx[%s] (%lld,%lld): got %d expected %d", u->name, RW,
                             (unsigned long long)A, N(cons_name)(A, ca), (long long)px, (long long)py, got, exp);
                break;
            }
            if (got) {
                /* the box must be the member rectangle that holds the point */
                int found = 0;
                for (int k = 0; k < la.n; k++)
                    if (la.r[k].x1 == out.x1 && la.r[k].y1 == out.y1 && la.r[k].x2 == out.x2 && la.r[k].y2 == out.y2 &&
                        px >= out.x1 && px < out.x2 && py >= out.y1 && py < out.y2) found = 1;
                if (!found) {
                    vf_violation("c07-contains_point-box", "%s w=%d contains_point A=%#llx (%lld,%lld): returned box (%d,%d,%d,%d) is not the member rectangle holding the point",
                                 u->name, RW, (unsigned long long)A, (long long)px, (long long)py, (int)out.x1, (int)out.y1, (int)out.x2, (int)out.y2);
                    break;
                }
            }
            /* NULL box is allowed */
            if ((RF(contains_point)(&ra, (int)px, (int)py, NULL) != 0) != exp) { vf_violation("c07-contains_point", "NULL-box variant differs at (%lld,%lld) A=%#llx", (long long)px, (long long)py, (unsigned long long)A); break; }
            outcome = vf_mix(outcome, (uint64_t)got);
#if RW == 16
            /* the arguments are ints: positions outside the 16-bit coordinate range (here: the same point moved by multiples of 65536)
             * belong to no 16-bit region */
            if (exp && !vf_failed()) {
                static const int64_t wrap[6] = { 65536, -65536, 131072, -131072, 65536LL * 32767, -65536LL * 32768 };
                for (int q = 0; q < 12 && !vf_failed(); q++) {
                    int64_t qx = px + (q < 6 ? wrap[q] : 0), qy = py + (q >= 6 ? wrap[q - 6] : 0);
                    if (qx > INT32_MAX || qx < INT32_MIN || qy > INT32_MAX || qy < INT32_MIN) continue;
                    vf_count_transitions(1);
                    if (RF(contains_point)(&ra, (int)qx, (int)qy, NULL))
                        vf_violation("c07-contains_point", "%s w=16 contains_point A=%#llx[%s] (%lld,%lld): TRUE for a position outside the 16-bit coordinate range (it is (%lld,%lld) moved by a multiple of 65536)",
                                     u->name, (unsigned long long)A, N(cons_name)(A, ca), (long long)qx, (long long)qy, (long long)px, (long long)py);
                }
            }
#endif
        }
        if (!vf_failed()) {
            static const int ext[4] = { INT32_MAX, INT32_MIN, INT32_MAX - 1, INT32_MIN + 1 };
            for (int q = 0; q < 16 && !vf_failed(); q++) {
                int qx = ext[q & 3], qy = ext[q >> 2];
                int exp2 = 0;
#if RW == 32
                for (int k = 0; k < la.n; k++) if (qx >= la.r[k].x1 && qx < la.r[k].x2 && qy >= la.r[k].y1 && qy < la.r[k].y2) exp2 = 1;
#endif
                vf_count_transitions(1);
                if ((RF(contains_point)(&ra, qx, qy, NULL) != 0) != exp2)
                    vf_violation("c07-contains_point", "%s w=%d contains_point A=%#llx[%s] (%d,%d) at the int limits: got %d expected %d", u->name, RW, (unsigned long long)A, N(cons_name)(A, ca), qx, qy, !exp2, exp2);
            }
        }
        snprintf(what, sizeof what, "%s w=%d queries on A=%#llx[%s]", u->name, RW, (unsigned long long)A, N(cons_name)(A, ca));
        N(judge)(&ra, &ea, what);
        RF(fini)(&ra);
        if (vf_failed()) return;
    }
#endif
    /* translate: every delta of the universe's list; model in 64-bit, clipped to the representable range */
    for (int t = 0; t < u->ndelta; t++) {
        int dx = (int)u->delta[t][0], dy = (int)u->delta[t][1];
        FRESH_A();
        RF(translate)(&ra, dx, dy); vf_count_transitions(1);
        mbox moved[MAXR]; int nmv = 0;
        for (int k = 0; k < ea.n; k++) {
            mbox b = ea.r[k];
            b.x1 += dx; b.x2 += dx; b.y1 += dy; b.y2 += dy;
            if (b.x1 < RMIN) b.x1 = RMIN; if (b.y1 < RMIN) b.y1 = RMIN;
            if (b.x2 > RMAX) b.x2 = RMAX; if (b.y2 > RMAX) b.y2 = RMAX;
            if (b.x1 < b.x2 && b.y1 < b.y2) moved[nmv++] = b;
        }
        m_canon(moved, nmv, &eres);
        snprintf(what, sizeof what, "%s w=%d translate(%d,%d) A=%#llx[%s]", u->name, RW, dx, dy, (unsigned long long)A, N(cons_name)(A, ca));
#if PROP == 7
        {   /* C07 judges the point set after translation */
            mreg got, gc; N(lib_to_list)(&ra, &got);
            int bad = 0;
            for (int k = 0; k < got.n; k++) if (got.r[k].x1 >= got.r[k].x2 || got.r[k].y1 >= got.r[k].y2) bad = 1;
            m_canon(got.r, got.n, &gc);
            (void)bad;   /* zero-sized rectangles hold no points: they are C06's subject; here they show up through not_empty/n_rects in judge() */
            if (!m_same_list(&gc, &eres)) {
                char a[700], b[700];
                int overflow = 0;
                for (int k = 0; k < ea.n; k++) if (ea.r[k].x2 + dx > RMAX || ea.r[k].y2 + dy > RMAX || ea.r[k].x1 + dx < RMIN || ea.r[k].y1 + dy < RMIN) overflow = 1;
                const char *key = (RW == 32 && overflow) ? "c07-translate32-overflow-wraps" : "c07-translate";
                vf_violation(key, "%s: library holds %s, expected %s", what, m_str(&got, a, sizeof a), m_str(&eres, b, sizeof b));
            } else if (got.n != eres.n) {
                /* the right points, but n_rects (and the member rectangles contains_point hands out) must describe the SET: a set has one y-x-banded form */
                char a[700], b[700];
                vf_violation("c07-translate-n_rects", "%s: the library holds the right points as %d rectangles %s; n_rects of this set is %d: %s", what, got.n, m_str(&got, a, sizeof a), eres.n, m_str(&eres, b, sizeof b));
            } else N(judge)(&ra, &eres, what);
        }
#elif PROP == 6
        {
            mreg got, gc; N(lib_to_list)(&ra, &got); m_canon(got.r, got.n, &gc);
            int bad = 0;
            for (int k = 0; k < got.n; k++) if (got.r[k].x1 >= got.r[k].x2 || got.r[k].y1 >= got.r[k].y2) bad = 1;
            if (bad && m_same_list(&gc, &eres)) {
                char a[700];
                vf_violation("c06-translate-zero-size-rect", "%s: library keeps a zero-sized rectangle: %s", what, m_str(&got, a, sizeof a));
            } else if (m_same_list(&gc, &eres)) {
                /* right set (else it is C07's finding): must be canonical */
                if (!m_same_list(&got, &eres)) {
                    char a[700], b[700];
                    vf_violation("c06-translate-clamp-not-coalesced", "%s: rectangles %s, canonical form is %s", what, m_str(&got, a, sizeof a), m_str(&eres, b, sizeof b));
                } else N(judge)(&ra, &eres, what);
            }
        }
#endif
        RF(fini)(&ra);
        if (vf_failed()) return;
    }
#if PROP != 7
    /* copy (fresh, heap, self), clear */
    for (int al = 0; al < 3; al++) {
        FRESH_A(); RT *pd = al == 2 ? &ra : &rd;
        if (al == 0) RF(init)(&rd); else if (al == 1) N(construct)(u, u->checker, CONS_SORTED, &rd);
        int ret = RF(copy)(pd, &ra); vf_count_transitions(1);
        snprintf(what, sizeof what, "%s w=%d copy(al=%d) A=%#llx[%s]", u->name, RW, al, (unsigned long long)A, N(cons_name)(A, ca));
        N(expect_true)(ret, what); N(judge)(pd, &ea, what);
        if (!vf_failed() && !N(unchanged)(&ra, &ea)) vf_violation("c05-operand-modified", "%s: source changed", what);
        RF(fini)(&ra); if (al != 2) RF(fini)(&rd);
        if (vf_failed()) return;
    }
    FRESH_A(); RF(clear)(&ra); vf_count_transitions(1);
    canon_mask(u, 0, &eres);
    snprintf(what, sizeof what, "%s w=%d clear A=%#llx[%s]", u->name, RW, (unsigned long long)A, N(cons_name)(A, ca));
    N(judge)(&ra, &eres, what);
    RF(fini)(&ra);
    if (vf_failed()) return;
#endif
    vf_count_eval(1);
    if (A) vf_count_nontrivial(1);
    if (!vf_in_confirm) vf_outcome(outcome);
    if (vf_want_sample() && ea.n >= 3) {
        char a[400];
        vf_sample("%s w=%d A=%s [%s]: every grid box (intersect_rect/union_rect/inverse/reset or contains_rectangle), every grid point, %d translations",
                  u->name, RW, m_str(&ea, a, sizeof a), N(cons_name)(A, ca), u->ndelta);
    }
#undef FRESH_A
}

/* ---------- space: init_rects over all lists of <= k boxes of a box alphabet ---------- */
typedef struct { const universe *u; int nbox; BT box[64]; int maxlen; } N(ir_ctx);

static void N(ir_setup)(N(ir_ctx) *c, const universe *u, int maxlen)
{
    c->u = u; c->maxlen = maxlen; c->nbox = 0;
    /* all proper sub-boxes of the inner 3x3 block of grid lines 1..4, plus degenerate and inverted ones */
    for (int i1 = 1; i1 <= 3; i1++) for (int i2 = i1 + 1; i2 <= 4; i2++)
    for (int j1 = 1; j1 <= 3; j1++) for (int j2 = j1 + 1; j2 <= 4; j2++) {
        BT b = { (CT)u->X[i1], (CT)u->Y[j1], (CT)u->X[i2], (CT)u->Y[j2] };
        c->box[c->nbox++] = b;
    }
    BT d1 = { (CT)u->X[1], (CT)u->Y[1], (CT)u->X[1], (CT)u->Y[2] }; c->box[c->nbox++] = d1;   /* zero width */
    BT d2 = { (CT)u->X[2], (CT)u->Y[2], (CT)u->X[3], (CT)u->Y[2] }; c->box[c->nbox++] = d2;   /* zero height */
    BT d3 = { (CT)u->X[3], (CT)u->Y[1], (CT)u->X[2], (CT)u->Y[3] }; c->box[c->nbox++] = d3;   /* inverted */
}

static void N(ir_case)(uint64_t idx, void *vctx)
{
    N(ir_ctx) *c = vctx; const universe *u = c->u;
    /* idx encodes length and the list: lists of length L occupy nbox^L indices after the shorter ones */
    int L = 0; uint64_t base = 1, off = idx;
    for (L = 0; L <= c->maxlen; L++) { if (off < base) break; off -= base; base *= (uint64_t)c->nbox; }
    BT list[8]; mbox ml[8]; int nm = 0;
    char desc[400]; int dl = 0; desc[0] = 0;
    for (int k = 0; k < L; k++) {
        list[k] = c->box[off % c->nbox]; off /= c->nbox;
        dl += snprintf(desc + dl, sizeof desc - dl, "(%d,%d,%d,%d)", (int)list[k].x1, (int)list[k].y1, (int)list[k].x2, (int)list[k].y2);
        if (list[k].x1 < list[k].x2 && list[k].y1 < list[k].y2) { ml[nm].x1 = list[k].x1; ml[nm].y1 = list[k].y1; ml[nm].x2 = list[k].x2; ml[nm].y2 = list[k].y2; nm++; }
    }
    mreg exp; m_canon(ml, nm, &exp);
    RT r; int ret = RF(init_rects)(&r, list, L); vf_count_transitions(1);
    char what[500]; snprintf(what, sizeof what, "%s w=%d init_rects[%s]", u->name, RW, desc);
    N(expect_true)(ret, what);
    N(judge)(&r, &exp, what);
    RF(fini)(&r);
    vf_count_eval(1); if (exp.n > 1) vf_count_nontrivial(1);
    if (!vf_in_confirm) { uint64_t h = RW; for (int k = 0; k < exp.n; k++) h = vf_hash64(&exp.r[k], sizeof(mbox), h); vf_outcome(h); }
    if (vf_want_sample() && L == c->maxlen && exp.n >= 3) { char a[300]; vf_sample("%s -> %s", what, m_str(&exp, a, sizeof a)); }
}

/* ---------- space: sequences of operations over three region variables (hidden state) ---------- */
typedef struct { const universe *u; int depth; int nops; int ninit; } N(seq_ctx);
/* op encoding: 0..80 binop: op*27 + d*9 + s1*3 + s2 ; then unary ops */
static int N(seq_nops)(void) { return SEQ_NBIN + 9 /*copy*/ + 3 /*clear*/ + 3 * SEQ_NBOX * 2 /*union_rect, intersect_rect in place*/ + 3 * SEQ_NBOX /*inverse in place*/; }

static void N(seq_case)(uint64_t idx, void *vctx)
{
    N(seq_ctx) *c = vctx; const universe *u = c->u;
    int nops = c->nops;
    int init = (int)(idx % c->ninit); idx /= c->ninit;
    int ops[8];
    for (int k = 0; k < c->depth; k++) { ops[k] = (int)(idx % nops); idx /= nops; }
    /* initial triples */
    uint64_t M[3]; int cons[3];
    uint64_t row0 = 0, col0 = 0;
    for (int i = 1; i < u->gx - 1; i++) row0 |= (uint64_t)1 << (1 * u->gx + i);
    for (int j = 1; j < u->gy - 1; j++) col0 |= (uint64_t)1 << (j * u->gx + 1);
    uint64_t inner_all = 0; for (uint64_t k = 0; k < u->ninner; k++) inner_all |= u->inner[k];
    switch (init % 4) {
    case 0: M[0] = row0 | col0; M[1] = box_mask(u, 2, 2, 3, 3); M[2] = 0; break;
    case 1: M[0] = u->checker & inner_all; M[1] = inner_all; M[2] = row0; break;
    case 2: M[0] = 0; M[1] = 0; M[2] = u->checker & inner_all; break;
    default: M[0] = inner_all & ~(u->checker); M[1] = u->checker & inner_all; M[2] = col0; break;
    }
    int cv = init / 4;
    cons[0] = cv; cons[1] = cv + 1; cons[2] = cv + 3;
    RT R[3]; mreg e;
    char what[600]; int wl = 0;
    wl += snprintf(what, sizeof what, "%s w=%d init#%d {%#llx,%#llx,%#llx}:", u->name, RW, init, (unsigned long long)M[0], (unsigned long long)M[1], (unsigned long long)M[2]);
    for (int v = 0; v < 3; v++) N(construct)(u, M[v], cons[v], &R[v]);
    static const int bx[SEQ_NBOX][4] = { {0, 0, 2, 2}, {1, 2, 4, 3}, {2, 0, 3, 5}, {0, 0, 5, 5} };
    for (int k = 0; k < c->depth && !vf_failed(); k++) {
        int op = ops[k], ret = 1;
        if (op < SEQ_NBIN) {
            int o = op / 27, d = op / 9 % 3, s1 = op / 3 % 3, s2 = op % 3;
            uint64_t res = o == 0 ? (M[s1] | M[s2]) : o == 1 ? (M[s1] & M[s2]) : (M[s1] & ~M[s2]);
            ret = o == 0 ? RF(union)(&R[d], &R[s1], &R[s2]) : o == 1 ? RF(intersect)(&R[d], &R[s1], &R[s2]) : RF(subtract)(&R[d], &R[s1], &R[s2]);
            M[d] = res;
            wl += snprintf(what + wl, sizeof what - wl, " R%d=%s(R%d,R%d)", d, o == 0 ? "union" : o == 1 ? "intersect" : "subtract", s1, s2);
        } else if ((op -= SEQ_NBIN) < 9) {
            int d = op / 3, s = op % 3;
            ret = RF(copy)(&R[d], &R[s]); M[d] = M[s];
            wl += snprintf(what + wl, sizeof what - wl, " R%d=copy(R%d)", d, s);
        } else if ((op -= 9) < 3) {
            RF(clear)(&R[op]); M[op] = 0;
            wl += snprintf(what + wl, sizeof what - wl, " clear(R%d)", op);
        } else if ((op -= 3) < 3 * SEQ_NBOX * 2) {
            int which = op / (3 * SEQ_NBOX), d = op / SEQ_NBOX % 3, b = op % SEQ_NBOX;
            int i1 = bx[b][0], j1 = bx[b][1], i2 = bx[b][2], j2 = bx[b][3];
            if (i2 > u->gx) i2 = u->gx; if (j2 > u->gy) j2 = u->gy;
            uint64_t bm = box_mask(u, i1, j1, i2, j2);
            if (which == 0) { ret = RF(union_rect)(&R[d], &R[d], (int)u->X[i1], (int)u->Y[j1], (unsigned)(u->X[i2] - u->X[i1]), (unsigned)(u->Y[j2] - u->Y[j1])); M[d] |= bm; }
            else { ret = RF(intersect_rect)(&R[d], &R[d], (int)u->X[i1], (int)u->Y[j1], (unsigned)(u->X[i2] - u->X[i1]), (unsigned)(u->Y[j2] - u->Y[j1])); M[d] &= bm; }
            wl += snprintf(what + wl, sizeof what - wl, " R%d=%s(R%d,box%d)", d, which ? "intersect_rect" : "union_rect", d, b);
        } else {
            op -= 3 * SEQ_NBOX * 2;
            int d = op / SEQ_NBOX, b = op % SEQ_NBOX;
            int i1 = bx[b][0], j1 = bx[b][1], i2 = bx[b][2], j2 = bx[b][3];
            if (i2 > u->gx) i2 = u->gx; if (j2 > u->gy) j2 = u->gy;
            BT box = { (CT)u->X[i1], (CT)u->Y[j1], (CT)u->X[i2], (CT)u->Y[j2] };
            ret = RF(inverse)(&R[d], &R[d], &box); M[d] = box_mask(u, i1, j1, i2, j2) & ~M[d];
            wl += snprintf(what + wl, sizeof what - wl, " R%d=inverse(R%d,box%d)", d, d, b);
        }
        vf_count_transitions(1);
        N(expect_true)(ret, what);
        for (int v = 0; v < 3 && !vf_failed(); v++) { canon_mask(u, M[v], &e); N(judge)(&R[v], &e, what); }
    }
    for (int v = 0; v < 3; v++) RF(fini)(&R[v]);
    vf_count_eval(1); vf_count_nontrivial(1);
    if (!vf_in_confirm) vf_outcome(vf_mix(vf_mix(M[0], M[1]), vf_mix(M[2], RW)));
    if (vf_want_sample() && M[0] && M[1] && M[2] && M[0] != M[1]) vf_sample("%s", what);
}

/* ---------- space: 16<->32 conversion of every region ---------- */
