/* C05 / C06 / C07 — regions.  Compiled three times with -DPROP=5|6|7.
 *
 * Model: a region is a set of integer points; on a finite *universe* (a grid of
 * coordinate lines) it is a bitmask of grid cells.  canon_mask()/m_canon() compute the unique
 * y-x banded rectangle list.  Engine E2, "depth 1 from everywhere" (every pair of masks of
 * the universe × constructions × aliasing × operations) plus "depth k from init"
 * (all operation sequences over three region variables).
 */
#include "vf.h"
#include <pixman.h>
#include <limits.h>

#ifndef PROP
#error "PROP must be 5, 6 or 7"
#endif

#define MAXR 160

typedef struct { int64_t x1, y1, x2, y2; } mbox;
typedef struct { int n; mbox r[MAXR]; mbox ext; } mreg;

static int cmp_i64(const void *a, const void *b) { int64_t x = *(const int64_t *)a, y = *(const int64_t *)b; return x < y ? -1 : x > y; }

/* canonical y-x banded form of the union of arbitrary rectangles (coordinate compression) */
static void m_canon(const mbox *in, int n, mreg *out)
{
    int64_t xs[2 * MAXR + 2], ys[2 * MAXR + 2]; int nx = 0, ny = 0;
    memset(out, 0, sizeof *out);
    if (n > MAXR) n = MAXR;
    for (int i = 0; i < n; i++) {
        if (in[i].x1 >= in[i].x2 || in[i].y1 >= in[i].y2) continue;
        xs[nx++] = in[i].x1; xs[nx++] = in[i].x2; ys[ny++] = in[i].y1; ys[ny++] = in[i].y2;
    }
    if (!nx) return;
    qsort(xs, nx, sizeof xs[0], cmp_i64); qsort(ys, ny, sizeof ys[0], cmp_i64);
    int k = 0; for (int i = 0; i < nx; i++) if (!k || xs[k - 1] != xs[i]) xs[k++] = xs[i]; nx = k;
    k = 0; for (int i = 0; i < ny; i++) if (!k || ys[k - 1] != ys[i]) ys[k++] = ys[i]; ny = k;
    int prev_start = -1, prev_n = 0;
    for (int j = 0; j + 1 < ny; j++) {
        int start = out->n, cnt = 0; int inrun = 0;
        for (int i = 0; i + 1 < nx; i++) {
            int occ = 0;
            for (int q = 0; q < n && !occ; q++)
                if (in[q].x1 < in[q].x2 && in[q].y1 < in[q].y2 && in[q].x1 <= xs[i] && xs[i] < in[q].x2 && in[q].y1 <= ys[j] && ys[j] < in[q].y2) occ = 1;
            if (occ) {
                if (inrun) out->r[out->n - 1].x2 = xs[i + 1];
                else if (out->n < MAXR) { mbox b = { xs[i], ys[j], xs[i + 1], ys[j + 1] }; out->r[out->n++] = b; cnt++; inrun = 1; }
            } else inrun = 0;
        }
        if (cnt == 0) { prev_start = -1; prev_n = 0; continue; }
        /* merge with previous band if adjacent and identical spans */
        int merged = 0;
        if (prev_start >= 0 && prev_n == cnt && out->r[prev_start].y2 == ys[j]) {
            int same = 1;
            for (int q = 0; q < cnt; q++) if (out->r[prev_start + q].x1 != out->r[start + q].x1 || out->r[prev_start + q].x2 != out->r[start + q].x2) same = 0;
            if (same) { for (int q = 0; q < cnt; q++) out->r[prev_start + q].y2 = ys[j + 1]; out->n = start; merged = 1; }
        }
        if (!merged) { prev_start = start; prev_n = cnt; }
    }
    if (out->n) {
        out->ext = out->r[0];
        for (int i = 1; i < out->n; i++) {
            if (out->r[i].x1 < out->ext.x1) out->ext.x1 = out->r[i].x1;
            if (out->r[i].x2 > out->ext.x2) out->ext.x2 = out->r[i].x2;
            if (out->r[i].y1 < out->ext.y1) out->ext.y1 = out->r[i].y1;
            if (out->r[i].y2 > out->ext.y2) out->ext.y2 = out->r[i].y2;
        }
    }
}

static int m_same_list(const mreg *a, const mreg *b)
{
    if (a->n != b->n) return 0;
    for (int i = 0; i < a->n; i++) if (memcmp(&a->r[i], &b->r[i], sizeof(mbox))) return 0;
    return 1;
}

static const char *m_str(const mreg *m, char *buf, size_t cap)
{
    size_t l = 0; l += snprintf(buf + l, cap - l, "{");
    for (int i = 0; i < m->n && l + 60 < cap; i++)
        l += snprintf(buf + l, cap - l, "%s[%lld,%lld,%lld,%lld]", i ? " " : "", (long long)m->r[i].x1, (long long)m->r[i].y1, (long long)m->r[i].x2, (long long)m->r[i].y2);
    snprintf(buf + l, cap - l, "}");
    return buf;
}

/* ---------- universes ---------- */
typedef struct {
    char name[48];
    int gx, gy;                 /* full grid size in cells (inner + ring) */
    int64_t X[10], Y[10];       /* gx+1, gy+1 grid lines */
    uint64_t ninner;            /* number of enumerated masks */
    uint64_t *inner;            /* inner mask index -> full-grid mask */
    uint64_t checker;
    int ndelta; int64_t delta[40][2];
} universe;

static uint64_t box_mask(const universe *u, int i1, int j1, int i2, int j2)
{
    uint64_t m = 0;
    for (int j = j1; j < j2; j++) for (int i = i1; i < i2; i++) m |= (uint64_t)1 << (j * u->gx + i);
    return m;
}

static void canon_mask(const universe *u, uint64_t mask, mreg *out)
{
    /* direct banding on the grid (fast path of m_canon; cross-checked against it at start-up) */
    out->n = 0;
    int prev_start = -1, prev_n = 0;
    for (int j = 0; j < u->gy; j++) {
        int start = out->n, cnt = 0, inrun = 0;
        for (int i = 0; i < u->gx; i++) {
            if (mask >> (j * u->gx + i) & 1) {
                if (inrun) out->r[out->n - 1].x2 = u->X[i + 1];
                else { mbox b = { u->X[i], u->Y[j], u->X[i + 1], u->Y[j + 1] }; out->r[out->n++] = b; cnt++; inrun = 1; }
            } else inrun = 0;
        }
        if (!cnt) { prev_start = -1; prev_n = 0; continue; }
        int merged = 0;
        if (prev_start >= 0 && prev_n == cnt) {
            int same = 1;
            for (int q = 0; q < cnt; q++) if (out->r[prev_start + q].x1 != out->r[start + q].x1 || out->r[prev_start + q].x2 != out->r[start + q].x2) same = 0;
            if (same) { for (int q = 0; q < cnt; q++) out->r[prev_start + q].y2 = u->Y[j + 1]; out->n = start; merged = 1; }
        }
        if (!merged) { prev_start = start; prev_n = cnt; }
    }
    memset(&out->ext, 0, sizeof out->ext);
    if (out->n) {
        out->ext = out->r[0];
        for (int i = 1; i < out->n; i++) {
            if (out->r[i].x1 < out->ext.x1) out->ext.x1 = out->r[i].x1;
            if (out->r[i].x2 > out->ext.x2) out->ext.x2 = out->r[i].x2;
            if (out->r[i].y1 < out->ext.y1) out->ext.y1 = out->r[i].y1;
            if (out->r[i].y2 > out->ext.y2) out->ext.y2 = out->r[i].y2;
        }
    }
}

enum { MAP_SMALL, MAP_NEG, MAP_EXTREME, MAP_EXTREME_LO, MAP_EXTREME_HI };   /* _LO/_HI: the enumerated block of cells touches the minimum / maximum coordinate itself */

static universe *make_universe(int ix, int iy, int map, int bits)
{
    universe *u = calloc(1, sizeof *u);
    int64_t MIN = bits == 16 ? INT16_MIN : INT32_MIN, MAX = bits == 16 ? INT16_MAX : INT32_MAX;
    u->gx = ix + 2; u->gy = iy + 2;
    static const char *mn[] = { "small", "neg", "extreme", "extreme-lo", "extreme-hi" };
    int off = map == MAP_EXTREME_LO ? 0 : map == MAP_EXTREME_HI ? 2 : 1;
    snprintf(u->name, sizeof u->name, "%dx%d/%s", ix, iy, mn[map]);
    for (int a = 0; a < 2; a++) {
        int g = a ? u->gy : u->gx; int64_t *L = a ? u->Y : u->X;
        for (int i = 0; i <= g; i++) {
            if (map == MAP_SMALL) { static const int64_t v[] = { 0, 1, 3, 4, 8, 9, 20, 21, 30 }; L[i] = v[i] + (a ? 2 : 0); }
            else if (map == MAP_NEG) { static const int64_t v[] = { -7, -5, -4, -1, 0, 2, 3, 10, 11 }; L[i] = v[i] - (a ? 3 : 0) + (g - 4) * 0; }
            else {
                /* MIN, MIN+1, ..., MAX-1, MAX with the middle lines around 0 */
                if (i == 0) L[i] = MIN; else if (i == 1) L[i] = MIN + 1; else if (i == g) L[i] = MAX; else if (i == g - 1) L[i] = MAX - 1;
                else L[i] = (int64_t)(i - 2) * 2 - 1 - (a ? 1 : 0);
            }
        }
    }
    u->ninner = (uint64_t)1 << (ix * iy);
    u->inner = malloc(sizeof(uint64_t) * u->ninner);
    for (uint64_t m = 0; m < u->ninner; m++) {
        uint64_t f = 0;
        for (int j = 0; j < iy; j++) for (int i = 0; i < ix; i++) if (m >> (j * ix + i) & 1) f |= (uint64_t)1 << ((j + off) * u->gx + (i + off));
        u->inner[m] = f;
    }
    for (int j = 0; j < u->gy; j++) for (int i = 0; i < u->gx; i++) if ((i + j) & 1) u->checker |= (uint64_t)1 << (j * u->gx + i);
    /* translations: small ones, ones that push part / all of the region over either limit, and the extremes */
    int64_t span = MAX - MIN;
    int64_t d[] = { 0, 1, -1, 5, MAX - u->X[u->gx - 1], MAX - u->X[u->gx - 1] + 1, MAX - u->X[2], MAX - u->X[1] + 3, MIN - u->X[1], MIN - u->X[1] - 1,
                    MIN - u->X[u->gx - 2], MIN - u->X[u->gx - 1] - 2, MAX, MIN };
    (void)span;
    int nd = 0;
    for (unsigned a = 0; a < sizeof d / sizeof d[0]; a++) {
        int64_t v = d[a]; if (v > INT32_MAX) v = INT32_MAX; if (v < INT32_MIN) v = INT32_MIN;
        /* x-only, y-only and diagonal use of each delta */
        if (nd < 38) { u->delta[nd][0] = v; u->delta[nd][1] = 0; nd++; }
        if (a >= 1 && nd < 38) { u->delta[nd][0] = 0; u->delta[nd][1] = v + (u->X[1] - u->Y[1]) * 0; nd++; }
        if (a >= 4 && (a & 1) && nd < 38) { u->delta[nd][0] = v; u->delta[nd][1] = v; nd++; }
    }
    u->ndelta = nd;
    /* self-check of the fast canonicaliser against the generic one */
    for (uint64_t m = 0; m < u->ninner; m += (u->ninner > 4096 ? 37 : 1)) {
        mreg a, b; mbox cells[64]; int n = 0;
        for (int j = 0; j < u->gy; j++) for (int i = 0; i < u->gx; i++) if (u->inner[m] >> (j * u->gx + i) & 1) { mbox c = { u->X[i], u->Y[j], u->X[i + 1], u->Y[j + 1] }; cells[n++] = c; }
        canon_mask(u, u->inner[m], &a); m_canon(cells, n, &b);
        if (!m_same_list(&a, &b)) { fprintf(stderr, "model self-check failed\n"); exit(2); }
    }
    return u;
}

enum { CONS_SORTED, CONS_REVERSED, CONS_INTERLEAVED, CONS_UNION_RECT, CONS_OVERSIZED, N_CONS };
enum { EC_INIT, EC_CLEAR, EC_DISJOINT, EC_SELFSUB, EC_TRANSLATE, N_ECONS };
#define SEQ_NBIN 81
#define SEQ_NBOX 4

/* ---------- instantiate the body for both widths ---------- */
pixman_bool_t pixman_region32_copy_from_region16(pixman_region32_t *dst, pixman_region16_t *src);
pixman_bool_t pixman_region16_copy_from_region32(pixman_region16_t *dst, pixman_region32_t *src);

#define pixman_region_data_t pixman_region16_data_t
#define RW 16
#define RT pixman_region16_t
#define BT pixman_box16_t
#define CT int16_t
#define RF(n) pixman_region_##n
#define N(n) r16_##n
#define RMIN INT16_MIN
#define RMAX INT16_MAX
#include "regions_body.h"
#undef RW
#undef RT
#undef BT
#undef CT
#undef RF
#undef N
#undef RMIN
#undef RMAX

#define RW 32
#define RT pixman_region32_t
#define BT pixman_box32_t
#define CT int32_t
#define RF(n) pixman_region32_##n
#define N(n) r32_##n
#define RMIN INT32_MIN
#define RMAX INT32_MAX
#include "regions_body.h"

/* ---------- conversions (C05) ---------- */
typedef struct { const universe *u16; } conv_ctx;
static void conv_case(uint64_t idx, void *vctx)
{
    conv_ctx *c = vctx; const universe *u = c->u16;
    uint64_t ia = idx % u->ninner; int cons = (int)(idx / u->ninner);
    uint64_t A = u->inner[ia];
    mreg ea; canon_mask(u, A, &ea);
    char what[300];
    pixman_region16_t r16; pixman_region32_t r32, back32; pixman_region16_t back16;
    r16_construct(u, A, cons, &r16);
    /* 16 -> 32 into a fresh and into a non-empty heap region */
    for (int al = 0; al < 2; al++) {
        if (al) r32_construct(u, u->checker, CONS_SORTED, &r32); else pixman_region32_init(&r32);
        int ret = pixman_region32_copy_from_region16(&r32, &r16); vf_count_transitions(1);
        snprintf(what, sizeof what, "%s region32_copy_from_region16(al=%d) A=%#llx[%s]", u->name, al, (unsigned long long)A, r16_cons_name(A, cons));
        r32_expect_true(ret, what); r32_judge(&r32, &ea, what);
        /* and back */
        if (al) r16_construct(u, u->checker, CONS_REVERSED, &back16); else pixman_region_init(&back16);
        ret = pixman_region16_copy_from_region32(&back16, &r32); vf_count_transitions(1);
        snprintf(what, sizeof what, "%s region16_copy_from_region32(al=%d) A=%#llx[%s]", u->name, al, (unsigned long long)A, r16_cons_name(A, cons));
        r16_expect_true(ret, what); r16_judge(&back16, &ea, what);
        pixman_region32_fini(&r32); pixman_region_fini(&back16);
        if (vf_failed()) break;
    }
    (void)back32;
    pixman_region_fini(&r16);
    vf_count_eval(1); if (A) vf_count_nontrivial(1);
    if (!vf_in_confirm) vf_outcome(vf_mix(A, 1632));
}

static void conv_big_case(uint64_t idx, void *vctx)
{
    conv_ctx *c = vctx; const universe *u = c->u16;
    uint64_t full = box_mask(u, 0, 0, u->gx, u->gy);
    uint64_t A = (idx & 1) ? (full & ~u->checker) : u->checker; int cons = (int)(idx >> 1);
    mreg ea; canon_mask(u, A, &ea);
    char what[300];
    pixman_region16_t r16, back16; pixman_region32_t r32;
    r16_construct(u, A, cons, &r16); pixman_region32_init(&r32); pixman_region_init(&back16);
    int ret = pixman_region32_copy_from_region16(&r32, &r16); vf_count_transitions(1);
    snprintf(what, sizeof what, "%s region32_copy_from_region16 of the %d-rectangle checkerboard %#llx[%s]", u->name, ea.n, (unsigned long long)A, r16_cons_name(A, cons));
    r32_expect_true(ret, what); r32_judge(&r32, &ea, what);
    ret = pixman_region16_copy_from_region32(&back16, &r32); vf_count_transitions(1);
    snprintf(what, sizeof what, "%s region16_copy_from_region32 of the %d-rectangle checkerboard %#llx[%s]", u->name, ea.n, (unsigned long long)A, r16_cons_name(A, cons));
    r16_expect_true(ret, what); r16_judge(&back16, &ea, what);
    pixman_region32_fini(&r32); pixman_region_fini(&back16); pixman_region_fini(&r16);
    vf_count_eval(1); vf_count_nontrivial(1);
    if (!vf_in_confirm) vf_outcome(vf_mix(A, 3216));
}

/* ---------- bands of many rectangles (C07): combs ----------
 * The universes hold at most four rectangles per band.  A comb: a cap [0, 4n) x [0,1), `gap` empty rows, a band of n teeth [4i, 4i+2) x [1+gap, 3+gap),
 * optionally a second band of n/2 wider teeth below.  contains_point at every grid point around and inside it, contains_rectangle for a family of
 * rectangles, for both coordinate widths; n runs across 16 / 17 / 32 / 33 (any internal switch from a linear walk to a search inside a band). */
typedef struct { int n, gap, second; } comb_t;
static int comb_has(const comb_t *c, int x, int y)
{
    int W = 4 * c->n;
    if (y == 0) return x >= 0 && x < W;
    int t0 = 1 + c->gap;
    if (y >= t0 && y < t0 + 2) return x >= 0 && x < W && (x % 4) < 2;
    if (c->second && y >= t0 + 2 && y < t0 + 3) return x >= 0 && x < W && (x % 8) < 5;
    return 0;
}
static void comb_case(uint64_t idx, void *vctx)
{
    (void)vctx;
    static const int NS[8] = { 3, 15, 16, 17, 18, 32, 33, 70 };
    comb_t c = { NS[idx % 8], (int)(idx / 8 % 3), (int)(idx / 24 % 2) };
    int wbits = (idx / 48) ? 32 : 16;
    int W = 4 * c.n, t0 = 1 + c.gap, nb = 0;
    static pixman_box32_t b32[200]; static pixman_box16_t b16[200];
    b32[nb++] = (pixman_box32_t){ 0, 0, W, 1 };
    for (int i = 0; i < c.n; i++) b32[nb++] = (pixman_box32_t){ 4 * i, t0, 4 * i + 2, t0 + 2 };
    if (c.second) for (int i = 0; i < (c.n + 1) / 2; i++) { int x2 = 8 * i + 5 > W ? W : 8 * i + 5; b32[nb++] = (pixman_box32_t){ 8 * i, t0 + 2, x2, t0 + 3 }; }
    for (int i = 0; i < nb; i++) b16[i] = (pixman_box16_t){ (int16_t)b32[i].x1, (int16_t)b32[i].y1, (int16_t)b32[i].x2, (int16_t)b32[i].y2 };
    pixman_region32_t r32; pixman_region16_t r16; int ok;
    if (wbits == 32) ok = pixman_region32_init_rects(&r32, b32, nb); else ok = pixman_region_init_rects(&r16, b16, nb);
    vf_count_transitions(1);
    if (!ok) { vf_violation("c05-returned-false", "comb n=%d: init_rects returned FALSE", c.n); return; }
    char what[160]; snprintf(what, sizeof what, "comb w=%d: cap [0,%d)x[0,1), %d empty row(s), %d teeth [4i,4i+2)x[%d,%d)%s", wbits, W, c.gap, c.n, t0, t0 + 2, c.second ? ", second band of wider teeth" : "");
    uint64_t nq = 0;
    for (int y = -1; y <= t0 + 4 && !vf_failed(); y++) for (int x = -1; x <= W + 1; x++) {
        int want = comb_has(&c, x, y), got; pixman_box32_t bx = { 0, 0, 0, 0 };
        if (wbits == 32) got = pixman_region32_contains_point(&r32, x, y, &bx);
        else { pixman_box16_t b; memset(&b, 0, sizeof b); got = pixman_region_contains_point(&r16, x, y, &b); bx = (pixman_box32_t){ b.x1, b.y1, b.x2, b.y2 }; }
        nq++;
        if ((got != 0) != want) { vf_violation("c07-contains_point", "%s: contains_point(%d,%d) = %d, the point is %s the set", what, x, y, got, want ? "in" : "not in"); break; }
        if (got && !(x >= bx.x1 && x < bx.x2 && y >= bx.y1 && y < bx.y2)) { vf_violation("c07-contains_point-box", "%s: contains_point(%d,%d) returned the rectangle [%d,%d,%d,%d], which does not hold the point", what, x, y, bx.x1, bx.y1, bx.x2, bx.y2); break; }
    }
    /* rectangles: every (x1, width in {1,2,3,5}, y1, height in {1,2}) */
    static const int RWd[4] = { 1, 2, 3, 5 };
    for (int y1 = -1; y1 <= t0 + 3 && !vf_failed(); y1++) for (int hh = 1; hh <= 2; hh++) for (int x1 = -1; x1 <= W && !vf_failed(); x1++) for (int wi = 0; wi < 4; wi++) {
        int in = 0, out = 0;
        for (int y = y1; y < y1 + hh; y++) for (int x = x1; x < x1 + RWd[wi]; x++) { if (comb_has(&c, x, y)) in++; else out++; }
        int want = !in ? PIXMAN_REGION_OUT : !out ? PIXMAN_REGION_IN : PIXMAN_REGION_PART, got;
        if (wbits == 32) { pixman_box32_t q = { x1, y1, x1 + RWd[wi], y1 + hh }; got = (int)pixman_region32_contains_rectangle(&r32, &q); }
        else { pixman_box16_t q = { (int16_t)x1, (int16_t)y1, (int16_t)(x1 + RWd[wi]), (int16_t)(y1 + hh) }; got = (int)pixman_region_contains_rectangle(&r16, &q); }
        nq++;
        if (got != want) { vf_violation("c07-contains_rectangle", "%s: contains_rectangle([%d,%d,%d,%d]) = %d, expected %d (0 OUT, 1 IN, 2 PART)", what, x1, y1, x1 + RWd[wi], y1 + hh, got, want); break; }
    }
    vf_count_transitions(nq); vf_count_eval(1); vf_count_nontrivial(1);
    if (!vf_in_confirm) vf_outcome(idx);
    if (wbits == 32) pixman_region32_fini(&r32); else pixman_region_fini(&r16);
}

/* ---------- init_from_image (C07): every a1 bitmap of the shape list ---------- */
typedef struct { int w, h; int nfree; int freecol[20]; int zero_padding; /* bits beyond the width and the padding word: all ones (0), all zeros (1), or a pattern that differs from row to row (2); none of them are pixels */ } img_ctx;

static void img_case(uint64_t idx, void *vctx)
{
    img_ctx *c = vctx;
    int w = c->w, h = c->h;
    int stride_words = (w + 31) / 32 + 1;             /* one padding word, filled with 1s: must be ignored */
    uint32_t *bits = malloc(sizeof(uint32_t) * stride_words * h);
    for (int i = 0; i < stride_words * h; i++) bits[i] = 0;
    for (int y = 0; y < h; y++) bits[y * stride_words + stride_words - 1] = c->zero_padding == 2 ? 0x5a5a5a5au ^ (uint32_t)y * 0x11111111u : c->zero_padding ? 0 : 0xffffffffu;
    /* bits beyond width inside the last used word are also set: they are not pixels */
    mbox cells[MAXR]; int n = 0;
    for (int y = 0; y < h; y++) {
        if (!c->zero_padding) for (int x = w; x < ((w + 31) / 32) * 32; x++) bits[y * stride_words + x / 32] |= 1u << (x & 31);
        if (c->zero_padding == 2) for (int x = w; x < ((w + 31) / 32) * 32; x++) if ((x + y + (x - w) / 3) & 1) bits[y * stride_words + x / 32] |= 1u << (x & 31);      /* neither: a pattern that differs from row to row */
        for (int k = 0; k < c->nfree; k++) {
            int x = c->freecol[k];
            int bit = (int)(idx >> (y * c->nfree + k) & 1);
            if (bit) { bits[y * stride_words + x / 32] |= 1u << (x & 31); if (n < MAXR) { mbox b = { x, y, x + 1, y + 1 }; cells[n++] = b; } }
            else bits[y * stride_words + x / 32] &= ~(1u << (x & 31));
        }
    }
    /* non-free columns: a fixed pattern (runs crossing word boundaries) */
    for (int y = 0; y < h; y++) for (int x = 0; x < w; x++) {
        int isfree = 0; for (int k = 0; k < c->nfree; k++) if (c->freecol[k] == x) isfree = 1;
        if (isfree) continue;
        int bit = ((x / 3 + y) % 2 == 0) && (x % 11 != 5);
        if (w <= 8) bit = 0;
        if (bit) { bits[y * stride_words + x / 32] |= 1u << (x & 31); if (n < MAXR) { mbox b = { x, y, x + 1, y + 1 }; cells[n++] = b; } }
    }
    mreg exp; m_canon(cells, n, &exp);
    pixman_image_t *img = pixman_image_create_bits(PIXMAN_a1, w, h, bits, stride_words * 4);
    char what[200];
    for (int wbits = 16; wbits <= 32; wbits += 16) {
        snprintf(what, sizeof what, "init_from_image w=%d %dx%d bitmap#%llu (bits beyond the width: %s)", wbits, w, h, (unsigned long long)idx, c->zero_padding == 2 ? "a pattern that differs from row to row" : c->zero_padding ? "zeros" : "ones");
        if (wbits == 16) {
            pixman_region16_t r; pixman_region_init_from_image(&r, img); vf_count_transitions(1);
#if PROP == 7
            { mreg got, gc; r16_lib_to_list(&r, &got); m_canon(got.r, got.n, &gc);
              if (!m_same_list(&gc, &exp)) { char a[700], b[700]; vf_violation("c07-init_from_image", "%s: library holds %s, set bits are %s", what, m_str(&got, a, sizeof a), m_str(&exp, b, sizeof b)); } }
#endif
            r16_judge(&r, &exp, what);
            pixman_region_fini(&r);
        } else {
            pixman_region32_t r; pixman_region32_init_from_image(&r, img); vf_count_transitions(1);
#if PROP == 7
            { mreg got, gc; r32_lib_to_list(&r, &got); m_canon(got.r, got.n, &gc);
              if (!m_same_list(&gc, &exp)) { char a[700], b[700]; vf_violation("c07-init_from_image", "%s: library holds %s, set bits are %s", what, m_str(&got, a, sizeof a), m_str(&exp, b, sizeof b)); } }
#endif
            r32_judge(&r, &exp, what);
            pixman_region32_fini(&r);
        }
        if (vf_failed()) break;
    }
    pixman_image_unref(img);
    free(bits);
    vf_count_eval(1); if (exp.n > 1) vf_count_nontrivial(1);
    if (!vf_in_confirm) { uint64_t hh = 99; for (int k = 0; k < exp.n; k++) hh = vf_hash64(&exp.r[k], sizeof(mbox), hh); vf_outcome(hh); }
    if (vf_want_sample() && exp.n >= 4) { char a[400]; vf_sample("%s -> %s", what, m_str(&exp, a, sizeof a)); }
}

int main(int argc, char **argv)
{
    char pid[8]; snprintf(pid, sizeof pid, "C%02d", PROP);
    vf_init(argc, argv, strdup(pid), "model_checking");
#if PROP == 7
    vf_quick_is_deep();      /* C07's thorough universes take half a minute: the quick tier uses them too */
#endif
    { pixman_region16_t e16; pixman_region_init(&e16); r16_empty_data = e16.data; pixman_region32_t e32; pixman_region32_init(&e32); r32_empty_data = e32.data; }
    int th = vf_is_thorough();
    vf_rule = "E2 explicit-state exploration of region states: a state is a point set of a finite grid universe (bitmask of cells) plus its construction "
              "history class; depth-1-from-everywhere = every mask (pair of masks) x every construction x every operation/aliasing pattern/box/point/translation; "
              "depth-k-from-init = every operation sequence over three region variables. states = cases (mask tuples x constructions), transitions = library calls judged. "
              "non-trivial = result differs from both operands and from empty (pairs), non-empty region (unary), multi-rectangle result (init_rects/image), every sequence.";
    vf_assume("reference canonicaliser m_canon()/canon_mask() is correct (the two are cross-checked against each other at start-up)");
    vf_assume("regions larger than the universes (more than ~20 rectangles, coordinates other than the grid lines) are not explored");
    vf_assume("library built from /repo working tree with gcc -O2; DEBUG off so GOOD()/selfcheck are not run by the library itself");

    /* universes; 16- and 32-bit each get their own coordinate limits */
    struct { int ix, iy, map; int qp, qu, tp, tu; } us[] = {   /* constructions used for pairs/unary in quick/thorough; 0 = space skipped */
        { 3, 3, MAP_SMALL,   3, N_CONS, N_CONS, N_CONS },
        { 3, 3, MAP_EXTREME, 2, N_CONS, N_CONS, N_CONS },
        { 3, 3, MAP_NEG,     1, 2,      N_CONS, N_CONS },
        { 3, 3, MAP_EXTREME_LO, 1, N_CONS, 2,   N_CONS },
        { 3, 3, MAP_EXTREME_HI, 1, N_CONS, 2,   N_CONS },
        { 4, 2, MAP_NEG,     2, N_CONS, N_CONS, N_CONS },
        { 2, 4, MAP_SMALL,   2, N_CONS, N_CONS, N_CONS },
        { 4, 3, MAP_SMALL,   0, 2,      2,      N_CONS },
        { 3, 4, MAP_EXTREME, 0, 0,      1,      N_CONS },
        { 4, 3, MAP_EXTREME, 0, 0,      1,      N_CONS },
        { 4, 4, MAP_SMALL,   0, 0,      0,      2 },
    };
    for (unsigned k = 0; k < sizeof us / sizeof us[0]; k++) {
        for (int bits = 16; bits <= 32; bits += 16) {
            int pc = th ? us[k].tp : us[k].qp, uc = th ? us[k].tu : us[k].qu;
#if PROP == 7
            pc = 0;   /* C07 is about queries / translate / import: the unary spaces (cheap, so quick uses the thorough table) */
            uc = us[k].tu; if (!th && us[k].ix * us[k].iy > 12) uc = 0;
#endif
            if (!pc && !uc) continue;
            universe *u = make_universe(us[k].ix, us[k].iy, us[k].map, bits);
            char nm[64];
            if (pc) {
                snprintf(nm, sizeof nm, "pairs%d-%s", bits, u->name);
                if (bits == 16) { r16_pairs_ctx c = { u, pc, 0 }; vf_space_run(nm, u->ninner * u->ninner * pc * pc, r16_pairs_case, &c); }
                else { r32_pairs_ctx c = { u, pc, 0 }; vf_space_run(nm, u->ninner * u->ninner * pc * pc, r32_pairs_case, &c); }
            }
            if (uc) {
                snprintf(nm, sizeof nm, "unary%d-%s", bits, u->name);
                if (bits == 16) { r16_unary_ctx c = { u, uc }; vf_space_run(nm, u->ninner * uc, r16_unary_case, &c); }
                else { r32_unary_ctx c = { u, uc }; vf_space_run(nm, u->ninner * uc, r32_unary_case, &c); }
                vf_count_states(u->ninner * uc);
            }
        }
    }
#if PROP != 7
    /* init_rects: all lists of <= L boxes */
    for (int bits = 16; bits <= 32; bits += 16) {
        universe *u = make_universe(3, 3, bits == 16 ? MAP_SMALL : MAP_EXTREME, bits);
        int L = th ? 4 : 3;
        char nm[64]; snprintf(nm, sizeof nm, "init_rects%d-len<=%d", bits, L);
        uint64_t total = 0, p = 1;
        if (bits == 16) { r16_ir_ctx c; r16_ir_setup(&c, u, L); for (int l = 0; l <= L; l++) { total += p; p *= c.nbox; } vf_space_run(nm, total, r16_ir_case, &c); }
        else { r32_ir_ctx c; r32_ir_setup(&c, u, L); for (int l = 0; l <= L; l++) { total += p; p *= c.nbox; } vf_space_run(nm, total, r32_ir_case, &c); }
    }
    /* sequences from init */
    for (int bits = 16; bits <= 32; bits += 16) {
        universe *u = make_universe(3, 3, bits == 16 ? MAP_NEG : MAP_SMALL, bits);
        int depth = 3;
        int ninit = th ? 4 * N_CONS : 4;
        char nm[64]; snprintf(nm, sizeof nm, "seq%d-depth%d", bits, depth);
        if (bits == 16) { r16_seq_ctx c = { u, depth, r16_seq_nops(), ninit }; uint64_t n = ninit; for (int k = 0; k < depth; k++) n *= c.nops; vf_space_run(nm, n, r16_seq_case, &c); }
        else { r32_seq_ctx c = { u, depth, r32_seq_nops(), ninit }; uint64_t n = ninit; for (int k = 0; k < depth; k++) n *= c.nops; vf_space_run(nm, n, r32_seq_case, &c); }
    }
#endif
#if PROP == 5
    { universe *u = make_universe(3, 3, MAP_NEG, 16); conv_ctx c = { u }; vf_space_run("convert16<->32-3x3/neg", u->ninner * N_CONS, conv_case, &c);
      universe *u2 = make_universe(4, 3, MAP_EXTREME, 16); conv_ctx c2 = { u2 }; vf_space_run("convert16<->32-4x3/extreme16", u2->ninner * 2, conv_case, &c2);
      /* regions that touch the smallest / largest 16-bit coordinate itself */
      universe *u3 = make_universe(3, 3, MAP_EXTREME_LO, 16); conv_ctx c3 = { u3 }; vf_space_run("convert16<->32-3x3/extreme16-lo", u3->ninner * N_CONS, conv_case, &c3);
      universe *u4 = make_universe(3, 3, MAP_EXTREME_HI, 16); conv_ctx c4 = { u4 }; vf_space_run("convert16<->32-3x3/extreme16-hi", u4->ninner * N_CONS, conv_case, &c4);
      /* more rectangles than the conversion's on-stack buffer (16): the 6x6 checkerboard and its complement */
      universe *u5 = make_universe(4, 4, MAP_NEG, 16); conv_ctx c5 = { u5 }; vf_space_run("convert16<->32-6x6-checker", 2 * N_CONS, conv_big_case, &c5); }
#endif
#if PROP == 7
    vf_space_run("combs-bands-of-many-rectangles", 8 * 3 * 2 * 2, comb_case, NULL);
#endif
#if PROP != 5
    {   /* a1 bitmaps: all bitmaps of small shapes; wide shapes with free bits at the word-boundary columns */
        struct { int w, h; } small[] = { {1,1},{2,2},{3,3},{4,4},{5,3},{3,5},{2,8},{8,2},{6,3},{1,16},{16,1},{18,1},{9,2} };
        for (unsigned k = 0; k < sizeof small / sizeof small[0]; k++) {
            if (!th && small[k].w * small[k].h > 16) continue;
            for (int zp = 0; zp < 3; zp++) {
                img_ctx c; c.w = small[k].w; c.h = small[k].h; c.nfree = c.w; for (int i = 0; i < c.w; i++) c.freecol[i] = i; c.zero_padding = zp;
                char nm[64]; snprintf(nm, sizeof nm, "a1-bitmaps-%dx%d%s", c.w, c.h, zp == 2 ? "-mixed-padding" : zp ? "-zero-padding" : "");
                vf_space_run(nm, (uint64_t)1 << (c.w * c.h), img_case, &c);
            }
        }
        int wide[] = { 31, 32, 33, 63, 64, 65, 96, 97 };
        for (unsigned k = 0; k < sizeof wide / sizeof wide[0]; k++) {
            for (int zp = 0; zp < 3; zp++) {
            img_ctx c; c.w = wide[k]; c.h = 2; c.nfree = 0; c.zero_padding = zp;
            int cand[] = { 0, 1, 30, 31, 32, 33, 62, 63, 64, 95, 96 };
            for (unsigned q = 0; q < sizeof cand / sizeof cand[0]; q++) if (cand[q] < c.w && c.nfree < (th ? 10 : 8)) c.freecol[c.nfree++] = cand[q];
            /* always make the last column free */
            int haslast = 0; for (int q = 0; q < c.nfree; q++) if (c.freecol[q] == c.w - 1) haslast = 1;
            if (!haslast) c.freecol[c.nfree - 1] = c.w - 1;
            char nm[64]; snprintf(nm, sizeof nm, "a1-bitmaps-%dx%d-free%d%s", c.w, c.h, c.nfree, zp == 2 ? "-mixed-padding" : zp ? "-zero-padding" : "");
            vf_space_run(nm, (uint64_t)1 << (c.nfree * c.h), img_case, &c);
            }
        }
    }
#endif
    vf_bounds = th ? "universes 3x3(small,neg,extreme) 4x2 2x4 4x3(small,extreme) 3x4 4x4, 16- and 32-bit; 5 constructions (+5 for empties); 5 aliasing patterns; init_rects lists<=4 of 39 boxes; sequences depth 3 over 3 variables x 20 initial triples; a1 bitmaps up to 18 free bits"
                   : "universes 3x3(small,neg,extreme) 4x2 2x4 4x3(small), 16- and 32-bit; 5 constructions (+5 for empties); 5 aliasing patterns; init_rects lists<=3 of 39 boxes; sequences depth 3 over 3 variables x 4 initial triples; a1 bitmaps up to 16 free bits";
    return vf_finish();
}
