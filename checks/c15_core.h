/* c15_core.h — observation/oracle helpers shared by all C15 scenarios. */
#ifndef C15_CORE_H
#define C15_CORE_H

#define MAXOBS 40
typedef struct { char key[112]; void *data; size_t len; } obs_t;

typedef struct T {
    int faulted, thorough;
    const char *scname; char sched[96];
    const obs_t *base; int nbase;          /* observations of the fault-free execution (faulted mode) */
    obs_t obs[MAXOBS]; int nobs;           /* observations written by the fault-free execution */
    int n_fail_reported, n_success_despite, n_draw_old, n_draw_new, n_draw_mixed, n_windows;
    const char *key_third;                 /* key used when a drawn pixel is neither old nor new */
    const char *key_notdrawn;              /* key used when a call reported success but did not draw everything */
} T;

static T *CT;

#define V(t, key, ...) do { char m_[1500]; snprintf (m_, sizeof m_, __VA_ARGS__); \
        vf_violation (key, "[scenario %s; schedule %s] %s", (t)->scname, (t)->sched, m_); } while (0)

static long w_open (void)  { if (CT) CT->n_windows++; fi_window_open (); return fi.injected; }
static int  w_close (long f0) { fi_window_close (); return fi.injected != f0; }

static void obs_free (T *t) { for (int i = 0; i < t->nobs; i++) free (t->obs[i].data); t->nobs = 0; }

static const obs_t *obs_find (T *t, const char *key)
{
    for (int i = 0; i < t->nbase; i++) if (!strcmp (t->base[i].key, key)) return &t->base[i];
    return NULL;
}
static void obs_put (T *t, const char *key, const void *data, size_t len)
{
    if (t->nobs >= MAXOBS) { V (t, "c15-harness-obs-overflow", "too many observations"); return; }
    obs_t *o = &t->obs[t->nobs++];
    snprintf (o->key, sizeof o->key, "%s", key);
    o->data = malloc (len ? len : 1); memcpy (o->data, data, len); o->len = len;
}

/* a call that reported success must have produced what the fault-free run produced */
static void expect_same (T *t, const char *key, const void *data, size_t len, const char *what)
{
    if (!t->faulted) { obs_put (t, key, data, len); return; }
    const obs_t *o = obs_find (t, key);
    if (!o) { V (t, "c15-harness-missing-baseline", "no fault-free observation '%s'", key); return; }
    if (o->len != len || memcmp (o->data, data, len))
        V (t, "c15-success-but-wrong-result", "%s: call reported success, but %s differs from the fault-free run", key, what);
}

/* status result of one API call.  ok = it reported success; hadfault = an allocation failed inside it */
static int st (T *t, const char *key, int ok, int hadfault)
{
    if (!ok && !hadfault) V (t, "c15-spurious-failure", "%s reported failure although no allocation failed during the call", key);
    if (!ok && hadfault) t->n_fail_reported++;
    if (ok && hadfault) t->n_success_despite++;
    return ok;
}

/* ---- surfaces: harness-owned pixel buffers wrapped in a bits image ---- */
typedef struct { pixman_format_code_t fmt; int w, h, stride; size_t bytes; uint32_t *bits, *old; pixman_image_t *img; } surf_t;

static uint32_t pat (uint32_t seed, uint32_t i)
{
    uint32_t v = (i + 1) * 2654435761u ^ seed * 0x9E3779B1u; v ^= v >> 15; v *= 0x85EBCA6Bu; v ^= v >> 13; v *= 0xC2B2AE35u; v ^= v >> 16; return v;
}

static surf_t surf_new (T *t, pixman_format_code_t fmt, int w, int h, uint32_t seed)
{
    surf_t s; memset (&s, 0, sizeof s);
    int bpp = PIXMAN_FORMAT_BPP (fmt);
    s.fmt = fmt; s.w = w; s.h = h; s.stride = ((w * bpp + 31) / 32) * 4 + 4;   /* one padding word per row */
    s.bytes = (size_t) s.stride * h;
    s.bits = malloc (s.bytes); s.old = malloc (s.bytes);
    for (size_t i = 0; i < s.bytes / 4; i++) s.bits[i] = pat (seed, (uint32_t) i);
    memcpy (s.old, s.bits, s.bytes);
    s.img = pixman_image_create_bits (fmt, w, h, s.bits, s.stride);
    if (!s.img) V (t, "c15-harness-setup", "create_bits failed without fault during setup");
    return s;
}
/* premultiplied a8r8g8b8 content (colour <= alpha), so that results do not depend on saturation details */
static void surf_premul (surf_t *s)
{
    for (int y = 0; y < s->h; y++) for (int x = 0; x < s->w; x++) {
        uint32_t *p = (uint32_t *) ((char *) s->bits + (size_t) y * s->stride) + x; uint32_t a = *p >> 24;
        uint32_t r = ((*p >> 16) & 0xff) * a / 255, g = ((*p >> 8) & 0xff) * a / 255, b = (*p & 0xff) * a / 255;
        *p = a << 24 | r << 16 | g << 8 | b;
    }
    memcpy (s->old, s->bits, s->bytes);
}
static void surf_free (surf_t *s) { if (s->img) pixman_image_unref (s->img); free (s->bits); free (s->old); memset (s, 0, sizeof *s); }

enum { DRAW_VOID = 0, DRAW_MUST_NEW = 1 };

/* Oracle for a drawing call.  (x,y,w,h) is the request rectangle = superset of the permitted region.
 * fault-free run: remember the result.  faulted run: every pixel must be its old value or the
 * fault-free value; nothing outside the rectangle (incl. row padding) may change; if the call
 * reported success (DRAW_MUST_NEW) or no allocation failed in it, the result must be complete. */
static void draw_check (T *t, const char *key, surf_t *s, int x, int y, int w, int h, int mode, int hadfault)
{
    if (!t->faulted) {
        if (!memcmp (s->bits, s->old, s->bytes)) V (t, "c15-harness-trivial-draw", "%s: fault-free drawing changes nothing", key);
        obs_put (t, key, s->bits, s->bytes);
        return;
    }
    const obs_t *o = obs_find (t, key);
    if (!o || o->len != s->bytes) { V (t, "c15-harness-missing-baseline", "no fault-free picture '%s'", key); return; }
    const unsigned char *cur = (const unsigned char *) s->bits, *old = (const unsigned char *) s->old, *neu = (const unsigned char *) o->data;
    int Bpp = PIXMAN_FORMAT_BPP (s->fmt) / 8;
    long n_old = 0, n_new = 0, n_third = 0, n_out = 0; int tx = -1, ty = -1, ox = -1, oy = -1;
    for (int yy = 0; yy < s->h; yy++) {
        size_t row = (size_t) yy * s->stride;
        for (int xx = 0; xx < s->w; xx++) {
            size_t off = row + (size_t) xx * Bpp;
            int is_old = !memcmp (cur + off, old + off, Bpp), is_new = !memcmp (cur + off, neu + off, Bpp);
            int inside = xx >= x && xx < x + w && yy >= y && yy < y + h;
            if (!inside) { if (!is_old) { if (!n_out) { ox = xx; oy = yy; } n_out++; } continue; }
            if (!is_old && !is_new) { if (!n_third) { tx = xx; ty = yy; } n_third++; }
            else if (memcmp (old + off, neu + off, Bpp)) { if (is_new) n_new++; else n_old++; }
        }
        for (size_t off = row + (size_t) s->w * Bpp; off < row + s->stride; off++) if (cur[off] != old[off]) { if (!n_out) { ox = s->w; oy = yy; } n_out++; }
    }
    if (n_out) { V (t, "c15-draw-outside-region", "%s: %ld byte(s)/pixel(s) outside the request rectangle changed, first at (%d,%d)", key, n_out, ox, oy); return; }
    if (n_third) {
        size_t off = (size_t) ty * s->stride + (size_t) tx * Bpp; char a[40] = "", b[40] = "", c[40] = "";
        for (int i = 0; i < Bpp && i < 16; i++) { sprintf (a + 2 * i, "%02x", old[off + i]); sprintf (b + 2 * i, "%02x", neu[off + i]); sprintf (c + 2 * i, "%02x", cur[off + i]); }
        V (t, t->key_third ? t->key_third : "c15-draw-neither-old-nor-new",
           "%s: %ld pixel(s) are neither the old value nor the fault-free result, first at (%d,%d): bytes old=%s fault-free=%s got=%s (%ld pixels old, %ld new)",
           key, n_third, tx, ty, a, b, c, n_old, n_new);
        return;
    }
    if (!hadfault && n_old) { V (t, "c15-draw-differs-without-fault", "%s: no allocation failed in this call but %ld pixel(s) were not drawn", key, n_old); return; }
    if (mode == DRAW_MUST_NEW && n_old) { V (t, t->key_notdrawn ? t->key_notdrawn : "c15-status-true-but-not-drawn", "%s: the function reported success but %ld pixel(s) keep their old value (%ld drawn)", key, n_old, n_new); return; }
    if (hadfault) { if (n_old && n_new) t->n_draw_mixed++; else if (n_old) t->n_draw_old++; else t->n_draw_new++; }
}

/* use an image as a source once (faults off): "safe to use afterwards"; optionally the picture must equal the fault-free one */
static void exercise_source (T *t, const char *key, pixman_image_t *img, int compare)
{
    surf_t d = surf_new (t, PIXMAN_a8r8g8b8, 6, 3, 77);
    pixman_image_composite32 (PIXMAN_OP_SRC, img, NULL, d.img, 0, 0, 0, 0, 0, 0, 6, 3);
    if (compare) expect_same (t, key, d.bits, d.bytes, "picture drawn from the object");
    surf_free (&d);
}

static pixman_image_t *mk_solid (T *t, unsigned a, unsigned r, unsigned g, unsigned b)
{
    pixman_color_t c = { (uint16_t) r, (uint16_t) g, (uint16_t) b, (uint16_t) a };
    pixman_image_t *i = pixman_image_create_solid_fill (&c);
    if (!i) V (t, "c15-harness-setup", "solid fill failed without fault during setup");
    return i;
}

/* a clip of three separate rectangles inside a w x h image */
static void clip3 (T *t, pixman_image_t *img, int w, int h)
{
    pixman_box32_t b[3] = { { 1, 0, w / 3, h }, { w / 3 + 2, 0, 2 * w / 3, h - 1 }, { 2 * w / 3 + 2, 1, w - 1, h } };
    pixman_region32_t r;
    if (!pixman_region32_init_rects (&r, b, 3) || !pixman_image_set_clip_region32 (img, &r)) V (t, "c15-harness-setup", "clip3");
    pixman_region32_fini (&r);
}
#endif
