/* c11_point.h — pixman_transform_point / point_3d and the 48.16 entry points against the exact quotient. */
#ifndef C11_POINT_H
#define C11_POINT_H
#include "c11_common.h"

/* A point space: 9 variables (row0[3], row2[3], v[3]), each with its own alphabet.  row1 is the
 * rotation (row0[1], row0[2], row0[0]) so that the y coordinate is a second, different instance.
 * One engine case (block) fixes row2 and v (hence w); the inner loop runs over row0. */
typedef struct {
    const char *name;
    const int64_t *al[9]; int n[9];     /* order: r00 r01 r02 r20 r21 r22 v0 v1 v2 */
    int wide;                           /* 1: 48.16 vectors through pixman_transform_point_31_16* */
} pspace_t;

static int64_t *widen(const int32_t *a, int n) { int64_t *w = malloc(sizeof(int64_t) * n); for (int i = 0; i < n; i++) w[i] = a[i]; return w; }

static uint64_t pspace_blocks(const pspace_t *s) { uint64_t p = 1; for (int k = 3; k < 9; k++) p *= s->n[k]; return p; }
static uint64_t pspace_inner(const pspace_t *s) { return (uint64_t)s->n[0] * s->n[1] * s->n[2]; }

static __attribute__((noinline)) int call_tp(const pixman_transform_t *t, pixman_vector_t *v)
{
    c11_armed = 1;
    if (sigsetjmp(c11_jb, 0) != 0) return -1;
    int r = pixman_transform_point(t, v);
    c11_armed = 0;
    return r;
}
static __attribute__((noinline)) int call_tp3d(const pixman_transform_t *t, pixman_vector_t *v)
{
    c11_armed = 1;
    if (sigsetjmp(c11_jb, 0) != 0) return -1;
    int r = pixman_transform_point_3d(t, v);
    c11_armed = 0;
    return r;
}
static __attribute__((noinline)) int call_tp48(const pixman_transform_t *t, const vec4816 *v, vec4816 *o)
{
    c11_armed = 1;
    if (sigsetjmp(c11_jb, 0) != 0) return -1;
    int r = pixman_transform_point_31_16(t, v, o);
    c11_armed = 0;
    return r;
}
static __attribute__((noinline)) int call_tp48_3d(const pixman_transform_t *t, const vec4816 *v, vec4816 *o)
{
    c11_armed = 1;
    if (sigsetjmp(c11_jb, 0) != 0) return -1;
    pixman_transform_point_31_16_3d(t, v, o);
    c11_armed = 0;
    return 1;
}
static __attribute__((noinline)) int call_tp48_aff(const pixman_transform_t *t, const vec4816 *v, vec4816 *o)
{
    c11_armed = 1;
    if (sigsetjmp(c11_jb, 0) != 0) return -1;
    pixman_transform_point_31_16_affine(t, v, o);
    c11_armed = 0;
    return 1;
}

static const char *pt_case_str(const pixman_transform_t *m, const int64_t v[3], char *buf, size_t cap)
{
    char mb[400], a[40], b[40], c[40];
    snprintf(buf, cap, "M=%s v=(%s, %s, %s)", mat_str(m, mb, sizeof mb), fx_str(v[0], a), fx_str(v[1], b), fx_str(v[2], c));
    return buf;
}

/* Oracle for one coordinate of transform_point: admissible set and flags.  N, W in raw32. */
typedef struct { iv_t adm; int verdict; int tie, inexact; } coord_t;
static inline coord_t tp_coord(i128 N, i128 W, int exact, i128 rmin, i128 rmax, int wide_tol)
{
    coord_t c; c.tie = c.inexact = 0;
    if (W == 0) { c.adm = iv_empty(); c.verdict = V_FALSE; return c; }
    c.adm = adm_div(N * 65536, W, exact ? 0 : 1, &c.tie, &c.inexact);
    if (!exact && wide_tol) {
        /* 48.16 results: the library keeps 48 bits of the divisor, i.e. relative accuracy 2^-47;
         * for results beyond 2^46 units one unit is not attainable and not promised. */
        i128 m = c.adm.hi < 0 ? -c.adm.lo : c.adm.hi; if (m < 0) m = -m;
        i128 extra = m >> 46;
        c.adm.lo -= extra; c.adm.hi += extra;
    }
    c.verdict = verdict(c.adm, rmin, rmax);
    return c;
}

static void point_block(uint64_t idx, void *ctx)
{
    const pspace_t *s = ctx;
    int dims[6], d[6];
    for (int k = 0; k < 6; k++) dims[k] = s->n[3 + k];
    vf_decode(idx, dims, 6, d);
    int64_t r2[3] = { s->al[3][d[0]], s->al[4][d[1]], s->al[5][d[2]] };
    int64_t v[3]  = { s->al[6][d[3]], s->al[7][d[4]], s->al[8][d[5]] };
    i128 W = (i128)r2[0] * v[0] + (i128)r2[1] * v[1] + (i128)r2[2] * v[2];
    i128 absW = W < 0 ? -W : W;
    int exact = absW < ((i128)1 << 48);          /* |w| < 65536 */
    i128 rmin = s->wide ? (i128)INT64_MIN : I32_MIN_, rmax = s->wide ? (i128)INT64_MAX : I32_MAX_;
    uint64_t n_inner = pspace_inner(s);
    uint64_t n_abort = 0, n_tie = 0, n_inx = 0, n_ff = 0, n_either = 0, n_nontriv = 0;
    char cs[700];
    pixman_transform_t m; memset(&m, 0, sizeof m);
    m.matrix[2][0] = (pixman_fixed_t)r2[0]; m.matrix[2][1] = (pixman_fixed_t)r2[1]; m.matrix[2][2] = (pixman_fixed_t)r2[2];
    /* point_3d third component is the same for the whole block */
    int t3, i3; iv_t adm_w3 = adm_div(W, 65536, 0, &t3, &i3);
    c11_blk_begin();
    for (int a = 0; a < s->n[0]; a++) for (int b = 0; b < s->n[1]; b++) for (int c = 0; c < s->n[2]; c++) {
        int64_t r0[3] = { s->al[0][a], s->al[1][b], s->al[2][c] };
        int64_t r1[3] = { r0[1], r0[2], r0[0] };
        for (int j = 0; j < 3; j++) { m.matrix[0][j] = (pixman_fixed_t)r0[j]; m.matrix[1][j] = (pixman_fixed_t)r1[j]; }
        i128 N[2] = { (i128)r0[0] * v[0] + (i128)r0[1] * v[1] + (i128)r0[2] * v[2],
                      (i128)r1[0] * v[0] + (i128)r1[1] * v[1] + (i128)r1[2] * v[2] };
        coord_t co[2] = { tp_coord(N[0], W, exact, rmin, rmax, s->wide), tp_coord(N[1], W, exact, rmin, rmax, s->wide) };
        int want = verdict_and(co[0].verdict, co[1].verdict);
        n_tie += co[0].tie | co[1].tie; n_inx += co[0].inexact | co[1].inexact;
        n_ff += want == V_FALSE; n_either += want == V_EITHER;
        n_nontriv += (W != ((i128)1 << 32)) || co[0].inexact || co[1].inexact || want != V_TRUE;

        /* ---- transform_point ---- */
        int64_t out[3]; int ret;
        if (!s->wide) {
            pixman_vector_t pv = { { (pixman_fixed_t)v[0], (pixman_fixed_t)v[1], (pixman_fixed_t)v[2] } };
            ret = call_tp(&m, &pv);
            out[0] = pv.vector[0]; out[1] = pv.vector[1]; out[2] = pv.vector[2];
        } else {
            vec4816 in = { { v[0], v[1], v[2] } }, o = { { 0, 0, 0 } };
            ret = call_tp48(&m, &in, &o);
            out[0] = o.v[0]; out[1] = o.v[1]; out[2] = o.v[2];
        }
        const char *fn = s->wide ? "pixman_transform_point_31_16" : "pixman_transform_point";
        char q0[48], q1[48], q2[48], q3[48];
        if (ret < 0) {
            n_abort++;
            /* the recorded finding is narrow: the divisor, reduced to 49 bits (floor), is exactly -2^48, i.e.
             * w = -2^k (k >= 16) or up to 2^-48 relative above it: raw32 W in [-2^K, -2^K + 2^(K-48)), K >= 48.
             * Any other abort gets the generic key. */
            i128 nw = -W; int negpow2 = 0;
            if (W < 0) {
                int K = 0; while (((i128)1 << K) < nw) K++;            /* smallest K with 2^K >= -W */
                negpow2 = K >= 48 && (((i128)1 << K) - nw) < ((i128)1 << (K - 48));
            }
            c11_fail(negpow2 ? "c11-transform-point-abort-w-minus-2k" : "c11-transform-point-abort", "%s aborts: %s; %s; w = %s/2^32 (%s regime); the statement says it never aborts", fn, c11_abort_msg,
                     pt_case_str(&m, v, cs, sizeof cs), i128_str(W, q0), exact ? "exact" : "one-unit");
        } else if (ret && want == V_FALSE) {
            c11_fail("c11-transform-point-true-on-unrepresentable", "%s returned TRUE (%lld, %lld) but no admissible result is representable: x in [%s,%s] y in [%s,%s]%s; %s",
                     fn, (long long)out[0], (long long)out[1], i128_str(co[0].adm.lo, q0), i128_str(co[0].adm.hi, q1), i128_str(co[1].adm.lo, q2),
                     i128_str(co[1].adm.hi, q3), W == 0 ? " (w == 0)" : "", pt_case_str(&m, v, cs, sizeof cs));
        } else if (!ret && want == V_TRUE) {
            c11_fail("c11-transform-point-false-on-representable", "%s returned FALSE but the result x in [%s,%s] y in [%s,%s] is representable; %s", fn,
                     i128_str(co[0].adm.lo, q0), i128_str(co[0].adm.hi, q1), i128_str(co[1].adm.lo, q2), i128_str(co[1].adm.hi, q3), pt_case_str(&m, v, cs, sizeof cs));
        } else if (ret) {
            for (int k = 0; k < 2; k++) if (!iv_has(co[k].adm, out[k])) {
                c11_fail(exact ? "c11-transform-point-not-exactly-rounded" : "c11-transform-point-off-by-more-than-one",
                         "%s %c = %lld, admissible [%s,%s] (N=%s W=%s raw32, %s regime); %s", fn, "xy"[k], (long long)out[k], i128_str(co[k].adm.lo, q0),
                         i128_str(co[k].adm.hi, q1), i128_str(N[k], q2), i128_str(W, q3), exact ? "exact" : "one-unit", pt_case_str(&m, v, cs, sizeof cs));
                break;
            }
            if (out[2] != 65536)
                c11_fail("c11-transform-point-w-not-one", "%s returned TRUE with vector[2]=%lld, expected 65536; %s", fn, (long long)out[2], pt_case_str(&m, v, cs, sizeof cs));
        }
        uint64_t h = vf_mix(vf_mix((uint64_t)(ret + 2), ret > 0 ? (uint64_t)out[0] : 0), ret > 0 ? (uint64_t)out[1] : 0);
        vf_outcome(h);
        if (a == 1 && b == 2 % s->n[1] && c == 1 % s->n[2] && ret > 0 && (co[0].inexact || !exact) && idx % 97 == 5 && c11_want_sample(s->wide ? 8 : 0))
            vf_sample("%s: %s -> TRUE (%lld, %lld, %lld); oracle x in [%s,%s], y in [%s,%s], %s regime", fn, pt_case_str(&m, v, cs, sizeof cs),
                      (long long)out[0], (long long)out[1], (long long)out[2], i128_str(co[0].adm.lo, q0), i128_str(co[0].adm.hi, q1),
                      i128_str(co[1].adm.lo, q2), i128_str(co[1].adm.hi, q3), exact ? "exact" : "one-unit");

        /* ---- point_3d: M*v rounded, no division ---- */
        int t0, i0, t1, i1;
        iv_t a3[3] = { adm_div(N[0], 65536, 0, &t0, &i0), adm_div(N[1], 65536, 0, &t1, &i1), adm_w3 };
        int64_t o3[3]; int ret3;
        if (!s->wide) {
            int want3 = verdict_and(verdict_and(verdict(a3[0], rmin, rmax), verdict(a3[1], rmin, rmax)), verdict(a3[2], rmin, rmax));
            pixman_vector_t pv = { { (pixman_fixed_t)v[0], (pixman_fixed_t)v[1], (pixman_fixed_t)v[2] } };
            ret3 = call_tp3d(&m, &pv);
            o3[0] = pv.vector[0]; o3[1] = pv.vector[1]; o3[2] = pv.vector[2];
            if (ret3 < 0) c11_fail("c11-point-3d-abort", "pixman_transform_point_3d aborts: %s; %s", c11_abort_msg, pt_case_str(&m, v, cs, sizeof cs));
            else if (ret3 && want3 == V_FALSE)
                c11_fail("c11-point-3d-true-on-unrepresentable", "pixman_transform_point_3d returned TRUE (%lld,%lld,%lld) but the exact product (%s,%s,%s)/65536 does not fit 16.16; %s",
                         (long long)o3[0], (long long)o3[1], (long long)o3[2], i128_str(N[0], q0), i128_str(N[1], q1), i128_str(W, q2), pt_case_str(&m, v, cs, sizeof cs));
            else if (!ret3 && want3 == V_TRUE)
                c11_fail("c11-point-3d-false-on-representable", "pixman_transform_point_3d returned FALSE but the product (%s,%s,%s)/65536 is representable; %s",
                         i128_str(N[0], q0), i128_str(N[1], q1), i128_str(W, q2), pt_case_str(&m, v, cs, sizeof cs));
        } else {
            vec4816 in = { { v[0], v[1], v[2] } }, o = { { 0, 0, 0 } };
            ret3 = call_tp48_3d(&m, &in, &o);
            o3[0] = o.v[0]; o3[1] = o.v[1]; o3[2] = o.v[2];
            if (ret3 < 0) c11_fail("c11-point-3d-abort", "pixman_transform_point_31_16_3d aborts: %s; %s", c11_abort_msg, pt_case_str(&m, v, cs, sizeof cs));
        }
        if (ret3 > 0) for (int k = 0; k < 3; k++) if (!iv_has(a3[k], o3[k])) {
            i128 src = k == 2 ? W : N[k];
            c11_fail("c11-point-3d-not-exactly-rounded", "point_3d component %d = %lld, exact %s/65536 rounds to [%s,%s]; %s", k, (long long)o3[k],
                     i128_str(src, q0), i128_str(a3[k].lo, q1), i128_str(a3[k].hi, q2), pt_case_str(&m, v, cs, sizeof cs));
            break;
        }
        if (ret3 > 0) vf_outcome(vf_mix(vf_mix(vf_mix(77, (uint64_t)o3[0]), (uint64_t)o3[1]), (uint64_t)o3[2]));

        /* ---- 48.16 affine entry point: only meaningful when row2 = (0,0,1) and v2 = 1 ---- */
        if (s->wide && r2[0] == 0 && r2[1] == 0 && r2[2] == 65536 && v[2] == 65536) {
            vec4816 in = { { v[0], v[1], v[2] } }, o = { { 0, 0, 0 } };
            int ra = call_tp48_aff(&m, &in, &o);
            if (ra < 0) c11_fail("c11-point-affine-abort", "pixman_transform_point_31_16_affine aborts: %s; %s", c11_abort_msg, pt_case_str(&m, v, cs, sizeof cs));
            else if (!iv_has(a3[0], o.v[0]) || !iv_has(a3[1], o.v[1]) || o.v[2] != 65536)
                c11_fail("c11-point-affine-not-exactly-rounded", "31_16_affine gives (%lld,%lld,%lld), exact (%s,%s)/65536; %s", (long long)o.v[0], (long long)o.v[1],
                         (long long)o.v[2], i128_str(N[0], q0), i128_str(N[1], q1), pt_case_str(&m, v, cs, sizeof cs));
        }
    }
    c11_blk_end();
    vf_count_eval(n_inner); vf_count_nontrivial(n_nontriv); vf_count_libcalls(2 * n_inner);
    ST_ADD(tp_abort, n_abort); ST_ADD(tp_tie, n_tie); ST_ADD(tp_inexact, n_inx); ST_ADD(tp_false_forced, n_ff); ST_ADD(tp_either, n_either);
    if (W == 0) ST_ADD(tp_w0, n_inner);
    else if (W == ((i128)1 << 32)) ST_ADD(tp_affine, n_inner);
    else if (exact) ST_ADD(tp_exact, n_inner); else ST_ADD(tp_tol, n_inner);
}

/* ---- multiply: 6 variables (a row of l, a column of r) over A21; the other rows/columns are rotations ---- */
typedef struct { const int32_t *al; int n; } mspace_t;

static int thunk_mul(void *p) { void **a = p; return pixman_transform_multiply(a[0], a[1], a[2]); }

static void multiply_block(uint64_t idx, void *ctx)
{
    const mspace_t *s = ctx;
    int dims[3] = { s->n, s->n, s->n }, d[3];
    vf_decode(idx, dims, 3, d);
    int32_t b[3] = { s->al[d[0]], s->al[d[1]], s->al[d[2]] };
    pixman_transform_t l, r, out;
    int64_t L[3][3], R[3][3];
    for (int i = 0; i < 3; i++) for (int j = 0; j < 3; j++) { r.matrix[i][j] = b[(i + j) % 3]; R[i][j] = r.matrix[i][j]; }   /* column j = rotation of b */
    uint64_t n_inner = (uint64_t)s->n * s->n * s->n, n_inx = 0, n_ff = 0, n_either = 0, n_nt = 0;
    char lb[400], rb[400], ob[400], q0[48], q1[48];
    c11_blk_begin();
    for (int x = 0; x < s->n; x++) for (int y = 0; y < s->n; y++) for (int z = 0; z < s->n; z++) {
        int32_t a[3] = { s->al[x], s->al[y], s->al[z] };
        for (int i = 0; i < 3; i++) for (int j = 0; j < 3; j++) { l.matrix[i][j] = a[(i + j) % 3]; L[i][j] = l.matrix[i][j]; }
        iv_t adm[3][3]; int inx;
        int want = adm_matmul(L, R, adm, &inx);
        n_inx += inx; n_ff += want == V_FALSE; n_either += want == V_EITHER; n_nt += inx || want != V_TRUE;
        memset(&out, 0x5a, sizeof out);
        void *args[3] = { &out, &l, &r };
        int ret = c11_guard(thunk_mul, args);
        if (ret < 0) c11_fail("c11-multiply-abort", "pixman_transform_multiply aborts: %s; l=%s r=%s", c11_abort_msg, mat_str(&l, lb, sizeof lb), mat_str(&r, rb, sizeof rb));
        else if (ret && want == V_FALSE)
            c11_fail("c11-multiply-true-on-overflow", "multiply returned TRUE with %s but an entry of the exact product overflows 16.16; l=%s r=%s", mat_str(&out, ob, sizeof ob),
                     mat_str(&l, lb, sizeof lb), mat_str(&r, rb, sizeof rb));
        else if (!ret && want == V_TRUE)
            c11_fail("c11-multiply-false-without-overflow", "multiply returned FALSE but every entry of the product is representable; l=%s r=%s", mat_str(&l, lb, sizeof lb),
                     mat_str(&r, rb, sizeof rb));
        else if (ret) {
            for (int i = 0; i < 3; i++) for (int j = 0; j < 3; j++) if (!iv_has(adm[i][j], out.matrix[i][j])) {
                c11_fail("c11-multiply-not-rounded", "multiply entry [%d][%d] = %d, admissible [%s,%s] (every term rounded to nearest, ties either way); l=%s r=%s", i, j,
                         out.matrix[i][j], i128_str(adm[i][j].lo, q0), i128_str(adm[i][j].hi, q1), mat_str(&l, lb, sizeof lb), mat_str(&r, rb, sizeof rb));
                i = 3; break;
            }
        }
        /* the result object may be one of the operands (or both): same answer as into a separate object */
        if (ret >= 0) for (int al = 1; al <= 3; al++) {
            pixman_transform_t cl = l, cr = r;
            void *a2[3] = { al == 2 ? (void *)&cr : (void *)&cl, &cl, al == 3 ? (void *)&cl : (void *)&cr };
            if (al == 3 && memcmp(&l, &r, sizeof l)) continue;
            int ret2 = c11_guard(thunk_mul, a2);
            const pixman_transform_t *res = al == 2 ? &cr : &cl;
            if (ret2 < 0) c11_fail("c11-multiply-abort", "pixman_transform_multiply aborts with dst aliasing an operand: %s", c11_abort_msg);
            else if ((ret2 != 0) != (ret != 0) || (ret && memcmp(res, &out, sizeof out)))
                c11_fail("c11-multiply-alias", "multiply with dst == %s returned %d with %s, into a separate object %d with %s; l=%s r=%s", al == 1 ? "l" : al == 2 ? "r" : "l == r", ret2,
                         mat_str(res, ob, sizeof ob), ret, mat_str(&out, q0 + 0 > q0 ? lb : lb, sizeof lb), "", mat_str(&r, rb, sizeof rb));
        }
        vf_outcome(ret > 0 ? mat_hash(&out, 11) : (uint64_t)(ret + 5));
        if (ret > 0 && inx && x == 3 % s->n && y == 5 % s->n && z == 1 && idx % 211 == 7 && c11_want_sample(1))
            vf_sample("multiply l=%s r=%s -> TRUE %s; [0][0] admissible [%s,%s]", mat_str(&l, lb, sizeof lb), mat_str(&r, rb, sizeof rb), mat_str(&out, ob, sizeof ob),
                      i128_str(adm[0][0].lo, q0), i128_str(adm[0][0].hi, q1));
    }
    c11_blk_end();
    vf_count_eval(n_inner); vf_count_nontrivial(n_nt); vf_count_libcalls(n_inner);
    ST_ADD(mul_inexact, n_inx); ST_ADD(mul_false_forced, n_ff); ST_ADD(mul_either, n_either);
}

#endif
