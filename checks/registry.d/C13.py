reg("C13", "c13_gradients.c", "asan", cflags=["-O2"])
