reg("C01", "c01_composite.c", "opt", cflags=["-O2"])
