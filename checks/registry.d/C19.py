reg("C19", "c19_blt_fill.c", "opt", cflags=["-O2"])
