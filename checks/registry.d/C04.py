reg("C04", "c04_memsafe.c", "asan", cflags=[])
