reg("C11", "c11_matrix.c", "opt", cflags=["-O2"])
