# asan variant; the library is built with the small glyph table (PIXMAN_VERIF hook) so that creating a cache per transition is cheap
reg("C20", "c20_lifetime.c", "asan", cflags=["-O1"], defs=["-DPIXMAN_VERIF_GLYPH_HASH_SIZE=8", "-DPIXMAN_VERIF_GLYPH_HIGH_WATER=4", "-DPIXMAN_VERIF_GLYPH_LOW_WATER=2"])
