reg("C20", "c20_lifetime.c", "asan", cflags=["-O1"])
