reg("C08", "c08_sampling.c", "opt", cflags=["-O2"])
