reg("C09", "c09_opacity.c", "opt", cflags=["-O2"],
    ldflags=["-Wl,--wrap=_pixman_implementation_lookup_composite"])
