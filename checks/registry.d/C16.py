reg("C16", "c16_sched.c", "sched", script="c16_threads.py")
