reg("C03", "c03_region.c", "opt", cflags=["-O2"])
