reg("C15", "c15_allocfail.c", "asan", cflags=["-O1"],
    ldflags=["-Wl,--wrap=malloc", "-Wl,--wrap=calloc", "-Wl,--wrap=realloc", "-Wl,--wrap=free", "-Wl,--wrap=posix_memalign"])
