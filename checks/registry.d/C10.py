reg("C10", "c10_formats.c", "opt", cflags=["-O2"])
