reg("C02", "c02_impls.c", "opt", cflags=["-O2"],
    ldflags=["-Wl,--wrap=_pixman_implementation_lookup_composite", "-Wl,--wrap=_pixman_implementation_iter_init",
             "-Wl,--wrap=_pixman_implementation_lookup_combiner"])
