reg("C18", "c18_filter.c", "asan", ldflags=["-Wl,--wrap=malloc"])
