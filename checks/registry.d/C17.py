reg("C17", "c17_glyph.c", "opt", cflags=["-O2"])
