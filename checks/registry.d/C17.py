reg("C17", "c17_glyph.c", "opt", cflags=["-O2"], genrename=dict(file="pixman-glyph.c", stem="c17", pfx="C17_PFX"))
