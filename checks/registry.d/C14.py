reg("C14", "c14_history.c", "opt", cflags=["-O2"])
