reg("C12", "c12_traps.c", "opt", cflags=["-O2"])
