/* c16_bodies.h — the operations worker threads issue, shared by the scheduled explorer (c16_sched.c) and the
 * free-running ThreadSanitizer pass (c16_tsan.c).  Every thread draws only into its private destination. */
#ifndef C16_BODIES_H
#define C16_BODIES_H
#include <pixman.h>
#include <stdint.h>
#include <string.h>
#include <stdlib.h>

enum { OP_FAST_OVER, OP_GENERAL_ATOP, OP_SAME_TWICE, OP_FILL, OP_REGION, OP_TRAP, OP_SHARED_SRC, OP_GRADIENT, OP_SHARED_GRADIENT, OP_SHARED_CLIPPED_SRC, OP_SHARED_ACCESSOR_SRC, OP_TILE_FILL, OP_SHARED_TILE_SRC, OP_SHARED_TILE_MASK, N_BODY_OPS,
       /* free-running pass only (rows of thousands of pixels are too many scheduling points for the explorer) */
       OP_WIDE_ROW_NARROW = N_BODY_OPS, OP_WIDE_ROW_FLOAT, OP_WIDE_ROW_MALLOC, OP_SHARED_SOLID, OP_DITHERED, N_ALL_OPS };
static const char *body_op_name[N_BODY_OPS] = { "fast-path OVER 8888->8888", "general-path ATOP 8888->0565", "same ADD composite twice (cache hit)", "pixman_fill + fill_rectangles",
                                                "region32 union/subtract", "rasterize_trapezoid a8", "OVER from the shared source", "linear gradient SRC (general iterators)", "SRC from the shared 4-stop gradient (per-thread origin)",
                                                "OVER from the shared source that has a two-box client clip with source clipping (per-thread offset)",
                                                "OVER from the shared source that is read through accessor callbacks",
                                                "pixman_fill into the thread's own columns of a buffer whose other columns belong to other threads (8 and 16 bpp, tiles not word-aligned)",
                                                "SRC from the shared 32x2 REPEAT_NORMAL tile onto a 40-pixel-wide private destination (tiled-repeat path)",
                                                "solid IN the shared 32x2 REPEAT_NORMAL tile as mask, origin 29 (wraps)" };

#define TILE_STRIDE_WORDS 20
#define DW 3
#define DH 2

typedef struct {
    /* private to the thread */
    uint32_t d32[DH][DW]; uint16_t d16[DH][2 * ((DW + 1) / 2)]; uint8_t d8[DH][4];
    uint32_t s32[DH][DW];
    pixman_image_t *dst32, *dst16, *dst8, *src32, *grad;
    pixman_region32_t reg;
    /* shared, read-only after its first use on the main thread */
    pixman_image_t *shared_src, *shared_grad, *shared_clipped, *shared_acc, *shared_tile, *shared_solid;
    uint32_t dwide[2][40]; pixman_image_t *dstwide;
    uint32_t *tile8, *tile16; int tile_ix;       /* one buffer for all threads: 2 rows of TILE_STRIDE_WORDS words; the thread with tile index k owns columns [1+3k, 4+3k) (8 bpp) / [1+2k, 3+2k) (16 bpp) */
    /* private rows wider than the general path's on-stack scanline buffers (8192 bytes per scanline): whatever scratch the library uses
     * instead must not be shared between threads */
    uint32_t *wsrc, *wdst; pixman_image_t *wsrc_img, *wdst16_img, *wdst10_img, *wdst32_img;
    int tid;
    uint64_t digest;
} tctx_t;
#define WIDE_NARROW 2100
#define WIDE_FLOAT 600
#define WIDE_MALLOC 5000

static inline uint64_t body_hash(const void *p, size_t n, uint64_t h)
{
    const unsigned char *s = p; h ^= 0xcbf29ce484222325ULL;
    for (size_t i = 0; i < n; i++) { h ^= s[i]; h *= 0x100000001b3ULL; }
    return h;
}

/* main thread: build a thread's private objects (tid makes the pixels distinct per thread) */
static pixman_image_t *body_make_shared_gradient(void)
{
    pixman_point_fixed_t p1 = { 0, 0 }, p2 = { pixman_int_to_fixed(8), 0 };
    pixman_gradient_stop_t stops[4] = { { 0, { 0xffff, 0, 0, 0xffff } }, { 0x5000, { 0, 0xffff, 0, 0xffff } }, { 0xa000, { 0, 0, 0xffff, 0x8000 } }, { 0x10000, { 0xffff, 0xffff, 0, 0xffff } } };
    pixman_image_t *g = pixman_image_create_linear_gradient(&p1, &p2, stops, 4);
    pixman_image_set_repeat(g, PIXMAN_REPEAT_PAD);
    return g;
}

/* a shared source whose own (client) clip has two boxes and applies to it as a source */
static pixman_image_t *body_make_shared_clipped(uint32_t *pix)
{
    for (int i = 0; i < DW * DH; i++) pix[i] = 0xa0705030u + (unsigned)i * 0x05040302u;
    pixman_image_t *s = pixman_image_create_bits(PIXMAN_a8r8g8b8, DW, DH, pix, DW * 4);
    pixman_box32_t b[2] = { { 0, 0, 1, DH }, { 2, 0, 3, 1 } };
    pixman_region32_t r; pixman_region32_init_rects(&r, b, 2);
    pixman_image_set_clip_region32(s, &r); pixman_region32_fini(&r);
    pixman_image_set_has_client_clip(s, 1); pixman_image_set_source_clipping(s, 1);
    return s;
}

/* a shared source read through (pure) accessor callbacks */
static uint32_t body_acc_read(const void *p, int size) { return size == 1 ? *(const uint8_t *)p : size == 2 ? *(const uint16_t *)p : *(const uint32_t *)p; }
static void body_acc_write(void *p, uint32_t v, int size) { if (size == 1) *(uint8_t *)p = (uint8_t)v; else if (size == 2) *(uint16_t *)p = (uint16_t)v; else *(uint32_t *)p = v; }
static pixman_image_t *body_make_shared_acc(uint32_t *pix)
{
    for (int i = 0; i < DW * DH; i++) pix[i] = 0xb0604020u + (unsigned)i * 0x03050709u;
    pixman_image_t *s = pixman_image_create_bits(PIXMAN_a8r8g8b8, DW, DH, pix, DW * 4);
    pixman_image_set_accessors(s, body_acc_read, body_acc_write);
    return s;
}

/* a shared REPEAT_NORMAL tile wide enough (32 pixels) for the tiled-repeat whole-operation path to use it in place */
static pixman_image_t *body_make_shared_tile(uint32_t *pix)
{
    for (int i = 0; i < 64; i++) pix[i] = 0xff000000u | ((unsigned)i * 0x00030507u);
    pixman_image_t *s = pixman_image_create_bits(PIXMAN_a8r8g8b8, 32, 2, pix, 128);
    pixman_image_set_repeat(s, PIXMAN_REPEAT_NORMAL);
    return s;
}

static void body_setup(tctx_t *t, int tid, pixman_image_t *shared_src)
{
    memset(t, 0, sizeof *t);
    t->tid = tid;
    for (int y = 0; y < DH; y++) for (int x = 0; x < DW; x++) {
        t->d32[y][x] = 0x80402010u * (unsigned)(tid + 1) + (unsigned)(y * 7 + x * 13) * 0x01010101u;
        t->s32[y][x] = 0xc0806040u - (unsigned)(tid * 0x111111) + (unsigned)(x * 5 + y) * 0x020304u;
        t->d16[y][x] = (uint16_t)(0x8410 * (tid + 1) + x * 33 + y);
        t->d8[y][x] = (uint8_t)(17 * (tid + 1) + x + 3 * y);
    }
    t->dst32 = pixman_image_create_bits(PIXMAN_a8r8g8b8, DW, DH, &t->d32[0][0], DW * 4);
    t->dst16 = pixman_image_create_bits(PIXMAN_r5g6b5, DW, DH, (uint32_t *)&t->d16[0][0], sizeof t->d16[0]);
    t->dst8 = pixman_image_create_bits(PIXMAN_a8, DW, DH, (uint32_t *)&t->d8[0][0], 4);
    t->src32 = pixman_image_create_bits(PIXMAN_a8r8g8b8, DW, DH, &t->s32[0][0], DW * 4);
    pixman_point_fixed_t p1 = { 0, 0 }, p2 = { pixman_int_to_fixed(DW), pixman_int_to_fixed(DH) };
    pixman_gradient_stop_t stops[2] = { { 0, { 0xffff, (uint16_t)(0x1000 * tid), 0, 0xffff } }, { 0x10000, { 0, 0x8000, 0xffff, 0x8000 } } };
    t->grad = pixman_image_create_linear_gradient(&p1, &p2, stops, 2);
    for (int i = 0; i < 80; i++) t->dwide[0][i] = 0x40201008u * (unsigned)(tid + 1) + (unsigned)i * 0x00010203u;
    t->dstwide = pixman_image_create_bits(PIXMAN_a8r8g8b8, 40, 2, &t->dwide[0][0], 160);
    pixman_region32_init_rect(&t->reg, tid, 0, 4, 3);
    t->shared_src = shared_src;
    t->wsrc = malloc(WIDE_MALLOC * 4); t->wdst = malloc(WIDE_MALLOC * 4);
    for (int i = 0; i < WIDE_MALLOC; i++) { t->wsrc[i] = 0x80604020u + (unsigned)(i * 7 + tid) * 0x00010101u; t->wdst[i] = 0x40302010u + (unsigned)(i * 3 + tid) * 0x01010100u; }
    t->wsrc_img = pixman_image_create_bits(PIXMAN_a8r8g8b8, WIDE_MALLOC, 1, t->wsrc, WIDE_MALLOC * 4);
    t->wdst16_img = pixman_image_create_bits(PIXMAN_r5g6b5, WIDE_MALLOC, 1, t->wdst, WIDE_MALLOC * 4);
    t->wdst10_img = pixman_image_create_bits(PIXMAN_a2r10g10b10, WIDE_MALLOC, 1, t->wdst, WIDE_MALLOC * 4);
    t->wdst32_img = pixman_image_create_bits(PIXMAN_a8r8g8b8, WIDE_MALLOC, 1, t->wdst, WIDE_MALLOC * 4);
}
static void body_teardown(tctx_t *t)
{
    pixman_image_unref(t->dst32); pixman_image_unref(t->dst16); pixman_image_unref(t->dst8); pixman_image_unref(t->src32); pixman_image_unref(t->grad); pixman_image_unref(t->dstwide);
    pixman_region32_fini(&t->reg);
    pixman_image_unref(t->wsrc_img); pixman_image_unref(t->wdst16_img); pixman_image_unref(t->wdst10_img); pixman_image_unref(t->wdst32_img); free(t->wsrc); free(t->wdst);
}

/* worker thread: one operation */
static void body_run(tctx_t *t, int op)
{
    switch (op) {
    case OP_DITHERED: {            /* a private destination with ordered dithering: whatever tables the dither code uses are read-only or per call */
        pixman_image_set_dither(t->dst16, (t->tid & 1) ? PIXMAN_DITHER_ORDERED_BLUE_NOISE_64 : PIXMAN_DITHER_ORDERED_BAYER_8);
        pixman_image_set_dither_offset(t->dst16, 3 * t->tid, 63);
        pixman_image_composite32(PIXMAN_OP_OVER, t->wdst10_img, NULL, t->dst16, 0, 0, 0, 0, 0, 0, DW, DH);      /* a 10-bit source: the float pipeline, the one that dithers */
        pixman_image_set_dither(t->dst16, PIXMAN_DITHER_NONE);
        break; }
    case OP_SHARED_SOLID:          /* general 8-bit path from one solid-fill image shared by all threads; the threads ask for rows of different widths (3 / 40 / 2100 pixels) */
        if (!t->shared_solid) break;
        if (t->tid % 3 == 0) pixman_image_composite32(PIXMAN_OP_ATOP, t->shared_solid, NULL, t->dst32, 0, 0, 0, 0, 0, 0, DW, DH);
        else if (t->tid % 3 == 1) pixman_image_composite32(PIXMAN_OP_ATOP, t->shared_solid, NULL, t->dstwide, 0, 0, 0, 0, 0, 0, 40, 2);
        else pixman_image_composite32(PIXMAN_OP_ATOP, t->shared_solid, NULL, t->wdst16_img, 0, 0, 0, 0, 0, 0, WIDE_NARROW, 1);
        break;
    case OP_WIDE_ROW_NARROW:       /* general path, 8-bit pipeline, 2100 pixels: 8400 bytes per scanline */
        pixman_image_composite32(PIXMAN_OP_ATOP, t->wsrc_img, NULL, t->wdst16_img, 0, 0, 0, 0, 0, 0, WIDE_NARROW, 1); break;
    case OP_WIDE_ROW_FLOAT:        /* float pipeline, 600 pixels: 9600 bytes per scanline */
        pixman_image_composite32(PIXMAN_OP_OVER, t->wsrc_img, NULL, t->wdst10_img, 0, 0, 0, 0, 0, 0, WIDE_FLOAT, 1); break;
    case OP_WIDE_ROW_MALLOC:       /* 5000 pixels with an operator evaluated in float: 80000 bytes per scanline */
        pixman_image_composite32(PIXMAN_OP_DISJOINT_OVER, t->wsrc_img, NULL, t->wdst32_img, 0, 0, 0, 0, 0, 0, WIDE_MALLOC, 1); break;
    case OP_FAST_OVER:
        pixman_image_composite32(PIXMAN_OP_OVER, t->src32, NULL, t->dst32, 0, 0, 0, 0, 0, 0, DW, DH); break;
    case OP_GENERAL_ATOP:
        pixman_image_composite32(PIXMAN_OP_ATOP, t->src32, NULL, t->dst16, 0, 0, 0, 0, 0, 0, DW, DH); break;
    case OP_SAME_TWICE:
        pixman_image_composite32(PIXMAN_OP_ADD, t->src32, NULL, t->dst32, 0, 0, 0, 0, 0, 0, DW, DH);
        pixman_image_composite32(PIXMAN_OP_ADD, t->src32, NULL, t->dst32, 1, 0, 0, 0, 0, 0, DW - 1, DH); break;
    case OP_FILL: {
        pixman_fill(&t->d32[0][0], DW, 32, 1, 0, 2, 2, 0x11223344);
        /* translucent and different per thread: the fill then goes through a solid source image, not the direct-fill shortcut */
        pixman_color_t c = { (uint16_t)(0x8000 >> t->tid), (uint16_t)(0x4000 + 0x2100 * t->tid), 0x2000, (uint16_t)(0xc000 - 0x3000 * t->tid) }; pixman_rectangle16_t r = { 0, 1, 2, 1 };
        pixman_image_fill_rectangles(PIXMAN_OP_OVER, t->dst16, &c, 1, &r); break; }
    case OP_REGION: {
        pixman_region32_t a, b; pixman_region32_init_rect(&a, 1, 1, 5, 2); pixman_region32_init_rect(&b, 3, 0, 2, 6);
        pixman_region32_union(&t->reg, &t->reg, &a); pixman_region32_subtract(&t->reg, &t->reg, &b);
        pixman_region32_fini(&a); pixman_region32_fini(&b); break; }
    case OP_TRAP: {
        pixman_trapezoid_t tr = { 0x4000, 0x1c000, { { 0x2000, 0 }, { 0x10000, 0x20000 } }, { { 0x28000, 0 }, { 0x2c000, 0x20000 } } };
        pixman_rasterize_trapezoid(t->dst8, &tr, 0, 0); break; }
    case OP_SHARED_SRC:
        pixman_image_composite32(PIXMAN_OP_OVER, t->shared_src, NULL, t->dst32, 0, 0, 0, 0, 0, 0, DW, DH); break;
    case OP_GRADIENT:
        pixman_image_composite32(PIXMAN_OP_SRC, t->grad, NULL, t->dst32, 0, 0, 0, 0, 0, 0, DW, DH); break;
    case OP_SHARED_GRADIENT:
        /* several threads read one gradient image (validated by its first use on the main thread) at different origins */
        pixman_image_composite32(PIXMAN_OP_SRC, t->shared_grad, NULL, t->dst32, 3 * t->tid, 0, 0, 0, 0, 0, DW, DH); break;
    case OP_SHARED_TILE_SRC:
        pixman_image_composite32(PIXMAN_OP_SRC, t->shared_tile, NULL, t->dstwide, 5 * t->tid, 0, 0, 0, 0, 0, 40, 1); break;      /* row 0 of the private destination */
    case OP_SHARED_TILE_MASK: {
        pixman_color_t c = { 0xffff, 0x8000, 0x4000, 0xffff }; pixman_image_t *solid = pixman_image_create_solid_fill(&c);
        pixman_image_composite32(PIXMAN_OP_IN, solid, t->shared_tile, t->dstwide, 0, 0, 29, t->tid & 1, 0, 1, 40, 1);            /* row 1: the two operations do not overwrite each other */
        pixman_image_unref(solid); break; }
    case OP_TILE_FILL:
        pixman_fill(t->tile8, TILE_STRIDE_WORDS, 8, 1 + 3 * t->tile_ix, 0, 3, 2, 0x11u * (unsigned)(t->tid + 1) * 0x01010101u);
        pixman_fill(t->tile16, TILE_STRIDE_WORDS, 16, 1 + 2 * t->tile_ix, 0, 2, 2, (0x1111u * (unsigned)(t->tid + 3)) * 0x00010001u); break;
    case OP_SHARED_ACCESSOR_SRC:
        pixman_image_composite32(PIXMAN_OP_OVER, t->shared_acc, NULL, t->dst32, 0, 0, 0, 0, 0, 0, DW, DH); break;
    case OP_SHARED_CLIPPED_SRC:
        /* the source's clip has to be brought into destination space with a non-zero offset; the image itself must stay untouched */
        pixman_image_composite32(PIXMAN_OP_OVER, t->shared_clipped, NULL, t->dst32, t->tid == 0 ? 1 : -1, t->tid == 2 ? 1 : 0, 0, 0, 0, 0, DW, DH); break;
    }
}

static uint64_t body_digest(tctx_t *t)
{
    uint64_t h = body_hash(t->d32, sizeof t->d32, 1);
    h = body_hash(t->dwide, sizeof t->dwide, h);
    h = body_hash(t->d16, sizeof t->d16, h); h = body_hash(t->d8, sizeof t->d8, h);
    if (t->tile8) for (int y = 0; y < 2; y++) { h = body_hash((const uint8_t *)t->tile8 + y * TILE_STRIDE_WORDS * 4 + 1 + 3 * t->tile_ix, 3, h); h = body_hash((const uint16_t *)t->tile16 + y * TILE_STRIDE_WORDS * 2 + 1 + 2 * t->tile_ix, 4, h); }
    int n; pixman_box32_t *b = pixman_region32_rectangles(&t->reg, &n);
    h = body_hash(b, sizeof(*b) * (size_t)n, h);
    return h;
}

/* harness table: per thread a short list of operations */
#define MAXT 3
#define MAXOPS 3
typedef struct { int nthreads; int nops[MAXT]; int ops[MAXT][MAXOPS]; } harness_t;

#endif
