/* C02 — every implementation (general, C fast paths, MMX, SSE2, SSSE3, wholeops on/off) is bit-identical.
 * Engine E1, differential oracle: each request is executed under every implementation configuration
 * (subset of PIXMAN_DISABLE names) and the whole destination buffer must equal the one produced by the
 * portable general path.  Non-vacuity is measured, not assumed: link-time wrappers around the library's
 * own dispatch functions record which fast-path table entry / iterator entry / combiner actually handled
 * each request, and the evidence lists the fraction of table entries reached.
 */
#include "vf.h"
#include "config.h"
#include "pixman-private.h"
#include "pixhelp.h"
#include "ref_combine.h"   /* operator names only */

/* ------------------------------------------------------------------ coverage via --wrap */
#define MAXTAB 16
#define MAXENT 512
typedef struct {
    const void *tab[MAXTAB]; int is_iter[MAXTAB]; int nent[MAXTAB]; char name[MAXTAB][24];
    int ntab;
    volatile uint8_t hit[MAXTAB][MAXENT];
    volatile uint8_t comb[8][PIXMAN_N_OPERATORS][4];      /* level x op x (narrow<<1|ca) */
    volatile uint64_t cache_mismatch;
    volatile uint8_t hot[1 << 20];                          /* phase-1 combos that reached a non-general fast path */
    volatile uint64_t general_only_requests, fastpath_requests;
} cov_t;
static cov_t *cov;
static const pixman_implementation_t *level_imp[8]; static int nlevels;   /* default chain, top first */
static volatile int cur_hot_combo = -1;

static int tab_index(const void *t) { for (int i = 0; i < cov->ntab; i++) if (cov->tab[i] == t) return i; return -1; }

void __real__pixman_implementation_lookup_composite(pixman_implementation_t *, pixman_op_t, pixman_format_code_t, uint32_t, pixman_format_code_t, uint32_t,
                                                     pixman_format_code_t, uint32_t, pixman_implementation_t **, pixman_composite_func_t *);
void __wrap__pixman_implementation_lookup_composite(pixman_implementation_t *toplevel, pixman_op_t op, pixman_format_code_t sf, uint32_t sfl,
                                                     pixman_format_code_t mf, uint32_t mfl, pixman_format_code_t df, uint32_t dfl,
                                                     pixman_implementation_t **out_imp, pixman_composite_func_t *out_func)
{
    __real__pixman_implementation_lookup_composite(toplevel, op, sf, sfl, mf, mfl, df, dfl, out_imp, out_func);
    if (!cov || ph_in_flush) return;
    /* independent table walk (no cache): which entry is the first match? */
    for (pixman_implementation_t *imp = toplevel; imp; imp = imp->fallback) {
        const pixman_fast_path_t *info = imp->fast_paths; int k = 0;
        for (; info->op != PIXMAN_OP_NONE; info++, k++) {
            if ((info->op == op || info->op == PIXMAN_OP_any) && (info->src_format == sf || info->src_format == PIXMAN_any) &&
                (info->mask_format == mf || info->mask_format == PIXMAN_any) && (info->dest_format == df || info->dest_format == PIXMAN_any) &&
                (info->src_flags & sfl) == info->src_flags && (info->mask_flags & mfl) == info->mask_flags && (info->dest_flags & dfl) == info->dest_flags) {
                int t = tab_index(imp->fast_paths);
                if (t >= 0 && k < MAXENT) cov->hit[t][k] = 1;
                if (info->func != *out_func) __atomic_add_fetch(&cov->cache_mismatch, 1, __ATOMIC_RELAXED);
                if (imp->fallback) { if (cur_hot_combo >= 0) cov->hot[cur_hot_combo] = 1; }
                return;
            }
        }
    }
}

void __real__pixman_implementation_iter_init(pixman_implementation_t *, pixman_iter_t *, pixman_image_t *, int, int, int, int, uint8_t *, iter_flags_t, uint32_t);
void __wrap__pixman_implementation_iter_init(pixman_implementation_t *imp0, pixman_iter_t *iter, pixman_image_t *image, int x, int y, int w, int h,
                                              uint8_t *buffer, iter_flags_t iter_flags, uint32_t image_flags)
{
    __real__pixman_implementation_iter_init(imp0, iter, image, x, y, w, h, buffer, iter_flags, image_flags);
    if (!cov || !image || ph_in_flush) return;
    pixman_format_code_t format = image->common.extended_format_code;
    for (pixman_implementation_t *imp = imp0; imp; imp = imp->fallback) {
        if (!imp->iter_info) continue;
        int k = 0;
        for (const pixman_iter_info_t *info = imp->iter_info; info->format != PIXMAN_null; info++, k++)
            if ((info->format == PIXMAN_any || info->format == format) && (info->image_flags & image_flags) == info->image_flags &&
                (info->iter_flags & iter_flags) == info->iter_flags) {
                int t = tab_index(imp->iter_info);
                if (t >= 0 && k < MAXENT) cov->hit[t][k] = 1;
                return;
            }
    }
}

pixman_combine_32_func_t __real__pixman_implementation_lookup_combiner(pixman_implementation_t *, pixman_op_t, pixman_bool_t, pixman_bool_t);
pixman_combine_32_func_t __wrap__pixman_implementation_lookup_combiner(pixman_implementation_t *imp0, pixman_op_t op, pixman_bool_t ca, pixman_bool_t narrow)
{
    pixman_combine_32_func_t f = __real__pixman_implementation_lookup_combiner(imp0, op, ca, narrow);
    if (!cov || ph_in_flush) return f;
    for (pixman_implementation_t *imp = imp0; imp; imp = imp->fallback) {
        pixman_combine_32_func_t g = narrow ? (ca ? imp->combine_32_ca[op] : imp->combine_32[op])
                                            : (pixman_combine_32_func_t)(ca ? imp->combine_float_ca[op] : imp->combine_float[op]);
        if (g) {
            /* identify the level by its combiner table contents (same functions in every chain) */
            for (int l = 0; l < nlevels; l++) {
                const pixman_implementation_t *li = level_imp[l];
                pixman_combine_32_func_t lg = narrow ? (ca ? li->combine_32_ca[op] : li->combine_32[op])
                                                     : (pixman_combine_32_func_t)(ca ? li->combine_float_ca[op] : li->combine_float[op]);
                if (lg == g) { cov->comb[l][op][(narrow << 1) | ca] = 1; break; }
            }
            return f;
        }
    }
    return f;
}

static void cov_init(void)
{
    cov = mmap(NULL, sizeof *cov, PROT_READ | PROT_WRITE, MAP_SHARED | MAP_ANONYMOUS, -1, 0);
    memset(cov, 0, sizeof *cov);
    static const char *lv[] = { "noop", "ssse3", "sse2", "mmx", "fast", "general", "?", "?" };
    int n = 0;
    for (pixman_implementation_t *imp = ph_imp[PH_CFG_DEFAULT]; imp; imp = imp->fallback) n++;
    int off = 6 - n; if (off < 0) off = 0;      /* fewer levels if the CPU lacks a feature */
    int l = 0;
    for (pixman_implementation_t *imp = ph_imp[PH_CFG_DEFAULT]; imp; imp = imp->fallback, l++) {
        level_imp[nlevels++] = imp;
        const char *nm = (n == 6) ? lv[l] : "level";
        if (imp->fast_paths) {
            int t = cov->ntab++; cov->tab[t] = imp->fast_paths; cov->is_iter[t] = 0; snprintf(cov->name[t], 24, "%s.fast_paths", nm);
            int k = 0; for (const pixman_fast_path_t *i = imp->fast_paths; i->op != PIXMAN_OP_NONE; i++) k++; cov->nent[t] = k;
        }
        if (imp->iter_info) {
            int t = cov->ntab++; cov->tab[t] = imp->iter_info; cov->is_iter[t] = 1; snprintf(cov->name[t], 24, "%s.iter_info", nm);
            int k = 0; for (const pixman_iter_info_t *i = imp->iter_info; i->format != PIXMAN_null; i++) k++; cov->nent[t] = k;
        }
    }
    (void)off;
}

/* ------------------------------------------------------------------ request alphabet */
typedef struct { const char *name; pixman_format_code_t fmt; int kind; } imgkind_t;   /* kind: 0 bits, 1 solid fill, 2 1x1 repeating bits, 3 linear gradient */
static const imgkind_t SRC[] = {
    { "a8r8g8b8", PIXMAN_a8r8g8b8, 0 }, { "x8r8g8b8", PIXMAN_x8r8g8b8, 0 }, { "a8b8g8r8", PIXMAN_a8b8g8r8, 0 }, { "x8b8g8r8", PIXMAN_x8b8g8r8, 0 },
    { "b8g8r8a8", PIXMAN_b8g8r8a8, 0 }, { "b8g8r8x8", PIXMAN_b8g8r8x8, 0 }, { "r5g6b5", PIXMAN_r5g6b5, 0 }, { "b5g6r5", PIXMAN_b5g6r5, 0 },
    { "a8", PIXMAN_a8, 0 }, { "a1", PIXMAN_a1, 0 }, { "r8g8b8", PIXMAN_r8g8b8, 0 }, { "a1r5g5b5", PIXMAN_a1r5g5b5, 0 }, { "a4r4g4b4", PIXMAN_a4r4g4b4, 0 },
    { "r3g3b2", PIXMAN_r3g3b2, 0 }, { "yuy2", PIXMAN_yuy2, 0 }, { "a2r10g10b10", PIXMAN_a2r10g10b10, 0 },
    { "b8g8r8", PIXMAN_b8g8r8, 0 }, { "x1r5g5b5", PIXMAN_x1r5g5b5, 0 }, { "tiled-16x2-a8r8g8b8", PIXMAN_a8r8g8b8, 4 },
    { "solid", PIXMAN_a8r8g8b8, 1 }, { "solid-opaque", PIXMAN_a8r8g8b8, 1 }, { "1x1-a8r8g8b8", PIXMAN_a8r8g8b8, 2 }, { "1x1-r5g6b5", PIXMAN_r5g6b5, 2 }, { "linear", PIXMAN_a8r8g8b8, 3 },
};
#define NSRC ((int)(sizeof SRC / sizeof SRC[0]))
typedef struct { const char *name; pixman_format_code_t fmt; int kind; int ca; } maskkind_t;   /* kind -1: none */
static const maskkind_t MASK[] = {
    { "none", 0, -1, 0 }, { "solid", PIXMAN_a8r8g8b8, 1, 0 }, { "a8", PIXMAN_a8, 0, 0 }, { "a8r8g8b8", PIXMAN_a8r8g8b8, 0, 0 },
    { "a8r8g8b8:ca", PIXMAN_a8r8g8b8, 0, 1 }, { "a1", PIXMAN_a1, 0, 0 }, { "solid:ca", PIXMAN_a8r8g8b8, 1, 1 }, { "a8b8g8r8:ca", PIXMAN_a8b8g8r8, 0, 1 },
    { "x8r8g8b8", PIXMAN_x8r8g8b8, 0, 0 }, { "1x1-a8", PIXMAN_a8, 2, 0 }, { "same-bits-as-source(pixbuf)", 0, 9, 0 },
};
#define NMASK ((int)(sizeof MASK / sizeof MASK[0]))
static const imgkind_t DST[] = {
    { "a8r8g8b8", PIXMAN_a8r8g8b8, 0 }, { "x8r8g8b8", PIXMAN_x8r8g8b8, 0 }, { "a8b8g8r8", PIXMAN_a8b8g8r8, 0 }, { "x8b8g8r8", PIXMAN_x8b8g8r8, 0 },
    { "b8g8r8a8", PIXMAN_b8g8r8a8, 0 }, { "b8g8r8x8", PIXMAN_b8g8r8x8, 0 }, { "r5g6b5", PIXMAN_r5g6b5, 0 }, { "b5g6r5", PIXMAN_b5g6r5, 0 },
    { "a8", PIXMAN_a8, 0 }, { "a1", PIXMAN_a1, 0 }, { "r8g8b8", PIXMAN_r8g8b8, 0 }, { "a1r5g5b5", PIXMAN_a1r5g5b5, 0 }, { "a4r4g4b4", PIXMAN_a4r4g4b4, 0 },
    { "a2r10g10b10", PIXMAN_a2r10g10b10, 0 }, { "b8g8r8", PIXMAN_b8g8r8, 0 }, { "x1r5g5b5", PIXMAN_x1r5g5b5, 0 },
};
#define NDST ((int)(sizeof DST / sizeof DST[0]))

#define IMGW 160
#define IMGH 4

typedef struct { pixman_image_t *img; uint32_t *buf; int stride; size_t size; } himg_t;

static uint32_t pat(int which, uint64_t i)
{
    static const uint8_t bb[16] = { 0x00, 0xff, 0x80, 0x7f, 0x01, 0xfe, 0x40, 0xc0, 0xff, 0x00, 0x81, 0x3f, 0xbf, 0x02, 0xff, 0x10 };
    if (which == 0 && (i % 7 == 2 || i % 7 == 3)) return 0;       /* runs of eight zero bytes (a8) / two transparent pixels (32 bpp): the SIMD loops skip whole blocks of zero mask or source */
    if (which == 0) return (uint32_t)bb[i & 15] << 24 | (uint32_t)bb[(i * 5 + 3) & 15] << 16 | (uint32_t)bb[(i * 3 + 7) & 15] << 8 | bb[(i * 7 + 1) & 15];
    uint64_t z = (i + 1) * 0x9e3779b97f4a7c15ULL; z ^= z >> 29; z *= 0xbf58476d1ce4e5b9ULL; z ^= z >> 32;
    return (uint32_t)z;
}

static himg_t make_img(const imgkind_t *k, int solid_variant, int w, int h, int extra_stride, int pattern, uint64_t salt)
{
    himg_t r; memset(&r, 0, sizeof r);
    if (k->kind == 1) {
        pixman_color_t c = { 0x4000, 0x2000, 0x1234, 0x8000 };
        if (solid_variant) { c.alpha = 0xffff; c.red = 0xffff; c.green = 0x8080; c.blue = 0x0101; }
        if (salt & 1) { c.red ^= 0x0f00; }
        r.img = pixman_image_create_solid_fill(&c);
        return r;
    }
    if (k->kind == 3) {
        pixman_point_fixed_t p1 = { 0, 0 }, p2 = { pixman_int_to_fixed(w), pixman_int_to_fixed(h) };
        pixman_gradient_stop_t stops[3] = { { 0, { 0xffff, 0, 0, 0xffff } }, { 0x8000, { 0, 0x8000, 0, 0x8000 } }, { 0x10000, { 0, 0, 0xffff, 0xffff } } };
        r.img = pixman_image_create_linear_gradient(&p1, &p2, stops, 3);
        pixman_image_set_repeat(r.img, PIXMAN_REPEAT_PAD);
        return r;
    }
    if (k->kind == 2) { w = 1; h = 1; }
    if (k->kind == 4) { w = 16; h = 2; }
    int bpp = PIXMAN_FORMAT_BPP(k->fmt);
    r.stride = ((w * bpp + 31) / 32) * 4 + extra_stride;
    r.size = (size_t)r.stride * h;
    r.buf = malloc(r.size + 64);
    for (size_t i = 0; i < (r.size + 3) / 4; i++) r.buf[i] = pat(pattern, i + salt * 977);
    if (k->fmt == PIXMAN_a8r8g8b8 && (salt & 2)) for (size_t i = 0; i < r.size / 4; i += 3) r.buf[i] |= 0xff000000;    /* some opaque pixels */
    r.img = pixman_image_create_bits(k->fmt, w, h, r.buf, r.stride);
    if (k->kind == 2 || k->kind == 4) pixman_image_set_repeat(r.img, PIXMAN_REPEAT_NORMAL);
    return r;
}
static void free_img(himg_t *h) { if (h->img) pixman_image_unref(h->img); free(h->buf); h->img = NULL; h->buf = NULL; }

/* configurations explored */
static int CFGS[PH_NCFG]; static int NCFGS;
static int REF_CFG = PH_CFG_GENERAL;

typedef struct { int op, src, mask, dst, src_x, mask_x, dest_x, w, h, extra_stride, pattern; } req_t;

static const int W_ALL[] = { 1, 2, 3, 4, 5, 6, 7, 8, 9, 10, 11, 12, 13, 14, 15, 16, 17, 18, 19, 31, 32, 33, 63, 64, 65, 127, 128, 129, 130 };
static const int W_QUICK[] = { 1, 2, 3, 4, 5, 7, 8, 9, 15, 16, 17, 19, 31, 33, 64, 65, 129 };

/* Execute one (op,src,mask,dst) combination over a geometry list under every configuration. */
typedef struct { int nops; const int *ops; int full_geometry; int transformed; } combo_ctx;

static void describe(char *buf, size_t cap, int op, int si, int mi, int di) { snprintf(buf, cap, "op=%s src=%s mask=%s dst=%s", rc_op_name(op), SRC[si].name, MASK[mi].name, DST[di].name); }

static void run_geometries(int op, int si, int mi, int di, int full, const pixman_transform_t *xf, int filter, int repeat, int xf_on_mask, const char *xfdesc)
{
    /* geometry list */
    struct { int w, h, dx, sx, mx, sy, my; } G[4096]; int ng = 0;
    memset(G, 0, sizeof G);
    const int *W = full ? W_ALL : W_QUICK; int nW = full ? (int)(sizeof W_ALL / sizeof W_ALL[0]) : (int)(sizeof W_QUICK / sizeof W_QUICK[0]);
    if (full == 2) {         /* loop-structure alphabet: every width x every destination alignment x source offsets */
        for (int wi = 0; wi < nW; wi++) for (int dx = 0; dx < 8; dx++) for (int sxi = 0; sxi < 3; sxi++) {
            static const int sxs[3] = { 0, 1, 3 };
            G[ng].w = W[wi]; G[ng].h = (wi & 1) + 1; G[ng].dx = dx; G[ng].sx = sxs[sxi]; G[ng].mx = sxs[(sxi + 1) % 3]; ng++;
        }
    } else if (full == 1) {
        for (int wi = 0; wi < nW; wi += 2) for (int dx = 0; dx < 8; dx += 3) { G[ng].w = W[wi]; G[ng].h = 2; G[ng].dx = dx; G[ng].sx = dx == 3 ? 1 : 0; G[ng].mx = dx == 6 ? 3 : 0; ng++; }
    } else {
        static const int ws[] = { 1, 7, 16, 33, 70 };
        for (int wi = 0; wi < 5; wi++) for (int dx = 0; dx < 4; dx += 3) { G[ng].w = ws[wi]; G[ng].h = 1 + (wi & 1); G[ng].dx = dx; G[ng].sx = wi & 1; G[ng].mx = (wi >> 1) & 1; ng++; }
    }
    char desc[256], cfgn[64];
    for (int variant = 0; variant < 2; variant++) {       /* stride / pattern variant */
        himg_t s = make_img(&SRC[si], !strcmp(SRC[si].name, "solid-opaque"), IMGW, IMGH, variant ? 4 : 0, variant, 1 + variant * 2);
        himg_t m; memset(&m, 0, sizeof m);
        if (MASK[mi].kind == 9) {
            /* mask shares the source's pixel storage: the library then selects its 'pixbuf' pseudo-formats */
            if (s.buf && SRC[si].kind == 0) {
                pixman_format_code_t mf = SRC[si].fmt == PIXMAN_x8b8g8r8 ? PIXMAN_a8b8g8r8 : SRC[si].fmt == PIXMAN_x8r8g8b8 ? PIXMAN_a8r8g8b8 : SRC[si].fmt;
                if (PIXMAN_FORMAT_BPP(mf) == 32) m.img = pixman_image_create_bits(mf, IMGW, IMGH, s.buf, s.stride);
            }
            /* equal offsets select the library's 'pixbuf' pseudo-formats; unequal offsets must NOT (every other geometry) */
            for (int g = 0; g < ng; g += 2) G[g].mx = G[g].sx;
            for (int g = 1; g < ng; g += 2) if (G[g].mx == G[g].sx) G[g].mx = G[g].sx + 2;
            /* ... in both directions: every combination of source and mask origins in {0,1}^4 (only equal origins are a pixbuf) */
            for (int q = 0; q < 16 && ng < 4090; q++) { G[ng].w = 33; G[ng].h = 2; G[ng].dx = q & 3; G[ng].sx = q & 1; G[ng].sy = q >> 1 & 1; G[ng].mx = q >> 2 & 1; G[ng].my = q >> 3 & 1; ng++; }
        } else if (MASK[mi].kind >= 0) { imgkind_t mk = { MASK[mi].name, MASK[mi].fmt, MASK[mi].kind }; m = make_img(&mk, 0, IMGW, IMGH, variant ? 8 : 0, !variant, 5 + variant); if (MASK[mi].ca) pixman_image_set_component_alpha(m.img, ph_truthy((uint64_t)si + (uint64_t)di + (uint64_t)variant)); }
        himg_t d = make_img(&DST[di], 0, IMGW, IMGH, variant ? 4 : 0, variant, 9);
        if (!s.img || !d.img) { free_img(&s); free_img(&m); free_img(&d); return; }
        if (xf) {
            pixman_image_t *t = xf_on_mask ? m.img : s.img;
            if (t) {
                pixman_image_set_transform(t, xf); pixman_image_set_repeat(t, repeat);
                if (filter == 0) pixman_image_set_filter(t, PIXMAN_FILTER_NEAREST, NULL, 0);
                else if (filter == 1) pixman_image_set_filter(t, PIXMAN_FILTER_BILINEAR, NULL, 0);
                else if (filter == 2) {
                    static const pixman_fixed_t k[2 + 9] = { 3 << 16, 3 << 16, 0x1000, 0x2000, 0x1000, 0x2000, 0x4000, 0x2000, 0x1000, 0x2000, 0x1000 };
                    pixman_image_set_filter(t, PIXMAN_FILTER_CONVOLUTION, k, 11);
                } else if ((di + si) & 1) {
                    int n; pixman_fixed_t *p = pixman_filter_create_separable_convolution(&n, 0x18000, 0x10000, PIXMAN_KERNEL_LINEAR, PIXMAN_KERNEL_BOX, PIXMAN_KERNEL_BOX, PIXMAN_KERNEL_BOX, 2, 1);
                    if (p) { pixman_image_set_filter(t, PIXMAN_FILTER_SEPARABLE_CONVOLUTION, p, n); free(p); }
                } else {
                    /* a sharp hand-made table: 3x2 taps, 2 x-phases, 1 y-phase, dominant taps 0.75 and 1.25 (products of two taps exceed 1/2 and 1),
                     * a negative lobe and a zero tap */
                    static const pixman_fixed_t sharp[4 + 6 + 2] = { 3 << 16, 2 << 16, 1 << 16, 0,
                                                                     0x2000, 0xc000, 0x2000,   -0x2000, 0x14000, -0x2000,
                                                                     0xc000, 0x4000 };
                    pixman_image_set_filter(t, PIXMAN_FILTER_SEPARABLE_CONVOLUTION, sharp, 12);
                }
            }
        }
        uint32_t undef32 = 0;
        int dbpp = PIXMAN_FORMAT_BPP(DST[di].fmt);
        { ph_fmt_t df; ph_fmt_describe(DST[di].fmt, DST[di].name, &df); undef32 = ~ph_defined_mask(&df) & (dbpp == 32 ? 0xffffffffu : ((1u << dbpp) - 1)); }
        uint8_t *d0 = malloc(d.size), *ref = malloc(d.size * (size_t)ng);
        memcpy(d0, d.buf, d.size);
        if (variant == 1 && di % 2 == 0) {
            /* two-rectangle clip on the destination */
            pixman_region32_t clip; pixman_box32_t bx[2] = { { 0, 0, 70, 1 }, { 5, 1, IMGW, IMGH } };
            pixman_region32_init_rects(&clip, bx, 2); pixman_image_set_clip_region32(d.img, &clip); pixman_region32_fini(&clip);
        }
        for (int ci = -1; ci < NCFGS && !vf_failed(); ci++) {
            int cfg = ci < 0 ? REF_CFG : CFGS[ci];
            if (ci >= 0 && cfg == REF_CFG) continue;
            ph_set_cfg(cfg);
            for (int g = 0; g < ng; g++) {
                memcpy(d.buf, d0, d.size);
                pixman_image_composite32(op, s.img, m.img, d.img, G[g].sx, G[g].sy, G[g].mx, G[g].my, G[g].dx, 0, G[g].w, G[g].h);
                if (undef32) {
                    /* the value written into an 'x' channel is undefined: not compared (row padding still is) */
                    for (int yy = 0; yy < IMGH; yy++) {
                        uint8_t *row = (uint8_t *)d.buf + (size_t)yy * d.stride;
                        for (int xx = 0; xx < IMGW; xx++) ph_put_pixel(row, dbpp, xx, ph_get_pixel(row, dbpp, xx) & ~undef32);
                    }
                }
                if (ci < 0) memcpy(ref + (size_t)g * d.size, d.buf, d.size);
                else if (memcmp(ref + (size_t)g * d.size, d.buf, d.size)) {
                    size_t off = 0; while (off < d.size && ref[(size_t)g * d.size + off] == ((uint8_t *)d.buf)[off]) off++;
                    describe(desc, sizeof desc, op, si, mi, di);
                    vf_violation("c02-impl-differs", "%s %s variant=%d w=%d h=%d dest_x=%d src=(%d,%d) mask=(%d,%d): PIXMAN_DISABLE=[%s] differs from the general path at byte %zu (row %zu, byte-in-row %zu): %02x vs %02x",
                                 desc, xfdesc, variant, G[g].w, G[g].h, G[g].dx, G[g].sx, G[g].sy, G[g].mx, G[g].my, ph_cfg_name(cfg, cfgn, sizeof cfgn), off, off / d.stride, off % d.stride,
                                 ((uint8_t *)d.buf)[off], ref[(size_t)g * d.size + off]);
                    break;
                }
            }
            vf_count_libcalls(ng);
        }
        if (!vf_in_confirm) {
            uint64_t h = vf_hash64(ref, d.size * (size_t)ng, (uint64_t)op);
            vf_outcome(h);
            uint64_t nt = 0; for (int g = 0; g < ng; g++) if (memcmp(ref + (size_t)g * d.size, d0, d.size)) nt++;
            vf_count_eval(ng); vf_count_nontrivial(nt);
        }
        free(d0); free(ref);
        free_img(&s); free_img(&m); free_img(&d);
        if (vf_failed()) return;
    }
}

static int combo_id(int oi, int si, int mi, int di) { return ((oi * NSRC + si) * NMASK + mi) * NDST + di; }

/* phase 1: every (op, src, mask, dst) over a small geometry set */
typedef struct { int nops; const int *ops; } p1_ctx;
static void p1_case(uint64_t idx, void *vctx)
{
    p1_ctx *c = vctx;
    int di = (int)(idx % NDST); idx /= NDST; int mi = (int)(idx % NMASK); idx /= NMASK; int si = (int)(idx % NSRC); idx /= NSRC; int oi = (int)idx;
    cur_hot_combo = combo_id(oi, si, mi, di);
    /* the tiled-repeat pseudo fast path matches every combination: only three operators of it go on to phase 2 */
    if (SRC[si].kind == 4 && !(c->ops[oi] == PIXMAN_OP_SRC || c->ops[oi] == PIXMAN_OP_OVER || c->ops[oi] == PIXMAN_OP_ADD)) cur_hot_combo = -1;
    run_geometries(c->ops[oi], si, mi, di, 0, NULL, 0, 0, 0, "untransformed");
    cur_hot_combo = -1;
    if (vf_want_sample() && !vf_in_confirm && si == 6 && mi == 2 && di == 0) { char d[200]; describe(d, sizeof d, c->ops[oi], si, mi, di); vf_sample("phase1 %s: 8 geometries x 2 stride/pattern/clip variants x %d configurations, byte-compared with the general path", d, NCFGS); }
}

/* phase 2: combos that reached a fast path, over the loop-structure geometry alphabet */
typedef struct { int n; int *combo; const int *ops; int full; } p2_ctx;
static void p2_case(uint64_t idx, void *vctx)
{
    p2_ctx *c = vctx; int id = c->combo[idx];
    int di = id % NDST; id /= NDST; int mi = id % NMASK; id /= NMASK; int si = id % NSRC; id /= NSRC; int oi = id;
    run_geometries(c->ops[oi], si, mi, di, c->full, NULL, 0, 0, 0, "untransformed");
    if (vf_want_sample() && !vf_in_confirm && idx % 97 == 5) { char d[200]; describe(d, sizeof d, c->ops[oi], si, mi, di); vf_sample("phase2 %s: widths x dest_x 0..7 x src offsets, %d configurations", d, NCFGS); }
}

/* phase 3: transformed sources */
static const struct { const char *name; int m[6]; } XF[] = {    /* 16.16: xx xy x0 / yx yy y0 */
    { "scale2", { 0x20000, 0, 0, 0, 0x20000, 0 } }, { "scale1/2", { 0x8000, 0, 0, 0, 0x8000, 0 } }, { "scale3/2+e", { 0x18000, 0, 1, 0, 0x18000, 0 } },
    { "scale1+half", { 0x10000, 0, 0x8000, 0, 0x10000, 0x8000 } }, { "flipx", { -0x10000, 0, 100 << 16, 0, 0x10000, 0 } },
    { "scale0.37", { 0x5eb8, 0, 0x1234, 0, 0x10000, 0 } }, { "scalex-only3", { 0x30000, 0, 0, 0, 0x10000, 0 } },
    { "rot90", { 0, 0x10000, 0, -0x10000, 0, IMGH << 16 } }, { "rot180", { -0x10000, 0, 60 << 16, 0, -0x10000, IMGH << 16 } }, { "rot270", { 0, -0x10000, IMGH << 16, 0x10000, 0, 0 } },
    { "shear", { 0x10000, 0x4000, 0, 0x2000, 0x10000, 0 } }, { "translate-far", { 0x10000, 0, -(20 << 16), 0, 0x10000, 0 } },
    /* no transform at all, but still a filter / repeat: the untransformed iterators and fast paths have to decline what they cannot do */
    { "identity", { 0x10000, 0, 0, 0, 0x10000, 0 } }, { "translate-int", { 0x10000, 0, 2 << 16, 0, 0x10000, 1 << 16 } },
};
#define NXF ((int)(sizeof XF / sizeof XF[0]))
static const int XSRC[] = { 0, 1, 6, 8, 2, 3 };          /* a8r8g8b8 x8r8g8b8 r5g6b5 a8 a8b8g8r8 x8b8g8r8 */
static const int XMASK[] = { 0, 1, 2, 4 };               /* none solid a8 a8r8g8b8:ca (the iterators see the mask: a component-alpha pixel with alpha 0 still lets colour through) */
static const int XDST[] = { 0, 1, 6, 8, 2, 3 };
static const int XOPS[] = { PIXMAN_OP_SRC, PIXMAN_OP_OVER, PIXMAN_OP_ADD, PIXMAN_OP_OUT_REVERSE, PIXMAN_OP_IN };
typedef struct { int full; } p3_ctx;
static void p3_case(uint64_t idx, void *vctx)
{
    p3_ctx *c = vctx;
    int rep = (int)(idx % 4); idx /= 4; int fil = (int)(idx % 4); idx /= 4; int xi = (int)(idx % NXF); idx /= NXF;
    int di = XDST[idx % 6]; idx /= 6; int mi = XMASK[idx % 4]; idx /= 4; int si = XSRC[idx % 6]; idx /= 6; int op = XOPS[idx % 5]; idx /= 5;
    int on_mask = (int)idx;     /* 0: transform on the source; 1: on the mask (only for a8 masks) */
    if (on_mask && mi != 2) return;
    pixman_transform_t t; pixman_transform_init_identity(&t);
    t.matrix[0][0] = XF[xi].m[0]; t.matrix[0][1] = XF[xi].m[1]; t.matrix[0][2] = XF[xi].m[2];
    t.matrix[1][0] = XF[xi].m[3]; t.matrix[1][1] = XF[xi].m[4]; t.matrix[1][2] = XF[xi].m[5];
    static const pixman_repeat_t reps[4] = { PIXMAN_REPEAT_NONE, PIXMAN_REPEAT_NORMAL, PIXMAN_REPEAT_PAD, PIXMAN_REPEAT_REFLECT };
    static const char *fn[4] = { "nearest", "bilinear", "convolution3x3", "separable-convolution" };
    if (fil >= 2 && (op == PIXMAN_OP_OUT_REVERSE || op == PIXMAN_OP_IN)) return;     /* convolution filters: 3 operators are enough */
    if (fil >= 2 && !c->full && (op != PIXMAN_OP_SRC || mi != 0)) return;            /* quick tier: convolution filters with SRC, unmasked only */
    char xd[96]; snprintf(xd, sizeof xd, "transform=%s(on %s) filter=%s repeat=%d", XF[xi].name, on_mask ? "mask" : "source", fn[fil], rep);
    run_geometries(op, si, mi, di, c->full, &t, fil, reps[rep], on_mask, xd);
    if (vf_want_sample() && !vf_in_confirm && idx == 0 && xi == 2 && rep == 2) { char d[200]; describe(d, sizeof d, op, si, mi, di); vf_sample("phase3 %s %s", d, xd); }
}

/* phase 5: exact 90/180/270 degree rotations of sources large enough that all samples are covered (the rotate fast paths
 * tile the destination span in 64-byte blocks with unaligned leading and trailing parts) */
#define RS 132
static void p5_case(uint64_t idx, void *vctx)
{
    static const int widths[] = { 1, 7, 15, 16, 17, 31, 32, 33, 40, 47, 63, 64, 65, 70, 97, 128 };
    static const pixman_format_code_t fm[4] = { PIXMAN_a8r8g8b8, PIXMAN_x8r8g8b8, PIXMAN_r5g6b5, PIXMAN_a8 };
    static const char *fmn[4] = { "a8r8g8b8", "x8r8g8b8", "r5g6b5", "a8" };
    int rot = (int)(idx % 3); idx /= 3; int fi = (int)(idx % 4); idx /= 4; int wi = (int)(idx % 16); idx /= 16; int dx = (int)(idx % 4); idx /= 4; int h = (idx % 2) ? 5 : 1; idx /= 2; int op = (idx % 2) ? PIXMAN_OP_OVER : PIXMAN_OP_SRC;
    static const int dxs[4] = { 0, 1, 3, 16 };
    int w = widths[wi]; dx = dxs[dx];
    int bpp = PIXMAN_FORMAT_BPP(fm[fi]);
    int sstride = ((RS * bpp + 31) / 32) * 4, dstride = ((160 * bpp + 31) / 32) * 4 + 4;
    uint32_t *sb = malloc((size_t)sstride * RS + 64), *db = malloc((size_t)dstride * 8 + 64), *d0 = malloc((size_t)dstride * 8 + 64), *ref = malloc((size_t)dstride * 8 + 64);
    for (size_t i = 0; i < ((size_t)sstride * RS + 3) / 4; i++) sb[i] = pat(1, i);
    for (size_t i = 0; i < ((size_t)dstride * 8 + 3) / 4; i++) d0[i] = pat(0, i + 31);
    pixman_image_t *src = pixman_image_create_bits(fm[fi], RS, RS, sb, sstride);
    pixman_image_t *dst = pixman_image_create_bits(fm[fi], 160, 8, db, dstride);
    pixman_transform_t t; memset(&t, 0, sizeof t); t.matrix[2][2] = pixman_fixed_1;
    if (rot == 0) { t.matrix[0][1] = pixman_fixed_1; t.matrix[1][0] = -pixman_fixed_1; t.matrix[1][2] = pixman_int_to_fixed(RS); }                    /* 90 */
    else if (rot == 1) { t.matrix[0][0] = -pixman_fixed_1; t.matrix[1][1] = -pixman_fixed_1; t.matrix[0][2] = pixman_int_to_fixed(RS); t.matrix[1][2] = pixman_int_to_fixed(RS); }  /* 180 */
    else { t.matrix[0][1] = -pixman_fixed_1; t.matrix[1][0] = pixman_fixed_1; t.matrix[0][2] = pixman_int_to_fixed(RS); }                              /* 270 */
    pixman_image_set_transform(src, &t);
    pixman_image_set_filter(src, PIXMAN_FILTER_NEAREST, NULL, 0);
    size_t dsz = (size_t)dstride * 8; char cfgn[64];
    uint32_t undef = 0; { ph_fmt_t df; ph_fmt_describe(fm[fi], fmn[fi], &df); undef = ~ph_defined_mask(&df) & (bpp == 32 ? 0xffffffffu : ((1u << bpp) - 1)); }
    for (int ci = -1; ci < NCFGS && !vf_failed(); ci++) {
        int cfg = ci < 0 ? REF_CFG : CFGS[ci]; if (ci >= 0 && cfg == REF_CFG) continue;
        ph_set_cfg(cfg);
        memcpy(db, d0, dsz);
        pixman_image_composite32(op, src, NULL, dst, 2, 1, 0, 0, dx, 1, w, h);
        vf_count_libcalls(1);
        if (undef) for (int yy = 0; yy < 8; yy++) { uint8_t *row = (uint8_t *)db + (size_t)yy * dstride; for (int xx = 0; xx < 160; xx++) ph_put_pixel(row, bpp, xx, ph_get_pixel(row, bpp, xx) & ~undef); }
        if (ci < 0) memcpy(ref, db, dsz);
        else if (memcmp(ref, db, dsz)) {
            size_t off = 0; while (off < dsz && ((uint8_t *)ref)[off] == ((uint8_t *)db)[off]) off++;
            vf_violation("c02-impl-differs", "op=%s %s rotate=%d nearest, covering %dx%d source, dest_x=%d width=%d height=%d: PIXMAN_DISABLE=[%s] differs from the general path at byte %zu (row %zu, pixel %zu)",
                         op == PIXMAN_OP_SRC ? "SRC" : "OVER", fmn[fi], rot == 0 ? 90 : rot == 1 ? 180 : 270, RS, RS, dx, w, h, ph_cfg_name(cfg, cfgn, sizeof cfgn), off, off / dstride, (off % dstride) * 8 / bpp);
        }
    }
    if (!vf_in_confirm) { vf_count_eval(1); if (memcmp(ref, d0, dsz)) vf_count_nontrivial(1); vf_outcome(vf_hash64(ref, dsz, 77)); }
    pixman_image_unref(src); pixman_image_unref(dst); free(sb); free(db); free(d0); free(ref);
}

/* phase 6: a request that follows another request.  Dispatch decisions are cached per thread; a request that differs from its
 * predecessor in ONE property of ONE image (accessors, alpha map, transform, repeat, component alpha) must still be handled by a path
 * that honours the property - under every configuration, and so identically.  Request A (plain images) is issued first, then request B;
 * the configuration switch flushes the cache, so B is the first lookup after A in every configuration. */
static uint32_t p6_read(const void *p, int size) { switch (size) { case 1: return *(const uint8_t *)p ^ 0x01u; case 2: return *(const uint16_t *)p ^ 0x0101u; default: return *(const uint32_t *)p ^ 0x01010101u; } }
static void p6_write(void *p, uint32_t v, int size) { switch (size) { case 1: *(uint8_t *)p = (uint8_t)(v ^ 0x01u); break; case 2: *(uint16_t *)p = (uint16_t)(v ^ 0x0101u); break; default: *(uint32_t *)p = v ^ 0x01010101u; } }
enum { V6_DST_ACC, V6_SRC_ACC, V6_MASK_ACC, V6_DST_AMAP, V6_SRC_AMAP, V6_SRC_XF, V6_SRC_REPEAT, V6_MASK_CA, V6_MASK_XF, NV6 };
static const char *V6N[NV6] = { "destination gets accessors", "source gets accessors", "mask gets accessors", "destination gets an alpha map", "source gets an alpha map",
                                "source gets a scale-2 transform", "source gets REPEAT_REFLECT and an origin outside", "mask switches component alpha", "mask gets a half-pixel translation (bilinear)" };
typedef struct { int n; int *combo; const int *ops; } p6_ctx;
/* shadowed: the image has an alpha map, so its own alpha bits are not part of its pixels' values (they are never read); whether a request
 * that leaves the pixel values unchanged rewrites them (from the map) or not is not observable through the image */
static void p6_mask_undef(himg_t *d, int di, int shadowed_alpha)
{
    int dbpp = PIXMAN_FORMAT_BPP(DST[di].fmt); ph_fmt_t df; ph_fmt_describe(DST[di].fmt, DST[di].name, &df);
    uint32_t undef32 = ~ph_defined_mask(&df) & (dbpp == 32 ? 0xffffffffu : ((1u << dbpp) - 1));
    if (shadowed_alpha && df.aw) undef32 |= ((1u << df.aw) - 1) << df.as;
    if (!undef32) return;
    for (int yy = 0; yy < IMGH; yy++) { uint8_t *row = (uint8_t *)d->buf + (size_t)yy * d->stride; for (int xx = 0; xx < IMGW; xx++) ph_put_pixel(row, dbpp, xx, ph_get_pixel(row, dbpp, xx) & ~undef32); }
}
static void p6_case(uint64_t idx, void *vctx)
{
    p6_ctx *c = vctx; int var = (int)(idx % NV6); int id = c->combo[idx / NV6];
    int di = id % NDST; id /= NDST; int mi = id % NMASK; id /= NMASK; int si = id % NSRC; id /= NSRC; int op = c->ops[id];
    if (MASK[mi].kind == 9) return;                                        /* shared-storage masks: phase 1/2 */
    int has_mask_bits = MASK[mi].kind == 0 || MASK[mi].kind == 2 || MASK[mi].kind == 4;
    if ((var == V6_MASK_ACC || var == V6_MASK_XF) && !has_mask_bits) return;
    if (var == V6_MASK_CA && MASK[mi].kind < 0) return;
    if ((var == V6_SRC_ACC || var == V6_SRC_AMAP) && SRC[si].kind != 0) return;
    if ((var == V6_SRC_XF || var == V6_SRC_REPEAT) && SRC[si].kind != 0) return;
    himg_t s = make_img(&SRC[si], !strcmp(SRC[si].name, "solid-opaque"), IMGW, IMGH, 0, 0, 1), s2 = make_img(&SRC[si], !strcmp(SRC[si].name, "solid-opaque"), IMGW, IMGH, 0, 0, 1);
    himg_t m, m2; memset(&m, 0, sizeof m); memset(&m2, 0, sizeof m2);
    if (MASK[mi].kind >= 0) { imgkind_t mk = { MASK[mi].name, MASK[mi].fmt, MASK[mi].kind }; m = make_img(&mk, 0, IMGW, IMGH, 0, 1, 5); m2 = make_img(&mk, 0, IMGW, IMGH, 0, 1, 5);
                               if (MASK[mi].ca) { pixman_image_set_component_alpha(m.img, ph_truthy((uint64_t)si + (uint64_t)di)); pixman_image_set_component_alpha(m2.img, ph_truthy((uint64_t)si + (uint64_t)di + 1)); } }
    himg_t d = make_img(&DST[di], 0, IMGW, IMGH, 0, 0, 9), d2 = make_img(&DST[di], 0, IMGW, IMGH, 0, 0, 9);
    static uint8_t amap_bits[IMGH][IMGW + 4], ref_amap[IMGH][IMGW + 4];
    pixman_image_t *amap = NULL;
    if (!s.img || !d.img || !s2.img || !d2.img) goto out;
    pixman_transform_t t2, th; pixman_transform_init_scale(&t2, 0x20000, 0x20000); pixman_transform_init_translate(&th, 0x8000, 0);
    switch (var) {
    case V6_DST_ACC: pixman_image_set_accessors(d2.img, p6_read, p6_write); break;
    case V6_SRC_ACC: pixman_image_set_accessors(s2.img, p6_read, p6_write); break;
    case V6_MASK_ACC: pixman_image_set_accessors(m2.img, p6_read, p6_write); break;
    case V6_DST_AMAP: case V6_SRC_AMAP:
        for (int y = 0; y < IMGH; y++) for (int x = 0; x < IMGW + 4; x++) amap_bits[y][x] = (uint8_t)(0x20 + 29 * ((x + 3 * y) % 8));
        amap = pixman_image_create_bits(PIXMAN_a8, IMGW, IMGH, (uint32_t *)&amap_bits[0][0], IMGW + 4);
        pixman_image_set_alpha_map(var == V6_DST_AMAP ? d2.img : s2.img, amap, 0, 0); break;
    case V6_SRC_XF: pixman_image_set_transform(s2.img, &t2); break;
    case V6_SRC_REPEAT: pixman_image_set_repeat(s2.img, PIXMAN_REPEAT_REFLECT); break;
    case V6_MASK_CA: pixman_image_set_component_alpha(m2.img, !MASK[mi].ca); break;
    case V6_MASK_XF: pixman_image_set_transform(m2.img, &th); pixman_image_set_filter(m2.img, PIXMAN_FILTER_BILINEAR, NULL, 0); break;
    }
    {
        uint8_t *d0 = malloc(d.size), *ref1 = malloc(d.size), *ref2 = malloc(d.size); memcpy(d0, d.buf, d.size);
        int sxB = var == V6_SRC_REPEAT ? -5 : 0;
        char desc[256], cfgn[64];
        for (int ci = -1; ci < NCFGS && !vf_failed(); ci++) {
            int cfg = ci < 0 ? REF_CFG : CFGS[ci]; if (ci >= 0 && cfg == REF_CFG) continue;
            ph_set_cfg(cfg);
            memcpy(d.buf, d0, d.size); memcpy(d2.buf, d0, d.size);
            for (int y = 0; y < IMGH; y++) for (int x = 0; x < IMGW + 4; x++) amap_bits[y][x] = (uint8_t)(0x20 + 29 * ((x + 3 * y) % 8));   /* a destination's alpha map is written too */
            pixman_image_composite32(op, s.img, m.img, d.img, 0, 0, 0, 0, 1, 0, 33, 2);                               /* request A */
            pixman_image_composite32(op, s2.img, m2.img, d2.img, sxB, 0, 0, 0, 1, 0, 33, 2);                          /* request B */
            vf_count_libcalls(2);
            p6_mask_undef(&d, di, 0); p6_mask_undef(&d2, di, var == V6_DST_AMAP);
            if (ci < 0) { memcpy(ref1, d.buf, d.size); memcpy(ref2, d2.buf, d.size); memcpy(ref_amap, amap_bits, sizeof amap_bits); }
            else if (var == V6_DST_AMAP && memcmp(ref_amap, amap_bits, sizeof amap_bits) && !memcmp(ref1, d.buf, d.size) && !memcmp(ref2, d2.buf, d.size)) {
                describe(desc, sizeof desc, op, si, mi, di);
                vf_violation("c02-impl-differs-after-previous-request", "%s: request A on plain images, then request B where the %s: PIXMAN_DISABLE=[%s] leaves other bytes in the destination's alpha map than the general path",
                             desc, V6N[var], ph_cfg_name(cfg, cfgn, sizeof cfgn));
            }
            else if (memcmp(ref1, d.buf, d.size) || memcmp(ref2, d2.buf, d.size)) {
                int second = memcmp(ref1, d.buf, d.size) == 0; const uint8_t *r = second ? ref2 : ref1, *g = (const uint8_t *)(second ? d2.buf : d.buf);
                size_t off = 0; while (off < d.size && r[off] == g[off]) off++;
                describe(desc, sizeof desc, op, si, mi, di);
                vf_violation("c02-impl-differs-after-previous-request", "%s: request A on plain images, then request B where the %s: PIXMAN_DISABLE=[%s] differs from the general path in the result of request %s "
                             "at byte %zu (row %zu, byte-in-row %zu): %02x vs %02x", desc, V6N[var], ph_cfg_name(cfg, cfgn, sizeof cfgn), second ? "B" : "A", off, off / d.stride, off % d.stride, g[off], r[off]);
            }
        }
        if (!vf_in_confirm) { vf_count_eval(2); vf_count_nontrivial((memcmp(ref1, d0, d.size) != 0) + (memcmp(ref2, d0, d.size) != 0)); vf_outcome(vf_mix(vf_hash64(ref2, d.size, (uint64_t)op), (uint64_t)var)); }
        free(d0); free(ref1); free(ref2);
    }
out:
    free_img(&s); free_img(&s2); free_img(&m); free_img(&m2); free_img(&d); free_img(&d2);
    if (amap) pixman_image_unref(amap);
}

/* phase 7: the other drawing entry points (glyphs, trapezoids / triangles, gradient sources with every repeat, fills) under every configuration */
enum { E7_GLYPHS_MASK, E7_GLYPHS_NO_MASK, E7_TRAPEZOIDS, E7_TRIANGLES, E7_GRADIENT, E7_FILL_RECTS, NE7 };
static const char *E7N[NE7] = { "composite_glyphs", "composite_glyphs_no_mask", "composite_trapezoids", "composite_triangles", "gradient source", "fill_rectangles" };
static const pixman_format_code_t D7[] = { PIXMAN_a8r8g8b8, PIXMAN_x8r8g8b8, PIXMAN_r5g6b5, PIXMAN_a8, PIXMAN_a8b8g8r8, PIXMAN_a2r10g10b10, PIXMAN_a1, PIXMAN_r8g8b8 };
static const char *D7N[] = { "a8r8g8b8", "x8r8g8b8", "r5g6b5", "a8", "a8b8g8r8", "a2r10g10b10", "a1", "r8g8b8" };
#define ND7 8
static const int O7[] = { PIXMAN_OP_SRC, PIXMAN_OP_OVER, PIXMAN_OP_ADD, PIXMAN_OP_IN, PIXMAN_OP_OUT_REVERSE, PIXMAN_OP_ATOP_REVERSE, PIXMAN_OP_SATURATE, PIXMAN_OP_SCREEN };
#define NO7 8
#define W7 48
#define H7 6
static void p7_case(uint64_t idx, void *vctx)
{
    (void)vctx;
    int dims[5] = { 12, NO7, ND7, 3, NE7 }, d[5];
    vf_decode(idx, dims, 5, d);
    int var = d[0], op = O7[d[1]], di = d[2], srck = d[3], ep = d[4];
    int bpp = PIXMAN_FORMAT_BPP(D7[di]); int stride = ((W7 * bpp + 31) / 32) * 4 + 4; size_t dsz = (size_t)stride * H7;
    uint32_t *db = malloc(dsz + 16), *d0 = malloc(dsz + 16), *ref = malloc(dsz + 16);
    for (size_t i = 0; i < (dsz + 3) / 4; i++) d0[i] = pat(var & 1, i + 17);
    pixman_image_t *dst = pixman_image_create_bits(D7[di], W7, H7, db, stride);
    /* source for glyph / trapezoid requests: solid, bits, gradient */
    pixman_color_t col = { 0x8000, 0x4000, 0xc000, 0xc000 };
    static uint32_t sbits[H7 + 4][W7 + 8];
    for (int y = 0; y < H7 + 4; y++) for (int x = 0; x < W7 + 8; x++) sbits[y][x] = pat(1, (uint64_t)(y * 64 + x));
    pixman_point_fixed_t p1 = { 0x8000, 0 }, p2 = { (W7 / 3) << 16, (H7 / 2) << 16 }, c2 = { (W7 / 2) << 16, 2 << 16 };
    pixman_gradient_stop_t stops[3] = { { 0, { 0xffff, 0, 0, 0xffff } }, { 0x6000, { 0, 0x8000, 0, 0x8000 } }, { 0x10000, { 0, 0, 0xffff, 0xc000 } } };
    pixman_image_t *src = NULL;
    if (ep == E7_GRADIENT) {
        int gk = var % 3, rep = var / 3;     /* 3 gradient kinds x 4 repeats */
        src = gk == 0 ? pixman_image_create_linear_gradient(&p1, &p2, stops, 3) : gk == 1 ? pixman_image_create_radial_gradient(&p1, &c2, 0x8000, 5 << 16, stops, 3) : pixman_image_create_conical_gradient(&c2, 40 << 16, stops, 3);
        static const pixman_repeat_t reps[4] = { PIXMAN_REPEAT_NONE, PIXMAN_REPEAT_NORMAL, PIXMAN_REPEAT_PAD, PIXMAN_REPEAT_REFLECT };
        pixman_image_set_repeat(src, reps[rep]);
        if (srck == 1) { pixman_transform_t t; pixman_transform_init_scale(&t, 0x18000, 0xc000); pixman_image_set_transform(src, &t); }
    } else if (srck == 0) src = pixman_image_create_solid_fill(&col);
    else if (srck == 1) src = pixman_image_create_bits(PIXMAN_a8r8g8b8, W7 + 8, H7 + 4, &sbits[0][0], (W7 + 8) * 4);
    else { src = pixman_image_create_linear_gradient(&p1, &p2, stops, 3); pixman_image_set_repeat(src, PIXMAN_REPEAT_REFLECT); }
    /* glyphs */
    pixman_glyph_cache_t *cache = NULL; pixman_glyph_t gl[6]; int ngl = 0;
    static uint8_t g8[5][8]; static uint32_t g32[4][6];
    pixman_image_t *gi8 = NULL, *gi32 = NULL;
    if (ep == E7_GLYPHS_MASK || ep == E7_GLYPHS_NO_MASK) {
        for (int y = 0; y < 5; y++) for (int x = 0; x < 8; x++) g8[y][x] = (uint8_t)(x < 7 ? 0x11 * ((x * 3 + y * 5) % 16) : 0);
        for (int y = 0; y < 4; y++) for (int x = 0; x < 6; x++) g32[y][x] = pat(0, (uint64_t)(y * 6 + x + 3));
        gi8 = pixman_image_create_bits(PIXMAN_a8, 7, 5, (uint32_t *)&g8[0][0], 8); gi32 = pixman_image_create_bits(PIXMAN_a8r8g8b8, 6, 4, &g32[0][0], 24);
        cache = pixman_glyph_cache_create(); pixman_glyph_cache_freeze(cache);
        const void *ga = pixman_glyph_cache_insert(cache, (void *)1, (void *)1, 1, 2, gi8), *gb = pixman_glyph_cache_insert(cache, (void *)1, (void *)2, 0, 0, gi32);
        int mix = var % 3;   /* 0: a8 glyphs only, 1: a8r8g8b8 only, 2: mixed */
        int xs[6] = { 1, 6, 12, 20, 30, 44 };     /* overlapping and clipped by the right edge */
        for (int k = 0; k < 6; k++) { gl[ngl].x = xs[k] + (var / 3); gl[ngl].y = 1 + (k & 1); gl[ngl].glyph = mix == 0 ? ga : mix == 1 ? gb : (k & 1 ? ga : gb); ngl++; }
    }
    pixman_trapezoid_t tz[2] = { { 0x4000, 0x5c000, { { 0x28000 + var * 0x5555, 0 }, { 0x10000, 0x60000 } }, { { 0x1c8000, 0 }, { 0x2c0000 - var * 0x3000, 0x60000 } } },
                                 { 0x18000, 0x38000, { { 0x100000, 0x10000 }, { 0x140000, 0x40000 } }, { { 0x2e0000, 0x10000 }, { 0x2f8000, 0x40000 } } } };
    pixman_triangle_t tri[2] = { { { 0x10000 + var * 0x2000, 0x8000 }, { 0x200000, 0x20000 }, { 0x80000, 0x58000 } }, { { 0x2f0000, 0 }, { 0x180000, 0x30000 }, { 0x2a0000, 0x5fff0 } } };
    static const pixman_format_code_t mfmts[3] = { PIXMAN_a8, PIXMAN_a1, PIXMAN_a4 };
    char cfgn[64];
    uint32_t undef = 0; { ph_fmt_t df; ph_fmt_describe(D7[di], D7N[di], &df); undef = ~ph_defined_mask(&df) & (bpp == 32 ? 0xffffffffu : ((1u << bpp) - 1)); }
    for (int ci = -1; ci < NCFGS && !vf_failed(); ci++) {
        int cfg = ci < 0 ? REF_CFG : CFGS[ci]; if (ci >= 0 && cfg == REF_CFG) continue;
        ph_set_cfg(cfg);
        memcpy(db, d0, dsz);
        switch (ep) {
        case E7_GLYPHS_MASK: pixman_composite_glyphs((pixman_op_t)op, src, dst, var & 4 ? PIXMAN_a8r8g8b8 : PIXMAN_a8, srck, 0, 0, 0, 0, 0, W7, H7, cache, ngl, gl); break;
        case E7_GLYPHS_NO_MASK: pixman_composite_glyphs_no_mask((pixman_op_t)op, src, dst, srck, 0, 0, 0, cache, ngl, gl); break;
        case E7_TRAPEZOIDS: pixman_composite_trapezoids((pixman_op_t)op, src, dst, mfmts[var % 3], srck, 0, var / 3 - 1, 0, 2, tz); break;
        case E7_TRIANGLES: pixman_composite_triangles((pixman_op_t)op, src, dst, mfmts[var % 3], srck, 0, 0, var / 6, 2, tri); break;
        case E7_GRADIENT: pixman_image_composite32((pixman_op_t)op, src, NULL, dst, srck == 2 ? -7 : 0, 0, 0, 0, 1, 0, W7 - 2, H7); break;
        case E7_FILL_RECTS: {
            pixman_color_t c = { (uint16_t)(var * 0x1500), 0x2000, (uint16_t)(0xffff - var * 0x1111), srck == 0 ? 0xffff : srck == 1 ? 0xff80 : 0x8000 };
            pixman_rectangle16_t r[3] = { { 1, 0, 9, 3 }, { (int16_t)(5 + var), 2, 30, 3 }, { 40, 1, 20, 9 } };
            pixman_image_fill_rectangles((pixman_op_t)op, dst, &c, 3, r); break; }
        }
        vf_count_libcalls(1);
        if (undef) for (int yy = 0; yy < H7; yy++) { uint8_t *row = (uint8_t *)db + (size_t)yy * stride; for (int xx = 0; xx < W7; xx++) ph_put_pixel(row, bpp, xx, ph_get_pixel(row, bpp, xx) & ~undef); }
        if (ci < 0) memcpy(ref, db, dsz);
        else if (memcmp(ref, db, dsz)) {
            size_t off = 0; while (off < dsz && ((uint8_t *)ref)[off] == ((uint8_t *)db)[off]) off++;
            vf_violation("c02-impl-differs-entry-point", "%s op=%s dest=%s source-kind=%d variant=%d: PIXMAN_DISABLE=[%s] differs from the general path at byte %zu (row %zu, byte-in-row %zu): %02x vs %02x",
                         E7N[ep], rc_op_name(op), D7N[di], srck, var, ph_cfg_name(cfg, cfgn, sizeof cfgn), off, off / stride, off % stride, ((uint8_t *)db)[off], ((uint8_t *)ref)[off]);
        }
    }
    if (!vf_in_confirm) { vf_count_eval(1); if (memcmp(ref, d0, dsz)) vf_count_nontrivial(1); vf_outcome(vf_mix(vf_hash64(ref, dsz, (uint64_t)ep), idx)); }
    if (cache) { pixman_glyph_cache_thaw(cache); pixman_glyph_cache_destroy(cache); }
    if (gi8) pixman_image_unref(gi8); if (gi32) pixman_image_unref(gi32);
    pixman_image_unref(src); pixman_image_unref(dst); free(db); free(d0); free(ref);
}

/* phase 4: blt / fill under every configuration */
static void p4_case(uint64_t idx, void *vctx)
{
    static const int bpps[] = { 1, 4, 8, 16, 24, 32 };
    int bpp = bpps[idx % 6]; idx /= 6; int x = (int)(idx % 20); idx /= 20; int wsel = (int)idx;   /* 0..39 */
    int w = wsel < 20 ? wsel : (wsel - 19) * 13;
    int stride_words = 320;
    size_t size = (size_t)stride_words * 4 * 4;
    uint32_t *a = malloc(size), *srcb = malloc(size), *ref = malloc(size), *a0 = malloc(size);
    for (size_t i = 0; i < size / 4; i++) { a0[i] = pat(1, i); srcb[i] = pat(0, i + 99); }
    char cfgn[64], cfgn2[64];
    /* isblt 2, 3: a blt inside ONE buffer towards lower addresses (scrolling left by one pixel / left and up): every implementation copies rows front to
     * back, which is what callers that scroll in place rely on; whatever the common behaviour is, the implementations must share it */
    for (int isblt = 0; isblt < 4 && !vf_failed(); isblt++) {
        if (isblt >= 2 && bpp < 8) continue;
        int have_ref = 0, ref_cfg = -1;
        for (int ci = -1; ci < NCFGS && !vf_failed(); ci++) {
            int cfg = ci < 0 ? REF_CFG : CFGS[ci];
            ph_set_cfg(cfg);
            memcpy(a, a0, size);
            int ret = isblt == 1 ? pixman_blt(srcb, a, stride_words, stride_words, bpp, bpp, x / 2, 0, x, 1, w, 2)
                    : isblt == 2 ? pixman_blt(a, a, stride_words, stride_words, bpp, bpp, x + 1, 1, x, 1, w, 2)
                    : isblt == 3 ? pixman_blt(a, a, stride_words, stride_words, bpp, bpp, x + 3, 2, x, 1, w, 2)
                            : pixman_fill(a, stride_words, bpp, x, 1, w, 2, 0xa5c3e17bu);
            vf_count_libcalls(1);
            if (!ret) {
                if (memcmp(a, a0, size)) vf_violation("c02-blt-fill-false-but-changed", "%s bpp=%d x=%d w=%d PIXMAN_DISABLE=[%s] returned FALSE but modified the buffer", isblt == 0 ? "fill" : isblt == 1 ? "blt" : isblt == 2 ? "blt in place (x+1 -> x)" : "blt in place (x+3,y+1 -> x,y)", bpp, x, w, ph_cfg_name(cfg, cfgn, sizeof cfgn));
            } else if (!have_ref) { memcpy(ref, a, size); have_ref = 1; ref_cfg = cfg; }
            else if (memcmp(a, ref, size))
                vf_violation("c02-blt-fill-differs", "%s bpp=%d x=%d w=%d: PIXMAN_DISABLE=[%s] and [%s] both report success but leave different buffers", isblt == 0 ? "fill" : isblt == 1 ? "blt" : isblt == 2 ? "blt in place (x+1 -> x)" : "blt in place (x+3,y+1 -> x,y)", bpp, x, w,
                             ph_cfg_name(cfg, cfgn, sizeof cfgn), ph_cfg_name(ref_cfg, cfgn2, sizeof cfgn2));
        }
        if (!vf_in_confirm) { vf_outcome(vf_hash64(have_ref ? ref : a0, size, (uint64_t)bpp * 7 + isblt)); vf_count_eval(1); if (have_ref && w) vf_count_nontrivial(1); }
    }
    free(a); free(srcb); free(ref); free(a0);
}

static void write_coverage(void)
{
    size_t l = 0; char *o = vf->extra_json; size_t cap = sizeof vf->extra_json;
    l += snprintf(o + l, cap - l, "\"dispatch_coverage\": {");
    int total = 0, hit = 0;
    for (int t = 0; t < cov->ntab; t++) {
        int h = 0; for (int k = 0; k < cov->nent[t]; k++) h += cov->hit[t][k];
        total += cov->nent[t]; hit += h;
        l += snprintf(o + l, cap - l, "%s\"%s\": \"%d/%d\"", t ? ", " : "", cov->name[t], h, cov->nent[t]);
    }
    int ct = 0, ch = 0;
    for (int lv = 0; lv < nlevels; lv++) for (int op = 0; op < PIXMAN_N_OPERATORS; op++) for (int k = 0; k < 4; k++) {
        const pixman_implementation_t *li = level_imp[lv];
        void *f = k == 0 ? (void *)li->combine_float[op] : k == 1 ? (void *)li->combine_float_ca[op] : k == 2 ? (void *)li->combine_32[op] : (void *)li->combine_32_ca[op];
        if (f) { ct++; if (cov->comb[lv][op][k]) ch++; }
    }
    l += snprintf(o + l, cap - l, ", \"combiners\": \"%d/%d\", \"table_entries_reached\": \"%d/%d\", \"cache_vs_table_mismatches\": %llu}", ch, ct, hit, total,
                  (unsigned long long)cov->cache_mismatch);
    /* un-hit entries, for the reader (stderr log, not evidence) */
    if (getenv("VF_TIMING")) {
        for (int t = 0; t < cov->ntab; t++) {
            fprintf(stderr, "table %s: un-hit entries:", cov->name[t]);
            for (int k = 0; k < cov->nent[t]; k++) if (!cov->hit[t][k]) {
                if (!cov->is_iter[t]) { const pixman_fast_path_t *e = (const pixman_fast_path_t *)cov->tab[t] + k;
                    fprintf(stderr, "\n   #%d op=%d src=%08x/%08x mask=%08x/%08x dst=%08x/%08x", k, e->op, e->src_format, e->src_flags, e->mask_format, e->mask_flags, e->dest_format, e->dest_flags); }
                else { const pixman_iter_info_t *e = (const pixman_iter_info_t *)cov->tab[t] + k; fprintf(stderr, "\n   #%d fmt=%08x image_flags=%08x iter_flags=%x", k, e->format, e->image_flags, e->iter_flags); }
            }
            fprintf(stderr, "\n");
        }
    }
}

int main(int argc, char **argv)
{
    vf_init(argc, argv, "C02", "exploration");
    ph_init_cfgs();
    cov_init();
    int th = vf_is_thorough();
    vf_rule = "E1 differential: a case is one (operator, source kind, mask kind, destination format[, transform, filter, repeat]) combination executed over a geometry "
              "alphabet (widths, destination alignments, source offsets, strides, a 2-rectangle clip) under every listed PIXMAN_DISABLE configuration; the whole destination "
              "buffer must equal the general-only configuration byte for byte. evaluations = (combination, geometry) requests; non-trivial = the request changed the destination; "
              "dispatch_coverage = fast-path / iterator table entries and combiners actually selected, measured by wrapping the library's lookup functions.";
    vf_assume("x86-64 back ends only (noop, ssse3, sse2, mmx, fast, general); ARM/MIPS/PPC/Loongson paths do not exist on this machine");
    vf_assume("images up to 160x4 pixels; two pixel patterns");
    if (th) { for (int c = 0; c < PH_NCFG; c++) CFGS[NCFGS++] = c; }
    else { static const int q[] = { 0, 8, 12, 14, 15, 16, 16 + 8, 16 + 12, 16 + 14, 31, 1, 16 + 1 }; for (unsigned i = 0; i < sizeof q / sizeof q[0]; i++) CFGS[NCFGS++] = q[i]; }

    static int ops_all[RC_NOPS]; for (int i = 0; i < RC_NOPS; i++) ops_all[i] = rc_all_ops[i];
    static const int ops_q[] = { PIXMAN_OP_CLEAR, PIXMAN_OP_SRC, PIXMAN_OP_OVER, PIXMAN_OP_OVER_REVERSE, PIXMAN_OP_IN, PIXMAN_OP_IN_REVERSE, PIXMAN_OP_OUT_REVERSE, PIXMAN_OP_ADD,
                                 PIXMAN_OP_ATOP, PIXMAN_OP_XOR, PIXMAN_OP_SATURATE, PIXMAN_OP_DISJOINT_OVER, PIXMAN_OP_MULTIPLY, PIXMAN_OP_HSL_HUE };
    const int *ops = th ? ops_all : ops_q; int nops = th ? RC_NOPS : (int)(sizeof ops_q / sizeof ops_q[0]);

    p1_ctx c1 = { nops, ops };
    vf_space_run("phase1-all-format-combinations", (uint64_t)nops * NSRC * NMASK * NDST, p1_case, &c1);

    /* combos that reached a fast path (deterministic: decided by the library's own tables) */
    p2_ctx c2; c2.ops = ops; c2.full = 2; c2.combo = malloc(sizeof(int) * nops * NSRC * NMASK * NDST); c2.n = 0;
    for (int id = 0; id < nops * NSRC * NMASK * NDST; id++) if (cov->hot[id]) c2.combo[c2.n++] = id;
    vf_space_run("phase2-fast-path-combinations-x-loop-geometry", (uint64_t)c2.n, p2_case, &c2);

    p3_ctx c3 = { th ? 1 : 0 };
    vf_space_run("phase3-transformed", (uint64_t)4 * 4 * NXF * 6 * 4 * 6 * 5 * 2, p3_case, &c3);
    vf_space_run("phase4-blt-fill", 6 * 20 * 40, p4_case, NULL);
    vf_space_run("phase5-rotations-covering-source", 3 * 4 * 16 * 4 * 2 * 2, p5_case, NULL);

    p6_ctx c6 = { c2.n, c2.combo, ops };
    vf_space_run("phase6-request-after-request", (uint64_t)c2.n * NV6, p6_case, &c6);

    vf_space_run("phase7-glyphs-trapezoids-gradients-fills", (uint64_t)12 * NO7 * ND7 * 3 * NE7, p7_case, NULL);

    write_coverage();
    if (cov->cache_mismatch && !vf->nviol) {
        vf_rec_t r; memset(&r, 0, sizeof r); snprintf(r.key, sizeof r.key, "c02-cache-returned-other-path"); snprintf(r.space, sizeof r.space, "all");
        snprintf(r.text, sizeof r.text, "%llu lookups returned a function different from the first matching table entry", (unsigned long long)cov->cache_mismatch);
        vf_commit(&r);
    }
    static char bounds[1000];
    snprintf(bounds, sizeof bounds, "%d configurations; %d operators x %d source kinds x %d mask kinds x %d destination formats; loop geometry: %d widths x dest_x 0..7 x 3 source offsets on the %d combinations that reach a fast path; "
             "transformed: 5 ops x 6 src x 3 mask x 6 dst x %d transforms x 4 filters (nearest, bilinear, 3x3 convolution, separable) x 4 repeats; blt/fill 6 bpp x 20 x x 40 widths; rotations 90/180/270 x 4 formats x 16 widths (1..128) x 4 dest_x x 2 heights x 2 ops on covering 132x132 sources; request-after-request: every fast-path combination x 9 one-property changes between two consecutive requests; other entry points (glyphs with/without mask, trapezoids, triangles, 3 gradient kinds x 4 repeats, fill_rectangles) x 8 ops x 8 destination formats x 3 source kinds x 12 variants", NCFGS, nops, NSRC, NMASK, NDST,
             (int)(sizeof W_ALL / sizeof W_ALL[0]), c2.n, NXF);
    vf_bounds = bounds;
    return vf_finish();
}
